(** [Variable] ([variable.rs]) and [Ast] ([ast.rs]).  Literal nodes hold values
    and expression-reference values hold trees, so the two types are mutually
    inductive.  Offsets are kept only where the interpreter reads them
    ([Function], [Slice]). *)
From Coq Require Import Floats.SpecFloat.
From JP Require Import Base F64.

(** [serde_json::Number]: [PosInt(u64) | NegInt(i64 < 0) | Float(finite f64)]. *)
Inductive num := PosInt (n : Z) | NegInt (z : Z) | Flt (f : f64).

Inductive cmpop := CEq | CNe | CLt | CLe | CGt | CGe.

Inductive value :=
| VNull
| VStr (s : str)
| VBool (b : bool)
| VNum (n : num)
| VArr (l : list value)
| VObj (l : list (str * value))      (* BTreeMap: strictly increasing keys *)
| VExpref (a : ast)
with ast :=
| AComparison (c : cmpop) (l r : ast)
| ACondition (p t : ast)
| AIdentity
| AExpref (a : ast)
| AFlatten (a : ast)
| AFunction (off : Z) (name : str) (args : list ast)
| AField (name : str)
| AIndex (i : Z)
| ALiteral (v : value)
| AMultiList (es : list ast)
| AMultiHash (kvs : list (str * ast))
| ANot (a : ast)
| AProjection (l r : ast)
| AObjectValues (a : ast)
| AAnd (l r : ast)
| AOr (l r : ast)
| ASlice (off : Z) (start stop : option Z) (step : Z)
| ASubexpr (l r : ast).

Inductive jtype := TNull | TString | TNumber | TBoolean | TArray | TObject | TExpref.

Definition jtype_eqb (a b : jtype) : bool :=
  match a, b with
  | TNull, TNull | TString, TString | TNumber, TNumber | TBoolean, TBoolean
  | TArray, TArray | TObject, TObject | TExpref, TExpref => true
  | _, _ => false
  end.

Definition get_type (v : value) : jtype :=
  match v with
  | VNull => TNull | VStr _ => TString | VBool _ => TBoolean | VNum _ => TNumber
  | VArr _ => TArray | VObj _ => TObject | VExpref _ => TExpref
  end.

(** ASCII names, as [Display for JmespathType]. *)
Definition type_name (t : jtype) : str :=
  match t with
  | TNull => [110;117;108;108]
  | TString => [115;116;114;105;110;103]
  | TNumber => [110;117;109;98;101;114]
  | TBoolean => [98;111;111;108;101;97;110]
  | TArray => [97;114;114;97;121]
  | TObject => [111;98;106;101;99;116]
  | TExpref => [101;120;112;114;101;102]
  end.

Definition is_null (v : value) : bool := match v with VNull => true | _ => false end.

(** [variable.rs:386-395] *)
Definition is_truthy (v : value) : bool :=
  match v with
  | VBool b => b
  | VStr s => match s with [] => false | _ => true end
  | VArr a => match a with [] => false | _ => true end
  | VObj o => match o with [] => false | _ => true end
  | VNum _ => true
  | _ => false
  end.

(** [Number::as_f64] *)
Definition as_f64 (n : num) : f64 :=
  match n with
  | PosInt z => f_of_Z z
  | NegInt z => f_of_Z z
  | Flt f => f
  end.

(** BTreeMap operations on the sorted association list. *)
Fixpoint obj_get {A} (o : list (str * A)) (k : str) : option A :=
  match o with
  | [] => None
  | (k', v) :: o' => if str_eqb k k' then Some v else obj_get o' k
  end.

Fixpoint obj_insert {A} (o : list (str * A)) (k : str) (v : A) : list (str * A) :=
  match o with
  | [] => [(k, v)]
  | (k', v') :: o' =>
      match str_cmp k k' with
      | Lt => (k, v) :: o
      | Eq => (k, v) :: o'
      | Gt => (k', v') :: obj_insert o' k v
      end
  end.

Definition get_field (v : value) (k : str) : value :=
  match v with
  | VObj o => match obj_get o k with Some r => r | None => VNull end
  | _ => VNull
  end.

(** [get_index(idx as usize)] for [idx >= 0]. *)
Definition get_index (v : value) (i : Z) : value :=
  match v with
  | VArr a => match index_z a i with Some r => r | None => VNull end
  | _ => VNull
  end.

(** [get_negative_index(index)] ([variable.rs:375-383]); [index > 0] here. The
    subtraction [len - adjusted] is guarded by [len >= adjusted]; the indexing is
    then in bounds, modelled with an explicit [Trap] otherwise. *)
Definition get_negative_index (v : value) (index : Z) : res value :=
  match v with
  | VArr a =>
      let adjusted := Z.max index 1 in
      if zlen a >=? adjusted then
        match index_z a (zlen a - adjusted) with Some r => Ok r | None => Trap end
      else Ok VNull
  | _ => Ok VNull
  end.

(** Structural equality of trees: derived [PartialEq for Ast], with the literal
    payloads compared by [PartialEq for Variable] (tolerant floats).  Offsets
    other than those of [Function]/[Slice] are not modelled, so equality of
    expression references is outside what the model claims. *)
Definition cmpop_eqb (a b : cmpop) : bool :=
  match a, b with
  | CEq, CEq | CNe, CNe | CLt, CLt | CLe, CLe | CGt, CGt | CGe, CGe => true
  | _, _ => false
  end.
Definition optz_eqb (a b : option Z) : bool :=
  match a, b with
  | None, None => true
  | Some x, Some y => x =? y
  | _, _ => false
  end.

Section ListEq.
  Context {A : Type} (eqA : A -> A -> bool).
  Fixpoint list_eqb (a b : list A) : bool :=
    match a, b with
    | [], [] => true
    | x :: a', y :: b' => eqA x y && list_eqb a' b'
    | _, _ => false
    end.
End ListEq.

(** [PartialEq for Variable] ([variable.rs:88-110]) — [Vec] and [BTreeMap]
    equality are element-wise (same length, same keys, members equal). *)
Fixpoint var_eq (a b : value) {struct a} : bool :=
  match a, b with
  | VNull, VNull => true
  | VStr s, VStr t => str_eqb s t
  | VBool x, VBool y => Bool.eqb x y
  | VNum x, VNum y => float_eq (as_f64 x) (as_f64 y)
  | VArr x, VArr y =>
      (fix go (x y : list value) : bool :=
         match x, y with
         | [], [] => true
         | u :: x', v :: y' => var_eq u v && go x' y'
         | _, _ => false
         end) x y
  | VObj x, VObj y =>
      (fix go (x y : list (str * value)) : bool :=
         match x, y with
         | [], [] => true
         | (k, u) :: x', (k', v) :: y' => str_eqb k k' && var_eq u v && go x' y'
         | _, _ => false
         end) x y
  | VExpref x, VExpref y => ast_eq x y
  | _, _ => false
  end
with ast_eq (a b : ast) {struct a} : bool :=
  match a, b with
  | AComparison c l r, AComparison c' l' r' => cmpop_eqb c c' && ast_eq l l' && ast_eq r r'
  | ACondition p t, ACondition p' t' => ast_eq p p' && ast_eq t t'
  | AIdentity, AIdentity => true
  | AExpref x, AExpref y => ast_eq x y
  | AFlatten x, AFlatten y => ast_eq x y
  | AFunction o n xs, AFunction o' n' ys =>
      (o =? o') && str_eqb n n' &&
      (fix go (x y : list ast) : bool :=
         match x, y with
         | [], [] => true
         | u :: x', v :: y' => ast_eq u v && go x' y'
         | _, _ => false
         end) xs ys
  | AField n, AField n' => str_eqb n n'
  | AIndex i, AIndex j => i =? j
  | ALiteral v, ALiteral w => var_eq v w
  | AMultiList xs, AMultiList ys =>
      (fix go (x y : list ast) : bool :=
         match x, y with
         | [], [] => true
         | u :: x', v :: y' => ast_eq u v && go x' y'
         | _, _ => false
         end) xs ys
  | AMultiHash xs, AMultiHash ys =>
      (fix go (x y : list (str * ast)) : bool :=
         match x, y with
         | [], [] => true
         | (k, u) :: x', (k', v) :: y' => str_eqb k k' && ast_eq u v && go x' y'
         | _, _ => false
         end) xs ys
  | ANot x, ANot y => ast_eq x y
  | AProjection l r, AProjection l' r' => ast_eq l l' && ast_eq r r'
  | AObjectValues x, AObjectValues y => ast_eq x y
  | AAnd l r, AAnd l' r' => ast_eq l l' && ast_eq r r'
  | AOr l r, AOr l' r' => ast_eq l l' && ast_eq r r'
  | ASlice o s e st, ASlice o' s' e' st' => (o =? o') && optz_eqb s s' && optz_eqb e e' && (st =? st')
  | ASubexpr l r, ASubexpr l' r' => ast_eq l l' && ast_eq r r'
  | _, _ => false
  end.

(** [Ord for Variable] ([variable.rs:137-163]): values of different types are
    [Equal]; strings by byte order; numbers by [partial_cmp] on [as_f64]
    ([Less] when incomparable); everything else [Equal]. *)
Definition var_cmp (a b : value) : comparison :=
  match a, b with
  | VStr s, VStr t => str_cmp s t
  | VNum x, VNum y =>
      match fcompare (as_f64 x) (as_f64 y) with Some c => c | None => Lt end
  | _, _ => Eq
  end.

(** [Variable::compare] ([variable.rs:411-427]); [<] etc. go through the
    overridden [PartialOrd] methods, i.e. through [cmp]. *)
Definition is_number (v : value) : bool := match v with VNum _ => true | _ => false end.

Definition compare_values (c : cmpop) (a b : value) : option bool :=
  let ordering_ok := is_number a && is_number b in
  match c with
  | CEq => Some (var_eq a b)
  | CNe => Some (negb (var_eq a b))
  | CLt => if ordering_ok then Some (match var_cmp a b with Lt => true | _ => false end) else None
  | CLe => if ordering_ok then Some (match var_cmp a b with Gt => false | _ => true end) else None
  | CGt => if ordering_ok then Some (match var_cmp a b with Gt => true | _ => false end) else None
  | CGe => if ordering_ok then Some (match var_cmp a b with Lt => false | _ => true end) else None
  end.
