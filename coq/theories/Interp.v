(** Model of [interpreter.rs] (one arm per node kind), of the runtime registry
    ([runtime.rs]) and of [Expression::search] ([lib.rs:396-399]).
    [interp fuel rt data node off] returns the value and the context offset
    after evaluation ([ctx.offset] is a mutable cursor that is set at every call
    and at a step-0 slice, and restored when a call returns successfully). *)
From Coq Require Import Floats.SpecFloat.
From JP Require Import Base F64 Value Sig Slice JsonRead JsonPrint Functions Gen.Tables.

(** A registered function: a builtin struct with the signature it was declared
    with, or a custom function (harness closures return the list
    [[id, [args...]]], optionally behind a [CustomFunction] signature). *)
Inductive fimpl :=
| FBuiltin (b : builtin) (sg : signature)
| FCustom (id : Z) (sg : option signature).

Definition registry := list (str * fimpl).     (* HashMap<String, Box<dyn Function>> *)

Definition rt_get (rt : registry) (name : str) : option fimpl := obj_get rt name.
Definition rt_register (rt : registry) (name : str) (f : fimpl) : registry := obj_insert rt name f.
Fixpoint rt_deregister (rt : registry) (name : str) : registry :=
  match rt with
  | [] => []
  | (k, f) :: rt' => if str_eqb k name then rt' else (k, f) :: rt_deregister rt' name
  end.

(** Struct names of [functions.rs] to the modelled implementations. *)
Definition struct_table : list (str * builtin) :=
  [ ([65;98;115;70;110], BAbs); ([65;118;103;70;110], BAvg); ([67;101;105;108;70;110], BCeil);
    ([67;111;110;116;97;105;110;115;70;110], BContains); ([69;110;100;115;87;105;116;104;70;110], BEndsWith);
    ([70;108;111;111;114;70;110], BFloor); ([74;111;105;110;70;110], BJoin); ([75;101;121;115;70;110], BKeys);
    ([76;101;110;103;116;104;70;110], BLength); ([77;97;112;70;110], BMap); ([77;97;120;70;110], BMax);
    ([77;97;120;66;121;70;110], BMaxBy); ([77;101;114;103;101;70;110], BMerge); ([77;105;110;70;110], BMin);
    ([77;105;110;66;121;70;110], BMinBy); ([78;111;116;78;117;108;108;70;110], BNotNull);
    ([82;101;118;101;114;115;101;70;110], BReverse); ([83;111;114;116;70;110], BSort);
    ([83;111;114;116;66;121;70;110], BSortBy); ([83;116;97;114;116;115;87;105;116;104;70;110], BStartsWith);
    ([83;117;109;70;110], BSum); ([84;111;65;114;114;97;121;70;110], BToArray);
    ([84;111;78;117;109;98;101;114;70;110], BToNumber); ([84;111;83;116;114;105;110;103;70;110], BToString);
    ([84;121;112;101;70;110], BType); ([86;97;108;117;101;115;70;110], BValues) ].

(** [register_builtin_functions]: the generated registration list, in source order. *)
Definition builtin_entries : list (str * fimpl) :=
  flat_map (fun '(name, st, sg) =>
              match obj_get struct_table st with
              | Some b => [(name, FBuiltin b sg)]
              | None => []
              end) gen_registry.

Definition register_builtins (rt : registry) : registry :=
  fold_left (fun r kv => rt_register r (fst kv) (snd kv)) builtin_entries rt.

Definition default_runtime : registry := register_builtins [].

Definition call_impl (ev : evaluator) (f : fimpl) (args : list value) (off : Z) : res (value * Z) :=
  match f with
  | FBuiltin b sg => call_builtin ev b sg args off
  | FCustom id sg =>
      let* _ := match sg with Some s => validate s args off | None => Ok tt end in
      ret (VArr [VNum (PosInt id); VArr args]) off
  end.

(** The three loops of the interpreter, over an evaluator for the element. *)
Fixpoint proj_loop (ev1 : value -> Z -> res (value * Z)) (es : list value) (acc : list value) (o : Z) : res (value * Z) :=
  match es with
  | [] => Ok (VArr (rev acc), o)
  | e :: es' =>
      let* (cur, o') := ev1 e o in
      if is_null cur then proj_loop ev1 es' acc o' else proj_loop ev1 es' (cur :: acc) o'
  end.

Fixpoint eval_list (evd : ast -> Z -> res (value * Z)) (es : list ast) (acc : list value) (o : Z) : res (list value * Z) :=
  match es with
  | [] => Ok (rev acc, o)
  | e :: es' => let* (v, o') := evd e o in eval_list evd es' (v :: acc) o'
  end.

Fixpoint eval_kvs (evd : ast -> Z -> res (value * Z)) (kvs : list (str * ast)) (acc : list (str * value)) (o : Z)
  : res (list (str * value) * Z) :=
  match kvs with
  | [] => Ok (acc, o)
  | (k, e) :: kvs' => let* (v, o') := evd e o in eval_kvs evd kvs' (obj_insert acc k v) o'
  end.

Fixpoint interp (fuel : nat) (rt : registry) (data : value) (node : ast) (off : Z) {struct fuel} : res (value * Z) :=
  match fuel with
  | O => OOF
  | S f =>
      let ev := interp f rt in
      match node with
      | AField name => Ok (get_field data name, off)
      | ASubexpr l r => let* (lv, o1) := ev data l off in ev lv r o1
      | AIdentity => Ok (data, off)
      | ALiteral v => Ok (v, off)
      | AIndex idx =>
          if idx >=? 0 then Ok (get_index data idx, off)
          else if idx =? i32_min then Trap
          else let* v := get_negative_index data (- idx) in Ok (v, off)
      | AOr l r =>
          let* (lv, o1) := ev data l off in
          if is_truthy lv then Ok (lv, o1) else ev data r o1
      | AAnd l r =>
          let* (lv, o1) := ev data l off in
          if negb (is_truthy lv) then Ok (lv, o1) else ev data r o1
      | ANot n => let* (v, o1) := ev data n off in Ok (VBool (negb (is_truthy v)), o1)
      | ACondition p t =>
          let* (c, o1) := ev data p off in
          if is_truthy c then ev data t o1 else Ok (VNull, o1)
      | AComparison c l r =>
          let* (lv, o1) := ev data l off in
          let* (rv, o2) := ev data r o1 in
          Ok (match compare_values c lv rv with Some b => VBool b | None => VNull end, o2)
      | AObjectValues n =>
          let* (s, o1) := ev data n off in
          match s with
          | VObj o => Ok (VArr (map snd o), o1)
          | _ => Ok (VNull, o1)
          end
      | AProjection l r =>
          let* (lv, o1) := ev data l off in
          match lv with
          | VArr elems => proj_loop (fun e o => ev e r o) elems [] o1
          | _ => Ok (VNull, o1)
          end
      | AFlatten n =>
          let* (v, o1) := ev data n off in
          match v with
          | VArr a =>
              Ok (VArr (flat_map (fun e => match e with VArr inner => inner | _ => [e] end) a), o1)
          | _ => Ok (VNull, o1)
          end
      | AMultiList es =>
          if is_null data then Ok (VNull, off)
          else let* (vs, o1) := eval_list (fun e o => ev data e o) es [] off in Ok (VArr vs, o1)
      | AMultiHash kvs =>
          if is_null data then Ok (VNull, off)
          else let* (m, o1) := eval_kvs (fun e o => ev data e o) kvs [] off in Ok (VObj m, o1)
      | AFunction foff name args =>
          let* (fn_args, caller_offset) := eval_list (fun e o => ev data e o) args [] off in
          (* ctx.offset = offset; on success the caller's offset is restored *)
          match rt_get rt name with
          | Some fi => let* (v, _) := call_impl ev fi fn_args foff in Ok (v, caller_offset)
          | None => Err (ERuntime (KUnknownFunction name) foff)
          end
      | AExpref a => Ok (VExpref a, off)
      | ASlice soff start stop step =>
          if step =? 0 then Err (ERuntime KInvalidSlice soff)
          else
            match data with
            | VArr arr => let* l := slice arr start stop step in Ok (VArr l, off)
            | _ => Ok (VNull, off)
            end
      end
  end.

(** [Expression::search]: a fresh context (offset 0) per call. *)
Definition search_ast (fuel : nat) (rt : registry) (node : ast) (data : value) : res value :=
  let* (v, _) := interp fuel rt data node 0 in Ok v.
