(** Extraction of the executable model (ExtrOcamlBasic only: [bool], [option],
    [unit], [list], [prod], [sumbool], [sumor] are mapped to OCaml's; [Z],
    [positive], [N] and everything else stay the Coq datatypes; no
    [Extract Constant]). The path is relative to the directory [make] runs in. *)
From Coq Require Import Extraction ExtrOcamlBasic.
From JP Require Import Base Run.
Extraction Language OCaml.
Extraction "../ocaml/gen/model.ml" run_line.
