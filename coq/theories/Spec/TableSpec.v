(** The documented binding-power order, as a decidable predicate on a table:
    pipe < or < and < comparison (all six equal) < flatten < projection-stop <=
    wildcard < filter < dot < not < brace < bracket < call; every other token 0. *)
From JP Require Import Base Gen.Tables.

Definition table_order_ok (L : tk -> Z) (stop : Z) : bool :=
  (0 <? L KPipe) && (L KPipe <? L KOr) && (L KOr <? L KAnd) && (L KAnd <? L KEq)
  && (L KEq =? L KNe) && (L KEq =? L KLt) && (L KEq =? L KLte) && (L KEq =? L KGt) && (L KEq =? L KGte)
  && (L KEq <? L KFlatten) && (L KFlatten <? stop) && (stop <=? L KStar) && (L KStar <? L KFilter)
  && (L KFilter <? L KDot) && (L KDot <? L KNot) && (L KNot <? L KLbrace) && (L KLbrace <? L KLbracket)
  && (L KLbracket <? L KLparen)
  && forallb (fun t => L t =? 0)
       [KIdentifier; KQuotedIdentifier; KNumber; KLiteral; KRbracket; KComma; KColon; KAt; KAmpersand; KRparen; KRbrace; KEof].

(** The documented table itself (the numbers of the reference implementation's
    documentation; only their order matters). The reference parser of
    Parser.v is instantiated with it, never with the table read from the code. *)
Definition spec_lbp (t : tk) : Z :=
  match t with
  | KPipe => 1 | KOr => 2 | KAnd => 3
  | KEq | KNe | KLt | KLte | KGt | KGte => 5
  | KFlatten => 9 | KStar => 20 | KFilter => 21 | KDot => 40 | KNot => 45
  | KLbrace => 50 | KLbracket => 55 | KLparen => 60
  | _ => 0
  end.
Definition spec_stop : Z := 10.

Lemma spec_table_order : table_order_ok spec_lbp spec_stop = true.
Proof. vm_compute. reflexivity. Qed.
