(** The signature table of the JMESPath function specification, typed in from
    the specification (not from the code), and the declarative reading of
    signature checking: arity first, then parameter types left to right. *)
From JP Require Import Base F64 Value Sig.

(** Specification types. [SAny] is the specification's [any]: every JSON value
    (array, object, number, string, boolean, null) — expression references are
    not values. *)
Inductive stype := SAny | SNumber | SString | SBoolean | SArray | SObject | SNull | SExpref | SNever
                 | SArrayOf (t : stype) | SOr (a b : stype).

Fixpoint has_stype (t : stype) (v : value) : bool :=
  match t with
  | SAny => match v with VExpref _ => false | _ => true end
  | SNumber => match v with VNum _ => true | _ => false end
  | SString => match v with VStr _ => true | _ => false end
  | SBoolean => match v with VBool _ => true | _ => false end
  | SArray => match v with VArr _ => true | _ => false end
  | SObject => match v with VObj _ => true | _ => false end
  | SNull => match v with VNull => true | _ => false end
  | SExpref => match v with VExpref _ => true | _ => false end
  | SNever => false
  | SArrayOf t' => match v with VArr a => forallb (has_stype t') a | _ => false end
  | SOr a b => has_stype a v || has_stype b v
  end.

Record ssig := mkSSig { s_params : list stype; s_variadic : option stype; s_result : stype }.

Definition N := [110].
(** name, parameters, variadic tail, result type *)
Definition spec_table : list (str * ssig) :=
  [ ([97;98;115],                           mkSSig [SNumber] None SNumber);                                        (* abs *)
    ([97;118;103],                          mkSSig [SArrayOf SNumber] None (SOr SNumber SNull));                   (* avg *)
    ([99;101;105;108],                      mkSSig [SNumber] None SNumber);                                        (* ceil *)
    ([99;111;110;116;97;105;110;115],       mkSSig [SOr SString SArray; SAny] None SBoolean);                      (* contains *)
    ([101;110;100;115;95;119;105;116;104],  mkSSig [SString; SString] None SBoolean);                              (* ends_with *)
    ([102;108;111;111;114],                 mkSSig [SNumber] None SNumber);                                        (* floor *)
    ([106;111;105;110],                     mkSSig [SString; SArrayOf SString] None SString);                      (* join *)
    ([107;101;121;115],                     mkSSig [SObject] None (SArrayOf SString));                             (* keys *)
    ([108;101;110;103;116;104],             mkSSig [SOr SArray (SOr SObject SString)] None SNumber);               (* length *)
    ([109;97;112],                          mkSSig [SExpref; SArray] None SArray);                                 (* map *)
    ([109;105;110],                         mkSSig [SOr (SArrayOf SString) (SArrayOf SNumber)] None (SOr SNumber (SOr SString SNull)));   (* min *)
    ([109;97;120],                          mkSSig [SOr (SArrayOf SString) (SArrayOf SNumber)] None (SOr SNumber (SOr SString SNull)));   (* max *)
    ([109;97;120;95;98;121],                mkSSig [SArray; SExpref] None SAny);                                   (* max_by *)
    ([109;105;110;95;98;121],               mkSSig [SArray; SExpref] None SAny);                                   (* min_by *)
    ([109;101;114;103;101],                 mkSSig [SObject] (Some SObject) SObject);                              (* merge *)
    ([110;111;116;95;110;117;108;108],      mkSSig [SAny] (Some SAny) SAny);                                       (* not_null *)
    ([114;101;118;101;114;115;101],         mkSSig [SOr SArray SString] None (SOr SArray SString));                (* reverse *)
    ([115;111;114;116],                     mkSSig [SOr (SArrayOf SString) (SArrayOf SNumber)] None SArray);       (* sort *)
    ([115;111;114;116;95;98;121],           mkSSig [SArray; SExpref] None SArray);                                 (* sort_by *)
    ([115;116;97;114;116;115;95;119;105;116;104], mkSSig [SString; SString] None SBoolean);                        (* starts_with *)
    ([115;117;109],                         mkSSig [SArrayOf SNumber] None SNumber);                               (* sum *)
    ([116;111;95;97;114;114;97;121],        mkSSig [SAny] None SArray);                                            (* to_array *)
    ([116;111;95;110;117;109;98;101;114],   mkSSig [SAny] None (SOr SNumber SNull));                               (* to_number *)
    ([116;111;95;115;116;114;105;110;103],  mkSSig [SAny] None SString);                                           (* to_string *)
    ([116;121;112;101],                     mkSSig [SAny] None SString);                                           (* type *)
    ([118;97;108;117;101;115],              mkSSig [SObject] None SArray) ].                                       (* values *)

(** Reading of the code's [ArgumentType] as a specification type. The code's
    [Any] is read as the specification's [any]; the one semantic difference
    ([ArgumentType::Any] also admits expression references) is isolated in
    [Proofs/SigProof.v]. A union listing all six JSON kinds is [any]. *)
Fixpoint stype_of (t : argtype) : stype :=
  match t with
  | TyAny => SAny | TyNull => SNull | TyString => SString | TyNumber => SNumber | TyBool => SBoolean
  | TyObject => SObject | TyArray => SArray | TyExpref => SExpref
  | TyTypedArray t' => SArrayOf (stype_of t')
  | TyUnion ts =>
      (fix go (ts : list argtype) : stype :=
         match ts with
         | [] => SNever
         | [t'] => stype_of t'
         | t' :: r => SOr (stype_of t') (go r)
         end) ts
  end.

(** Equality of specification types up to the order and grouping of unions and
    the reading of [any] as the union of the six JSON kinds: both are flattened
    to sets of atoms (soundness: [Proofs/SigProof.v]). *)
Inductive atom := ANull | ABool | ANum | AStr | AObj | AExp | AArr | AArrOf (t : stype).

Fixpoint atoms (t : stype) : list atom :=
  match t with
  | SAny => [ANull; ABool; ANum; AStr; AObj; AArr]
  | SNumber => [ANum] | SString => [AStr] | SBoolean => [ABool] | SArray => [AArr] | SObject => [AObj]
  | SNull => [ANull] | SExpref => [AExp] | SNever => []
  | SArrayOf t' => [AArrOf t']
  | SOr a b => atoms a ++ atoms b
  end.

Definition has_atom (v : value) (a : atom) : bool :=
  match a with
  | ANull => match v with VNull => true | _ => false end
  | ABool => match v with VBool _ => true | _ => false end
  | ANum => match v with VNum _ => true | _ => false end
  | AStr => match v with VStr _ => true | _ => false end
  | AObj => match v with VObj _ => true | _ => false end
  | AExp => match v with VExpref _ => true | _ => false end
  | AArr => match v with VArr _ => true | _ => false end
  | AArrOf t => match v with VArr l => forallb (has_stype t) l | _ => false end
  end.

Fixpoint stype_eqb (a b : stype) : bool :=
  match a, b with
  | SAny, SAny | SNumber, SNumber | SString, SString | SBoolean, SBoolean | SArray, SArray
  | SObject, SObject | SNull, SNull | SExpref, SExpref | SNever, SNever => true
  | SArrayOf x, SArrayOf y => stype_eqb x y
  | SOr x1 x2, SOr y1 y2 => stype_eqb x1 y1 && stype_eqb x2 y2
  | _, _ => false
  end.

Definition atom_eqb (a b : atom) : bool :=
  match a, b with
  | ANull, ANull | ABool, ABool | ANum, ANum | AStr, AStr | AObj, AObj | AExp, AExp | AArr, AArr => true
  | AArrOf x, AArrOf y => stype_eqb x y
  | _, _ => false
  end.

Definition atom_subset (x y : list atom) : bool := forallb (fun a => existsb (atom_eqb a) y) x.
Definition stype_equiv (a b : stype) : bool := atom_subset (atoms a) (atoms b) && atom_subset (atoms b) (atoms a).

Definition sig_matches (sg : signature) (ss : ssig) : bool :=
  (length (sig_inputs sg) =? length (s_params ss))%nat &&
  forallb (fun '(t, s) => stype_equiv (stype_of t) s) (combine (sig_inputs sg) (s_params ss)) &&
  match sig_variadic sg, s_variadic ss with
  | None, None => true
  | Some t, Some s => stype_equiv (stype_of t) s
  | _, _ => false
  end.

(** The generated registration list is the specification's table: same names, and
    each name bound to a struct whose declared signature matches. *)
Definition registry_matches (reg : list (str * str * signature)) : bool :=
  (length reg =? length spec_table)%nat &&
  forallb (fun '(name, _, sg) =>
             match obj_get spec_table name with
             | Some ss => sig_matches sg ss
             | None => false
             end) reg &&
  forallb (fun '(name, _) => existsb (fun '(n', _, _) => str_eqb name n') reg) spec_table.

(** Declarative signature checking. *)
Definition param_type (sg : signature) (k : nat) : option argtype :=
  match nth_error (sig_inputs sg) k with
  | Some t => Some t
  | None => sig_variadic sg
  end.

Fixpoint first_bad (sg : signature) (args : list value) (k : nat) : option (nat * argtype * value) :=
  match args with
  | [] => None
  | v :: r =>
      match param_type sg k with
      | Some t => if is_valid t v then first_bad sg r (S k) else Some (k, t, v)
      | None => None
      end
  end.

Definition validate_spec (sg : signature) (args : list value) (off : Z) : res unit :=
  let expected := zlen (sig_inputs sg) in
  let actual := zlen args in
  if actual <? expected then Err (ERuntime (KNotEnough expected actual) off)
  else if match sig_variadic sg with None => expected <? actual | Some _ => false end
  then Err (ERuntime (KTooMany expected actual) off)
  else match first_bad sg args 0 with
       | Some (k, t, v) => Err (ERuntime (KInvalidType (argtype_name t) (type_name (get_type v)) (Z.of_nat k)) off)
       | None => Ok tt
       end.

(** The specification's own verdict on a call, read from [spec_table] alone
    (oracle of the violation search; no reference to the code's registry). *)
Inductive sverdict := SVUnknown | SVNotEnough (e a : Z) | SVTooMany (e a : Z) | SVBadType (k : Z) | SVAccept.

Fixpoint sfirst_bad (ps : list stype) (var : option stype) (args : list value) (k : Z) : option Z :=
  match args with
  | [] => None
  | v :: r =>
      match ps with
      | t :: ps' => if has_stype t v then sfirst_bad ps' var r (k + 1) else Some k
      | [] =>
          match var with
          | Some t => if has_stype t v then sfirst_bad [] var r (k + 1) else Some k
          | None => None
          end
      end
  end.

Definition spec_verdict (name : str) (args : list value) : sverdict :=
  match obj_get spec_table name with
  | None => SVUnknown
  | Some ss =>
      let e := zlen (s_params ss) in
      let a := zlen args in
      if a <? e then SVNotEnough e a
      else if match s_variadic ss with None => e <? a | Some _ => false end then SVTooMany e a
      else match sfirst_bad (s_params ss) (s_variadic ss) args 0 with
           | Some k => SVBadType k
           | None => SVAccept
           end
  end.

(** two lists of names with the same members, the first without repetition *)
Fixpoint nodup_names (l : list str) : bool :=
  match l with [] => true | n :: r => negb (existsb (str_eqb n) r) && nodup_names r end.
Definition same_names (a b : list str) : bool :=
  (length a =? length b)%nat && nodup_names a &&
  forallb (fun n => existsb (str_eqb n) b) a && forallb (fun n => existsb (str_eqb n) a) b.
