(** Denotational semantics of the core expression forms, written from the
    JMESPath specification in comprehension style: structural recursion on the
    tree, [map]/[filter]/[concat] instead of loops with accumulators, finite-map
    lookup, the closed-form slice.  No evaluation context, no fuel. *)
From JP Require Import Base F64 Value Spec.SliceSpec.

(** Truthiness: the false-like values are the empty list, the empty object, the
    empty string, [false] and [null] (in particular the number 0 is truthy). *)
Definition false_like (v : value) : bool :=
  match v with
  | VArr [] | VObj [] | VStr [] | VBool false | VNull => true
  | VExpref _ => true     (* not a JSON value: the specification is silent; recorded as the implementation's choice *)
  | _ => false
  end.
Definition truthy (v : value) : bool := negb (false_like v).

Definition non_null (v : value) : bool := match v with VNull => false | _ => true end.

Definition opt_null (o : option value) : value := match o with Some v => v | None => VNull end.

(** Member lookup in an object seen as a finite map. *)
Definition lookup (k : str) (d : value) : value :=
  match d with
  | VObj o => opt_null (option_map snd (find (fun kv => str_eqb k (fst kv)) o))
  | _ => VNull
  end.

Definition elements (v : value) : list value := match v with VArr a => a | _ => [v] end.

(** Comparison: [==]/[!=] on any two values, ordering only on two numbers. *)
Definition spec_compare (c : cmpop) (a b : value) : value :=
  match compare_values c a b with Some r => VBool r | None => VNull end.

Fixpoint mapM {A B} (f : A -> res B) (l : list A) : res (list B) :=
  match l with
  | [] => Ok []
  | x :: l' => let* y := f x in let* ys := mapM f l' in Ok (y :: ys)
  end.

(** Record construction: later duplicate keys win; members in ascending key order. *)
Definition record (kvs : list (str * value)) : value :=
  VObj (fold_left (fun m kv => obj_insert m (fst kv) (snd kv)) kvs []).

Fixpoint eval (e : ast) (d : value) {struct e} : res value :=
  match e with
  | AIdentity => Ok d
  | AField k => Ok (lookup k d)
  | AIndex i => Ok (match d with VArr a => opt_null (spec_index a i) | _ => VNull end)
  | ALiteral v => Ok v
  | ASubexpr l r => let* x := eval l d in eval r x
  | AOr l r => let* x := eval l d in if truthy x then Ok x else eval r d
  | AAnd l r => let* x := eval l d in if truthy x then eval r d else Ok x
  | ANot x => let* v := eval x d in Ok (VBool (negb (truthy v)))
  | ACondition p t => let* c := eval p d in if truthy c then eval t d else Ok VNull
  | AComparison c l r => let* x := eval l d in let* y := eval r d in Ok (spec_compare c x y)
  | AObjectValues x =>
      let* v := eval x d in
      Ok (match v with VObj o => VArr (map snd o) | _ => VNull end)
  | AFlatten x =>
      let* v := eval x d in
      Ok (match v with VArr a => VArr (concat (map elements a)) | _ => VNull end)
  | AProjection l r =>
      let* v := eval l d in
      match v with
      | VArr a => let* xs := mapM (eval r) a in Ok (VArr (filter non_null xs))
      | _ => Ok VNull
      end
  | AMultiList es =>
      if non_null d then
        let* xs := (fix go (es : list ast) : res (list value) :=
                      match es with
                      | [] => Ok []
                      | e' :: es' => let* y := eval e' d in let* ys := go es' in Ok (y :: ys)
                      end) es in
        Ok (VArr xs)
      else Ok VNull
  | AMultiHash kvs =>
      if non_null d then
        let* xs := (fix go (kvs : list (str * ast)) : res (list (str * value)) :=
                      match kvs with
                      | [] => Ok []
                      | (k, e') :: kvs' => let* y := eval e' d in let* ys := go kvs' in Ok ((k, y) :: ys)
                      end) kvs in
        Ok (record xs)
      else Ok VNull
  | ASlice off start stop step =>
      if step =? 0 then Err (ERuntime KInvalidSlice off)
      else Ok (match d with VArr a => VArr (spec_slice a start stop step) | _ => VNull end)
  | AExpref _ | AFunction _ _ _ => Unmodelled     (* not core forms *)
  end.

(** The core forms of C01. *)
Fixpoint core (e : ast) : bool :=
  match e with
  | AIdentity | AField _ | ALiteral _ => true
  | AIndex i => i32_min <? i
  | ASlice _ _ _ step => i32_min <=? step
  | ASubexpr l r | AOr l r | AAnd l r | ACondition l r | AProjection l r | AComparison _ l r => core l && core r
  | ANot x | AObjectValues x | AFlatten x => core x
  | AMultiList es => (fix go (es : list ast) : bool := match es with [] => true | x :: r => core x && go r end) es
  | AMultiHash kvs => (fix go (kvs : list (str * ast)) : bool := match kvs with [] => true | (_, x) :: r => core x && go r end) kvs
  | AExpref _ | AFunction _ _ _ => false
  end.

Fixpoint height (e : ast) : nat :=
  match e with
  | AIdentity | AField _ | ALiteral _ | AIndex _ | ASlice _ _ _ _ => 1%nat
  | ASubexpr l r | AOr l r | AAnd l r | ACondition l r | AProjection l r | AComparison _ l r => S (Nat.max (height l) (height r))
  | ANot x | AObjectValues x | AFlatten x | AExpref x => S (height x)
  | AMultiList es => S ((fix go (es : list ast) : nat := match es with [] => 0%nat | x :: r => Nat.max (height x) (go r) end) es)
  | AMultiHash kvs => S ((fix go (kvs : list (str * ast)) : nat := match kvs with [] => 0%nat | (_, x) :: r => Nat.max (height x) (go r) end) kvs)
  | AFunction _ _ args => S ((fix go (es : list ast) : nat := match es with [] => 0%nat | x :: r => Nat.max (height x) (go r) end) args)
  end.
