(** The JMESPath grammar as concrete syntax trees with binding-power side
    conditions (DESIGN.md 4.1): one constructor per production, [flat] prints a
    tree to tokens, [erase] gives its abstract tree (the offsets the trees carry
    for error reporting are annotations of the syntax tree), and [ok] carries the
    disambiguation: an operand parsed "with right binding power q" must have
    [q < lo operand]; the left operand of an operator of power p needs
    [p <= tr left]. No reference to a parsing algorithm. *)
From JP Require Import Base Value Lexer.

Inductive binop := BOr | BAnd | BPipe | BCmp (c : cmpop).

Definition binop_tok (o : binop) : token :=
  match o with
  | BOr => TOr | BAnd => TAnd | BPipe => TPipe
  | BCmp CEq => TEq | BCmp CNe => TNe | BCmp CLt => TLt | BCmp CLe => TLte | BCmp CGt => TGt | BCmp CGe => TGte
  end.

(** [a : b (: c)?] — which colons and numbers are present *)
Record slice_parts := mkSl { sl_a : option Z; sl_b : option Z; sl_c : option (option Z) }.

Inductive cst :=
| CCurrent | CIdent (s : str) | CQIdent (s : str) | CLit (v : value)
| CNot (c : cst) | CParen (c : cst)
| CMList (e : cst) (es : list cst)                       (* non-empty by construction *)
| CMHash (kv : bool * str * cst) (kvs : list (bool * str * cst))
| CCall (off : Z) (name : str) (args : list (bool * cst))   (* [true] = expression-reference argument; [off]: position annotation *)
| CStarP (k : cont) | CFlattenP (k : cont) | CFilterP (p : cst) (k : cont) | CWildP (k : cont)
| CIndexP (n : Z) | CSliceP (off : Z) (sl : slice_parts) (k : cont)
| CBin (o : binop) (l r : cst)
| CDot (l d : cst)
| CDotStar (l : cst) (k : cont)
| CIndex (l : cst) (n : Z) | CSlice (l : cst) (off : Z) (sl : slice_parts) (k : cont)
| CWild (l : cst) (k : cont) | CFlatten (l : cst) (k : cont) | CFilter (l p : cst) (k : cont)
(* not productions of the grammar: the two forms the code accepts beyond it (see [wfb]) *)
| CAmp (x : cst)                                               (* [&x] outside an argument list *)
| CCallOn (l : cst) (off : Z) (name : str) (args : list (bool * cst))   (* [l(args)] where [l] is not an identifier token *)
with cont := KNone | KDot (d : cst) | KExpr (x : cst).

Definition optnum (o : option Z) : list token := match o with Some n => [TNumber n] | None => [] end.

Definition slice_toks (sl : slice_parts) : list token :=
  optnum (sl_a sl) ++ TColon :: optnum (sl_b sl) ++
  match sl_c sl with None => [] | Some c => TColon :: optnum c end.

Definition key_tok (q : bool) (k : str) : token := if q then TQuotedIdentifier k else TIdentifier k.

Fixpoint flat (c : cst) : list token :=
  match c with
  | CCurrent => [TAt] | CIdent s => [TIdentifier s] | CQIdent s => [TQuotedIdentifier s] | CLit v => [TLiteral v]
  | CNot x => TNot :: flat x
  | CParen x => TLparen :: flat x ++ [TRparen]
  | CMList e es =>
      TLbracket :: flat e ++
        (fix go (es : list cst) : list token := match es with [] => [TRbracket] | x :: r => TComma :: flat x ++ go r end) es
  | CMHash (q, k, e) kvs =>
      TLbrace :: key_tok q k :: TColon :: flat e ++
        (fix go (kvs : list (bool * str * cst)) : list token :=
           match kvs with [] => [TRbrace] | (q', k', x) :: r => TComma :: key_tok q' k' :: TColon :: flat x ++ go r end) kvs
  | CCall _ name args =>
      TIdentifier name :: TLparen ::
        match args with
        | [] => [TRparen]
        | (b, x) :: r =>
            (if b then [TAmpersand] else []) ++ flat x ++
              (fix go (args : list (bool * cst)) : list token :=
                 match args with
                 | [] => [TRparen]
                 | (b', y) :: r' => TComma :: (if b' then [TAmpersand] else []) ++ flat y ++ go r'
                 end) r
        end
  | CStarP k => TStar :: flatk k
  | CFlattenP k => TFlatten :: flatk k
  | CFilterP p k => TFilter :: flat p ++ TRbracket :: flatk k
  | CWildP k => TLbracket :: TStar :: TRbracket :: flatk k
  | CIndexP n => [TLbracket; TNumber n; TRbracket]
  | CSliceP _ sl k => TLbracket :: slice_toks sl ++ TRbracket :: flatk k
  | CBin o l r => flat l ++ binop_tok o :: flat r
  | CDot l d => flat l ++ TDot :: flat d
  | CDotStar l k => flat l ++ TDot :: TStar :: flatk k
  | CIndex l n => flat l ++ [TLbracket; TNumber n; TRbracket]
  | CSlice l _ sl k => flat l ++ TLbracket :: slice_toks sl ++ TRbracket :: flatk k
  | CWild l k => flat l ++ TLbracket :: TStar :: TRbracket :: flatk k
  | CFlatten l k => flat l ++ TFlatten :: flatk k
  | CFilter l p k => flat l ++ TFilter :: flat p ++ TRbracket :: flatk k
  | CAmp x => TAmpersand :: flat x
  | CCallOn l _ _ args =>
      flat l ++ TLparen ::
        match args with
        | [] => [TRparen]
        | (b, x) :: r =>
            (if b then [TAmpersand] else []) ++ flat x ++
              (fix go (args : list (bool * cst)) : list token :=
                 match args with
                 | [] => [TRparen]
                 | (b', y) :: r' => TComma :: (if b' then [TAmpersand] else []) ++ flat y ++ go r'
                 end) r
        end
  end
with flatk (k : cont) : list token :=
  match k with
  | KNone => []
  | KDot d => TDot :: flat d
  | KExpr x => flat x
  end.

Definition slice_ast (off : Z) (sl : slice_parts) : ast :=
  ASlice off (sl_a sl) (sl_b sl) (match sl_c sl with Some (Some s) => s | _ => 1 end).

Definition bin_ast (o : binop) (l r : ast) : ast :=
  match o with
  | BOr => AOr l r | BAnd => AAnd l r | BPipe => ASubexpr l r | BCmp c => AComparison c l r
  end.

Fixpoint erase (c : cst) : ast :=
  match c with
  | CCurrent => AIdentity | CIdent s | CQIdent s => AField s | CLit v => ALiteral v
  | CNot x => ANot (erase x)
  | CParen x => erase x
  | CMList e es => AMultiList (erase e :: map erase es)
  | CMHash (_, k, e) kvs => AMultiHash ((k, erase e) :: map (fun kv : bool * str * cst => let '(_, k', x) := kv in (k', erase x)) kvs)
  | CCall off name args => AFunction off name (map (fun a : bool * cst => let '(b, x) := a in if b then AExpref (erase x) else erase x) args)
  | CStarP k => AProjection (AObjectValues AIdentity) (erasek k)
  | CFlattenP k => AProjection (AFlatten AIdentity) (erasek k)
  | CFilterP p k => AProjection AIdentity (ACondition (erase p) (erasek k))
  | CWildP k => AProjection AIdentity (erasek k)
  | CIndexP n => AIndex n
  | CSliceP off sl k => AProjection (slice_ast off sl) (erasek k)
  | CBin o l r => bin_ast o (erase l) (erase r)
  | CDot l d => ASubexpr (erase l) (erase d)
  | CDotStar l k => AProjection (AObjectValues (erase l)) (erasek k)
  | CIndex l n => ASubexpr (erase l) (AIndex n)
  | CSlice l off sl k => ASubexpr (erase l) (AProjection (slice_ast off sl) (erasek k))
  | CWild l k => AProjection (erase l) (erasek k)
  | CFlatten l k => AProjection (AFlatten (erase l)) (erasek k)
  | CFilter l p k => AProjection (erase l) (ACondition (erase p) (erasek k))
  | CAmp x => AExpref (erase x)
  | CCallOn _ off name args => AFunction off name (map (fun a : bool * cst => let '(b, x) := a in if b then AExpref (erase x) else erase x) args)
  end
with erasek (k : cont) : ast :=
  match k with
  | KNone => AIdentity
  | KDot d => erase d
  | KExpr x => erase x
  end.

(** The separated tails of multi-select lists, multi-select hashes and argument
    lists as functions of their own (equal to the local fixpoints of [flat]). *)
Fixpoint mlist_tail (es : list cst) : list token :=
  match es with [] => [TRbracket] | x :: r => TComma :: flat x ++ mlist_tail r end.
Fixpoint mhash_tail (kvs : list (bool * str * cst)) : list token :=
  match kvs with [] => [TRbrace] | (q, k, x) :: r => TComma :: key_tok q k :: TColon :: flat x ++ mhash_tail r end.
Definition flat_arg (a : bool * cst) : list token := (if fst a then [TAmpersand] else []) ++ flat (snd a).
Fixpoint args_tail (args : list (bool * cst)) : list token :=
  match args with [] => [TRparen] | a :: r => TComma :: flat_arg a ++ args_tail r end.
Definition erase_arg (a : bool * cst) : ast := if fst a then AExpref (erase (snd a)) else erase (snd a).

Lemma flat_mlist e es : flat (CMList e es) = TLbracket :: flat e ++ mlist_tail es.
Proof. reflexivity. Qed.

Lemma flat_mhash q k e kvs : flat (CMHash (q, k, e) kvs) = TLbrace :: key_tok q k :: TColon :: flat e ++ mhash_tail kvs.
Proof. reflexivity. Qed.

Lemma flat_call off name args :
  flat (CCall off name args) =
    TIdentifier name :: TLparen :: match args with [] => [TRparen] | a :: r => flat_arg a ++ args_tail r end.
Proof.
  cbn [flat]. do 2 f_equal. destruct args as [|[b x] r]; [reflexivity|]. unfold flat_arg. cbn [fst snd]. rewrite <- app_assoc. do 2 f_equal.
  induction r as [|[b' y] r IH]; cbn [args_tail]; [reflexivity|]. unfold flat_arg. cbn [fst snd]. rewrite <- app_assoc. f_equal. f_equal. f_equal. exact IH.
Qed.

Lemma erase_call off name args : erase (CCall off name args) = AFunction off name (map erase_arg args).
Proof. cbn [erase]. f_equal. apply map_ext. intros [b x]. reflexivity. Qed.

Lemma flat_callon l off name args :
  flat (CCallOn l off name args) =
    flat l ++ TLparen :: match args with [] => [TRparen] | a :: r => flat_arg a ++ args_tail r end.
Proof.
  cbn [flat]. do 2 f_equal. destruct args as [|[b x] r]; [reflexivity|]. unfold flat_arg. cbn [fst snd]. rewrite <- app_assoc. do 2 f_equal.
  induction r as [|[b' y] r IH]; cbn [args_tail]; [reflexivity|]. unfold flat_arg. cbn [fst snd]. rewrite <- app_assoc. f_equal. f_equal. f_equal. exact IH.
Qed.

Lemma erase_callon l off name args : erase (CCallOn l off name args) = AFunction off name (map erase_arg args).
Proof. cbn [erase]. f_equal. apply map_ext. intros [b x]. reflexivity. Qed.

Lemma erase_mhash q k e kvs :
  erase (CMHash (q, k, e) kvs) = AMultiHash ((k, erase e) :: map (fun kv : bool * str * cst => (snd (fst kv), erase (snd kv))) kvs).
Proof. cbn [erase]. do 2 f_equal. apply map_ext. intros [[q' k'] x]. reflexivity. Qed.

(** Syntactic categories: what may follow a dot (identifier, quoted identifier,
    function call, [*], multi-select hash, multi-select list) and which bracketed
    forms may follow a projection (index, slice, list wildcard, filter).  They
    constrain the leftmost constituent of the operand. *)
Fixpoint head (c : cst) : cst :=
  match c with
  | CBin _ l _ | CDot l _ | CDotStar l _ | CIndex l _ | CSlice l _ _ _ | CWild l _ | CFlatten l _ | CFilter l _ _ | CCallOn l _ _ _ => head l
  | _ => c
  end.

Definition dot_ok (h : cst) : bool :=
  match h with CIdent _ | CQIdent _ | CCall _ _ _ | CStarP _ | CMHash _ _ | CMList _ _ => true | _ => false end.
Definition brk_ok (h : cst) : bool :=
  match h with CIndexP _ | CSliceP _ _ _ | CWildP _ | CFilterP _ _ => true | _ => false end.

(** the same categories as the code reads them: [&x] after a dot, a multi-select list after a projection *)
Definition dotx_ok (h : cst) : bool := dot_ok h || match h with CAmp _ => true | _ => false end.
Definition brkx_ok (h : cst) : bool := brk_ok h || match h with CMList _ _ => true | _ => false end.

(** Well-formed syntax trees.  [wfb false] — the trees of the JMESPath grammar;
    [wfb true] — the trees of the language the code accepts: the grammar plus
    [&x] as an ordinary prefix form, a call applied to any operand that denotes
    a field, [&x] after a dot, and a multi-select list after a projection. *)
Fixpoint wfb (ext : bool) (c : cst) : Prop :=
  match c with
  | CCurrent | CIdent _ | CQIdent _ | CLit _ | CIndexP _ => True
  | CNot x | CParen x => wfb ext x
  | CMList e es => wfb ext e /\ (fix all (es : list cst) : Prop := match es with [] => True | x :: r => wfb ext x /\ all r end) es
  | CMHash (_, _, e) kvs =>
      wfb ext e /\ (fix all (kvs : list (bool * str * cst)) : Prop := match kvs with [] => True | (_, _, x) :: r => wfb ext x /\ all r end) kvs
  | CCall _ _ args => (fix all (args : list (bool * cst)) : Prop := match args with [] => True | (_, x) :: r => wfb ext x /\ all r end) args
  | CStarP k | CFlattenP k | CWildP k | CSliceP _ _ k => wfkb ext k
  | CFilterP p k => wfb ext p /\ wfkb ext k
  | CBin _ l r => wfb ext l /\ wfb ext r
  | CDot l d => wfb ext l /\ wfb ext d /\ (if ext then dotx_ok else dot_ok) (head d) = true
  | CDotStar l k => wfb ext l /\ wfkb ext k
  | CIndex l _ => wfb ext l
  | CSlice l _ _ k | CWild l k | CFlatten l k => wfb ext l /\ wfkb ext k
  | CFilter l p k => wfb ext l /\ wfb ext p /\ wfkb ext k
  | CAmp x => ext = true /\ wfb ext x
  | CCallOn l _ name args =>
      ext = true /\ wfb ext l /\ erase l = AField name /\
      (fix all (args : list (bool * cst)) : Prop := match args with [] => True | (_, x) :: r => wfb ext x /\ all r end) args
  end
with wfkb (ext : bool) (k : cont) : Prop :=
  match k with
  | KNone => True
  | KDot d => wfb ext d /\ (if ext then dotx_ok else dot_ok) (head d) = true
  | KExpr x => wfb ext x /\ (if ext then brkx_ok else brk_ok) (head x) = true
  end.

Notation wf := (wfb false).
Notation wfk := (wfkb false).

Lemma wf_mlist ext e es : wfb ext (CMList e es) <-> wfb ext e /\ Forall (wfb ext) es.
Proof.
  cbn [wfb]. split; intros [H1 H2]; (split; [exact H1|]).
  - induction es as [|x r IH]; [constructor|]. destruct H2 as [Hx Hr]. constructor; [exact Hx|exact (IH Hr)].
  - induction H2 as [|x r Hx Hr IH]; [exact I|]. split; [exact Hx|exact IH].
Qed.

Lemma wf_mhash ext q k e kvs : wfb ext (CMHash (q, k, e) kvs) <-> wfb ext e /\ Forall (fun kv : bool * str * cst => wfb ext (snd kv)) kvs.
Proof.
  cbn [wfb]. split; intros [H1 H2]; (split; [exact H1|]).
  - induction kvs as [|[[q' k'] x] r IH]; [constructor|]. destruct H2 as [Hx Hr]. constructor; [exact Hx|exact (IH Hr)].
  - induction H2 as [|[[q' k'] x] r Hx Hr IH]; [exact I|]. split; [exact Hx|exact IH].
Qed.

Lemma wf_call ext off name args : wfb ext (CCall off name args) <-> Forall (fun a : bool * cst => wfb ext (snd a)) args.
Proof.
  cbn [wfb]. split; intros H.
  - induction args as [|[b x] r IH]; [constructor|]. destruct H as [Hx Hr]. constructor; [exact Hx|exact (IH Hr)].
  - induction H as [|[b x] r Hx Hr IH]; [exact I|]. split; [exact Hx|exact IH].
Qed.

Lemma wf_callon l off name args :
  wfb true (CCallOn l off name args) <-> wfb true l /\ erase l = AField name /\ Forall (fun a : bool * cst => wfb true (snd a)) args.
Proof.
  cbn [wfb]. split.
  - intros (_ & Hl & He & H). split; [exact Hl|]. split; [exact He|].
    induction args as [|[b x] r IH]; [constructor|]. destruct H as [Hx Hr]. constructor; [exact Hx|exact (IH Hr)].
  - intros (Hl & He & H). split; [reflexivity|]. split; [exact Hl|]. split; [exact He|].
    induction H as [|[b x] r Hx Hr IH]; [exact I|]. split; [exact Hx|exact IH].
Qed.

(** a tree of the grammar is a tree of the code's language *)
Lemma dot_ok_x h : dot_ok h = true -> dotx_ok h = true. Proof. unfold dotx_ok. intros ->. reflexivity. Qed.
Lemma brk_ok_x h : brk_ok h = true -> brkx_ok h = true. Proof. unfold brkx_ok. intros ->. reflexivity. Qed.
