(** Specification of slices and indexes, written from the JMESPath slice rule
    (= Python's [list[start:stop:step]], [PySlice_AdjustIndices]) as a closed
    form: no loop, no reference to the code. *)
From JP Require Import Base.

Definition clamp (lo hi x : Z) : Z := Z.max lo (Z.min hi x).

(** Effective bound for an array of length [n]. *)
Definition py_bound (n step : Z) (x : option Z) (is_start : bool) : Z :=
  match x with
  | None => if step >? 0 then (if is_start then 0 else n) else (if is_start then n - 1 else -1)
  | Some v =>
      let v' := if v <? 0 then v + n else v in
      if step >? 0 then clamp 0 n v' else clamp (-1) (n - 1) v'
  end.

Definition py_count (lo hi step : Z) : Z :=
  if step >? 0 then (if lo <? hi then (hi - lo - 1) / step + 1 else 0)
  else (if hi <? lo then (lo - hi - 1) / (- step) + 1 else 0).

Definition arith_seq (lo step : Z) (count : nat) : list Z :=
  map (fun k => lo + Z.of_nat k * step) (seq 0 count).

(** The indexes selected by [start:stop:step] on a list of length [n], in order. *)
Definition py_indices (n : Z) (start stop : option Z) (step : Z) : list Z :=
  let lo := py_bound n step start true in
  let hi := py_bound n step stop false in
  arith_seq lo step (Z.to_nat (py_count lo hi step)).

Definition select {A} (arr : list A) (is : list Z) : list A :=
  flat_map (fun i => match index_z arr i with Some x => [x] | None => [] end) is.

Definition spec_slice {A} (arr : list A) (start stop : option Z) (step : Z) : list A :=
  select arr (py_indices (zlen arr) start stop step).

(** Index rule: [n >= 0] selects element [n]; [n < 0] selects element [len + n];
    out of range is absent. *)
Definition spec_index {A} (arr : list A) (n : Z) : option A :=
  let i := if n <? 0 then zlen arr + n else n in
  if (0 <=? i) && (i <? zlen arr) then nth_error arr (Z.to_nat i) else None.
