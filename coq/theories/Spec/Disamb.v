(** Disambiguation of the grammar (DESIGN.md 4.1), as conditions on syntax trees
    in their context: an operand read in a context of binding power [q] extends
    as far as it can — the token that follows it binds no tighter than [q]; a
    projection without a right-hand side is followed by a token below the
    projection-stop threshold; an identifier followed by [(] is a call; [[*]] in
    operand position is the list wildcard, not a one-element multi-select list;
    [.*] is the object wildcard.  [fol] is the token that follows the tree in
    the sentence, [dp] says that the tree stands right after a dot.
    No reference to a parsing algorithm. *)
From JP Require Import Base Value Lexer Spec.Grammar Spec.Prec.

Definition sep {A} (close : token) (r : list A) : token := match r with [] => close | _ => TComma end.

Section Disamb.
  Variable L : token -> Z.
  Variable STOP : Z.

  Fixpoint dis (dp : bool) (fol : token) (c : cst) : Prop :=
    match c with
    | CCurrent | CLit _ | CIndexP _ => True
    | CIdent _ | CQIdent _ => fol <> TLparen
    | CNot x => L fol <= L TNot /\ dis false fol x
    | CParen x => dis false TRparen x
    | CMList e es =>
        (dp = false -> match flat e ++ mlist_tail es with TStar :: TRbracket :: _ => False | _ => True end) /\
        dis false (sep TRbracket es) e /\
        (fix all (es : list cst) : Prop := match es with [] => True | x :: r => dis false (sep TRbracket r) x /\ all r end) es
    | CMHash (_, _, e) kvs =>
        dis false (sep TRbrace kvs) e /\
        (fix all (kvs : list (bool * str * cst)) : Prop :=
           match kvs with [] => True | (_, _, x) :: r => dis false (sep TRbrace r) x /\ all r end) kvs
    | CCall _ _ args =>
        (fix all (args : list (bool * cst)) : Prop :=
           match args with [] => True | (_, x) :: r => dis false (sep TRparen r) x /\ all r end) args
    | CStarP k | CWildP k | CSliceP _ _ k => disk (L TStar) fol k
    | CFlattenP k => disk (L TFlatten) fol k
    | CFilterP p k => dis false TRbracket p /\ disk (L TFilter) fol k
    | CBin o l r => dis dp (binop_tok o) l /\ L fol <= rbp_of L o /\ dis false fol r
    | CDot l d =>
        dis dp TDot l /\ match flat d with TStar :: _ => False | _ => True end /\ L fol <= L TDot /\ dis true fol d
    | CDotStar l k => dis dp TDot l /\ disk (L TStar) fol k
    | CIndex l _ => dis dp TLbracket l
    | CSlice l _ _ k | CWild l k => dis dp TLbracket l /\ disk (L TStar) fol k
    | CFlatten l k => dis dp TFlatten l /\ disk (L TFlatten) fol k
    | CFilter l p k => dis dp TFilter l /\ dis false TRbracket p /\ disk (L TFilter) fol k
    | CAmp x => L fol <= L TAmpersand /\ dis false fol x
    | CCallOn l _ _ args =>
        dis dp TLparen l /\
        (fix all (args : list (bool * cst)) : Prop :=
           match args with [] => True | (_, x) :: r => dis false (sep TRparen r) x /\ all r end) args
    end
  with disk (bp : Z) (fol : token) (k : cont) : Prop :=
    match k with
    | KNone => L fol < STOP
    | KDot d => L fol <= bp /\ dis true fol d
    | KExpr x => L fol <= bp /\ dis false fol x
    end.

  Definition dis_arg (r : list (bool * cst)) (a : bool * cst) : Prop := dis false (sep TRparen r) (snd a).

  (** the items of a separated list, each with the items after it *)
  Fixpoint each {A} (P : list A -> A -> Prop) (l : list A) : Prop :=
    match l with [] => True | x :: r => P r x /\ each P r end.

  Lemma dis_mlist dp fol e es : dis dp fol (CMList e es) <->
    (dp = false -> match flat e ++ mlist_tail es with TStar :: TRbracket :: _ => False | _ => True end) /\
    dis false (sep TRbracket es) e /\ each (fun r x => dis false (sep TRbracket r) x) es.
  Proof.
    cbn [dis]. split; intros (H0 & H1 & H2); (split; [exact H0|]; split; [exact H1|]); clear H0 H1;
      induction es as [|x r IH]; cbn [each] in *; try exact I; (split; [apply H2|apply IH; apply H2]).
  Qed.

  Lemma dis_mhash dp fol q k e kvs : dis dp fol (CMHash (q, k, e) kvs) <->
    dis false (sep TRbrace kvs) e /\ each (fun r (kv : bool * str * cst) => dis false (sep TRbrace r) (snd kv)) kvs.
  Proof.
    cbn [dis]. split; intros (H1 & H2); (split; [exact H1|]); clear H1;
      induction kvs as [|[[q' k'] x] r IH]; cbn [each snd] in *; try exact I; (split; [apply H2|apply IH; apply H2]).
  Qed.

  Lemma dis_call dp fol off name args : dis dp fol (CCall off name args) <-> each dis_arg args.
  Proof.
    cbn [dis]. unfold dis_arg. split; intros H2;
      induction args as [|[b x] r IH]; cbn [each snd] in *; try exact I; (split; [apply H2|apply IH; apply H2]).
  Qed.
End Disamb.

(** The one class of sentences of the grammar that the code reads differently
    (known finding dot-multiselect-ends-projection): a multi-select list right
    after a dot that is itself continued by further operators inside the same
    operand.  [nodotlist c]: the tree [c] has no such constituent. *)
Definition dotlist_free (d : cst) : Prop := match head d with CMList _ _ => spine_ops d = [] | _ => True end.

Fixpoint nodotlist (c : cst) : Prop :=
  match c with
  | CCurrent | CIdent _ | CQIdent _ | CLit _ | CIndexP _ => True
  | CNot x | CParen x | CAmp x => nodotlist x
  | CMList e es => nodotlist e /\ (fix all (es : list cst) : Prop := match es with [] => True | x :: r => nodotlist x /\ all r end) es
  | CMHash (_, _, e) kvs =>
      nodotlist e /\ (fix all (kvs : list (bool * str * cst)) : Prop := match kvs with [] => True | (_, _, x) :: r => nodotlist x /\ all r end) kvs
  | CCall _ _ args => (fix all (args : list (bool * cst)) : Prop := match args with [] => True | (_, x) :: r => nodotlist x /\ all r end) args
  | CStarP k | CFlattenP k | CWildP k | CSliceP _ _ k => nodotlistk k
  | CFilterP p k => nodotlist p /\ nodotlistk k
  | CBin _ l r => nodotlist l /\ nodotlist r
  | CDot l d => nodotlist l /\ nodotlist d /\ dotlist_free d
  | CDotStar l k => nodotlist l /\ nodotlistk k
  | CIndex l _ => nodotlist l
  | CSlice l _ _ k | CWild l k | CFlatten l k => nodotlist l /\ nodotlistk k
  | CFilter l p k => nodotlist l /\ nodotlist p /\ nodotlistk k
  | CCallOn l _ _ args =>
      nodotlist l /\ (fix all (args : list (bool * cst)) : Prop := match args with [] => True | (_, x) :: r => nodotlist x /\ all r end) args
  end
with nodotlistk (k : cont) : Prop :=
  match k with
  | KNone => True
  | KDot d => nodotlist d /\ dotlist_free d
  | KExpr x => nodotlist x
  end.

Lemma nodotlist_mlist e es : nodotlist (CMList e es) <-> nodotlist e /\ Forall nodotlist es.
Proof.
  cbn [nodotlist]. split; intros [H1 H2]; (split; [exact H1|]).
  - induction es as [|x r IH]; [constructor|]. destruct H2 as [Hx Hr]. constructor; [exact Hx|exact (IH Hr)].
  - induction H2 as [|x r Hx Hr IH]; [exact I|]. split; [exact Hx|exact IH].
Qed.
Lemma nodotlist_mhash q k e kvs : nodotlist (CMHash (q, k, e) kvs) <-> nodotlist e /\ Forall (fun kv : bool * str * cst => nodotlist (snd kv)) kvs.
Proof.
  cbn [nodotlist]. split; intros [H1 H2]; (split; [exact H1|]).
  - induction kvs as [|[[q' k'] x] r IH]; [constructor|]. destruct H2 as [Hx Hr]. constructor; [exact Hx|exact (IH Hr)].
  - induction H2 as [|[[q' k'] x] r Hx Hr IH]; [exact I|]. split; [exact Hx|exact IH].
Qed.
Lemma nodotlist_call off name args : nodotlist (CCall off name args) <-> Forall (fun a : bool * cst => nodotlist (snd a)) args.
Proof.
  cbn [nodotlist]. split; intros H.
  - induction args as [|[b x] r IH]; [constructor|]. destruct H as [Hx Hr]. constructor; [exact Hx|exact (IH Hr)].
  - induction H as [|[b x] r Hx Hr IH]; [exact I|]. split; [exact Hx|exact IH].
Qed.
