(** The binding-power side conditions of the grammar (DESIGN.md 4.1), for a
    binding-power table [L]: which operators may appear at the top level of an
    operand that was read in a context of binding power [rbp].  No reference to
    a parsing algorithm: conditions on syntax trees only. *)
From JP Require Import Base Value Lexer Spec.Grammar.

(** the infix/postfix operators applied along the left spine of a tree, innermost first *)
Fixpoint spine_ops (c : cst) : list token :=
  match c with
  | CBin o l _ => spine_ops l ++ [binop_tok o]
  | CDot l _ | CDotStar l _ => spine_ops l ++ [TDot]
  | CIndex l _ | CSlice l _ _ _ | CWild l _ => spine_ops l ++ [TLbracket]
  | CFlatten l _ => spine_ops l ++ [TFlatten]
  | CFilter l _ _ => spine_ops l ++ [TFilter]
  | CCallOn l _ _ _ => spine_ops l ++ [TLparen]
  | _ => []
  end.

Section Prec.
  Variable L : token -> Z.

  (** the context in which the right operand of a binary operator is read *)
  Definition rbp_of (o : binop) : Z :=
    match o with BOr => L TOr | BAnd => L TAnd | BPipe => L TPipe | BCmp _ => L TEq end.

  Definition tighter (rbp : Z) (c : cst) : Prop := Forall (fun t => rbp < L t) (spine_ops c).

  (** every operand inside [c] has only tighter operators at its top level *)
  Fixpoint inner (c : cst) : Prop :=
    match c with
    | CCurrent | CIdent _ | CQIdent _ | CLit _ | CIndexP _ => True
    | CNot x => tighter (L TNot) x /\ inner x
    | CParen x => tighter 0 x /\ inner x
    | CMList e es =>
        (tighter 0 e /\ inner e) /\
        (fix all (es : list cst) : Prop := match es with [] => True | x :: r => (tighter 0 x /\ inner x) /\ all r end) es
    | CMHash (_, _, e) kvs =>
        (tighter 0 e /\ inner e) /\
        (fix all (kvs : list (bool * str * cst)) : Prop :=
           match kvs with [] => True | (_, _, x) :: r => (tighter 0 x /\ inner x) /\ all r end) kvs
    | CCall _ _ args =>
        (fix all (args : list (bool * cst)) : Prop :=
           match args with [] => True | (b, x) :: r => (tighter (if b then L TAmpersand else 0) x /\ inner x) /\ all r end) args
    | CStarP k | CWildP k | CSliceP _ _ k => innerk (L TStar) k
    | CFlattenP k => innerk (L TFlatten) k
    | CFilterP p k => (tighter 0 p /\ inner p) /\ innerk (L TFilter) k
    | CBin o l r => inner l /\ tighter (rbp_of o) r /\ inner r
    | CDot l d => inner l /\ tighter (L TDot) d /\ inner d
    | CDotStar l k => inner l /\ innerk (L TStar) k
    | CIndex l _ => inner l
    | CSlice l _ _ k | CWild l k => inner l /\ innerk (L TStar) k
    | CFlatten l k => inner l /\ innerk (L TFlatten) k
    | CFilter l p k => inner l /\ (tighter 0 p /\ inner p) /\ innerk (L TFilter) k
    | CAmp x => tighter (L TAmpersand) x /\ inner x
    | CCallOn l _ _ args =>
        inner l /\
        (fix all (args : list (bool * cst)) : Prop :=
           match args with [] => True | (b, x) :: r => (tighter (if b then L TAmpersand else 0) x /\ inner x) /\ all r end) args
    end
  with innerk (bp : Z) (k : cont) : Prop :=
    match k with
    | KNone => True
    | KDot d => tighter bp d /\ inner d
    | KExpr x => tighter bp x /\ inner x
    end.

  (** a tree read in a context of binding power [rbp] *)
  Definition prec (rbp : Z) (c : cst) : Prop := tighter rbp c /\ inner c.

  Lemma inner_mlist e es : inner (CMList e es) <-> prec 0 e /\ Forall (prec 0) es.
  Proof.
    cbn [inner]. unfold prec. split; intros [H1 H2]; (split; [exact H1|]).
    - induction es as [|x r IH]; [constructor|]. destruct H2 as [Hx Hr]. constructor; [exact Hx|exact (IH Hr)].
    - induction H2 as [|x r Hx Hr IH]; [exact I|]. split; [exact Hx|exact IH].
  Qed.

  Lemma inner_mhash q k e kvs : inner (CMHash (q, k, e) kvs) <-> prec 0 e /\ Forall (fun kv : bool * str * cst => prec 0 (snd kv)) kvs.
  Proof.
    cbn [inner]. unfold prec. split; intros [H1 H2]; (split; [exact H1|]).
    - induction kvs as [|[[q' k'] x] r IH]; [constructor|]. destruct H2 as [Hx Hr]. constructor; [exact Hx|exact (IH Hr)].
    - induction H2 as [|[[q' k'] x] r Hx Hr IH]; [exact I|]. split; [exact Hx|exact IH].
  Qed.

  Definition arg_prec (a : bool * cst) : Prop := prec (if fst a then L TAmpersand else 0) (snd a).

  Lemma inner_call off name args : inner (CCall off name args) <-> Forall arg_prec args.
  Proof.
    cbn [inner]. unfold arg_prec, prec. split; intros H.
    - induction args as [|[b x] r IH]; [constructor|]. destruct H as [Hx Hr]. constructor; [exact Hx|exact (IH Hr)].
    - induction H as [|[b x] r Hx Hr IH]; [exact I|]. split; [exact Hx|exact IH].
  Qed.
  Lemma inner_callon l off name args : inner (CCallOn l off name args) <-> inner l /\ Forall arg_prec args.
  Proof.
    cbn [inner]. unfold arg_prec, prec. split; intros [Hl H]; (split; [exact Hl|]).
    - induction args as [|[b x] r IH]; [constructor|]. destruct H as [Hx Hr]. constructor; [exact Hx|exact (IH Hr)].
    - induction H as [|[b x] r Hx Hr IH]; [exact I|]. split; [exact Hx|exact IH].
  Qed.
End Prec.
