(** Wire format shared by the Rust harness, the generators and the model: one
    case per line, ASCII, tokens separated by single spaces, prefix notation.
    Reading and printing are written in Coq so that the same [run_line] is
    evaluated by the extracted OCaml driver and by [vm_compute] inside coqc. *)
From Coq Require Import Floats.SpecFloat String Ascii.
From JP Require Import Base F64 Value.

Definition tok := list Z.

Definition s2l (s : string) : list Z :=
  map (fun a => Z.of_N (N_of_ascii a)) (list_ascii_of_string s).

Fixpoint split_on (sep : Z) (l : list Z) (cur : list Z) : list tok :=
  match l with
  | [] => [rev_append cur []]
  | c :: l' => if c =? sep then rev_append cur [] :: split_on sep l' [] else split_on sep l' (c :: cur)
  end.

Definition tokens (line : list Z) : list tok :=
  filter (fun t => match t with [] => false | _ => true end) (split_on 32 line []).

Fixpoint join_toks (ts : list tok) : list Z :=
  match ts with
  | [] => []
  | [t] => t
  | t :: ts' => t ++ 32 :: join_toks ts'
  end.

(* ---------- numbers ---------- *)
Fixpoint dec_go (l : list Z) (acc : Z) : option Z :=
  match l with
  | [] => Some acc
  | c :: l' => if (48 <=? c) && (c <=? 57) then dec_go l' (acc * 10 + (c - 48)) else None
  end.

Definition parse_nat (t : tok) : option Z :=
  match t with [] => None | _ => dec_go t 0 end.

Definition parse_int (t : tok) : option Z :=
  match t with
  | 45 :: r => option_map Z.opp (parse_nat r)
  | _ => parse_nat t
  end.

Definition hex_digit (c : Z) : option Z :=
  if (48 <=? c) && (c <=? 57) then Some (c - 48)
  else if (97 <=? c) && (c <=? 102) then Some (c - 87)
  else None.

Fixpoint hex_go (l : list Z) (acc : Z) : option Z :=
  match l with
  | [] => Some acc
  | c :: l' => match hex_digit c with Some d => hex_go l' (acc * 16 + d) | None => None end
  end.

Fixpoint dec_digits (fuel : nat) (z : Z) (acc : list Z) : list Z :=
  match fuel with
  | O => acc
  | S f => if z <? 10 then (48 + z) :: acc else dec_digits f (z / 10) ((48 + z mod 10) :: acc)
  end.

Definition print_nat (z : Z) : tok := dec_digits (S (Z.to_nat (Z.log2 z))) z [].
Definition print_int (z : Z) : tok := if z <? 0 then 45 :: print_nat (- z) else print_nat z.

Definition hexc (d : Z) : Z := if d <? 10 then 48 + d else 87 + d.
Fixpoint hex_digits (n : nat) (z : Z) (acc : list Z) : list Z :=
  match n with
  | O => acc
  | S n' => hex_digits n' (z / 16) (hexc (z mod 16) :: acc)
  end.
Definition print_hex16 (z : Z) : tok := hex_digits 16 z [].

(* ---------- strings: a double quote followed by comma separated code points ---------- *)
Fixpoint all_some {A} (l : list (option A)) : option (list A) :=
  match l with
  | [] => Some []
  | Some x :: l' => option_map (cons x) (all_some l')
  | None :: _ => None
  end.

Definition parse_str (t : tok) : option str :=
  match t with
  | 34 :: [] => Some []
  | 34 :: r => all_some (map parse_nat (split_on 44 r []))
  | _ => None
  end.

Fixpoint print_cps (s : str) : list Z :=
  match s with
  | [] => []
  | [c] => print_nat c
  | c :: s' => print_nat c ++ 44 :: print_cps s'
  end.
Definition print_str (s : str) : tok := 34 :: print_cps s.

Definition parse_optint (t : tok) : option (option Z) :=
  match t with
  | [95] => Some None
  | _ => option_map Some (parse_int t)
  end.
Definition print_optint (o : option Z) : tok :=
  match o with None => [95] | Some z => print_int z end.

(* ---------- token constants ---------- *)
Definition K_Field := Eval compute in s2l "Field".
Definition K_Identity := Eval compute in s2l "Identity".
Definition K_Index := Eval compute in s2l "Index".
Definition K_Literal := Eval compute in s2l "Literal".
Definition K_Subexpr := Eval compute in s2l "Subexpr".
Definition K_Or := Eval compute in s2l "Or".
Definition K_And := Eval compute in s2l "And".
Definition K_Not := Eval compute in s2l "Not".
Definition K_Cond := Eval compute in s2l "Cond".
Definition K_Cmp := Eval compute in s2l "Cmp".
Definition K_Values := Eval compute in s2l "Values".
Definition K_Proj := Eval compute in s2l "Proj".
Definition K_Flatten := Eval compute in s2l "Flatten".
Definition K_MList := Eval compute in s2l "MList".
Definition K_MHash := Eval compute in s2l "MHash".
Definition K_Fn := Eval compute in s2l "Fn".
Definition K_Expref := Eval compute in s2l "Expref".
Definition K_Slice := Eval compute in s2l "Slice".
Definition K_eq := Eval compute in s2l "eq".
Definition K_ne := Eval compute in s2l "ne".
Definition K_lt := Eval compute in s2l "lt".
Definition K_le := Eval compute in s2l "le".
Definition K_gt := Eval compute in s2l "gt".
Definition K_ge := Eval compute in s2l "ge".

Definition parse_cmpop (t : tok) : option cmpop :=
  if str_eqb t K_eq then Some CEq else if str_eqb t K_ne then Some CNe
  else if str_eqb t K_lt then Some CLt else if str_eqb t K_le then Some CLe
  else if str_eqb t K_gt then Some CGt else if str_eqb t K_ge then Some CGe else None.
Definition print_cmpop (c : cmpop) : tok :=
  match c with CEq => K_eq | CNe => K_ne | CLt => K_lt | CLe => K_le | CGt => K_gt | CGe => K_ge end.

(* ---------- readers (fuel = number of tokens) ---------- *)
Fixpoint rd_value (fuel : nat) (ts : list tok) : option (value * list tok) :=
  match fuel with
  | O => None
  | S f =>
      match ts with
      | [] => None
      | t :: r =>
          match t with
          | [110] => Some (VNull, r)
          | [116] => Some (VBool true, r)
          | [102] => Some (VBool false, r)
          | 117 :: d => option_map (fun z => (VNum (PosInt z), r)) (parse_nat d)
          | 105 :: d => option_map (fun z => (VNum (NegInt z), r)) (parse_int d)
          | 100 :: d => option_map (fun z => (VNum (Flt (f_of_bits z)), r)) (hex_go d 0)
          | 34 :: _ => option_map (fun s => (VStr s, r)) (parse_str t)
          | [91] => option_map (fun '(l, r') => (VArr l, r')) (rd_values f r)
          | [123] => option_map (fun '(l, r') => (VObj l, r')) (rd_members f r)
          | [38] => option_map (fun '(a, r') => (VExpref a, r')) (rd_ast f r)
          | _ => None
          end
      end
  end
with rd_values (fuel : nat) (ts : list tok) : option (list value * list tok) :=
  match fuel with
  | O => None
  | S f =>
      match ts with
      | [93] :: r => Some ([], r)
      | _ =>
          match rd_value f ts with
          | Some (v, r) => option_map (fun '(l, r') => (v :: l, r')) (rd_values f r)
          | None => None
          end
      end
  end
with rd_members (fuel : nat) (ts : list tok) : option (list (str * value) * list tok) :=
  match fuel with
  | O => None
  | S f =>
      match ts with
      | [125] :: r => Some ([], r)
      | k :: r =>
          match parse_str k with
          | Some ks =>
              match rd_value f r with
              | Some (v, r') => option_map (fun '(l, r'') => ((ks, v) :: l, r'')) (rd_members f r')
              | None => None
              end
          | None => None
          end
      | [] => None
      end
  end
with rd_ast (fuel : nat) (ts : list tok) : option (ast * list tok) :=
  match fuel with
  | O => None
  | S f =>
      let un (c : ast -> ast) r := option_map (fun '(a, r') => (c a, r')) (rd_ast f r) in
      let bin (c : ast -> ast -> ast) r :=
        match rd_ast f r with
        | Some (a, r') => option_map (fun '(b, r'') => (c a b, r'')) (rd_ast f r')
        | None => None
        end in
      match ts with
      | [] => None
      | t :: r =>
          if str_eqb t K_Identity then Some (AIdentity, r)
          else if str_eqb t K_Field then
            match r with k :: r' => option_map (fun s => (AField s, r')) (parse_str k) | [] => None end
          else if str_eqb t K_Index then
            match r with k :: r' => option_map (fun z => (AIndex z, r')) (parse_int k) | [] => None end
          else if str_eqb t K_Literal then option_map (fun '(v, r') => (ALiteral v, r')) (rd_value f r)
          else if str_eqb t K_Subexpr then bin ASubexpr r
          else if str_eqb t K_Or then bin AOr r
          else if str_eqb t K_And then bin AAnd r
          else if str_eqb t K_Cond then bin ACondition r
          else if str_eqb t K_Proj then bin AProjection r
          else if str_eqb t K_Not then un ANot r
          else if str_eqb t K_Values then un AObjectValues r
          else if str_eqb t K_Flatten then un AFlatten r
          else if str_eqb t K_Expref then un AExpref r
          else if str_eqb t K_Cmp then
            match r with
            | c :: r' => match parse_cmpop c with Some c' => bin (AComparison c') r' | None => None end
            | [] => None
            end
          else if str_eqb t K_MList then
            match r with
            | [91] :: r' => option_map (fun '(l, r'') => (AMultiList l, r'')) (rd_asts f r')
            | _ => None
            end
          else if str_eqb t K_MHash then
            match r with
            | [123] :: r' => option_map (fun '(l, r'') => (AMultiHash l, r'')) (rd_kvps f r')
            | _ => None
            end
          else if str_eqb t K_Fn then
            match r with
            | o :: n :: [91] :: r' =>
                match parse_nat o, parse_str n with
                | Some o', Some n' => option_map (fun '(l, r'') => (AFunction o' n' l, r'')) (rd_asts f r')
                | _, _ => None
                end
            | _ => None
            end
          else if str_eqb t K_Slice then
            match r with
            | o :: a :: b :: c :: r' =>
                match parse_nat o, parse_optint a, parse_optint b, parse_int c with
                | Some o', Some a', Some b', Some c' => Some (ASlice o' a' b' c', r')
                | _, _, _, _ => None
                end
            | _ => None
            end
          else None
      end
  end
with rd_asts (fuel : nat) (ts : list tok) : option (list ast * list tok) :=
  match fuel with
  | O => None
  | S f =>
      match ts with
      | [93] :: r => Some ([], r)
      | _ =>
          match rd_ast f ts with
          | Some (a, r) => option_map (fun '(l, r') => (a :: l, r')) (rd_asts f r)
          | None => None
          end
      end
  end
with rd_kvps (fuel : nat) (ts : list tok) : option (list (str * ast) * list tok) :=
  match fuel with
  | O => None
  | S f =>
      match ts with
      | [125] :: r => Some ([], r)
      | k :: r =>
          match parse_str k with
          | Some ks =>
              match rd_ast f r with
              | Some (a, r') => option_map (fun '(l, r'') => ((ks, a) :: l, r'')) (rd_kvps f r')
              | None => None
              end
          | None => None
          end
      | [] => None
      end
  end.

(* ---------- printers ---------- *)
Definition print_num (n : num) : tok :=
  match n with
  | PosInt z => 117 :: print_nat z
  | NegInt z => 105 :: print_int z
  | Flt f => 100 :: print_hex16 (bits_of_f f)
  end.

Fixpoint pr_value (v : value) : list tok :=
  match v with
  | VNull => [[110]]
  | VBool true => [[116]]
  | VBool false => [[102]]
  | VNum n => [print_num n]
  | VStr s => [print_str s]
  | VArr l =>
      [91] :: (fix go (l : list value) : list tok :=
                 match l with [] => [[93]] | x :: l' => pr_value x ++ go l' end) l
  | VObj l =>
      [123] :: (fix go (l : list (str * value)) : list tok :=
                  match l with [] => [[125]] | (k, x) :: l' => print_str k :: pr_value x ++ go l' end) l
  | VExpref a => [38] :: pr_ast a
  end
with pr_ast (a : ast) : list tok :=
  match a with
  | AIdentity => [K_Identity]
  | AField n => [K_Field; print_str n]
  | AIndex i => [K_Index; print_int i]
  | ALiteral v => K_Literal :: pr_value v
  | ASubexpr l r => K_Subexpr :: pr_ast l ++ pr_ast r
  | AOr l r => K_Or :: pr_ast l ++ pr_ast r
  | AAnd l r => K_And :: pr_ast l ++ pr_ast r
  | ACondition l r => K_Cond :: pr_ast l ++ pr_ast r
  | AProjection l r => K_Proj :: pr_ast l ++ pr_ast r
  | ANot x => K_Not :: pr_ast x
  | AObjectValues x => K_Values :: pr_ast x
  | AFlatten x => K_Flatten :: pr_ast x
  | AExpref x => K_Expref :: pr_ast x
  | AComparison c l r => K_Cmp :: print_cmpop c :: pr_ast l ++ pr_ast r
  | AMultiList l =>
      K_MList :: [91] :: (fix go (l : list ast) : list tok :=
                            match l with [] => [[93]] | x :: l' => pr_ast x ++ go l' end) l
  | AMultiHash l =>
      K_MHash :: [123] :: (fix go (l : list (str * ast)) : list tok :=
                             match l with [] => [[125]] | (k, x) :: l' => print_str k :: pr_ast x ++ go l' end) l
  | AFunction o n l =>
      K_Fn :: print_nat o :: print_str n :: [91] ::
        (fix go (l : list ast) : list tok :=
           match l with [] => [[93]] | x :: l' => pr_ast x ++ go l' end) l
  | ASlice o s e st => [K_Slice; print_nat o; print_optint s; print_optint e; print_int st]
  end.

(* ---------- error coordinates: [JmespathError::new] ([errors.rs:25-50]) ---------- *)
(** The code walks [expr.char_indices()] and stops at the first character whose
    byte position is not below the (byte) offset. *)
Fixpoint line_col_go (cs : str) (pos offset : Z) (line col : Z) : Z * Z :=
  match cs with
  | [] => (line, col)
  | c :: cs' =>
      if pos >=? offset then (line, col)
      else if c =? 10 then line_col_go cs' (pos + utf8_len c) offset (line + 1) 0
      else line_col_go cs' (pos + utf8_len c) offset line (col + 1)
  end.
Definition line_col (expr : str) (offset : Z) : Z * Z := line_col_go expr 0 offset 0 0.

Definition K_OK := Eval compute in s2l "OK".
Definition K_ERR := Eval compute in s2l "ERR".
Definition K_TRAP := Eval compute in s2l "TRAP".
Definition K_OOF := Eval compute in s2l "OOF".
Definition K_UNMODELLED := Eval compute in s2l "UNMODELLED".
Definition K_BADCASE := Eval compute in s2l "BADCASE".
Definition K_parse := Eval compute in s2l "parse".
Definition K_runtime := Eval compute in s2l "runtime".
Definition K_fabricated := Eval compute in s2l "fabricated".
Definition K_invalid_slice := Eval compute in s2l "invalid-slice".
Definition K_too_many := Eval compute in s2l "too-many".
Definition K_not_enough := Eval compute in s2l "not-enough".
Definition K_unknown_function := Eval compute in s2l "unknown-function".
Definition K_invalid_type := Eval compute in s2l "invalid-type".
Definition K_invalid_return_type := Eval compute in s2l "invalid-return-type".

Definition pr_rkind (k : rkind) : list tok * list tok :=
  match k with
  | KInvalidSlice => ([K_invalid_slice], [])
  | KTooMany e a => ([K_too_many], [print_nat e; print_nat a])
  | KNotEnough e a => ([K_not_enough], [print_nat e; print_nat a])
  | KUnknownFunction n => ([K_unknown_function], [print_str n])
  | KInvalidType e a p => ([K_invalid_type], [print_str e; print_str a; print_nat p])
  | KInvalidReturnType e a p i => ([K_invalid_return_type], [print_str e; print_str a; print_nat p; print_nat i])
  end.

Definition K_RENDER := Eval compute in s2l "RENDER".
Definition K_ok := Eval compute in s2l "ok".

(** the harness also checks the rendered message against the layout rule of C12 ("RENDER ok") *)
Definition pr_err (expr : str) (e : err) : list tok :=
  (fun l => l ++ [K_RENDER; K_ok])
  match e with
  | EParse off => let '(l, c) := line_col expr off in [K_ERR; K_parse; print_nat off; print_nat l; print_nat c]
  | ERuntime k off =>
      let '(l, c) := line_col expr off in
      let '(kn, pl) := pr_rkind k in
      K_ERR :: K_runtime :: kn ++ [print_nat off; print_nat l; print_nat c] ++ pl
  | EFabricated => [K_ERR; K_fabricated]
  end.

Definition pr_res {A} (expr : str) (pr : A -> list tok) (r : res A) : list tok :=
  match r with
  | Ok a => K_OK :: pr a
  | Err e => pr_err expr e
  | Trap => [K_TRAP]
  | OOF => [K_OOF]
  | Unmodelled => [K_UNMODELLED]
  end.
