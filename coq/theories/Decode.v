(** The decoding half of the serde bridge (C14): [impl Deserializer for Variable]
    of variable.rs (with its [SeqDeserializer], [MapDeserializer], [MapKeyDeserializer],
    [EnumDeserializer], [VariantDeserializer]) driven by the visitors that serde and
    [#[derive(Deserialize)]] generate for a Rust type.

    A Rust target type is described by a [ty]; [de t v] is [T::deserialize(v)] where
    [T] is the type described by [t]: [Some x] for [Ok(x)] ([x] in serde's data model,
    as [x] would serialise again), [None] for [Err(_)] (errors are not distinguished).

    What is the library's (transcribed from variable.rs): which [visit_*] call a value
    makes ([deserialize_any] for everything except options, enums and newtype structs);
    that a sequence must be consumed entirely; how object keys are handed to a key
    type; how the four variant shapes are looked up.  What is serde's (third party,
    modelled from its source: serde 1.0 [impls.rs], serde_derive): which [visit_*]
    calls each visitor accepts, the integer range checks, missing [Option] fields,
    unknown fields ignored, structs also decoding from sequences. *)
From Coq Require Import Floats.SpecFloat.
From JP Require Import Base F64 Value JsonRead Serde.

(** key types of maps *)
Inductive kty :=
| KString | KChar | KInt (lo hi : Z) | KBool
| KNewtype (k : kty) | KOption (k : kty)
| KEnum (variants : list str).          (* unit variants only *)

Inductive ty :=
| TBool | TInt (lo hi : Z) | TF64 | TChar | TString | TUnit
| TOption (t : ty) | TSeq (t : ty)
| TTuple (ts : list ty)                 (* tuples and fixed-size arrays (length >= 1) *)
| TUnitStruct | TNewtype (t : ty) | TTupleStruct (ts : list ty)
| TStruct (fs : list (str * ty))
| TEnum (vs : list (str * ty))          (* payload: [TUnit] unit variant, [TNewtype t], [TTupleStruct ts], [TStruct fs] *)
| TMap (k : kty) (t : ty)               (* BTreeMap<K, V> *)
| TValue.                               (* serde_json::Value *)

Fixpoint mapM {A B} (f : A -> option B) (l : list A) : option (list B) :=
  match l with
  | [] => Some []
  | x :: r => match f x, mapM f r with Some y, Some ys => Some (y :: ys) | _, _ => None end
  end.

(** integer visitors: [visit_u64]/[visit_i64] with the range check of the target width; [visit_f64] is refused *)
Definition de_int (lo hi : Z) (n : num) : option sval :=
  match n with
  | PosInt z | NegInt z => if (lo <=? z) && (z <=? hi) then Some (SInt z) else None
  | Flt _ => None
  end.

(* ---------- object keys: [MapKeyDeserializer] ---------- *)
Definition key_is_numeric (s : str) : bool :=
  match s with
  | c :: _ => (is_digit c || (c =? 45)) && negb (is_ws (last s 0))
  | [] => false
  end.

(** the number a key spells ([serde_json::from_str::<Number>]) *)
Definition key_number (s : str) : option num :=
  if key_is_numeric s then
    match from_json s with Ok (Some (VNum n)) => Some n | _ => None end
  else None.

Definition s_true : str := [116; 114; 117; 101].
Definition s_false : str := [102; 97; 108; 115; 101].

Fixpoint mem_str (s : str) (l : list str) : bool :=
  match l with [] => false | x :: r => str_eqb s x || mem_str s r end.

Fixpoint dekey (k : kty) (s : str) : option sval :=
  match k with
  | KString => Some (SStr s)                                   (* deserialize_any -> visit_string *)
  | KChar => match s with [c] => Some (SChar c) | _ => None end
  | KInt lo hi => match key_number s with Some n => de_int lo hi n | None => None end
  | KBool => if str_eqb s s_true then Some (SBool true) else if str_eqb s s_false then Some (SBool false) else None
  | KNewtype k' => option_map SNewtypeStruct (dekey k' s)      (* visit_newtype_struct(self) *)
  | KOption k' => option_map SSome (dekey k' s)                (* visit_some(self) *)
  | KEnum vs => if mem_str s vs then Some (SUnitVariant s) else None
  end.

(** the order of a [BTreeMap<K, _>]: derived/primitive [Ord] of the key type *)
Fixpoint index_of (s : str) (l : list str) : Z :=
  match l with [] => 0 | x :: r => if str_eqb s x then 0 else 1 + index_of s r end.

Fixpoint key_cmp (k : kty) (a b : sval) : comparison :=
  match k, a, b with
  | KString, SStr x, SStr y => str_cmp x y
  | KChar, SChar x, SChar y => Z.compare x y
  | KInt _ _, SInt x, SInt y => Z.compare x y
  | KBool, SBool x, SBool y => match x, y with false, true => Lt | true, false => Gt | _, _ => Eq end
  | KNewtype k', SNewtypeStruct x, SNewtypeStruct y => key_cmp k' x y
  | KOption k', SSome x, SSome y => key_cmp k' x y
  | KEnum vs, SUnitVariant x, SUnitVariant y => Z.compare (index_of x vs) (index_of y vs)
  | _, _, _ => Eq
  end.

Fixpoint map_insert (k : kty) (m : list (sval * sval)) (a x : sval) : list (sval * sval) :=
  match m with
  | [] => [(a, x)]
  | (b, y) :: m' =>
      match key_cmp k a b with
      | Lt => (a, x) :: m
      | Eq => (a, x) :: m'
      | Gt => (b, y) :: map_insert k m' a x
      end
  end.

(** [serde_json::Value] as target: every value is accepted and rebuilt *)
Fixpoint value_has_expref (v : value) : bool :=
  match v with
  | VExpref _ => true
  | VArr l => existsb value_has_expref l
  | VObj o => existsb (fun kv => value_has_expref (snd kv)) o
  | _ => false
  end.

Definition is_option (t : ty) : bool := match t with TOption _ => true | _ => false end.

(** [visit_map] of a map: keys through the key deserializer, entries collected in the order of the key type *)
Section Entries.
  Variable k : kty.
  Variable dv : value -> option sval.
  Fixpoint de_entries (o : list (str * value)) (acc : list (sval * sval)) : option (list (sval * sval)) :=
    match o with
    | [] => Some acc
    | (ks, x) :: o' =>
        match dekey k ks, dv x with
        | Some a, Some b => de_entries o' (map_insert k acc a b)
        | _, _ => None
        end
    end.
End Entries.

(** the list-shaped parts of the visitors, over the decoder [d] of the component types *)
Section Parts.
  Variable d : ty -> value -> option sval.

  (** [visit_seq] of a tuple / tuple struct / tuple variant: one element per component, none left over *)
  Fixpoint de_list (ts : list ty) (l : list value) : option (list sval) :=
    match ts, l with
    | [], [] => Some []
    | t1 :: ts', x :: l' => match d t1 x, de_list ts' l' with Some a, Some b => Some (a :: b) | _, _ => None end
    | _, _ => None
    end.

  (** [visit_seq] of a struct: the fields in declaration order, all of them, nothing left *)
  Fixpoint de_fields_seq (fs : list (str * ty)) (l : list value) : option (list (str * sval)) :=
    match fs, l with
    | [], [] => Some []
    | (n, t1) :: fs', x :: l' => match d t1 x, de_fields_seq fs' l' with Some a, Some b => Some ((n, a) :: b) | _, _ => None end
    | _, _ => None
    end.

  (** [visit_map] of a struct: known fields decoded, unknown ones ignored, a missing [Option] field is [None] *)
  Fixpoint de_fields_obj (o : list (str * value)) (fs : list (str * ty)) : option (list (str * sval)) :=
    match fs with
    | [] => Some []
    | (n, t1) :: fs' =>
        match (match obj_get o n with
               | Some x => d t1 x
               | None => if is_option t1 then Some SNone else None
               end), de_fields_obj o fs' with
        | Some a, Some b => Some ((n, a) :: b)
        | _, _ => None
        end
    end.

  (** the payload of a variant ([VariantDeserializer]); [p = None]: the enum was given as a bare string *)
  Definition de_payload (n : str) (t1 : ty) (p : option value) : option sval :=
    match t1 with
    | TUnit =>                                               (* unit_variant *)
        match p with
        | None | Some VNull => Some (SUnitVariant n)
        | Some _ => None
        end
    | TNewtype t2 =>                                         (* newtype_variant_seed *)
        match p with Some x => option_map (SNewtypeVariant n) (d t2 x) | None => None end
    | TTupleStruct ts =>                                     (* tuple_variant: [SeqDeserializer::deserialize_any] *)
        match p with
        | Some (VArr (x0 :: l0)) => option_map (STupleVariant n) (de_list ts (x0 :: l0))
        | _ => None                                          (* an empty array is handed over as unit and refused *)
        end
    | TStruct fs =>                                          (* struct_variant: objects only *)
        match p with
        | Some (VObj o) => option_map (SStructVariant n) (de_fields_obj o fs)
        | _ => None
        end
    | _ => None
    end.

  Fixpoint de_variant (name : str) (p : option value) (vs : list (str * ty)) : option sval :=
    match vs with
    | [] => None                                             (* unknown variant *)
    | (n, t1) :: vs' => if str_eqb name n then de_payload n t1 p else de_variant name p vs'
    end.
End Parts.

Fixpoint de (t : ty) (v : value) {struct t} : option sval :=
  match t with
  | TBool => match v with VBool b => Some (SBool b) | _ => None end
  | TInt lo hi => match v with VNum n => de_int lo hi n | _ => None end
  | TF64 => match v with VNum n => Some (SF64 (as_f64 n)) | _ => None end      (* visit_u64 / visit_i64 / visit_f64: [as f64] *)
  | TChar => match v with VStr [c] => Some (SChar c) | _ => None end
  | TString => match v with VStr s => Some (SStr s) | _ => None end
  | TUnit => match v with VNull => Some SUnit | _ => None end
  | TUnitStruct => match v with VNull => Some SUnitStruct | _ => None end
  | TOption t' => match v with VNull => Some SNone | _ => option_map SSome (de t' v) end   (* deserialize_option *)
  | TNewtype t' => option_map SNewtypeStruct (de t' v)                                      (* visit_newtype_struct(self) *)
  | TSeq t' => match v with VArr l => option_map SSeq (mapM (de t') l) | _ => None end
  | TTuple ts => match v with VArr l => option_map STuple (de_list de ts l) | _ => None end
  | TTupleStruct ts => match v with VArr l => option_map STupleStruct (de_list de ts l) | _ => None end
  | TStruct fs =>
      match v with
      | VObj o => option_map SStruct (de_fields_obj de o fs)
      | VArr l => option_map SStruct (de_fields_seq de fs l)
      | _ => None
      end
  | TEnum vs =>
      match v with
      | VStr name => de_variant de name None vs
      | VObj [(name, x)] => de_variant de name (Some x) vs
      | _ => None                                                         (* "map with a single key" / "string or map" *)
      end
  | TMap k t' => match v with VObj o => option_map SMap (de_entries k (de t') o []) | _ => None end
  | TValue => if value_has_expref v then None else Some (sval_of_value v)
  end.

(* ---------- the target types of the harness ---------- *)
Definition i8 := TInt (-128) 127.
Definition i16 := TInt (-32768) 32767.
Definition i32 := TInt (-2147483648) 2147483647.
Definition i64 := TInt (-9223372036854775808) 9223372036854775807.
Definition u8 := TInt 0 255.
Definition u16 := TInt 0 65535.
Definition u32 := TInt 0 4294967295.
Definition u64 := TInt 0 18446744073709551615.
