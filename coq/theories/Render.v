(** Model of [impl Display for JmespathError] (errors.rs): the location block
    printed after "<reason> (line L, column C)\n" — the expression with a caret
    line inserted after line L. *)
From JP Require Import Base.

Definition spaces (n : Z) : str := repeat 32 (Z.to_nat n).

(** [inject_carat] *)
Definition carat (col : Z) : str := spaces col ++ [94; 10].

(** the [for c in self.expression.chars()] loop; returns the buffer and [matched] *)
Fixpoint loc_go (s : str) (cur line col : Z) (matched : bool) : str * bool :=
  match s with
  | [] => ([], matched)
  | c :: r =>
      if c =? 10 then
        if cur + 1 =? line + 1 then
          let '(t, m) := loc_go r (cur + 1) line col true in (10 :: carat col ++ t, m)
        else
          let '(t, m) := loc_go r (cur + 1) line col matched in (10 :: t, m)
      else
        let '(t, m) := loc_go r cur line col matched in (c :: t, m)
  end.

Definition location_block (expr : str) (line col : Z) : str :=
  let '(t, m) := loc_go expr 0 line col false in
  if m then t else t ++ 10 :: carat col.
