(** A small interleaving model for C16: threads compile and search through the
    shared, lazily initialised default runtime.  The shared state is the
    once-cell (uninitialised / initialised with the builtin registry); compiled
    expressions and input values are immutable, so a thread step reads shared
    data and writes only its own result list. *)
From JP Require Import Base F64 Value Interp Lexer Parser History.

Definition op := (str * value)%type.                   (* compile(text)?.search(doc) *)
Definition cell := option registry.                    (* lazy_static DEFAULT_RUNTIME *)

Definition force (c : cell) : cell * registry :=
  match c with
  | Some rt => (c, rt)
  | None => (Some default_runtime, default_runtime)    (* Once: exactly one initialisation, with the builtins *)
  end.

Definition run_op (rt : registry) (o : op) : res value :=
  let* a := parse (fst o) in search_ast search_fuel rt a (snd o).

Record cstate := mkC { the_cell : cell; pending : list (list op); done : list (list (res value)) }.

Fixpoint update {A} (l : list A) (i : nat) (x : A) : list A :=
  match l, i with
  | [], _ => []
  | _ :: r, O => x :: r
  | y :: r, S i' => y :: update r i' x
  end.

(** thread [i] performs its next operation (no-op if it has none left or does not exist) *)
Definition cstep (s : cstate) (i : nat) : cstate :=
  match nth_error (pending s) i, nth_error (done s) i with
  | Some (o :: rest), Some acc =>
      let '(c', rt) := force (the_cell s) in
      mkC c' (update (pending s) i rest) (update (done s) i (acc ++ [run_op rt o]))
  | _, _ => s
  end.

Definition crun (progs : list (list op)) (sched : list nat) : cstate :=
  fold_left cstep sched (mkC None progs (map (fun _ => []) progs)).

(** what a sequential execution of one program observes *)
Definition sequential (p : list op) : list (res value) := map (run_op default_runtime) p.
