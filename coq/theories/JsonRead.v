(** Model of [Variable::from_json] = [serde_json::from_str::<Variable>]
    (serde_json 1.0.151, default features: no [float_roundtrip], no
    [arbitrary_precision]): the reader of [de.rs]/[read.rs] transcribed over code
    points (all structural characters are ASCII; raw non-ASCII characters inside
    strings pass through unchanged because the input is a valid [&str]).
    Errors are not distinguished ([None]); only success/failure is observable
    through the library. Third-party behaviour: validated by correspondence. *)
From Coq Require Import Floats.SpecFloat.
From JP Require Import Base F64 Value.

Definition is_ws (c : Z) : bool := (c =? 32) || (c =? 10) || (c =? 9) || (c =? 13).
Definition is_digit (c : Z) : bool := (48 <=? c) && (c <=? 57).

Fixpoint skip_ws (s : str) : str :=
  match s with
  | c :: r => if is_ws c then skip_ws r else s
  | [] => []
  end.

Fixpoint skip_digits (s : str) : str :=
  match s with
  | c :: r => if is_digit c then skip_digits r else s
  | [] => []
  end.

(* ---------- numbers ---------- *)
Definition pow10_f (k : Z) : f64 := f_of_Z (10 ^ k).     (* POW10[k], a correctly rounded literal *)

(** [f64_from_parts] (non-[float_roundtrip] version). At most three rounds are
    ever needed ([significand as f64 <= 1.9e19] reaches zero after two divisions
    by [1e308]); running out of the fuel below is reported as [Unmodelled]. *)
Fixpoint f64_from_parts_go (fuel : nat) (f : f64) (exponent : Z) : res (option f64) :=
  match fuel with
  | O => Unmodelled
  | S fu =>
      let idx := Z.abs exponent in
      if (idx <=? 308) && negb (exponent =? i32_min) then
        if exponent >=? 0 then
          let f' := fmul f (pow10_f idx) in
          if f_is_infinite f' then Ok None else Ok (Some f')
        else Ok (Some (fdiv f (pow10_f idx)))
      else if f_is_zero f then Ok (Some f)
      else if exponent >=? 0 then Ok None
      else f64_from_parts_go fu (fdiv f (pow10_f 308)) (exponent + 308)
  end.

Definition f64_from_parts (positive : bool) (significand exponent : Z) : res (option f64) :=
  let* r := f64_from_parts_go 6 (f_of_Z significand) exponent in
  Ok (option_map (fun f => if positive then f else fopp f) r).

Definition sat_i32 (z : Z) : Z := Z.max i32_min (Z.min i32_max z).

(** [overflow!(a * 10 + b, MAX)] is [a >= MAX/10 && (a > MAX/10 || b > MAX%10)],
    i.e. [a * 10 + b > MAX]. *)
Definition ovf (a b max : Z) : bool := max <? a * 10 + b.

Inductive pnum := PU64 (z : Z) | PI64 (z : Z) | PF64 (f : f64).

Definition num_of_pnum (p : pnum) : value :=
  match p with
  | PU64 z => VNum (PosInt z)
  | PI64 z => if z <? 0 then VNum (NegInt z) else VNum (PosInt z)
  | PF64 f => if f_is_finite f then VNum (Flt f) else VNull
  end.

Definition lift_f (r : res (option f64)) (rest : str) : res (option (pnum * str)) :=
  let* o := r in Ok (option_map (fun f => (PF64 f, rest)) o).

(** exponent digits loop: [exp] already holds the first digit *)
Fixpoint exp_digits (s : str) (exp : Z) : option Z * str :=     (* None = i32 overflow *)
  match s with
  | c :: r =>
      if is_digit c then
        if ovf exp (c - 48) i32_max then (None, r) else exp_digits r (exp * 10 + (c - 48))
      else (Some exp, s)
  | [] => (Some exp, [])
  end.

(** [parse_exponent], entered after the [e]/[E] has been eaten. *)
Definition parse_exponent (positive : bool) (significand starting_exp : Z) (s : str) : res (option (pnum * str)) :=
  let '(positive_exp, s1) :=
    match s with
    | 43 :: r => (true, r)
    | 45 :: r => (false, r)
    | _ => (true, s)
    end in
  match s1 with
  | c :: r =>
      if is_digit c then
        match exp_digits r (c - 48) with
        | (None, r') =>
            (* parse_exponent_overflow *)
            if negb (significand =? 0) && positive_exp then Ok None
            else Ok (Some (PF64 (if positive then S754_zero false else S754_zero true), skip_digits r'))
        | (Some exp, r') =>
            let final_exp := if positive_exp then sat_i32 (starting_exp + exp) else sat_i32 (starting_exp - exp) in
            lift_f (f64_from_parts positive significand final_exp) r'
        end
      else Ok None
  | [] => Ok None
  end.

(** digits after the decimal point; returns the new significand, the number of
    digits consumed (as a negative exponent) and whether the u64 overflowed *)
Fixpoint dec_digits_loop (s : str) (sig : Z) (e : Z) : Z * Z * bool * str :=
  match s with
  | c :: r =>
      if is_digit c then
        if ovf sig (c - 48) u64_max then (sig, e, true, s)
        else dec_digits_loop r (sig * 10 + (c - 48)) (e - 1)
      else (sig, e, false, s)
  | [] => (sig, e, false, [])
  end.

(** [parse_decimal], entered after the [.] has been eaten. *)
Definition parse_decimal (positive : bool) (significand exp_before : Z) (s : str) : res (option (pnum * str)) :=
  let '(sig, e_after, overflowed, r) := dec_digits_loop s significand 0 in
  if overflowed then
    (* parse_decimal_overflow: ignore all further digits *)
    let r' := skip_digits r in
    match r' with
    | 101 :: r'' | 69 :: r'' => parse_exponent positive sig (exp_before + e_after) r''
    | _ => lift_f (f64_from_parts positive sig (exp_before + e_after)) r'
    end
  else if e_after =? 0 then Ok None
  else
    match r with
    | 101 :: r' | 69 :: r' => parse_exponent positive sig (exp_before + e_after) r'
    | _ => lift_f (f64_from_parts positive sig (exp_before + e_after)) r
    end.

Fixpoint count_digits (s : str) (n : Z) : Z * str :=
  match s with
  | c :: r => if is_digit c then count_digits r (n + 1) else (n, s)
  | [] => (n, [])
  end.

Definition parse_number (positive : bool) (significand : Z) (s : str) : res (option (pnum * str)) :=
  match s with
  | 46 :: r => parse_decimal positive significand 0 r
  | 101 :: r | 69 :: r => parse_exponent positive significand 0 r
  | _ =>
      if positive then Ok (Some (PU64 significand, s))
      else if significand =? 0 then Ok (Some (PF64 (S754_zero true), s))
      else if significand <=? 9223372036854775808 then Ok (Some (PI64 (- significand), s))
      else Ok (Some (PF64 (fopp (f_of_Z significand)), s))
  end.

Fixpoint int_digits_loop (s : str) (sig : Z) : Z * bool * str :=
  match s with
  | c :: r =>
      if is_digit c then
        if ovf sig (c - 48) u64_max then (sig, true, s) else int_digits_loop r (sig * 10 + (c - 48))
      else (sig, false, s)
  | [] => (sig, false, [])
  end.

(** [parse_integer]; [s] starts at the first digit. *)
Definition parse_integer (positive : bool) (s : str) : res (option (pnum * str)) :=
  match s with
  | [] => Ok None
  | 48 :: r =>
      match r with
      | c :: _ => if is_digit c then Ok None else parse_number positive 0 r
      | [] => parse_number positive 0 r
      end
  | c :: r =>
      if (49 <=? c) && (c <=? 57) then
        let '(sig, overflowed, r') := int_digits_loop r (c - 48) in
        if overflowed then
          (* parse_long_integer: the remaining digits only count as an exponent *)
          let '(exponent, r'') := count_digits r' 0 in
          match r'' with
          | 46 :: t => parse_decimal positive sig exponent t
          | 101 :: t | 69 :: t => parse_exponent positive sig exponent t
          | _ => lift_f (f64_from_parts positive sig exponent) r''
          end
        else parse_number positive sig r'
      else Ok None
  end.

(* ---------- strings ---------- *)
Definition hexval (c : Z) : option Z :=
  if is_digit c then Some (c - 48)
  else if (97 <=? c) && (c <=? 102) then Some (c - 87)
  else if (65 <=? c) && (c <=? 70) then Some (c - 55)
  else None.

Definition hex4 (s : str) : option (Z * str) :=
  match s with
  | a :: b :: c :: d :: r =>
      match hexval a, hexval b, hexval c, hexval d with
      | Some a', Some b', Some c', Some d' => Some (((a' * 16 + b') * 16 + c') * 16 + d', r)
      | _, _, _, _ => None
      end
  | _ => None
  end.

(** [parse_escape] with [validate = true]; [s] starts after the backslash. *)
Definition parse_escape (s : str) : option (Z * str) :=
  match s with
  | 34 :: r => Some (34, r)
  | 92 :: r => Some (92, r)
  | 47 :: r => Some (47, r)
  | 98 :: r => Some (8, r)
  | 102 :: r => Some (12, r)
  | 110 :: r => Some (10, r)
  | 114 :: r => Some (13, r)
  | 116 :: r => Some (9, r)
  | 117 :: r =>
      match hex4 r with
      | Some (n, r1) =>
          if (56320 <=? n) && (n <=? 57343) then None                     (* lone trailing surrogate *)
          else if (n <? 55296) || (56319 <? n) then Some (n, r1)
          else
            match r1 with
            | 92 :: 117 :: r2 =>
                match hex4 r2 with
                | Some (n2, r3) =>
                    if (n2 <? 56320) || (57343 <? n2) then None
                    else Some ((n - 55296) * 1024 + (n2 - 56320) + 65536, r3)
                | None => None
                end
            | _ => None
            end
      | None => None
      end
  | _ => None
  end.

(** String body after the opening quote. Structural on the input. *)
Fixpoint parse_string_body (fuel : nat) (s : str) (acc : str) : option (str * str) :=
  match fuel with
  | O => None
  | S fu =>
      match s with
      | [] => None
      | 34 :: r => Some (rev_append acc [], r)
      | 92 :: r =>
          match parse_escape r with
          | Some (c, r') => parse_string_body fu r' (c :: acc)
          | None => None
          end
      | c :: r => if c <? 32 then None else parse_string_body fu r (c :: acc)
      end
  end.

Definition parse_string (s : str) : option (str * str) := parse_string_body (S (length s)) s [].

Definition expect (lit : str) (s : str) : option str :=
  (fix go (lit s : str) : option str :=
     match lit, s with
     | [], _ => Some s
     | a :: lit', b :: s' => if a =? b then go lit' s' else None
     | _ :: _, [] => None
     end) lit s.

(* ---------- values ---------- *)
(** [depth] is serde_json's [remaining_depth] (128 at the top). *)
Fixpoint parse_value (fuel : nat) (depth : Z) (s : str) : res (option (value * str)) :=
  match fuel with
  | O => OOF
  | S fu =>
      match skip_ws s with
      | [] => Ok None
      | 110 :: r => Ok (option_map (fun r' => (VNull, r')) (expect [117;108;108] r))
      | 116 :: r => Ok (option_map (fun r' => (VBool true, r')) (expect [114;117;101] r))
      | 102 :: r => Ok (option_map (fun r' => (VBool false, r')) (expect [97;108;115;101] r))
      | 45 :: r =>
          let* o := parse_integer false r in
          Ok (option_map (fun '(p, r') => (num_of_pnum p, r')) o)
      | 34 :: r => Ok (option_map (fun '(str, r') => (VStr str, r')) (parse_string r))
      | 91 :: r =>
          if depth - 1 =? 0 then Ok None else
          match skip_ws r with
          | 93 :: r' => Ok (Some (VArr [], r'))
          | r' => let* o := parse_elems fu (depth - 1) r' in
                  Ok (option_map (fun '(l, r'') => (VArr l, r'')) o)
          end
      | 123 :: r =>
          if depth - 1 =? 0 then Ok None else
          match skip_ws r with
          | 125 :: r' => Ok (Some (VObj [], r'))
          | r' => let* o := parse_members fu (depth - 1) r' [] in
                  Ok (option_map (fun '(l, r'') => (VObj l, r'')) o)
          end
      | c :: r =>
          if is_digit c then
            let* o := parse_integer true (c :: r) in
            Ok (option_map (fun '(p, r') => (num_of_pnum p, r')) o)
          else Ok None
      end
  end
with parse_elems (fuel : nat) (depth : Z) (s : str) : res (option (list value * str)) :=
  match fuel with
  | O => OOF
  | S fu =>
      let* o := parse_value fu depth s in
      match o with
      | None => Ok None
      | Some (v, r) =>
          match skip_ws r with
          | 44 :: r' =>
              match skip_ws r' with
              | 93 :: _ => Ok None                                  (* trailing comma *)
              | r'' => let* o' := parse_elems fu depth r'' in
                       Ok (option_map (fun '(l, t) => (v :: l, t)) o')
              end
          | 93 :: r' => Ok (Some ([v], r'))
          | _ => Ok None
          end
      end
  end
with parse_members (fuel : nat) (depth : Z) (s : str) (acc : list (str * value)) : res (option (list (str * value) * str)) :=
  match fuel with
  | O => OOF
  | S fu =>
      match skip_ws s with
      | 34 :: r =>
          match parse_string r with
          | Some (k, r1) =>
              match skip_ws r1 with
              | 58 :: r2 =>
                  let* o := parse_value fu depth r2 in
                  match o with
                  | None => Ok None
                  | Some (v, r3) =>
                      let acc' := obj_insert acc k v in
                      match skip_ws r3 with
                      | 44 :: r4 =>
                          match skip_ws r4 with
                          | 125 :: _ => Ok None                     (* trailing comma *)
                          | r5 => parse_members fu depth r5 acc'
                          end
                      | 125 :: r4 => Ok (Some (acc', r4))
                      | _ => Ok None
                      end
                  end
              | _ => Ok None
              end
          | None => Ok None
          end
      | _ => Ok None
      end
  end.

(** [Variable::from_json]: one value, then only whitespace. *)
Definition from_json (s : str) : res (option value) :=
  let* o := parse_value (4 + 2 * length s) 128 s in
  match o with
  | Some (v, r) => match skip_ws r with [] => Ok (Some v) | _ => Ok None end
  | None => Ok None
  end.
