(** The serde bridge (C14) and the input conversions (C17).
    [sval] is serde's data model; [ser_var] transcribes [impl ser::Serializer for
    Serializer] of variable.rs (method by method), [ser_json] transcribes
    serde_json's [value::Serializer] (third-party, modelled from its source),
    so that "typed values are searched as their JSON image" is a theorem about
    the two. *)
From Coq Require Import Floats.SpecFloat.
From JP Require Import Base F64 Value JsonPrint.

Inductive sval :=
| SBool (b : bool)
| SInt (z : Z)                 (* i8..i64 / u8..u64: every width goes through [Number::from] *)
| SF32 (f : f64)               (* the f32 already widened to f64 (exact) *)
| SF64 (f : f64)
| SChar (c : Z) | SStr (s : str) | SBytes (l : list Z)
| SNone | SSome (v : sval) | SUnit | SUnitStruct | SUnitVariant (variant : str)
| SNewtypeStruct (v : sval) | SNewtypeVariant (variant : str) (v : sval)
| SSeq (l : list sval) | STuple (l : list sval) | STupleStruct (l : list sval) | STupleVariant (variant : str) (l : list sval)
| SMap (kvs : list (sval * sval)) | SStruct (fields : list (str * sval)) | SStructVariant (variant : str) (fields : list (str * sval)).

Definition num_of_int (z : Z) : value := if z <? 0 then VNum (NegInt z) else VNum (PosInt z).
Definition num_of_f64 (f : f64) : value := if f_is_finite f then VNum (Flt f) else VNull.

Inductive sres (A : Type) := SOk (a : A) | SErr.
Arguments SOk {A}. Arguments SErr {A}.
Definition sbind {A B} (r : sres A) (f : A -> sres B) : sres B := match r with SOk a => f a | SErr => SErr end.

Section Ser.
  (** how a map key is turned into a string; [None] = "key must be a string" *)
  Variable key_string : sval -> option str.

  Fixpoint ser (v : sval) : sres value :=
    match v with
    | SBool b => SOk (VBool b)
    | SInt z => SOk (num_of_int z)
    | SF32 f | SF64 f => SOk (num_of_f64 f)
    | SChar c => SOk (VStr [c])
    | SStr s => SOk (VStr s)
    | SBytes l => SOk (VArr (map (fun b => VNum (PosInt b)) l))
    | SNone | SUnit | SUnitStruct => SOk VNull
    | SSome x | SNewtypeStruct x => ser x
    | SUnitVariant n => SOk (VStr n)
    | SNewtypeVariant n x => sbind (ser x) (fun y => SOk (VObj [(n, y)]))
    | SSeq l | STuple l | STupleStruct l =>
        sbind ((fix go (l : list sval) : sres (list value) :=
                  match l with
                  | [] => SOk []
                  | x :: r => sbind (ser x) (fun y => sbind (go r) (fun ys => SOk (y :: ys)))
                  end) l) (fun ys => SOk (VArr ys))
    | STupleVariant n l =>
        sbind ((fix go (l : list sval) : sres (list value) :=
                  match l with
                  | [] => SOk []
                  | x :: r => sbind (ser x) (fun y => sbind (go r) (fun ys => SOk (y :: ys)))
                  end) l) (fun ys => SOk (VObj [(n, VArr ys)]))
    | SMap kvs =>
        sbind ((fix go (kvs : list (sval * sval)) (acc : list (str * value)) : sres (list (str * value)) :=
                  match kvs with
                  | [] => SOk acc
                  | (k, x) :: r =>
                      match key_string k with
                      | Some ks => sbind (ser x) (fun y => go r (obj_insert acc ks y))
                      | None => SErr
                      end
                  end) kvs []) (fun m => SOk (VObj m))
    | SStruct fields =>
        sbind ((fix go (fs : list (str * sval)) (acc : list (str * value)) : sres (list (str * value)) :=
                  match fs with
                  | [] => SOk acc
                  | (k, x) :: r => sbind (ser x) (fun y => go r (obj_insert acc k y))
                  end) fields []) (fun m => SOk (VObj m))
    | SStructVariant n fields =>
        sbind ((fix go (fs : list (str * sval)) (acc : list (str * value)) : sres (list (str * value)) :=
                  match fs with
                  | [] => SOk acc
                  | (k, x) :: r => sbind (ser x) (fun y => go r (obj_insert acc k y))
                  end) fields []) (fun m => SOk (VObj [(n, VObj m)]))
    end.
End Ser.

(** variable.rs: [serialize_key] serialises the key with the same serializer and
    requires the result to be a [Variable::String]. Only strings, chars and
    unit variants produce one. *)
Definition key_var (k : sval) : option str :=
  match k with
  | SStr s => Some s
  | SChar c => Some [c]
  | SUnitVariant n => Some n
  | SNewtypeStruct (SStr s) | SSome (SStr s) => Some s
  | _ => None
  end.

Definition digits_str (z : Z) : str := print_z z.

(** serde_json [MapKeySerializer]: strings, chars, unit variants, and also
    integers and booleans (rendered as text). *)
Definition key_json (k : sval) : option str :=
  match k with
  | SStr s => Some s
  | SChar c => Some [c]
  | SUnitVariant n => Some n
  | SNewtypeStruct (SStr s) => Some s
  | SInt z => Some (digits_str z)
  | SBool true => Some [116;114;117;101]
  | SBool false => Some [102;97;108;115;101]
  | _ => None
  end.

Definition ser_var : sval -> sres value := ser key_var.
Definition ser_json : sval -> sres value := ser key_json.

(** Keys on which the two key serialisers agree: what "string-keyed maps" means. *)
Fixpoint string_keyed (v : sval) : bool :=
  match v with
  | SSome x | SNewtypeStruct x | SNewtypeVariant _ x => string_keyed x
  | SSeq l | STuple l | STupleStruct l | STupleVariant _ l => forallb string_keyed l
  | SMap kvs =>
      forallb (fun kv => match fst kv with SStr _ | SChar _ | SUnitVariant _ | SNewtypeStruct (SStr _) => true | _ => false end
                         && string_keyed (snd kv)) kvs
  | SStruct fs | SStructVariant _ fs => forallb (fun kv => string_keyed (snd kv)) fs
  | _ => true
  end.

(* ---------- C17: input conversions ---------- *)
(** The specially handled input types of lib.rs:190-357. *)
Inductive input :=
| IJson (v : value)       (* serde_json::Value, owned or borrowed *)
| IVar (v : value)        (* Variable / &Variable / Rcvar / &Rcvar *)
| IStr (s : str)          (* String / &str *)
| IInt (z : Z)            (* i8..i64, isize, u8..u64, usize *)
| IF32 (f : f64)          (* widened exactly to f64 *)
| IF64 (f : f64)
| IUnit | IBool (b : bool).

(** A JSON-like value as serde's data model (how [Value] and [Variable] serialise themselves). *)
Fixpoint sval_of_value (v : value) : sval :=
  match v with
  | VNull => SUnit
  | VBool b => SBool b
  | VNum (PosInt z) | VNum (NegInt z) => SInt z
  | VNum (Flt f) => SF64 f
  | VStr s => SStr s
  | VArr l => SSeq (map sval_of_value l)
  | VObj o => SMap (map (fun kv => (SStr (fst kv), sval_of_value (snd kv))) o)
  | VExpref _ => SStr []     (* serialised as a string holding the Debug dump: not JSON-representable *)
  end.

Definition conv_generic (i : input) : sres value :=
  match i with
  | IJson v | IVar v => ser_var (sval_of_value v)
  | IStr s => ser_var (SStr s)
  | IInt z => ser_var (SInt z)
  | IF32 f => ser_var (SF32 f)
  | IF64 f => ser_var (SF64 f)
  | IUnit => ser_var SUnit
  | IBool b => ser_var (SBool b)
  end.

Definition conv_special (i : input) : sres value :=
  match i with
  | IJson v => SOk v                        (* TryFrom<Value>: structural copy *)
  | IVar v => SOk v                         (* identity / clone *)
  | IStr s => SOk (VStr s)
  | IInt z => SOk (num_of_int z)
  | IF32 f | IF64 f => if f_is_finite f then SOk (VNum (Flt f)) else SErr      (* D12: error instead of null *)
  | IUnit => SOk VNull
  | IBool b => SOk (VBool b)
  end.
