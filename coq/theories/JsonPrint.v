(** Model of [serde_json::to_string] on a [Variable] (compact formatter) and of
    the pretty formatter used by [jp].  Float printing is "shortest decimal that
    round-trips, closest to the exact value among the shortest" (the contract of
    zmij/Ryu/Schubfach) followed by zmij's layout rules (fixed notation for
    decimal exponents -5..15, otherwise [d.ddde+XX]).  Third-party behaviour:
    validated by correspondence. *)
From Coq Require Import Floats.SpecFloat.
From JP Require Import Base F64 Value.

(* ---------- decimal digits of integers ---------- *)
Fixpoint digits_go (fuel : nat) (z : Z) (acc : list Z) : list Z :=
  match fuel with
  | O => acc
  | S f => if z <? 10 then (48 + z) :: acc else digits_go f (z / 10) ((48 + z mod 10) :: acc)
  end.
Definition digits_of (z : Z) : list Z := digits_go (S (Z.to_nat (Z.log2 z))) z [].
Definition print_z (z : Z) : str := if z <? 0 then 45 :: digits_of (- z) else digits_of z.

(* ---------- shortest round-trip digits ---------- *)
Definition pow2 (k : Z) : Z := 2 ^ (Z.max k 0).
Definition p10 (k : Z) : Z := 10 ^ (Z.max k 0).

(** Compare [c * 10^k] with [x * 2^e2]. *)
Definition cmp_dec_bin (c k x e2 : Z) : comparison :=
  (c * p10 k * pow2 (- e2)) ?= (x * pow2 e2 * p10 (- k)).

(** [floor (x * 2^e2 / 10^k)] *)
Definition floor_div (x e2 k : Z) : Z := (x * pow2 e2 * p10 (- k)) / (p10 k * pow2 (- e2)).

(** [floor (log10 (m * 2^e))] by estimate and correction. *)
Definition floor_log10 (m e : Z) : Z :=
  let l2 := Z.log2 m + e in
  let t0 := (l2 * 30103) / 100000 in
  (* v >= 10^t ? *)
  let ge t := match cmp_dec_bin 1 t m e with Gt => false | _ => true end in
  if ge (t0 + 1) then (if ge (t0 + 2) then t0 + 2 else t0 + 1)
  else if ge t0 then t0
  else if ge (t0 - 1) then t0 - 1 else t0 - 2.

Fixpoint strip_zeros (fuel : nat) (c k : Z) : Z * Z :=
  match fuel with
  | O => (c, k)
  | S f => if (c mod 10 =? 0) && negb (c =? 0) then strip_zeros f (c / 10) (k + 1) else (c, k)
  end.

(** Shortest digits for a positive finite double [m * 2^e]: [(c, k)] with
    [c * 10^k] in the rounding interval, [c] having the fewest digits, closest
    to the exact value (ties to even [c]). *)
Fixpoint shortest_go (fuel : nat) (n : Z) (m e : Z) (lo hi : Z) (closed : bool) (e10 : Z) : option (Z * Z) :=
  match fuel with
  | O => None
  | S f =>
      let e2 := e - 2 in
      let k := e10 - (n - 1) in
      let v := 4 * m in
      let dlo := floor_div v e2 k in
      let dhi := dlo + 1 in
      let inside c :=
        match cmp_dec_bin c k lo e2, cmp_dec_bin c k hi e2 with
        | Gt, Lt => true
        | Eq, Lt | Gt, Eq | Eq, Eq => closed
        | _, _ => false
        end in
      let ok_lo := inside dlo && (0 <? dlo) in
      let ok_hi := inside dhi in
      (* distance comparison: v - dlo*10^k  vs  dhi*10^k - v, i.e. 2v vs (dlo+dhi)*10^k *)
      let pick :=
        if ok_lo && ok_hi then
          match cmp_dec_bin (dlo + dhi) k (2 * v) e2 with
          | Gt => Some dlo          (* midpoint above v: dlo is closer *)
          | Lt => Some dhi
          | Eq => Some (if Z.even dlo then dlo else dhi)
          end
        else if ok_lo then Some dlo
        else if ok_hi then Some dhi
        else None in
      match pick with
      | Some c => Some (strip_zeros 20 c k)
      | None => shortest_go f (n + 1) m e lo hi closed e10
      end
  end.

Definition shortest_digits (m e : Z) : option (Z * Z) :=
  let irregular := (m =? 2 ^ 52) && (-1074 <? e) in
  let lo := if irregular then 4 * m - 1 else 4 * m - 2 in
  let hi := 4 * m + 2 in
  shortest_go 18 1 m e lo hi (Z.even m) (floor_log10 m e).

Fixpoint repeat_z (c : Z) (n : nat) : list Z := match n with O => [] | S n' => c :: repeat_z c n' end.

(** zmij layout. [ds] are the significant digits, [dec_exp] the exponent of the
    first digit. *)
Definition layout (ds : list Z) (dec_exp : Z) : str :=
  let n := zlen ds in
  if (-5 <=? dec_exp) && (dec_exp <=? 15) then
    if n - 1 <=? dec_exp then ds ++ repeat_z 48 (Z.to_nat (dec_exp + 1 - n)) ++ [46; 48]
    else if 0 <=? dec_exp then firstn (Z.to_nat (dec_exp + 1)) ds ++ 46 :: skipn (Z.to_nat (dec_exp + 1)) ds
    else 48 :: 46 :: repeat_z 48 (Z.to_nat (- dec_exp - 1)) ++ ds
  else
    let mant := match ds with
                | [d] => [d]
                | d :: r => d :: 46 :: r
                | [] => []
                end in
    mant ++ 101 :: (if dec_exp <? 0 then 45 else 43) :: digits_of (Z.abs dec_exp).

Definition print_f64 (f : f64) : res str :=
  match f with
  | S754_zero s => Ok ((if s then [45] else []) ++ [48; 46; 48])
  | S754_finite s m e =>
      match shortest_digits (Zpos m) e with
      | Some (c, k) =>
          let ds := digits_of c in
          Ok ((if s then [45] else []) ++ layout ds (k + zlen ds - 1))
      | None => Unmodelled
      end
  | _ => Unmodelled      (* serde_json prints null for non-finite; never stored in a Number *)
  end.

Definition print_num (n : num) : res str :=
  match n with
  | PosInt z => Ok (print_z z)
  | NegInt z => Ok (print_z z)
  | Flt f => print_f64 f
  end.

(* ---------- strings ---------- *)
Definition hexd (d : Z) : Z := if d <? 10 then 48 + d else 87 + d.

Definition escape_char (c : Z) : str :=
  if c =? 34 then [92; 34]
  else if c =? 92 then [92; 92]
  else if c =? 8 then [92; 98]
  else if c =? 9 then [92; 116]
  else if c =? 10 then [92; 110]
  else if c =? 12 then [92; 102]
  else if c =? 13 then [92; 114]
  else if c <? 32 then [92; 117; 48; 48; hexd (c / 16); hexd (c mod 16)]
  else [c].

Definition print_string (s : str) : str := 34 :: flat_map escape_char s ++ [34].

(* ---------- compact values ---------- *)
Fixpoint sep_concat (sep : str) (l : list str) : str :=
  match l with
  | [] => []
  | [x] => x
  | x :: l' => x ++ sep ++ sep_concat sep l'
  end.

Fixpoint mapM_res {A B} (f : A -> res B) (l : list A) : res (list B) :=
  match l with
  | [] => Ok []
  | x :: l' => let* y := f x in let* ys := mapM_res f l' in Ok (y :: ys)
  end.

(** Exprefs serialise as a string holding the [Debug] dump of the tree: not modelled. *)
Fixpoint print_json (v : value) : res str :=
  match v with
  | VNull => Ok [110;117;108;108]
  | VBool true => Ok [116;114;117;101]
  | VBool false => Ok [102;97;108;115;101]
  | VNum n => print_num n
  | VStr s => Ok (print_string s)
  | VArr l =>
      let* parts := (fix go (l : list value) : res (list str) :=
                       match l with
                       | [] => Ok []
                       | x :: l' => let* y := print_json x in let* ys := go l' in Ok (y :: ys)
                       end) l in
      Ok (91 :: sep_concat [44] parts ++ [93])
  | VObj l =>
      let* parts := (fix go (l : list (str * value)) : res (list str) :=
                       match l with
                       | [] => Ok []
                       | (k, x) :: l' =>
                           let* y := print_json x in let* ys := go l' in Ok ((print_string k ++ 58 :: y) :: ys)
                       end) l in
      Ok (123 :: sep_concat [44] parts ++ [125])
  | VExpref _ => Unmodelled
  end.

(* ---------- pretty printer (serde_json PrettyFormatter, two-space indent) ---------- *)
Definition indent (n : nat) : str := repeat_z 32 (2 * n).

Fixpoint print_pretty (ind : nat) (v : value) : res str :=
  match v with
  | VArr [] => Ok [91; 93]
  | VObj [] => Ok [123; 125]
  | VArr l =>
      let* parts := (fix go (l : list value) : res (list str) :=
                       match l with
                       | [] => Ok []
                       | x :: l' => let* y := print_pretty (S ind) x in let* ys := go l' in
                                    Ok ((10 :: indent (S ind) ++ y) :: ys)
                       end) l in
      Ok (91 :: sep_concat [44] parts ++ 10 :: indent ind ++ [93])
  | VObj l =>
      let* parts := (fix go (l : list (str * value)) : res (list str) :=
                       match l with
                       | [] => Ok []
                       | (k, x) :: l' =>
                           let* y := print_pretty (S ind) x in let* ys := go l' in
                           Ok ((10 :: indent (S ind) ++ print_string k ++ 58 :: 32 :: y) :: ys)
                       end) l in
      Ok (123 :: sep_concat [44] parts ++ 10 :: indent ind ++ [125])
  | _ => print_json v
  end.
