(** IEEE-754 binary64 arithmetic, computed with the standard library's
    [SpecFloat] (the executable specification of Coq's primitive floats; axiom
    free).  The model only ever stores finite doubles (serde_json's [Number]
    invariant) but the operations are the full IEEE ones, so that a non-finite
    intermediate result is visible to the model exactly as it is to the code. *)
From Coq Require Import Floats.SpecFloat.
From JP Require Import Base.

Definition prec := 53.
Definition emax := 1024.
Definition f64 := spec_float.

Definition f_of_Z (z : Z) : f64 := binary_normalize prec emax z 0 false.  (* [z as f64], round to nearest even *)
Definition fadd : f64 -> f64 -> f64 := SFadd prec emax.
Definition fsub : f64 -> f64 -> f64 := SFsub prec emax.
Definition fmul : f64 -> f64 -> f64 := SFmul prec emax.
Definition fdiv : f64 -> f64 -> f64 := SFdiv prec emax.
Definition fabs : f64 -> f64 := SFabs.
Definition fopp : f64 -> f64 := SFopp.
Definition fcompare : f64 -> f64 -> option comparison := SFcompare.
Definition feqb : f64 -> f64 -> bool := SFeqb.     (* IEEE ==  *)
Definition fltb : f64 -> f64 -> bool := SFltb.

Definition f_is_finite (f : f64) : bool :=
  match f with S754_finite _ _ _ | S754_zero _ => true | _ => false end.
Definition f_is_infinite (f : f64) : bool :=
  match f with S754_infinity _ => true | _ => false end.
Definition f_is_zero (f : f64) : bool := match f with S754_zero _ => true | _ => false end.
(** [f64::is_normal]: neither zero, subnormal, infinite nor NaN. *)
Definition f_is_normal (f : f64) : bool :=
  match f with S754_finite _ m _ => (Zpos (digits2_pos m) =? prec) | _ => false end.

Definition f_pow2 (e : Z) : f64 := binary_normalize prec emax 1 e false.
Definition f_epsilon : f64 := f_pow2 (-52).
Definition f_min_positive : f64 := f_pow2 (-1022).

(** [variable.rs:70-85] *)
Definition float_eq (a b : f64) : bool :=
  let abs_a := fabs a in
  let abs_b := fabs b in
  let diff := fabs (fsub a b) in
  if feqb a b then true
  else if negb (f_is_normal a) || negb (f_is_normal b) then
    fltb diff (fmul f_epsilon f_min_positive)
  else fltb (fdiv diff (fadd abs_a abs_b)) f_epsilon.

(** [f64::floor] / [f64::ceil] (exact operations). *)
Definition f_floor (f : f64) : f64 :=
  match f with
  | S754_finite s m e =>
      if 0 <=? e then f else
      let d := 2 ^ (- e) in
      let q := Zpos m / d in
      let r := Zpos m mod d in
      if s then
        let q' := if r =? 0 then q else q + 1 in
        binary_normalize prec emax (- q') 0 true
      else binary_normalize prec emax q 0 false
  | _ => f
  end.
Definition f_ceil (f : f64) : f64 := fopp (f_floor (fopp f)).

(** Bit patterns (used only by the wire format and by C08). *)
Definition bits_of_f (f : f64) : Z :=
  match f with
  | S754_zero s => if s then 2 ^ 63 else 0
  | S754_infinity s => (if s then 2 ^ 63 else 0) + 2047 * 2 ^ 52
  | S754_nan => 2047 * 2 ^ 52 + 2 ^ 51
  | S754_finite s m e =>
      (if s then 2 ^ 63 else 0) +
      (if Zpos m <? 2 ^ 52 then Zpos m else (e + 1075) * 2 ^ 52 + (Zpos m - 2 ^ 52))
  end.

Definition f_of_bits (z : Z) : f64 :=
  let s := 0 <? z / 2 ^ 63 in
  let E := (z / 2 ^ 52) mod 2048 in
  let frac := z mod 2 ^ 52 in
  if E =? 0 then
    match frac with Zpos p => S754_finite s p (-1074) | _ => S754_zero s end
  else if E =? 2047 then (if frac =? 0 then S754_infinity s else S754_nan)
  else match frac + 2 ^ 52 with Zpos p => S754_finite s p (E - 1075) | _ => S754_nan end.

Definition f_valid (f : f64) : bool := valid_binary prec emax f.

(** An IEEE binary32 bit pattern widened (exactly) to binary64: [f as f64]. *)
Definition f_of_bits32 (z : Z) : f64 :=
  let s := 0 <? z / 2 ^ 31 in
  let E := (z / 2 ^ 23) mod 256 in
  let frac := z mod 2 ^ 23 in
  if E =? 255 then (if frac =? 0 then S754_infinity s else S754_nan)
  else
    let m := if E =? 0 then frac else frac + 2 ^ 23 in
    let e := if E =? 0 then -149 else E - 150 in
    binary_normalize prec emax (if s then - m else m) e s.
