(** Operation histories over runtimes and compiled expressions (C13, C15):
    the model of [Runtime::{new, register_function, deregister_function,
    register_builtin_functions, get_function, compile}], [Expression::{clone,
    search}] and drop.  A compiled expression is the immutable triple (text,
    tree, runtime); every search creates a fresh context. *)
From JP Require Import Base F64 Value Sig Functions Interp Lexer Parser.

Inductive rop :=
| OReg (name : str) (f : fimpl)
| ODereg (name : str)
| ORegBuiltins.

Definition apply_rop (rt : registry) (op : rop) : registry :=
  match op with
  | OReg n f => rt_register rt n f
  | ODereg n => rt_deregister rt n
  | ORegBuiltins => register_builtins rt
  end.

Inductive hop :=
| HNewRt (r : Z)                       (* Runtime::new() *)
| HRop (r : Z) (op : rop)              (* a registry operation on runtime r *)
| HGet (r : Z) (name : str)            (* get_function(name).is_some() *)
| HCompile (h r : Z) (text : str)      (* h = runtime r .compile(text) *)
| HClone (h2 h : Z)
| HSearch (h : Z) (doc : value)
| HDrop (h : Z).

Inductive hobs :=
| ONone                                (* the operation has no observable result *)
| OBool (b : bool)
| OCompiled (text : str) (r : res ast)
| OSearched (text : str) (r : res value)
| OBadHandle.

Record hstate := mkH {
  runtimes : list (Z * registry);
  handles : list (Z * (str * res ast * Z))   (* text, compile result, runtime id *)
}.

Fixpoint zget {A} (l : list (Z * A)) (k : Z) : option A :=
  match l with
  | [] => None
  | (k', v) :: r => if k =? k' then Some v else zget r k
  end.
Definition zput {A} (l : list (Z * A)) (k : Z) (v : A) : list (Z * A) := (k, v) :: l.
Fixpoint zdel {A} (l : list (Z * A)) (k : Z) : list (Z * A) :=
  match l with
  | [] => []
  | (k', v) :: r => if k =? k' then zdel r k else (k', v) :: zdel r k
  end.

Definition search_fuel : nat := Z.to_nat 4000.

(** Runtime id 0 is the lazily created default runtime (builtins registered once). *)
Definition rt_of (st : hstate) (r : Z) : option registry :=
  if r =? 0 then Some default_runtime else zget (runtimes st) r.

Definition hstep (st : hstate) (op : hop) : hstate * hobs :=
  match op with
  | HNewRt r => (mkH (zput (runtimes st) r []) (handles st), ONone)
  | HRop r o =>
      match zget (runtimes st) r with
      | Some rt => (mkH (zput (runtimes st) r (apply_rop rt o)) (handles st), ONone)
      | None => (st, OBadHandle)
      end
  | HGet r name =>
      match rt_of st r with
      | Some rt => (st, OBool (match rt_get rt name with Some _ => true | None => false end))
      | None => (st, OBadHandle)
      end
  | HCompile h r text =>
      match rt_of st r with
      | Some _ =>
          let a := parse text in
          match a with
          | Ok _ => (mkH (runtimes st) (zput (handles st) h (text, a, r)), OCompiled text a)
          | _ => (mkH (runtimes st) (zdel (handles st) h), OCompiled text a)     (* no expression results *)
          end
      | None => (st, OBadHandle)
      end
  | HClone h2 h =>
      match zget (handles st) h with
      | Some e => (mkH (runtimes st) (zput (handles st) h2 e), ONone)
      | None => (st, OBadHandle)
      end
  | HSearch h d =>
      match zget (handles st) h with
      | Some (text, Ok a, r) =>
          match rt_of st r with
          | Some rt => (st, OSearched text (search_ast search_fuel rt a d))
          | None => (st, OBadHandle)
          end
      | Some (_, _, _) => (st, OBadHandle)          (* a failed compile yields no expression *)
      | None => (st, OBadHandle)
      end
  | HDrop h => (mkH (runtimes st) (zdel (handles st) h), ONone)
  end.

Fixpoint hrun (st : hstate) (ops : list hop) : list hobs :=
  match ops with
  | [] => []
  | op :: r => let '(st', o) := hstep st op in o :: hrun st' r
  end.

Definition h0 : hstate := mkH [] [].
