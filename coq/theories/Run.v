(** [run_line]: one case line in, one observation line out (model side of the
    correspondence check). *)
From Coq Require Import String.
From JP Require Import Base F64 Value Sig Slice JsonRead JsonPrint Functions Interp Lexer Parser History Serde Decode Cli Wire Spec.SliceSpec Spec.Semantics Spec.SigSpec Render.

Definition K_slice := Eval compute in s2l "slice".
Definition K_index := Eval compute in s2l "index".

Definition bad : list tok := [K_BADCASE].

Definition run_slice (ts : list tok) : list tok :=
  match rd_value (S (length ts)) ts with
  | Some (VArr arr, [a; b; c]) =>
      match parse_optint a, parse_optint b, parse_int c with
      | Some a', Some b', Some c' =>
          pr_res [] (fun l => pr_value (VArr l)) (slice arr a' b' c')
      | _, _, _ => bad
      end
  | Some (_, [_; _; _]) => pr_res [] pr_value (Ok VNull)     (* Variable::slice on a non-array: None *)
  | _ => bad
  end.

Definition fuel_default : nat := Z.to_nat 4000.

Definition interp_index (v : value) (idx : Z) : res value :=
  let* (r, _) := interp 1 [] v (AIndex idx) 0 in Ok r.

Definition run_index (ts : list tok) : list tok :=
  match rd_value (S (length ts)) ts with
  | Some (v, [n]) =>
      match parse_int n with
      | Some n' => pr_res [] pr_value (interp_index v n')
      | None => bad
      end
  | _ => bad
  end.

Definition K_evalast := Eval compute in s2l "evalast".
Definition K_cmp := Eval compute in s2l "cmp".
Definition K_truthy := Eval compute in s2l "truthy".
Definition K_fn := Eval compute in s2l "fn".
Definition K_nofunction := Eval compute in s2l "nofunction".

(** evalast <text> <ast> <doc> : [Expression::new(text, ast, &DEFAULT_RUNTIME).search(doc)] *)
Definition run_evalast (ts : list tok) : list tok :=
  match ts with
  | t :: r =>
      match parse_str t with
      | Some text =>
          match rd_ast (S (length r)) r with
          | Some (a, r') =>
              match rd_value (S (length r')) r' with
              | Some (d, []) => pr_res text pr_value (search_ast fuel_default default_runtime a d)
              | _ => bad
              end
          | None => bad
          end
      | None => bad
      end
  | [] => bad
  end.

Definition run_cmp (ts : list tok) : list tok :=
  match ts with
  | c :: r =>
      match parse_cmpop c, rd_value (S (length r)) r with
      | Some c', Some (a, r') =>
          match rd_value (S (length r')) r' with
          | Some (b, []) =>
              pr_res [] pr_value (Ok (match compare_values c' a b with Some x => VBool x | None => VNull end))
          | _ => bad
          end
      | _, _ => bad
      end
  | [] => bad
  end.

Definition run_truthy (ts : list tok) : list tok :=
  match rd_value (S (length ts)) ts with
  | Some (a, []) => pr_res [] pr_value (Ok (VBool (is_truthy a)))
  | _ => bad
  end.

Fixpoint rd_all_values (fuel : nat) (ts : list tok) : option (list value) :=
  match fuel with
  | O => None
  | S f =>
      match ts with
      | [] => Some []
      | _ => match rd_value (S (length ts)) ts with
             | Some (v, r) => option_map (cons v) (rd_all_values f r)
             | None => None
             end
      end
  end.

(** fn <offset> <name> <arg>* : [get_function(name).evaluate(args, ctx)] with [ctx.offset = offset] *)
Definition run_fn (ts : list tok) : list tok :=
  match ts with
  | o :: n :: r =>
      match parse_nat o, parse_str n, rd_all_values (S (length r)) r with
      | Some off, Some name, Some args =>
          match rt_get default_runtime name with
          | Some fi =>
              pr_res [] pr_value
                (let* (v, _) := call_impl (interp fuel_default default_runtime) fi args off in Ok v)
          | None => [K_ERR; K_nofunction]
          end
      | _, _, _ => bad
      end
  | _ => bad
  end.

Definition K_render := Eval compute in s2l "render".

(** render <expr> <line> <col> : the location block of Display for a JmespathError with these fields *)
Definition run_render (ts : list tok) : list tok :=
  match ts with
  | [e; l; c] =>
      match parse_str e, parse_nat l, parse_nat c with
      | Some expr, Some line, Some col => [K_OK; print_str (location_block expr line col)]
      | _, _, _ => bad
      end
  | _ => bad
  end.

Definition K_specfn := Eval compute in s2l "specfn".
Definition K_SPEC := Eval compute in s2l "SPEC".

(** specfn <off> <name> <args> : the specification's verdict on the call (oracle) *)
Definition run_specfn (ts : list tok) : list tok :=
  match ts with
  | o :: n :: r =>
      match parse_nat o, parse_str n, rd_all_values (S (length r)) r with
      | Some off, Some name, Some args =>
          match spec_verdict name args with
          | SVUnknown => [K_SPEC; K_unknown_function]
          | SVNotEnough e a => [K_SPEC; K_not_enough; print_nat e; print_nat a]
          | SVTooMany e a => [K_SPEC; K_too_many; print_nat e; print_nat a]
          | SVBadType k => [K_SPEC; K_invalid_type; print_nat k]
          | SVAccept => [K_SPEC; K_ok]
          end
      | _, _, _ => bad
      end
  | _ => bad
  end.

Definition K_parse_k := Eval compute in s2l "parse".
Definition K_search := Eval compute in s2l "search".

(** parse <text> : [jmespath::parse] *)
Definition run_parse (ts : list tok) : list tok :=
  match ts with
  | [t] =>
      match parse_str t with
      | Some text => pr_res text pr_ast (parse text)
      | None => bad
      end
  | _ => bad
  end.

(** search <text> <doc> : [compile(text)?.search(doc)] *)
Definition search_str (text : str) (d : value) : res value :=
  let* a := parse text in search_ast fuel_default default_runtime a d.

Definition run_search (ts : list tok) : list tok :=
  match ts with
  | t :: r =>
      match parse_str t, rd_value (S (length r)) r with
      | Some text, Some (d, []) => pr_res text pr_value (search_str text d)
      | _, _ => bad
      end
  | [] => bad
  end.

Definition K_refparse := Eval compute in s2l "refparse".

Definition K_refsearch := Eval compute in s2l "refsearch".

(** refsearch <text> <doc> : the specification end to end — the reference parser (documented table, nothing read from
    the source) followed by evaluation; a parse error carries no position (the oracle only says "not a sentence") *)
Definition run_refsearch (ts : list tok) : list tok :=
  match ts with
  | t :: r =>
      match parse_str t, rd_value (S (length r)) r with
      | Some text, Some (d, []) =>
          match ref_parse text with
          | Ok a => pr_res text pr_value (search_ast fuel_default default_runtime a d)
          | Err _ => [K_ERR; K_parse]
          | Trap => [K_TRAP] | OOF => [K_OOF] | Unmodelled => [K_UNMODELLED]
          end
      | _, _ => bad
      end
  | [] => bad
  end.

(** refparse <text> : the reference parser (sentence oracle of C03/C04) *)
Definition run_refparse (ts : list tok) : list tok :=
  match ts with
  | [t] =>
      match parse_str t with
      | Some text =>
          match ref_parse text with
          | Ok a => K_OK :: pr_ast a
          | Err _ => [K_ERR; K_parse]
          | Trap => [K_TRAP] | OOF => [K_OOF] | Unmodelled => [K_UNMODELLED]
          end
      | None => bad
      end
  | _ => bad
  end.

Definition K_speceval := Eval compute in s2l "speceval".

(** speceval <text> <ast> <doc> : the specification's value for a core tree (oracle of the violation search) *)
Definition run_speceval (ts : list tok) : list tok :=
  match ts with
  | t :: r =>
      match parse_str t with
      | Some text =>
          match rd_ast (S (length r)) r with
          | Some (a, r') =>
              match rd_value (S (length r')) r' with
              | Some (d, []) => if core a then pr_res text pr_value (eval a d) else [K_UNMODELLED]
              | _ => bad
              end
          | None => bad
          end
      | None => bad
      end
  | [] => bad
  end.

(* ---------- histories (C13, C15) ---------- *)
Definition K_hist := Eval compute in s2l "hist".
Definition K_new := Eval compute in s2l "new".
Definition K_reg := Eval compute in s2l "reg".
Definition K_dereg := Eval compute in s2l "dereg".
Definition K_regb := Eval compute in s2l "regb".
Definition K_get := Eval compute in s2l "get".
Definition K_compile := Eval compute in s2l "compile".
Definition K_clone := Eval compute in s2l "clone".
Definition K_drop := Eval compute in s2l "drop".
Definition K_BAD := Eval compute in s2l "BAD".
Definition K_any := Eval compute in s2l "any".
Definition K_null := Eval compute in s2l "null".
Definition K_string := Eval compute in s2l "string".
Definition K_number := Eval compute in s2l "number".
Definition K_bool := Eval compute in s2l "bool".
Definition K_object := Eval compute in s2l "object".
Definition K_array := Eval compute in s2l "array".
Definition K_expref := Eval compute in s2l "expref".
Definition K_an := Eval compute in s2l "an".
Definition K_as := Eval compute in s2l "as".
Definition K_aan := Eval compute in s2l "aan".
Definition K_ans := Eval compute in s2l "ans".
Definition K_aany := Eval compute in s2l "aany".
Definition K_aaa := Eval compute in s2l "aaa".
Definition K_uns := Eval compute in s2l "uns".
Definition K_uao := Eval compute in s2l "uao".

Definition parse_argtype (t : tok) : option argtype :=
  if str_eqb t K_any then Some TyAny else if str_eqb t K_null then Some TyNull
  else if str_eqb t K_string then Some TyString else if str_eqb t K_number then Some TyNumber
  else if str_eqb t K_bool then Some TyBool else if str_eqb t K_object then Some TyObject
  else if str_eqb t K_array then Some TyArray else if str_eqb t K_expref then Some TyExpref
  else if str_eqb t K_an then Some (TyTypedArray TyNumber) else if str_eqb t K_as then Some (TyTypedArray TyString)
  else if str_eqb t K_aan then Some (TyTypedArray (TyTypedArray TyNumber))
  else if str_eqb t K_ans then Some (TyTypedArray (TyUnion [TyNumber; TyString]))
  else if str_eqb t K_aany then Some (TyTypedArray TyAny) else if str_eqb t K_aaa then Some (TyTypedArray TyArray)
  else if str_eqb t K_uns then Some (TyUnion [TyNumber; TyString])
  else if str_eqb t K_uao then Some (TyUnion [TyTypedArray TyNumber; TyObject])
  else None.

(** [-] (a plain closure) or [S t1 ... tn / v] with [v] a type or [_] *)
Definition parse_sig (ts : list tok) : option (option signature) :=
  match ts with
  | [[45]] => Some None
  | [83] :: r =>
      (fix go (r : list tok) (acc : list argtype) : option (option signature) :=
         match r with
         | [47] :: [[95]] => Some (Some (mkSig (rev acc) None))
         | [47] :: [v] => option_map (fun t => Some (mkSig (rev acc) (Some t))) (parse_argtype v)
         | t :: r' => match parse_argtype t with Some t' => go r' (t' :: acc) | None => None end
         | [] => None
         end) r []
  | _ => None
  end.

Definition rd_hop (ts : list tok) : option hop :=
  match ts with
  | k :: r =>
      if str_eqb k K_new then match r with [a] => option_map HNewRt (parse_int a) | _ => None end
      else if str_eqb k K_reg then
        match r with
        | a :: n :: i :: sg =>
            match parse_int a, parse_str n, parse_int i, parse_sig sg with
            | Some a', Some n', Some i', Some sg' => Some (HRop a' (OReg n' (FCustom i' sg')))
            | _, _, _, _ => None
            end
        | _ => None
        end
      else if str_eqb k K_dereg then
        match r with [a; n] => match parse_int a, parse_str n with Some a', Some n' => Some (HRop a' (ODereg n')) | _, _ => None end | _ => None end
      else if str_eqb k K_regb then match r with [a] => option_map (fun a' => HRop a' ORegBuiltins) (parse_int a) | _ => None end
      else if str_eqb k K_get then
        match r with [a; n] => match parse_int a, parse_str n with Some a', Some n' => Some (HGet a' n') | _, _ => None end | _ => None end
      else if str_eqb k K_compile then
        match r with
        | [h; a; t] => match parse_int h, parse_int a, parse_str t with Some h', Some a', Some t' => Some (HCompile h' a' t') | _, _, _ => None end
        | _ => None
        end
      else if str_eqb k K_clone then
        match r with [h2; h] => match parse_int h2, parse_int h with Some a, Some b => Some (HClone a b) | _, _ => None end | _ => None end
      else if str_eqb k K_drop then match r with [h] => option_map HDrop (parse_int h) | _ => None end
      else if str_eqb k K_search then
        match r with
        | h :: d => match parse_int h, rd_value (S (length d)) d with Some h', Some (v, []) => Some (HSearch h' v) | _, _ => None end
        | [] => None
        end
      else None
  | [] => None
  end.

Definition pr_hobs (o : hobs) : list tok :=
  match o with
  | ONone => [[45]]
  | OBool true => [[116]]
  | OBool false => [[102]]
  | OCompiled _ (Ok a) => K_OK :: pr_ast a
  | OCompiled text r => pr_res text (fun _ : ast => []) r
  | OSearched text r => pr_res text pr_value r
  | OBadHandle => [K_BAD]
  end.

Fixpoint split_toks (sep : tok) (ts : list tok) (cur : list tok) : list (list tok) :=
  match ts with
  | [] => [rev cur]
  | t :: r => if str_eqb t sep then rev cur :: split_toks sep r [] else split_toks sep r (t :: cur)
  end.

Fixpoint join_obs (l : list (list tok)) : list tok :=
  match l with
  | [] => []
  | [x] => x
  | x :: r => x ++ [59] :: join_obs r
  end.

Definition run_hist (ts : list tok) : list tok :=
  match all_some (map rd_hop (split_toks [59] ts [])) with
  | Some ops => join_obs (map pr_hobs (hrun h0 ops))
  | None => bad
  end.

(* ---------- C08 / C14 / C17 surfaces ---------- *)
Definition K_json := Eval compute in s2l "json".
Definition K_ser := Eval compute in s2l "ser".
Definition K_de := Eval compute in s2l "de".
Definition K_serx := Eval compute in s2l "serx".
Definition K_conv := Eval compute in s2l "conv".
Definition K_T := [84]. Definition K_R := [82]. Definition K_V := [86].
Definition K_var := Eval compute in s2l "var".
Definition K_str := Eval compute in s2l "str".
Definition K_unit := Eval compute in s2l "unit".
Definition K_f32 := Eval compute in s2l "f32".
Definition K_f64 := Eval compute in s2l "f64".

(** json <text> : from_json, identity search, printed text, re-parse, Value round trip *)
Definition run_json (ts : list tok) : list tok :=
  match ts with
  | [t] =>
      match parse_str t with
      | Some text =>
          match from_json text with
          | Ok None => [K_ERR; K_json]
          | Ok (Some v) =>
              match search_ast fuel_default default_runtime AIdentity v, print_json v with
              | Ok r, Ok txt =>
                  let reparsed := match from_json txt with Ok (Some v2) => var_eq v2 r | _ => false end in
                  K_OK :: pr_value r ++ [K_T; print_str txt; K_R; [if reparsed then 116 else 102]; K_V; [116]]
              | _, _ => [K_UNMODELLED]
              end
          | _ => [K_UNMODELLED]
          end
      | None => bad
      end
  | _ => bad
  end.

Definition tok_is (t : tok) (s : string) : bool := str_eqb t (s2l s).

Fixpoint rd_sval (fuel : nat) (ts : list tok) : option (sval * list tok) :=
  match fuel with
  | O => None
  | S f =>
      match ts with
      | [] => None
      | t :: r =>
          let int1 := match r with n :: r' => option_map (fun z => (SInt z, r')) (parse_int n) | [] => None end in
          let name1 (k : str -> sval) := match r with n :: r' => option_map (fun s => (k s, r')) (parse_str n) | [] => None end in
          let lst (k : list sval -> sval) (r : list tok) :=
            match r with [91] :: r' => option_map (fun '(l, r'') => (k l, r'')) (rd_svals f r') | _ => None end in
          let flds (k : list (str * sval) -> sval) (r : list tok) :=
            match r with [123] :: r' => option_map (fun '(l, r'') => (k l, r'')) (rd_sfields f r') | _ => None end in
          if tok_is t "B" then match r with [116] :: r' => Some (SBool true, r') | [102] :: r' => Some (SBool false, r') | _ => None end
          else if tok_is t "I8" || tok_is t "I16" || tok_is t "I32" || tok_is t "I64"
               || tok_is t "U8" || tok_is t "U16" || tok_is t "U32" || tok_is t "U64" then int1
          else if tok_is t "F32" then match r with n :: r' => option_map (fun z => (SF32 (f_of_bits32 z), r')) (hex_go n 0) | [] => None end
          else if tok_is t "F64" then match r with n :: r' => option_map (fun z => (SF64 (f_of_bits z), r')) (hex_go n 0) | [] => None end
          else if tok_is t "C" then match r with n :: r' => option_map (fun z => (SChar z, r')) (parse_nat n) | [] => None end
          else if tok_is t "S" then name1 SStr
          else if tok_is t "Y" then
            match r with
            | [91] :: r' =>
                (fix go (fu : nat) (r : list tok) (acc : list Z) : option (sval * list tok) :=
                   match fu with
                   | O => None
                   | S fu' =>
                       match r with
                       | [93] :: r'' => Some (SBytes (rev acc), r'')
                       | n :: r'' => match parse_nat n with Some z => go fu' r'' (z :: acc) | None => None end
                       | [] => None
                       end
                   end) f r' []
            | _ => None
            end
          else if tok_is t "None" then Some (SNone, r)
          else if tok_is t "Some" then option_map (fun '(v, r') => (SSome v, r')) (rd_sval f r)
          else if tok_is t "Unit" then Some (SUnit, r)
          else if tok_is t "UStruct" then Some (SUnitStruct, r)
          else if tok_is t "UVar" then name1 SUnitVariant
          else if tok_is t "NStruct" then option_map (fun '(v, r') => (SNewtypeStruct v, r')) (rd_sval f r)
          else if tok_is t "NVar" then
            match r with n :: r' => match parse_str n with Some s => option_map (fun '(v, r'') => (SNewtypeVariant s v, r'')) (rd_sval f r') | None => None end | [] => None end
          else if tok_is t "Seq" then lst SSeq r
          else if tok_is t "Tup" then lst STuple r
          else if tok_is t "TStruct" then lst STupleStruct r
          else if tok_is t "TVar" then
            match r with n :: r' => match parse_str n with Some s => lst (STupleVariant s) r' | None => None end | [] => None end
          else if tok_is t "Map" then
            match r with [123] :: r' => option_map (fun '(l, r'') => (SMap l, r'')) (rd_spairs f r') | _ => None end
          else if tok_is t "Struct" then flds SStruct r
          else if tok_is t "SVar" then
            match r with n :: r' => match parse_str n with Some s => flds (SStructVariant s) r' | None => None end | [] => None end
          else None
      end
  end
with rd_svals (fuel : nat) (ts : list tok) : option (list sval * list tok) :=
  match fuel with
  | O => None
  | S f =>
      match ts with
      | [93] :: r => Some ([], r)
      | _ => match rd_sval f ts with
             | Some (v, r) => option_map (fun '(l, r') => (v :: l, r')) (rd_svals f r)
             | None => None
             end
      end
  end
with rd_sfields (fuel : nat) (ts : list tok) : option (list (str * sval) * list tok) :=
  match fuel with
  | O => None
  | S f =>
      match ts with
      | [125] :: r => Some ([], r)
      | k :: r =>
          match parse_str k with
          | Some ks => match rd_sval f r with
                       | Some (v, r') => option_map (fun '(l, r'') => ((ks, v) :: l, r'')) (rd_sfields f r')
                       | None => None
                       end
          | None => None
          end
      | [] => None
      end
  end
with rd_spairs (fuel : nat) (ts : list tok) : option (list (sval * sval) * list tok) :=
  match fuel with
  | O => None
  | S f =>
      match ts with
      | [125] :: r => Some ([], r)
      | _ =>
          match rd_sval f ts with
          | Some (k, r) => match rd_sval f r with
                           | Some (v, r') => option_map (fun '(l, r'') => ((k, v) :: l, r'')) (rd_spairs f r')
                           | None => None
                           end
          | None => None
          end
      end
  end.

Definition pr_sres (r : sres value) : list tok :=
  match r with SOk v => K_OK :: pr_value v | SErr => [K_ERR] end.

(** ser <dyn> : typed value as searched by the library | its serde_json image | the four probe searches agree *)
Definition run_ser (ts : list tok) : list tok :=
  match rd_sval (S (length ts)) ts with
  | Some (v, []) =>
      let a := ser_var v in
      let b := ser_json v in
      pr_sres a ++ [124] :: pr_sres b ++
        [124] :: match a, b with SOk _, SOk _ => [[61]; [61]; [61]; [61]] | _, _ => [] end
  | _ => bad
  end.

(* ---------- C14: decoding into typed values ---------- *)
Definition K_dex := Eval compute in s2l "dex".

Fixpoint pr_sval (v : sval) : list tok :=
  let lst := fix go (l : list sval) : list tok := match l with [] => [[93]] | x :: l' => pr_sval x ++ go l' end in
  let flds := fix go (l : list (str * sval)) : list tok := match l with [] => [[125]] | (k, x) :: l' => print_str k :: pr_sval x ++ go l' end in
  match v with
  | SBool true => [[66]; [116]]
  | SBool false => [[66]; [102]]
  | SInt z => [[73]; print_int z]
  | SF32 f => [s2l "F32"; print_hex16 (bits_of_f f)]
  | SF64 f => [[70]; print_hex16 (bits_of_f f)]
  | SChar c => [[67]; print_nat c]
  | SStr s => [[83]; print_str s]
  | SBytes l => [89] :: [91] :: map print_nat l ++ [[93]]
  | SNone => [s2l "None"]
  | SSome x => s2l "Some" :: pr_sval x
  | SUnit => [s2l "Unit"]
  | SUnitStruct => [s2l "UStruct"]
  | SUnitVariant n => [s2l "UVar"; print_str n]
  | SNewtypeStruct x => s2l "NStruct" :: pr_sval x
  | SNewtypeVariant n x => s2l "NVar" :: print_str n :: pr_sval x
  | SSeq l => s2l "Seq" :: [91] :: lst l
  | STuple l => s2l "Tup" :: [91] :: lst l
  | STupleStruct l => s2l "TStruct" :: [91] :: lst l
  | STupleVariant n l => s2l "TVar" :: print_str n :: [91] :: lst l
  | SMap kvs => s2l "Map" :: [123] ::
      (fix go (l : list (sval * sval)) : list tok := match l with [] => [[125]] | (k, x) :: l' => pr_sval k ++ pr_sval x ++ go l' end) kvs
  | SStruct fs => s2l "Struct" :: [123] :: flds fs
  | SStructVariant n fs => s2l "SVar" :: print_str n :: [123] :: flds fs
  end.

(** the harness's target types (harness/src/extra.rs) *)
Definition n_ (s : string) : str := s2l s.
Definition t_pt := TStruct [(n_ "x", i32); (n_ "y", TOption TString)].
Definition t_wrap := TNewtype u8.
Definition t_en := TEnum [(n_ "A", TUnit); (n_ "B", TNewtype u32); (n_ "C", TTupleStruct [i8; TBool]);
                          (n_ "D", TStruct [(n_ "p", TF64); (n_ "q", TSeq u8)])].
Definition t_en2 := TEnum [(n_ "At", TNewtype (TOption i32)); (n_ "Mark", TNewtype TUnit); (n_ "U", TNewtype TUnitStruct);
                           (n_ "W", TNewtype t_wrap); (n_ "V", TNewtype (TSeq u8)); (n_ "N", TNewtype (TOption (TOption TBool)));
                           (n_ "E", TNewtype t_en); (n_ "S", TStruct []); (n_ "T", TTupleStruct [])].
Definition k_userid := KNewtype KString.
Definition k_color := KEnum [n_ "Red"; n_ "Green"].
Definition t_nest := TStruct [(n_ "e", t_en); (n_ "l", TSeq t_pt); (n_ "m", TMap KString (TOption t_en));
                              (n_ "t", TTuple [u64; i64]); (n_ "w", t_wrap)].

Definition dex_types : list (str * ty) := Eval compute in
  [(n_ "bool", TBool); (n_ "i8", i8); (n_ "i16", i16); (n_ "i32", i32); (n_ "i64", i64);
   (n_ "u8", u8); (n_ "u16", u16); (n_ "u32", u32); (n_ "u64", u64); (n_ "f64", TF64);
   (n_ "char", TChar); (n_ "string", TString); (n_ "unit", TUnit);
   (n_ "opt_i32", TOption i32); (n_ "opt_opt", TOption (TOption TBool));
   (n_ "vec_u64", TSeq u64); (n_ "vec_vec", TSeq (TSeq i8));
   (n_ "tup2", TTuple [i32; i32]); (n_ "tup3", TTuple [u8; TString; TOption TBool]); (n_ "arr2", TTuple [i32; i32]);
   (n_ "map_u32", TMap KString u32); (n_ "map_char", TMap KChar i64);
   (n_ "pt", t_pt); (n_ "wrap", t_wrap); (n_ "pair", TTupleStruct [i16; TString]); (n_ "marker", TUnitStruct);
   (n_ "en", t_en); (n_ "nest", t_nest);
   (n_ "map_nt", TMap k_userid u32); (n_ "map_nt_nest", TMap KString (TMap k_userid (TSeq TString)));
   (n_ "map_enumkey", TMap k_color i8); (n_ "map_i32key", TMap (KInt (-2147483648) 2147483647) TBool);
   (n_ "map_u64key", TMap (KInt 0 18446744073709551615) (TOption u8)); (n_ "map_boolkey", TMap KBool u8);
   (n_ "en2", t_en2); (n_ "opt_en", TOption t_en); (n_ "vec_en2", TSeq t_en2); (n_ "map_en2", TMap KString t_en2);
   (n_ "value", TValue)].

(** dex <type-id> <value> : decoded by the library | decoded by serde_json (specified to be the same) *)
Definition run_dex (ts : list tok) : list tok :=
  match ts with
  | tn :: r =>
      match obj_get dex_types tn, rd_value (S (length r)) r with
      | Some t, Some (v, []) =>
          if value_has_expref v then [K_UNMODELLED]
          else let o := match de t v with Some x => K_OK :: pr_sval x | None => [K_ERR] end in o ++ [124] :: o
      | None, Some _ => [K_UNMODELLED]
      | _, _ => bad
      end
  | [] => bad
  end.

Definition K_conv_err := Eval compute in s2l "conv".
Definition rd_input (ts : list tok) : option input :=
  match ts with
  | k :: r =>
      if str_eqb k K_json then match rd_value (S (length r)) r with Some (v, []) => Some (IJson v) | _ => None end
      else if str_eqb k K_var then match rd_value (S (length r)) r with Some (v, []) => Some (IVar v) | _ => None end
      else if str_eqb k K_str then match r with [t] => option_map IStr (parse_str t) | _ => None end
      else if str_eqb k K_f32 then match r with [t] => option_map (fun z => IF32 (f_of_bits32 z)) (hex_go t 0) | _ => None end
      else if str_eqb k K_f64 then match r with [t] => option_map (fun z => IF64 (f_of_bits z)) (hex_go t 0) | _ => None end
      else if str_eqb k K_unit then Some IUnit
      else if str_eqb k K_bool then match r with [[116]] => Some (IBool true) | [[102]] => Some (IBool false) | _ => None end
      else match r with [t] => option_map IInt (parse_int t) | _ => None end
  | [] => None
  end.

(** conv <kind> <payload> : the generic serde path (what every build without [specialized] runs);
    convspec ... : the specialised impls *)
Definition K_i128 := Eval compute in s2l "i128".
Definition K_u128 := Eval compute in s2l "u128".
Definition run_conv (special : bool) (ts : list tok) : list tok :=
  (* 128-bit integers are not among the specially handled input types, and the library's Serializer leaves serde's default
     [serialize_i128]/[serialize_u128] in place, which refuses them: an error on every route, whatever the value *)
  let wide := match ts with [k; _] => str_eqb k K_i128 || str_eqb k K_u128 | _ => false end in
  if wide then [K_ERR; K_conv_err] else
  match rd_input ts with
  | Some i =>
      match (if special then conv_special i else conv_generic i) with
      | SOk v => K_OK :: pr_value v
      | SErr => [K_ERR; K_conv_err]
      end
  | None => bad
  end.
Definition K_convspec := Eval compute in s2l "convspec".

(* ---------- C18: jp ---------- *)
Definition K_cli := Eval compute in s2l "cli".
Definition K_EXIT := Eval compute in s2l "EXIT".
Definition K_OUT := Eval compute in s2l "OUT".
Definition K_AST := Eval compute in s2l "AST".

Definition parse_optstr (t : tok) : option (option str) :=
  match t with [95] => Some None | _ => option_map Some (parse_str t) end.

(** cli <flags> <expr|_> <input|_> ; flags: a string over {u, a} or [-] *)
Definition run_cli (ts : list tok) : list tok :=
  match ts with
  | [fl; e; i] =>
      match parse_optstr e, parse_optstr i with
      | Some e', Some i' =>
          let u := existsb (Z.eqb 117) fl in
          let a := existsb (Z.eqb 97) fl in
          let '(code, out, err) := jp u a e' i' in
          match out with
          | Ok None => [K_EXIT; print_nat code; K_OUT; print_str []; K_ERR; [if err then 116 else 102]]
          | Ok (Some (OutText t)) => [K_EXIT; print_nat code; K_OUT; print_str t; K_ERR; [if err then 116 else 102]]
          | Ok (Some OutAstDump) => [K_EXIT; print_nat code; K_OUT; K_AST; K_ERR; [if err then 116 else 102]]
          | Err _ => bad | Trap => [K_TRAP] | OOF => [K_OOF] | Unmodelled => [K_UNMODELLED]
          end
      | _, _ => bad
      end
  | _ => bad
  end.

Definition K_threads := Eval compute in s2l "threads".
(** threads <n> <rounds> <text> <doc> : what every thread must observe = the sequential result *)
Definition run_threads (ts : list tok) : list tok :=
  match ts with _ :: _ :: r => run_search r | _ => bad end.

Definition run_tokens (ts : list tok) : list tok :=
  match ts with
  | k :: r =>
      if str_eqb k K_slice then run_slice r
      else if str_eqb k K_index then run_index r
      else if str_eqb k K_evalast then run_evalast r
      else if str_eqb k K_cmp then run_cmp r
      else if str_eqb k K_truthy then run_truthy r
      else if str_eqb k K_fn then run_fn r
      else if str_eqb k K_render then run_render r
      else if str_eqb k K_specfn then run_specfn r
      else if str_eqb k K_parse_k then run_parse r
      else if str_eqb k K_speceval then run_speceval r
      else if str_eqb k K_refparse then run_refparse r
      else if str_eqb k K_refsearch then run_refsearch r
      else if str_eqb k K_hist then run_hist r
      else if str_eqb k K_json then run_json r
      else if str_eqb k K_cli then run_cli r
      else if str_eqb k K_threads then run_threads r
      else if str_eqb k K_ser then run_ser r
      else if str_eqb k K_de then [K_UNMODELLED]
      else if str_eqb k K_dex then run_dex r
      else if str_eqb k K_serx then [K_UNMODELLED]
      else if str_eqb k K_conv then run_conv false r
      else if str_eqb k K_convspec then run_conv true r
      else if str_eqb k K_search then run_search r
      else bad
  | [] => bad
  end.

Definition run_line (line : list Z) : list Z := join_toks (run_tokens (tokens line)).
