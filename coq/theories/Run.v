(** [run_line]: one case line in, one observation line out (model side of the
    correspondence check). *)
From Coq Require Import String.
From JP Require Import Base F64 Value Sig Slice JsonRead JsonPrint Functions Interp Lexer Parser Wire Spec.SliceSpec Spec.Semantics.

Definition K_slice := Eval compute in s2l "slice".
Definition K_index := Eval compute in s2l "index".

Definition bad : list tok := [K_BADCASE].

Definition run_slice (ts : list tok) : list tok :=
  match rd_value (S (length ts)) ts with
  | Some (VArr arr, [a; b; c]) =>
      match parse_optint a, parse_optint b, parse_int c with
      | Some a', Some b', Some c' =>
          pr_res [] (fun l => pr_value (VArr l)) (slice arr a' b' c')
      | _, _, _ => bad
      end
  | Some (_, [_; _; _]) => pr_res [] pr_value (Ok VNull)     (* Variable::slice on a non-array: None *)
  | _ => bad
  end.

Definition fuel_default : nat := Z.to_nat 4000.

Definition interp_index (v : value) (idx : Z) : res value :=
  let* (r, _) := interp 1 [] v (AIndex idx) 0 in Ok r.

Definition run_index (ts : list tok) : list tok :=
  match rd_value (S (length ts)) ts with
  | Some (v, [n]) =>
      match parse_int n with
      | Some n' => pr_res [] pr_value (interp_index v n')
      | None => bad
      end
  | _ => bad
  end.

Definition K_evalast := Eval compute in s2l "evalast".
Definition K_cmp := Eval compute in s2l "cmp".
Definition K_truthy := Eval compute in s2l "truthy".
Definition K_fn := Eval compute in s2l "fn".
Definition K_nofunction := Eval compute in s2l "nofunction".

(** evalast <text> <ast> <doc> : [Expression::new(text, ast, &DEFAULT_RUNTIME).search(doc)] *)
Definition run_evalast (ts : list tok) : list tok :=
  match ts with
  | t :: r =>
      match parse_str t with
      | Some text =>
          match rd_ast (S (length r)) r with
          | Some (a, r') =>
              match rd_value (S (length r')) r' with
              | Some (d, []) => pr_res text pr_value (search_ast fuel_default default_runtime a d)
              | _ => bad
              end
          | None => bad
          end
      | None => bad
      end
  | [] => bad
  end.

Definition run_cmp (ts : list tok) : list tok :=
  match ts with
  | c :: r =>
      match parse_cmpop c, rd_value (S (length r)) r with
      | Some c', Some (a, r') =>
          match rd_value (S (length r')) r' with
          | Some (b, []) =>
              pr_res [] pr_value (Ok (match compare_values c' a b with Some x => VBool x | None => VNull end))
          | _ => bad
          end
      | _, _ => bad
      end
  | [] => bad
  end.

Definition run_truthy (ts : list tok) : list tok :=
  match rd_value (S (length ts)) ts with
  | Some (a, []) => pr_res [] pr_value (Ok (VBool (is_truthy a)))
  | _ => bad
  end.

Fixpoint rd_all_values (fuel : nat) (ts : list tok) : option (list value) :=
  match fuel with
  | O => None
  | S f =>
      match ts with
      | [] => Some []
      | _ => match rd_value (S (length ts)) ts with
             | Some (v, r) => option_map (cons v) (rd_all_values f r)
             | None => None
             end
      end
  end.

(** fn <offset> <name> <arg>* : [get_function(name).evaluate(args, ctx)] with [ctx.offset = offset] *)
Definition run_fn (ts : list tok) : list tok :=
  match ts with
  | o :: n :: r =>
      match parse_nat o, parse_str n, rd_all_values (S (length r)) r with
      | Some off, Some name, Some args =>
          match rt_get default_runtime name with
          | Some fi =>
              pr_res [] pr_value
                (let* (v, _) := call_impl (interp fuel_default default_runtime) fi args off in Ok v)
          | None => [K_ERR; K_nofunction]
          end
      | _, _, _ => bad
      end
  | _ => bad
  end.

Definition K_parse_k := Eval compute in s2l "parse".
Definition K_search := Eval compute in s2l "search".

(** parse <text> : [jmespath::parse] *)
Definition run_parse (ts : list tok) : list tok :=
  match ts with
  | [t] =>
      match parse_str t with
      | Some text => pr_res text pr_ast (parse text)
      | None => bad
      end
  | _ => bad
  end.

(** search <text> <doc> : [compile(text)?.search(doc)] *)
Definition search_str (text : str) (d : value) : res value :=
  let* a := parse text in search_ast fuel_default default_runtime a d.

Definition run_search (ts : list tok) : list tok :=
  match ts with
  | t :: r =>
      match parse_str t, rd_value (S (length r)) r with
      | Some text, Some (d, []) => pr_res text pr_value (search_str text d)
      | _, _ => bad
      end
  | [] => bad
  end.

Definition K_refparse := Eval compute in s2l "refparse".

(** refparse <text> : the reference parser (sentence oracle of C03/C04) *)
Definition run_refparse (ts : list tok) : list tok :=
  match ts with
  | [t] =>
      match parse_str t with
      | Some text =>
          match ref_parse text with
          | Ok a => K_OK :: pr_ast a
          | Err _ => [K_ERR; K_parse]
          | Trap => [K_TRAP] | OOF => [K_OOF] | Unmodelled => [K_UNMODELLED]
          end
      | None => bad
      end
  | _ => bad
  end.

Definition K_speceval := Eval compute in s2l "speceval".

(** speceval <text> <ast> <doc> : the specification's value for a core tree (oracle of the violation search) *)
Definition run_speceval (ts : list tok) : list tok :=
  match ts with
  | t :: r =>
      match parse_str t with
      | Some text =>
          match rd_ast (S (length r)) r with
          | Some (a, r') =>
              match rd_value (S (length r')) r' with
              | Some (d, []) => if core a then pr_res text pr_value (eval a d) else [K_UNMODELLED]
              | _ => bad
              end
          | None => bad
          end
      | None => bad
      end
  | [] => bad
  end.

Definition run_tokens (ts : list tok) : list tok :=
  match ts with
  | k :: r =>
      if str_eqb k K_slice then run_slice r
      else if str_eqb k K_index then run_index r
      else if str_eqb k K_evalast then run_evalast r
      else if str_eqb k K_cmp then run_cmp r
      else if str_eqb k K_truthy then run_truthy r
      else if str_eqb k K_fn then run_fn r
      else if str_eqb k K_parse_k then run_parse r
      else if str_eqb k K_speceval then run_speceval r
      else if str_eqb k K_refparse then run_refparse r
      else if str_eqb k K_search then run_search r
      else bad
  | [] => bad
  end.

Definition run_line (line : list Z) : list Z := join_toks (run_tokens (tokens line)).
