(** [run_line]: one case line in, one observation line out (model side of the
    correspondence check). *)
From Coq Require Import String.
From JP Require Import Base F64 Value Slice Wire.

Definition K_slice := Eval compute in s2l "slice".
Definition K_index := Eval compute in s2l "index".

Definition bad : list tok := [K_BADCASE].

Definition run_slice (ts : list tok) : list tok :=
  match rd_value (S (length ts)) ts with
  | Some (VArr arr, [a; b; c]) =>
      match parse_optint a, parse_optint b, parse_int c with
      | Some a', Some b', Some c' =>
          pr_res [] (fun l => pr_value (VArr l)) (slice arr a' b' c')
      | _, _, _ => bad
      end
  | Some (_, [_; _; _]) => pr_res [] pr_value (Ok VNull)     (* Variable::slice on a non-array: None *)
  | _ => bad
  end.

(** [Ast::Index] arm of [interpreter.rs:25-31]: [(-idx) as usize] overflows for
    [i32::MIN] (debug builds panic); the parser cannot produce that index. *)
Definition interp_index (v : value) (idx : Z) : res value :=
  if idx >=? 0 then Ok (get_index v idx)
  else if idx =? i32_min then Trap
  else get_negative_index v (- idx).

Definition run_index (ts : list tok) : list tok :=
  match rd_value (S (length ts)) ts with
  | Some (v, [n]) =>
      match parse_int n with
      | Some n' => pr_res [] pr_value (interp_index v n')
      | None => bad
      end
  | _ => bad
  end.

Definition run_tokens (ts : list tok) : list tok :=
  match ts with
  | k :: r =>
      if str_eqb k K_slice then run_slice r
      else if str_eqb k K_index then run_index r
      else bad
  | [] => bad
  end.

Definition run_line (line : list Z) : list Z := join_toks (run_tokens (tokens line)).
