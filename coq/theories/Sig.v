(** [ArgumentType], [Signature] and their validation ([functions.rs:18-214]). *)
From JP Require Import Base F64 Value.

Inductive argtype :=
| TyAny | TyNull | TyString | TyNumber | TyBool | TyObject | TyArray | TyExpref
| TyTypedArray (t : argtype)
| TyUnion (ts : list argtype).

Record signature := mkSig { sig_inputs : list argtype; sig_variadic : option argtype }.

(** [ArgumentType::is_valid] *)
Fixpoint is_valid (t : argtype) (v : value) {struct t} : bool :=
  match t with
  | TyAny => true
  | TyNull => is_null v
  | TyString => match v with VStr _ => true | _ => false end
  | TyNumber => is_number v
  | TyObject => match v with VObj _ => true | _ => false end
  | TyBool => match v with VBool _ => true | _ => false end
  | TyExpref => match v with VExpref _ => true | _ => false end
  | TyArray => match v with VArr _ => true | _ => false end
  | TyTypedArray t' => match v with VArr a => forallb (is_valid t') a | _ => false end
  | TyUnion ts =>
      (fix any (ts : list argtype) : bool :=
         match ts with [] => false | t' :: ts' => is_valid t' v || any ts' end) ts
  end.

(** [Display for ArgumentType] *)
Fixpoint argtype_name (t : argtype) : str :=
  match t with
  | TyAny => [97;110;121]
  | TyString => type_name TString
  | TyNumber => type_name TNumber
  | TyBool => type_name TBoolean
  | TyArray => type_name TArray
  | TyObject => type_name TObject
  | TyNull => type_name TNull
  | TyExpref => type_name TExpref
  | TyTypedArray t' => [97;114;114;97;121;91] ++ argtype_name t' ++ [93]
  | TyUnion ts =>
      (fix go (ts : list argtype) : str :=
         match ts with
         | [] => []
         | [t'] => argtype_name t'
         | t' :: ts' => argtype_name t' ++ 124 :: go ts'
         end) ts
  end.

(** [validate_arity] then [validate_arg] left to right; the error carries the
    context offset. *)
Definition validate_arity (s : signature) (actual : Z) (off : Z) : res unit :=
  let expected := zlen (sig_inputs s) in
  match sig_variadic s with
  | Some _ =>
      if actual >=? expected then Ok tt else Err (ERuntime (KNotEnough expected actual) off)
  | None =>
      if actual =? expected then Ok tt
      else if actual <? expected then Err (ERuntime (KNotEnough expected actual) off)
      else Err (ERuntime (KTooMany expected actual) off)
  end.

Definition validate_arg (off position : Z) (v : value) (t : argtype) : res unit :=
  if is_valid t v then Ok tt
  else Err (ERuntime (KInvalidType (argtype_name t) (type_name (get_type v)) position) off).

Fixpoint validate_args (inputs : list argtype) (variadic : option argtype) (args : list value) (k : Z) (off : Z) : res unit :=
  match args with
  | [] => Ok tt
  | v :: args' =>
      match inputs with
      | t :: inputs' =>
          let* _ := validate_arg off k v t in validate_args inputs' variadic args' (k + 1) off
      | [] =>
          match variadic with
          | Some t => let* _ := validate_arg off k v t in validate_args [] variadic args' (k + 1) off
          | None => Trap   (* self.inputs[k] out of bounds: excluded by validate_arity *)
          end
      end
  end.

Definition validate (s : signature) (args : list value) (off : Z) : res unit :=
  let* _ := validate_arity s (zlen args) off in
  validate_args (sig_inputs s) (sig_variadic s) args 0 off.
