(** Base definitions shared by the model, the specification and the wire format.
    Text is a list of Unicode scalar values ([Z]); outcomes distinguish the
    totalisation artefacts ([Trap], [OOF], [Unmodelled]) from real results. *)
From Coq Require Export List ZArith Bool Lia.
Export ListNotations.
Open Scope Z_scope.

Definition str := list Z.

Fixpoint str_eqb (a b : str) : bool :=
  match a, b with
  | [], [] => true
  | x :: a', y :: b' => (x =? y) && str_eqb a' b'
  | _, _ => false
  end.

(** Rust [String] ordering is byte-lexicographic on UTF-8, which coincides with
    code-point lexicographic order. *)
Fixpoint str_cmp (a b : str) : comparison :=
  match a, b with
  | [], [] => Eq
  | [], _ :: _ => Lt
  | _ :: _, [] => Gt
  | x :: a', y :: b' =>
      match x ?= y with
      | Eq => str_cmp a' b'
      | c => c
      end
  end.

Definition str_ltb (a b : str) : bool := match str_cmp a b with Lt => true | _ => false end.

Lemma str_eqb_refl a : str_eqb a a = true.
Proof. induction a as [|x a IH]; cbn; [reflexivity|]. now rewrite Z.eqb_refl, IH. Qed.

Lemma str_eqb_eq a b : str_eqb a b = true <-> a = b.
Proof.
  revert b; induction a as [|x a IH]; intros [|y b]; cbn; split; intros H;
    try reflexivity; try discriminate.
  - apply andb_true_iff in H as [H1 H2]. apply Z.eqb_eq in H1. apply IH in H2. now subst.
  - inversion H; subst. now rewrite Z.eqb_refl, str_eqb_refl.
Qed.

Lemma str_cmp_eq a b : str_cmp a b = Eq <-> a = b.
Proof.
  revert b; induction a as [|x a IH]; intros [|y b]; cbn; split; intros H;
    try reflexivity; try discriminate.
  - destruct (x ?= y) eqn:E; try discriminate. apply Z.compare_eq in E. apply IH in H. now subst.
  - inversion H; subst. rewrite Z.compare_refl. now apply IH.
Qed.

Lemma str_cmp_antisym a b : str_cmp b a = CompOpp (str_cmp a b).
Proof.
  revert b; induction a as [|x a IH]; intros [|y b]; cbn; try reflexivity.
  rewrite (Z.compare_antisym x y). destruct (x ?= y); cbn; auto.
Qed.

Lemma str_cmp_lt_trans a b c : str_cmp a b = Lt -> str_cmp b c = Lt -> str_cmp a c = Lt.
Proof.
  revert b c; induction a as [|x a IH]; intros [|y b] [|z c]; cbn; try congruence.
  destruct (Z.compare_spec x y) as [E1|E1|E1]; intros H1; try discriminate;
    destruct (Z.compare_spec y z) as [E2|E2|E2]; intros H2; try discriminate.
  - subst. rewrite Z.compare_refl. eauto.
  - subst. destruct (Z.compare_spec y z); try lia; reflexivity.
  - subst. destruct (Z.compare_spec x z); try lia; reflexivity.
  - destruct (Z.compare_spec x z); try lia; reflexivity.
Qed.

(** Runtime error kinds of [errors.rs]. *)
Inductive rkind :=
| KInvalidSlice
| KTooMany (expected actual : Z)
| KNotEnough (expected actual : Z)
| KUnknownFunction (name : str)
| KInvalidType (expected actual : str) (position : Z)
| KInvalidReturnType (expected actual : str) (position invocation : Z).

(** Errors: a parse error at a byte offset; a runtime error at the offset held by
    the evaluation context; and the parse-class error with an empty expression
    that [functions.rs] fabricates with [JmespathError::new("", 0, Parse(..))]. *)
Inductive err :=
| EParse (offset : Z)
| ERuntime (k : rkind) (offset : Z)
| EFabricated.

Inductive res (A : Type) :=
| Ok (a : A)
| Err (e : err)
| Trap          (* Rust would panic here *)
| OOF           (* fuel exhausted *)
| Unmodelled.   (* behaviour of third-party code that the model does not cover *)
Arguments Ok {A}. Arguments Err {A}. Arguments Trap {A}. Arguments OOF {A}. Arguments Unmodelled {A}.

Definition bind {A B} (r : res A) (f : A -> res B) : res B :=
  match r with
  | Ok a => f a
  | Err e => Err e
  | Trap => Trap
  | OOF => OOF
  | Unmodelled => Unmodelled
  end.
Notation "'let*' x ':=' r 'in' k" := (bind r (fun x => k)) (at level 200, x pattern, right associativity).

Definition ascii_str (l : list Z) : str := l.

(** i32 / u64 / i64 ranges *)
Definition i32_max := 2147483647.
Definition i32_min := -2147483648.
Definition in_i32 (z : Z) : bool := (i32_min <=? z) && (z <=? i32_max).
Definition u64_max := 18446744073709551615.
Definition i64_min := -9223372036854775808.
Definition i64_max := 9223372036854775807.

Fixpoint nth_opt {A} (l : list A) (n : nat) : option A :=
  match l, n with
  | [], _ => None
  | x :: _, O => Some x
  | _ :: l', S n' => nth_opt l' n'
  end.

(** [array[i as usize]] for an [i] that may be negative: a negative [i] wraps to
    a huge [usize] and is out of bounds. *)
Definition zlen {A} (l : list A) : Z := Z.of_nat (length l).

Definition index_z {A} (l : list A) (i : Z) : option A :=
  if (i <? 0) || (zlen l <=? i) then None else nth_opt l (Z.to_nat i).

Lemma nth_opt_nth_error {A} (l : list A) n : nth_opt l n = nth_error l n.
Proof. revert n; induction l; destruct n; cbn; auto. Qed.

(** UTF-8 length of a scalar value (byte offsets of [char_indices]). *)
Definition utf8_len (c : Z) : Z :=
  if c <? 128 then 1 else if c <? 2048 then 2 else if c <? 65536 then 3 else 4.
