(** C01: the interpreter model equals the denotational semantics on the core
    forms, for every tree, document, registry and incoming context offset. *)
From Coq Require Import ZifyBool.
From JP Require Import Base F64 Value Sig Slice Functions Interp Spec.SliceSpec Spec.Semantics
     Proofs.SliceProof Proofs.InterpFacts.

Definition lift (s : res value) (o : Z) : res (value * Z) :=
  match s with
  | Ok v => Ok (v, o) | Err e => Err e | Trap => Trap | OOF => OOF | Unmodelled => Unmodelled
  end.

(** [Unmodelled] only arises from slicing an array of 2^31 or more elements. *)
Definition agrees (r : res (value * Z)) (s : res value) (o : Z) : Prop := r = Unmodelled \/ r = lift s o.

Lemma agrees_ok v o : agrees (Ok (v, o)) (Ok v) o.
Proof. right. reflexivity. Qed.

Lemma agrees_bind r s o (k : value * Z -> res (value * Z)) (ks : value -> res value) :
  agrees r s o -> (forall v, agrees (k (v, o)) (ks v) o) -> agrees (bind r k) (bind s ks) o.
Proof.
  intros [->| ->] Hk; [left; reflexivity|].
  destruct s; cbn; try (right; reflexivity). apply Hk.
Qed.

(* ---------- small facts relating the accessors to the specification's vocabulary ---------- *)
Lemma truthy_is_truthy v : is_truthy v = truthy v.
Proof. destruct v as [| s | b | n | l | l | a]; cbn; try reflexivity; [destruct s|destruct b|destruct l|destruct l]; reflexivity. Qed.

Lemma is_null_non_null v : is_null v = negb (non_null v).
Proof. destruct v; reflexivity. Qed.

Lemma obj_get_find {A} (o : list (str * A)) k : obj_get o k = option_map snd (find (fun kv => str_eqb k (fst kv)) o).
Proof. induction o as [|[k' v] o IH]; cbn; [reflexivity|]. destruct (str_eqb k k'); [reflexivity|exact IH]. Qed.

Lemma get_field_lookup d k : get_field d k = lookup k d.
Proof. destruct d; try reflexivity. cbn. rewrite obj_get_find. reflexivity. Qed.

Lemma flat_map_concat (a : list value) :
  flat_map (fun e => match e with VArr inner => inner | _ => [e] end) a = concat (map elements a).
Proof. induction a as [|x a IH]; cbn; [reflexivity|]. rewrite IH. destruct x; reflexivity. Qed.

(* ---------- the loops ---------- *)
Lemma proj_loop_spec (ev1 : value -> Z -> res (value * Z)) (f : value -> res value) o :
  (forall e, agrees (ev1 e o) (f e) o) ->
  forall es acc,
    agrees (proj_loop ev1 es acc o)
           (let* xs := mapM f es in Ok (VArr (rev acc ++ filter non_null xs))) o.
Proof.
  intros H es. induction es as [|e es IH]; intros acc; cbn [proj_loop mapM].
  - cbn. rewrite app_nil_r. apply agrees_ok.
  - destruct (H e) as [->| ->]; [left; reflexivity|].
    destruct (f e) as [v| | | |]; cbn; try (right; reflexivity).
    rewrite is_null_non_null. destruct (non_null v) eqn:En; cbn [negb].
    + specialize (IH (v :: acc)). destruct IH as [->| ->]; [left; reflexivity|right].
      destruct (mapM f es); cbn; try reflexivity. rewrite En. cbn [rev]. rewrite <- app_assoc. reflexivity.
    + specialize (IH acc). destruct IH as [->| ->]; [left; reflexivity|right].
      destruct (mapM f es); cbn; try reflexivity. rewrite En. reflexivity.
Qed.

Definition lift_list {A} (s : res A) (o : Z) : res (A * Z) :=
  match s with
  | Ok v => Ok (v, o) | Err e => Err e | Trap => Trap | OOF => OOF | Unmodelled => Unmodelled
  end.

Definition mapM_kv (f : ast -> res value) (kvs : list (str * ast)) : res (list (str * value)) :=
  mapM (fun kv => let* y := f (snd kv) in Ok (fst kv, y)) kvs.

Lemma fix_mapM (f : ast -> res value) es :
  (fix go (es : list ast) : res (list value) :=
     match es with
     | [] => Ok []
     | e' :: es' => let* y := f e' in let* ys := go es' in Ok (y :: ys)
     end) es = mapM f es.
Proof. induction es as [|e es IH]; cbn; [reflexivity|]. rewrite IH. reflexivity. Qed.

Lemma fix_mapM_kv (f : ast -> res value) kvs :
  (fix go (kvs : list (str * ast)) : res (list (str * value)) :=
     match kvs with
     | [] => Ok []
     | (k, e') :: kvs' => let* y := f e' in let* ys := go kvs' in Ok ((k, y) :: ys)
     end) kvs = mapM_kv f kvs.
Proof.
  unfold mapM_kv. induction kvs as [|[k e] kvs IH]; cbn; [reflexivity|]. rewrite IH.
  destruct (f e); reflexivity.
Qed.

Lemma eval_list_spec (evd : ast -> Z -> res (value * Z)) (f : ast -> res value) o es :
  Forall (fun e => agrees (evd e o) (f e) o) es ->
  forall acc,
    eval_list evd es acc o = Unmodelled \/
    eval_list evd es acc o = lift_list (let* xs := mapM f es in Ok (rev acc ++ xs)) o.
Proof.
  induction 1 as [|e es He Hes IH]; intros acc; cbn [eval_list mapM].
  - right. cbn. now rewrite app_nil_r.
  - destruct He as [->| ->]; [left; reflexivity|].
    destruct (f e) as [v| | | |]; cbn; try (right; reflexivity).
    destruct (IH (v :: acc)) as [->| ->]; [left; reflexivity|right].
    destruct (mapM f es); cbn; try reflexivity. rewrite <- app_assoc. reflexivity.
Qed.

Lemma eval_kvs_spec (evd : ast -> Z -> res (value * Z)) (f : ast -> res value) o kvs :
  Forall (fun kv => agrees (evd (snd kv) o) (f (snd kv)) o) kvs ->
  forall acc,
    eval_kvs evd kvs acc o = Unmodelled \/
    eval_kvs evd kvs acc o =
      lift_list (let* xs := mapM_kv f kvs in
                 Ok (fold_left (fun m kv => obj_insert m (fst kv) (snd kv)) xs acc)) o.
Proof.
  unfold mapM_kv.
  induction 1 as [|[k e] kvs He Hes IH]; intros acc; cbn [eval_kvs mapM].
  - right. reflexivity.
  - cbn [snd fst] in *. destruct He as [->| ->]; [left; reflexivity|].
    destruct (f e) as [v| | | |]; cbn; try (right; reflexivity).
    destruct (IH (obj_insert acc k v)) as [->| ->]; [left; reflexivity|right].
    destruct (mapM _ kvs); cbn; reflexivity.
Qed.

(* ---------- height / core of list members ---------- *)
Lemma height_list_le es n :
  ((fix go (es : list ast) : nat := match es with [] => 0%nat | x :: r => Nat.max (height x) (go r) end) es <= n)%nat ->
  Forall (fun e => (height e <= n)%nat) es.
Proof. induction es as [|e es IH]; intros H; constructor; [lia|apply IH; lia]. Qed.

Lemma height_kvs_le (kvs : list (str * ast)) n :
  ((fix go (kvs : list (str * ast)) : nat := match kvs with [] => 0%nat | (_, x) :: r => Nat.max (height x) (go r) end) kvs <= n)%nat ->
  Forall (fun kv => (height (snd kv) <= n)%nat) kvs.
Proof. induction kvs as [|[k e] kvs IH]; intros H; constructor; [cbn; lia|apply IH; lia]. Qed.

Lemma core_list es :
  (fix go (es : list ast) : bool := match es with [] => true | x :: r => core x && go r end) es = true ->
  Forall (fun e => core e = true) es.
Proof.
  induction es as [|e es IH]; intros H; constructor.
  - apply andb_true_iff in H. tauto.
  - apply IH. apply andb_true_iff in H. tauto.
Qed.

Lemma core_kvs (kvs : list (str * ast)) :
  (fix go (kvs : list (str * ast)) : bool := match kvs with [] => true | (_, x) :: r => core x && go r end) kvs = true ->
  Forall (fun kv => core (snd kv) = true) kvs.
Proof.
  induction kvs as [|[k e] kvs IH]; intros H; constructor.
  - apply andb_true_iff in H. cbn. tauto.
  - apply IH. apply andb_true_iff in H. tauto.
Qed.

Lemma slice_total {A} (arr : list A) start stop step : i32_min <= step -> step <> 0 ->
  slice arr start stop step = Unmodelled \/ slice arr start stop step = Ok (spec_slice arr start stop step).
Proof.
  intros H1 H2. destruct (Z_le_gt_dec (zlen arr) i32_max) as [Hl|Hl].
  - right. now apply slice_correct.
  - left. unfold slice. assert ((i32_max <? zlen arr) = true) as -> by lia. reflexivity.
Qed.

(* ---------- the theorem ---------- *)
Theorem conformance : forall n rt e d o,
  core e = true -> (height e <= n)%nat -> agrees (interp n rt d e o) (eval e d) o.
Proof.
  induction n as [|f IH]; intros rt e d o Hc Hh.
  { destruct e; cbn in Hh; lia. }
  destruct e; cbn [core] in Hc; try discriminate; cbn [height] in Hh; cbn [interp eval];
    repeat match goal with H : _ && _ = true |- _ => apply andb_true_iff in H; destruct H end.
  - (* Comparison *)
    apply agrees_bind; [apply IH; [assumption|lia]|]. intros x.
    apply agrees_bind; [apply IH; [assumption|lia]|]. intros y. apply agrees_ok.
  - (* Condition *)
    apply agrees_bind; [apply IH; [assumption|lia]|]. intros c. rewrite truthy_is_truthy.
    destruct (truthy c); [apply IH; [assumption|lia]|apply agrees_ok].
  - (* Identity *) apply agrees_ok.
  - (* Flatten *)
    apply agrees_bind; [apply IH; [assumption|lia]|]. intros v.
    destruct v; try apply agrees_ok. rewrite flat_map_concat. apply agrees_ok.
  - (* Field *) rewrite get_field_lookup. apply agrees_ok.
  - (* Index *)
    destruct d as [| | | |arr| |];
      try (destruct (i >=? 0); [|destruct (i =? i32_min) eqn:E0; [lia|]]; apply agrees_ok).
    pose proof (interp_index_spec 0 rt arr i o ltac:(lia)) as Hi. cbn [interp] in Hi. rewrite Hi.
    unfold opt_null. apply agrees_ok.
  - (* Literal *) apply agrees_ok.
  - (* MultiList *)
    rewrite is_null_non_null. destruct (non_null d); cbn [negb]; [|apply agrees_ok].
    pose proof (eval_list_spec (fun e o => interp f rt d e o) (fun e => eval e d) o es) as Hl.
    assert (Forall (fun e => agrees (interp f rt d e o) (eval e d) o) es) as HF.
    { pose proof (core_list es Hc) as H1. pose proof (height_list_le es f ltac:(lia)) as H2.
      rewrite Forall_forall in *. intros x Hx. apply IH; auto. }
    rewrite (fix_mapM (fun e => eval e d)).
    destruct (Hl HF []) as [->| ->]; [left; reflexivity|].
    destruct (mapM (fun e => eval e d) es); cbn; try (right; reflexivity); try apply agrees_ok.
  - (* MultiHash *)
    rewrite is_null_non_null. destruct (non_null d); cbn [negb]; [|apply agrees_ok].
    pose proof (eval_kvs_spec (fun e o => interp f rt d e o) (fun e => eval e d) o kvs) as Hl.
    assert (Forall (fun kv => agrees (interp f rt d (snd kv) o) (eval (snd kv) d) o) kvs) as HF.
    { pose proof (core_kvs kvs Hc) as H1. pose proof (height_kvs_le kvs f ltac:(lia)) as H2.
      rewrite Forall_forall in *. intros x Hx. apply IH; auto. }
    rewrite (fix_mapM_kv (fun e => eval e d)).
    destruct (Hl HF []) as [->| ->]; [left; reflexivity|].
    destruct (mapM_kv (fun e => eval e d) kvs); cbn; try (right; reflexivity); try apply agrees_ok.
  - (* Not *)
    apply agrees_bind; [apply IH; [assumption|lia]|]. intros v. rewrite truthy_is_truthy. apply agrees_ok.
  - (* Projection *)
    apply agrees_bind; [apply IH; [assumption|lia]|]. intros v.
    destruct v; try apply agrees_ok.
    pose proof (proj_loop_spec (fun e o => interp f rt e e2 o) (eval e2) o
                  (fun e => IH rt e2 e o ltac:(assumption) ltac:(lia)) l []) as Hp.
    cbn [rev app] in Hp. exact Hp.
  - (* ObjectValues *)
    apply agrees_bind; [apply IH; [assumption|lia]|]. intros v. destruct v; apply agrees_ok.
  - (* And *)
    apply agrees_bind; [apply IH; [assumption|lia]|]. intros x. rewrite truthy_is_truthy.
    destruct (truthy x); cbn [negb]; [apply IH; [assumption|lia]|apply agrees_ok].
  - (* Or *)
    apply agrees_bind; [apply IH; [assumption|lia]|]. intros x. rewrite truthy_is_truthy.
    destruct (truthy x); [apply agrees_ok|apply IH; [assumption|lia]].
  - (* Slice *)
    destruct (step =? 0) eqn:E0; [right; reflexivity|].
    destruct d; try apply agrees_ok.
    destruct (slice_total l start stop step ltac:(lia) ltac:(lia)) as [->| ->]; [left; reflexivity|apply agrees_ok].
  - (* Subexpr *)
    apply agrees_bind; [apply IH; [assumption|lia]|]. intros x. apply IH; [assumption|lia].
Qed.
