(** C12: every offset stored in the tree that compile returns — the position of the
    opening parenthesis of a call, the position recorded for a slice — is the byte
    length of a prefix of the expression (a token position of the input). *)
From Coq Require Import ZifyBool.
From JP Require Import Base F64 Value JsonRead Lexer Parser Proofs.ParseErrProof Proofs.PosProof.

Section AstOffsets.
  Variable P : Z -> Prop.

  Fixpoint aok (a : ast) : Prop :=
    match a with
    | AFunction off _ args => P off /\ (fix all (l : list ast) : Prop := match l with [] => True | x :: r => aok x /\ all r end) args
    | ASlice off _ _ _ => P off
    | AComparison _ l r | AAnd l r | AOr l r | ASubexpr l r | AProjection l r | ACondition l r => aok l /\ aok r
    | AExpref x | AFlatten x | ANot x | AObjectValues x => aok x
    | AMultiList es => (fix all (l : list ast) : Prop := match l with [] => True | x :: r => aok x /\ all r end) es
    | AMultiHash kvs => (fix all (l : list (str * ast)) : Prop := match l with [] => True | (_, x) :: r => aok x /\ all r end) kvs
    | _ => True
    end.

  Lemma aok_function off name args : aok (AFunction off name args) <-> P off /\ Forall aok args.
  Proof.
    cbn [aok]. split; intros [H1 H2]; (split; [exact H1|]).
    - induction args as [|x r IH]; [constructor|]. destruct H2 as [Hx Hr]. constructor; [exact Hx|exact (IH Hr)].
    - induction H2 as [|x r Hx Hr IH]; [exact I|]. split; [exact Hx|exact IH].
  Qed.
  Lemma aok_mlist es : aok (AMultiList es) <-> Forall aok es.
  Proof.
    cbn [aok]. split; intros H.
    - induction es as [|x r IH]; [constructor|]. destruct H as [Hx Hr]. constructor; [exact Hx|exact (IH Hr)].
    - induction H as [|x r Hx Hr IH]; [exact I|]. split; [exact Hx|exact IH].
  Qed.
  Lemma aok_mhash kvs : aok (AMultiHash kvs) <-> Forall (fun kv : str * ast => aok (snd kv)) kvs.
  Proof.
    cbn [aok]. split; intros H.
    - induction kvs as [|[k x] r IH]; [constructor|]. destruct H as [Hx Hr]. constructor; [exact Hx|exact (IH Hr)].
    - induction H as [|[k x] r Hx Hr IH]; [exact I|]. split; [exact Hx|exact IH].
  Qed.
End AstOffsets.

Section ParserAst.
  Variables (L : token -> Z) (STOP : Z) (strict : bool).
  Variable P : Z -> Prop.
  Notation okst := (okst P).
  Notation aok := (aok P).

  Definition posA {A} (okA : A -> Prop) (r : res (A * pst)) : Prop :=
    match r with Ok a => okst (snd a) /\ okA (fst a) | _ => True end.

  Lemma posA_bind {A B} okA okB (r : res (A * pst)) (k : A * pst -> res (B * pst)) :
    posA okA r -> (forall a, okst (snd a) -> okA (fst a) -> posA okB (k a)) -> posA okB (bind r k).
  Proof. intros Hr Hk. destruct r as [a|e| | |]; cbn [bind]; try exact I. destruct Hr. apply Hk; assumption. Qed.

  Lemma adv_pos st : okst st -> P (fst (fst (advance_with_pos st))).
  Proof.
    unfold advance_with_pos, PosProof.okst. destruct st as [q o]. cbn [pq poff]. destruct q as [|[p t] q]; cbn [fst]; intros [H1 H2]; [exact H1|].
    inversion H2; subst. assumption.
  Qed.

  Definition kvok (kv : str * ast) : Prop := aok (snd kv).
  Definition anyok {A} (_ : A) : Prop := True.

  Definition all_ast (n : nat) : Prop :=
    (forall rbp st, okst st -> posA aok (expr L STOP strict n rbp st)) /\
    (forall rbp l st, okst st -> aok l -> posA aok (expr_loop L STOP strict n rbp l st)) /\
    (forall st, okst st -> posA aok (nud L STOP strict n st)) /\
    (forall acc st, okst st -> Forall kvok acc -> posA aok (parse_kvps L STOP strict n acc st)) /\
    (forall st, okst st -> posA kvok (parse_kvp L STOP strict n st)) /\
    (forall l st, okst st -> aok l -> posA aok (led L STOP strict n l st)) /\
    (forall l st, okst st -> aok l -> posA aok (parse_filter L STOP strict n l st)) /\
    (forall l st, okst st -> aok l -> posA aok (parse_flatten L STOP strict n l st)) /\
    (forall c l st, okst st -> aok l -> posA aok (parse_comparator L STOP strict n c l st)) /\
    (forall bp st, okst st -> posA aok (parse_dot L STOP strict n bp st)) /\
    (forall bp st, okst st -> posA aok (projection_rhs L STOP strict n bp st)) /\
    (forall l st, okst st -> aok l -> posA aok (parse_wildcard_index L STOP strict n l st)) /\
    (forall l st, okst st -> aok l -> posA aok (parse_wildcard_values L STOP strict n l st)) /\
    (forall st, okst st -> posA aok (parse_index L STOP strict n st)) /\
    (forall p0 p1 p2 pos st, okst st -> posA anyok (index_loop L STOP strict n p0 p1 p2 pos st)) /\
    (forall st, okst st -> posA aok (parse_multi_list L STOP strict n st)) /\
    (forall c acc st, okst st -> Forall aok acc -> posA (Forall aok) (parse_list L STOP strict n c acc st)).

  Ltac okA_tac :=
    cbn [fst snd kvok anyok] in *;
    repeat match goal with
           | |- True => exact I
           | |- anyok _ => exact I
           | |- _ /\ _ => split
           | |- AstPosProof.aok _ (AFunction _ _ _) => apply aok_function
           | |- AstPosProof.aok _ (AMultiList _) => apply aok_mlist
           | |- AstPosProof.aok _ (AMultiHash _) => apply aok_mhash
           | |- AstPosProof.aok _ _ => progress cbn [AstPosProof.aok]
           | |- Forall _ (rev _) => apply Forall_rev
           | |- Forall _ [] => constructor
           | |- Forall _ (_ :: _) => constructor
           | |- PosProof.okst _ _ => assumption
           | |- P (poff ?s) => match goal with H : PosProof.okst _ s |- _ => exact (proj1 H) end
           | |- _ => assumption
           end.

  Ltac ast_auto :=
    repeat match goal with
           | |- posA _ (Ok _) => cbn [posA]; solve [okA_tac]
           | |- posA _ OOF => exact I
           | |- posA _ (perr _ _) => exact I
           | |- posA _ (Err _) => exact I
           | H : _ |- posA _ _ => solve [apply H; okA_tac]
           | |- posA _ (bind ?r _) =>
               first [ apply (posA_bind (AstPosProof.aok P) _ r) | apply (posA_bind kvok _ r) | apply (posA_bind (Forall (AstPosProof.aok P)) _ r) | apply (posA_bind anyok _ r) ];
               [|let a := fresh "a" in let Ha := fresh "Ha" in let Hb := fresh "Hb" in intros a Ha Hb]
           | |- posA _ (if ?b then _ else _) => destruct b
           | |- posA _ (match advance_with_pos ?st with _ => _ end) =>
               let H := fresh "Hadv" in let Hp := fresh "Hpos" in
               pose proof (adv_okst P st ltac:(assumption)) as H; pose proof (adv_pos st ltac:(assumption)) as Hp;
               destruct (advance_with_pos st) as [[? ?] ?]; cbn [fst snd] in H, Hp
           | |- posA _ (match ?x with _ => _ end) => destruct x; cbn [fst snd kvok] in *
           end.

  Lemma all_ast_holds n : all_ast n.
  Proof.
    induction n as [|n IH].
    - unfold all_ast. repeat split; intros; exact I.
    - destruct IH as (H1 & H2 & H3 & H4 & H5 & H6 & H7 & H8 & H9 & H10 & H11 & H12 & H13 & H14 & H15 & H16 & H17).
      unfold all_ast. repeat split; intros.
      + cbn [expr]. ast_auto.
      + cbn [expr_loop]. ast_auto.
      + cbn [nud]. ast_auto.
      + cbn [parse_kvps]. ast_auto.
      + cbn [parse_kvp]. ast_auto.
      + cbn [led]. ast_auto.
      + cbn [parse_filter]. ast_auto.
      + cbn [parse_flatten]. ast_auto.
      + cbn [parse_comparator]. ast_auto.
      + cbn [parse_dot]. ast_auto.
      + cbn [projection_rhs]. ast_auto.
      + cbn [parse_wildcard_index]. ast_auto.
      + cbn [parse_wildcard_values]. ast_auto.
      + cbn [parse_index]. ast_auto.
      + cbn [index_loop]. ast_auto.
      + cbn [parse_multi_list]. ast_auto.
      + cbn [parse_list]. ast_auto.
  Qed.
End ParserAst.

Lemma parse_tokens_aok (L : token -> Z) (STOP : Z) (strict : bool) (P : Z -> Prop) (fuel : nat) (toks : list (Z * token)) (t : ast) : P 0 -> Forall (fun x => P (fst x)) toks ->
  parse_tokens L STOP strict fuel toks = Ok t -> aok P t.
Proof.
  intros H0 Ht. unfold parse_tokens. destruct (all_ast_holds L STOP strict P fuel) as (Hexpr & _).
  assert (Hok : okst P (mkPst toks 0)) by (split; assumption). specialize (Hexpr 0 _ Hok).
  destruct (expr L STOP strict fuel 0 (mkPst toks 0)) as [[result st]|e| | |]; cbn [bind]; try discriminate.
  cbn [posA fst snd] in Hexpr. destruct (peek st 0); try (unfold perr; discriminate). intros E. injection E as <-. apply Hexpr.
Qed.

(** Every offset stored in a compiled tree is the byte length of a prefix of the expression. *)
Theorem compile_tree_offsets_on_boundaries s t : parse s = Ok t -> aok (bnd s) t.
Proof.
  unfold parse. pose proof (tokenize_positions s) as Ht. destruct (tokenize s) as [toks|e| | |]; cbn [bind G] in *; try discriminate.
  apply parse_tokens_aok; [exists [], s; split; reflexivity|exact Ht].
Qed.

(** in particular the offset of a call node — where its arity, type and unknown-function errors are reported — and of a slice node *)
Corollary compiled_call_offset s off name args : parse s = Ok (AFunction off name args) -> bnd s off.
Proof. intros H. apply compile_tree_offsets_on_boundaries in H. apply aok_function in H. exact (proj1 H). Qed.
