(** C14, decoding half: whatever the decoder accepts is a value of the requested type —
    of the requested shape at every level, integers within the range of their width, keys
    of the requested key type — never a partially decoded or differently shaped value. *)
From Coq Require Import Floats.SpecFloat ZifyBool Lia.
From JP Require Import Base F64 Value JsonRead Serde Decode Proofs.ObjFacts Proofs.DecodeProof.

Fixpoint wt_key (k : kty) (a : sval) : bool :=
  match k, a with
  | KString, SStr _ => true
  | KChar, SChar _ => true
  | KInt lo hi, SInt z => (lo <=? z) && (z <=? hi)
  | KBool, SBool _ => true
  | KNewtype k', SNewtypeStruct a' => wt_key k' a'
  | KOption k', SSome a' => wt_key k' a'
  | KEnum vs, SUnitVariant n => mem_str n vs
  | _, _ => false
  end.

Section Wt.
  Variable c : ty -> sval -> bool.
  Fixpoint wt_list (ts : list ty) (l : list sval) : bool :=
    match ts, l with
    | [], [] => true
    | t1 :: ts', y :: l' => c t1 y && wt_list ts' l'
    | _, _ => false
    end.
  Fixpoint wt_fields (fs : list (str * ty)) (xs : list (str * sval)) : bool :=
    match fs, xs with
    | [], [] => true
    | (n, t1) :: fs', (m, y) :: xs' => str_eqb n m && c t1 y && wt_fields fs' xs'
    | _, _ => false
    end.
  Definition wt_payload (t1 : ty) (x : sval) : bool :=
    match t1, x with
    | TUnit, SUnitVariant _ => true
    | TNewtype t2, SNewtypeVariant _ y => c t2 y
    | TTupleStruct ts, STupleVariant _ l => wt_list ts l
    | TStruct fs, SStructVariant _ xs => wt_fields fs xs
    | _, _ => false
    end.
  Fixpoint wt_variant (name : str) (x : sval) (vs : list (str * ty)) : bool :=
    match vs with
    | [] => false
    | (n, t1) :: vs' => if str_eqb name n then wt_payload t1 x else wt_variant name x vs'
    end.
End Wt.

Fixpoint wt (t : ty) (x : sval) {struct t} : bool :=
  match t with
  | TBool => match x with SBool _ => true | _ => false end
  | TInt lo hi => match x with SInt z => (lo <=? z) && (z <=? hi) | _ => false end
  | TF64 => match x with SF64 _ => true | _ => false end
  | TChar => match x with SChar _ => true | _ => false end
  | TString => match x with SStr _ => true | _ => false end
  | TUnit => match x with SUnit => true | _ => false end
  | TUnitStruct => match x with SUnitStruct => true | _ => false end
  | TOption t' => match x with SNone => true | SSome y => wt t' y | _ => false end
  | TNewtype t' => match x with SNewtypeStruct y => wt t' y | _ => false end
  | TSeq t' => match x with SSeq l => forallb (wt t') l | _ => false end
  | TTuple ts => match x with STuple l => wt_list wt ts l | _ => false end
  | TTupleStruct ts => match x with STupleStruct l => wt_list wt ts l | _ => false end
  | TStruct fs => match x with SStruct xs => wt_fields wt fs xs | _ => false end
  | TEnum vs => match variant_name x with Some n => wt_variant wt n x vs | None => false end
  | TMap k t' => match x with SMap kvs => forallb (fun ax => wt_key k (fst ax) && wt t' (snd ax)) kvs | _ => false end
  | TValue => true
  end.

Lemma dekey_wt k : forall s a, dekey k s = Some a -> wt_key k a = true.
Proof.
  induction k; intros s a H; cbn in H.
  - injection H as <-. reflexivity.
  - destruct s as [|c [|]]; try discriminate. injection H as <-. reflexivity.
  - destruct (key_number s) as [n|]; [|discriminate]. unfold de_int in H.
    destruct n as [z|z|f]; try discriminate; destruct ((lo <=? z) && (z <=? hi)) eqn:E; try discriminate; injection H as <-; exact E.
  - destruct (str_eqb s s_true); [injection H as <-; reflexivity|]. destruct (str_eqb s s_false); [injection H as <-; reflexivity|discriminate].
  - destruct (dekey k s) eqn:E; [|discriminate]. injection H as <-. cbn. eapply IHk; eauto.
  - destruct (dekey k s) eqn:E; [|discriminate]. injection H as <-. cbn. eapply IHk; eauto.
  - destruct (mem_str s variants) eqn:E; [|discriminate]. injection H as <-. exact E.
Qed.

Lemma map_insert_forall (P : sval * sval -> bool) k : forall acc a x,
  forallb P acc = true -> P (a, x) = true -> forallb P (map_insert k acc a x) = true.
Proof.
  induction acc as [|[b y] acc IH]; intros a x Hacc Hp; cbn [map_insert].
  - cbn. rewrite Hp. reflexivity.
  - cbn in Hacc. apply andb_true_iff in Hacc as [Hb Hacc].
    destruct (key_cmp k a b); cbn; rewrite ?Hp, ?Hb, ?Hacc; try reflexivity.
    cbn. rewrite (IH a x Hacc Hp). reflexivity.
Qed.

Section Typing.
  Variable P : ty -> Prop.
  Hypothesis HP : forall t, P t -> forall v x, de t v = Some x -> wt t x = true.

  Lemma ty_mapM t l xs : P t -> mapM (de t) l = Some xs -> forallb (wt t) xs = true.
  Proof.
    intros Ht. revert xs; induction l as [|v l IH]; intros xs H; cbn in H.
    - injection H as <-. reflexivity.
    - destruct (de t v) eqn:E; [|discriminate]. destruct (mapM (de t) l) eqn:E2; [|discriminate]. injection H as <-.
      cbn. rewrite (HP t Ht v s E), (IH l0 eq_refl). reflexivity.
  Qed.

  Lemma ty_list ts : Forall P ts -> forall l xs, de_list de ts l = Some xs -> wt_list wt ts xs = true.
  Proof.
    induction 1 as [|t ts Ht _ IH]; intros l xs H; destruct l as [|v l]; cbn in H; try discriminate.
    - injection H as <-. reflexivity.
    - destruct (de t v) eqn:E; [|discriminate]. destruct (de_list de ts l) eqn:E2; [|discriminate]. injection H as <-.
      cbn. rewrite (HP t Ht v s E), (IH l l0 E2). reflexivity.
  Qed.

  Lemma ty_fields_seq fs : Forall (fun nt => P (snd nt)) fs -> forall l xs, de_fields_seq de fs l = Some xs -> wt_fields wt fs xs = true.
  Proof.
    induction 1 as [|[n t] fs Ht _ IH]; intros l xs H; destruct l as [|v l]; cbn in H; try discriminate.
    - injection H as <-. reflexivity.
    - destruct (de t v) eqn:E; [|discriminate]. destruct (de_fields_seq de fs l) eqn:E2; [|discriminate]. injection H as <-.
      cbn. rewrite str_eqb_refl. cbn in Ht. rewrite (HP t Ht v s E), (IH l l0 E2). reflexivity.
  Qed.

  Lemma ty_fields_obj o fs : Forall (fun nt => P (snd nt)) fs -> forall xs, de_fields_obj de o fs = Some xs -> wt_fields wt fs xs = true.
  Proof.
    induction 1 as [|[n t] fs Ht _ IH]; intros xs H; cbn in H.
    - injection H as <-. reflexivity.
    - destruct (match obj_get o n with Some x => de t x | None => if is_option t then Some SNone else None end) eqn:E; [|discriminate].
      destruct (de_fields_obj de o fs) eqn:E2; [|discriminate]. injection H as <-.
      cbn. rewrite str_eqb_refl, (IH l eq_refl). cbn in Ht.
      destruct (obj_get o n) as [v|].
      + rewrite (HP t Ht v s E). reflexivity.
      + destruct t; cbn in E; try discriminate. injection E as <-. reflexivity.
  Qed.

  Lemma ty_entries k t : P t -> forall o acc res,
    forallb (fun ax => wt_key k (fst ax) && wt t (snd ax)) acc = true ->
    de_entries k (de t) o acc = Some res -> forallb (fun ax => wt_key k (fst ax) && wt t (snd ax)) res = true.
  Proof.
    intros Ht. induction o as [|[ks v] o IH]; intros acc res Hacc H; cbn in H.
    - injection H as <-. exact Hacc.
    - destruct (dekey k ks) eqn:Ek; [|discriminate]. destruct (de t v) eqn:Ev; [|discriminate].
      eapply IH; [|exact H]. apply map_insert_forall; [exact Hacc|]. cbn. rewrite (dekey_wt k ks s Ek), (HP t Ht v s0 Ev). reflexivity.
  Qed.

  Lemma ty_variant vs : Forall (fun nt => P (snd nt)) vs -> forall name p x,
    de_variant de name p vs = Some x -> variant_name x = Some name /\ wt_variant wt name x vs = true.
  Proof.
    induction 1 as [|[n t1] vs Ht _ IH]; intros name p x H; cbn in H; [discriminate|].
    cbn [wt_variant]. destruct (str_eqb name n) eqn:En; [|exact (IH name p x H)].
    apply str_eqb_eq in En. subst n. cbn in Ht. unfold de_payload in H.
    destruct t1; try discriminate.
    - destruct p as [[]|]; try discriminate; injection H as <-; split; reflexivity.
    - destruct p as [v|]; [|discriminate]. destruct (de t1 v) eqn:E; [|discriminate]. injection H as <-. split; [reflexivity|].
      cbn. pose proof (HP _ Ht v (SNewtypeStruct s)) as W. cbn in W. rewrite E in W. exact (W eq_refl).
    - destruct p as [[| | | |[|x0 l0]| |]|]; try discriminate.
      destruct (de_list de ts (x0 :: l0)) eqn:E; [|discriminate]. injection H as <-. split; [reflexivity|].
      cbn. pose proof (HP _ Ht (VArr (x0 :: l0)) (STupleStruct l)) as W. cbn [de wt] in W. rewrite E in W. exact (W eq_refl).
    - destruct p as [[| | | | |o|]|]; try discriminate.
      destruct (de_fields_obj de o fs) eqn:E; [|discriminate]. injection H as <-. split; [reflexivity|].
      cbn. pose proof (HP _ Ht (VObj o) (SStruct l)) as W. cbn [de wt] in W. rewrite E in W. exact (W eq_refl).
  Qed.
End Typing.

Theorem de_well_typed : forall t v x, de t v = Some x -> wt t x = true.
Proof.
  pose (P := fun t => forall v x, de t v = Some x -> wt t x = true).
  assert (HP : forall t, P t -> forall v x, de t v = Some x -> wt t x = true) by (intros t H; exact H).
  intros t. change (P t). induction t using ty_ind'; unfold P; intros v x Hd; cbn [de] in Hd.
  - destruct v; try discriminate. injection Hd as <-. reflexivity.
  - destruct v; try discriminate. unfold de_int in Hd. destruct n as [z|z|f]; try discriminate;
      destruct ((lo <=? z) && (z <=? hi)) eqn:E; try discriminate; injection Hd as <-; exact E.
  - destruct v; try discriminate. injection Hd as <-. reflexivity.
  - destruct v as [|[|c [|]]| | | | |]; try discriminate. injection Hd as <-. reflexivity.
  - destruct v; try discriminate. injection Hd as <-. reflexivity.
  - destruct v; try discriminate. injection Hd as <-. reflexivity.
  - destruct v; try (injection Hd as <-; reflexivity);
      (destruct (de t _) eqn:E; [|discriminate]; injection Hd as <-; cbn; eapply IHt; exact E).
  - destruct v; try discriminate. destruct (mapM (de t) l) eqn:E; [|discriminate]. injection Hd as <-. cbn. exact (ty_mapM P HP t l l0 IHt E).
  - destruct v; try discriminate. destruct (de_list de ts l) eqn:E; [|discriminate]. injection Hd as <-. cbn. exact (ty_list P HP ts H l l0 E).
  - destruct v; try discriminate. injection Hd as <-. reflexivity.
  - destruct (de t v) eqn:E; [|discriminate]. injection Hd as <-. cbn. eapply IHt; exact E.
  - destruct v; try discriminate. destruct (de_list de ts l) eqn:E; [|discriminate]. injection Hd as <-. cbn. exact (ty_list P HP ts H l l0 E).
  - destruct v; try discriminate.
    + destruct (de_fields_seq de fs l) eqn:E; [|discriminate]. injection Hd as <-. cbn. exact (ty_fields_seq P HP fs H l l0 E).
    + destruct (de_fields_obj de l fs) eqn:E; [|discriminate]. injection Hd as <-. cbn. exact (ty_fields_obj P HP l fs H l0 E).
  - cbn [wt]. destruct v; try discriminate.
    + destruct (ty_variant P HP vs H s None x Hd) as [En W]. rewrite En. exact W.
    + destruct l as [|[name p] [|]]; try discriminate. destruct (ty_variant P HP vs H name (Some p) x Hd) as [En W]. rewrite En. exact W.
  - destruct v; try discriminate. destruct (de_entries k (de t) l []) eqn:E; [|discriminate]. injection Hd as <-. cbn.
    exact (ty_entries P HP k t IHt l [] l0 eq_refl E).
  - reflexivity.
Qed.
