(** C08/C09: integers in the 64-bit ranges keep their exact value and spelling —
    the decimal printer writes the canonical digits and the JSON reader reads
    them back. *)
From Coq Require Import ZifyBool Floats.SpecFloat.
From JP Require Import Base F64 Value JsonRead JsonPrint.

(** value of a digit string read left to right from an accumulator *)
Fixpoint dval (ds : str) (a : Z) : Z := match ds with [] => a | c :: r => dval r (a * 10 + (c - 48)) end.
Definition all_digits (ds : str) : Prop := Forall (fun c => 48 <= c <= 57) ds.

Lemma dval_mono ds : forall a, 0 <= a -> all_digits ds -> a <= dval ds a.
Proof.
  induction ds as [|c r IH]; intros a Ha Hd; cbn [dval]; [lia|]. inversion Hd as [|? ? Hc Hr]; subst.
  specialize (IH (a * 10 + (c - 48)) ltac:(lia) Hr). lia.
Qed.

Lemma dval_app a b : forall x, dval (a ++ b) x = dval b (dval a x).
Proof. induction a as [|c r IH]; intros x; cbn [app dval]; [reflexivity|apply IH]. Qed.

(** canonical decimal spelling of [z]: digits only, no leading zero except for 0 itself, value [z] *)
Definition canonical (ds : str) (z : Z) : Prop :=
  all_digits ds /\ dval ds 0 = z /\ match ds with [] => False | c :: r => if z =? 0 then r = [] else 49 <= c end.

(* ---------- the printer ---------- *)
Lemma digits_go_spec : forall f z acc, (0 < f)%nat -> 0 <= z < 10 ^ Z.of_nat f -> exists ds, digits_go f z acc = ds ++ acc /\ canonical ds z.
Proof.
  induction f as [|f IH]; intros z acc Hf Hz.
  - lia.
  - cbn [digits_go]. destruct (z <? 10) eqn:E.
    + exists [48 + z]. split; [reflexivity|]. split; [constructor; [lia|constructor]|]. split; [cbn [dval]; lia|]. destruct (z =? 0) eqn:E0; [reflexivity|lia].
    + assert (Hq : 0 <= z / 10 < 10 ^ Z.of_nat f).
      { rewrite Nat2Z.inj_succ, Z.pow_succ_r in Hz by lia. split; [apply Z.div_pos; lia|apply Z.div_lt_upper_bound; lia]. }
      assert (Hf' : (0 < f)%nat). { destruct f; [cbn in Hz; lia|lia]. }
      destruct (IH (z / 10) ((48 + z mod 10) :: acc) Hf' Hq) as (ds & Hds & Hall & Hval & Hhd).
      exists (ds ++ [48 + z mod 10]). split; [rewrite Hds, <- app_assoc; reflexivity|].
      pose proof (Z.mod_pos_bound z 10 ltac:(lia)) as Hm. pose proof (Z.div_mod z 10 ltac:(lia)) as Hdm.
      split; [apply Forall_app; split; [exact Hall|constructor; [lia|constructor]]|].
      split; [rewrite dval_app, Hval; cbn [dval]; lia|].
      assert (Hz0 : (z =? 0) = false) by lia. rewrite Hz0.
      assert (Hq0 : (z / 10 =? 0) = false). { apply Z.eqb_neq. intros Hq'. rewrite Hq' in Hdm. lia. }
      rewrite Hq0 in Hhd. destruct ds as [|c r]; [contradiction|]. exact Hhd.
Qed.

Lemma log2_bound z : 0 <= z -> z < 10 ^ Z.of_nat (S (Z.to_nat (Z.log2 z))).
Proof.
  intros Hz. destruct (Z.eq_dec z 0) as [->|Hn]; [cbn; lia|].
  destruct (Z.log2_spec z ltac:(lia)) as [_ Hl]. rewrite Nat2Z.inj_succ, Z2Nat.id by apply Z.log2_nonneg.
  eapply Z.lt_le_trans; [exact Hl|]. apply Z.pow_le_mono_l. lia.
Qed.

Theorem digits_of_canonical z : 0 <= z -> canonical (digits_of z) z.
Proof.
  intros Hz. unfold digits_of. destruct (digits_go_spec _ z [] (Nat.lt_0_succ _) (conj Hz (log2_bound z Hz))) as (ds & -> & H). now rewrite app_nil_r.
Qed.

(* ---------- the reader ---------- *)
Definition not_number_char (rest : str) : Prop :=
  match rest with [] => True | c :: _ => is_digit c = false /\ c <> 46 /\ c <> 101 /\ c <> 69 end.

Lemma int_digits_loop_spec ds : forall sg rest, all_digits ds -> 0 <= sg -> dval ds sg <= u64_max -> not_number_char rest ->
  int_digits_loop (ds ++ rest) sg = (dval ds sg, false, rest).
Proof.
  induction ds as [|c r IH]; intros sg rest Hd Hs Hv Hr; cbn [app dval].
  - destruct rest as [|c r]; [reflexivity|]. cbn [int_digits_loop]. destruct Hr as [-> _]. reflexivity.
  - inversion Hd as [|? ? Hc Hrr]; subst. cbn [int_digits_loop]. assert (is_digit c = true) as -> by (unfold is_digit; lia).
    cbn [dval] in Hv. pose proof (dval_mono r (sg * 10 + (c - 48)) ltac:(lia) Hrr).
    unfold ovf. assert ((u64_max <? sg * 10 + (c - 48)) = false) as -> by lia. apply IH; [exact Hrr|lia|exact Hv|exact Hr].
Qed.

Lemma parse_number_plain pos z rest : not_number_char rest -> pos = true ->
  parse_number pos z rest = Ok (Some (PU64 z, rest)).
Proof.
  intros Hr ->. unfold parse_number. destruct rest as [|c r]; [reflexivity|]. destruct Hr as (_ & H1 & H2 & H3).
  destruct c as [|p|p]; try reflexivity.
  do 7 (try (destruct p as [p|p|]; try reflexivity)); try (exfalso; apply H1; reflexivity); try (exfalso; apply H2; reflexivity); try (exfalso; apply H3; reflexivity).
Qed.

(** the reader on a canonical spelling (magnitude within u64): the digits are consumed and only the sign rule remains *)
Theorem parse_integer_canonical pos ds z rest : canonical ds z -> 0 <= z <= u64_max -> not_number_char rest ->
  parse_integer pos (ds ++ rest) = parse_number pos z rest.
Proof.
  intros (Hd & Hv & Hh) Hz Hr. destruct ds as [|c r]; [contradiction|]. inversion Hd as [|? ? Hc Hrr]; subst. cbn [app].
  destruct (dval (c :: r) 0 =? 0) eqn:E0.
  - subst r. cbn [dval] in E0. assert (c = 48) as -> by lia. cbn [app dval]. unfold parse_integer.
    destruct rest as [|c2 r2]; [reflexivity|]. destruct Hr as (Hnd & Hr'). rewrite Hnd. reflexivity.
  - unfold parse_integer.
    assert (Hc49 : ((49 <=? c) && (c <=? 57)) = true) by lia.
    cbn [dval] in *.
    transitivity (if (49 <=? c) && (c <=? 57)
                  then let '(sg, ov, r') := int_digits_loop (r ++ rest) (c - 48) in
                       if ov then let '(ex, r'') := count_digits r' 0 in
                                  match r'' with
                                  | 46 :: t => parse_decimal pos sg ex t
                                  | 101 :: t | 69 :: t => parse_exponent pos sg ex t
                                  | _ => lift_f (f64_from_parts pos sg ex) r''
                                  end
                       else parse_number pos sg r'
                  else Ok None).
    { destruct c as [|p|p]; try reflexivity. do 7 (try (destruct p as [p|p|]; try reflexivity)). lia. }
    rewrite Hc49. rewrite (int_digits_loop_spec r (c - 48) rest Hrr ltac:(lia)) by (try assumption; replace (c - 48) with (0 * 10 + (c - 48)) by lia; lia).
    replace (c - 48) with (0 * 10 + (c - 48)) by lia. reflexivity.
Qed.

Lemma parse_number_neg z rest : not_number_char rest -> 0 < z <= 9223372036854775808 ->
  parse_number false z rest = Ok (Some (PI64 (- z), rest)).
Proof.
  intros Hr Hz. unfold parse_number.
  assert (Hdef : (if false then Ok (Some (PU64 z, rest)) else if z =? 0 then Ok (Some (PF64 (S754_zero true), rest))
                  else if z <=? 9223372036854775808 then Ok (Some (PI64 (- z), rest)) else Ok (Some (PF64 (fopp (f_of_Z z)), rest)))
                 = Ok (Some (PI64 (- z), rest))).
  { assert ((z =? 0) = false) as -> by lia. assert ((z <=? 9223372036854775808) = true) as -> by lia. reflexivity. }
  destruct rest as [|c r]; [exact Hdef|]. destruct Hr as (_ & H1 & H2 & H3).
  destruct c as [|p|p]; try exact Hdef.
  do 7 (try (destruct p as [p|p|]; try exact Hdef)); try (exfalso; apply H1; reflexivity); try (exfalso; apply H2; reflexivity); try (exfalso; apply H3; reflexivity).
Qed.

(* ---------- whole texts ---------- *)
Lemma parse_value_digit fu d c r : 48 <= c <= 57 ->
  parse_value (S fu) d (c :: r) =
    let* o := parse_integer true (c :: r) in Ok (option_map (fun '(p, r') => (num_of_pnum p, r')) o).
Proof.
  intros Hc. cbn [parse_value]. assert (Hws : is_ws c = false) by (unfold is_ws; lia). cbn [skip_ws]. rewrite Hws.
  assert (Hd : is_digit c = true) by (unfold is_digit; lia).
  destruct c as [|p|p]; try lia. do 7 (try (destruct p as [p|p|]; try (rewrite Hd; reflexivity))); lia.
Qed.

Lemma parse_value_minus fu d r :
  parse_value (S fu) d (45 :: r) = let* o := parse_integer false r in Ok (option_map (fun '(p, r') => (num_of_pnum p, r')) o).
Proof. reflexivity. Qed.

(** Every unsigned 64-bit integer: its printed text reads back as exactly that integer. *)
Theorem unsigned_roundtrip z : 0 <= z <= u64_max ->
  print_json (VNum (PosInt z)) = Ok (digits_of z) /\ from_json (digits_of z) = Ok (Some (VNum (PosInt z))).
Proof.
  intros Hz. split; [cbn [print_json print_num]; unfold print_z; assert ((z <? 0) = false) as -> by lia; reflexivity|].
  pose proof (digits_of_canonical z ltac:(lia)) as Hc. unfold from_json.
  destruct (digits_of z) as [|c r] eqn:Ed; [destruct Hc as (_ & _ & []) |]. destruct Hc as (Hd & Hv & Hh).
  cbn [length Nat.add]. rewrite parse_value_digit by (inversion Hd; assumption).
  pose proof (parse_integer_canonical true (c :: r) z [] (conj Hd (conj Hv Hh)) Hz I) as Hp. rewrite app_nil_r in Hp. rewrite Hp.
  rewrite (parse_number_plain true z [] I eq_refl). reflexivity.
Qed.

(** Every negative signed 64-bit integer likewise. *)
Theorem negative_roundtrip z : i64_min <= z < 0 ->
  print_json (VNum (NegInt z)) = Ok (45 :: digits_of (- z)) /\ from_json (45 :: digits_of (- z)) = Ok (Some (VNum (NegInt z))).
Proof.
  intros Hz. unfold i64_min in Hz. split; [cbn [print_json print_num]; unfold print_z; assert ((z <? 0) = true) as -> by lia; reflexivity|].
  pose proof (digits_of_canonical (- z) ltac:(lia)) as Hc. unfold from_json. cbn [length Nat.add]. rewrite parse_value_minus.
  pose proof (parse_integer_canonical false (digits_of (- z)) (- z) [] Hc ltac:(unfold u64_max; lia) I) as Hp. rewrite app_nil_r in Hp. rewrite Hp.
  rewrite (parse_number_neg (- z) [] I) by lia. cbn [bind option_map num_of_pnum]. replace (- - z) with z by lia.
  assert ((z <? 0) = true) as -> by lia. reflexivity.
Qed.
