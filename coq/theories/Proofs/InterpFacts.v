(** One-step facts about the interpreter model used by several properties. *)
From Coq Require Import ZifyBool.
From JP Require Import Base F64 Value Sig Slice Functions Interp Spec.SliceSpec Proofs.SliceProof.

Lemma spec_slice_length {A} (arr : list A) start stop step : step <> 0 ->
  length (spec_slice arr start stop step) = length (py_indices (zlen arr) start stop step).
Proof.
  intros Hs. unfold spec_slice. apply select_length. intros i Hi.
  eapply indices_in_range; eauto. unfold zlen; lia.
Qed.

Lemma slice_step0 fuel rt d off start stop o :
  interp (S fuel) rt d (ASlice off start stop 0) o = Err (ERuntime KInvalidSlice off).
Proof. reflexivity. Qed.

Lemma slice_non_array fuel rt d off start stop step o :
  step <> 0 -> (forall l, d <> VArr l) ->
  interp (S fuel) rt d (ASlice off start stop step) o = Ok (VNull, o).
Proof.
  intros Hs Hd. cbn [interp]. destruct (step =? 0) eqn:E; [lia|].
  destruct d; try reflexivity. exfalso. eapply Hd; reflexivity.
Qed.

Lemma interp_slice_array fuel rt arr off start stop step o :
  zlen arr <= i32_max -> i32_min <= step -> step <> 0 ->
  interp (S fuel) rt (VArr arr) (ASlice off start stop step) o = Ok (VArr (spec_slice arr start stop step), o).
Proof.
  intros H1 H2 H3. cbn [interp]. destruct (step =? 0) eqn:E; [lia|].
  rewrite slice_correct by assumption. reflexivity.
Qed.

Lemma interp_index_spec fuel rt arr n o : i32_min < n ->
  interp (S fuel) rt (VArr arr) (AIndex n) o =
    Ok (match spec_index arr n with Some x => x | None => VNull end, o).
Proof.
  intros Hn. cbn [interp]. unfold spec_index.
  destruct (n >=? 0) eqn:E.
  - destruct (n <? 0) eqn:E1; [lia|]. cbn [andb].
    assert ((0 <=? n) = true) as -> by lia. cbn [andb get_index].
    destruct (n <? zlen arr) eqn:E2.
    + rewrite index_z_nth_error by lia. reflexivity.
    + rewrite index_z_none by lia. reflexivity.
  - destruct (n =? i32_min) eqn:E0; [lia|]. destruct (n <? 0) eqn:E1; [|lia].
    cbn [get_negative_index].
    replace (Z.max (- n) 1) with (- n) by lia.
    destruct (zlen arr >=? - n) eqn:E2.
    + assert ((0 <=? zlen arr + n) = true) as -> by lia.
      assert ((zlen arr + n <? zlen arr) = true) as -> by lia. cbn [andb].
      replace (zlen arr - - n) with (zlen arr + n) by lia.
      destruct (index_z_some arr (zlen arr + n)) as [x Hx]; [lia|].
      rewrite Hx. cbn [bind]. rewrite <- index_z_nth_error by lia. now rewrite Hx.
    + assert ((0 <=? zlen arr + n) = false) as -> by lia. reflexivity.
Qed.

Lemma interp_index_non_array fuel rt d n o : i32_min < n -> (forall l, d <> VArr l) ->
  interp (S fuel) rt d (AIndex n) o = Ok (VNull, o).
Proof.
  intros Hn Hd. cbn [interp]. destruct (n >=? 0) eqn:E.
  - destruct d; try reflexivity. exfalso; eapply Hd; reflexivity.
  - destruct (n =? i32_min) eqn:E0; [lia|].
    destruct d; try reflexivity. exfalso; eapply Hd; reflexivity.
Qed.
