(** C05: search terminates.  For every expression whose expression references
    occur only where the specification gives them a meaning — as the function
    argument of map (first) and of sort_by / max_by / min_by (second) — and every
    JSON document, evaluation on the default runtime never runs out of fuel equal
    to the height of the tree, through all 26 builtins; and every value it
    produces is again a JSON value (no expression reference escapes into data). *)
From Coq Require Import ZifyBool Floats.SpecFloat.
From JP Require Import Base F64 Value Sig Slice JsonRead JsonPrint Functions Interp Spec.SliceSpec Spec.Semantics
     Proofs.CmpProof Proofs.FuelProof Proofs.InterpProof Proofs.TotalProof Proofs.ParseErrProof Proofs.NoTrapProof.

Notation nx := no_expref.
Definition nxs (l : list value) : Prop := Forall (fun v => nx v = true) l.

(** result predicate: not out of fuel, and a JSON value if it is a value *)
Definition Q (r : res (value * Z)) : Prop := r <> OOF /\ forall v o, r = Ok (v, o) -> nx v = true.

Lemma Q_ret v o : nx v = true -> Q (ret v o).
Proof. intros H. split; [discriminate|]. intros v' o' E. injection E as <- _. exact H. Qed.
Lemma Q_ok v o : nx v = true -> Q (Ok (v, o)).
Proof. exact (Q_ret v o). Qed.
Lemma Q_err e : Q (Err e). Proof. split; discriminate. Qed.
Lemma Q_trap : Q Trap. Proof. split; discriminate. Qed.
Lemma Q_unm : Q Unmodelled. Proof. split; discriminate. Qed.
Lemma Q_fab : Q fabricated. Proof. apply Q_err. Qed.
Lemma Q_from_f64 f off : Q (from_f64 f off).
Proof. unfold from_f64. destruct (f_is_finite f); [now apply Q_ret|apply Q_fab]. Qed.

Lemma Q_bind {A} (r : res A) (k : A -> res (value * Z)) : r <> OOF -> (forall a, r = Ok a -> Q (k a)) -> Q (bind r k).
Proof. intros Hn Hk. destruct r as [a|e| | |]; cbn [bind]; [apply Hk; reflexivity|apply Q_err|apply Q_trap|contradiction|apply Q_unm]. Qed.

Lemma nxs_forallb l : forallb nx l = true <-> nxs l.
Proof. unfold nxs. rewrite forallb_forall, Forall_forall. reflexivity. Qed.
Lemma nx_arr l : nx (VArr l) = true <-> nxs l.
Proof. cbn [no_expref]. apply nxs_forallb. Qed.
Lemma nx_obj o : nx (VObj o) = true <-> Forall (fun kv : str * value => nx (snd kv) = true) o.
Proof. cbn [no_expref]. rewrite forallb_forall, Forall_forall. reflexivity. Qed.

Lemma obj_insert_nx o k v : Forall (fun kv : str * value => nx (snd kv) = true) o -> nx v = true ->
  Forall (fun kv : str * value => nx (snd kv) = true) (obj_insert o k v).
Proof.
  intros Ho Hv. induction Ho as [|[k' v'] o' Hk Ho' IH]; cbn [obj_insert]; [constructor; [exact Hv|constructor]|].
  destruct (str_cmp k k').
  - constructor; [exact Hv|exact Ho'].
  - constructor; [exact Hv|constructor; [exact Hk|exact Ho']].
  - constructor; [exact Hk|exact IH].
Qed.

Lemma obj_get_nx o k v : Forall (fun kv : str * value => nx (snd kv) = true) o -> obj_get o k = Some v -> nx v = true.
Proof.
  induction 1 as [|[k' v'] o' Hk Ho IH]; cbn [obj_get]; [discriminate|]. destruct (str_eqb k k'); [intros E; injection E as <-; exact Hk|exact IH].
Qed.

Lemma get_field_nx d k : nx d = true -> nx (get_field d k) = true.
Proof.
  intros H. destruct d; try reflexivity. cbn [get_field]. destruct (obj_get l k) eqn:E; [|reflexivity]. eapply obj_get_nx; [apply nx_obj; exact H|exact E].
Qed.

Lemma index_z_nx l i v : nxs l -> index_z l i = Some v -> nx v = true.
Proof. intros Hl E. apply index_z_in in E. unfold nxs in Hl. rewrite Forall_forall in Hl. now apply Hl. Qed.

Lemma get_index_nx d i : nx d = true -> nx (get_index d i) = true.
Proof.
  intros H. destruct d; try reflexivity. cbn [get_index]. destruct (index_z l i) eqn:E; [|reflexivity]. eapply index_z_nx; [apply nx_arr; exact H|exact E].
Qed.

Lemma nxs_in l x : nxs l -> In x l -> nx x = true.
Proof. unfold nxs. rewrite Forall_forall. auto. Qed.
Lemma nxs_of_in l : (forall x, In x l -> nx x = true) -> nxs l.
Proof. unfold nxs. rewrite Forall_forall. auto. Qed.

Lemma slice_nx arr a b c l : i32_min <= c -> c <> 0 -> nxs arr -> slice arr a b c = Ok l -> nxs l.
Proof.
  intros H1 H2 Harr Hs. destruct (slice_total arr a b c H1 H2) as [E|E]; rewrite E in Hs; [discriminate|].
  injection Hs as <-. apply nxs_of_in. intros x Hx. apply (nxs_in arr x Harr). eapply select_in; eauto.
Qed.

Lemma slice_noof {A} (arr : list A) a b c : i32_min <= c -> c <> 0 -> slice arr a b c <> OOF.
Proof. intros H1 H2. destruct (slice_total arr a b c H1 H2) as [E|E]; rewrite E; discriminate. Qed.

(* ---------- helpers of the builtins ---------- *)
Lemma avg_sum_noof vs : forall s, avg_sum vs s <> OOF.
Proof. induction vs as [|v vs IH]; intros s; cbn [avg_sum]; [discriminate|]. destruct v; try discriminate. apply IH. Qed.

Lemma strings_of_noof vs : strings_of vs <> OOF.
Proof.
  induction vs as [|v vs IH]; cbn [strings_of]; [discriminate|]. destruct v; try discriminate.
  destruct (strings_of vs); cbn [bind]; try discriminate. contradiction.
Qed.

Lemma merge_objs_Q args : nxs args -> merge_objs args <> OOF /\ forall o, merge_objs args = Ok o -> Forall (fun kv : str * value => nx (snd kv) = true) o.
Proof.
  unfold merge_objs. intros Hargs.
  assert (Hgen : forall (acc : res (list (str * value))),
            (acc <> OOF /\ forall o, acc = Ok o -> Forall (fun kv : str * value => nx (snd kv) = true) o) ->
            let r := fold_left (fun acc a => let* r := acc in match a with VObj o => Ok (fold_left (fun m '(k, v) => obj_insert m k v) o r) | _ => fabricated end) args acc in
            r <> OOF /\ forall o, r = Ok o -> Forall (fun kv : str * value => nx (snd kv) = true) o).
  { induction Hargs as [|a args Ha Hargs IH]; intros acc Hacc; cbn [fold_left]; [exact Hacc|]. apply IH.
    destruct Hacc as [Hn Ho]. destruct acc as [r|e| | |]; cbn [bind]; try (split; [discriminate|intros; discriminate]); [|contradiction].
    destruct a; try (split; [discriminate|intros; discriminate]). split; [discriminate|]. intros o E. injection E as <-.
    apply nx_obj in Ha. specialize (Ho r eq_refl). clear -Ha Ho. revert r Ho. induction Ha as [|[k v] l Hk Hl IHl]; intros r Ho; cbn [fold_left]; [exact Ho|].
    apply IHl. now apply obj_insert_nx. }
  apply Hgen. split; [discriminate|]. intros o E. injection E as <-. constructor.
Qed.

Lemma first_non_null_nx args : nxs args -> nx (first_non_null args) = true.
Proof. induction 1 as [|a args Ha Hargs IH]; cbn [first_non_null]; [reflexivity|]. destruct (is_null a); [exact IH|exact Ha]. Qed.

Lemma fold_op_nx op xs x : (forall a b, nx a = true -> nx b = true -> nx (op a b) = true) -> nxs xs -> nx x = true -> nx (fold_left op xs x) = true.
Proof. intros Hop Hxs. revert x. induction Hxs as [|y xs Hy Hxs IH]; intros x Hx; cbn [fold_left]; [exact Hx|]. apply IH. now apply Hop. Qed.

Lemma print_json_noof : forall v, print_json v <> OOF.
Proof.
  fix IH 1. intros v. destruct v as [|s|b|n|l|o|e]; cbn [print_json]; try discriminate.
  - destruct b; discriminate.
  - destruct n; cbn [print_num]; try discriminate. unfold print_f64. destruct f; try discriminate. destruct (shortest_digits _ _) as [[c k]|]; discriminate.
  - assert (H : (fix go (l0 : list value) : res (list str) :=
                   match l0 with [] => Ok [] | x :: l' => let* y := print_json x in let* ys := go l' in Ok (y :: ys) end) l <> OOF).
    { induction l as [|x r IHr]; [discriminate|]. specialize (IH x). destruct (print_json x); cbn [bind]; try discriminate; [|contradiction].
      match goal with |- bind ?g _ <> _ => destruct g; cbn [bind]; try discriminate; contradiction end. }
    match goal with |- bind ?g _ <> _ => destruct g; cbn [bind]; try discriminate; contradiction end.
  - assert (H : (fix go (l0 : list (str * value)) : res (list str) :=
                   match l0 with [] => Ok [] | (k, x) :: l' => let* y := print_json x in let* ys := go l' in Ok ((print_string k ++ 58 :: y) :: ys) end) o <> OOF).
    { induction o as [|[k x] r IHr]; [discriminate|]. specialize (IH x). destruct (print_json x); cbn [bind]; try discriminate; [|contradiction].
      match goal with |- bind ?g _ <> _ => destruct g; cbn [bind]; try discriminate; contradiction end. }
    match goal with |- bind ?g _ <> _ => destruct g; cbn [bind]; try discriminate; contradiction end.
Qed.

Lemma no_err_noof {A} (r : res A) : r <> OOF -> no_err r <> OOF.
Proof. destruct r; cbn [no_err]; auto; discriminate. Qed.

(* ---------- the builtins ---------- *)
(** an expression reference whose body evaluates (within the evaluator's fuel) to JSON values on JSON values *)
Definition EV (ev : evaluator) (e : ast) : Prop := forall v o, nx v = true -> Q (ev v e o).

Lemma map_loop_Q ev e : EV ev e -> forall vs acc off, nxs vs -> nxs acc -> Q (map_loop ev e vs acc off).
Proof.
  intros He. induction vs as [|v vs IH]; intros acc off Hvs Hacc; cbn [map_loop].
  - apply Q_ret. apply nx_arr. unfold nxs in *. now apply Forall_rev.
  - inversion Hvs as [|? ? Hv Hvs']; subst. destruct (He v off Hv) as [Hn Hok].
    apply Q_bind; [exact Hn|]. intros [r off1] E. apply IH; [exact Hvs'|]. constructor; [exact (Hok r off1 E)|exact Hacc].
Qed.

Lemma by_loop_Q ev better e ty : EV ev e -> forall vs inv cand ckey off, nxs vs -> nx cand = true -> Q (by_loop ev better e ty vs inv cand ckey off).
Proof.
  intros He. induction vs as [|v vs IH]; intros inv cand ckey off Hvs Hc; cbn [by_loop]; [now apply Q_ret|].
  inversion Hvs as [|? ? Hv Hvs']; subst. destruct (He v off Hv) as [Hn Hok].
  apply Q_bind; [exact Hn|]. intros [mapped off1] E. destruct (negb (jtype_eqb (get_type mapped) ty)); [apply Q_err|].
  destruct (better (var_cmp mapped ckey)); apply IH; assumption.
Qed.

Lemma sort_by_keys_Q ev e ty : EV ev e -> forall vs inv acc off, nxs vs -> Forall (fun p : value * value => nx (fst p) = true) acc ->
  sort_by_keys ev e ty vs inv acc off <> OOF /\
  forall pairs o, sort_by_keys ev e ty vs inv acc off = Ok (pairs, o) -> Forall (fun p : value * value => nx (fst p) = true) pairs.
Proof.
  intros He. induction vs as [|v vs IH]; intros inv acc off Hvs Hacc; cbn [sort_by_keys].
  - split; [discriminate|]. intros pairs o E. injection E as <- _. now apply Forall_rev.
  - inversion Hvs as [|? ? Hv Hvs']; subst. destruct (He v off Hv) as [Hn Hok].
    destruct (ev v e off) as [[mapped off1]|?| | |]; cbn [bind]; try (split; [discriminate|intros; discriminate]); [|contradiction].
    destruct (negb (jtype_eqb (get_type mapped) ty)); [split; [discriminate|intros; discriminate]|].
    apply IH; [exact Hvs'|]. constructor; [exact Hv|exact Hacc].
Qed.

Lemma validate_noof sg args off : validate sg args off <> OOF.
Proof. apply validate_returns. Qed.

Ltac q_leaf :=
  match goal with
  | |- Q (ret _ _) => solve [apply Q_ret; first [reflexivity|assumption]]
  | |- Q fabricated => apply Q_fab
  | |- Q (Err _) => apply Q_err
  | |- Q Trap => apply Q_trap
  | |- Q (from_f64 _ _) => apply Q_from_f64
  end.

(** every builtin, on JSON arguments: never out of fuel, a JSON value *)
Theorem call_builtin_Q_json ev b sg args off : nxs args -> Q (call_builtin ev b sg args off).
Proof.
  intros Hargs. unfold call_builtin. apply Q_bind; [apply validate_noof|]. intros [] _.
  assert (H0 : forall a r, args = a :: r -> nx a = true) by (intros a r ->; inversion Hargs; assumption).
  assert (H1 : forall a b0 r, args = a :: b0 :: r -> nx b0 = true) by (intros a b0 r ->; inversion Hargs as [|? ? _ Hr]; inversion Hr; assumption).
  destruct b.
  - (* abs *) destruct args as [|a0 r]; cbn [arg0 bind]; [apply Q_trap|]. specialize (H0 a0 r eq_refl). destruct a0; try (apply Q_ret; assumption). apply Q_from_f64.
  - (* avg *) destruct args as [|a0 r]; cbn [arg0 bind]; [apply Q_trap|]. destruct a0 as [| | | |[|x xs]| |]; try q_leaf.
    apply Q_bind; [apply avg_sum_noof|]. intros s _. apply Q_from_f64.
  - (* ceil *) destruct args as [|a0 r]; cbn [arg0 bind]; [apply Q_trap|]. destruct a0; q_leaf.
  - (* contains *) destruct args as [|a0 [|a1 r]]; cbn [arg0 arg1 bind]; try apply Q_trap. destruct a0; try q_leaf. destruct a1; q_leaf.
  - (* ends_with *) destruct args as [|a0 [|a1 r]]; cbn [arg0 arg1 bind]; try apply Q_trap. destruct a0, a1; q_leaf.
  - (* floor *) destruct args as [|a0 r]; cbn [arg0 bind]; [apply Q_trap|]. destruct a0; q_leaf.
  - (* join *) destruct args as [|a0 [|a1 r]]; cbn [arg0 arg1 bind]; try apply Q_trap. destruct a0, a1; try q_leaf.
    apply Q_bind; [apply strings_of_noof|]. intros ss _. q_leaf.
  - (* keys *) destruct args as [|a0 r]; cbn [arg0 bind]; [apply Q_trap|]. destruct a0; try q_leaf.
    apply Q_ret. apply nx_arr. apply nxs_of_in. intros x Hx. apply in_map_iff in Hx as (kv & <- & _). reflexivity.
  - (* length *) destruct args as [|a0 r]; cbn [arg0 bind]; [apply Q_trap|]. destruct a0; q_leaf.
  - (* map *) destruct args as [|a0 [|a1 r]]; cbn [arg0 arg1 bind]; try apply Q_trap. specialize (H0 a0 _ eq_refl). destruct a0; try q_leaf; try (destruct a1; q_leaf). discriminate H0.
  - (* max *) unfold min_and_max. destruct args as [|a0 r]; cbn [arg0 bind]; [apply Q_trap|]. specialize (H0 a0 r eq_refl).
    destruct a0 as [| | | |[|x xs]| |]; try q_leaf. apply nx_arr in H0. inversion H0; subst.
    apply Q_ret. apply fold_op_nx; auto. intros a b Ha Hb. unfold ord_max. destruct (var_cmp a b); auto.
  - (* max_by *) unfold min_and_max_by. destruct args as [|a0 [|a1 r]]; cbn [arg0 arg1 bind]; try apply Q_trap.
    + destruct a0 as [| | | |[|x xs]| |]; try q_leaf; try (cbn [bind]; apply Q_trap).
    + specialize (H1 a0 a1 r eq_refl). destruct a0 as [| | | |[|x xs]| |]; try q_leaf; cbn [bind]; (destruct a1; try q_leaf; discriminate H1).
  - (* merge *) destruct (merge_objs_Q args Hargs) as [Hn Ho]. apply Q_bind; [exact Hn|]. intros o E. apply Q_ret. apply nx_obj. now apply Ho.
  - (* min *) unfold min_and_max. destruct args as [|a0 r]; cbn [arg0 bind]; [apply Q_trap|]. specialize (H0 a0 r eq_refl).
    destruct a0 as [| | | |[|x xs]| |]; try q_leaf. apply nx_arr in H0. inversion H0; subst.
    apply Q_ret. apply fold_op_nx; auto. intros a b Ha Hb. unfold ord_min. destruct (var_cmp a b); auto.
  - (* min_by *) unfold min_and_max_by. destruct args as [|a0 [|a1 r]]; cbn [arg0 arg1 bind]; try apply Q_trap.
    + destruct a0 as [| | | |[|x xs]| |]; try q_leaf; try (cbn [bind]; apply Q_trap).
    + specialize (H1 a0 a1 r eq_refl). destruct a0 as [| | | |[|x xs]| |]; try q_leaf; cbn [bind]; (destruct a1; try q_leaf; discriminate H1).
  - (* not_null *) apply Q_ret. now apply first_non_null_nx.
  - (* reverse *) destruct args as [|a0 r]; cbn [arg0 bind]; [apply Q_trap|]. specialize (H0 a0 r eq_refl). destruct a0; try q_leaf.
    apply Q_ret. apply nx_arr. apply nx_arr in H0. unfold nxs in *. now apply Forall_rev.
  - (* sort *) destruct args as [|a0 r]; cbn [arg0 bind]; [apply Q_trap|]. specialize (H0 a0 r eq_refl). destruct a0; try q_leaf.
    apply Q_ret. apply nx_arr. apply nx_arr in H0. apply nxs_of_in. intros x Hx. apply (nxs_in l x H0). eapply stable_sort_in; eauto.
  - (* sort_by *) unfold sort_by. destruct args as [|a0 [|a1 r]]; cbn [arg0 arg1 bind]; try apply Q_trap.
    + destruct a0 as [| | | |[|x xs]| |]; try q_leaf; try (cbn [bind]; apply Q_trap).
    + specialize (H1 a0 a1 r eq_refl). destruct a0 as [| | | |[|x xs]| |]; try q_leaf; cbn [bind]; (destruct a1; try q_leaf; discriminate H1).
  - (* starts_with *) destruct args as [|a0 [|a1 r]]; cbn [arg0 arg1 bind]; try apply Q_trap. destruct a0, a1; q_leaf.
  - (* sum *) destruct args as [|a0 r]; cbn [arg0 bind]; [apply Q_trap|]. destruct a0; q_leaf.
  - (* to_array *) destruct args as [|a0 r]; cbn [arg0 bind]; [apply Q_trap|]. specialize (H0 a0 r eq_refl).
    destruct a0; apply Q_ret; try assumption; cbn [no_expref forallb]; rewrite ?andb_true_r; try reflexivity; try exact H0.
  - (* to_number *) destruct args as [|a0 r]; cbn [arg0 bind]; [apply Q_trap|]. destruct a0; try q_leaf.
    apply Q_bind; [apply no_err_noof, from_json_never_out_of_fuel|]. intros [v|] _; [|q_leaf]. destruct (is_number v) eqn:En; [|q_leaf].
    apply Q_ret. destruct v; try discriminate. reflexivity.
  - (* to_string *) destruct args as [|a0 r]; cbn [arg0 bind]; [apply Q_trap|]. destruct a0; try q_leaf;
      (apply Q_bind; [apply no_err_noof, print_json_noof|]; intros t _; q_leaf).
  - (* type *) destruct args as [|a0 r]; cbn [arg0 bind]; [apply Q_trap|]. q_leaf.
  - (* values *) destruct args as [|a0 r]; cbn [arg0 bind]; [apply Q_trap|]. specialize (H0 a0 r eq_refl). destruct a0; try q_leaf.
    apply Q_ret. apply nx_arr. apply nx_obj in H0. apply nxs_of_in. intros x Hx. apply in_map_iff in Hx as (kv & <- & Hin). rewrite Forall_forall in H0. now apply H0.
Qed.

(** the by-functions with their expression reference in place *)
Theorem call_map_Q ev sg e rest off : EV ev e -> nxs rest -> Q (call_builtin ev BMap sg (VExpref e :: rest) off).
Proof.
  intros He Hr. unfold call_builtin. apply Q_bind; [apply validate_noof|]. intros [] _. cbn [arg0 bind].
  destruct rest as [|a1 r]; cbn [arg1 bind]; [apply Q_trap|]. inversion Hr as [|? ? Ha1 _]; subst.
  destruct a1; try apply Q_fab. apply map_loop_Q; [exact He|apply nx_arr; exact Ha1|constructor].
Qed.

Theorem call_by_Q ev b sg a0 e rest off : b = BSortBy \/ b = BMaxBy \/ b = BMinBy -> nx a0 = true -> EV ev e -> nxs rest ->
  Q (call_builtin ev b sg (a0 :: VExpref e :: rest) off).
Proof.
  intros Hb Ha0 He Hr. unfold call_builtin. apply Q_bind; [apply validate_noof|]. intros [] _.
  destruct Hb as [->|[->| ->]].
  - unfold sort_by. cbn [arg0 arg1 bind]. destruct a0 as [| | | |[|v0 vs]| |]; try apply Q_fab; [apply Q_ret; reflexivity|].
    apply nx_arr in Ha0. inversion Ha0 as [|? ? Hv0 Hvs]; subst. destruct (He v0 off Hv0) as [Hn Hok].
    apply Q_bind; [exact Hn|]. intros [first off1] E. destruct (negb (by_type_ok (get_type first))); [apply Q_err|].
    destruct (sort_by_keys_Q ev e (get_type first) He vs 1 [(v0, first)] off1 Hvs ltac:(constructor; [exact Hv0|constructor])) as [Hn2 Hp].
    apply Q_bind; [exact Hn2|]. intros [pairs off2] E2. apply Q_ret. apply nx_arr. apply nxs_of_in. intros x Hx.
    apply in_map_iff in Hx as (p & <- & Hin). specialize (Hp pairs off2 E2). rewrite Forall_forall in Hp. apply Hp. eapply stable_sort_in; eauto.
  - unfold min_and_max_by. cbn [arg0 arg1 bind]. destruct a0 as [| | | |[|v0 vs]| |]; try apply Q_fab; [apply Q_ret; reflexivity|].
    apply nx_arr in Ha0. inversion Ha0 as [|? ? Hv0 Hvs]; subst. destruct (He v0 off Hv0) as [Hn Hok].
    apply Q_bind; [exact Hn|]. intros [initial off1] E. destruct (negb (by_type_ok (get_type initial))); [apply Q_err|]. apply by_loop_Q; assumption.
  - unfold min_and_max_by. cbn [arg0 arg1 bind]. destruct a0 as [| | | |[|v0 vs]| |]; try apply Q_fab; [apply Q_ret; reflexivity|].
    apply nx_arr in Ha0. inversion Ha0 as [|? ? Hv0 Hvs]; subst. destruct (He v0 off Hv0) as [Hn Hok].
    apply Q_bind; [exact Hn|]. intros [initial off1] E. destruct (negb (by_type_ok (get_type initial))); [apply Q_err|]. apply by_loop_Q; assumption.
Qed.

(* ---------- expressions whose expression references sit where they have a meaning ---------- *)
Inductive bykind := ByFirst | BySecond | NotBy.
Definition n_map : str := [109;97;112].
Definition n_sort_by : str := [115;111;114;116;95;98;121].
Definition n_max_by : str := [109;97;120;95;98;121].
Definition n_min_by : str := [109;105;110;95;98;121].
Definition by_kind (name : str) : bykind :=
  if str_eqb name n_map then ByFirst
  else if str_eqb name n_sort_by || str_eqb name n_max_by || str_eqb name n_min_by then BySecond
  else NotBy.

(** [disc a]: an expression reference occurs only as the first argument of map
    or the second of sort_by / max_by / min_by; literals are JSON values *)
Fixpoint disc (a : ast) : bool :=
  match a with
  | AExpref _ => false
  | ALiteral v => nx v
  | AIdentity | AField _ | AIndex _ | ASlice _ _ _ _ => true
  | AComparison _ l r | ACondition l r | AProjection l r | AAnd l r | AOr l r | ASubexpr l r => disc l && disc r
  | AFlatten x | ANot x | AObjectValues x => disc x
  | AMultiList es => (fix all (es : list ast) : bool := match es with [] => true | x :: r => disc x && all r end) es
  | AMultiHash kvs => (fix all (kvs : list (str * ast)) : bool := match kvs with [] => true | (_, x) :: r => disc x && all r end) kvs
  | AFunction _ name args =>
      let all := fix all (es : list ast) : bool := match es with [] => true | x :: r => disc x && all r end in
      match by_kind name, args with
      | ByFirst, AExpref b :: r => disc b && all r
      | BySecond, x0 :: AExpref b :: r => disc x0 && disc b && all r
      | _, _ => all args
      end
  end.

Fixpoint hgt (a : ast) : nat :=
  match a with
  | AIdentity | AField _ | AIndex _ | ASlice _ _ _ _ | ALiteral _ => 1%nat
  | AComparison _ l r | ACondition l r | AProjection l r | AAnd l r | AOr l r | ASubexpr l r => S (Nat.max (hgt l) (hgt r))
  | AExpref x | AFlatten x | ANot x | AObjectValues x => S (hgt x)
  | AMultiList es | AFunction _ _ es => S ((fix mx (es : list ast) : nat := match es with [] => 0%nat | x :: r => Nat.max (hgt x) (mx r) end) es)
  | AMultiHash kvs => S ((fix mx (kvs : list (str * ast)) : nat := match kvs with [] => 0%nat | (_, x) :: r => Nat.max (hgt x) (mx r) end) kvs)
  end.

Definition hgts (es : list ast) : nat := (fix mx (es : list ast) : nat := match es with [] => 0%nat | x :: r => Nat.max (hgt x) (mx r) end) es.
Definition discs (es : list ast) : bool := (fix all (es : list ast) : bool := match es with [] => true | x :: r => disc x && all r end) es.
Definition toks_ok (es : list ast) : bool := forallb tree_ok es.

Lemma hgts_cons x r : hgts (x :: r) = Nat.max (hgt x) (hgts r). Proof. reflexivity. Qed.
Lemma discs_cons x r : discs (x :: r) = disc x && discs r. Proof. reflexivity. Qed.

(* ---------- the loops of the interpreter ---------- *)
Lemma eval_list_acc evd es : forall acc o, eval_list evd es acc o = let* (vs, o') := eval_list evd es [] o in Ok (rev acc ++ vs, o').
Proof.
  induction es as [|e es IH]; intros acc o; cbn [eval_list].
  - cbn [bind rev app]. now rewrite app_nil_r.
  - destruct (evd e o) as [[v o']|?| | |]; cbn [bind]; try reflexivity. rewrite IH, (IH [v]).
    destruct (eval_list evd es [] o') as [[vs o'']|?| | |]; cbn [bind]; try reflexivity. cbn [rev]. now rewrite <- !app_assoc.
Qed.

Lemma eval_list_Q evd es : (forall e o, In e es -> Q (evd e o)) -> forall acc o, nxs acc ->
  eval_list evd es acc o <> OOF /\ forall vs o', eval_list evd es acc o = Ok (vs, o') -> nxs vs.
Proof.
  induction es as [|e es IH]; intros He acc o Hacc; cbn [eval_list].
  - split; [discriminate|]. intros vs o' E. injection E as <- _. unfold nxs in *. now apply Forall_rev.
  - destruct (He e o (or_introl eq_refl)) as [Hn Hok].
    destruct (evd e o) as [[v o1]|?| | |]; cbn [bind]; try (split; [discriminate|intros; discriminate]); [|contradiction].
    apply IH; [intros e' o' Hin; apply He; right; exact Hin|]. constructor; [exact (Hok v o1 eq_refl)|exact Hacc].
Qed.

Lemma eval_kvs_Q evd (kvs : list (str * ast)) : (forall k e o, In (k, e) kvs -> Q (evd e o)) -> forall acc o,
  Forall (fun kv : str * value => nx (snd kv) = true) acc ->
  eval_kvs evd kvs acc o <> OOF /\ forall m o', eval_kvs evd kvs acc o = Ok (m, o') -> Forall (fun kv : str * value => nx (snd kv) = true) m.
Proof.
  induction kvs as [|[k e] kvs IH]; intros He acc o Hacc; cbn [eval_kvs].
  - split; [discriminate|]. intros m o' E. injection E as <- _. exact Hacc.
  - destruct (He k e o (or_introl eq_refl)) as [Hn Hok].
    destruct (evd e o) as [[v o1]|?| | |]; cbn [bind]; try (split; [discriminate|intros; discriminate]); [|contradiction].
    apply IH; [intros k' e' o' Hin; apply (He k'); right; exact Hin|]. apply obj_insert_nx; [exact Hacc|exact (Hok v o1 eq_refl)].
Qed.

Lemma proj_loop_Q ev1 : (forall e o, nx e = true -> Q (ev1 e o)) -> forall es acc o, nxs es -> nxs acc -> Q (proj_loop ev1 es acc o).
Proof.
  intros He. induction es as [|e es IH]; intros acc o Hes Hacc; cbn [proj_loop].
  - apply Q_ok. apply nx_arr. unfold nxs in *. now apply Forall_rev.
  - inversion Hes as [|? ? He0 Hes']; subst. destruct (He e o He0) as [Hn Hok]. apply Q_bind; [exact Hn|]. intros [cur o'] E.
    destruct (is_null cur); apply IH; try assumption. constructor; [exact (Hok cur o' E)|exact Hacc].
Qed.

Lemma flat_map_nx a : nxs a -> nxs (flat_map (fun e => match e with VArr inner => inner | _ => [e] end) a).
Proof.
  induction 1 as [|x a Hx Ha IH]; cbn [flat_map]; [constructor|]. unfold nxs. apply Forall_app. split; [|exact IH].
  destruct x; try (constructor; [exact Hx|constructor]). apply nx_arr. exact Hx.
Qed.

Lemma get_negative_index_Q d i o : nx d = true -> Q (let* v := get_negative_index d i in Ok (v, o)).
Proof.
  intros Hd. unfold get_negative_index. destruct d; try (apply Q_ok; reflexivity).
  destruct (zlen l >=? Z.max i 1); [|apply Q_ok; reflexivity].
  destruct (index_z l (zlen l - Z.max i 1)) eqn:E; cbn [bind]; [|apply Q_trap]. apply Q_ok. eapply index_z_nx; [apply nx_arr; exact Hd|exact E].
Qed.

(* ---------- the registry read from the source on this run ---------- *)
Lemma rt_map : exists sg, rt_get default_runtime n_map = Some (FBuiltin BMap sg).
Proof. vm_compute. eexists. reflexivity. Qed.
Lemma rt_sort_by : exists sg, rt_get default_runtime n_sort_by = Some (FBuiltin BSortBy sg).
Proof. vm_compute. eexists. reflexivity. Qed.
Lemma rt_max_by : exists sg, rt_get default_runtime n_max_by = Some (FBuiltin BMaxBy sg).
Proof. vm_compute. eexists. reflexivity. Qed.
Lemma rt_min_by : exists sg, rt_get default_runtime n_min_by = Some (FBuiltin BMinBy sg).
Proof. vm_compute. eexists. reflexivity. Qed.

Lemma call_impl_Q_json ev fi args off : nxs args -> Q (call_impl ev fi args off).
Proof.
  intros Hargs. destruct fi as [b sg|id sg]; cbn [call_impl]; [now apply call_builtin_Q_json|].
  apply Q_bind; [destruct sg; [apply validate_noof|discriminate]|]. intros [] _. apply Q_ret. cbn [no_expref forallb]. rewrite andb_true_r.
  apply nxs_forallb. exact Hargs.
Qed.

Lemma discs_in es : discs es = true -> forall e, In e es -> disc e = true.
Proof. induction es as [|x r IH]; intros H e Hin; [destruct Hin|]. rewrite discs_cons in H. apply andb_true_iff in H as [H1 H2]. destruct Hin as [<-|Hin]; auto. Qed.
Lemma hgts_in es e : In e es -> (hgt e <= hgts es)%nat.
Proof. induction es as [|x r IH]; intros Hin; [destruct Hin|]. rewrite hgts_cons. destruct Hin as [<-|Hin]; [lia|]. specialize (IH Hin). lia. Qed.
Lemma toks_in es : forallb tree_ok es = true -> forall e, In e es -> tree_ok e = true.
Proof. intros H e Hin. rewrite forallb_forall in H. now apply H. Qed.

Definition term_at (n : nat) : Prop := forall a d o, disc a = true -> tree_ok a = true -> nx d = true -> (hgt a <= n)%nat -> Q (interp n default_runtime d a o).

Lemma args_Q f d es : term_at f -> discs es = true -> forallb tree_ok es = true -> nx d = true -> (hgts es <= f)%nat ->
  forall acc o, nxs acc -> eval_list (fun e o => interp f default_runtime d e o) es acc o <> OOF /\
                forall vs o', eval_list (fun e o => interp f default_runtime d e o) es acc o = Ok (vs, o') -> nxs vs.
Proof.
  intros IH Hd Ht Hdoc Hh. apply eval_list_Q. intros e o Hin. apply IH; [now apply (discs_in es)|now apply (toks_in es)|exact Hdoc|].
  pose proof (hgts_in es e Hin). lia.
Qed.

Lemma finish_call f name fn_args foff co : nxs fn_args ->
  Q (match rt_get default_runtime name with
     | Some fi => let* (v, _) := call_impl (interp f default_runtime) fi fn_args foff in Ok (v, co)
     | None => Err (ERuntime (KUnknownFunction name) foff)
     end).
Proof.
  intros H. destruct (rt_get default_runtime name) as [fi|]; [|apply Q_err]. destruct (call_impl_Q_json (interp f default_runtime) fi fn_args foff H) as [Hn Hok].
  apply Q_bind; [exact Hn|]. intros [v o1] E. apply Q_ok. exact (Hok v o1 E).
Qed.

Lemma by_kind_first name : by_kind name = ByFirst -> name = n_map.
Proof. unfold by_kind. destruct (str_eqb name n_map) eqn:E; [intros _; now apply str_eqb_eq|]. destruct (_ || _); discriminate. Qed.
Lemma by_kind_second name : by_kind name = BySecond -> name = n_sort_by \/ name = n_max_by \/ name = n_min_by.
Proof.
  unfold by_kind. destruct (str_eqb name n_map); [discriminate|].
  destruct (str_eqb name n_sort_by) eqn:E1; [intros _; left; now apply str_eqb_eq|].
  destruct (str_eqb name n_max_by) eqn:E2; [intros _; right; left; now apply str_eqb_eq|].
  destruct (str_eqb name n_min_by) eqn:E3; [intros _; right; right; now apply str_eqb_eq|]. discriminate.
Qed.

Theorem interp_terminates : forall n, term_at n.
Proof.
  induction n as [|f IH]; intros a d o Hd Ht Hdoc Hh; [destruct a; cbn in Hh; lia|].
  assert (IHq : forall x d' o', disc x = true -> tree_ok x = true -> nx d' = true -> (hgt x <= f)%nat -> Q (interp f default_runtime d' x o')) by (intros; now apply IH).
  destruct a; cbn [disc tree_ok hgt] in Hd, Ht, Hh; cbn [interp];
    try (apply andb_true_iff in Hd as [Hd1 Hd2]); try (apply andb_true_iff in Ht as [Ht1 Ht2]).
  - (* comparison *)
    destruct (IHq a1 d o Hd1 Ht1 Hdoc ltac:(lia)) as [Hn Hok]. apply Q_bind; [exact Hn|]. intros [lv o1] E.
    destruct (IHq a2 d o1 Hd2 Ht2 Hdoc ltac:(lia)) as [Hn2 Hok2]. apply Q_bind; [exact Hn2|]. intros [rv o2] E2.
    apply Q_ok. destruct (compare_values c lv rv) as [[]|]; reflexivity.
  - (* condition *)
    destruct (IHq a1 d o Hd1 Ht1 Hdoc ltac:(lia)) as [Hn Hok]. apply Q_bind; [exact Hn|]. intros [cv o1] E.
    destruct (is_truthy cv); [apply IHq; auto; lia|apply Q_ok; reflexivity].
  - (* identity *) apply Q_ok. exact Hdoc.
  - (* expref: excluded *) discriminate Hd.
  - (* flatten *)
    destruct (IHq a d o Hd Ht Hdoc ltac:(lia)) as [Hn Hok]. apply Q_bind; [exact Hn|]. intros [v o1] E. specialize (Hok v o1 E).
    destruct v; try (apply Q_ok; reflexivity). apply Q_ok. apply nx_arr. apply flat_map_nx. apply nx_arr. exact Hok.
  - (* function *)
    fold (discs args) in Hd. fold (hgts args) in Hh.
    pose (evd := fun e o0 => interp f default_runtime d e o0).
    assert (Hplain : discs args = true -> Q (let* (fn_args, caller_offset) := eval_list (fun e o0 => interp f default_runtime d e o0) args [] o in
                       match rt_get default_runtime name with
                       | Some fi => let* (v, _) := call_impl (interp f default_runtime) fi fn_args off in Ok (v, caller_offset)
                       | None => Err (ERuntime (KUnknownFunction name) off)
                       end)).
    { intros Hds. destruct (args_Q f d args IH Hds Ht Hdoc ltac:(lia) [] o ltac:(constructor)) as [Hn Hok].
      apply Q_bind; [exact Hn|]. intros [fn_args co] E. apply finish_call. exact (Hok fn_args co E). }
    destruct (by_kind name) eqn:Ek.
    + (* map *)
      destruct args as [|x0 r]; [apply Hplain; exact Hd|]. destruct x0; try (apply Hplain; exact Hd).
      apply andb_true_iff in Hd as [Hdb Hdr]. cbn [forallb tree_ok] in Ht. apply andb_true_iff in Ht as [Htb Htr]. rewrite hgts_cons in Hh. cbn [hgt] in Hh.
      clear evd. destruct f as [|f']; [lia|]. pose (evd := fun e o0 => interp (S f') default_runtime d e o0).
      cbn [eval_list]. cbn beta. change (interp (S f') default_runtime d (AExpref x0) o) with (@Ok (value * Z) (VExpref x0, o)). cbn [bind].
      rewrite eval_list_acc. fold evd. fold (discs r) in Hdr.
      destruct (args_Q (S f') d r IH Hdr Htr Hdoc ltac:(lia) [] o ltac:(constructor)) as [Hn Hok]. fold evd in Hn, Hok.
      apply Q_bind; [intros E; destruct (eval_list evd r [] o) as [[? ?]|?| | |]; cbn [bind] in E; try discriminate; contradiction|].
      intros [fn_args co] E. destruct (eval_list evd r [] o) as [[vs o']|?| | |] eqn:Er; cbn [bind] in E; try discriminate. injection E as <- <-. cbn [rev app].
      apply by_kind_first in Ek. subst name. destruct rt_map as [sg ->].
      assert (Hev : EV (interp (S f') default_runtime) x0) by (intros v o1 Hv; apply IHq; auto; lia).
      destruct (call_map_Q (interp (S f') default_runtime) sg x0 vs off Hev (Hok vs o' eq_refl)) as [Hn2 Hok2].
      cbn [call_impl]. apply Q_bind; [exact Hn2|]. intros [v o1] E. apply Q_ok. exact (Hok2 v o1 E).
    + (* sort_by / max_by / min_by *)
      destruct args as [|x0 [|x1 r]]; try (apply Hplain; exact Hd). destruct x1; try (apply Hplain; exact Hd).
      apply andb_true_iff in Hd as [Hd Hdr]. apply andb_true_iff in Hd as [Hd0 Hdb].
      cbn [forallb tree_ok] in Ht. apply andb_true_iff in Ht as [Ht0 Ht]. apply andb_true_iff in Ht as [Htb Htr].
      rewrite !hgts_cons in Hh. cbn [hgt] in Hh. fold (discs r) in Hdr.
      clear evd. destruct f as [|f']; [lia|]. pose (evd := fun e o0 => interp (S f') default_runtime d e o0). cbn [eval_list]. cbn beta.
      destruct (IHq x0 d o Hd0 Ht0 Hdoc ltac:(lia)) as [Hn0 Hok0].
      destruct (interp (S f') default_runtime d x0 o) as [[v0 o0]|e0| | |] eqn:E0; cbn [bind]; [|apply Q_err|apply Q_trap|exfalso; apply Hn0; reflexivity|apply Q_unm].
      specialize (Hok0 v0 o0 eq_refl).
      change (interp (S f') default_runtime d (AExpref x1) o0) with (@Ok (value * Z) (VExpref x1, o0)). cbn [bind].
      rewrite eval_list_acc. fold evd.
      destruct (args_Q (S f') d r IH Hdr Htr Hdoc ltac:(lia) [] o0 ltac:(constructor)) as [Hn Hok]. fold evd in Hn, Hok.
      apply Q_bind; [intros E; destruct (eval_list evd r [] o0) as [[? ?]|?| | |]; cbn [bind] in E; try discriminate; contradiction|].
      intros [fn_args co] E. destruct (eval_list evd r [] o0) as [[vs o']|?| | |] eqn:Er; cbn [bind] in E; try discriminate. injection E as <- <-. cbn [rev app].
      assert (Hev : EV (interp (S f') default_runtime) x1) by (intros v o1 Hv; apply IHq; auto; lia).
      apply by_kind_second in Ek.
      assert (Hcall : exists b sg, rt_get default_runtime name = Some (FBuiltin b sg) /\ (b = BSortBy \/ b = BMaxBy \/ b = BMinBy)).
      { destruct Ek as [->|[->| ->]]; [destruct rt_sort_by as [sg E]|destruct rt_max_by as [sg E]|destruct rt_min_by as [sg E]]; eauto 10. }
      destruct Hcall as (b & sg & -> & Hb).
      destruct (call_by_Q (interp (S f') default_runtime) b sg v0 x1 vs off Hb Hok0 Hev (Hok vs o' eq_refl)) as [Hn2 Hok2].
      cbn [call_impl]. apply Q_bind; [exact Hn2|]. intros [v o1] E. apply Q_ok. exact (Hok2 v o1 E).
    + apply Hplain. destruct args as [|x0 r]; exact Hd.
  - (* field *) apply Q_ok. now apply get_field_nx.
  - (* index *)
    destruct (i >=? 0); [apply Q_ok; now apply get_index_nx|]. destruct (i =? i32_min); [apply Q_trap|]. now apply get_negative_index_Q.
  - (* literal *) apply Q_ok. exact Hd.
  - (* multi-select list *)
    destruct (is_null d); [apply Q_ok; reflexivity|]. fold (discs es) in Hd. fold (hgts es) in Hh.
    destruct (args_Q f d es IH Hd Ht Hdoc ltac:(lia) [] o ltac:(constructor)) as [Hn Hok].
    apply Q_bind; [exact Hn|]. intros [vs o1] E. apply Q_ok. apply nx_arr. exact (Hok vs o1 E).
  - (* multi-select hash *)
    destruct (is_null d); [apply Q_ok; reflexivity|].
    assert (Hk : forall k e o0, In (k, e) kvs -> Q (interp f default_runtime d e o0)).
    { intros k e o0 Hin. apply IHq; [| |exact Hdoc|].
      - clear -Hd Hin. induction kvs as [|[k' x] r IHr]; [destruct Hin|]. apply andb_true_iff in Hd as [H1 H2]. destruct Hin as [E|Hin]; [injection E as _ <-; exact H1|exact (IHr H2 Hin)].
      - rewrite forallb_forall in Ht. exact (Ht (k, e) Hin).
      - clear -Hh Hin. induction kvs as [|[k' x] r IHr]; [destruct Hin|]. destruct Hin as [E|Hin]; [injection E as _ <-; lia|specialize (IHr ltac:(lia) Hin); lia]. }
    destruct (eval_kvs_Q (fun e o0 => interp f default_runtime d e o0) kvs Hk [] o ltac:(constructor)) as [Hn Hok].
    apply Q_bind; [exact Hn|]. intros [m o1] E. apply Q_ok. apply nx_obj. exact (Hok m o1 E).
  - (* not *)
    destruct (IHq a d o Hd Ht Hdoc ltac:(lia)) as [Hn Hok]. apply Q_bind; [exact Hn|]. intros [v o1] E. apply Q_ok. reflexivity.
  - (* projection *)
    destruct (IHq a1 d o Hd1 Ht1 Hdoc ltac:(lia)) as [Hn Hok]. apply Q_bind; [exact Hn|]. intros [lv o1] E. specialize (Hok lv o1 E).
    destruct lv; try (apply Q_ok; reflexivity). apply proj_loop_Q; [|apply nx_arr; exact Hok|constructor].
    intros e o2 He. apply IHq; auto; lia.
  - (* object values *)
    destruct (IHq a d o Hd Ht Hdoc ltac:(lia)) as [Hn Hok]. apply Q_bind; [exact Hn|]. intros [v o1] E. specialize (Hok v o1 E).
    destruct v; try (apply Q_ok; reflexivity). apply Q_ok. apply nx_arr. apply nx_obj in Hok. apply nxs_of_in. intros x Hx.
    apply in_map_iff in Hx as (kv & <- & Hin). rewrite Forall_forall in Hok. now apply Hok.
  - (* and *)
    destruct (IHq a1 d o Hd1 Ht1 Hdoc ltac:(lia)) as [Hn Hok]. apply Q_bind; [exact Hn|]. intros [lv o1] E.
    destruct (negb (is_truthy lv)); [apply Q_ok; exact (Hok lv o1 E)|apply IHq; auto; lia].
  - (* or *)
    destruct (IHq a1 d o Hd1 Ht1 Hdoc ltac:(lia)) as [Hn Hok]. apply Q_bind; [exact Hn|]. intros [lv o1] E.
    destruct (is_truthy lv); [apply Q_ok; exact (Hok lv o1 E)|apply IHq; auto; lia].
  - (* slice *)
    destruct (step =? 0) eqn:E0; [apply Q_err|]. destruct d; try (apply Q_ok; reflexivity).
    assert (H1 : i32_min <= step) by lia. assert (H2 : step <> 0) by lia.
    apply Q_bind; [apply slice_noof; assumption|]. intros l0 E. apply Q_ok. apply nx_arr. eapply slice_nx; [exact H1|exact H2|apply nx_arr; exact Hdoc|exact E].
  - (* sub-expression *)
    destruct (IHq a1 d o Hd1 Ht1 Hdoc ltac:(lia)) as [Hn Hok]. apply Q_bind; [exact Hn|]. intros [lv o1] E. apply IHq; auto; [exact (Hok lv o1 E)|lia].
Qed.

(** search terminates: on the default runtime, for every disciplined tree, every
    JSON document and any fuel not below the height of the tree, the model's
    evaluation is not out of fuel — and its result is a JSON value. *)
Theorem search_terminates a d n : disc a = true -> tree_ok a = true -> nx d = true -> (hgt a <= n)%nat ->
  search_ast n default_runtime a d <> OOF /\ forall v, search_ast n default_runtime a d = Ok v -> nx v = true.
Proof.
  intros Hd Ht Hdoc Hh. unfold search_ast. destruct (interp_terminates n a d 0 Hd Ht Hdoc Hh) as [Hn Hok].
  destruct (interp n default_runtime d a 0) as [[v o]|?| | |]; cbn [bind]; try (split; [discriminate|intros; discriminate]); [|contradiction].
  split; [discriminate|]. intros v' E. injection E as <-. exact (Hok v o eq_refl).
Qed.
