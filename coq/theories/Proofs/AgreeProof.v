(** C03/C04: the code's parser (model of parser.rs over the table read from the
    code) agrees with the reference parser (over the documented table) on every
    expression of the language, outside the recorded deviation class. *)
From JP Require Import Base Value Lexer Parser Spec.Grammar Spec.Prec Spec.Disamb Spec.TableSpec Gen.Tables
     Proofs.GrammarProof Proofs.CompleteProof Proofs.DisSoundProof Proofs.TableIso.

Theorem code_agrees_with_reference s t : ref_parse s = Ok t ->
  exists tokens c, tokenize s = Ok tokens /\ map snd tokens = flat c ++ [TEof] /\ erase c = t /\ wf c /\
    (nodotlist c -> exists t', parse s = Ok t' /\ unoff t' = unoff t).
Proof.
  intros H. apply ref_parse_sound_dis in H as (tokens & c & Ht & Hf & He & Hw & Hp & Hd).
  exists tokens, c. split; [exact Ht|]. split; [exact Hf|]. split; [exact He|]. split; [exact Hw|]. intros Hn.
  destruct (prec_dis_table_independent spec_lbp spec_stop gen_lbp gen_projection_stop c false TEof spec_table_order gen_table_order Hp Hd) as [Hp' Hd'].
  destruct (code_accepts_the_language s tokens c Ht Hf Hw Hp' Hd' Hn) as (t' & H1 & H2). exists t'. split; [exact H1|]. now rewrite H2, He.
Qed.
