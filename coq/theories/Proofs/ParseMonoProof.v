(** The parser's results do not depend on the fuel once it is enough: a result
    other than out-of-fuel is the result for every larger fuel. *)
From JP Require Import Base Value Lexer Parser.

Section Mono.
  Variables (L : token -> Z) (STOP : Z) (strict : bool).

  Definition stable {A} (small big : res A) : Prop := small <> OOF -> big = small.

  Lemma stable_refl {A} (r : res A) : stable r r. Proof. intros _. reflexivity. Qed.
  Lemma stable_bind {A B} (g g' : res A) (k k' : A -> res B) :
    stable g g' -> (forall a, stable (k a) (k' a)) -> stable (bind g k) (bind g' k').
  Proof.
    intros Hg Hk H. destruct g as [a|e| | |]; cbn [bind] in *; try (rewrite Hg by discriminate; reflexivity).
    - rewrite Hg by discriminate. cbn [bind]. now apply Hk.
    - contradiction.
  Qed.

  Definition all_mono (n m : nat) : Prop :=
    (forall rbp st, stable (expr L STOP strict n rbp st) (expr L STOP strict m rbp st)) /\
    (forall rbp l st, stable (expr_loop L STOP strict n rbp l st) (expr_loop L STOP strict m rbp l st)) /\
    (forall st, stable (nud L STOP strict n st) (nud L STOP strict m st)) /\
    (forall acc st, stable (parse_kvps L STOP strict n acc st) (parse_kvps L STOP strict m acc st)) /\
    (forall st, stable (parse_kvp L STOP strict n st) (parse_kvp L STOP strict m st)) /\
    (forall l st, stable (led L STOP strict n l st) (led L STOP strict m l st)) /\
    (forall l st, stable (parse_filter L STOP strict n l st) (parse_filter L STOP strict m l st)) /\
    (forall l st, stable (parse_flatten L STOP strict n l st) (parse_flatten L STOP strict m l st)) /\
    (forall c l st, stable (parse_comparator L STOP strict n c l st) (parse_comparator L STOP strict m c l st)) /\
    (forall bp st, stable (parse_dot L STOP strict n bp st) (parse_dot L STOP strict m bp st)) /\
    (forall bp st, stable (projection_rhs L STOP strict n bp st) (projection_rhs L STOP strict m bp st)) /\
    (forall l st, stable (parse_wildcard_index L STOP strict n l st) (parse_wildcard_index L STOP strict m l st)) /\
    (forall l st, stable (parse_wildcard_values L STOP strict n l st) (parse_wildcard_values L STOP strict m l st)) /\
    (forall st, stable (parse_index L STOP strict n st) (parse_index L STOP strict m st)) /\
    (forall p0 p1 p2 pos st, stable (index_loop L STOP strict n p0 p1 p2 pos st) (index_loop L STOP strict m p0 p1 p2 pos st)) /\
    (forall st, stable (parse_multi_list L STOP strict n st) (parse_multi_list L STOP strict m st)) /\
    (forall c acc st, stable (parse_list L STOP strict n c acc st) (parse_list L STOP strict m c acc st)).

  Ltac refold :=
    fold (expr L STOP strict); fold (expr_loop L STOP strict); fold (nud L STOP strict); fold (parse_kvps L STOP strict);
    fold (parse_kvp L STOP strict); fold (led L STOP strict); fold (parse_filter L STOP strict); fold (parse_flatten L STOP strict);
    fold (parse_comparator L STOP strict); fold (parse_dot L STOP strict); fold (projection_rhs L STOP strict);
    fold (parse_wildcard_index L STOP strict); fold (parse_wildcard_values L STOP strict); fold (parse_index L STOP strict);
    fold (index_loop L STOP strict); fold (parse_multi_list L STOP strict); fold (parse_list L STOP strict).

  Ltac mono_auto :=
    repeat match goal with
           | |- stable ?x ?x => apply stable_refl
           | H : _ |- stable _ _ => solve [apply H]
           | |- stable (bind _ _) (bind _ _) => apply stable_bind; [|intros]
           | |- stable (if ?b then _ else _) (if ?b then _ else _) => destruct b
           | |- stable (let '(_, _) := ?x in _) (let '(_, _) := ?x in _) => destruct x
           | |- stable (match ?x with _ => _ end) (match ?x with _ => _ end) => destruct x
           end.

  Lemma all_mono_holds : forall n m, (n <= m)%nat -> all_mono n m.
  Proof.
    induction n as [|n IH]; intros m Hle.
    - unfold all_mono. repeat match goal with |- _ /\ _ => split end; intros; intros H; exfalso; apply H; reflexivity.
    - destruct m as [|m]; [inversion Hle|]. apply le_S_n in Hle.
      destruct (IH m Hle) as (H1 & H2 & H3 & H4 & H5 & H6 & H7 & H8 & H9 & H10 & H11 & H12 & H13 & H14 & H15 & H16 & H17).
      unfold all_mono. repeat match goal with |- _ /\ _ => split end; intros.
      + cbn [expr]. refold. mono_auto.
      + cbn [expr_loop]. refold. mono_auto.
      + cbn [nud]. refold. mono_auto.
      + cbn [parse_kvps]. refold. mono_auto.
      + cbn [parse_kvp]. refold. mono_auto.
      + cbn [led]. refold. mono_auto.
      + cbn [parse_filter]. refold. mono_auto.
      + cbn [parse_flatten]. refold. mono_auto.
      + cbn [parse_comparator]. refold. mono_auto.
      + cbn [parse_dot]. refold. mono_auto.
      + cbn [projection_rhs]. refold. mono_auto.
      + cbn [parse_wildcard_index]. refold. mono_auto.
      + cbn [parse_wildcard_values]. refold. mono_auto.
      + cbn [parse_index]. refold. mono_auto.
      + cbn [index_loop]. refold. mono_auto.
      + cbn [parse_multi_list]. refold. mono_auto.
      + cbn [parse_list]. refold. mono_auto.
  Qed.

  (** any larger fuel *)
  Theorem expr_fuel_independent n m rbp st : (n <= m)%nat -> expr L STOP strict n rbp st <> OOF -> expr L STOP strict m rbp st = expr L STOP strict n rbp st.
  Proof. intros Hle. destruct (all_mono_holds n m Hle) as (H1 & _). apply H1. Qed.

  Theorem parse_tokens_fuel_independent n m toks : (n <= m)%nat ->
    parse_tokens L STOP strict n toks <> OOF -> parse_tokens L STOP strict m toks = parse_tokens L STOP strict n toks.
  Proof.
    unfold parse_tokens. intros Hle H. rewrite (expr_fuel_independent n m); [reflexivity|exact Hle|]. intros E. rewrite E in H. apply H. reflexivity.
  Qed.
End Mono.
