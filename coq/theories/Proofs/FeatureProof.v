(** C17: an expression searched against a typed input gives the same outcome whichever
    conversion route the build takes (the generic serde route of every build without
    [specialized], or the specialised impls of lib.rs): the outcome is a function of the
    converted value, and the routes agree on JSON-representable inputs. *)
From Coq Require Import Floats.SpecFloat.
From JP Require Import Base F64 Value Serde Run Proofs.SerdeProof.

(** [Expression::search(input)] in a build with ([special = true]) or without the [specialized] feature:
    [None] when the input cannot be converted (an error before the search starts) *)
Definition search_input (special : bool) (text : str) (i : input) : option (res value) :=
  match (if special then conv_special i else conv_generic i) with
  | SOk d => Some (search_str text d)
  | SErr => None
  end.

Theorem search_input_feature_independent : forall text i, json_representable i = true ->
  search_input true text i = search_input false text i.
Proof. intros text i H. unfold search_input. rewrite (conv_agree i H). reflexivity. Qed.

