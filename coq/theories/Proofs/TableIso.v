(** Two binding-power tables with the documented order compare every pair of
    token kinds alike, so the binding-power conditions ([prec]) and the
    disambiguation conditions ([dis]) on syntax trees do not depend on the
    numbers in the table, only on the documented order. *)
From Coq Require Import ZifyBool.
From JP Require Import Base Value Lexer Spec.Grammar Spec.Prec Spec.Disamb Proofs.CstInd Spec.TableSpec Gen.Tables.

Definition rank (k : tk) : Z :=
  match k with
  | KPipe => 1 | KOr => 2 | KAnd => 3
  | KEq | KNe | KLt | KLte | KGt | KGte => 4
  | KFlatten => 5 | KStar => 6 | KFilter => 7 | KDot => 8 | KNot => 9
  | KLbrace => 10 | KLbracket => 11 | KLparen => 12
  | _ => 0
  end.

Section Iso.
  Variables (T : tk -> Z) (STOP : Z).
  Hypothesis Hord : table_order_ok T STOP = true.

  Lemma order_facts :
    0 < T KPipe /\ T KPipe < T KOr /\ T KOr < T KAnd /\ T KAnd < T KEq /\
    T KEq = T KNe /\ T KEq = T KLt /\ T KEq = T KLte /\ T KEq = T KGt /\ T KEq = T KGte /\
    T KEq < T KFlatten /\ T KFlatten < STOP /\ STOP <= T KStar /\ T KStar < T KFilter /\ T KFilter < T KDot /\ T KDot < T KNot /\
    T KNot < T KLbrace /\ T KLbrace < T KLbracket /\ T KLbracket < T KLparen /\
    T KIdentifier = 0 /\ T KQuotedIdentifier = 0 /\ T KNumber = 0 /\ T KLiteral = 0 /\
    T KRbracket = 0 /\ T KComma = 0 /\ T KColon = 0 /\ T KAt = 0 /\ T KAmpersand = 0 /\ T KRparen = 0 /\ T KRbrace = 0 /\ T KEof = 0.
  Proof.
    unfold table_order_ok in Hord. cbn [forallb] in Hord.
    repeat match type of Hord with (_ && _) = true => apply andb_true_iff in Hord; destruct Hord as [Hord ?] end.
    repeat match goal with H : (_ =? _) = true |- _ => apply Z.eqb_eq in H | H : (_ <? _) = true |- _ => apply Z.ltb_lt in H | H : (_ <=? _) = true |- _ => apply Z.leb_le in H end.
    repeat split; lia.
  Qed.

  (** the table is the increasing enumeration of its thirteen levels *)
  Definition level (i : Z) : Z :=
    match i with
    | 0 => 0 | 1 => T KPipe | 2 => T KOr | 3 => T KAnd | 4 => T KEq | 5 => T KFlatten | 6 => T KStar | 7 => T KFilter
    | 8 => T KDot | 9 => T KNot | 10 => T KLbrace | 11 => T KLbracket | _ => T KLparen
    end.

  Lemma table_is_level k : T k = level (rank k).
  Proof.
    destruct order_facts as (F1 & F2 & F3 & F4 & F5 & F6 & F7 & F8 & F9 & F10 & F11 & F12 & F13 & F14 & F15 & F16 & F17 & F18 & F19 & F20 & F21 & F22 & F23 & F24 & F25 & F26 & F27 & F28 & F29 & F30).
    destruct k; cbn [rank level]; congruence.
  Qed.

  Lemma rank_range k : 0 <= rank k <= 12. Proof. destruct k; cbn [rank]; lia. Qed.

  Lemma level_lt i j : 0 <= i <= 12 -> 0 <= j <= 12 -> (level i < level j <-> i < j).
  Proof.
    destruct order_facts as (F1 & F2 & F3 & F4 & F5 & F6 & F7 & F8 & F9 & F10 & F11 & F12 & F13 & F14 & F15 & F16 & F17 & F18 & _).
    intros Hi Hj.
    assert (Ei : i = 0 \/ i = 1 \/ i = 2 \/ i = 3 \/ i = 4 \/ i = 5 \/ i = 6 \/ i = 7 \/ i = 8 \/ i = 9 \/ i = 10 \/ i = 11 \/ i = 12) by lia.
    assert (Ej : j = 0 \/ j = 1 \/ j = 2 \/ j = 3 \/ j = 4 \/ j = 5 \/ j = 6 \/ j = 7 \/ j = 8 \/ j = 9 \/ j = 10 \/ j = 11 \/ j = 12) by lia.
    clear Hi Hj.
    repeat (destruct Ei as [->|Ei]); try subst i; repeat (destruct Ej as [->|Ej]); try subst j; cbn [level]; lia.
  Qed.

  Lemma table_lt k1 k2 : T k1 < T k2 <-> rank k1 < rank k2.
  Proof. rewrite !table_is_level. apply level_lt; apply rank_range. Qed.
  Lemma table_le k1 k2 : T k1 <= T k2 <-> rank k1 <= rank k2.
  Proof. pose proof (table_lt k2 k1). lia. Qed.
  Lemma table_stop k : T k < STOP <-> rank k <= 5.
  Proof.
    destruct order_facts as (F1 & F2 & F3 & F4 & F5 & F6 & F7 & F8 & F9 & F10 & F11 & F12 & F13 & F14 & F15 & F16 & F17 & F18 & F19 & F20 & F21 & F22 & F23 & F24 & F25 & F26 & F27 & F28 & F29 & F30).
    destruct k; cbn [rank]; lia.
  Qed.
End Iso.

Section Transfer.
  Variables (T1 : tk -> Z) (S1 : Z) (T2 : tk -> Z) (S2 : Z).
  Hypothesis H1 : table_order_ok T1 S1 = true.
  Hypothesis H2 : table_order_ok T2 S2 = true.
  Let L1 := fun t : token => T1 (kind_of t).
  Let L2 := fun t : token => T2 (kind_of t).

  Lemma lt_tr k1 k2 : T1 k1 < T1 k2 -> T2 k1 < T2 k2.
  Proof. rewrite (table_lt T1 S1 H1), (table_lt T2 S2 H2). auto. Qed.
  Lemma le_tr k1 k2 : T1 k1 <= T1 k2 -> T2 k1 <= T2 k2.
  Proof. rewrite (table_le T1 S1 H1), (table_le T2 S2 H2). auto. Qed.
  Lemma stop_tr k : T1 k < S1 -> T2 k < S2.
  Proof. rewrite (table_stop T1 S1 H1), (table_stop T2 S2 H2). auto. Qed.
  Lemma zero1 : T1 KEof = 0. Proof. apply (order_facts T1 S1 H1). Qed.
  Lemma zero2 : T2 KEof = 0. Proof. apply (order_facts T2 S2 H2). Qed.

  Lemma tighter_tr kr c : tighter L1 (T1 kr) c -> tighter L2 (T2 kr) c.
  Proof. unfold tighter. apply Forall_impl. intros t. apply lt_tr. Qed.
  Lemma tighter0_tr c : tighter L1 0 c -> tighter L2 0 c.
  Proof. pose proof (tighter_tr KEof c) as H. rewrite zero1, zero2 in H. exact H. Qed.

  Definition Pin (c : cst) : Prop := inner L1 c -> inner L2 c.
  Definition Qin (k : cont) : Prop := forall kr, innerk L1 (T1 kr) k -> innerk L2 (T2 kr) k.

  Lemma prec0_list es : Forall Pin es -> Forall (prec L1 0) es -> Forall (prec L2 0) es.
  Proof. intros HP H. induction H as [|x r [Hx1 Hx2] Hr IH]; [constructor|]. inversion HP; subst. constructor; [split; [apply tighter0_tr; exact Hx1|auto]|auto]. Qed.

  Lemma args_list (args : list (bool * cst)) : Forall (fun a => Pin (snd a)) args -> Forall (arg_prec L1) args -> Forall (arg_prec L2) args.
  Proof.
    intros HP H. induction H as [|[b x] r [Hx1 Hx2] Hr IH]; [constructor|]. inversion HP; subst. cbn [fst snd] in *. constructor; [|auto].
    unfold arg_prec. cbn [fst snd]. split; [|auto]. destruct b; [apply (tighter_tr KAmpersand); exact Hx1|apply tighter0_tr; exact Hx1].
  Qed.

  Lemma inner_tr : (forall c, Pin c) /\ (forall k, Qin k).
  Proof.
    apply cst_cont_ind; unfold Pin, Qin; intros;
      try (first [progress cbn [inner] in * | cbn [innerk] in *]; cbn [L1 L2 kind_of] in *; try exact I;
           repeat match goal with H : _ /\ _ |- _ => destruct H end;
           repeat split; try assumption;
           first [ match goal with IH : inner _ ?x -> _ |- _ => apply IH; assumption end
                 | apply (tighter_tr KNot); assumption | apply tighter0_tr; assumption | apply (tighter_tr KDot); assumption
                 | apply (tighter_tr KStar); assumption | apply (tighter_tr KFlatten); assumption | apply (tighter_tr KFilter); assumption
                 | apply (tighter_tr KAmpersand); assumption | apply tighter_tr; assumption
                 | match goal with IH : forall kr : tk, _ |- _ => first [apply (IH KStar); assumption | apply (IH KFlatten); assumption | apply (IH KFilter); assumption] end ]; fail).
    - (* list *)
      match goal with Hi : inner _ (CMList e es) |- _ => apply inner_mlist in Hi; destruct Hi as [[He1 He2] Hes] end.
      apply inner_mlist. split; [split; [apply tighter0_tr; exact He1|auto]|]. apply prec0_list; assumption.
    - (* hash *)
      match goal with Hi : inner _ (CMHash _ _) |- _ => apply inner_mhash in Hi; destruct Hi as [[He1 He2] Hes] end.
      apply inner_mhash. split; [split; [apply tighter0_tr; exact He1|auto]|].
      match goal with HP : Forall _ kvs |- _ =>
        clear -HP Hes H1 H2; induction Hes as [|x r [Hx1 Hx2] Hr IH]; [constructor|]; inversion HP; subst; constructor; [split; [apply tighter0_tr; exact Hx1|auto]|auto] end.
    - (* call *)
      match goal with Hi : inner _ (CCall _ _ _) |- _ => apply inner_call in Hi end. apply inner_call. apply args_list; assumption.
    - (* binary *) cbn [inner] in *. repeat match goal with H : _ /\ _ |- _ => destruct H end. repeat split; auto.
      destruct o; cbn [rbp_of] in *; first [apply (tighter_tr KOr); assumption | apply (tighter_tr KAnd); assumption | apply (tighter_tr KPipe); assumption | apply (tighter_tr KEq); assumption].
    - (* call on *)
      match goal with Hi : inner _ (CCallOn _ _ _ _) |- _ => apply inner_callon in Hi; destruct Hi as [Hl Ha] end. apply inner_callon. split; [auto|]. apply args_list; assumption.
  Qed.

  Lemma prec_tr kr c : prec L1 (T1 kr) c -> prec L2 (T2 kr) c.
  Proof. intros [Ht Hi]. split; [apply tighter_tr; exact Ht|apply inner_tr; exact Hi]. Qed.
  Lemma prec0_tr c : prec L1 0 c -> prec L2 0 c.
  Proof. intros [Ht Hi]. split; [apply tighter0_tr; exact Ht|apply inner_tr; exact Hi]. Qed.

  Definition Pd (c : cst) : Prop := forall dp fol, dis L1 S1 dp fol c -> dis L2 S2 dp fol c.
  Definition Qd (k : cont) : Prop := forall kr fol, disk L1 S1 (T1 kr) fol k -> disk L2 S2 (T2 kr) fol k.

  Lemma each_tr {A} (g : A -> cst) close (l : list A) : Forall (fun a => Pd (g a)) l ->
    each (fun r a => dis L1 S1 false (sep close r) (g a)) l -> each (fun r a => dis L2 S2 false (sep close r) (g a)) l.
  Proof. induction 1 as [|a r Ha Hr IH]; cbn [each]; [auto|]. intros [Hx Hy]. split; [apply Ha; exact Hx|apply IH; exact Hy]. Qed.

  Ltac dis_step :=
    first [ assumption
          | match goal with IH : forall (dp : bool) (fol : token), _ |- _ => apply IH; assumption end
          | apply le_tr; assumption
          | apply stop_tr; assumption
          | match goal with IH : forall (kr : tk) (fol : token), _ |- _ => first [apply (IH KStar); assumption | apply (IH KFlatten); assumption | apply (IH KFilter); assumption] end ].

  Lemma dis_tr : (forall c, Pd c) /\ (forall k, Qd k).
  Proof.
    apply cst_cont_ind; unfold Pd, Qd; intros;
      try (first [progress cbn [dis] in * | cbn [disk] in *]; try exact I;
           repeat match goal with H : _ /\ _ |- _ => destruct H end;
           repeat split; dis_step; fail).
    - (* list *)
      match goal with Hd : dis _ _ _ _ (CMList e es) |- _ => apply dis_mlist in Hd; destruct Hd as (Hns & Hde & Hdes) end.
      apply dis_mlist. split; [exact Hns|]. split; [dis_step|]. apply (each_tr (fun x => x)); assumption.
    - (* hash *)
      match goal with Hd : dis _ _ _ _ (CMHash _ _) |- _ => apply dis_mhash in Hd; destruct Hd as (Hde & Hdes) end.
      apply dis_mhash. split; [dis_step|]. apply (each_tr (fun kv : bool * str * cst => snd kv)); assumption.
    - (* call *)
      match goal with Hd : dis _ _ _ _ (CCall _ _ _) |- _ => apply dis_call in Hd end.
      apply dis_call. unfold dis_arg in *. apply (each_tr (fun a : bool * cst => snd a)); assumption.
    - (* binary *) cbn [dis] in *. repeat match goal with H : _ /\ _ |- _ => destruct H end. repeat split; try dis_step.
      destruct o; cbn [rbp_of] in *; apply le_tr; assumption.
    - (* call on *) cbn [dis] in *. repeat match goal with H : _ /\ _ |- _ => destruct H end. split; [dis_step|].
      match goal with HP : Forall _ args, Ha : _ |- _ =>
        clear -HP Ha H1 H2; induction HP as [|[b x] r Hx Hr IH]; [exact I|]; cbn [snd] in *; destruct Ha as [Ha1 Ha2]; split; [apply Hx; exact Ha1|apply IH; exact Ha2] end.
  Qed.
End Transfer.

(** [prec] and [dis] of a tree over the documented table and over any other table with the documented order coincide *)
Theorem prec_dis_table_independent T1 S1 T2 S2 c dp fol :
  table_order_ok T1 S1 = true -> table_order_ok T2 S2 = true ->
  prec (fun t => T1 (kind_of t)) 0 c -> dis (fun t => T1 (kind_of t)) S1 dp fol c ->
  prec (fun t => T2 (kind_of t)) 0 c /\ dis (fun t => T2 (kind_of t)) S2 dp fol c.
Proof.
  intros H1 H2 Hp Hd. split; [exact (prec0_tr T1 S1 T2 S2 H1 H2 c Hp)|]. destruct (dis_tr T1 S1 T2 S2 H1 H2) as [HP _]. exact (HP c dp fol Hd).
Qed.
