(** C11: every compound form is a function of the results of its parts.  The
    equations hold for all trees (function calls included), registries, fuel
    and context offsets. *)
From JP Require Import Base F64 Value Sig Functions Interp Spec.Semantics Proofs.InterpProof.

Section Unfold.
  Variables (n : nat) (rt : registry) (d : value) (o : Z).
  Let ev := interp n rt.

  Lemma subexpr_compose l r :
    interp (S n) rt d (ASubexpr l r) o = let* (v, o1) := ev d l o in ev v r o1.
  Proof. reflexivity. Qed.

  Lemma projection_unfold l r :
    interp (S n) rt d (AProjection l r) o =
      let* (lv, o1) := ev d l o in
      match lv with VArr elems => proj_loop (fun e o' => ev e r o') elems [] o1 | _ => Ok (VNull, o1) end.
  Proof. reflexivity. Qed.

  Lemma flatten_unfold x :
    interp (S n) rt d (AFlatten x) o =
      let* (v, o1) := ev d x o in
      match v with
      | VArr a => Ok (VArr (flat_map (fun e => match e with VArr inner => inner | _ => [e] end) a), o1)
      | _ => Ok (VNull, o1)
      end.
  Proof. reflexivity. Qed.

  Lemma condition_unfold p t :
    interp (S n) rt d (ACondition p t) o =
      let* (c, o1) := ev d p o in if is_truthy c then ev d t o1 else Ok (VNull, o1).
  Proof. reflexivity. Qed.

  Lemma multilist_unfold es :
    interp (S n) rt d (AMultiList es) o =
      if is_null d then Ok (VNull, o)
      else let* (vs, o1) := eval_list (fun e o' => ev d e o') es [] o in Ok (VArr vs, o1).
  Proof. reflexivity. Qed.

  Lemma multihash_unfold kvs :
    interp (S n) rt d (AMultiHash kvs) o =
      if is_null d then Ok (VNull, o)
      else let* (m, o1) := eval_kvs (fun e o' => ev d e o') kvs [] o in Ok (VObj m, o1).
  Proof. reflexivity. Qed.

  Lemma not_unfold x :
    interp (S n) rt d (ANot x) o = let* (v, o1) := ev d x o in Ok (VBool (negb (is_truthy v)), o1).
  Proof. reflexivity. Qed.

  Lemma and_unfold l r :
    interp (S n) rt d (AAnd l r) o =
      let* (lv, o1) := ev d l o in if negb (is_truthy lv) then Ok (lv, o1) else ev d r o1.
  Proof. reflexivity. Qed.

  Lemma or_unfold l r :
    interp (S n) rt d (AOr l r) o =
      let* (lv, o1) := ev d l o in if is_truthy lv then Ok (lv, o1) else ev d r o1.
  Proof. reflexivity. Qed.
End Unfold.

(** The three loops are [map]s of the element evaluator, in order. [steps]
    relates the elements to their results while threading the context offset. *)
Inductive steps {A} (ev1 : A -> Z -> res (value * Z)) : list A -> Z -> list value -> Z -> Prop :=
| steps_nil o : steps ev1 [] o [] o
| steps_cons x xs o v o1 vs o2 : ev1 x o = Ok (v, o1) -> steps ev1 xs o1 vs o2 -> steps ev1 (x :: xs) o (v :: vs) o2.

Lemma proj_loop_steps ev1 es o vs o' : steps ev1 es o vs o' ->
  forall acc, proj_loop ev1 es acc o = Ok (VArr (rev acc ++ filter non_null vs), o').
Proof.
  induction 1 as [o|x xs o v o1 vs o2 Hx Hs IH]; intros acc; cbn [proj_loop].
  - cbn. now rewrite app_nil_r.
  - rewrite Hx. cbn. rewrite is_null_non_null. destruct (non_null v) eqn:E; cbn [negb filter]; rewrite ?E.
    + rewrite IH. cbn [rev]. now rewrite <- app_assoc.
    + now rewrite IH.
Qed.

Lemma proj_loop_pointwise ev1 es o vs o' : steps ev1 es o vs o' ->
  proj_loop ev1 es [] o = Ok (VArr (filter non_null vs), o').
Proof. intros H. now rewrite (proj_loop_steps _ _ _ _ _ H []). Qed.

Lemma proj_loop_first_error ev1 es1 x es2 o vs o1 r :
  steps ev1 es1 o vs o1 -> ev1 x o1 = r -> (forall p, r <> Ok p) ->
  forall acc, exists r', proj_loop ev1 (es1 ++ x :: es2) acc o = r' /\ (forall p, r' <> Ok p).
Proof.
  induction 1 as [o|y ys o v o1' vs o2 Hy Hs IH]; intros Hx Hr acc; cbn [app proj_loop].
  - rewrite Hx. destruct r; try (eexists; split; [reflexivity|intros p; discriminate]).
    exfalso. eapply Hr; reflexivity.
  - rewrite Hy. cbn. destruct (is_null v); apply IH; assumption.
Qed.

Lemma eval_list_steps evd es o vs o' : steps evd es o vs o' ->
  forall acc, eval_list evd es acc o = Ok (rev acc ++ vs, o').
Proof.
  induction 1 as [o|x xs o v o1 vs o2 Hx Hs IH]; intros acc; cbn [eval_list].
  - now rewrite app_nil_r.
  - rewrite Hx. cbn. rewrite IH. cbn [rev]. now rewrite <- app_assoc.
Qed.

Lemma eval_list_tuple evd es o vs o' : steps evd es o vs o' -> eval_list evd es [] o = Ok (vs, o').
Proof. intros H. now rewrite (eval_list_steps _ _ _ _ _ H []). Qed.

Lemma eval_kvs_record evd (kvs : list (str * ast)) o vs o' :
  steps (fun kv o => evd (snd kv) o) kvs o vs o' ->
  forall acc, eval_kvs evd kvs acc o =
    Ok (fold_left (fun m kv => obj_insert m (fst kv) (snd kv)) (combine (map fst kvs) vs) acc, o').
Proof.
  induction 1 as [o|[k e] xs o v o1 vs o2 Hx Hs IH]; intros acc; cbn [eval_kvs].
  - reflexivity.
  - cbn [snd] in Hx. rewrite Hx. cbn. now rewrite IH.
Qed.

(** Truth tables of [!], [&&], [||] on the operands' individual results. *)
Lemma not_table n rt d x o v o1 : interp n rt d x o = Ok (v, o1) ->
  interp (S n) rt d (ANot x) o = Ok (VBool (negb (is_truthy v)), o1).
Proof. intros H. cbn [interp]. now rewrite H. Qed.

Lemma and_table n rt d l r o lv o1 : interp n rt d l o = Ok (lv, o1) ->
  interp (S n) rt d (AAnd l r) o = if is_truthy lv then interp n rt d r o1 else Ok (lv, o1).
Proof. intros H. cbn [interp]. rewrite H. cbn. destruct (is_truthy lv); reflexivity. Qed.

Lemma or_table n rt d l r o lv o1 : interp n rt d l o = Ok (lv, o1) ->
  interp (S n) rt d (AOr l r) o = if is_truthy lv then Ok (lv, o1) else interp n rt d r o1.
Proof. intros H. cbn [interp]. rewrite H. reflexivity. Qed.

Lemma pipe_compose n rt d l r o v o1 : interp n rt d l o = Ok (v, o1) ->
  interp (S n) rt d (ASubexpr l r) o = interp n rt v r o1.
Proof. intros H. cbn [interp]. now rewrite H. Qed.

Lemma projection_pointwise_interp n rt d l r o elems o1 vs o2 :
  interp n rt d l o = Ok (VArr elems, o1) ->
  steps (fun e o' => interp n rt e r o') elems o1 vs o2 ->
  interp (S n) rt d (AProjection l r) o = Ok (VArr (filter non_null vs), o2).
Proof. intros H1 H2. cbn [interp]. rewrite H1. cbn. now apply proj_loop_pointwise. Qed.

Lemma filter_pointwise n rt d l p t o elems o1 vs o2 :
  interp n rt d l o = Ok (VArr elems, o1) ->
  steps (fun e o' => interp n rt e (ACondition p t) o') elems o1 vs o2 ->
  interp (S n) rt d (AProjection l (ACondition p t)) o = Ok (VArr (filter non_null vs), o2).
Proof. apply projection_pointwise_interp. Qed.

Lemma condition_keeps_truthy n rt e p t o c o1 : interp n rt e p o = Ok (c, o1) ->
  interp (S n) rt e (ACondition p t) o = if is_truthy c then interp n rt e t o1 else Ok (VNull, o1).
Proof. intros H. cbn [interp]. now rewrite H. Qed.

Lemma multilist_tuple n rt d es o vs o1 : is_null d = false ->
  steps (fun e o' => interp n rt d e o') es o vs o1 ->
  interp (S n) rt d (AMultiList es) o = Ok (VArr vs, o1).
Proof. intros Hd H. cbn [interp]. rewrite Hd. now rewrite (eval_list_tuple _ _ _ _ _ H). Qed.

Lemma multihash_record n rt d (kvs : list (str * ast)) o vs o1 : is_null d = false ->
  steps (fun kv o' => interp n rt d (snd kv) o') kvs o vs o1 ->
  interp (S n) rt d (AMultiHash kvs) o = Ok (record (combine (map fst kvs) vs), o1).
Proof.
  intros Hd H. cbn [interp]. rewrite Hd.
  rewrite (eval_kvs_record (fun e o' => interp n rt d e o') kvs o vs o1 H []). reflexivity.
Qed.
