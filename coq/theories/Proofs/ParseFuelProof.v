(** C05: the parser's fuel is enough.  Termination measure: 24 * (tokens left)
    + a rank per function (callees on the same input have smaller rank; every
    loop iteration and every nesting level consumes a token). *)
From JP Require Import Base Value Lexer Parser Proofs.FuelProof.

Definition toks_left (st : pst) : nat := length (pq st).

Lemma adv_spec st :
  (toks_left (snd (advance_with_pos st)) <= toks_left st)%nat /\
  (peek st 0 <> TEof -> (toks_left (snd (advance_with_pos st)) + 1 = toks_left st)%nat) /\
  snd (fst (advance_with_pos st)) = peek st 0.
Proof.
  unfold advance_with_pos, peek, toks_left. destruct st as [q o]. cbn [pq poff].
  destruct q as [|[p t] q]; cbn; repeat split; try lia. intros H. contradiction.
Qed.

Lemma tok_is_rbracket_true t : tok_is_rbracket t = true -> t = TRbracket. Proof. destruct t; cbn; congruence. Qed.
Lemma tok_is_rparen_true t : tok_is_rparen t = true -> t = TRparen. Proof. destruct t; cbn; congruence. Qed.
Lemma tok_is_comma_true t : tok_is_comma t = true -> t = TComma. Proof. destruct t; cbn; congruence. Qed.
Lemma tok_is_colon_true t : tok_is_colon t = true -> t = TColon. Proof. destruct t; cbn; congruence. Qed.
Lemma tok_is_star_true t : tok_is_star t = true -> t = TStar. Proof. destruct t; cbn; congruence. Qed.

Section ParserFuel.
  Variables (L : token -> Z) (STOP : Z) (strict : bool).

  (** result states have at most [n - d] tokens left *)
  Definition left_le {A} (n d : nat) : A * pst -> Prop := fun x => (toks_left (snd x) + d <= n)%nat.

  Notation need r st := (24 * toks_left st + r + 1)%nat.

  Definition all_fuel (f : nat) : Prop :=
    (forall rbp st, (need 2 st <= f)%nat -> wp (expr L STOP strict f rbp st) (left_le (toks_left st) 1)) /\
    (forall rbp l st, (need 1 st <= f)%nat -> wp (expr_loop L STOP strict f rbp l st) (left_le (toks_left st) 0)) /\
    (forall st, (need 0 st <= f)%nat -> wp (nud L STOP strict f st) (left_le (toks_left st) 1)) /\
    (forall acc st, (need 1 st <= f)%nat -> wp (parse_kvps L STOP strict f acc st) (left_le (toks_left st) 0)) /\
    (forall st, (need 0 st <= f)%nat -> wp (parse_kvp L STOP strict f st) (left_le (toks_left st) 0)) /\
    (forall l st, (need 0 st <= f)%nat -> wp (led L STOP strict f l st) (left_le (toks_left st) 1)) /\
    (forall l st, (need 3 st <= f)%nat -> wp (parse_filter L STOP strict f l st) (left_le (toks_left st) 0)) /\
    (forall l st, (need 5 st <= f)%nat -> wp (parse_flatten L STOP strict f l st) (left_le (toks_left st) 0)) /\
    (forall c l st, (need 3 st <= f)%nat -> wp (parse_comparator L STOP strict f c l st) (left_le (toks_left st) 0)) /\
    (forall bp st, (need 3 st <= f)%nat -> wp (parse_dot L STOP strict f bp st) (left_le (toks_left st) 0)) /\
    (forall bp st, (need 4 st <= f)%nat -> wp (projection_rhs L STOP strict f bp st) (left_le (toks_left st) 0)) /\
    (forall l st, (need 0 st <= f)%nat -> wp (parse_wildcard_index L STOP strict f l st) (left_le (toks_left st) 0)) /\
    (forall l st, (need 5 st <= f)%nat -> wp (parse_wildcard_values L STOP strict f l st) (left_le (toks_left st) 0)) /\
    (forall st, (need 1 st <= f)%nat -> wp (parse_index L STOP strict f st) (left_le (toks_left st) 0)) /\
    (forall p0 p1 p2 pos st, (need 0 st <= f)%nat -> wp (index_loop L STOP strict f p0 p1 p2 pos st) (left_le (toks_left st) 1)) /\
    (forall st, (need 4 st <= f)%nat -> wp (parse_multi_list L STOP strict f st) (left_le (toks_left st) 0)) /\
    (forall c acc st, (need 3 st <= f)%nat -> wp (parse_list L STOP strict f c acc st) (left_le (toks_left st) 0)).

  Lemma wp_perr {A} st b (Q : A -> Prop) : wp (perr st b) Q.
  Proof. unfold perr. apply wp_err. Qed.

  (** arithmetic at the leaves: token-consumption facts of every [advance] on the path *)
  Ltac facts :=
    repeat match goal with
           | H : tok_is_star _ = true |- _ => apply tok_is_star_true in H
           | H : tok_is_colon _ = true |- _ => apply tok_is_colon_true in H
           | H : tok_is_comma _ = true |- _ => apply tok_is_comma_true in H
           | H : tok_is_rbracket _ = true |- _ => apply tok_is_rbracket_true in H
           | H : tok_is_rparen _ = true |- _ => apply tok_is_rparen_true in H
           end;
    repeat match goal with
           | E : peek ?st 0 = _, H : peek ?st 0 <> TEof -> _ |- _ => rewrite E in H
           end;
    repeat match goal with
           | H : _ <> TEof -> _ |- _ => first [specialize (H ltac:(discriminate)) | clear H]
           end;
    unfold left_le in *; cbn [snd fst] in *.
  Ltac fin := facts; lia.

  Ltac adv :=
    match goal with
    | |- context [match advance_with_pos ?st with _ => _ end] =>
        let H1 := fresh "Ha" in let H2 := fresh "Hb" in let H3 := fresh "Hc" in
        destruct (adv_spec st) as (H1 & H2 & H3);
        destruct (advance_with_pos st) as [[? ?] ?]; cbn [fst snd] in H1, H2, H3; subst
    end.

  Ltac call H :=
    apply wp_bind; eapply wp_mono; [apply H; fin | let x := fresh "x" in let Hx := fresh "Hx" in intros [? ?] Hx; cbv beta iota].
  Ltac tcall H := eapply wp_mono; [apply H; fin | let Hx := fresh "Hx" in intros [? ?] Hx; fin].

  Ltac step H1 H2 H3 H4 H5 H6 H7 H8 H9 H10 H11 H12 H13 H14 H15 H16 H17 :=
    match goal with
    | |- wp (Ok _) (fun _ => wp _ _) => apply wp_ok; cbv beta iota
    | |- wp (Ok _) _ => apply wp_ok; fin
    | |- wp (perr _ _) _ => apply wp_perr
    | |- wp (Err _) _ => apply wp_err
    | |- context [match advance_with_pos _ with _ => _ end] => adv
    | |- wp (bind (bind _ _) _) _ => apply wp_bind
    | |- wp (bind (match ?c with CloseBracket => _ | CloseParen => _ end) _) _ => destruct c
    | |- wp (bind (match peek ?st ?k with _ => _ end) _) _ => destruct (peek st k) eqn:?
    | |- wp (bind (if strict then _ else _) _) _ => destruct strict
    | |- wp (match (if ?b then _ else _) with _ => _ end) _ => destruct b eqn:?
    | |- wp (bind (expr _ _ _ _ _ _) _) _ => call H1
    | |- wp (bind (expr_loop _ _ _ _ _ _ _) _) _ => call H2
    | |- wp (bind (nud _ _ _ _ _) _) _ => call H3
    | |- wp (bind (parse_kvps _ _ _ _ _ _) _) _ => call H4
    | |- wp (bind (parse_kvp _ _ _ _ _) _) _ => call H5
    | |- wp (bind (led _ _ _ _ _ _) _) _ => call H6
    | |- wp (bind (parse_filter _ _ _ _ _ _) _) _ => call H7
    | |- wp (bind (parse_flatten _ _ _ _ _ _) _) _ => call H8
    | |- wp (bind (parse_comparator _ _ _ _ _ _ _) _) _ => call H9
    | |- wp (bind (parse_dot _ _ _ _ _ _) _) _ => call H10
    | |- wp (bind (projection_rhs _ _ _ _ _ _) _) _ => call H11
    | |- wp (bind (parse_wildcard_index _ _ _ _ _ _) _) _ => call H12
    | |- wp (bind (parse_wildcard_values _ _ _ _ _ _) _) _ => call H13
    | |- wp (bind (parse_index _ _ _ _ _) _) _ => call H14
    | |- wp (bind (index_loop _ _ _ _ _ _ _ _ _) _) _ => call H15
    | |- wp (bind (parse_multi_list _ _ _ _ _) _) _ => call H16
    | |- wp (bind (parse_list _ _ _ _ _ _ _) _) _ => call H17
    | |- wp (bind (match _ with _ => _ end) _) _ => fail 1
    | |- wp (expr _ _ _ _ _ _) _ => tcall H1
    | |- wp (expr_loop _ _ _ _ _ _ _) _ => tcall H2
    | |- wp (nud _ _ _ _ _) _ => tcall H3
    | |- wp (parse_kvps _ _ _ _ _ _) _ => tcall H4
    | |- wp (parse_kvp _ _ _ _ _) _ => tcall H5
    | |- wp (led _ _ _ _ _ _) _ => tcall H6
    | |- wp (parse_filter _ _ _ _ _ _) _ => tcall H7
    | |- wp (parse_flatten _ _ _ _ _ _) _ => tcall H8
    | |- wp (parse_comparator _ _ _ _ _ _ _) _ => tcall H9
    | |- wp (parse_dot _ _ _ _ _ _) _ => tcall H10
    | |- wp (projection_rhs _ _ _ _ _ _) _ => tcall H11
    | |- wp (parse_wildcard_index _ _ _ _ _ _) _ => tcall H12
    | |- wp (parse_wildcard_values _ _ _ _ _ _) _ => tcall H13
    | |- wp (parse_index _ _ _ _ _) _ => tcall H14
    | |- wp (index_loop _ _ _ _ _ _ _ _ _) _ => tcall H15
    | |- wp (parse_multi_list _ _ _ _ _) _ => tcall H16
    | |- wp (parse_list _ _ _ _ _ _ _) _ => tcall H17
    | |- wp (if strict then _ else _) _ => destruct strict
    | |- wp (match peek ?st ?k with _ => _ end) _ => destruct (peek st k) eqn:?
    | |- wp (if ?b then _ else _) _ => destruct b eqn:?
    | |- wp (let '(_, _) := ?x in _) _ => destruct x
    | |- wp (match ?x with _ => _ end) _ => destruct x
    end.

  Ltac refold :=
    fold (expr L STOP strict);
    fold (expr_loop L STOP strict);
    fold (nud L STOP strict);
    fold (parse_kvps L STOP strict);
    fold (parse_kvp L STOP strict);
    fold (led L STOP strict);
    fold (parse_filter L STOP strict);
    fold (parse_flatten L STOP strict);
    fold (parse_comparator L STOP strict);
    fold (parse_dot L STOP strict);
    fold (projection_rhs L STOP strict);
    fold (parse_wildcard_index L STOP strict);
    fold (parse_wildcard_values L STOP strict);
    fold (parse_index L STOP strict);
    fold (index_loop L STOP strict);
    fold (parse_multi_list L STOP strict);
    fold (parse_list L STOP strict).

  Lemma all_fuel_holds : forall f, all_fuel f.
  Proof.
    induction f as [|f IH].
    - unfold all_fuel. repeat match goal with |- _ /\ _ => split end; intros; lia.
    - destruct IH as (H1 & H2 & H3 & H4 & H5 & H6 & H7 & H8 & H9 & H10 & H11 & H12 & H13 & H14 & H15 & H16 & H17).
      unfold all_fuel. repeat match goal with |- _ /\ _ => split end; intros.
      + cbn [expr]. refold. repeat step H1 H2 H3 H4 H5 H6 H7 H8 H9 H10 H11 H12 H13 H14 H15 H16 H17.
      + cbn [expr_loop]. refold. repeat step H1 H2 H3 H4 H5 H6 H7 H8 H9 H10 H11 H12 H13 H14 H15 H16 H17.
      + cbn [nud]. refold. repeat step H1 H2 H3 H4 H5 H6 H7 H8 H9 H10 H11 H12 H13 H14 H15 H16 H17.
      + cbn [parse_kvps]. refold. repeat step H1 H2 H3 H4 H5 H6 H7 H8 H9 H10 H11 H12 H13 H14 H15 H16 H17.
      + cbn [parse_kvp]. refold. repeat step H1 H2 H3 H4 H5 H6 H7 H8 H9 H10 H11 H12 H13 H14 H15 H16 H17.
      + cbn [led]. refold. repeat step H1 H2 H3 H4 H5 H6 H7 H8 H9 H10 H11 H12 H13 H14 H15 H16 H17.
      + cbn [parse_filter]. refold. repeat step H1 H2 H3 H4 H5 H6 H7 H8 H9 H10 H11 H12 H13 H14 H15 H16 H17.
      + cbn [parse_flatten]. refold. repeat step H1 H2 H3 H4 H5 H6 H7 H8 H9 H10 H11 H12 H13 H14 H15 H16 H17.
      + cbn [parse_comparator]. refold. repeat step H1 H2 H3 H4 H5 H6 H7 H8 H9 H10 H11 H12 H13 H14 H15 H16 H17.
      + cbn [parse_dot]. refold. repeat step H1 H2 H3 H4 H5 H6 H7 H8 H9 H10 H11 H12 H13 H14 H15 H16 H17.
      + cbn [projection_rhs]. refold. repeat step H1 H2 H3 H4 H5 H6 H7 H8 H9 H10 H11 H12 H13 H14 H15 H16 H17.
      + cbn [parse_wildcard_index]. refold. repeat step H1 H2 H3 H4 H5 H6 H7 H8 H9 H10 H11 H12 H13 H14 H15 H16 H17.
      + cbn [parse_wildcard_values]. refold. repeat step H1 H2 H3 H4 H5 H6 H7 H8 H9 H10 H11 H12 H13 H14 H15 H16 H17.
      + cbn [parse_index]. refold. repeat step H1 H2 H3 H4 H5 H6 H7 H8 H9 H10 H11 H12 H13 H14 H15 H16 H17.
      + cbn [index_loop]. refold. repeat step H1 H2 H3 H4 H5 H6 H7 H8 H9 H10 H11 H12 H13 H14 H15 H16 H17.
      + cbn [parse_multi_list]. refold. repeat step H1 H2 H3 H4 H5 H6 H7 H8 H9 H10 H11 H12 H13 H14 H15 H16 H17.
      + cbn [parse_list]. refold. repeat step H1 H2 H3 H4 H5 H6 H7 H8 H9 H10 H11 H12 H13 H14 H15 H16 H17.
  Qed.
End ParserFuel.

Theorem parse_tokens_never_out_of_fuel L STOP strict toks :
  parse_tokens L STOP strict (parse_fuel toks) toks <> OOF.
Proof.
  unfold parse_tokens. apply wp_noof with (Q := T). apply wp_bind.
  eapply wp_mono; [apply (all_fuel_holds L STOP strict (parse_fuel toks)); unfold parse_fuel, toks_left; cbn [pq]; lia|].
  intros [result st] _. destruct (peek st 0); first [apply wp_ok; exact I | apply wp_err].
Qed.

(** compile never runs out of fuel: the model's parser terminates within its bound on every input *)
Theorem parse_never_out_of_fuel s : parse s <> OOF.
Proof.
  unfold parse. pose proof (tokenize_never_out_of_fuel s) as Ht. destruct (tokenize s) as [toks|e| | |]; cbn [bind]; try discriminate.
  - apply parse_tokens_never_out_of_fuel.
  - exfalso. apply Ht. reflexivity.
Qed.

Theorem ref_parse_never_out_of_fuel s : ref_parse s <> OOF.
Proof.
  unfold ref_parse. pose proof (tokenize_never_out_of_fuel s) as Ht. destruct (tokenize s) as [toks|e| | |]; cbn [bind]; try discriminate.
  - apply parse_tokens_never_out_of_fuel.
  - exfalso. apply Ht. reflexivity.
Qed.
