(** C14, decoding half: a typed value survives the trip through the library.
    [chk t x]: [x] is a value of the Rust type described by [t] that serde_json's
    JSON image can carry (finite floats, no [Some] around a value that serialises to
    null, string-like map keys, no empty tuple variants).  For those,
    decoding the value the library's Serializer produced gives [x] back. *)
From Coq Require Import Floats.SpecFloat Sorting.Sorted ZifyBool Lia.
From JP Require Import Base F64 Value JsonRead Serde Decode Proofs.ObjFacts.

(** types whose values may serialise to [null] *)
Fixpoint nullable (t : ty) : bool :=
  match t with
  | TUnit | TUnitStruct | TOption _ | TValue => true
  | TNewtype t' => nullable t'
  | _ => false
  end.

Fixpoint names_nodup (l : list str) : bool :=
  match l with [] => true | x :: r => negb (mem_str x r) && names_nodup r end.

(** keys the library's Serializer can write and its key deserializer reads back *)
Definition chk_key (k : kty) (a : sval) : bool :=
  match k, a with
  | KString, SStr _ => true
  | KChar, SChar _ => true
  | KNewtype KString, SNewtypeStruct (SStr _) => true
  | KOption KString, SSome (SStr _) => true
  | KEnum vs, SUnitVariant n => mem_str n vs
  | _, _ => false
  end.

Definition keystr (a : sval) : str := match key_var a with Some s => s | None => [] end.

(** a [BTreeMap]'s entries: strictly ascending in the order of the key type *)
Fixpoint asc (k : kty) (kvs : list (sval * sval)) : bool :=
  match kvs with
  | [] => true
  | (a, _) :: r => forallb (fun bx => match key_cmp k a (fst bx) with Lt => true | _ => false end) r && asc k r
  end.

Section Chk.
  Variable c : ty -> sval -> bool.
  Fixpoint chk_list (ts : list ty) (l : list sval) : bool :=
    match ts, l with
    | [], [] => true
    | t1 :: ts', y :: l' => c t1 y && chk_list ts' l'
    | _, _ => false
    end.
  Fixpoint chk_fields (fs : list (str * ty)) (xs : list (str * sval)) : bool :=
    match fs, xs with
    | [], [] => true
    | (n, t1) :: fs', (m, y) :: xs' => str_eqb n m && c t1 y && chk_fields fs' xs'
    | _, _ => false
    end.
  Definition chk_payload (t1 : ty) (x : sval) : bool :=
    match t1, x with
    | TUnit, SUnitVariant _ => true
    | TNewtype t2, SNewtypeVariant _ y => c t2 y
    | TTupleStruct ts, STupleVariant _ l => match l with [] => false | _ => chk_list ts l end
    | TStruct fs, SStructVariant _ xs => names_nodup (map fst fs) && chk_fields fs xs
    | _, _ => false
    end.
  Fixpoint chk_variant (name : str) (x : sval) (vs : list (str * ty)) : bool :=
    match vs with
    | [] => false
    | (n, t1) :: vs' => if str_eqb name n then chk_payload t1 x else chk_variant name x vs'
    end.
End Chk.

Definition variant_name (x : sval) : option str :=
  match x with
  | SUnitVariant n | SNewtypeVariant n _ | STupleVariant n _ | SStructVariant n _ => Some n
  | _ => None
  end.

Fixpoint chk (t : ty) (x : sval) {struct t} : bool :=
  match t with
  | TBool => match x with SBool _ => true | _ => false end
  | TInt lo hi => match x with SInt z => (lo <=? z) && (z <=? hi) | _ => false end
  | TF64 => match x with SF64 f => f_is_finite f | _ => false end
  | TChar => match x with SChar _ => true | _ => false end
  | TString => match x with SStr _ => true | _ => false end
  | TUnit => match x with SUnit => true | _ => false end
  | TUnitStruct => match x with SUnitStruct => true | _ => false end
  | TOption t' => match x with SNone => true | SSome y => negb (nullable t') && chk t' y | _ => false end
  | TNewtype t' => match x with SNewtypeStruct y => chk t' y | _ => false end
  | TSeq t' => match x with SSeq l => forallb (chk t') l | _ => false end
  | TTuple ts => match x with STuple l => chk_list chk ts l | _ => false end
  | TTupleStruct ts => match x with STupleStruct l => chk_list chk ts l | _ => false end
  | TStruct fs => match x with SStruct xs => names_nodup (map fst fs) && chk_fields chk fs xs | _ => false end
  | TEnum vs => match variant_name x with Some n => chk_variant chk n x vs | None => false end
  | TMap k t' =>
      match x with
      | SMap kvs => forallb (fun ax => chk_key k (fst ax) && chk t' (snd ax)) kvs && asc k kvs
      | _ => false
      end
  | TValue => false
  end.

(* ---------- small facts ---------- *)
Lemma sbind_ok {A B} (r : sres A) (f : A -> sres B) b : sbind r f = SOk b -> exists a, r = SOk a /\ f a = SOk b.
Proof. destruct r; cbn; [eauto|discriminate]. Qed.

Lemma num_of_int_de lo hi z : (lo <=? z) && (z <=? hi) = true -> de (TInt lo hi) (num_of_int z) = Some (SInt z).
Proof. intros H. unfold num_of_int. destruct (z <? 0); cbn; rewrite H; reflexivity. Qed.

(** a value of a non-nullable type never serialises to null *)
Lemma ser_not_null : forall t x v, nullable t = false -> chk t x = true -> ser_var x = SOk v -> v <> VNull.
Proof.
  unfold ser_var. induction t; intros x v Hn Hc Hs; cbn in Hn; try discriminate;
    destruct x; cbn [chk variant_name] in Hc; try discriminate; cbn [ser] in Hs.
  - injection Hs as <-. discriminate.
  - injection Hs as <-. unfold num_of_int. destruct (z <? 0); discriminate.
  - injection Hs as <-. unfold num_of_f64. rewrite Hc. discriminate.
  - injection Hs as <-. discriminate.
  - injection Hs as <-. discriminate.
  - apply sbind_ok in Hs as (ys & _ & E). injection E as <-. discriminate.
  - apply sbind_ok in Hs as (ys & _ & E). injection E as <-. discriminate.
  - eapply IHt; eauto.
  - apply sbind_ok in Hs as (ys & _ & E). injection E as <-. discriminate.
  - apply sbind_ok in Hs as (ys & _ & E). injection E as <-. discriminate.
  - injection Hs as <-. discriminate.
  - apply sbind_ok in Hs as (ys & _ & E). injection E as <-. discriminate.
  - apply sbind_ok in Hs as (ys & _ & E). injection E as <-. discriminate.
  - apply sbind_ok in Hs as (ys & _ & E). injection E as <-. discriminate.
  - apply sbind_ok in Hs as (ys & _ & E). injection E as <-. discriminate.
Qed.

(* ---------- lists ---------- *)
Definition ser_list := fix go (l : list sval) : sres (list value) :=
  match l with
  | [] => SOk []
  | x :: r => sbind (ser key_var x) (fun y => sbind (go r) (fun ys => SOk (y :: ys)))
  end.

Definition ser_fields := fix go (fs : list (str * sval)) (acc : list (str * value)) : sres (list (str * value)) :=
  match fs with
  | [] => SOk acc
  | (k, x) :: r => sbind (ser key_var x) (fun y => go r (obj_insert acc k y))
  end.

Definition ser_entries := fix go (kvs : list (sval * sval)) (acc : list (str * value)) : sres (list (str * value)) :=
  match kvs with
  | [] => SOk acc
  | (k, x) :: r =>
      match key_var k with
      | Some ks => sbind (ser key_var x) (fun y => go r (obj_insert acc ks y))
      | None => SErr
      end
  end.

Section RoundTrip.
  (** the induction hypothesis, for the component types at hand *)
  Variable P : ty -> Prop.
  Hypothesis HP : forall t, P t -> forall x v, chk t x = true -> ser_var x = SOk v -> de t v = Some x.

  Lemma rt_seq t l ys : P t -> forallb (chk t) l = true -> ser_list l = SOk ys -> mapM (de t) ys = Some l.
  Proof.
    intros Ht. revert ys; induction l as [|x l IH]; intros ys Hc Hs; cbn in *.
    - injection Hs as <-. reflexivity.
    - apply andb_true_iff in Hc as [Hx Hl].
      apply sbind_ok in Hs as (y & Hy & Hs). apply sbind_ok in Hs as (ys' & Hys & E). injection E as <-.
      cbn. rewrite (HP t Ht x y Hx Hy), (IH ys' Hl Hys). reflexivity.
  Qed.

  Lemma rt_list ts l ys : Forall P ts -> chk_list chk ts l = true -> ser_list l = SOk ys -> de_list de ts ys = Some l.
  Proof.
    intros Hts. revert l ys; induction Hts as [|t ts Ht Hts IH]; intros l ys Hc Hs; destruct l as [|x l]; cbn in *; try discriminate.
    - injection Hs as <-. reflexivity.
    - apply andb_true_iff in Hc as [Hx Hl].
      apply sbind_ok in Hs as (y & Hy & Hs). apply sbind_ok in Hs as (ys' & Hys & E). injection E as <-.
      cbn. rewrite (HP t Ht x y Hx Hy), (IH l ys' Hl Hys). reflexivity.
  Qed.

  (** struct fields: every declared name is bound, in the object written, to the image of its value *)
  Lemma ser_fields_get xs : forall acc m, ser_fields xs acc = SOk m ->
    forall n, mem_str n (map fst xs) = false -> obj_get m n = obj_get acc n.
  Proof.
    induction xs as [|[k x] xs IH]; intros acc m Hs n Hn; cbn in *.
    - injection Hs as <-. reflexivity.
    - apply sbind_ok in Hs as (y & Hy & Hs). apply orb_false_iff in Hn as [Hk Hn].
      rewrite (IH _ _ Hs n Hn), obj_get_insert, Hk. reflexivity.
  Qed.

  Lemma rt_fields fs : Forall (fun nt => P (snd nt)) fs -> forall xs acc m,
    names_nodup (map fst fs) = true -> chk_fields chk fs xs = true -> ser_fields xs acc = SOk m ->
    de_fields_obj de m fs = Some xs.
  Proof.
    intros Hfs. induction Hfs as [|[n t] fs Ht Hfs IH]; intros xs acc m Hnd Hc Hs; destruct xs as [|[k x] xs]; cbn in *; try discriminate.
    - reflexivity.
    - apply andb_true_iff in Hnd as [Hn Hnd]. apply negb_true_iff in Hn.
      apply andb_true_iff in Hc as [Hc Hl]. apply andb_true_iff in Hc as [Hk Hx]. apply str_eqb_eq in Hk. subst k.
      apply sbind_ok in Hs as (y & Hy & Hs).
      assert (map fst xs = map fst fs) as Enames.
      { clear - Hl. revert xs Hl. induction fs as [|[n' t'] fs IHf]; intros [|[k' x'] xs] Hl; cbn in *; try discriminate; [reflexivity|].
        apply andb_true_iff in Hl as [Hl Hr]. apply andb_true_iff in Hl as [Hk _]. apply str_eqb_eq in Hk. subst. f_equal. apply IHf. exact Hr. }
      rewrite (ser_fields_get xs _ m Hs n) by (rewrite Enames; exact Hn).
      rewrite obj_get_insert, str_eqb_refl.
      rewrite (HP t Ht x y Hx Hy), (IH xs _ m Hnd Hl Hs). reflexivity.
  Qed.
End RoundTrip.

(* ---------- an induction principle for the nested type descriptions ---------- *)
Section TyInd.
  Variable P : ty -> Prop.
  Hypothesis Hbool : P TBool.
  Hypothesis Hint : forall lo hi, P (TInt lo hi).
  Hypothesis Hf64 : P TF64.
  Hypothesis Hchar : P TChar.
  Hypothesis Hstring : P TString.
  Hypothesis Hunit : P TUnit.
  Hypothesis Hopt : forall t, P t -> P (TOption t).
  Hypothesis Hseq : forall t, P t -> P (TSeq t).
  Hypothesis Htuple : forall ts, Forall P ts -> P (TTuple ts).
  Hypothesis Hustruct : P TUnitStruct.
  Hypothesis Hnewtype : forall t, P t -> P (TNewtype t).
  Hypothesis Htstruct : forall ts, Forall P ts -> P (TTupleStruct ts).
  Hypothesis Hstruct : forall fs, Forall (fun nt => P (snd nt)) fs -> P (TStruct fs).
  Hypothesis Henum : forall vs, Forall (fun nt => P (snd nt)) vs -> P (TEnum vs).
  Hypothesis Hmap : forall k t, P t -> P (TMap k t).
  Hypothesis Hvalue : P TValue.

  Fixpoint ty_ind' (t : ty) : P t :=
    match t with
    | TBool => Hbool | TInt lo hi => Hint lo hi | TF64 => Hf64 | TChar => Hchar | TString => Hstring | TUnit => Hunit
    | TOption t' => Hopt t' (ty_ind' t')
    | TSeq t' => Hseq t' (ty_ind' t')
    | TTuple ts => Htuple ts ((fix go (ts : list ty) : Forall P ts :=
                                 match ts with [] => Forall_nil _ | t1 :: r => Forall_cons t1 (ty_ind' t1) (go r) end) ts)
    | TUnitStruct => Hustruct
    | TNewtype t' => Hnewtype t' (ty_ind' t')
    | TTupleStruct ts => Htstruct ts ((fix go (ts : list ty) : Forall P ts :=
                                         match ts with [] => Forall_nil _ | t1 :: r => Forall_cons t1 (ty_ind' t1) (go r) end) ts)
    | TStruct fs => Hstruct fs ((fix go (fs : list (str * ty)) : Forall (fun nt => P (snd nt)) fs :=
                                   match fs with [] => Forall_nil _ | (n, t1) :: r => Forall_cons (n, t1) (ty_ind' t1) (go r) end) fs)
    | TEnum vs => Henum vs ((fix go (fs : list (str * ty)) : Forall (fun nt => P (snd nt)) fs :=
                               match fs with [] => Forall_nil _ | (n, t1) :: r => Forall_cons (n, t1) (ty_ind' t1) (go r) end) vs)
    | TMap k t' => Hmap k t' (ty_ind' t')
    | TValue => Hvalue
    end.
End TyInd.

(* ---------- map keys ---------- *)
Lemma key_cmp_antisym k : forall a b, key_cmp k b a = CompOpp (key_cmp k a b).
Proof.
  induction k; intros a b; destruct a; destruct b; cbn [key_cmp]; try reflexivity;
    try apply str_cmp_antisym; try apply Z.compare_antisym; try apply IHk.
  destruct b, b0; reflexivity.
Qed.

Lemma chk_key_reads k a : chk_key k a = true -> key_var a = Some (keystr a) /\ dekey k (keystr a) = Some a.
Proof.
  unfold keystr. destruct k as [| | | |k'|k'|vs]; try destruct k'; destruct a; cbn; try discriminate; intros H;
    try (match goal with x : sval |- _ => destruct x; try discriminate end); try rewrite H; split; reflexivity.
Qed.

Lemma obj_insert_app {A} (acc : list (str * A)) k v :
  Forall (fun kv => str_cmp (fst kv) k = Lt) acc -> obj_insert acc k v = acc ++ [(k, v)].
Proof.
  induction 1 as [|[k' v'] acc H _ IH]; cbn; [reflexivity|].
  cbn in H. rewrite str_cmp_antisym, H. cbn. rewrite IH. reflexivity.
Qed.

Lemma map_insert_app k (acc : list (sval * sval)) a x :
  Forall (fun bx => key_cmp k (fst bx) a = Lt) acc -> map_insert k acc a x = acc ++ [(a, x)].
Proof.
  induction 1 as [|[b y] acc H _ IH]; cbn; [reflexivity|].
  cbn in H. rewrite key_cmp_antisym, H. cbn. rewrite IH. reflexivity.
Qed.

Definition entry_image (ax : sval * sval) (ky : str * value) : Prop :=
  fst ky = keystr (fst ax) /\ ser_var (snd ax) = SOk (snd ky).

(** a variant's payload type carries the hypothesis for its components *)
Lemma rt_variant (P : ty -> Prop) (HP : forall t, P t -> forall x v, chk t x = true -> ser_var x = SOk v -> de t v = Some x) vs :
  Forall (fun nt => P (snd nt)) vs -> forall n x v,
  variant_name x = Some n -> chk_variant chk n x vs = true -> ser_var x = SOk v ->
  match v with
  | VStr name => de_variant de name None vs
  | VObj [(name, p)] => de_variant de name (Some p) vs
  | _ => None
  end = Some x.
Proof.
  unfold ser_var. induction 1 as [|[m t1] vs Ht Hvs IH]; intros n x v Hn Hc Hs; cbn in Hc; [discriminate|].
  destruct (str_eqb n m) eqn:Enm.
  2:{ specialize (IH n x v Hn Hc Hs).
      destruct x; cbn in Hn; try discriminate; injection Hn as ->; cbn [ser] in Hs.
      - injection Hs as <-. cbn. rewrite Enm. exact IH.
      - apply sbind_ok in Hs as (y & Hy & E). injection E as <-. cbn. rewrite Enm. exact IH.
      - apply sbind_ok in Hs as (y & Hy & E). injection E as <-. cbn. rewrite Enm. exact IH.
      - apply sbind_ok in Hs as (y & Hy & E). injection E as <-. cbn. rewrite Enm. exact IH. }
  apply str_eqb_eq in Enm. subst m. cbn in Ht.
  destruct t1; destruct x; cbn in Hc, Hn; try discriminate; injection Hn as ->; cbn [ser] in Hs.
  - (* unit *) injection Hs as <-. cbn. rewrite str_eqb_refl. reflexivity.
  - (* newtype *) apply sbind_ok in Hs as (y & Hy & E). injection E as <-. cbn. rewrite str_eqb_refl. cbn.
    pose proof (HP _ Ht (SNewtypeStruct x) y Hc Hy) as H. cbn in H.
    destruct (de t1 y); cbn in *; [injection H as ->; reflexivity|discriminate].
  - (* tuple *) apply sbind_ok in Hs as (ys & Hys & E). injection E as <-. cbn. rewrite str_eqb_refl. cbn.
    fold ser_list in Hys.
    assert (chk_list chk ts l = true) as Hc' by (destruct l; [discriminate|exact Hc]).
    pose proof (HP _ Ht (STupleStruct l) (VArr ys) Hc') as H. unfold ser_var in H. cbn [ser] in H. fold ser_list in H.
    rewrite Hys in H. specialize (H eq_refl). cbn [de] in H.
    destruct l as [|x0 l0]; [discriminate|].
    destruct ys as [|y0 ys0].
    { cbn in Hys. apply sbind_ok in Hys as (y & _ & Hys). apply sbind_ok in Hys as (ys' & _ & E). discriminate. }
    destruct (de_list de ts (y0 :: ys0)); cbn in *; [injection H as ->; reflexivity|discriminate].
  - (* struct *) apply sbind_ok in Hs as (m & Hm & E). injection E as <-. cbn. rewrite str_eqb_refl. cbn.
    fold ser_fields in Hm.
    pose proof (HP _ Ht (SStruct fields) (VObj m) Hc) as H. unfold ser_var in H. cbn [ser] in H. fold ser_fields in H.
    rewrite Hm in H. specialize (H eq_refl). cbn [de] in H.
    destruct (de_fields_obj de m fs); cbn in *; [injection H as ->; reflexivity|discriminate].
Qed.

