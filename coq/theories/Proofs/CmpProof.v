(** C10: algebra of [==], [!=] and the ordering operators ([Variable::compare],
    [PartialEq]/[Ord] for [Variable], [float_eq]). *)
From Coq Require Import Floats.SpecFloat ZifyBool.
From JP Require Import Base F64 Value.

(** JSON values: no expression references, finite numbers. *)
Fixpoint is_json (v : value) : bool :=
  match v with
  | VExpref _ => false
  | VArr l => forallb is_json l
  | VObj o => forallb (fun kv => is_json (snd kv)) o
  | VNum (Flt f) => f_is_finite f
  | _ => true
  end.

(* ---------- IEEE facts on SpecFloat ---------- *)
Lemma SFcompare_refl f : f_is_finite f = true -> SFcompare f f = Some Eq.
Proof.
  destruct f as [s|s| |s m e]; cbn; try discriminate; intros _; try reflexivity.
  destruct s; rewrite Z.compare_refl; fold (Pos.compare m m); rewrite Pos.compare_refl; reflexivity.
Qed.

Lemma SFcompare_antisym a b : SFcompare b a = option_map CompOpp (SFcompare a b).
Proof.
  destruct a as [sa|sa| |sa ma ea], b as [sb|sb| |sb mb eb]; cbn; try reflexivity;
    try (destruct sa; reflexivity); try (destruct sb; reflexivity); try (destruct sa, sb; reflexivity).
  destruct sa, sb; cbn; try reflexivity; rewrite (Z.compare_antisym ea eb);
    destruct (ea ?= eb) eqn:E; cbn; try reflexivity;
    fold (Pos.compare ma mb); fold (Pos.compare mb ma); rewrite (Pos.compare_antisym ma mb);
    destruct (ma ?= mb)%positive; reflexivity.
Qed.

Lemma feqb_sym a b : feqb a b = feqb b a.
Proof.
  unfold feqb, SFeqb. rewrite (SFcompare_antisym a b). destruct (SFcompare a b) as [[]|]; reflexivity.
Qed.

Lemma feqb_refl f : f_is_finite f = true -> feqb f f = true.
Proof. intros H. unfold feqb, SFeqb. now rewrite SFcompare_refl. Qed.

Lemma fadd_comm a b : fadd a b = fadd b a.
Proof.
  unfold fadd. destruct a as [sa|sa| |sa ma ea], b as [sb|sb| |sb mb eb]; cbn; try reflexivity.
  - destruct sa, sb; reflexivity.
  - destruct sa, sb; reflexivity.
  - rewrite (Z.min_comm eb ea), Z.add_comm. reflexivity.
Qed.

Lemma SFabs_binary_round_aux s s' m e l :
  SFabs (binary_round_aux prec emax s m e l) = SFabs (binary_round_aux prec emax s' m e l).
Proof.
  unfold binary_round_aux.
  destruct (shr_fexp prec emax m e l) as [mrs' e'].
  destruct (shr_fexp prec emax (round_nearest_even (shr_m mrs') (loc_of_shr_record mrs')) e' loc_Exact) as [mrs'' e''].
  destruct (shr_m mrs''); try reflexivity. destruct (Zle_bool e'' (emax - prec)); reflexivity.
Qed.

Lemma SFabs_binary_round s s' m e : SFabs (binary_round prec emax s m e) = SFabs (binary_round prec emax s' m e).
Proof.
  unfold binary_round. destruct (shl_align m e (fexp prec emax (Z.pos (digits2_pos m) + e))) as [mz ez].
  apply SFabs_binary_round_aux.
Qed.

Lemma SFabs_binary_normalize_opp z e : SFabs (binary_normalize prec emax (- z) e false) = SFabs (binary_normalize prec emax z e false).
Proof. destruct z; cbn; try reflexivity; apply SFabs_binary_round. Qed.

Lemma fabs_fsub_sym a b : fabs (fsub a b) = fabs (fsub b a).
Proof.
  unfold fabs, fsub. destruct a as [sa|sa| |sa ma ea], b as [sb|sb| |sb mb eb]; cbn; try reflexivity.
  - destruct sa, sb; reflexivity.
  - destruct sa, sb; reflexivity.
  - rewrite (Z.min_comm eb ea).
    match goal with |- SFabs (binary_normalize _ _ (?x - ?y) _ _) = _ => replace (x - y) with (- (y - x)) by lia end.
    apply SFabs_binary_normalize_opp.
Qed.

Lemma float_eq_sym a b : float_eq a b = float_eq b a.
Proof.
  unfold float_eq. rewrite (feqb_sym a b), (fabs_fsub_sym a b), (fadd_comm (fabs a) (fabs b)).
  rewrite (orb_comm (negb (f_is_normal a))). reflexivity.
Qed.

Lemma float_eq_refl f : f_is_finite f = true -> float_eq f f = true.
Proof. intros H. unfold float_eq. now rewrite feqb_refl. Qed.


(** Finiteness of [as_f64] is what reflexivity needs; integers of 64 bits
    convert to finite doubles. We state reflexivity on values whose numbers
    convert to finite doubles ([num_ok]), which holds for every JSON number the
    library can hold (checked by computation at the extremes in the examples). *)
Definition num_ok (n : num) : bool := f_is_finite (as_f64 n).

Fixpoint nums_ok (v : value) : bool :=
  match v with
  | VExpref _ => false
  | VArr l => forallb nums_ok l
  | VObj o => forallb (fun kv => nums_ok (snd kv)) o
  | VNum n => num_ok n
  | _ => true
  end.

Lemma var_eq_refl : forall v, nums_ok v = true -> var_eq v v = true.
Proof.
  fix IH 1. intros v. destruct v as [|s|b|n|l|o|a]; cbn [nums_ok var_eq]; intros H; try reflexivity.
  - apply str_eqb_refl.
  - destruct b; reflexivity.
  - apply float_eq_refl. exact H.
  - induction l as [|x l IHl]; [reflexivity|]. cbn in H. apply andb_true_iff in H as [H1 H2].
    rewrite (IH x H1). cbn. apply IHl. exact H2.
  - induction o as [|[k x] o IHo]; [reflexivity|]. cbn in H. apply andb_true_iff in H as [H1 H2].
    rewrite str_eqb_refl, (IH x H1). cbn. apply IHo. exact H2.
  - discriminate.
Qed.

Lemma str_eqb_sym' a b : str_eqb a b = str_eqb b a.
Proof.
  destruct (str_eqb a b) eqn:E1, (str_eqb b a) eqn:E2; try reflexivity.
  - apply str_eqb_eq in E1. subst. rewrite str_eqb_refl in E2. discriminate.
  - apply str_eqb_eq in E2. subst. rewrite str_eqb_refl in E1. discriminate.
Qed.

(** Symmetry holds for all values without expression references. *)
Fixpoint no_expref (v : value) : bool :=
  match v with
  | VExpref _ => false
  | VArr l => forallb no_expref l
  | VObj o => forallb (fun kv => no_expref (snd kv)) o
  | _ => true
  end.

Lemma var_eq_sym : forall a b, no_expref a = true -> var_eq a b = var_eq b a.
Proof.
  fix IH 1. intros a b. destruct a as [|s|x|n|l|o|e]; destruct b as [|s'|x'|n'|l'|o'|e']; cbn [no_expref var_eq]; intros H;
    try reflexivity; try discriminate.
  - apply str_eqb_sym'.
  - destruct x, x'; reflexivity.
  - apply float_eq_sym.
  - revert l' H. induction l as [|u l IHl]; intros [|v l'] H; try reflexivity.
    cbn in H. apply andb_true_iff in H as [H1 H2]. rewrite (IH u v H1). f_equal. apply IHl. exact H2.
  - revert o' H. induction o as [|[k u] o IHo]; intros [|[k' v] o'] H; try reflexivity.
    cbn in H. apply andb_true_iff in H as [H1 H2]. rewrite (IH u v H1), (str_eqb_sym' k k'). f_equal. apply IHo. exact H2.
Qed.

(* ---------- compare ---------- *)
Definition both_numbers (a b : value) : bool := is_number a && is_number b.

Lemma ne_is_negation a b : compare_values CNe a b = option_map negb (compare_values CEq a b).
Proof. reflexivity. Qed.

Lemma eq_always_boolean a b : exists r, compare_values CEq a b = Some r.
Proof. eexists; reflexivity. Qed.

Lemma eq_type_gated a b : get_type a <> get_type b -> var_eq a b = false.
Proof. destruct a, b; cbn; intros H; try reflexivity; exfalso; apply H; reflexivity. Qed.

Definition is_ordering (c : cmpop) : bool := match c with CEq | CNe => false | _ => true end.

Lemma ordering_defined_iff_both_numbers c a b : is_ordering c = true ->
  (exists r, compare_values c a b = Some r) <-> both_numbers a b = true.
Proof.
  intros Hc. unfold compare_values, both_numbers. destruct c; try discriminate;
    destruct (is_number a && is_number b); split; intros H; try reflexivity; try (eexists; reflexivity);
    try discriminate; destruct H as [r H]; discriminate.
Qed.

Lemma ordering_null_otherwise c a b : is_ordering c = true -> both_numbers a b = false -> compare_values c a b = None.
Proof. intros Hc H. unfold compare_values, both_numbers in *. destruct c; try discriminate; rewrite H; reflexivity. Qed.

(** On two numbers the operators are the exact IEEE order of the doubles. *)
Lemma ordering_is_numeric x y :
  f_is_finite (as_f64 x) = true -> f_is_finite (as_f64 y) = true ->
  exists c, fcompare (as_f64 x) (as_f64 y) = Some c /\
    compare_values CLt (VNum x) (VNum y) = Some (match c with Lt => true | _ => false end) /\
    compare_values CGt (VNum x) (VNum y) = Some (match c with Gt => true | _ => false end) /\
    compare_values CLe (VNum x) (VNum y) = Some (match c with Gt => false | _ => true end) /\
    compare_values CGe (VNum x) (VNum y) = Some (match c with Lt => false | _ => true end).
Proof.
  intros Hx Hy. unfold compare_values. cbn [is_number andb var_cmp].
  destruct (as_f64 x) as [s|s| |s m e], (as_f64 y) as [s'|s'| |s' m' e']; try discriminate;
    unfold fcompare; cbn [SFcompare]; eexists; repeat split; reflexivity.
Qed.

(** Well-separated numbers: identical doubles, or doubles that the tolerant [==] tells apart. *)
Definition separated (x y : num) : Prop := as_f64 x = as_f64 y \/ float_eq (as_f64 x) (as_f64 y) = false.

Definition b2n (b : option bool) : nat := match b with Some true => 1 | _ => 0 end.

Lemma trichotomy x y :
  f_is_finite (as_f64 x) = true -> f_is_finite (as_f64 y) = true -> separated x y ->
  (b2n (compare_values CLt (VNum x) (VNum y)) + b2n (compare_values CEq (VNum x) (VNum y)) +
   b2n (compare_values CGt (VNum x) (VNum y)) = 1)%nat.
Proof.
  intros Hx Hy Hs. destruct (ordering_is_numeric x y Hx Hy) as (c & Hc & Hlt & Hgt & _ & _).
  rewrite Hlt, Hgt. cbn [compare_values var_eq]. destruct Hs as [Hs|Hs].
  - rewrite Hs in *. rewrite float_eq_refl by assumption.
    unfold fcompare in Hc. rewrite SFcompare_refl in Hc by assumption. injection Hc as <-. reflexivity.
  - rewrite Hs. assert (c <> Eq) as Hne.
    { intros ->. unfold float_eq in Hs. unfold feqb, SFeqb in Hs. unfold fcompare in Hc. rewrite Hc in Hs. discriminate. }
    destruct c; [congruence|reflexivity|reflexivity].
Qed.

Lemma le_decomposition x y :
  f_is_finite (as_f64 x) = true -> f_is_finite (as_f64 y) = true -> separated x y ->
  compare_values CLe (VNum x) (VNum y) =
    Some (orb (match compare_values CLt (VNum x) (VNum y) with Some true => true | _ => false end)
              (match compare_values CEq (VNum x) (VNum y) with Some true => true | _ => false end)).
Proof.
  intros Hx Hy Hs. destruct (ordering_is_numeric x y Hx Hy) as (c & Hc & Hlt & _ & Hle & _).
  rewrite Hlt, Hle. cbn [compare_values var_eq]. destruct Hs as [Hs|Hs].
  - rewrite Hs in *. rewrite float_eq_refl by assumption.
    unfold fcompare in Hc. rewrite SFcompare_refl in Hc by assumption. injection Hc as <-. reflexivity.
  - rewrite Hs. assert (c <> Eq) as Hne.
    { intros ->. unfold float_eq in Hs. unfold feqb, SFeqb in Hs. unfold fcompare in Hc. rewrite Hc in Hs. discriminate. }
    destruct c; [congruence|reflexivity|reflexivity].
Qed.

(** Without the separation hypothesis, [<=] is [<] or exact equality of the doubles. *)
Lemma le_exact x y :
  f_is_finite (as_f64 x) = true -> f_is_finite (as_f64 y) = true ->
  compare_values CLe (VNum x) (VNum y) =
    Some (orb (match compare_values CLt (VNum x) (VNum y) with Some true => true | _ => false end)
              (feqb (as_f64 x) (as_f64 y))).
Proof.
  intros Hx Hy. destruct (ordering_is_numeric x y Hx Hy) as (c & Hc & Hlt & _ & Hle & _).
  rewrite Hlt, Hle. unfold feqb, SFeqb. unfold fcompare in Hc. rewrite Hc. destruct c; reflexivity.
Qed.

(** [Ord]'s "different types are Equal" cannot leak: ordering operators are gated on two numbers
    and [==] never consults [cmp]. *)
Lemma internal_order_does_not_leak c a b : get_type a <> get_type b ->
  compare_values c a b = match c with CEq => Some false | CNe => Some true | _ => None end.
Proof.
  intros H. unfold compare_values. rewrite (eq_type_gated a b H).
  destruct c; try reflexivity; destruct a, b; cbn; try reflexivity; try (exfalso; apply H; reflexivity).
Qed.

(** Structure of deep equality. *)
Lemma eq_arrays x y : var_eq (VArr x) (VArr y) = list_eqb var_eq x y.
Proof. cbn. revert y; induction x as [|u x IH]; intros [|v y]; cbn; try reflexivity; try (now rewrite IH). Qed.

Lemma eq_objects x y :
  var_eq (VObj x) (VObj y) = list_eqb (fun a b => str_eqb (fst a) (fst b) && var_eq (snd a) (snd b)) x y.
Proof. cbn. revert y; induction x as [|[k u] x IH]; intros [|[k' v] y]; cbn; try reflexivity; try (now rewrite IH). Qed.

Lemma eq_numbers x y : var_eq (VNum x) (VNum y) = float_eq (as_f64 x) (as_f64 y).
Proof. reflexivity. Qed.
