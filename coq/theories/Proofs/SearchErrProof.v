(** C12: a failing search never reports a parse error built by the lexer/parser
    classes: its errors are runtime errors (or the recorded "fabricated" class of
    functions.rs, [EFabricated]). *)
From JP Require Import Base F64 Value Sig Slice JsonRead JsonPrint Functions Interp.

Definition re {A} (r : res A) : Prop := forall p, r <> Err (EParse p).

Lemma re_ok {A} (a : A) : re (Ok a). Proof. intros p H. discriminate. Qed.
Lemma re_trap {A} : re (@Trap A). Proof. intros p H. discriminate. Qed.
Lemma re_oof {A} : re (@OOF A). Proof. intros p H. discriminate. Qed.
Lemma re_unm {A} : re (@Unmodelled A). Proof. intros p H. discriminate. Qed.
Lemma re_rt {A} k o : re (@Err A (ERuntime k o)). Proof. intros p H. discriminate. Qed.
Lemma re_fab {A} : re (@Err A EFabricated). Proof. intros p H. discriminate. Qed.
Lemma re_bind {A B} (r : res A) (k : A -> res B) : re r -> (forall a, re (k a)) -> re (bind r k).
Proof.
  intros Hr Hk. destruct r as [a|e| | |]; cbn; try (intros p H; discriminate); [apply Hk|].
  intros p H. injection H as ->. eapply Hr. reflexivity.
Qed.
Lemma re_no_err {A} (r : res A) : re (no_err r).
Proof. destruct r; intros p H; discriminate. Qed.

Ltac re_auto :=
  repeat match goal with
         | |- re (Ok _) => apply re_ok
         | |- re (ret _ _) => apply re_ok
         | |- re Trap => apply re_trap
         | |- re OOF => apply re_oof
         | |- re Unmodelled => apply re_unm
         | |- re (Err (ERuntime _ _)) => apply re_rt
         | |- re (Err EFabricated) => apply re_fab
         | |- re fabricated => apply re_fab
         | |- re (no_err _) => apply re_no_err
         | H : _ |- re _ => solve [apply H]
         | |- re (bind _ _) => apply re_bind; [|intros]
         | |- re (if ?b then _ else _) => destruct b
         | |- re (let '(_, _) := ?x in _) => destruct x
         | |- re (match ?x with _ => _ end) => destruct x
         end.

Definition ev_re (ev : evaluator) : Prop := forall v a o, re (ev v a o).

Lemma validate_re sg args off : re (validate sg args off).
Proof.
  unfold validate. apply re_bind.
  - unfold validate_arity. re_auto.
  - intros _. generalize 0. generalize (sig_inputs sg). induction args as [|v args IH]; intros inputs k; cbn [validate_args]; [apply re_ok|].
    destruct inputs as [|t inputs].
    + destruct (sig_variadic sg); [|apply re_trap]. apply re_bind; [unfold validate_arg; re_auto|intros; apply IH].
    + apply re_bind; [unfold validate_arg; re_auto|intros; apply IH].
Qed.

Lemma from_f64_re f off : re (from_f64 f off).
Proof. unfold from_f64. re_auto. Qed.
Lemma arg0_re args : re (arg0 args). Proof. destruct args; [apply re_trap|apply re_ok]. Qed.
Lemma arg1_re args : re (arg1 args). Proof. destruct args as [|? [|? ?]]; try apply re_trap; apply re_ok. Qed.

Lemma by_loop_re ev better ast ty : ev_re ev -> forall vs inv cand ckey off, re (by_loop ev better ast ty vs inv cand ckey off).
Proof.
  intros Hev. induction vs as [|v vs IH]; intros; cbn [by_loop]; [apply re_ok|].
  apply re_bind; [apply Hev|]. intros [mapped off1]. re_auto.
Qed.

Lemma min_and_max_by_re ev better args off : ev_re ev -> re (min_and_max_by ev better args off).
Proof.
  intros Hev. unfold min_and_max_by. apply re_bind; [apply arg0_re|]. intros a.
  destruct a as [| | | |[|v0 vs]| |]; try apply re_fab; try apply re_ok.
  apply re_bind; [apply arg1_re|]. intros e. destruct e; try apply re_fab.
  apply re_bind; [apply Hev|]. intros [initial off1].
  destruct (negb (by_type_ok (get_type initial))); [apply re_rt|]. now apply by_loop_re.
Qed.

Lemma sort_by_keys_re ev ast ty : ev_re ev -> forall vs inv acc off, re (sort_by_keys ev ast ty vs inv acc off).
Proof.
  intros Hev. induction vs as [|v vs IH]; intros; cbn [sort_by_keys]; [apply re_ok|].
  apply re_bind; [apply Hev|]. intros [mapped off1]. re_auto.
Qed.

Lemma sort_by_re ev args off : ev_re ev -> re (sort_by ev args off).
Proof.
  intros Hev. unfold sort_by. apply re_bind; [apply arg0_re|]. intros a.
  destruct a as [| | | |[|v0 vs]| |]; try apply re_fab; try apply re_ok.
  apply re_bind; [apply arg1_re|]. intros e. destruct e; try apply re_fab.
  apply re_bind; [apply Hev|]. intros [first off1].
  destruct (negb (by_type_ok (get_type first))); [apply re_rt|].
  apply re_bind; [now apply sort_by_keys_re|]. intros [pairs off2]. apply re_ok.
Qed.

Lemma map_loop_re ev ast : ev_re ev -> forall vs acc off, re (map_loop ev ast vs acc off).
Proof.
  intros Hev. induction vs as [|v vs IH]; intros; cbn [map_loop]; [apply re_ok|].
  apply re_bind; [apply Hev|]. intros [r off1]. apply IH.
Qed.

Lemma avg_sum_re vs s : re (avg_sum vs s).
Proof. revert s; induction vs as [|v vs IH]; intros; cbn; [apply re_ok|]. destruct v; try apply re_fab. apply IH. Qed.

Lemma strings_of_re vs : re (strings_of vs).
Proof. induction vs as [|v vs IH]; cbn; [apply re_ok|]. destruct v; try apply re_fab. apply re_bind; [exact IH|intros; apply re_ok]. Qed.

Lemma merge_objs_re args : re (merge_objs args).
Proof.
  unfold merge_objs.
  assert (forall (acc : res (list (str * value))), re acc ->
            re (fold_left (fun acc a => let* r := acc in
                                         match a with
                                         | VObj o => Ok (fold_left (fun m '(k, v) => obj_insert m k v) o r)
                                         | _ => fabricated
                                         end) args acc)) as H.
  { induction args as [|a args IH]; intros acc Hacc; cbn; [exact Hacc|].
    apply IH. apply re_bind; [exact Hacc|]. intros r. destruct a; try apply re_fab. apply re_ok. }
  apply H. apply re_ok.
Qed.

Lemma min_and_max_re op args off : re (min_and_max op args off).
Proof. unfold min_and_max. apply re_bind; [apply arg0_re|]. intros a. destruct a as [| | | |[|x xs]| |]; try apply re_fab; apply re_ok. Qed.

Theorem call_builtin_re ev b sg args off : ev_re ev -> re (call_builtin ev b sg args off).
Proof.
  intros Hev. unfold call_builtin. apply re_bind; [apply validate_re|]. intros _.
  destruct b;
    first [ apply min_and_max_re | now apply min_and_max_by_re | now apply sort_by_re
          | (apply re_bind; [apply arg0_re|]; intros a) | idtac ];
    repeat match goal with
           | |- re (Ok _) => apply re_ok
           | |- re (ret _ _) => apply re_ok
           | |- re Trap => apply re_trap
           | |- re fabricated => apply re_fab
           | |- re (from_f64 _ _) => apply from_f64_re
           | |- re (map_loop _ _ _ _ _) => now apply map_loop_re
           | |- re (bind (arg1 _) _) => apply re_bind; [apply arg1_re|intros]
           | |- re (bind (avg_sum _ _) _) => apply re_bind; [apply avg_sum_re|intros]
           | |- re (bind (strings_of _) _) => apply re_bind; [apply strings_of_re|intros]
           | |- re (bind (merge_objs _) _) => apply re_bind; [apply merge_objs_re|intros]
           | |- re (bind (no_err _) _) => apply re_bind; [apply re_no_err|intros]
           | |- re (if ?b then _ else _) => destruct b
           | |- re (match ?x with _ => _ end) => destruct x
           end.
Qed.

Lemma call_impl_re ev f args off : ev_re ev -> re (call_impl ev f args off).
Proof.
  intros Hev. destruct f as [b sg|id sg]; cbn [call_impl]; [now apply call_builtin_re|].
  apply re_bind; [destruct sg; [apply validate_re|apply re_ok]|]. intros _. apply re_ok.
Qed.

Lemma proj_loop_re ev1 : (forall e o, re (ev1 e o)) -> forall es acc o, re (proj_loop ev1 es acc o).
Proof.
  intros H. induction es as [|e es IH]; intros; cbn [proj_loop]; [apply re_ok|].
  apply re_bind; [apply H|]. intros [cur o']. destruct (is_null cur); apply IH.
Qed.

Lemma eval_list_re evd : (forall e o, re (evd e o)) -> forall es acc o, re (eval_list evd es acc o).
Proof.
  intros H. induction es as [|e es IH]; intros; cbn [eval_list]; [apply re_ok|].
  apply re_bind; [apply H|]. intros [v o']. apply IH.
Qed.

Lemma eval_kvs_re evd : (forall e o, re (evd e o)) -> forall kvs acc o, re (eval_kvs evd kvs acc o).
Proof.
  intros H. induction kvs as [|[k e] kvs IH]; intros; cbn [eval_kvs]; [apply re_ok|].
  apply re_bind; [apply H|]. intros [v o']. apply IH.
Qed.

Lemma loop_up_re {A} fuel : forall (arr : list A) i b step acc, re (loop_up fuel arr i b step acc).
Proof. induction fuel as [|f IH]; intros; cbn [loop_up]; [apply re_oof|]. re_auto. Qed.
Lemma loop_down_re {A} fuel : forall (arr : list A) i b step acc, re (loop_down fuel arr i b step acc).
Proof. induction fuel as [|f IH]; intros; cbn [loop_down]; [apply re_oof|]. re_auto. Qed.
Lemma slice_re {A} (arr : list A) a b c : re (slice arr a b c).
Proof.
  unfold slice. destruct (i32_max <? zlen arr); [apply re_unm|]. destruct (zlen arr =? 0); [apply re_ok|].
  destruct (c >? 0); [apply loop_up_re|apply loop_down_re].
Qed.

(** Every failure of search is a runtime error (or the fabricated class), for all
    trees, documents, registries and fuel. *)
Theorem interp_re : forall n rt d e o, re (interp n rt d e o).
Proof.
  induction n as [|n IH]; intros rt d e o; [apply re_oof|].
  destruct e; cbn [interp];
    repeat match goal with
           | |- re (Ok _) => apply re_ok
           | |- re Trap => apply re_trap
           | |- re (Err (ERuntime _ _)) => apply re_rt
           | |- re (interp _ _ _ _ _) => apply IH
           | |- re (proj_loop _ _ _ _) => apply proj_loop_re; intros; apply IH
           | |- re (bind (eval_list _ _ _ _) _) => apply re_bind; [apply eval_list_re; intros; apply IH|intros]
           | |- re (bind (eval_kvs _ _ _ _) _) => apply re_bind; [apply eval_kvs_re; intros; apply IH|intros]
           | |- re (bind (call_impl _ _ _ _) _) => apply re_bind; [apply call_impl_re; intros v a o'; apply IH|intros]
           | |- re (bind (get_negative_index _ _) _) => apply re_bind; [unfold get_negative_index|intros]
           | |- re (bind (slice _ _ _ _) _) => apply re_bind; [apply slice_re|intros]
           | |- re (bind _ _) => apply re_bind; [|intros]
           | |- re (if ?b then _ else _) => destruct b
           | |- re (let '(_, _) := ?x in _) => destruct x
           | |- re (match ?x with _ => _ end) => destruct x
           end.
Qed.

Corollary search_errors_are_runtime_errors n rt a d e :
  search_ast n rt a d = Err e -> (exists k o, e = ERuntime k o) \/ e = EFabricated.
Proof.
  unfold search_ast. intros H. pose proof (interp_re n rt d a 0) as Hr.
  destruct (interp n rt d a 0) as [[v o]|e0| | |]; cbn in H; try discriminate. injection H as <-.
  destruct e0 as [p|k o|]; [exfalso; eapply Hr; reflexivity|left; eauto|right; reflexivity].
Qed.
