(** C18: the jp model reports what the library model computes. *)
From JP Require Import Base F64 Value JsonRead JsonPrint Interp Lexer Parser Cli.

Opaque lib_search parse from_json print_pretty.

Lemma jp_success u text json a doc v :
  parse text = Ok a -> from_json json = Ok (Some doc) -> lib_search a doc = Ok v ->
  jp u false (Some text) (Some json) =
    (0,
     match v with
     | VStr s => if u then Ok (Some (OutText (s ++ [10]))) else (let* t := print_pretty 0 v in Ok (Some (OutText (t ++ [10]))))
     | _ => let* t := print_pretty 0 v in Ok (Some (OutText (t ++ [10])))
     end, false).
Proof.
  intros Hp Hj Hs. unfold jp. rewrite Hp, Hj, Hs. destruct v; try reflexivity. destruct u; reflexivity.
Qed.

Lemma jp_unquoted_only_strings text json a doc v :
  parse text = Ok a -> from_json json = Ok (Some doc) -> lib_search a doc = Ok v -> (forall s, v <> VStr s) ->
  jp true false (Some text) (Some json) = jp false false (Some text) (Some json).
Proof.
  intros Hp Hj Hs Hv. rewrite (jp_success true text json a doc v Hp Hj Hs), (jp_success false text json a doc v Hp Hj Hs).
  destruct v; try reflexivity. exfalso. eapply Hv; reflexivity.
Qed.

Lemma jp_ast_reads_no_input u text a i1 i2 :
  parse text = Ok a -> jp u true (Some text) i1 = jp u true (Some text) i2 /\ jp u true (Some text) i1 = (0, Ok (Some OutAstDump), false).
Proof. intros Hp. unfold jp. rewrite Hp. split; reflexivity. Qed.

Definition failed (o : Z * res (option stdout_kind) * bool) : Prop := o = (1, Ok None, true).

Lemma jp_bad_expression u a_flag text e input : parse text = Err e -> failed (jp u a_flag (Some text) input).
Proof. intros H. unfold failed, jp. now rewrite H. Qed.

Lemma jp_unreadable_expression u a_flag input : failed (jp u a_flag None input).
Proof. reflexivity. Qed.

Lemma jp_unreadable_input u text a : parse text = Ok a -> failed (jp u false (Some text) None).
Proof. intros H. unfold failed, jp. now rewrite H. Qed.

Lemma jp_bad_json u text a json : parse text = Ok a -> from_json json = Ok None -> failed (jp u false (Some text) (Some json)).
Proof. intros H1 H2. unfold failed, jp. now rewrite H1, H2. Qed.

Lemma jp_runtime_error u text a json doc e :
  parse text = Ok a -> from_json json = Ok (Some doc) -> lib_search a doc = Err e -> failed (jp u false (Some text) (Some json)).
Proof. intros H1 H2 H3. unfold failed, jp. now rewrite H1, H2, H3. Qed.
