(** C12: error coordinates and error positions. *)
From Coq Require Import ZifyBool.
From JP Require Import Base F64 Value Sig Functions Interp Lexer Wire Spec.SigSpec Proofs.SigProof.

(* ---------- line / column ---------- *)
Fixpoint count_nl (s : str) : Z := match s with [] => 0 | c :: r => (if c =? 10 then 1 else 0) + count_nl r end.

(** characters after the last newline *)
Fixpoint last_line (s : str) (cur : Z) : Z :=
  match s with [] => cur | c :: r => if c =? 10 then last_line r 0 else last_line r (cur + 1) end.

Lemma utf8_len_pos c : 1 <= utf8_len c.
Proof. unfold utf8_len. destruct (c <? 128), (c <? 2048), (c <? 65536); lia. Qed.

Lemma byte_len_nonneg s : 0 <= byte_len s.
Proof. induction s as [|c s IH]; cbn; [lia|]. pose proof (utf8_len_pos c). lia. Qed.

Lemma line_col_go_spec pre : forall post pos line col,
  line_col_go (pre ++ post) pos (pos + byte_len pre) line col = (line + count_nl pre, last_line pre col).
Proof.
  induction pre as [|c pre IH]; intros post pos line col; cbn [app byte_len count_nl last_line].
  - rewrite Z.add_0_r. destruct post as [|c post]; cbn; [f_equal; lia|].
    assert ((pos >=? pos) = true) as -> by lia. f_equal; lia.
  - cbn [line_col_go]. pose proof (utf8_len_pos c). pose proof (byte_len_nonneg pre).
    assert ((pos >=? pos + (utf8_len c + byte_len pre)) = false) as -> by lia.
    replace (pos + (utf8_len c + byte_len pre)) with ((pos + utf8_len c) + byte_len pre) by lia.
    destruct (c =? 10); rewrite IH; f_equal; lia.
Qed.

(** For an offset on a character boundary (the byte length of a prefix), the
    reported line is the number of newlines before it and the column the number
    of characters since the last of them — for any mix of newlines and
    multi-byte characters. *)
Theorem line_col_spec pre post : line_col (pre ++ post) (byte_len pre) = (count_nl pre, last_line pre 0).
Proof. unfold line_col. pose proof (line_col_go_spec pre post 0 0 0) as H. cbn in H. rewrite H. reflexivity. Qed.

(* ---------- positions of runtime errors ---------- *)
Definition err_offset {A} (r : res A) : option Z :=
  match r with Err (ERuntime _ o) => Some o | _ => None end.

(** An arity / argument-type error carries the offset the context held at the call ... *)
Lemma validate_error_offset sg args off e : validate sg args off = Err e -> exists k, e = ERuntime k off.
Proof.
  rewrite validate_decision. unfold validate_spec.
  destruct (zlen args <? zlen (sig_inputs sg)); [intros H; injection H as <-; eauto|].
  destruct (match sig_variadic sg with None => zlen (sig_inputs sg) <? zlen args | Some _ => false end); [intros H; injection H as <-; eauto|].
  destruct (first_bad sg args 0) as [[[k t] v]|]; [intros H; injection H as <-; eauto|discriminate].
Qed.

(** ... which the interpreter sets to the call's own offset (the position of its
    opening parenthesis) right before calling. *)
Lemma call_signature_error_at_paren n rt d off name args o vs o1 b sg e :
  eval_list (fun e' o' => interp n rt d e' o') args [] o = Ok (vs, o1) -> rt_get rt name = Some (FBuiltin b sg) ->
  validate sg vs off = Err e ->
  exists k, interp (S n) rt d (AFunction off name args) o = Err (ERuntime k off).
Proof.
  intros H1 H2 H3. destruct (validate_error_offset _ _ _ _ H3) as [k ->].
  exists k. cbn [interp]. rewrite H1. cbn. rewrite H2. cbn. unfold call_builtin. rewrite H3. reflexivity.
Qed.

(** A successful evaluation leaves the context offset where it found it (the
    repair of the stale-offset defect), so a still-running caller reports at its
    own position. *)
Definition preserves (ev1 : Z -> res (value * Z)) : Prop := forall o v o', ev1 o = Ok (v, o') -> o' = o.

Lemma proj_loop_preserves ev1 es : (forall e, preserves (ev1 e)) -> forall acc, preserves (proj_loop ev1 es acc).
Proof.
  intros H. induction es as [|e es IH]; intros acc o v o'; cbn [proj_loop].
  - intros E. now injection E as _ <-.
  - destruct (ev1 e o) as [[cur o1]| | | |] eqn:E1; cbn; try discriminate.
    apply H in E1. subst o1. destruct (is_null cur); apply IH.
Qed.

Lemma eval_list_preserves (evd : ast -> Z -> res (value * Z)) es : (forall e, preserves (evd e)) ->
  forall acc o vs o', eval_list evd es acc o = Ok (vs, o') -> o' = o.
Proof.
  intros H. induction es as [|e es IH]; intros acc o vs o'; cbn [eval_list].
  - intros E. now injection E as _ <-.
  - destruct (evd e o) as [[v o1]| | | |] eqn:E1; cbn; try discriminate.
    apply H in E1. subst o1. apply IH.
Qed.

Lemma eval_kvs_preserves (evd : ast -> Z -> res (value * Z)) kvs : (forall e, preserves (evd e)) ->
  forall acc o m o', eval_kvs evd kvs acc o = Ok (m, o') -> o' = o.
Proof.
  intros H. induction kvs as [|[k e] kvs IH]; intros acc o m o'; cbn [eval_kvs].
  - intros E. now injection E as _ <-.
  - destruct (evd e o) as [[v o1]| | | |] eqn:E1; cbn; try discriminate.
    apply H in E1. subst o1. apply IH.
Qed.

Theorem interp_preserves_offset : forall n rt d e, preserves (interp n rt d e).
Proof.
  induction n as [|n IH]; intros rt d e o v o'; [discriminate|].
  destruct e; cbn [interp].
  - (* Comparison *)
    destruct (interp n rt d e1 o) as [[lv o1]| | | |] eqn:E1; cbn; try discriminate. apply IH in E1. subst o1.
    destruct (interp n rt d e2 o) as [[rv o2]| | | |] eqn:E2; cbn; try discriminate. apply IH in E2. subst o2.
    intros E. now injection E as _ <-.
  - (* Condition *)
    destruct (interp n rt d e1 o) as [[c o1]| | | |] eqn:E1; cbn; try discriminate. apply IH in E1. subst o1.
    destruct (is_truthy c); [apply IH|]. intros E. now injection E as _ <-.
  - intros E. now injection E as _ <-.
  - intros E. now injection E as _ <-.
  - (* Flatten *)
    destruct (interp n rt d e o) as [[x o1]| | | |] eqn:E1; cbn; try discriminate. apply IH in E1. subst o1.
    destruct x; intros E; now injection E as _ <-.
  - (* Function *)
    destruct (eval_list (fun e0 o0 => interp n rt d e0 o0) args [] o) as [[fn_args co]| | | |] eqn:E1; cbn; try discriminate.
    apply eval_list_preserves in E1; [|intros e0; apply IH]. subst co.
    destruct (rt_get rt name); [|discriminate].
    destruct (call_impl (interp n rt) f fn_args off) as [[r o2]| | | |]; cbn; try discriminate.
    intros E. now injection E as _ <-.
  - intros E. now injection E as _ <-.
  - (* Index *)
    destruct (i >=? 0); [intros E; now injection E as _ <-|]. destruct (i =? i32_min); [discriminate|].
    destruct (get_negative_index d (- i)); cbn; try discriminate. intros E. now injection E as _ <-.
  - intros E. now injection E as _ <-.
  - (* MultiList *)
    destruct (is_null d); [intros E; now injection E as _ <-|].
    destruct (eval_list (fun e0 o0 => interp n rt d e0 o0) es [] o) as [[vs o1]| | | |] eqn:E1; cbn; try discriminate.
    apply eval_list_preserves in E1; [|intros e0; apply IH]. subst o1. intros E. now injection E as _ <-.
  - (* MultiHash *)
    destruct (is_null d); [intros E; now injection E as _ <-|].
    destruct (eval_kvs (fun e0 o0 => interp n rt d e0 o0) kvs [] o) as [[m o1]| | | |] eqn:E1; cbn; try discriminate.
    apply eval_kvs_preserves in E1; [|intros e0; apply IH]. subst o1. intros E. now injection E as _ <-.
  - (* Not *)
    destruct (interp n rt d e o) as [[x o1]| | | |] eqn:E1; cbn; try discriminate. apply IH in E1. subst o1.
    intros E. now injection E as _ <-.
  - (* Projection *)
    destruct (interp n rt d e1 o) as [[lv o1]| | | |] eqn:E1; cbn; try discriminate. apply IH in E1. subst o1.
    destruct lv; try (intros E; now injection E as _ <-).
    apply proj_loop_preserves. intros e0. apply IH.
  - (* ObjectValues *)
    destruct (interp n rt d e o) as [[x o1]| | | |] eqn:E1; cbn; try discriminate. apply IH in E1. subst o1.
    destruct x; intros E; now injection E as _ <-.
  - (* And *)
    destruct (interp n rt d e1 o) as [[lv o1]| | | |] eqn:E1; cbn; try discriminate. apply IH in E1. subst o1.
    destruct (negb (is_truthy lv)); [intros E; now injection E as _ <-|apply IH].
  - (* Or *)
    destruct (interp n rt d e1 o) as [[lv o1]| | | |] eqn:E1; cbn; try discriminate. apply IH in E1. subst o1.
    destruct (is_truthy lv); [intros E; now injection E as _ <-|apply IH].
  - (* Slice *)
    destruct (step =? 0); [discriminate|]. destruct d; try (intros E; now injection E as _ <-).
    destruct (Slice.slice l start stop step); cbn; try discriminate. intros E. now injection E as _ <-.
  - (* Subexpr *)
    destruct (interp n rt d e1 o) as [[lv o1]| | | |] eqn:E1; cbn; try discriminate. apply IH in E1. subst o1. apply IH.
Qed.

