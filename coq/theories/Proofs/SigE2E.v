(** C06, end to end: for every function of the registration list read from the
    source, the code's signature check decides a call exactly as the
    specification's table does (same verdict, same counts, same position). *)
From Coq Require Import ZifyBool.
From JP Require Import Base F64 Value Sig Functions Spec.SigSpec Proofs.CmpProof Proofs.SigProof.

(** [any] at the top of a parameter type (directly or as a union member): the one
    place where the code's types and the specification's differ (on expression references). *)
Fixpoint mentions_any (t : argtype) : bool :=
  match t with
  | TyAny => true
  | TyUnion ts => (fix go (ts : list argtype) : bool := match ts with [] => false | t' :: r => mentions_any t' || go r end) ts
  | _ => false
  end.

Lemma is_valid_expref : forall t e, mentions_any t = false -> is_valid t (VExpref e) = has_stype (stype_of t) (VExpref e).
Proof.
  fix IH 1. intros t e H. destruct t; cbn [is_valid stype_of has_stype is_null is_number]; try reflexivity; try discriminate.
  cbn [mentions_any] in H. induction ts as [|t' ts IHts]; [reflexivity|].
  apply orb_false_iff in H as [H1 H2]. destruct ts as [|t'' ts'].
  - rewrite (IH t' e H1). now rewrite orb_false_r.
  - rewrite (IH t' e H1). cbn [has_stype]. f_equal. apply IHts. exact H2.
Qed.

Definition compatible (t : argtype) (v : value) : bool :=
  no_expref v || match v with VExpref _ => negb (mentions_any t) | _ => false end.

Lemma is_valid_compat t v : compatible t v = true -> is_valid t v = has_stype (stype_of t) v.
Proof.
  unfold compatible. intros H. apply orb_true_iff in H as [H|H]; [now apply is_valid_stype|].
  destruct v; try discriminate. apply is_valid_expref. now apply negb_true_iff.
Qed.

Fixpoint args_compat (inputs : list argtype) (var : option argtype) (args : list value) : Prop :=
  match args with
  | [] => True
  | v :: r =>
      match inputs with
      | t :: i' => compatible t v = true /\ args_compat i' var r
      | [] => match var with Some t => compatible t v = true /\ args_compat [] var r | None => True end
      end
  end.

Definition verdict (r : res unit) : option sverdict :=
  match r with
  | Ok _ => Some SVAccept
  | Err (ERuntime (KInvalidType _ _ p) _) => Some (SVBadType p)
  | Err (ERuntime (KNotEnough e a) _) => Some (SVNotEnough e a)
  | Err (ERuntime (KTooMany e a) _) => Some (SVTooMany e a)
  | _ => None
  end.

Definition tmatch (t : argtype) (s : stype) : Prop := stype_equiv (stype_of t) s = true.
Definition vmatch (a : option argtype) (b : option stype) : Prop :=
  match a, b with Some t, Some s => tmatch t s | None, None => True | _, _ => False end.

Lemma validate_args_verdict : forall args inputs var sps svar k off,
  Forall2 tmatch inputs sps -> vmatch var svar -> args_compat inputs var args ->
  (var = None -> (length args <= length inputs)%nat) ->
  verdict (validate_args inputs var args k off) =
    Some match sfirst_bad sps svar args k with Some j => SVBadType j | None => SVAccept end.
Proof.
  induction args as [|v args IH]; intros inputs var sps svar k off Hin Hv Hc Hlen; cbn [validate_args sfirst_bad]; [reflexivity|].
  destruct Hin as [|t s inputs sps Hts Hin].
  - destruct var as [t|], svar as [s|]; cbn [vmatch] in Hv; try contradiction.
    + cbn [args_compat] in Hc. destruct Hc as [Hc1 Hc2]. unfold validate_arg.
      rewrite (is_valid_compat t v Hc1), (stype_equiv_sound _ _ Hv v).
      destruct (has_stype s v); [|reflexivity]. cbn [bind]. apply IH; [constructor|exact Hv|exact Hc2|discriminate].
    + specialize (Hlen eq_refl). cbn in Hlen. lia.
  - cbn [args_compat] in Hc. destruct Hc as [Hc1 Hc2]. unfold validate_arg.
    rewrite (is_valid_compat t v Hc1), (stype_equiv_sound _ _ Hts v).
    destruct (has_stype s v); [|reflexivity]. cbn [bind]. apply IH; [exact Hin|exact Hv|exact Hc2|].
    intros E. specialize (Hlen E). cbn [length] in Hlen. lia.
Qed.

Lemma sig_matches_rel sg ss : sig_matches sg ss = true ->
  Forall2 tmatch (sig_inputs sg) (s_params ss) /\ vmatch (sig_variadic sg) (s_variadic ss).
Proof.
  unfold sig_matches. intros H. apply andb_true_iff in H as [H H3]. apply andb_true_iff in H as [H1 H2].
  apply Nat.eqb_eq in H1. split.
  - revert H1 H2. generalize (sig_inputs sg) (s_params ss). induction l as [|t l IHl]; intros [|s l0] Hl Hf; cbn in Hl; try discriminate; [constructor|].
    cbn [combine forallb] in Hf. apply andb_true_iff in Hf as [Hf1 Hf2]. constructor; [exact Hf1|]. apply IHl; [lia|exact Hf2].
  - unfold vmatch. destruct (sig_variadic sg), (s_variadic ss); try discriminate; [exact H3|exact I].
Qed.

Lemma Forall2_length_eq {A B} (R : A -> B -> Prop) l l' : Forall2 R l l' -> length l = length l'.
Proof. induction 1; cbn; congruence. Qed.

(** The code's decision on a call of a function whose declared signature matches
    the specified one [ss]. *)
Theorem validate_is_spec_verdict sg ss args off :
  sig_matches sg ss = true -> args_compat (sig_inputs sg) (sig_variadic sg) args ->
  verdict (validate sg args off) =
    Some (let e := zlen (s_params ss) in
          let a := zlen args in
          if a <? e then SVNotEnough e a
          else if match s_variadic ss with None => e <? a | Some _ => false end then SVTooMany e a
          else match sfirst_bad (s_params ss) (s_variadic ss) args 0 with Some k => SVBadType k | None => SVAccept end).
Proof.
  intros Hm Hc. destruct (sig_matches_rel sg ss Hm) as [Hin Hv]. pose proof (Forall2_length_eq _ _ _ Hin) as Hl.
  unfold validate, validate_arity. unfold zlen. rewrite <- Hl. cbv zeta.
  destruct (sig_variadic sg) as [t|] eqn:Ev, (s_variadic ss) as [s|] eqn:Es; cbn [vmatch] in Hv; try contradiction.
  - destruct (Z.of_nat (length args) >=? Z.of_nat (length (sig_inputs sg))) eqn:E.
    + assert ((Z.of_nat (length args) <? Z.of_nat (length (sig_inputs sg))) = false) as -> by lia. cbn [bind].
      apply validate_args_verdict; [exact Hin|exact Hv|exact Hc|discriminate].
    + assert ((Z.of_nat (length args) <? Z.of_nat (length (sig_inputs sg))) = true) as -> by lia. reflexivity.
  - destruct (Z.of_nat (length args) =? Z.of_nat (length (sig_inputs sg))) eqn:E.
    + assert ((Z.of_nat (length args) <? Z.of_nat (length (sig_inputs sg))) = false) as -> by lia.
      assert ((Z.of_nat (length (sig_inputs sg)) <? Z.of_nat (length args)) = false) as -> by lia. cbn [bind].
      apply validate_args_verdict; [exact Hin|exact I|exact Hc|intros _; lia].
    + destruct (Z.of_nat (length args) <? Z.of_nat (length (sig_inputs sg))) eqn:E2; [reflexivity|].
      assert ((Z.of_nat (length (sig_inputs sg)) <? Z.of_nat (length args)) = true) as -> by lia. reflexivity.
Qed.

(** For every entry of a registration list that matches the specification's
    table, the check of a call is the specification's verdict on that name. *)
Theorem registry_call_is_spec_verdict reg name strct sg args off :
  registry_matches reg = true -> In (name, strct, sg) reg ->
  args_compat (sig_inputs sg) (sig_variadic sg) args ->
  verdict (validate sg args off) = Some (spec_verdict name args).
Proof.
  unfold registry_matches. intros H Hin Hc. apply andb_true_iff in H as [H _]. apply andb_true_iff in H as [_ H].
  rewrite forallb_forall in H. specialize (H _ Hin). cbn beta iota in H.
  unfold spec_verdict. destruct (obj_get spec_table name) as [ss|]; [|discriminate].
  apply validate_is_spec_verdict; assumption.
Qed.
