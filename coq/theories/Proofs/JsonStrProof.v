(** C09: JSON string spellings decode to the string they spell (the string
    reader of the model of serde_json), and the canonical printer produces such a
    spelling — so quoted identifiers and string literals denote their value. *)
From Coq Require Import ZifyBool.
From JP Require Import Base F64 Value JsonRead JsonPrint Lexer Proofs.LexProof.

Definition simple_escape (e : Z) : option Z :=
  if e =? 34 then Some 34 else if e =? 92 then Some 92 else if e =? 47 then Some 47 else if e =? 98 then Some 8
  else if e =? 102 then Some 12 else if e =? 110 then Some 10 else if e =? 114 then Some 13 else if e =? 116 then Some 9 else None.

Definition hex4v (a b c d : Z) : option Z :=
  match hexval a, hexval b, hexval c, hexval d with
  | Some a', Some b', Some c', Some d' => Some (((a' * 16 + b') * 16 + c') * 16 + d')
  | _, _, _, _ => None
  end.

(** [spells t k]: the text [t] (between the quotes) is a JSON spelling of the string [k] *)
Inductive spells : str -> str -> Prop :=
| sp_nil : spells [] []
| sp_char c t k : 32 <= c -> c <> 34 -> c <> 92 -> spells t k -> spells (c :: t) (c :: k)
| sp_esc e c t k : simple_escape e = Some c -> spells t k -> spells (92 :: e :: t) (c :: k)
| sp_u a b c d n t k : hex4v a b c d = Some n -> n < 55296 \/ 57343 < n -> spells t k ->
    spells (92 :: 117 :: a :: b :: c :: d :: t) (n :: k)
| sp_pair a b c d a2 b2 c2 d2 n n2 t k :
    hex4v a b c d = Some n -> 55296 <= n <= 56319 -> hex4v a2 b2 c2 d2 = Some n2 -> 56320 <= n2 <= 57343 -> spells t k ->
    spells (92 :: 117 :: a :: b :: c :: d :: 92 :: 117 :: a2 :: b2 :: c2 :: d2 :: t) (((n - 55296) * 1024 + (n2 - 56320) + 65536) :: k).

Lemma hex4_v a b c d r : hex4 (a :: b :: c :: d :: r) = match hex4v a b c d with Some n => Some (n, r) | None => None end.
Proof. unfold hex4, hex4v. destruct (hexval a), (hexval b), (hexval c), (hexval d); reflexivity. Qed.

(** one step of the string reader on an ordinary character *)
Lemma psb_char fu c r acc : c <> 34 -> c <> 92 ->
  parse_string_body (S fu) (c :: r) acc = if c <? 32 then None else parse_string_body fu r (c :: acc).
Proof.
  intros H1 H2. cbn [parse_string_body].
  destruct c as [|p|p]; try reflexivity.
  do 7 (try (destruct p as [p|p|]; try reflexivity)); try (exfalso; apply H1; reflexivity); try (exfalso; apply H2; reflexivity).
Qed.

Lemma psb_esc fu r acc : parse_string_body (S fu) (92 :: r) acc =
  match parse_escape r with Some (c, r') => parse_string_body fu r' (c :: acc) | None => None end.
Proof. reflexivity. Qed.

Lemma parse_escape_simple e c r : simple_escape e = Some c -> parse_escape (e :: r) = Some (c, r).
Proof.
  unfold simple_escape.
  repeat match goal with |- (if ?x =? ?y then _ else _) = _ -> _ => destruct (Z.eqb_spec x y); [subst; intros E; injection E as <-; reflexivity|] end.
  discriminate.
Qed.

Lemma spells_length t k : spells t k -> (length k <= length t)%nat.
Proof. induction 1; cbn [length]; lia. Qed.

Lemma parse_string_body_spells t k : spells t k -> forall rest acc fu, (length t < fu)%nat ->
  parse_string_body fu (t ++ 34 :: rest) acc = Some (rev acc ++ k, rest).
Proof.
  induction 1 as [|c t k Hc1 Hc2 Hc3 Hs IH|e c t k He Hs IH|a b c d n t k Hh Hn Hs IH|a b c d a2 b2 c2 d2 n n2 t k Hh Hn Hh2 Hn2 Hs IH];
    intros rest acc fu Hf; (destruct fu as [|fu]; [inversion Hf|]); cbn [app length] in *.
  - cbn [parse_string_body]. rewrite rev_append_rev, app_nil_r. reflexivity.
  - rewrite psb_char by assumption. assert ((c <? 32) = false) as -> by lia. rewrite IH by lia. cbn [rev]. now rewrite <- app_assoc.
  - rewrite psb_esc, (parse_escape_simple e c _ He). rewrite IH by lia. cbn [rev]. now rewrite <- app_assoc.
  - rewrite psb_esc. cbn [parse_escape]. rewrite hex4_v, Hh.
    assert (((56320 <=? n) && (n <=? 57343)) = false) as -> by lia. assert (((n <? 55296) || (56319 <? n)) = true) as -> by lia.
    rewrite IH by lia. cbn [rev]. now rewrite <- app_assoc.
  - rewrite psb_esc. cbn [parse_escape]. rewrite hex4_v, Hh.
    assert (((56320 <=? n) && (n <=? 57343)) = false) as -> by lia. assert (((n <? 55296) || (56319 <? n)) = false) as -> by lia.
    rewrite hex4_v, Hh2. assert (((n2 <? 56320) || (57343 <? n2)) = false) as -> by lia.
    rewrite IH by lia. cbn [rev]. now rewrite <- app_assoc.
Qed.

Theorem parse_string_spells t k rest : spells t k -> parse_string (t ++ 34 :: rest) = Some (k, rest).
Proof. intros H. unfold parse_string. rewrite (parse_string_body_spells t k H rest []) by (rewrite app_length; cbn [length]; lia). reflexivity. Qed.

(* ---------- the canonical spelling ---------- *)
Lemma hexval_hexd d : 0 <= d < 16 -> hexval (hexd d) = Some d.
Proof.
  intros H. assert (d = 0 \/ d = 1 \/ d = 2 \/ d = 3 \/ d = 4 \/ d = 5 \/ d = 6 \/ d = 7 \/ d = 8 \/ d = 9 \/ d = 10 \/ d = 11 \/ d = 12 \/ d = 13 \/ d = 14 \/ d = 15) as Hd by lia.
  repeat (destruct Hd as [->|Hd]; [reflexivity|]). subst. reflexivity.
Qed.

Lemma spells_escape_char c t k : 0 <= c -> spells t k -> spells (escape_char c ++ t) (c :: k).
Proof.
  intros Hc Hs. unfold escape_char.
  repeat match goal with
         | |- spells ((if ?x =? ?y then _ else _) ++ _) _ => destruct (Z.eqb_spec x y); [subst; cbn [app]; apply sp_esc; [reflexivity|exact Hs]|]
         end.
  destruct (c <? 32) eqn:E.
  - cbn [app]. apply sp_u; [|left; lia|exact Hs]. unfold hex4v. change (hexval 48) with (Some 0).
    rewrite (hexval_hexd (c / 16)) by (split; [apply Z.div_pos; lia|apply Z.div_lt_upper_bound; lia]).
    rewrite (hexval_hexd (c mod 16)) by (apply Z.mod_pos_bound; lia). f_equal.
    pose proof (Z.div_mod c 16 ltac:(lia)). lia.
  - cbn [app]. apply sp_char; [lia|assumption|assumption|exact Hs].
Qed.

Theorem print_string_spells k : Forall (fun c => 0 <= c) k -> spells (flat_map escape_char k) k.
Proof. induction 1 as [|c k Hc Hk IH]; [constructor|]. cbn [flat_map]. now apply spells_escape_char. Qed.

(* ---------- the scanner passes over a spelling ---------- *)
Lemma ci_char fu c r buf n : c <> 34 -> c <> 92 ->
  consume_inside (S fu) 34 (c :: r) buf n = consume_inside fu 34 r (c :: buf) (n + utf8_len c).
Proof. intros H1 H2. cbn [consume_inside]. assert ((c =? 34) = false) as -> by lia. assert ((c =? 92) = false) as -> by lia. reflexivity. Qed.

Lemma ci_pair fu c2 r buf n :
  consume_inside (S fu) 34 (92 :: c2 :: r) buf n = consume_inside fu 34 r (c2 :: 92 :: buf) (n + 1 + utf8_len c2).
Proof. reflexivity. Qed.

Lemma hexval_some a v : hexval a = Some v -> a <> 34 /\ a <> 92 /\ utf8_len a = 1.
Proof.
  unfold hexval, is_digit. destruct ((48 <=? a) && (a <=? 57)) eqn:E1; [intros _; unfold utf8_len; assert ((a <? 128) = true) as -> by lia; lia|].
  destruct ((97 <=? a) && (a <=? 102)) eqn:E2; [intros _; unfold utf8_len; assert ((a <? 128) = true) as -> by lia; lia|].
  destruct ((65 <=? a) && (a <=? 70)) eqn:E3; [intros _; unfold utf8_len; assert ((a <? 128) = true) as -> by lia; lia|discriminate].
Qed.

Lemma hex4v_chars a b c d n : hex4v a b c d = Some n ->
  (a <> 34 /\ a <> 92 /\ utf8_len a = 1) /\ (b <> 34 /\ b <> 92 /\ utf8_len b = 1) /\ (c <> 34 /\ c <> 92 /\ utf8_len c = 1) /\ (d <> 34 /\ d <> 92 /\ utf8_len d = 1).
Proof.
  unfold hex4v. destruct (hexval a) eqn:Ea, (hexval b) eqn:Eb, (hexval c) eqn:Ec, (hexval d) eqn:Ed; try discriminate. intros _.
  repeat split; first [eapply hexval_some; eassumption | idtac];
    match goal with |- _ => idtac end.
  all: try (apply (hexval_some _ _ Ea)); try (apply (hexval_some _ _ Eb)); try (apply (hexval_some _ _ Ec)); try (apply (hexval_some _ _ Ed)).
Qed.

Lemma simple_escape_len e c : simple_escape e = Some c -> utf8_len e = 1.
Proof.
  unfold simple_escape.
  repeat match goal with |- (if ?x =? ?y then _ else _) = _ -> _ => destruct (Z.eqb_spec x y); [subst; intros _; reflexivity|] end. discriminate.
Qed.

Lemma consume_inside_spells t k : spells t k -> forall rest buf n fu, (length t < fu)%nat ->
  consume_inside fu 34 (t ++ 34 :: rest) buf n = Some (rev buf ++ t, rest, n + byte_len t + 1).
Proof.
  induction 1 as [|c t k Hc1 Hc2 Hc3 Hs IH|e c t k He Hs IH|a b c d n0 t k Hh Hn Hs IH|a b c d a2 b2 c2 d2 n0 n2 t k Hh Hn Hh2 Hn2 Hs IH];
    intros rest buf n fu Hf; cbn [app length] in *.
  - destruct fu as [|fu]; [inversion Hf|]. cbn [consume_inside]. rewrite Z.eqb_refl, rev_append_rev, app_nil_r. cbn [byte_len]. change (utf8_len 34) with 1. f_equal. f_equal. lia.
  - destruct fu as [|fu]; [inversion Hf|]. rewrite ci_char by assumption. rewrite IH by lia. cbn [rev byte_len]. rewrite <- app_assoc. cbn [app]. f_equal. f_equal. lia.
  - destruct fu as [|fu]; [inversion Hf|]. rewrite ci_pair. rewrite IH by lia. cbn [rev byte_len]. rewrite <- !app_assoc. cbn [app]. f_equal. f_equal.
    rewrite u92, (simple_escape_len e c He). lia.
  - destruct (hex4v_chars _ _ _ _ _ Hh) as ((A1 & A2 & A3) & (B1 & B2 & B3) & (C1 & C2 & C3) & (D1 & D2 & D3)).
    do 5 (destruct fu as [|fu]; [cbn [length] in Hf; lia|]).
    rewrite ci_pair, ci_char, ci_char, ci_char, ci_char by assumption. rewrite IH by (cbn [length] in Hf; lia).
    cbn [rev byte_len]. rewrite <- !app_assoc. cbn [app]. f_equal. f_equal. rewrite u92, A3, B3, C3, D3. change (utf8_len 117) with 1. lia.
  - destruct (hex4v_chars _ _ _ _ _ Hh) as ((A1 & A2 & A3) & (B1 & B2 & B3) & (C1 & C2 & C3) & (D1 & D2 & D3)).
    destruct (hex4v_chars _ _ _ _ _ Hh2) as ((E1 & E2 & E3) & (F1 & F2 & F3) & (G1 & G2 & G3) & (I1 & I2 & I3)).
    do 10 (destruct fu as [|fu]; [cbn [length] in Hf; lia|]).
    rewrite ci_pair, ci_char, ci_char, ci_char, ci_char by assumption. rewrite ci_pair, ci_char, ci_char, ci_char, ci_char by assumption.
    rewrite IH by (cbn [length] in Hf; lia).
    cbn [rev byte_len]. rewrite <- !app_assoc. cbn [app]. f_equal. f_equal. rewrite u92, A3, B3, C3, D3, E3, F3, G3, I3. change (utf8_len 117) with 1. lia.
Qed.

(* ---------- the JSON reader on a quoted string ---------- *)
Lemma parse_value_string fu d r :
  parse_value (S fu) d (34 :: r) = Ok (option_map (fun '(str, r') => (VStr str, r')) (parse_string r)).
Proof. reflexivity. Qed.

Lemma from_json_string t k : spells t k -> from_json (34 :: t ++ [34]) = Ok (Some (VStr k)).
Proof.
  intros H. unfold from_json. cbn [length Nat.add]. rewrite parse_value_string.
  rewrite (parse_string_spells t k [] H). reflexivity.
Qed.

Lemma lex_go_quoted f r pos acc :
  lex_go (S f) (34 :: r) pos acc =
    match consume_inside (S (length r)) 34 r [] 0 with
    | None => lex_err pos
    | Some (buf, r', n) =>
        let* o := no_err_j (from_json (34 :: buf ++ [34])) in
        match o with
        | Some (VStr k) => lex_go f r' (pos + 1 + n) ((pos, TQuotedIdentifier k) :: acc)
        | _ => lex_err pos
        end
    end.
Proof. reflexivity. Qed.

(** Every JSON spelling [t] of a name [k] — plain characters, the two-character
    escapes, \uXXXX, surrogate pairs — put between double quotes lexes to the
    quoted identifier [k]. *)
Theorem quoted_identifier t k : spells t k ->
  tokenize (34 :: t ++ [34]) = Ok [(0, TQuotedIdentifier k); (0 + 1 + (0 + byte_len t + 1), TEof)].
Proof.
  intros H. unfold tokenize. cbn [length]. rewrite lex_go_quoted.
  rewrite (consume_inside_spells t k H [] [] 0) by (rewrite app_length; cbn [length]; lia).
  cbn [rev app]. rewrite (from_json_string t k H). cbn [no_err_j bind].
  rewrite app_length. cbn [length]. rewrite Nat.add_comm. cbn [Nat.add]. rewrite lex_go_end. reflexivity.
Qed.

(** in particular the canonical spelling (what a JSON printer writes) of any name *)
Theorem quoted_identifier_canonical k : Forall (fun c => 0 <= c) k ->
  tokenize (print_string k) =
    Ok [(0, TQuotedIdentifier k); (0 + 1 + (0 + byte_len (flat_map escape_char k) + 1), TEof)].
Proof. intros H. unfold print_string. apply quoted_identifier. now apply print_string_spells. Qed.

From JP Require Import Parser.

Theorem quoted_compile t k : spells t k -> parse (34 :: t ++ [34]) = Ok (AField k).
Proof. intros H. unfold parse. rewrite (quoted_identifier t k H). reflexivity. Qed.

(* ---------- string literals between backticks ---------- *)
(** a JSON text inside a literal: every backtick is written backslash-backtick *)
Fixpoint bt_spell (s : str) : str :=
  match s with
  | [] => []
  | c :: r => if c =? 96 then 92 :: 96 :: bt_spell r else c :: bt_spell r
  end.

Lemma bt_spell_app a b : bt_spell (a ++ b) = bt_spell a ++ bt_spell b.
Proof. induction a as [|c a IH]; [reflexivity|]. cbn [app bt_spell]. destruct (c =? 96); cbn [app]; now rewrite IH. Qed.

Lemma bt_spell_head s : match bt_spell s with 96 :: _ => False | _ => True end.
Proof.
  destruct s as [|c r]; cbn [bt_spell]; [exact I|]. destruct (c =? 96) eqn:E; [exact I|].
  destruct c; try exact I. repeat (destruct p; try exact I). discriminate E.
Qed.

Lemma unescape_bt_all s : unescape 96 (bt_spell s) = s.
Proof.
  induction s as [|c s IH]; [reflexivity|]. cbn [bt_spell]. destruct (c =? 96) eqn:E.
  - apply Z.eqb_eq in E. subst c. cbn [unescape]. rewrite !Z.eqb_refl. cbn. now rewrite IH.
  - destruct (c =? 92) eqn:E2.
    + apply Z.eqb_eq in E2. subst c. pose proof (bt_spell_head s) as Hh. cbn [unescape]. rewrite Z.eqb_refl.
      destruct (bt_spell s) as [|c' r'] eqn:Er.
      * destruct s as [|x s']; [reflexivity|]. cbn [bt_spell] in Er. destruct (x =? 96); discriminate.
      * assert ((c' =? 96) = false) as -> by (apply Z.eqb_neq; intros ->; exact Hh). now rewrite IH.
    + cbn [unescape]. rewrite E2. now rewrite IH.
Qed.

Lemma cib_char fu c r buf n : c <> 96 -> c <> 92 ->
  consume_inside (S fu) 96 (c :: r) buf n = consume_inside fu 96 r (c :: buf) (n + utf8_len c).
Proof. intros H1 H2. cbn [consume_inside]. assert ((c =? 96) = false) as -> by lia. assert ((c =? 92) = false) as -> by lia. reflexivity. Qed.

Lemma cib_pair fu c2 r buf n :
  consume_inside (S fu) 96 (92 :: c2 :: r) buf n = consume_inside fu 96 r (c2 :: 92 :: buf) (n + 1 + utf8_len c2).
Proof. reflexivity. Qed.

Lemma bt_other c r : (c =? 96) = false -> bt_spell (c :: r) = c :: bt_spell r.
Proof. intros E. cbn [bt_spell]. now rewrite E. Qed.

Lemma bt_quote r : bt_spell (96 :: r) = 92 :: 96 :: bt_spell r.
Proof. reflexivity. Qed.

Lemma hexval_not_bt a v : hexval a = Some v -> (a =? 96) = false.
Proof.
  unfold hexval, is_digit. destruct ((48 <=? a) && (a <=? 57)) eqn:E1; [lia|].
  destruct ((97 <=? a) && (a <=? 102)) eqn:E2; [lia|]. destruct ((65 <=? a) && (a <=? 70)) eqn:E3; [lia|discriminate].
Qed.

Lemma hex4v_not_bt a b c d n : hex4v a b c d = Some n -> (a =? 96) = false /\ (b =? 96) = false /\ (c =? 96) = false /\ (d =? 96) = false.
Proof.
  unfold hex4v. destruct (hexval a) eqn:Ea, (hexval b) eqn:Eb, (hexval c) eqn:Ec, (hexval d) eqn:Ed; try discriminate. intros _.
  repeat split; eapply hexval_not_bt; eassumption.
Qed.

Lemma simple_escape_not_bt e c : simple_escape e = Some c -> (e =? 96) = false.
Proof.
  unfold simple_escape.
  repeat match goal with |- (if ?x =? ?y then _ else _) = _ -> _ => destruct (Z.eqb_spec x y); [subst; intros _; reflexivity|] end. discriminate.
Qed.

Lemma hex4v_inv a b c d n : hex4v a b c d = Some n ->
  exists va vb vc vd, hexval a = Some va /\ hexval b = Some vb /\ hexval c = Some vc /\ hexval d = Some vd.
Proof. unfold hex4v. destruct (hexval a), (hexval b), (hexval c), (hexval d); try discriminate. intros _. eauto 10. Qed.

Lemma cib_hex fu a v r buf n : hexval a = Some v ->
  consume_inside (S fu) 96 (a :: r) buf n = consume_inside fu 96 r (a :: buf) (n + 1).
Proof.
  intros H. destruct (hexval_some a v H) as (_ & H92 & Hl). pose proof (hexval_not_bt a v H) as H96. apply Z.eqb_neq in H96.
  rewrite cib_char by assumption. now rewrite Hl.
Qed.

Lemma cib_u4 fu a b c d n0 r buf n : hex4v a b c d = Some n0 ->
  consume_inside (S (S (S (S (S fu))))) 96 (92 :: 117 :: a :: b :: c :: d :: r) buf n =
    consume_inside fu 96 r (d :: c :: b :: a :: 117 :: 92 :: buf) (n + 6).
Proof.
  intros H. destruct (hex4v_inv _ _ _ _ _ H) as (va & vb & vc & vd & Ha & Hb & Hc & Hd).
  rewrite cib_pair, (cib_hex _ a va) by exact Ha. rewrite (cib_hex _ b vb) by exact Hb. rewrite (cib_hex _ c vc) by exact Hc. rewrite (cib_hex _ d vd) by exact Hd.
  change (utf8_len 117) with 1. f_equal. lia.
Qed.

Lemma bt_u4 a b c d n0 r : hex4v a b c d = Some n0 ->
  bt_spell (92 :: 117 :: a :: b :: c :: d :: r) = 92 :: 117 :: a :: b :: c :: d :: bt_spell r.
Proof.
  intros H. destruct (hex4v_not_bt _ _ _ _ _ H) as (Na & Nb & Nc & Nd).
  rewrite (bt_other 92), (bt_other 117), (bt_other a), (bt_other b), (bt_other c), (bt_other d) by (assumption || reflexivity). reflexivity.
Qed.

Lemma byte_len_u4 a b c d n0 r : hex4v a b c d = Some n0 -> byte_len (92 :: 117 :: a :: b :: c :: d :: r) = 6 + byte_len r.
Proof.
  intros H. destruct (hex4v_chars _ _ _ _ _ H) as ((_ & _ & A3) & (_ & _ & B3) & (_ & _ & C3) & (_ & _ & D3)).
  cbn [byte_len]. rewrite u92, A3, B3, C3, D3. change (utf8_len 117) with 1. lia.
Qed.

(** the scanner passes over the literal spelling of a JSON string body, then over the closing quote, up to the closing backtick *)
Lemma consume_inside_bt t k : spells t k -> forall rest buf n fu, (length (bt_spell t) + 1 < fu)%nat ->
  consume_inside fu 96 (bt_spell t ++ 34 :: 96 :: rest) buf n =
    Some (rev buf ++ bt_spell t ++ [34], rest, n + byte_len (bt_spell t) + 1 + 1).
Proof.
  induction 1 as [|c t k Hc1 Hc2 Hc3 Hs IH|e c t k He Hs IH|a b c d n0 t k Hh Hn Hs IH|a b c d a2 b2 c2 d2 n0 n2 t k Hh Hn Hh2 Hn2 Hs IH];
    intros rest buf n fu Hf.
  - cbn [bt_spell app length] in *. do 2 (destruct fu as [|fu]; [lia|]). rewrite cib_char by discriminate.
    cbn [consume_inside]. rewrite Z.eqb_refl, rev_append_rev, app_nil_r. cbn [rev byte_len]. f_equal. f_equal.
    change (utf8_len 34) with 1. change (utf8_len 96) with 1. lia.
  - destruct (c =? 96) eqn:E96.
    + apply Z.eqb_eq in E96. subst c. rewrite bt_quote in *. cbn [app length] in *.
      destruct fu as [|fu]; [lia|]. rewrite cib_pair. rewrite IH by lia. cbn [rev byte_len]. rewrite <- !app_assoc. cbn [app]. f_equal. f_equal.
      rewrite u92. change (utf8_len 96) with 1. lia.
    + rewrite (bt_other c t E96) in *. cbn [app length] in *. destruct fu as [|fu]; [lia|].
      rewrite cib_char by lia. rewrite IH by lia. cbn [rev byte_len]. rewrite <- !app_assoc. cbn [app]. f_equal. f_equal. lia.
  - pose proof (simple_escape_not_bt e c He) as Ee. assert (E92 : (92 =? 96) = false) by reflexivity.
    rewrite (bt_other 92 (e :: t) E92), (bt_other e t Ee) in *. cbn [app length] in *.
    destruct fu as [|fu]; [lia|]. rewrite cib_pair. rewrite IH by lia. cbn [rev byte_len]. rewrite <- !app_assoc. cbn [app]. f_equal. f_equal.
    rewrite u92, (simple_escape_len e c He). lia.
  - rewrite (bt_u4 _ _ _ _ _ _ Hh) in *. cbn [app length] in Hf |- *.
    do 5 (destruct fu as [|fu]; [exfalso; clear -Hf; lia|]). rewrite (cib_u4 _ _ _ _ _ _ _ _ _ Hh). rewrite IH by (clear -Hf; lia).
    rewrite (byte_len_u4 _ _ _ _ _ _ Hh). cbn [rev]. rewrite <- !app_assoc. cbn [app]. f_equal. f_equal. lia.
  - rewrite (bt_u4 _ _ _ _ _ _ Hh) in *. rewrite (bt_u4 _ _ _ _ _ _ Hh2) in *. cbn [app length] in Hf |- *.
    do 10 (destruct fu as [|fu]; [exfalso; clear -Hf; lia|]). rewrite (cib_u4 _ _ _ _ _ _ _ _ _ Hh), (cib_u4 _ _ _ _ _ _ _ _ _ Hh2). rewrite IH by (clear -Hf; lia).
    rewrite (byte_len_u4 _ _ _ _ _ _ Hh), (byte_len_u4 _ _ _ _ _ _ Hh2). cbn [rev]. rewrite <- !app_assoc. cbn [app]. f_equal. f_equal. lia.
Qed.

Lemma lex_go_backtick f r pos acc :
  lex_go (S f) (96 :: r) pos acc =
    match consume_inside (S (length r)) 96 r [] 0 with
    | None => lex_err pos
    | Some (buf, r', n) =>
        let* o := no_err_j (from_json (unescape 96 buf)) in
        match o with
        | Some v => lex_go f r' (pos + 1 + n) ((pos, TLiteral v) :: acc)
        | None => lex_err pos
        end
    end.
Proof. reflexivity. Qed.

Lemma bt_spell_quoted t : bt_spell (34 :: t ++ [34]) = 34 :: bt_spell t ++ [34].
Proof. rewrite (bt_other 34) by reflexivity. now rewrite bt_spell_app. Qed.

(** A JSON string literal between backticks (its backticks written
    backslash-backtick) is the literal holding the string it spells. *)
Theorem string_literal t k : spells t k ->
  exists p, tokenize (96 :: bt_spell (34 :: t ++ [34]) ++ [96]) = Ok [(0, TLiteral (VStr k)); (p, TEof)].
Proof.
  intros H. unfold tokenize. cbn [length]. rewrite lex_go_backtick. rewrite bt_spell_quoted. cbn [app].
  rewrite <- app_assoc. cbn [app length]. rewrite cib_char by discriminate.
  rewrite (consume_inside_bt t k H [] [34] (0 + utf8_len 34)) by (rewrite app_length; cbn [length]; lia).
  cbn [rev app]. replace (34 :: bt_spell t ++ [34]) with (bt_spell (34 :: t ++ [34])) by apply bt_spell_quoted.
  rewrite unescape_bt_all, (from_json_string t k H). cbn [no_err_j bind].
  rewrite app_length. cbn [length]. rewrite Nat.add_comm. cbn [Nat.add]. rewrite lex_go_end. eexists. reflexivity.
Qed.

Theorem string_literal_compile t k : spells t k -> parse (96 :: bt_spell (34 :: t ++ [34]) ++ [96]) = Ok (ALiteral (VStr k)).
Proof. intros H. unfold parse. destruct (string_literal t k H) as (p & ->). reflexivity. Qed.
