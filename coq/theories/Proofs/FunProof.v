(** C02: what the builtins compute, against declarative specifications. *)
From Coq Require Import Sorting.Permutation Sorting.Sorted ZifyBool.
From JP Require Import Base F64 Value Sig JsonRead JsonPrint Functions Interp Proofs.ObjFacts.

(* ---------- stable sort ---------- *)
Section SortSpec.
  Context {A : Type} (cmp : A -> A -> comparison).
  Definition le (x y : A) : Prop := cmp x y <> Gt.

  Lemma insert_perm x l : Permutation (x :: l) (insert_sorted cmp x l).
  Proof.
    induction l as [|y l IH]; cbn; [reflexivity|].
    destruct (cmp x y); try reflexivity.
    rewrite perm_swap. now apply perm_skip.
  Qed.

  Theorem stable_sort_perm l : Permutation l (stable_sort cmp l).
  Proof.
    induction l as [|x l IH]; cbn; [reflexivity|].
    rewrite <- insert_perm. now apply perm_skip.
  Qed.

  (** On a total preorder (what the signatures guarantee: all numbers or all strings) the result is sorted. *)
  Hypothesis cmp_total : forall x y, cmp x y = Gt -> cmp y x <> Gt.
  Hypothesis cmp_trans : forall x y z, le x y -> le y z -> le x z.

  Lemma insert_sorted_sorted x l : StronglySorted le l -> StronglySorted le (insert_sorted cmp x l).
  Proof.
    induction 1 as [|y l Hs IH Hall]; cbn.
    - constructor; constructor.
    - destruct (cmp x y) eqn:E.
      + constructor; [constructor; assumption|]. constructor; [unfold le; congruence|].
        eapply Forall_impl; [|exact Hall]. intros z Hz. eapply cmp_trans; [|exact Hz]. unfold le. congruence.
      + constructor; [constructor; assumption|]. constructor; [unfold le; congruence|].
        eapply Forall_impl; [|exact Hall]. intros z Hz. eapply cmp_trans; [|exact Hz]. unfold le. congruence.
      + constructor; [exact IH|].
        assert (Forall (le y) (x :: l)) as Hf by (constructor; [apply cmp_total; exact E|exact Hall]).
        eapply Permutation_Forall; [apply insert_perm|exact Hf].
  Qed.

  Theorem stable_sort_sorted l : StronglySorted le (stable_sort cmp l).
  Proof. induction l as [|x l IH]; cbn; [constructor|]. now apply insert_sorted_sorted. Qed.

  (** Stability: elements that compare equal keep their input order. Stated on
      the sub-list of elements equivalent to a given one. *)
  Definition equiv_to (k : A) (x : A) : bool := match cmp x k, cmp k x with Eq, Eq => true | _, _ => false end.

  Hypothesis cmp_eq_compat : forall k x y, equiv_to k x = true -> cmp x y = cmp k y /\ cmp y x = cmp y k.

  Lemma insert_filter k x l :
    StronglySorted le l ->
    filter (equiv_to k) (insert_sorted cmp x l) = filter (equiv_to k) (x :: l).
  Proof.
    induction 1 as [|y l Hs IH Hall]; [reflexivity|]. cbn [insert_sorted].
    destruct (cmp x y) eqn:E; try reflexivity.
    cbn [filter]. rewrite IH. cbn [filter].
    destruct (equiv_to k x) eqn:Ex, (equiv_to k y) eqn:Ey; try reflexivity.
    (* both equivalent to k: then cmp x y = Eq, contradiction with Gt *)
    exfalso. destruct (cmp_eq_compat k x y Ex) as [H1 _].
    unfold equiv_to in Ey. rewrite E in H1. destruct (cmp y k) eqn:E1, (cmp k y) eqn:E2; try discriminate.
  Qed.

  Theorem stable_sort_stable k l : filter (equiv_to k) (stable_sort cmp l) = filter (equiv_to k) l.
  Proof.
    induction l as [|x l IH]; [reflexivity|]. cbn [stable_sort fold_right].
    rewrite insert_filter by apply stable_sort_sorted. cbn [filter]. fold (stable_sort cmp l). now rewrite IH.
  Qed.
End SortSpec.

(* ---------- per-function facts ---------- *)
Definition call (b : builtin) (sg : signature) (args : list value) : res (value * Z) :=
  call_builtin (fun _ _ _ => Trap) b sg args 0.

Lemma fold_pairs_eq {A} (x : list (str * A)) acc :
  fold_left (fun m '(k0, v) => obj_insert m k0 v) x acc = fold_left (fun m kv => obj_insert m (fst kv) (snd kv)) x acc.
Proof. revert acc; induction x as [|[k0 v] x IHx]; intros acc; cbn; [reflexivity|apply IHx]. Qed.

Lemma merge_fold objs : forall acc,
  fold_left (fun acc a => let* r := acc in
               match a with
               | VObj o0 => Ok (fold_left (fun m '(k0, v) => obj_insert m k0 v) o0 r)
               | _ => fabricated
               end) (map VObj objs) (Ok acc)
  = Ok (fold_left (fun m kv => obj_insert m (fst kv) (snd kv)) (concat objs) acc).
Proof.
  induction objs as [|x objs IH]; intros acc; [reflexivity|].
  cbn [map fold_left concat bind]. rewrite fold_left_app, fold_pairs_eq. apply IH.
Qed.

Lemma merge_right_biased ev sg objs off o k :
  validate sg (map VObj objs) off = Ok tt ->
  call_builtin ev BMerge sg (map VObj objs) off = Ok (VObj o, off) ->
  obj_get o k = last_binding (concat objs) k.
Proof.
  intros Hv. unfold call_builtin. rewrite Hv. cbn [bind]. unfold merge_objs. rewrite merge_fold.
  cbn. intros H. injection H as <-. rewrite fold_insert_get. destruct (last_binding (concat objs) k); reflexivity.
Qed.

Lemma keys_values_pairwise o :
  combine (map (fun kv => VStr (fst kv)) o) (map (@snd str value) o) = map (fun kv => (VStr (fst kv), snd kv)) o.
Proof. induction o as [|[k v] o IH]; cbn; [reflexivity|]. now rewrite IH. Qed.

Lemma keys_spec ev sg o off : validate sg [VObj o] off = Ok tt ->
  call_builtin ev BKeys sg [VObj o] off = Ok (VArr (map (fun kv => VStr (fst kv)) o), off).
Proof. intros Hv. unfold call_builtin. now rewrite Hv. Qed.

Lemma values_spec ev sg o off : validate sg [VObj o] off = Ok tt ->
  call_builtin ev BValues sg [VObj o] off = Ok (VArr (map snd o), off).
Proof. intros Hv. unfold call_builtin. now rewrite Hv. Qed.

Lemma length_counts_code_points ev sg s off : validate sg [VStr s] off = Ok tt ->
  call_builtin ev BLength sg [VStr s] off = Ok (VNum (PosInt (zlen s)), off).
Proof. intros Hv. unfold call_builtin. now rewrite Hv. Qed.

Lemma reverse_code_points ev sg s off : validate sg [VStr s] off = Ok tt ->
  call_builtin ev BReverse sg [VStr s] off = Ok (VStr (rev s), off).
Proof. intros Hv. unfold call_builtin. now rewrite Hv. Qed.

Lemma reverse_array ev sg l off : validate sg [VArr l] off = Ok tt ->
  call_builtin ev BReverse sg [VArr l] off = Ok (VArr (rev l), off).
Proof. intros Hv. unfold call_builtin. now rewrite Hv. Qed.

Lemma avg_empty_null ev sg off : validate sg [VArr []] off = Ok tt ->
  call_builtin ev BAvg sg [VArr []] off = Ok (VNull, off).
Proof. intros Hv. unfold call_builtin. now rewrite Hv. Qed.

Lemma to_number_number_or_null ev sg a off v o : validate sg [a] off = Ok tt ->
  call_builtin ev BToNumber sg [a] off = Ok (v, o) -> is_number v = true \/ v = VNull.
Proof.
  intros Hv. unfold call_builtin. rewrite Hv. cbn [bind arg0]. destruct a; cbn; try (intros H; injection H as <- _; auto).
  destruct (no_err (from_json s)) as [[x|]| | | |]; cbn; try discriminate.
  - destruct (is_number x) eqn:E; intros H; injection H as <- _; auto.
  - intros H; injection H as <- _; auto.
Qed.

Lemma sort_spec ev sg l off : validate sg [VArr l] off = Ok tt ->
  call_builtin ev BSort sg [VArr l] off = Ok (VArr (stable_sort var_cmp l), off).
Proof. intros Hv. unfold call_builtin. now rewrite Hv. Qed.

(** [map] keeps nulls and preserves the length; the expression is evaluated once
    per element, against that element, in order. *)
Inductive each (ev : evaluator) (ast : ast) : list value -> Z -> list value -> Z -> Prop :=
| each_nil o : each ev ast [] o [] o
| each_cons v vs o r o1 rs o2 : ev v ast o = Ok (r, o1) -> each ev ast vs o1 rs o2 -> each ev ast (v :: vs) o (r :: rs) o2.

Lemma map_loop_each ev ast vs o rs o' : each ev ast vs o rs o' ->
  forall acc, map_loop ev ast vs acc o = Ok (VArr (rev acc ++ rs), o').
Proof.
  induction 1 as [o|v vs o r o1 rs o2 Hv Hs IH]; intros acc; cbn [map_loop].
  - now rewrite app_nil_r.
  - rewrite Hv. cbn. rewrite IH. cbn [rev]. now rewrite <- app_assoc.
Qed.

Lemma each_length ev ast vs o rs o' : each ev ast vs o rs o' -> length rs = length vs.
Proof. induction 1; cbn; auto. Qed.

Lemma map_spec ev sg ast vs off rs off' : validate sg [VExpref ast; VArr vs] off = Ok tt ->
  each ev ast vs off rs off' ->
  call_builtin ev BMap sg [VExpref ast; VArr vs] off = Ok (VArr rs, off').
Proof. intros Hv He. unfold call_builtin. rewrite Hv. cbn. now rewrite (map_loop_each _ _ _ _ _ _ He []). Qed.

(** max_by / min_by return an element of the input (or null on an empty array). *)
Lemma by_loop_in ev better ast ty : forall vs inv cand ckey off r o,
  by_loop ev better ast ty vs inv cand ckey off = Ok (r, o) -> r = cand \/ In r vs.
Proof.
  induction vs as [|v vs IH]; intros inv cand ckey off r o; cbn [by_loop].
  - intros H. injection H as <- _. now left.
  - destruct (ev v ast off) as [[mapped off1]| | | |]; cbn; try discriminate.
    destruct (negb (jtype_eqb (get_type mapped) ty)); [discriminate|].
    destruct (better (var_cmp mapped ckey)); intros H; apply IH in H as [->|H]; auto; right; cbn; auto.
Qed.

Lemma max_by_returns_element ev (better : bool) sg vs e off r o :
  validate sg [VArr vs; e] off = Ok tt ->
  call_builtin ev (if better then BMaxBy else BMinBy) sg [VArr vs; e] off = Ok (r, o) ->
  (vs = [] /\ r = VNull) \/ In r vs.
Proof.
  intros Hv. unfold call_builtin. rewrite Hv. cbn [bind].
  destruct better; unfold min_and_max_by; cbn [arg0 arg1 bind]; destruct vs as [|v0 vs];
    try (intros H; injection H as <- _; left; split; reflexivity);
    destruct e; try discriminate;
    destruct (ev v0 a off) as [[initial off1]| | | |]; cbn; try discriminate;
    destruct (negb (by_type_ok (get_type initial))); try discriminate;
    intros H; apply by_loop_in in H as [->|H]; right; cbn; auto.
Qed.
