(** C15 (registry = latest live binding) and C13 (purity of compile/search over histories). *)
From Coq Require Import Sorting.Sorted ZifyBool.
From JP Require Import Base F64 Value Sig Functions Interp Lexer Parser History Proofs.ObjFacts.

(* ---------- registry ---------- *)
Lemma rt_get_register rt n f name : rt_get (rt_register rt n f) name = if str_eqb name n then Some f else rt_get rt name.
Proof. apply obj_get_insert. Qed.

Lemma obj_get_above {A} (o : list (str * A)) n (x : A) : Forall (key_lt (n, x)) o -> obj_get o n = None.
Proof.
  induction 1 as [|[k v] o Hk Ho IH]; cbn; [reflexivity|].
  unfold key_lt in Hk. cbn in Hk. rewrite str_eqb_cmp, Hk. exact IH.
Qed.

Lemma deregister_Forall (P : str * fimpl -> Prop) rt n : Forall P rt -> Forall P (rt_deregister rt n).
Proof.
  induction 1 as [|[k v] rt Hk Hrt IH]; cbn; [constructor|].
  destruct (str_eqb k n); [assumption|constructor; assumption].
Qed.

Lemma deregister_sorted rt n : sorted_keys rt -> sorted_keys (rt_deregister rt n).
Proof.
  induction rt as [|[k v] rt IH]; intros Hs; cbn; [constructor|].
  apply StronglySorted_inv in Hs as [Hs Hall].
  destruct (str_eqb k n); [assumption|]. constructor; [apply IH; assumption|]. now apply deregister_Forall.
Qed.

Lemma rt_get_deregister rt n name : sorted_keys rt ->
  rt_get (rt_deregister rt n) name = if str_eqb name n then None else rt_get rt name.
Proof.
  unfold rt_get. induction rt as [|[k v] rt IH]; intros Hs; cbn.
  - destruct (str_eqb name n); reflexivity.
  - apply StronglySorted_inv in Hs as [Hs Hall]. destruct (str_eqb k n) eqn:Ekn.
    + apply str_eqb_eq in Ekn. subst k. destruct (str_eqb name n) eqn:Enn.
      * apply str_eqb_eq in Enn. subst name. eapply obj_get_above. exact Hall.
      * reflexivity.
    + cbn. destruct (str_eqb name k) eqn:Enk.
      * apply str_eqb_eq in Enk. subst name. rewrite Ekn. reflexivity.
      * apply IH. assumption.
Qed.

Lemma register_builtins_sorted rt : sorted_keys rt -> sorted_keys (register_builtins rt).
Proof. apply fold_insert_sorted. Qed.

Lemma rt_get_register_builtins rt name :
  rt_get (register_builtins rt) name =
    match last_binding builtin_entries name with Some f => Some f | None => rt_get rt name end.
Proof. apply fold_insert_get. Qed.

Lemma apply_rop_sorted rt op : sorted_keys rt -> sorted_keys (apply_rop rt op).
Proof.
  destruct op; cbn; intros H; [now apply obj_insert_sorted|now apply deregister_sorted|now apply register_builtins_sorted].
Qed.

(** Specification: scan the history from its end; the most recent operation that
    mentions the name decides. *)
Fixpoint latest_binding (ops_rev : list rop) (name : str) : option fimpl :=
  match ops_rev with
  | [] => None
  | OReg n f :: r => if str_eqb name n then Some f else latest_binding r name
  | ODereg n :: r => if str_eqb name n then None else latest_binding r name
  | ORegBuiltins :: r =>
      match last_binding builtin_entries name with Some f => Some f | None => latest_binding r name end
  end.

Lemma fold_apply_sorted ops rt : sorted_keys rt -> sorted_keys (fold_left apply_rop ops rt).
Proof. revert rt; induction ops as [|op ops IH]; intros rt H; cbn; [assumption|]. apply IH. now apply apply_rop_sorted. Qed.

Theorem registry_latest_binding ops name :
  rt_get (fold_left apply_rop ops []) name = latest_binding (rev ops) name.
Proof.
  induction ops as [|op ops IH] using rev_ind; [reflexivity|].
  rewrite fold_left_app, rev_app_distr. cbn [fold_left rev app latest_binding].
  assert (sorted_keys (fold_left apply_rop ops [])) as Hs by (apply fold_apply_sorted; constructor).
  destruct op; cbn [apply_rop].
  - rewrite rt_get_register, IH. reflexivity.
  - rewrite rt_get_deregister by assumption. rewrite IH. reflexivity.
  - rewrite rt_get_register_builtins, IH. reflexivity.
Qed.

Lemma fresh_runtime_empty name : rt_get [] name = None.
Proof. reflexivity. Qed.

(* ---------- purity over histories ---------- *)
(** What an operation observes is a function of the bindings in force — the
    text bound to the handle and the registry of its runtime — and of its own
    arguments; nothing else of the history (other searches, failures, clones,
    drops of other handles) can influence it. *)
Definition pure_obs (st : hstate) (op : hop) : hobs := snd (hstep st op).

Lemma hrun_cons st op ops : hrun st (op :: ops) = pure_obs st op :: hrun (fst (hstep st op)) ops.
Proof. unfold pure_obs. cbn. destruct (hstep st op). reflexivity. Qed.

(** Searching, querying and failed operations do not change the state at all. *)
Lemma search_leaves_state st h d : fst (hstep st (HSearch h d)) = st.
Proof.
  cbn. destruct (zget (handles st) h) as [[[text a] r]|]; [|reflexivity].
  destruct a; try reflexivity. destruct (rt_of st r); reflexivity.
Qed.

Lemma get_leaves_state st r n : fst (hstep st (HGet r n)) = st.
Proof. cbn. destruct (rt_of st r); reflexivity. Qed.

(** The same search gives the same observation at any two points of a history
    between which the handle and its runtime were not rebound. *)
Definition same_bindings (s1 s2 : hstate) (h : Z) : Prop :=
  zget (handles s1) h = zget (handles s2) h /\
  forall r, rt_of s1 r = rt_of s2 r.

Theorem search_history_independent s1 s2 h d :
  same_bindings s1 s2 h -> pure_obs s1 (HSearch h d) = pure_obs s2 (HSearch h d).
Proof.
  intros [Hh Hr]. unfold pure_obs. cbn. rewrite Hh.
  destruct (zget (handles s2) h) as [[[text a] r]|]; [|reflexivity].
  destruct a; try reflexivity. rewrite (Hr r). destruct (rt_of s2 r); reflexivity.
Qed.

(** Any number of searches (failing or not) in between changes nothing. *)
Lemma searches_leave_state st qs :
  fold_left (fun s q => fst (hstep s (HSearch (fst q) (snd q)))) qs st = st.
Proof. revert st; induction qs as [|[h d] qs IH]; intros st; cbn [fold_left]; [reflexivity|]. cbn [fst snd]. rewrite search_leaves_state. apply IH. Qed.

(** A clone behaves like the original, and like a fresh compilation of the same text on the same runtime. *)
Theorem clone_behaves_like_original st h h2 d :
  zget (handles st) h <> None ->
  pure_obs (fst (hstep st (HClone h2 h))) (HSearch h2 d) = pure_obs st (HSearch h d).
Proof.
  intros Hh. unfold pure_obs. cbn. destruct (zget (handles st) h) as [e|] eqn:E; [|congruence].
  cbn. rewrite Z.eqb_refl. destruct e as [[text a] r]. destruct a; try reflexivity.
  unfold rt_of. cbn. destruct (r =? 0); [reflexivity|]. destruct (zget (runtimes st) r); reflexivity.
Qed.

Theorem compile_deterministic st1 st2 h1 h2 r text :
  rt_of st1 r <> None -> rt_of st2 r <> None ->
  pure_obs st1 (HCompile h1 r text) = pure_obs st2 (HCompile h2 r text).
Proof.
  intros H1 H2. unfold pure_obs. cbn. destruct (rt_of st1 r); [|congruence]. destruct (rt_of st2 r); [|congruence].
  destruct (parse text); reflexivity.
Qed.

Theorem fresh_compile_same_as_reused st h r text d a :
  parse text = Ok a -> rt_of st r <> None ->
  pure_obs (fst (hstep st (HCompile h r text))) (HSearch h d) =
    match rt_of st r with Some rt => OSearched text (search_ast search_fuel rt a d) | None => OBadHandle end.
Proof.
  intros Hp Hr. unfold pure_obs. cbn [hstep]. destruct (rt_of st r) as [rt|] eqn:E; [|congruence]. rewrite Hp.
  cbn [fst handles zput zget]. rewrite Z.eqb_refl.
  assert (rt_of (mkH (runtimes st) (zput (handles st) h (text, Ok a, r))) r = Some rt) as -> by exact E.
  reflexivity.
Qed.

(** The document is a value: a search returns its result and nothing else; the
    model's search has no access to the document other than reading it. *)
Lemma search_is_a_function rt a d1 d2 : d1 = d2 -> search_ast search_fuel rt a d1 = search_ast search_fuel rt a d2.
Proof. now intros ->. Qed.
