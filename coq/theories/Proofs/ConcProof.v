(** C16 (model part): every interleaving gives each thread exactly the results of
    a sequential run, and the default runtime is initialised at most once, with
    the builtin registry. *)
From Coq Require Import Lia.
From JP Require Import Base F64 Value Interp Lexer Parser History Conc.

Lemma force_registry c : (c = None \/ c = Some default_runtime) -> snd (force c) = default_runtime /\ fst (force c) = Some default_runtime.
Proof. intros [->| ->]; split; reflexivity. Qed.

Lemma nth_error_update_same {A} (l : list A) i x : (i < length l)%nat -> nth_error (update l i x) i = Some x.
Proof. revert i; induction l as [|y l IH]; intros i H; cbn in *; [lia|]. destruct i; cbn; [reflexivity|]. apply IH. lia. Qed.

Lemma nth_error_update_other {A} (l : list A) i j x : i <> j -> nth_error (update l i x) j = nth_error l j.
Proof.
  revert i j; induction l as [|y l IH]; intros i j H; cbn; [reflexivity|].
  destruct i, j; cbn; try reflexivity; try congruence. apply IH. congruence.
Qed.

Lemma update_length {A} (l : list A) i x : length (update l i x) = length l.
Proof. revert i; induction l as [|y l IH]; intros i; cbn; [reflexivity|]. destruct i; cbn; auto. Qed.

(** Invariant: for every thread, results so far ++ sequential results of what is pending = sequential results of its program. *)
Definition inv (progs : list (list op)) (s : cstate) : Prop :=
  (the_cell s = None \/ the_cell s = Some default_runtime) /\
  length (pending s) = length progs /\ length (done s) = length progs /\
  forall i p, nth_error progs i = Some p ->
    exists rest acc, nth_error (pending s) i = Some rest /\ nth_error (done s) i = Some acc /\
                     acc ++ sequential rest = sequential p.

Lemma inv_init progs : inv progs (mkC None progs (map (fun _ => []) progs)).
Proof.
  repeat split; cbn; auto using map_length.
  intros i p Hp. exists p, []. repeat split; auto.
  rewrite nth_error_map, Hp. reflexivity.
Qed.

Lemma inv_step progs s i : inv progs s -> inv progs (cstep s i).
Proof.
  intros (Hc & Hl1 & Hl2 & H). unfold cstep.
  destruct (nth_error (pending s) i) as [[|o rest]|] eqn:Ep; try (repeat split; assumption).
  destruct (nth_error (done s) i) as [acc|] eqn:Ed; try (repeat split; assumption).
  destruct (force_registry (the_cell s) Hc) as [Hrt Hcell].
  destruct (force (the_cell s)) as [c' rt] eqn:Ef. cbn in Hrt, Hcell. subst rt c'.
  repeat split; cbn [the_cell pending done]; try (right; reflexivity); rewrite ?update_length; try assumption.
  intros j p Hp. destruct (Nat.eq_dec i j) as [->|Hne].
  - destruct (H j p Hp) as (rest' & acc' & H1 & H2 & H3).
    rewrite Ep in H1. rewrite Ed in H2. injection H1 as <-. injection H2 as <-.
    assert (j < length (pending s))%nat by (apply nth_error_Some; congruence).
    assert (j < length (done s))%nat by (apply nth_error_Some; congruence).
    exists rest, (acc ++ [run_op default_runtime o]). rewrite !nth_error_update_same by assumption.
    repeat split. rewrite <- app_assoc. exact H3.
  - rewrite !nth_error_update_other by assumption. apply H. exact Hp.
Qed.

Lemma inv_run progs sched : inv progs (crun progs sched).
Proof.
  unfold crun. generalize (inv_init progs). generalize (mkC None progs (map (fun _ => []) progs)).
  induction sched as [|i sched IH]; intros s Hs; cbn; [exact Hs|]. apply IH. now apply inv_step.
Qed.

(** When a thread has finished, it has exactly the sequential results. *)
Theorem thread_results_are_sequential progs sched i p acc :
  nth_error progs i = Some p -> nth_error (pending (crun progs sched)) i = Some [] ->
  nth_error (done (crun progs sched)) i = Some acc -> acc = sequential p.
Proof.
  intros Hp Hpend Hdone. destruct (inv_run progs sched) as (_ & _ & _ & H).
  destruct (H i p Hp) as (rest & acc' & H1 & H2 & H3).
  rewrite Hpend in H1. rewrite Hdone in H2. injection H1 as <-. injection H2 as <-.
  cbn in H3. now rewrite app_nil_r in H3.
Qed.

(** At every point of every schedule, each thread's results are a prefix of the sequential ones. *)
Theorem partial_results_are_sequential_prefix progs sched i p :
  nth_error progs i = Some p ->
  exists rest acc, nth_error (pending (crun progs sched)) i = Some rest /\
                   nth_error (done (crun progs sched)) i = Some acc /\ acc ++ sequential rest = sequential p.
Proof. intros Hp. destruct (inv_run progs sched) as (_ & _ & _ & H). exact (H i p Hp). Qed.

(** The runtime seen by any thread is the builtin registry, whoever initialised it first. *)
Theorem runtime_initialised_once_with_builtins progs sched :
  the_cell (crun progs sched) = None \/ the_cell (crun progs sched) = Some default_runtime.
Proof. destruct (inv_run progs sched) as (H & _). exact H. Qed.
