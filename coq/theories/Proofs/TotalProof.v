(** C05: totality facts — what cannot trap, and the recorded divergence. *)
From Coq Require Import ZifyBool.
From JP Require Import Base F64 Value Sig Slice Functions Interp Lexer Parser Spec.SliceSpec Spec.Semantics Spec.SigSpec
     Proofs.SliceProof Proofs.InterpFacts Proofs.InterpProof Proofs.SigProof.

Definition not_trap {A} (r : res A) : Prop := r <> Trap.
Definition returns {A} (r : res A) : Prop := r <> Trap /\ r <> OOF.

(** Slices never trap, never run out of fuel, never index out of bounds — for the
    whole i32 range of start/stop/step (the repaired overflow). *)
Lemma slice_returns {A} (arr : list A) start stop step : i32_min <= step -> step <> 0 -> returns (slice arr start stop step).
Proof.
  intros H1 H2. destruct (slice_total arr start stop step H1 H2) as [->| ->]; split; discriminate.
Qed.

Lemma negative_index_returns v n : 0 < n -> returns (get_negative_index v n).
Proof.
  intros Hn. unfold get_negative_index. destruct v; try (split; discriminate).
  destruct (zlen l >=? Z.max n 1) eqn:E; [|split; discriminate].
  destruct (index_z_some l (zlen l - Z.max n 1)) as [x Hx]; [lia|]. rewrite Hx. split; discriminate.
Qed.

(** Signature validation never traps (the [self.inputs[k]] index is guarded by the arity check). *)
Lemma validate_returns sg args off : returns (validate sg args off).
Proof.
  rewrite validate_decision. unfold validate_spec.
  destruct (zlen args <? zlen (sig_inputs sg)); [split; discriminate|].
  destruct (match sig_variadic sg with None => zlen (sig_inputs sg) <? zlen args | Some _ => false end); [split; discriminate|].
  destruct (first_bad sg args 0) as [[[k t] v]|]; split; discriminate.
Qed.

(** On the core forms evaluation returns (a value or the invalid-slice error)
    for every tree and document with fuel proportional to the tree height. *)
Lemma core_returns n rt e d o : core e = true -> (height e <= n)%nat -> returns (interp n rt d e o).
Proof.
  intros Hc Hh. destruct (conformance n rt e d o Hc Hh) as [->| ->]; [split; discriminate|].
  assert (forall e' d', core e' = true -> eval e' d' <> Trap /\ eval e' d' <> OOF) as Hev.
  { clear. fix IH 1. intros e' d' Hc. destruct e'; cbn [core] in Hc; try discriminate; cbn [eval];
      repeat match goal with H : _ && _ = true |- _ => apply andb_true_iff in H; destruct H end;
      try (split; discriminate).
    - destruct (IH e'1 d' ltac:(assumption)) as [A1 A2]. destruct (eval e'1 d'); cbn; try (split; congruence).
      destruct (IH e'2 d' ltac:(assumption)) as [B1 B2]. destruct (eval e'2 d'); cbn; split; congruence.
    - destruct (IH e'1 d' ltac:(assumption)) as [A1 A2]. destruct (eval e'1 d'); cbn; try (split; congruence).
      destruct (truthy a); [apply IH; assumption|split; discriminate].
    - destruct (IH e' d' Hc) as [A1 A2]. destruct (eval e' d'); cbn; split; congruence.
    - (* multilist *)
      destruct (non_null d'); [|split; discriminate].
      assert (forall es0, (fix go (es : list ast) : bool := match es with [] => true | x :: r => core x && go r end) es0 = true ->
                let r := (fix go (es : list ast) : res (list value) :=
                            match es with [] => Ok [] | e' :: es' => let* y := eval e' d' in let* ys := go es' in Ok (y :: ys) end) es0 in
                r <> Trap /\ r <> OOF) as Hl.
      { induction es0 as [|x es0 IHes]; intros Hcs; cbn; [split; discriminate|].
        apply andb_true_iff in Hcs as [Hx Hr]. destruct (IH x d' Hx) as [A1 A2]. destruct (eval x d'); cbn; try (split; congruence).
        destruct (IHes Hr) as [B1 B2]. cbn in B1, B2.
        destruct ((fix go (es : list ast) : res (list value) := match es with [] => Ok [] | e' :: es' => let* y := eval e' d' in let* ys := go es' in Ok (y :: ys) end) es0);
          cbn; split; congruence. }
      destruct (Hl es Hc) as [B1 B2]. cbn in B1, B2.
      destruct ((fix go (es : list ast) : res (list value) := match es with [] => Ok [] | e' :: es' => let* y := eval e' d' in let* ys := go es' in Ok (y :: ys) end) es);
        cbn; split; congruence.
    - (* multihash *)
      destruct (non_null d'); [|split; discriminate].
      assert (forall ks0, (fix go (kvs : list (str * ast)) : bool := match kvs with [] => true | (_, x) :: r => core x && go r end) ks0 = true ->
                let r := (fix go (kvs : list (str * ast)) : res (list (str * value)) :=
                            match kvs with [] => Ok [] | (k, e') :: kvs' => let* y := eval e' d' in let* ys := go kvs' in Ok ((k, y) :: ys) end) ks0 in
                r <> Trap /\ r <> OOF) as Hl.
      { induction ks0 as [|[k x] ks0 IHks]; intros Hcs; cbn; [split; discriminate|].
        apply andb_true_iff in Hcs as [Hx Hr]. destruct (IH x d' Hx) as [A1 A2]. destruct (eval x d'); cbn; try (split; congruence).
        destruct (IHks Hr) as [B1 B2]. cbn in B1, B2.
        destruct ((fix go (kvs : list (str * ast)) : res (list (str * value)) :=
                     match kvs with [] => Ok [] | (k, e') :: kvs' => let* y := eval e' d' in let* ys := go kvs' in Ok ((k, y) :: ys) end) ks0);
          cbn; split; congruence. }
      destruct (Hl kvs Hc) as [B1 B2]. cbn in B1, B2.
      destruct ((fix go (kvs : list (str * ast)) : res (list (str * value)) :=
                   match kvs with [] => Ok [] | (k, e') :: kvs' => let* y := eval e' d' in let* ys := go kvs' in Ok ((k, y) :: ys) end) kvs);
        cbn; split; congruence.
    - destruct (IH e' d' Hc) as [A1 A2]. destruct (eval e' d'); cbn; split; congruence.
    - (* projection *)
      destruct (IH e'1 d' ltac:(assumption)) as [A1 A2]. destruct (eval e'1 d') as [v| | | |]; cbn; try (split; congruence).
      destruct v; try (split; discriminate).
      assert (forall l0, mapM (eval e'2) l0 <> Trap /\ mapM (eval e'2) l0 <> OOF) as Hm.
      { induction l0 as [|x l0 IHl]; cbn; [split; discriminate|].
        destruct (IH e'2 x ltac:(assumption)) as [B1 B2]. destruct (eval e'2 x); cbn; try (split; congruence).
        destruct IHl as [C1 C2]. destruct (mapM (eval e'2) l0); cbn; split; congruence. }
      destruct (Hm l) as [C1 C2]. destruct (mapM (eval e'2) l); cbn; split; congruence.
    - destruct (IH e' d' Hc) as [A1 A2]. destruct (eval e' d'); cbn; split; congruence.
    - destruct (IH e'1 d' ltac:(assumption)) as [A1 A2]. destruct (eval e'1 d'); cbn; try (split; congruence).
      destruct (truthy a); [apply IH; assumption|split; discriminate].
    - destruct (IH e'1 d' ltac:(assumption)) as [A1 A2]. destruct (eval e'1 d'); cbn; try (split; congruence).
      destruct (truthy a); [split; discriminate|apply IH; assumption].
    - destruct (step =? 0); split; discriminate.
    - destruct (IH e'1 d' ltac:(assumption)) as [A1 A2]. destruct (eval e'1 d'); cbn; try (split; congruence).
      apply IH; assumption. }
  destruct (Hev e d Hc) as [A1 A2]. destruct (eval e d); cbn; split; congruence.
Qed.

(** Recorded divergence (known finding): a self-applied expression reference.
    [to_array(&map(@[0], [@])) | map(@[0], [@])] exhausts any fuel. *)
Definition n_map : str := [109;97;112].
Definition n_to_array : str := [116;111;95;97;114;114;97;121].
Definition omega_body : ast := AFunction 0 n_map [AIndex 0; AMultiList [AIdentity]].
Definition omega : ast := ASubexpr (AFunction 0 n_to_array [AExpref omega_body]) omega_body.
