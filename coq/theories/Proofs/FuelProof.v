(** C05: the fuel the model gives to its recursive functions is enough — the
    out-of-fuel outcome is unreachable for compile.  Every loop of the JSON
    reader, the lexer and the parser consumes input, and the bounds below are
    the termination measures. *)
From JP Require Import Base F64 Value JsonRead Lexer Parser.

(** Weakest-precondition style: [r] is not out-of-fuel, and a successful result satisfies [Q]. *)
Definition wp {A} (r : res A) (Q : A -> Prop) : Prop := r <> OOF /\ forall a, r = Ok a -> Q a.

Lemma wp_ok {A} (a : A) (Q : A -> Prop) : Q a -> wp (Ok a) Q.
Proof. intros H. split; [discriminate|]. intros a' E. injection E as <-. exact H. Qed.
Lemma wp_err {A} e (Q : A -> Prop) : wp (Err e) Q.
Proof. split; discriminate. Qed.
Lemma wp_unm {A} (Q : A -> Prop) : wp Unmodelled Q.
Proof. split; discriminate. Qed.
Lemma wp_trap {A} (Q : A -> Prop) : wp Trap Q.
Proof. split; discriminate. Qed.
Lemma wp_bind {A B} (r : res A) (k : A -> res B) (Q : B -> Prop) :
  wp r (fun a => wp (k a) Q) -> wp (bind r k) Q.
Proof.
  intros [H1 H2]. destruct r as [a|e| | |]; cbn; try (split; discriminate).
  - apply H2. reflexivity.
  - exfalso. apply H1. reflexivity.
Qed.
Lemma wp_mono {A} (r : res A) (Q Q' : A -> Prop) : wp r Q -> (forall a, Q a -> Q' a) -> wp r Q'.
Proof. intros [H1 H2] H. split; [exact H1|]. intros a E. apply H, H2, E. Qed.
Lemma wp_noof {A} (r : res A) (Q : A -> Prop) : wp r Q -> r <> OOF.
Proof. intros [H _]. exact H. Qed.

(* ---------- JSON reader ---------- *)
Definition le_rest {A} (n : nat) (o : option (A * str)) : Prop :=
  forall a r, o = Some (a, r) -> (length r <= n)%nat.
Definition lt_rest {A} (n : nat) (o : option (A * str)) : Prop :=
  forall a r, o = Some (a, r) -> (length r < n)%nat.

Lemma skip_ws_len s : (length (skip_ws s) <= length s)%nat.
Proof. induction s as [|c r IH]; cbn; [lia|]. destruct (is_ws c); cbn; lia. Qed.
Lemma skip_digits_len s : (length (skip_digits s) <= length s)%nat.
Proof. induction s as [|c r IH]; cbn; [lia|]. destruct (is_digit c); cbn; lia. Qed.

Lemma exp_digits_len s : forall e, (length (snd (exp_digits s e)) <= length s)%nat.
Proof.
  induction s as [|c r IH]; intros e; cbn; [lia|]. destruct (is_digit c); cbn; [|lia].
  destruct (ovf _ _ _); cbn; [lia|]. specialize (IH (e * 10 + (c - 48))). lia.
Qed.

Lemma dec_digits_loop_len s : forall sg e, (length (snd (dec_digits_loop s sg e)) <= length s)%nat.
Proof.
  induction s as [|c r IH]; intros sg e; cbn; [lia|]. destruct (is_digit c); cbn; [|lia].
  destruct (ovf _ _ _); cbn; [lia|]. specialize (IH (sg * 10 + (c - 48)) (e - 1)). lia.
Qed.

Lemma count_digits_len s : forall n, (length (snd (count_digits s n)) <= length s)%nat.
Proof.
  induction s as [|c r IH]; intros n; cbn; [lia|]. destruct (is_digit c); cbn; [|lia].
  specialize (IH (n + 1)). lia.
Qed.

Lemma int_digits_loop_len s : forall sg, (length (snd (int_digits_loop s sg)) <= length s)%nat.
Proof.
  induction s as [|c r IH]; intros sg; cbn; [lia|]. destruct (is_digit c); cbn; [|lia].
  destruct (ovf _ _ _); cbn; [lia|]. specialize (IH (sg * 10 + (c - 48))). lia.
Qed.

Lemma f64_from_parts_go_noof : forall fuel f e, f64_from_parts_go fuel f e <> OOF.
Proof.
  induction fuel as [|fu IH]; intros f e; cbn [f64_from_parts_go]; [discriminate|].
  repeat match goal with |- (if ?b then _ else _) <> _ => destruct b end; try discriminate. apply IH.
Qed.

Lemma lift_f_wp pos sg e rest n : (length rest <= n)%nat -> wp (lift_f (f64_from_parts pos sg e) rest) (le_rest n).
Proof.
  intros H. unfold lift_f, f64_from_parts. pose proof (f64_from_parts_go_noof 6 (f_of_Z sg) e) as Hn.
  destruct (f64_from_parts_go 6 (f_of_Z sg) e) as [o|?| | |]; cbn; try (split; discriminate); [|contradiction].
  apply wp_ok. intros a r E. destruct o; cbn in E; [|discriminate]. injection E as _ <-. exact H.
Qed.

Lemma parse_exponent_wp pos sg st s n : (length s <= n)%nat -> wp (parse_exponent pos sg st s) (le_rest n).
Proof.
  intros H. unfold parse_exponent.
  match goal with
  | |- wp (let '(_, _) := ?p in _) _ =>
      assert (Hs1 : (length (snd p) <= n)%nat);
      [ destruct s as [|c0 r0]; [exact H|]; cbn [length] in H;
        repeat match goal with |- context [match ?x with _ => _ end] => destruct x end; cbn [snd length]; lia
      | destruct p as [pe s1]; cbn [snd] in Hs1 ]
  end.
  destruct s1 as [|c r]; [apply wp_ok; intros ? ? E; discriminate|]. cbn [length] in Hs1.
  destruct (is_digit c); [|apply wp_ok; intros ? ? E; discriminate].
  pose proof (exp_digits_len r (c - 48)) as Hl. destruct (exp_digits r (c - 48)) as [[ex|] r']; cbn [snd] in Hl.
  - apply lift_f_wp. lia.
  - destruct (negb (sg =? 0) && pe); apply wp_ok; intros a r0 E; [discriminate|].
    injection E as _ <-. pose proof (skip_digits_len r'). lia.
Qed.

Lemma parse_decimal_wp pos sg eb s n : (length s <= n)%nat -> wp (parse_decimal pos sg eb s) (le_rest n).
Proof.
  intros H. unfold parse_decimal. pose proof (dec_digits_loop_len s sg 0) as Hl.
  destruct (dec_digits_loop s sg 0) as [[[sg' ea] ov] r]. cbn [snd] in Hl.
  destruct ov.
  - pose proof (skip_digits_len r) as Hd. destruct (skip_digits r) as [|c t] eqn:E.
    + apply lift_f_wp. cbn. lia.
    + cbn [length] in Hd.
      assert (Ht : (length t <= n)%nat) by lia. assert (Hct : (length (c :: t) <= n)%nat) by (cbn [length]; lia).
      repeat match goal with |- wp (match ?x with _ => _ end) _ => destruct x end;
        first [apply parse_exponent_wp; exact Ht | apply lift_f_wp; exact Hct].
  - destruct (ea =? 0); [apply wp_ok; intros ? ? E; discriminate|].
    destruct r as [|c t]; [apply lift_f_wp; cbn; lia|]. cbn [length] in Hl.
    assert (Ht : (length t <= n)%nat) by lia. assert (Hct : (length (c :: t) <= n)%nat) by (cbn [length]; lia).
    repeat match goal with |- wp (match ?x with _ => _ end) _ => destruct x end;
      first [apply parse_exponent_wp; exact Ht | apply lift_f_wp; exact Hct].
Qed.

Lemma parse_number_wp pos sg s n : (length s <= n)%nat -> wp (parse_number pos sg s) (le_rest n).
Proof.
  intros H. unfold parse_number. destruct s as [|c t].
  - repeat match goal with |- wp (if ?b then _ else _) _ => destruct b end; apply wp_ok; intros a r E; injection E as _ <-; exact H.
  - cbn [length] in H. assert (Ht : (length t <= n)%nat) by lia.
    repeat match goal with
           | |- wp (match ?x with _ => _ end) _ => destruct x
           | |- wp (if ?b then _ else _) _ => destruct b
           end;
      first [apply parse_exponent_wp; exact Ht | apply parse_decimal_wp; exact Ht
            | apply wp_ok; intros a r E; injection E as _ <-; cbn [length]; lia].
Qed.

Lemma parse_integer_wp pos s n : (length s <= S n)%nat -> wp (parse_integer pos s) (le_rest n).
Proof.
  intros H. unfold parse_integer. destruct s as [|c r]; [apply wp_ok; intros ? ? E; discriminate|].
  cbn [length] in H. assert (Hr : (length r <= n)%nat) by lia.
  assert (Hgen : wp (if (49 <=? c) && (c <=? 57)
                     then let '(sg, ov, r') := int_digits_loop r (c - 48) in
                          if ov then let '(ex, r'') := count_digits r' 0 in
                                     match r'' with
                                     | 46 :: t => parse_decimal pos sg ex t
                                     | 101 :: t | 69 :: t => parse_exponent pos sg ex t
                                     | _ => lift_f (f64_from_parts pos sg ex) r''
                                     end
                          else parse_number pos sg r'
                     else Ok None) (le_rest n)).
  { destruct ((49 <=? c) && (c <=? 57)); [|apply wp_ok; intros ? ? E; discriminate].
    pose proof (int_digits_loop_len r (c - 48)) as Hl. destruct (int_digits_loop r (c - 48)) as [[sg ov] r']. cbn [snd] in Hl.
    destruct ov; [|apply parse_number_wp; lia].
    pose proof (count_digits_len r' 0) as Hc. destruct (count_digits r' 0) as [ex r'']. cbn [snd] in Hc.
    destruct r'' as [|c2 t]; [apply lift_f_wp; cbn; lia|]. cbn [length] in Hc.
    assert (Ht : (length t <= n)%nat) by lia. assert (Hct : (length (c2 :: t) <= n)%nat) by (cbn [length]; lia).
    repeat match goal with |- wp (match ?x with _ => _ end) _ => destruct x end;
      first [apply parse_exponent_wp; exact Ht | apply parse_decimal_wp; exact Ht | apply lift_f_wp; exact Hct]. }
  assert (Hzero : wp (match r with c0 :: _ => if is_digit c0 then Ok None else parse_number pos 0 r | [] => parse_number pos 0 r end) (le_rest n)).
  { destruct r as [|c0 t]; [apply parse_number_wp; exact Hr|]. destruct (is_digit c0); [apply wp_ok; intros ? ? E; discriminate|].
    apply parse_number_wp; exact Hr. }
  repeat match goal with |- wp (match ?x with _ => _ end) _ => destruct x end; first [exact Hzero | exact Hgen].
Qed.

Lemma hex4_len s n r : hex4 s = Some (n, r) -> (length r <= length s)%nat.
Proof.
  unfold hex4. destruct s as [|a [|b [|c [|d t]]]]; try discriminate.
  destruct (hexval a), (hexval b), (hexval c), (hexval d); try discriminate. intros E. injection E as _ <-. cbn [length]. lia.
Qed.

Lemma parse_escape_len s c r : parse_escape s = Some (c, r) -> (length r < length s)%nat.
Proof.
  unfold parse_escape. destruct s as [|c0 t]; [discriminate|]. cbn [length].
  assert (Hu : match hex4 t with
               | Some (n, r1) =>
                   if (56320 <=? n) && (n <=? 57343) then None
                   else if (n <? 55296) || (56319 <? n) then Some (n, r1)
                   else match r1 with
                        | 92 :: 117 :: r2 =>
                            match hex4 r2 with
                            | Some (n2, r3) => if (n2 <? 56320) || (57343 <? n2) then None else Some ((n - 55296) * 1024 + (n2 - 56320) + 65536, r3)
                            | None => None
                            end
                        | _ => None
                        end
               | None => None
               end = Some (c, r) -> (length r < S (length t))%nat).
  { destruct (hex4 t) as [[n r1]|] eqn:E1; [|discriminate]. apply hex4_len in E1.
    destruct ((56320 <=? n) && (n <=? 57343)); [discriminate|].
    destruct ((n <? 55296) || (56319 <? n)); [intros E; injection E as _ <-; lia|].
    destruct r1 as [|x1 [|x2 r2]]; try (repeat match goal with |- context [match ?x with _ => _ end] => destruct x end; discriminate).
    cbn [length] in E1.
    assert (Hin : match hex4 r2 with
                  | Some (n2, r3) => if (n2 <? 56320) || (57343 <? n2) then None else Some ((n - 55296) * 1024 + (n2 - 56320) + 65536, r3)
                  | None => None
                  end = Some (c, r) -> (length r < S (length t))%nat).
    { destruct (hex4 r2) as [[n2 r3]|] eqn:E2; [|discriminate]. apply hex4_len in E2.
      destruct ((n2 <? 56320) || (57343 <? n2)); [discriminate|]. intros E; injection E as _ <-; lia. }
    repeat match goal with |- context [match ?x with _ => _ end] => destruct x end; first [discriminate | exact Hin]. }
  repeat match goal with |- context [match ?x with _ => _ end] => destruct x end;
    first [discriminate | exact Hu | intros E; injection E as _ <-; lia].
Qed.

Lemma parse_string_body_len : forall fuel s acc a r, parse_string_body fuel s acc = Some (a, r) -> (length r < length s)%nat.
Proof.
  induction fuel as [|fu IH]; intros s acc a r; cbn [parse_string_body]; [discriminate|].
  destruct s as [|c t]; [discriminate|]. cbn [length].
  assert (Hesc : match parse_escape t with Some (c', r') => parse_string_body fu r' (c' :: acc) | None => None end = Some (a, r) ->
                 (length r < S (length t))%nat).
  { destruct (parse_escape t) as [[c' r']|] eqn:E; [|discriminate]. apply parse_escape_len in E. intros H. apply IH in H. lia. }
  assert (Hgen : (if c <? 32 then None else parse_string_body fu t (c :: acc)) = Some (a, r) -> (length r < S (length t))%nat).
  { destruct (c <? 32); [discriminate|]. intros H. apply IH in H. lia. }
  repeat match goal with |- context [match ?x with _ => _ end] => destruct x end;
    first [exact Hesc | exact Hgen | intros E; injection E as _ <-; lia | discriminate].
Qed.

Lemma parse_string_len s a r : parse_string s = Some (a, r) -> (length r < length s)%nat.
Proof. apply parse_string_body_len. Qed.

Lemma expect_len lit : forall s r, expect lit s = Some r -> (length r <= length s)%nat.
Proof.
  unfold expect. induction lit as [|a lit IH]; intros s r.
  - intros E. injection E as <-. lia.
  - destruct s as [|b t]; [discriminate|]. destruct (a =? b); [|discriminate]. intros E. apply IH in E. cbn [length]. lia.
Qed.

Ltac leaf_none := apply wp_ok; intros ? ? E; discriminate.
Ltac dmatch := repeat match goal with |- wp (match ?x with _ => _ end) _ => destruct x end.

Definition json_fuel_ok (f : nat) : Prop :=
  (forall d s, (2 * length s + 1 <= f)%nat -> wp (parse_value f d s) (lt_rest (length s))) /\
  (forall d s, (2 * length s + 2 <= f)%nat -> wp (parse_elems f d s) (lt_rest (length s))) /\
  (forall d s acc, (2 * length s + 2 <= f)%nat -> wp (parse_members f d s acc) (lt_rest (length s))).

Lemma json_fuel_ok_all : forall f, json_fuel_ok f.
Proof.
  induction f as [|fu [IHv [IHe IHm]]].
  - split; [|split]; intros; lia.
  - split; [|split].
    + (* parse_value *)
      intros d s Hf. cbn [parse_value].
      pose proof (skip_ws_len s) as Hs. destruct (skip_ws s) as [|c r]; [leaf_none|]. cbn [length] in Hs.
      pose proof (skip_ws_len r) as Hr. destruct (skip_ws r) as [|c2 t2]; cbn [length] in Hr; dmatch;
        first
          [ leaf_none
          | (* literals *)
            apply wp_ok; intros a0 r0 E;
            match type of E with option_map _ (expect ?l ?x) = _ =>
              destruct (expect l x) eqn:Ex; cbn in E; [injection E as _ <-; apply expect_len in Ex; lia | discriminate] end
          | (* strings *)
            apply wp_ok; intros a0 r0 E;
            match type of E with option_map _ (parse_string ?x) = _ =>
              destruct (parse_string x) as [[k0 r1]|] eqn:Ex; cbn in E; [injection E as _ <-; apply parse_string_len in Ex; lia | discriminate] end
          | (* numbers *)
            apply wp_bind; eapply wp_mono;
            [ apply parse_integer_wp with (n := length r); cbn [length]; lia
            | intros o Ho; apply wp_ok; intros a0 r0 E; destruct o as [[p0 r1]|]; cbn in E;
              [injection E as _ <-; specialize (Ho _ _ eq_refl); lia | discriminate] ]
          | (* empty containers *)
            apply wp_ok; intros a0 r0 E; injection E as _ <-; cbn [length] in *; lia
          | (* arrays *)
            apply wp_bind; eapply wp_mono;
            [ apply IHe; cbn [length] in *; lia
            | intros o Ho; apply wp_ok; intros a0 r0 E; destruct o as [[l0 r1]|]; cbn in E;
              [injection E as _ <-; specialize (Ho _ _ eq_refl); cbn [length] in *; lia | discriminate] ]
          | (* objects *)
            apply wp_bind; eapply wp_mono;
            [ apply IHm; cbn [length] in *; lia
            | intros o Ho; apply wp_ok; intros a0 r0 E; destruct o as [[l0 r1]|]; cbn in E;
              [injection E as _ <-; specialize (Ho _ _ eq_refl); cbn [length] in *; lia | discriminate] ] ].
    + (* parse_elems *)
      intros d s Hf. cbn [parse_elems]. apply wp_bind. eapply wp_mono; [apply IHv; lia|].
      intros o Ho. destruct o as [[v r]|]; [|leaf_none]. specialize (Ho v r eq_refl).
      pose proof (skip_ws_len r) as Hr. destruct (skip_ws r) as [|c t]; [leaf_none|]. cbn [length] in Hr.
      pose proof (skip_ws_len t) as Ht. destruct (skip_ws t) as [|c2 t2]; cbn [length] in Ht; dmatch;
        first
          [ leaf_none
          | apply wp_ok; intros a0 r0 E; injection E as _ <-; cbn [length] in *; lia
          | apply wp_bind; eapply wp_mono;
            [ apply IHe; cbn [length] in *; lia
            | intros o Ho'; apply wp_ok; intros a0 r0 E; destruct o as [[l0 r1]|]; cbn in E;
              [injection E as _ <-; specialize (Ho' _ _ eq_refl); cbn [length] in *; lia | discriminate] ] ].
    + (* parse_members *)
      intros d s acc Hf. cbn [parse_members].
      pose proof (skip_ws_len s) as Hs. destruct (skip_ws s) as [|c r]; [leaf_none|]. cbn [length] in Hs.
      destruct (parse_string r) as [[k r1]|] eqn:Eps; [apply parse_string_len in Eps|dmatch; leaf_none].
      pose proof (skip_ws_len r1) as Hr1. destruct (skip_ws r1) as [|c1 r2]; [dmatch; leaf_none|]. cbn [length] in Hr1.
      dmatch; try leaf_none.
      all: apply wp_bind; eapply wp_mono; [apply IHv; lia|].
      all: intros o Ho; destruct o as [[v r3]|]; [|leaf_none]; specialize (Ho v r3 eq_refl).
      all: pose proof (skip_ws_len r3) as Hr3; destruct (skip_ws r3) as [|c3 r4]; [leaf_none|]; cbn [length] in Hr3.
      all: pose proof (skip_ws_len r4) as Hr4; destruct (skip_ws r4) as [|c4 r5]; cbn [length] in Hr4; dmatch.
      all: first
          [ leaf_none
          | apply wp_ok; intros a0 r0 E; injection E as _ <-; cbn [length] in *; lia
          | eapply wp_mono; [apply IHm; cbn [length] in *; lia | intros o Ho' a0 r0 E; specialize (Ho' a0 r0 E); cbn [length] in *; lia] ].
Qed.

Theorem from_json_never_out_of_fuel s : from_json s <> OOF.
Proof.
  unfold from_json. apply wp_noof with (Q := fun _ => True). apply wp_bind.
  eapply wp_mono; [apply (json_fuel_ok_all (4 + 2 * length s)); lia|].
  intros o _. destruct o as [[v r]|]; [|apply wp_ok; exact I]. destruct (skip_ws r); apply wp_ok; exact I.
Qed.

(* ---------- lexer ---------- *)
Lemma take_while_len p s : (length (snd (take_while p s)) <= length s)%nat.
Proof.
  induction s as [|c r IH]; cbn [take_while]; [cbn; lia|]. destruct (p c); [|cbn; lia].
  destruct (take_while p r) as [a b]. cbn [snd length] in *. lia.
Qed.

Lemma consume_inside_len : forall fuel w s buf n b r m,
  consume_inside fuel w s buf n = Some (b, r, m) -> (length r < length s)%nat.
Proof.
  induction fuel as [|fu IH]; intros w s buf n b r m; cbn [consume_inside]; [discriminate|].
  destruct s as [|c t]; [discriminate|]. cbn [length].
  destruct (c =? w); [intros E; injection E as _ <- _; lia|].
  destruct (c =? 92).
  - destruct t as [|c2 t2]; intros E; apply IH in E; cbn [length] in *; lia.
  - intros E; apply IH in E; lia.
Qed.

Lemma wp_json_bind {B} x (k : option value -> res B) (Q : B -> Prop) :
  (forall o, wp (k o) Q) -> wp (bind (no_err_j (from_json x)) k) Q.
Proof.
  intros H. apply wp_bind. pose proof (from_json_never_out_of_fuel x) as Hn.
  destruct (from_json x); cbn [no_err_j]; match goal with
  | |- wp (Ok _) _ => apply wp_ok; cbv beta; apply H
  | |- wp Unmodelled _ => apply wp_unm
  | |- wp Trap _ => apply wp_trap
  | |- wp OOF _ => exfalso; apply Hn; reflexivity
  end.
Qed.

Definition T {A} : A -> Prop := fun _ => True.

Lemma lex_go_fuel : forall f s pos acc, (length s < f)%nat -> wp (lex_go f s pos acc) T.
Proof.
  induction f as [|f IH]; intros s pos acc Hf; [lia|].
  destruct s as [|c r]; [apply wp_ok; exact I|]. cbn [length] in Hf. cbn [lex_go].
  pose proof (take_while_len is_ident_char r) as H1. destruct (take_while is_ident_char r) as [rid r1]. cbn [snd] in H1.
  pose proof (take_while_len is_digit r) as H2. destruct (take_while is_digit r) as [ds r2']. cbn [snd] in H2.
  destruct (consume_inside (S (length r)) 34 r [] 0) as [[[b1 q1] n1]|] eqn:E1; [apply consume_inside_len in E1|].
  all: destruct (consume_inside (S (length r)) 39 r [] 0) as [[[b2 q2] n2]|] eqn:E2; [apply consume_inside_len in E2|].
  all: destruct (consume_inside (S (length r)) 96 r [] 0) as [[[b3 q3] n3]|] eqn:E3; [apply consume_inside_len in E3|].
  all: destruct r as [|c2 t2]; cbn [length] in *.
  all: try (pose proof (take_while_len is_digit t2) as H4; destruct (take_while is_digit t2) as [ds2 r4]; cbn [snd] in H4).
  all: repeat match goal with
              | |- wp (if ?b then _ else _) _ => destruct b
              | |- wp (match ?x with _ => _ end) _ => destruct x
              | |- wp (bind (no_err_j (from_json _)) _) _ => apply wp_json_bind; intros
              | |- wp (lex_go _ _ _ _) _ => apply IH; cbn [length] in *; lia
              | |- wp (lex_err _) _ => apply wp_err
              | |- wp (Ok _) _ => apply wp_ok; exact I
              end.
Qed.

Theorem tokenize_never_out_of_fuel s : tokenize s <> OOF.
Proof. apply wp_noof with (Q := T). apply lex_go_fuel. lia. Qed.
