(** C03: soundness of the reference parser with respect to the grammar of
    Spec/Grammar.v — whatever it accepts is the flattening of a syntax tree of
    the grammar, and the tree it returns is that syntax tree's abstract tree. *)
From Coq Require Import ZifyBool.
From JP Require Import Base Value Lexer Parser Spec.Grammar Spec.Prec.

Definition toks (st : pst) : list token := map snd (pq st).

Lemma adv_toks st :
  (peek st 0 <> TEof -> toks st = peek st 0 :: toks (snd (advance_with_pos st))) /\
  snd (fst (advance_with_pos st)) = peek st 0.
Proof.
  unfold advance_with_pos, peek, toks. destruct st as [q o]. cbn [pq poff].
  destruct q as [|[p t] q]; cbn; split; try reflexivity. intros H. contradiction.
Qed.

Lemma adv_peek st n : peek st 0 <> TEof -> peek (snd (advance_with_pos st)) n = peek st (S n).
Proof.
  unfold advance_with_pos, peek. destruct st as [q o]. cbn [pq poff].
  destruct q as [|[p t] q]; cbn; [intros H; contradiction|reflexivity].
Qed.

(** destruct the [advance] at the head of hypothesis [H]; the token becomes [peek st 0] *)
Ltac adv_in H :=
  match type of H with
  | context [advance_with_pos ?st] =>
      let Ha := fresh "Ha" in let Hb := fresh "Hb" in
      let o := fresh "o" in let t := fresh "tk" in let st1 := fresh "p" in let Hc := fresh "Hc" in
      destruct (adv_toks st) as (Ha & Hb); pose proof (adv_peek st) as Hc;
      destruct (advance_with_pos st) as [[o t] st1]; cbn [fst snd] in Ha, Hb, Hc; subst t
  end.

Ltac listeq := cbn [flat flatk app]; repeat (rewrite <- app_assoc; cbn [app]); reflexivity.

Ltac dead := try discriminate; try (unfold perr in *; discriminate).

Definition close_tok (c : closing) : token := match c with CloseBracket => TRbracket | CloseParen => TRparen end.

Lemma is_closing_true c t : is_closing c t = true -> t = close_tok c.
Proof. destruct c, t; cbn; congruence. Qed.
Lemma tok_is_rbracket_true t : tok_is_rbracket t = true -> t = TRbracket. Proof. destruct t; cbn; congruence. Qed.
Lemma tok_is_comma_true t : tok_is_comma t = true -> t = TComma. Proof. destruct t; cbn; congruence. Qed.
Lemma tok_is_colon_true t : tok_is_colon t = true -> t = TColon. Proof. destruct t; cbn; congruence. Qed.
Lemma tok_is_star_true t : tok_is_star t = true -> t = TStar. Proof. destruct t; cbn; congruence. Qed.

(** use a known [peek st 0 = T] (T not Eof) to turn the consumption fact into an equation *)
Ltac use_peek :=
  repeat match goal with
         | H : tok_is_star _ = true |- _ => apply tok_is_star_true in H
         | H : tok_is_colon _ = true |- _ => apply tok_is_colon_true in H
         | H : tok_is_comma _ = true |- _ => apply tok_is_comma_true in H
         | H : tok_is_rbracket _ = true |- _ => apply tok_is_rbracket_true in H
         | H : is_closing _ _ = true |- _ => apply is_closing_true in H
         end;
  repeat match goal with
         | E : peek ?st 0 = _, H : peek ?st 0 <> TEof -> _ |- _ => rewrite E in H
         end;
  repeat match goal with
         | H : ?t <> TEof -> _ |- _ => first [specialize (H ltac:(discriminate)) | specialize (H ltac:(destruct t; discriminate)) | clear H]
         end.

(* ---------- the bracket contents [n], [a:b], [a:b:c] ---------- *)
Definition fin (p0 p1 p2 : option Z) (pos : Z) : list token :=
  if pos =? 0 then optnum p0
  else if pos =? 1 then optnum p0 ++ TColon :: optnum p1
  else optnum p0 ++ TColon :: optnum p1 ++ TColon :: optnum p2.

Definition inv (p0 p1 p2 : option Z) (pos : Z) (filled : bool) : Prop :=
  (pos = 0 /\ p1 = None /\ p2 = None /\ (filled = false -> p0 = None)) \/
  (pos = 1 /\ p2 = None /\ (filled = false -> p1 = None)) \/
  (pos = 2 /\ (filled = false -> p2 = None)).

Section Sound.
  Variables (L : token -> Z) (STOP : Z) (strict : bool).
  Notation ext := (negb strict).

  Lemma index_loop_sound : forall f p0 p1 p2 pos st filled q0 q1 q2 pos' st',
    index_loop L STOP strict f p0 p1 p2 pos st = Ok (q0, q1, q2, pos', st') ->
    inv p0 p1 p2 pos filled ->
    (filled = true -> peek st 0 = TColon \/ peek st 0 = TRbracket) ->
    exists w, toks st = w ++ TRbracket :: toks st' /\ fin p0 p1 p2 pos ++ w = fin q0 q1 q2 pos' /\ (exists fl, inv q0 q1 q2 pos' fl).
  Proof.
    induction f as [|f IH]; intros p0 p1 p2 pos st filled q0 q1 q2 pos' st' H Hinv Hfilled; [discriminate|].
    cbn [index_loop] in H. fold (index_loop L STOP strict) in H. adv_in H.
    destruct (peek st 0) eqn:Ep; dead; use_peek.
    - (* number *)
      assert (filled = false) as -> by (destruct filled; [destruct (Hfilled eq_refl); discriminate|reflexivity]).
      destruct Hinv as [(-> & -> & -> & Hn)|[(-> & -> & Hn)|(-> & Hn)]]; specialize (Hn eq_refl); subst; cbn [Z.eqb] in H;
        destruct (peek p 0) eqn:Ep1; dead;
        (eapply (IH _ _ _ _ _ true) in H; [destruct H as (w & Hw & Hf & Hi); exists (TNumber n :: w); split; [rewrite Ha, Hw; reflexivity|split; [|exact Hi]]; revert Hf; unfold fin; cbn [Z.eqb Pos.eqb optnum]; intros <-; repeat (rewrite <- app_assoc; cbn [app]); reflexivity
                          | unfold inv; first [left; repeat split; (reflexivity || (intros; discriminate)) | right; left; repeat split; (reflexivity || (intros; discriminate)) | right; right; repeat split; (reflexivity || (intros; discriminate))]
                          | intros _; rewrite Ep1; auto]).
    - (* closing bracket *)
      injection H as <- <- <- <- <-. exists []. split; [rewrite Ha; reflexivity|]. split; [apply app_nil_r|]. exists filled. exact Hinv.
    - (* colon *)
      destruct Hinv as [(-> & -> & -> & Hn)|[(-> & -> & Hn)|(-> & Hn)]]; cbn in H; dead;
        destruct (peek p 0) eqn:Ep1; dead;
        (eapply (IH _ _ _ _ _ false) in H;
         [destruct H as (w & Hw & Hf & Hi); exists (TColon :: w); split; [rewrite Ha, Hw; reflexivity|split; [|exact Hi]]; revert Hf; unfold fin; cbn [Z.eqb Pos.eqb optnum Z.add Pos.add]; intros <-; rewrite ?app_nil_r; repeat (rewrite <- app_assoc; cbn [app]); reflexivity
         | unfold inv; cbn [Z.add Pos.add]; first [left; repeat split; (reflexivity || (intros; reflexivity)) | right; left; repeat split; (reflexivity || (intros; reflexivity)) | right; right; repeat split; (reflexivity || (intros; reflexivity))]
         | discriminate]).
  Qed.

  (* ---------- separated lists ---------- *)
  Fixpoint gtail (cl : closing) (items : list (bool * cst)) : list token :=
    match items with [] => [close_tok cl] | a :: r => TComma :: flat_arg a ++ gtail cl r end.
  Definition glist (cl : closing) (items : list (bool * cst)) : list token :=
    match items with [] => [close_tok cl] | a :: r => flat_arg a ++ gtail cl r end.
  Definition hash_items (items : list (bool * str * cst)) : list token :=
    match items with [] => [] | (q, k, x) :: r => key_tok q k :: TColon :: flat x ++ mhash_tail r end.
  Definition erase_kv (kv : bool * str * cst) : str * ast := (snd (fst kv), erase (snd kv)).

  Lemma gtail_paren items : gtail CloseParen items = args_tail items.
  Proof. induction items as [|a r IH]; cbn [gtail args_tail]; [reflexivity|]. now rewrite IH. Qed.
  Lemma gtail_bracket es : gtail CloseBracket (map (pair false) es) = mlist_tail es.
  Proof. induction es as [|x r IH]; cbn [gtail mlist_tail map]; [reflexivity|]. unfold flat_arg. cbn [fst snd app]. now rewrite IH. Qed.

  Notation expr' := (expr L STOP strict).
  Notation expr_loop' := (expr_loop L STOP strict).
  Notation nud' := (nud L STOP strict).
  Notation parse_kvps' := (parse_kvps L STOP strict).
  Notation parse_kvp' := (parse_kvp L STOP strict).
  Notation led' := (led L STOP strict).
  Notation parse_filter' := (parse_filter L STOP strict).
  Notation parse_flatten' := (parse_flatten L STOP strict).
  Notation parse_comparator' := (parse_comparator L STOP strict).
  Notation parse_dot' := (parse_dot L STOP strict).
  Notation projection_rhs' := (projection_rhs L STOP strict).
  Notation parse_wildcard_index' := (parse_wildcard_index L STOP strict).
  Notation parse_wildcard_values' := (parse_wildcard_values L STOP strict).
  Notation parse_index' := (parse_index L STOP strict).
  Notation parse_multi_list' := (parse_multi_list L STOP strict).
  Notation parse_list' := (parse_list L STOP strict).

  Definition dot_start (t : token) : bool :=
    match t with TIdentifier _ | TQuotedIdentifier _ | TStar | TLbrace => true | _ => false end.
  Definition brk_start (st : pst) : bool :=
    match peek st 0 with
    | TFilter => true
    | TLbracket => match peek st 1 with TNumber _ | TColon => true | TStar => tok_is_rbracket (peek st 2) | _ => false end
    | _ => false
    end.
  (** the leftmost constituent is of the category its first token(s) announce *)
  Definition start_ok (st : pst) (c : cst) : Prop :=
    (dot_start (peek st 0) = true -> dot_ok (head c) = true) /\ (brk_start st = true -> brk_ok (head c) = true) /\
    (peek st 0 = TAmpersand -> dotx_ok (head c) = true) /\ (peek st 0 = TLbracket -> brkx_ok (head c) = true).

  Definition P_expr f := forall rbp st t st', expr' f rbp st = Ok (t, st') ->
    exists c, toks st = flat c ++ toks st' /\ erase c = t /\ (wfb ext) c /\ start_ok st c /\ prec L rbp c.
  Definition P_loop f := forall rbp lft st t st' cl, erase cl = lft -> (wfb ext) cl -> prec L rbp cl -> expr_loop' f rbp lft st = Ok (t, st') ->
    exists c w, toks st = w ++ toks st' /\ flat c = flat cl ++ w /\ erase c = t /\ (wfb ext) c /\ head c = head cl /\ prec L rbp c.
  Definition P_nud f := forall st t st', nud' f st = Ok (t, st') ->
    exists c, toks st = flat c ++ toks st' /\ erase c = t /\ (wfb ext) c /\ start_ok st c /\ (forall rbp, prec L rbp c).
  Definition P_kvps f := forall acc st t st', parse_kvps' f acc st = Ok (t, st') ->
    exists items, items <> [] /\ toks st = hash_items items ++ toks st' /\ t = AMultiHash (rev acc ++ map erase_kv items) /\
                  Forall (fun kv : bool * str * cst => (wfb ext) (snd kv)) items /\ Forall (fun kv : bool * str * cst => prec L 0 (snd kv)) items.
  Definition P_kvp f := forall st k e st', parse_kvp' f st = Ok ((k, e), st') ->
    exists q x, toks st = key_tok q k :: TColon :: flat x ++ toks st' /\ erase x = e /\ (wfb ext) x /\ prec L 0 x.
  Definition P_led f := forall lft st t st' cl, erase cl = lft -> (wfb ext) cl -> inner L cl -> led' f lft st = Ok (t, st') ->
    exists c w, toks st = w ++ toks st' /\ flat c = flat cl ++ w /\ erase c = t /\ (wfb ext) c /\ head c = head cl /\
                spine_ops c = spine_ops cl ++ [peek st 0] /\ inner L c.
  Definition P_filter f := forall lhs st t st', parse_filter' f lhs st = Ok (t, st') ->
    exists p k, toks st = flat p ++ TRbracket :: flatk k ++ toks st' /\ t = AProjection lhs (ACondition (erase p) (erasek k)) /\ (wfb ext) p /\ (wfkb ext) k /\
                prec L 0 p /\ innerk L (L TFilter) k.
  Definition P_flatten f := forall lhs st t st', parse_flatten' f lhs st = Ok (t, st') ->
    exists k, toks st = flatk k ++ toks st' /\ t = AProjection (AFlatten lhs) (erasek k) /\ (wfkb ext) k /\ innerk L (L TFlatten) k.
  Definition P_cmp f := forall c lhs st t st', parse_comparator' f c lhs st = Ok (t, st') ->
    exists r, toks st = flat r ++ toks st' /\ t = AComparison c lhs (erase r) /\ (wfb ext) r /\ prec L (L TEq) r.
  Definition P_dot f := forall bp st t st', parse_dot' f bp st = Ok (t, st') ->
    exists d, toks st = flat d ++ toks st' /\ erase d = t /\ (wfb ext) d /\ (if ext then dotx_ok else dot_ok) (head d) = true /\ prec L bp d.
  Definition P_prhs f := forall bp st t st', projection_rhs' f bp st = Ok (t, st') ->
    exists k, toks st = flatk k ++ toks st' /\ erasek k = t /\ (wfkb ext) k /\ innerk L bp k.
  Definition P_wi f := forall lhs st t st', parse_wildcard_index' f lhs st = Ok (t, st') ->
    exists k, toks st = TRbracket :: flatk k ++ toks st' /\ t = AProjection lhs (erasek k) /\ (wfkb ext) k /\ innerk L (L TStar) k.
  Definition P_wv f := forall lhs st t st', parse_wildcard_values' f lhs st = Ok (t, st') ->
    exists k, toks st = flatk k ++ toks st' /\ t = AProjection (AObjectValues lhs) (erasek k) /\ (wfkb ext) k /\ innerk L (L TStar) k.
  Definition P_index f := forall st t st', parse_index' f st = Ok (t, st') ->
    (exists n, toks st = TNumber n :: TRbracket :: toks st' /\ t = AIndex n) \/
    (exists off sl k, toks st = slice_toks sl ++ TRbracket :: flatk k ++ toks st' /\ t = AProjection (slice_ast off sl) (erasek k) /\ (wfkb ext) k /\ innerk L (L TStar) k).
  Definition P_mlist f := forall st t st', parse_multi_list' f st = Ok (t, st') ->
    exists e es, toks st = flat e ++ mlist_tail es ++ toks st' /\ t = AMultiList (erase e :: map erase es) /\ (wfb ext) e /\ Forall (wfb ext) es /\ prec L 0 e /\ Forall (prec L 0) es.
  Definition P_list f := forall c acc st l st', parse_list' f c acc st = Ok (l, st') ->
    exists items, toks st = glist c items ++ toks st' /\ l = rev acc ++ map erase_arg items /\
                  (c = CloseBracket -> Forall (fun a => fst a = false) items) /\
                  (is_closing c (peek st 0) = false -> items <> []) /\
                  (is_closing c (peek st 0) = true -> items = []) /\
                  Forall (fun a : bool * cst => (wfb ext) (snd a)) items /\ Forall (arg_prec L) items.

  Definition all_sound f :=
    P_expr f /\ P_loop f /\ P_nud f /\ P_kvps f /\ P_kvp f /\ P_led f /\ P_filter f /\ P_flatten f /\ P_cmp f /\
    P_dot f /\ P_prhs f /\ P_wi f /\ P_wv f /\ P_index f /\ P_mlist f /\ P_list f.

  Ltac unfold_P := unfold P_expr, P_loop, P_nud, P_kvps, P_kvp, P_led, P_filter, P_flatten, P_cmp, P_dot, P_prhs, P_wi, P_wv, P_index, P_mlist, P_list in *.

  Ltac refold_in H :=
    fold expr' in H; fold expr_loop' in H; fold nud' in H; fold parse_kvps' in H; fold parse_kvp' in H; fold led' in H;
    fold parse_filter' in H; fold parse_flatten' in H; fold parse_comparator' in H; fold parse_dot' in H; fold projection_rhs' in H;
    fold parse_wildcard_index' in H; fold parse_wildcard_values' in H; fold parse_index' in H; fold (index_loop L STOP strict) in H;
    fold parse_multi_list' in H; fold parse_list' in H.

  (** split [H : bind G k = Ok _] into [E : G = Ok (x, st1)] and [H : k (x, st1) = Ok _] *)
  Ltac run H x st1 E :=
    match type of H with
    | bind ?G _ = _ => destruct G as [[x st1]|?| | |] eqn:E; cbn [bind] in H; [|discriminate H..]
    end.

  Lemma sound_expr f : all_sound f -> P_expr (S f).
  Proof.
    intros (_ & Hloop & Hnud & _). intros rbp st t st' H. cbn [expr] in H. refold_in H.
    run H l st1 En. apply Hnud in En as (cl & Hcl & Hel & Hwl & Hsl & Hpl).
    apply (Hloop rbp l st1 t st' cl Hel Hwl (Hpl rbp)) in H as (c & w & Hw & Hf & He & Hwc & Hh & Hpc).
    exists c. split; [rewrite Hcl, Hw, Hf, app_assoc; reflexivity|]. split; [exact He|]. split; [exact Hwc|]. split; [|exact Hpc].
    unfold start_ok in *. rewrite Hh. exact Hsl.
  Qed.

  Lemma sound_loop f : all_sound f -> P_loop (S f).
  Proof.
    intros (_ & Hloop & _ & _ & _ & Hled & _). intros rbp lft st t st' cl Hcl Hwl Hpl H. cbn [expr_loop] in H. refold_in H.
    destruct (rbp <? L (peek st 0)) eqn:Elt.
    - run H l2 st1 El. destruct Hpl as [Htl Hil].
      apply (Hled lft st l2 st1 cl Hcl Hwl Hil) in El as (c1 & w1 & Hw1 & Hf1 & He1 & Hwc1 & Hh1 & Hsp1 & Hi1).
      assert (Hp1 : prec L rbp c1).
      { split; [|exact Hi1]. unfold tighter. rewrite Hsp1. apply Forall_app. split; [exact Htl|]. constructor; [apply Z.ltb_lt; exact Elt|constructor]. }
      apply (Hloop rbp l2 st1 t st' c1 He1 Hwc1 Hp1) in H as (c & w2 & Hw2 & Hf2 & He2 & Hwc2 & Hh2 & Hp2).
      exists c, (w1 ++ w2). split; [rewrite Hw1, Hw2, app_assoc; reflexivity|]. split; [rewrite Hf2, Hf1, app_assoc; reflexivity|].
      split; [exact He2|]. split; [exact Hwc2|]. split; [now rewrite Hh2, Hh1|exact Hp2].
    - injection H as <- <-. exists cl, []. split; [reflexivity|]. split; [now rewrite app_nil_r|]. auto.
  Qed.

  Lemma sound_filter f : all_sound f -> P_filter (S f).
  Proof.
    intros (Hexpr & _ & _ & _ & _ & _ & _ & _ & _ & _ & Hprhs & _). intros lhs st t st' H. cbn [parse_filter] in H. refold_in H.
    run H cond st1 Ee. apply Hexpr in Ee as (p & Hp & Hep & Hwp & _ & Hpp). adv_in H. destruct (peek st1 0) eqn:Ep; dead. use_peek.
    run H rhs st3 Er. apply Hprhs in Er as (k & Hk & Hek & Hwk & Hik). injection H as <- <-.
    exists p, k. split; [rewrite Hp, Ha, Hk; reflexivity|]. split; [now rewrite Hep, Hek|auto].
  Qed.

  Lemma sound_flatten f : all_sound f -> P_flatten (S f).
  Proof.
    intros (_ & _ & _ & _ & _ & _ & _ & _ & _ & _ & Hprhs & _). intros lhs st t st' H. cbn [parse_flatten] in H. refold_in H.
    run H rhs st1 Er. apply Hprhs in Er as (k & Hk & Hek & Hwk & Hik). injection H as <- <-. exists k. split; [exact Hk|]. split; [now rewrite Hek|auto].
  Qed.

  Lemma sound_cmp f : all_sound f -> P_cmp (S f).
  Proof.
    intros (Hexpr & _). intros c lhs st t st' H. cbn [parse_comparator] in H. refold_in H.
    run H rhs st1 Er. apply Hexpr in Er as (r & Hr & Her & Hwr & _ & Hpr). injection H as <- <-. exists r. split; [exact Hr|]. split; [now rewrite Her|auto].
  Qed.

  Lemma sound_wi f : all_sound f -> P_wi (S f).
  Proof.
    intros (_ & _ & _ & _ & _ & _ & _ & _ & _ & _ & Hprhs & _). intros lhs st t st' H. cbn [parse_wildcard_index] in H. refold_in H.
    adv_in H. destruct (peek st 0) eqn:Ep; dead. use_peek.
    run H rhs st2 Er. apply Hprhs in Er as (k & Hk & Hek & Hwk & Hik). injection H as <- <-. exists k.
    split; [rewrite Ha, Hk; reflexivity|]. split; [now rewrite Hek|auto].
  Qed.

  Lemma sound_wv f : all_sound f -> P_wv (S f).
  Proof.
    intros (_ & _ & _ & _ & _ & _ & _ & _ & _ & _ & Hprhs & _). intros lhs st t st' H. cbn [parse_wildcard_values] in H. refold_in H.
    run H rhs st1 Er. apply Hprhs in Er as (k & Hk & Hek & Hwk & Hik). injection H as <- <-. exists k. split; [exact Hk|]. split; [now rewrite Hek|auto].
  Qed.

  Lemma sound_kvp f : all_sound f -> P_kvp (S f).
  Proof.
    intros (Hexpr & _). intros st k e st' H. cbn [parse_kvp] in H. refold_in H.
    adv_in H. destruct (peek st 0) eqn:Ep; dead; use_peek.
    - destruct (tok_is_colon (peek p 0)) eqn:Ec; dead. adv_in H. use_peek.
      run H e1 st3 Ee. apply Hexpr in Ee as (x & Hx & Hex & Hwx & _ & Hpx). injection H as <- <- <-.
      exists false, x. split; [rewrite Ha, Ha0, Hx; reflexivity|]. auto.
    - destruct (tok_is_colon (peek p 0)) eqn:Ec; dead. adv_in H. use_peek.
      run H e1 st3 Ee. apply Hexpr in Ee as (x & Hx & Hex & Hwx & _ & Hpx). injection H as <- <- <-.
      exists true, x. split; [rewrite Ha, Ha0, Hx; reflexivity|]. auto.
  Qed.

  Lemma sound_kvps f : all_sound f -> P_kvps (S f).
  Proof.
    intros (_ & _ & _ & Hkvps & Hkvp & _). intros acc st t st' H. cbn [parse_kvps] in H. refold_in H.
    run H kv st1 Ek. destruct kv as [k e]. apply Hkvp in Ek as (q & x & Hx & Hex & Hwx & Hpx). adv_in H.
    destruct (peek st1 0) eqn:Ep; dead; use_peek.
    - (* comma *)
      apply Hkvps in H as (items & Hne & Hi & Ht & Hwi & Hpi). destruct items as [|[[q2 k2] x2] r]; [contradiction|].
      exists ((q, k, x) :: (q2, k2, x2) :: r). split; [discriminate|]. split; [|split; [|split]].
      + rewrite Hx, Ha, Hi. cbn [hash_items mhash_tail]. listeq.
      + rewrite Ht. cbn [rev map]. rewrite <- app_assoc. cbn [app]. unfold erase_kv at 3. cbn [fst snd]. now rewrite Hex.
      + constructor; [exact Hwx|exact Hwi].
      + constructor; [exact Hpx|exact Hpi].
    - (* closing brace *)
      injection H as <- <-. exists [(q, k, x)]. split; [discriminate|]. split; [|split; [|split]].
      + rewrite Hx, Ha. cbn [hash_items mhash_tail]. listeq.
      + cbn [rev map]. unfold erase_kv. cbn [fst snd]. now rewrite Hex.
      + constructor; [exact Hwx|constructor].
      + constructor; [exact Hpx|constructor].
  Qed.

  Lemma close_not_eof c : close_tok c <> TEof. Proof. destruct c; discriminate. Qed.

  Lemma sound_list f : all_sound f -> P_list (S f).
  Proof.
    intros (Hexpr & _ & _ & _ & _ & _ & _ & _ & _ & _ & _ & _ & _ & _ & _ & Hlist). intros c acc st l st' H.
    cbn [parse_list] in H. refold_in H. destruct (is_closing c (peek st 0)) eqn:Ec.
    - adv_in H. injection H as <- <-. pose proof Ec as Ec'. apply is_closing_true in Ec'. rewrite Ec' in Ha. specialize (Ha (close_not_eof c)).
      exists []. split; [rewrite Ha; reflexivity|]. split; [now rewrite app_nil_r|]. split; [intros _; constructor|]. split; [discriminate|]. split; [reflexivity|]. split; constructor.
    - run H e st1 Ee.
      assert (Hel : exists a, toks st = flat_arg a ++ toks st1 /\ erase_arg a = e /\ (c = CloseBracket -> fst a = false) /\ (wfb ext) (snd a) /\ arg_prec L a).
      { destruct c.
        - apply Hexpr in Ee as (x & Hx & Hex & Hwx & _ & Hpx). exists (false, x). unfold flat_arg, erase_arg, arg_prec. cbn [fst snd app]. auto.
        - unfold_P; destruct strict; cbn [negb] in *; destruct (peek st 0) eqn:Ep;
            first
              [ apply Hexpr in Ee as (x & Hx & Hex & Hwx & _ & Hpx); exists (false, x); unfold flat_arg, erase_arg, arg_prec; cbn [fst snd app];
                split; [exact Hx|split; [exact Hex|split; [discriminate|split; [exact Hwx|exact Hpx]]]]
              | adv_in Ee; rewrite Ep in Ha; specialize (Ha ltac:(discriminate)); run Ee rhs st0 Er; apply Hexpr in Er as (x & Hx & Hex & Hwx & _ & Hpx);
                injection Ee as <- <-; exists (true, x); unfold flat_arg, erase_arg, arg_prec; cbn [fst snd]; split; [rewrite Ha, Hx; reflexivity|];
                split; [now rewrite Hex|]; split; [discriminate|]; split; [exact Hwx|exact Hpx] ]. }
      destruct Hel as (a & Hta & Hea & Hfa & Hwa & Hpa).
      destruct (tok_is_comma (peek st1 0)) eqn:Ecm.
      + adv_in H. use_peek. destruct (is_closing c (peek p 0)) eqn:Ec2; dead.
        apply Hlist in H as (items & Hi & Hl & Hf & Hne & _ & Hwi & Hpi). specialize (Hne Ec2). destruct items as [|a2 r]; [contradiction|].
        exists (a :: a2 :: r). split; [rewrite Hta, Ha, Hi; cbn [glist gtail]; listeq|].
        split; [rewrite Hl; cbn [rev map]; rewrite <- app_assoc; cbn [app]; now rewrite Hea|].
        split; [intros E; constructor; [exact (Hfa E)|exact (Hf E)]|]. split; [discriminate|]. split; [intros E; congruence|]. split; constructor; assumption.
      + destruct (is_closing c (peek st1 0)) eqn:Ec2; dead.
        apply Hlist in H as (items & Hi & Hl & Hf & _ & Hnil & _ & _). specialize (Hnil Ec2). subst items.
        exists [a]. split; [rewrite Hta, Hi; cbn [glist gtail]; listeq|].
        split; [rewrite Hl; cbn [rev map]; rewrite <- app_assoc; cbn [app]; now rewrite Hea|].
        split; [intros E; constructor; [exact (Hfa E)|constructor]|]. split; [discriminate|]. split; [intros E; congruence|]. split; (constructor; [assumption|constructor]).
  Qed.

  Lemma sound_mlist f : all_sound f -> P_mlist (S f).
  Proof.
    intros (_ & _ & _ & _ & _ & _ & _ & _ & _ & _ & _ & _ & _ & _ & _ & Hlist). intros st t st' H.
    cbn [parse_multi_list] in H. refold_in H. destruct (tok_is_rbracket (peek st 0)) eqn:Er; dead.
    run H es st1 El. injection H as <- <-. apply Hlist in El as (items & Hi & Hl & Hf & Hne & _ & Hwi & Hpi).
    assert (Hnc : is_closing CloseBracket (peek st 0) = false) by exact Er. specialize (Hne Hnc). specialize (Hf eq_refl).
    destruct items as [|[b e] r]; [contradiction|]. pose proof (Forall_inv Hf) as Hb. pose proof (Forall_inv_tail Hf) as Hr. cbn [fst] in Hb. subst b.
    assert (Hmap : r = map (pair false) (map snd r)).
    { clear -Hr. induction Hr as [|[b x] r Hb Hr IH]; [reflexivity|]. cbn [fst] in Hb. subst b. cbn [map snd]. now rewrite <- IH. }
    assert (Hp0 : forall l, Forall (fun a : bool * cst => fst a = false) l -> Forall (arg_prec L) l -> Forall (prec L 0) (map snd l)).
    { intros l Hf0 Hp. induction Hf0 as [|[b x] l Hb0 Hl0 IH]; [constructor|]. cbn [fst] in Hb0. subst b. cbn [map snd].
      constructor; [exact (Forall_inv Hp)|exact (IH (Forall_inv_tail Hp))]. }
    exists e, (map snd r). split; [|split; [|split; [|split; [|split]]]].
    - rewrite Hi. cbn [glist]. unfold flat_arg at 1. cbn [fst snd app]. rewrite Hmap at 1. rewrite gtail_bracket. listeq.
    - rewrite Hl. cbn [rev app map]. unfold erase_arg at 1. cbn [fst snd]. f_equal. f_equal. rewrite Hmap at 1. rewrite !map_map. apply map_ext. reflexivity.
    - exact (Forall_inv Hwi).
    - apply Forall_map. exact (Forall_inv_tail Hwi).
    - exact (Forall_inv Hpi).
    - apply Hp0; [exact Hr|exact (Forall_inv_tail Hpi)].
  Qed.

  Lemma sound_dot f : all_sound f -> P_dot (S f).
  Proof.
    intros (Hexpr & Hloop & _ & _ & _ & _ & _ & _ & _ & _ & _ & _ & _ & _ & Hmlist & _). intros bp st t st' H.
    cbn [parse_dot] in H. refold_in H. unfold_P. destruct strict; cbn [negb] in *.
    - (* the grammar: a multi-select list is continued like any other operand *)
      destruct (peek st 0) eqn:Ep; dead;
        try (apply Hexpr in H as (c & Hc & Hec & Hwc & (Hs & _) & Hpc); exists c; split; [exact Hc|split; [exact Hec|split; [exact Hwc|split; [apply Hs; rewrite Ep; reflexivity|exact Hpc]]]]).
      adv_in H. rewrite Ep in Ha. specialize (Ha ltac:(discriminate)). run H lst st2 Em. apply Hmlist in Em as (e & es & Hm & Hl & Hwe & Hwes & Hpe & Hpes).
      apply (Hloop bp lst st2 t st' (CMList e es)) in H as (c & w & Hw & Hf & He & Hwc & Hh & Hpc);
        [|cbn [erase]; now rewrite Hl|apply wf_mlist; auto|split; [constructor|apply inner_mlist; auto]].
      exists c. split; [rewrite Hf, flat_mlist, Ha, Hm, Hw; listeq|]. split; [exact He|]. split; [exact Hwc|]. split; [rewrite Hh; reflexivity|exact Hpc].
    - (* the code: the list ends the operand; [&] is an operand *)
      destruct (peek st 0) eqn:Ep; dead;
        try (apply Hexpr in H as (c & Hc & Hec & Hwc & (Hs & _ & Hs3 & _) & Hpc); exists c; split; [exact Hc|split; [exact Hec|split; [exact Hwc|split; [|exact Hpc]]]];
             first [apply dot_ok_x; apply Hs; rewrite Ep; reflexivity | apply Hs3; exact Ep]).
      adv_in H. rewrite Ep in Ha. specialize (Ha ltac:(discriminate)). apply Hmlist in H as (e & es & Hm & Hl & Hwe & Hwes & Hpe & Hpes).
      exists (CMList e es). split; [rewrite flat_mlist, Ha, Hm; listeq|]. split; [cbn [erase]; now rewrite Hl|]. split; [apply wf_mlist; auto|].
      split; [reflexivity|]. split; [constructor|apply inner_mlist; auto].
  Qed.

  Lemma sound_prhs f : all_sound f -> P_prhs (S f).
  Proof.
    intros (Hexpr & _ & _ & _ & _ & _ & _ & _ & _ & Hdot & _). intros bp st t st' H.
    cbn [projection_rhs] in H. refold_in H. unfold_P. destruct strict; cbn [negb] in *.
    - destruct (peek st 0) eqn:Ep;
        try (destruct (L _ <? STOP); dead; injection H as <- <-; exists KNone; split; [reflexivity|split; [reflexivity|split; exact I]]).
      + (* dot *) adv_in H. rewrite Ep in Ha. specialize (Ha ltac:(discriminate)). apply Hdot in H as (d & Hd & Hed & Hwd & Hok & Hpd).
        exists (KDot d). split; [rewrite Ha, Hd; reflexivity|]. split; [exact Hed|]. split; [split; assumption|exact Hpd].
      + (* filter *) apply Hexpr in H as (x & Hx & Hex & Hwx & (_ & Hb & _) & Hpx). exists (KExpr x). split; [exact Hx|]. split; [exact Hex|]. split; [|exact Hpx].
        split; [exact Hwx|]. apply Hb. unfold brk_start. now rewrite Ep.
      + (* bracket *)
        destruct (peek st 1) eqn:Ep1; dead; try (destruct (tok_is_rbracket (peek st 2)) eqn:Er2; dead);
          (apply Hexpr in H as (x & Hx & Hex & Hwx & (_ & Hb & _) & Hpx); exists (KExpr x); split; [exact Hx|]; split; [exact Hex|]; split; [|exact Hpx];
           split; [exact Hwx|]; apply Hb; unfold brk_start; rewrite Ep, Ep1; try exact Er2; reflexivity).
    - destruct (peek st 0) eqn:Ep;
        try (destruct (L _ <? STOP); dead; injection H as <- <-; exists KNone; split; [reflexivity|split; [reflexivity|split; exact I]]).
      + (* dot *) adv_in H. rewrite Ep in Ha. specialize (Ha ltac:(discriminate)). apply Hdot in H as (d & Hd & Hed & Hwd & Hok & Hpd).
        exists (KDot d). split; [rewrite Ha, Hd; reflexivity|]. split; [exact Hed|]. split; [split; assumption|exact Hpd].
      + (* filter *) apply Hexpr in H as (x & Hx & Hex & Hwx & (_ & Hb & _) & Hpx). exists (KExpr x). split; [exact Hx|]. split; [exact Hex|]. split; [|exact Hpx].
        split; [exact Hwx|]. apply brk_ok_x. apply Hb. unfold brk_start. now rewrite Ep.
      + (* any bracket *)
        apply Hexpr in H as (x & Hx & Hex & Hwx & (_ & _ & _ & Hb4) & Hpx). exists (KExpr x). split; [exact Hx|]. split; [exact Hex|]. split; [|exact Hpx].
        split; [exact Hwx|]. apply Hb4. exact Ep.
  Qed.

  Lemma sound_index f : all_sound f -> P_index (S f).
  Proof.
    intros (_ & _ & _ & _ & _ & _ & _ & _ & _ & _ & Hprhs & _). intros st t st' H.
    cbn [parse_index] in H. refold_in H.
    destruct (index_loop L STOP strict f None None None 0 st) as [[[[[q0 q1] q2] pos'] st1]|?| | |] eqn:Ei; cbn [bind] in H; dead.
    apply (index_loop_sound f None None None 0 st false) in Ei; [|left; repeat split; reflexivity|discriminate].
    destruct Ei as (w & Hw & Hf & fl & Hinv). unfold fin at 1 in Hf. cbn [Z.eqb optnum app] in Hf. subst w.
    destruct (pos' =? 0) eqn:E0.
    - apply Z.eqb_eq in E0. subst pos'. destruct q0 as [i|]; dead. injection H as <- <-. left. exists i.
      split; [rewrite Hw; unfold fin; cbn [Z.eqb optnum app]; reflexivity|reflexivity].
    - run H rhs st2 Er. apply Hprhs in Er as (k & Hk & Hek & Hwk & Hik). injection H as <- <-. right.
      destruct Hinv as [(-> & _)|[(-> & -> & _)|(-> & _)]]; [discriminate| |].
      + exists (poff st1), (mkSl q0 q1 None), k. split; [|split; [|split; [exact Hwk|exact Hik]]].
        * rewrite Hw, Hk. unfold fin, slice_toks. cbn [Z.eqb Pos.eqb sl_a sl_b sl_c]. rewrite app_nil_r. listeq.
        * unfold slice_ast. cbn [sl_a sl_b sl_c]. now rewrite Hek.
      + exists (poff st1), (mkSl q0 q1 (Some q2)), k. split; [|split; [|split; [exact Hwk|exact Hik]]].
        * rewrite Hw, Hk. unfold fin, slice_toks. cbn [Z.eqb Pos.eqb sl_a sl_b sl_c]. listeq.
        * unfold slice_ast. cbn [sl_a sl_b sl_c]. rewrite Hek. destruct q2; reflexivity.
  Qed.

  Ltac led_bin o H Ha Hcl Hwl Hexpr cl :=
    let rhs := fresh "rhs" in let st2 := fresh "st2" in let Er := fresh "Er" in let r := fresh "r" in let Hr := fresh "Hr" in let Her := fresh "Her" in
    let Hwr := fresh "Hwr" in
    let Hpr := fresh "Hpr" in
    run H rhs st2 Er; apply Hexpr in Er as (r & Hr & Her & Hwr & _ & Hpr); injection H as <- <-;
    exists (CBin o cl r), (binop_tok o :: flat r); split; [rewrite Ha, Hr; listeq|]; split; [reflexivity|];
    split; [cbn [erase bin_ast]; rewrite Hcl, Her; reflexivity|]; split; [cbn [wfb wfkb]; auto|]; split; [reflexivity|];
    split; [reflexivity|]; cbn [inner rbp_of]; destruct Hpr; auto.
  Ltac led_cmp c0 H Ha Hcl Hwl Hcmp cl :=
    let r := fresh "r" in let Hr := fresh "Hr" in let Ht := fresh "Ht" in let Hwr := fresh "Hwr" in
    let Hpr := fresh "Hpr" in
    apply Hcmp in H as (r & Hr & Ht & Hwr & Hpr);
    exists (CBin (BCmp c0) cl r), (binop_tok (BCmp c0) :: flat r); split; [rewrite Ha, Hr; listeq|]; split; [reflexivity|];
    split; [cbn [erase bin_ast]; rewrite Hcl, Ht; reflexivity|]; split; [cbn [wfb wfkb]; auto|]; split; [reflexivity|];
    split; [reflexivity|]; cbn [inner rbp_of]; destruct Hpr; auto.

  Lemma sound_led f : all_sound f -> P_led (S f).
  Proof.
    intros (Hexpr & _ & _ & _ & _ & _ & Hfilter & Hflatten & Hcmp & Hdot & _ & Hwi & Hwv & Hindex & _ & Hlist). intros lft st t st' cl Hcl Hwl Hil H.
    cbn [led] in H. refold_in H. adv_in H. destruct (peek st 0) eqn:Ep; dead; specialize (Ha ltac:(discriminate)).
    all: try match type of Ep with
             | _ = TOr => led_bin BOr H Ha Hcl Hwl Hexpr cl
             | _ = TAnd => led_bin BAnd H Ha Hcl Hwl Hexpr cl
             | _ = TPipe => led_bin BPipe H Ha Hcl Hwl Hexpr cl
             | _ = TEq => led_cmp CEq H Ha Hcl Hwl Hcmp cl
             | _ = TNe => led_cmp CNe H Ha Hcl Hwl Hcmp cl
             | _ = TLt => led_cmp CLt H Ha Hcl Hwl Hcmp cl
             | _ = TLte => led_cmp CLe H Ha Hcl Hwl Hcmp cl
             | _ = TGt => led_cmp CGt H Ha Hcl Hwl Hcmp cl
             | _ = TGte => led_cmp CGe H Ha Hcl Hwl Hcmp cl
             end.
    - (* dot *)
      destruct (tok_is_star (peek p 0)) eqn:Es.
      + adv_in H. use_peek. apply Hwv in H as (k & Hk & Ht & Hwk & Hik). exists (CDotStar cl k), (TDot :: TStar :: flatk k).
        split; [rewrite Ha, Ha0, Hk; listeq|]. split; [reflexivity|]. split; [cbn [erase]; now rewrite Hcl, Ht|]. split; [cbn [wfb wfkb]; auto|].
        split; [reflexivity|]. split; [reflexivity|cbn [inner]; auto].
      + run H rhs st2 Ed. apply Hdot in Ed as (d & Hd & Hed & Hwd & Hok & Hpd). injection H as <- <-. exists (CDot cl d), (TDot :: flat d).
        split; [rewrite Ha, Hd; listeq|]. split; [reflexivity|]. split; [cbn [erase]; now rewrite Hcl, Hed|]. split; [cbn [wfb wfkb]; auto|].
        split; [reflexivity|]. split; [reflexivity|cbn [inner]; destruct Hpd; auto].
    - (* flatten *)
      apply Hflatten in H as (k & Hk & Ht & Hwk & Hik). exists (CFlatten cl k), (TFlatten :: flatk k).
      split; [rewrite Ha, Hk; listeq|]. split; [reflexivity|]. split; [cbn [erase]; now rewrite Hcl, Ht|]. split; [cbn [wfb wfkb]; auto|].
      split; [reflexivity|]. split; [reflexivity|cbn [inner]; auto].
    - (* filter *)
      apply Hfilter in H as (p0 & k & Hk & Ht & Hwp & Hwk & Hpp & Hik). exists (CFilter cl p0 k), (TFilter :: flat p0 ++ TRbracket :: flatk k).
      split; [rewrite Ha, Hk; listeq|]. split; [reflexivity|]. split; [cbn [erase]; now rewrite Hcl, Ht|]. split; [cbn [wfb wfkb]; auto|].
      split; [reflexivity|]. split; [reflexivity|cbn [inner]; destruct Hpp; auto].
    - (* bracket *)
      assert (Hix : forall idx st2, parse_index' f p = Ok (idx, st2) -> Ok (ASubexpr lft idx, st2) = Ok (t, st') ->
                exists c w, toks st = w ++ toks st' /\ flat c = flat cl ++ w /\ erase c = t /\ (wfb ext) c /\ head c = head cl /\
                            spine_ops c = spine_ops cl ++ [TLbracket] /\ inner L c).
      { intros idx st2 Ei E. injection E as <- <-. apply Hindex in Ei as [(n0 & Hn & Ht)|(off & sl & k & Hs & Ht & Hwk & Hik)].
        - exists (CIndex cl n0), [TLbracket; TNumber n0; TRbracket]. split; [rewrite Ha, Hn; listeq|]. split; [reflexivity|].
          split; [cbn [erase]; now rewrite Hcl, Ht|]. split; [exact Hwl|]. split; [reflexivity|]. split; [reflexivity|exact Hil].
        - exists (CSlice cl off sl k), (TLbracket :: slice_toks sl ++ TRbracket :: flatk k). split; [rewrite Ha, Hs; listeq|]. split; [reflexivity|].
          split; [cbn [erase]; now rewrite Hcl, Ht|]. split; [cbn [wfb wfkb]; auto|]. split; [reflexivity|]. split; [reflexivity|cbn [inner]; auto]. }
      destruct (peek p 0) eqn:Ep1; dead.
      + run H idx st2 Ei. exact (Hix _ _ eq_refl H).
      + adv_in H. use_peek. apply Hwi in H as (k & Hk & Ht & Hwk & Hik). exists (CWild cl k), (TLbracket :: TStar :: TRbracket :: flatk k).
        split; [rewrite Ha, Ha0, Hk; listeq|]. split; [reflexivity|]. split; [cbn [erase]; now rewrite Hcl, Ht|]. split; [cbn [wfb wfkb]; auto|].
        split; [reflexivity|]. split; [reflexivity|cbn [inner]; auto].
      + run H idx st2 Ei. exact (Hix _ _ eq_refl H).
    - (* parenthesis after an operand: only the code, only on an operand that denotes a field *)
      unfold_P. destruct strict; cbn [negb] in *; dead. destruct lft; dead. run H args st2 El. injection H as <- <-.
      apply Hlist in El as (items & Hi & Hl & _ & _ & _ & Hwi' & Hpi').
      exists (CCallOn cl o name items), (TLparen :: glist CloseParen items). split; [rewrite Ha, Hi; listeq|]. split.
      { rewrite flat_callon. destruct items as [|a r]; cbn [glist]; [reflexivity|]. now rewrite gtail_paren. }
      split; [rewrite erase_callon, Hl; reflexivity|]. split; [apply wf_callon; auto|]. split; [reflexivity|]. split; [reflexivity|].
      apply inner_callon. auto.
  Qed.

  (** [start_ok] for a constituent whose first token is neither a dot-operand start nor a bracket specifier start, or whose head is right anyway *)
  Ltac nudp := intros ?; split; [constructor|].

  Ltac start_tac Ep :=
    unfold start_ok, brk_start; rewrite Ep; cbn [dot_start head dot_ok brk_ok dotx_ok brkx_ok orb]; (split; [|split; [|split]]); intros Hs; try reflexivity; try discriminate Hs.

  Lemma sound_nud f : all_sound f -> P_nud (S f).
  Proof.
    intros (Hexpr & _ & _ & Hkvps & _ & _ & Hfilter & Hflatten & _ & _ & _ & Hwi & Hwv & Hindex & Hmlist & Hlist). intros st t st' H.
    cbn [nud] in H. refold_in H. adv_in H. destruct (peek st 0) eqn:Ep; dead; specialize (Ha ltac:(discriminate)).
    - (* identifier, possibly a call *)
      unfold_P. destruct strict; cbn [negb] in *.
      + destruct (peek p 0) eqn:Ep1;
          try (injection H as <- <-; exists (CIdent s); split; [rewrite Ha; reflexivity|split; [reflexivity|split; [exact I|split; [start_tac Ep|nudp; exact I]]]]).
        adv_in H. use_peek. run H args st3 El. injection H as <- <-. apply Hlist in El as (items & Hi & Hl & _ & _ & _ & Hwi' & Hpi').
        exists (CCall o0 s items). split; [|split; [|split; [|split]]].
        * rewrite flat_call, Ha, Ha0, Hi. destruct items as [|a r]; cbn [glist]; [reflexivity|]. rewrite gtail_paren. listeq.
        * rewrite erase_call, Hl. reflexivity.
        * apply wf_call. exact Hwi'.
        * start_tac Ep.
        * nudp. apply inner_call. exact Hpi'.
      + injection H as <- <-. exists (CIdent s). split; [rewrite Ha; reflexivity|split; [reflexivity|split; [exact I|split; [start_tac Ep|nudp; exact I]]]].
    - (* quoted identifier *)
      destruct (peek p 0) eqn:Ep1; dead;
        (injection H as <- <-; exists (CQIdent s); split; [rewrite Ha; reflexivity|split; [reflexivity|split; [exact I|split; [start_tac Ep|nudp; exact I]]]]).
    - (* literal *)
      injection H as <- <-. exists (CLit v). split; [rewrite Ha; reflexivity|]. split; [reflexivity|]. split; [exact I|]. split; [start_tac Ep|nudp; exact I].
    - (* star *)
      apply Hwv in H as (k & Hk & Ht & Hwk & Hik). exists (CStarP k). split; [rewrite Ha, Hk; reflexivity|]. split; [now rewrite Ht|]. split; [exact Hwk|]. split; [start_tac Ep|nudp; exact Hik].
    - (* flatten *)
      apply Hflatten in H as (k & Hk & Ht & Hwk & Hik). exists (CFlattenP k). split; [rewrite Ha, Hk; reflexivity|]. split; [now rewrite Ht|]. split; [exact Hwk|]. split; [start_tac Ep|nudp; exact Hik].
    - (* filter *)
      apply Hfilter in H as (p0 & k & Hk & Ht & Hwp & Hwk & Hpp & Hik). exists (CFilterP p0 k). split; [rewrite Ha, Hk; listeq|]. split; [now rewrite Ht|].
      split; [cbn [wfb wfkb]; auto|]. split; [start_tac Ep|nudp; cbn [inner]; destruct Hpp; auto].
    - (* bracket *)
      assert (Hml : brk_start st = false -> parse_multi_list' f p = Ok (t, st') ->
                    exists c, toks st = flat c ++ toks st' /\ erase c = t /\ (wfb ext) c /\ start_ok st c /\ (forall rbp, prec L rbp c)).
      { intros Hb Hm. apply Hmlist in Hm as (e & es & Hm & Ht & Hwe & Hwes & Hpe & Hpes). exists (CMList e es).
        split; [rewrite flat_mlist, Ha, Hm; listeq|]. split; [now rewrite Ht|]. split; [apply wf_mlist; auto|].
        split; [unfold start_ok; rewrite Ep, Hb; (split; [|split; [|split]]); intros Hst; try discriminate Hst; reflexivity|]. nudp. apply inner_mlist. auto. }
      assert (Hix : parse_index' f p = Ok (t, st') -> exists c, toks st = flat c ++ toks st' /\ erase c = t /\ (wfb ext) c /\ start_ok st c /\ (forall rbp, prec L rbp c)).
      { intros Hm. apply Hindex in Hm as [(n0 & Hn & Ht)|(off & sl & k & Hs & Ht & Hwk & Hik)].
        - exists (CIndexP n0). split; [rewrite Ha, Hn; reflexivity|]. split; [now rewrite Ht|]. split; [exact I|].
          split; [unfold start_ok; rewrite Ep; (split; [|split; [|split]]); intros Hst; try discriminate Hst; reflexivity|nudp; exact I].
        - exists (CSliceP off sl k). split; [rewrite Ha, Hs; listeq|]. split; [now rewrite Ht|]. split; [exact Hwk|].
          split; [unfold start_ok; rewrite Ep; (split; [|split; [|split]]); intros Hst; try discriminate Hst; reflexivity|nudp; exact Hik]. }
      assert (Hb1 : brk_start st = match peek p 0 with TNumber _ | TColon => true | TStar => tok_is_rbracket (peek p 1) | _ => false end).
      { unfold brk_start. rewrite Ep, <- !Hc by discriminate. reflexivity. }
      destruct (peek p 0) eqn:Ep1; try (exact (Hix H)); try (exact (Hml Hb1 H)).
      destruct (tok_is_rbracket (peek p 1)) eqn:Er1; [|exact (Hml Hb1 H)].
      adv_in H. use_peek. apply Hwi in H as (k & Hk & Ht & Hwk & Hik). exists (CWildP k). split; [rewrite Ha, Ha0, Hk; reflexivity|]. split; [now rewrite Ht|].
      split; [exact Hwk|]. split; [unfold start_ok; rewrite Ep; (split; [|split; [|split]]); intros Hst; try discriminate Hst; reflexivity|nudp; exact Hik].
    - (* not *)
      run H n st2 Ee. apply Hexpr in Ee as (x & Hx & Hex & Hwx & _ & Hpx). injection H as <- <-. exists (CNot x). split; [rewrite Ha, Hx; reflexivity|].
      split; [cbn [erase]; now rewrite Hex|]. split; [exact Hwx|]. split; [start_tac Ep|nudp; exact Hpx].
    - (* current node *)
      injection H as <- <-. exists CCurrent. split; [rewrite Ha; reflexivity|]. split; [reflexivity|]. split; [exact I|]. split; [start_tac Ep|nudp; exact I].
    - (* ampersand outside an argument list: only the code *)
      unfold_P. destruct strict; cbn [negb] in *; dead. run H rhs st2 Ee. apply Hexpr in Ee as (x & Hx & Hex & Hwx & _ & Hpx). injection H as <- <-.
      exists (CAmp x). split; [rewrite Ha, Hx; reflexivity|]. split; [cbn [erase]; now rewrite Hex|]. split; [cbn [wfb]; auto|].
      split; [start_tac Ep|nudp; exact Hpx].
    - (* parentheses *)
      run H result st2 Ee. apply Hexpr in Ee as (x & Hx & Hex & Hwx & _ & Hpx). adv_in H. destruct (peek st2 0) eqn:Ep2; dead. use_peek.
      injection H as <- <-. exists (CParen x). split; [rewrite Ha, Hx, Ha0; cbn [flat]; listeq|]. split; [exact Hex|]. split; [exact Hwx|].
      split; [start_tac Ep|nudp; exact Hpx].
    - (* multi-select hash *)
      apply Hkvps in H as (items & Hne & Hi & Ht & Hwi' & Hpi'). destruct items as [|[[q k] x] r]; [contradiction|].
      exists (CMHash (q, k, x) r). split; [rewrite flat_mhash, Ha, Hi; cbn [hash_items]; listeq|]. split; [rewrite erase_mhash, Ht; reflexivity|].
      split; [apply wf_mhash; split; [exact (Forall_inv Hwi')|exact (Forall_inv_tail Hwi')]|]. split; [start_tac Ep|].
      nudp. apply inner_mhash. split; [exact (Forall_inv Hpi')|exact (Forall_inv_tail Hpi')].
  Qed.

  Lemma all_sound_holds : forall f, all_sound f.
  Proof.
    induction f as [|f IH].
    - unfold all_sound. repeat match goal with |- _ /\ _ => split end; repeat intro; discriminate.
    - unfold all_sound. repeat match goal with |- _ /\ _ => split end.
      + exact (sound_expr f IH). + exact (sound_loop f IH). + exact (sound_nud f IH). + exact (sound_kvps f IH). + exact (sound_kvp f IH).
      + exact (sound_led f IH). + exact (sound_filter f IH). + exact (sound_flatten f IH). + exact (sound_cmp f IH). + exact (sound_dot f IH).
      + exact (sound_prhs f IH). + exact (sound_wi f IH). + exact (sound_wv f IH). + exact (sound_index f IH). + exact (sound_mlist f IH).
      + exact (sound_list f IH).
  Qed.

  (** Whatever the reference parser accepts is the flattening of a well-formed
      syntax tree of the grammar followed by the unconsumed rest (which starts with
      the end of input), and the tree it returns is the abstract tree of that syntax tree. *)
  Theorem ref_parser_sound fuel tokens t :
    parse_tokens L STOP strict fuel tokens = Ok t ->
    exists c rest, map snd tokens = flat c ++ rest /\ erase c = t /\ (wfb ext) c /\ prec L 0 c /\ hd TEof rest = TEof.
  Proof.
    unfold parse_tokens. destruct (expr' fuel 0 (mkPst tokens 0)) as [[r st]|?| | |] eqn:E; cbn [bind]; dead.
    destruct (peek st 0) eqn:Ep; dead. intros H. injection H as <-.
    destruct (all_sound_holds fuel) as (Hexpr & _). apply Hexpr in E as (c & Hc & Hec & Hwc & _ & Hpc).
    exists c, (toks st). split; [exact Hc|]. split; [exact Hec|]. split; [exact Hwc|]. split; [exact Hpc|].
    unfold peek, toks in *. destruct (pq st) as [|[p0 t0] q]; cbn in *; [reflexivity|exact Ep].
  Qed.
End Sound.

(* ---------- the token stream ends with exactly one end-of-input token ---------- *)
Definition ends_with_eof (acc r : list (Z * token)) : Prop :=
  exists body p, r = rev acc ++ body ++ [(p, TEof)] /\ Forall (fun x => snd x <> TEof) body.

Lemma ends_push pos tok acc r : ends_with_eof ((pos, tok) :: acc) r -> tok <> TEof -> ends_with_eof acc r.
Proof.
  intros (body & p & Hr & Hb) Ht. exists ((pos, tok) :: body), p. split; [rewrite Hr; cbn [rev]; rewrite <- app_assoc; reflexivity|].
  constructor; [exact Ht|exact Hb].
Qed.

Lemma lex_go_ends : forall f s pos acc r, lex_go f s pos acc = Ok r -> ends_with_eof acc r.
Proof.
  induction f as [|f IH]; intros s pos acc r H; [discriminate|].
  destruct s as [|c rest].
  - cbn [lex_go] in H. injection H as <-. exists [], pos. split; [|constructor]. rewrite rev_append_rev. reflexivity.
  - cbn [lex_go] in H.
    repeat match type of H with
           | (if ?b then _ else _) = _ => destruct b
           | (match ?x with _ => _ end) = _ => destruct x
           | (let '(_, _) := ?x in _) = _ => destruct x
           | bind ?g _ = _ => destruct g; cbn [bind] in H
           | lex_err _ = _ => discriminate H
           | Err _ = _ => discriminate H
           | Trap = _ => discriminate H
           | OOF = _ => discriminate H
           | Unmodelled = _ => discriminate H
           end;
    (apply IH in H; first [exact H | apply (ends_push _ _ _ _ H); discriminate]).
Qed.

Lemma tokenize_ends s r : tokenize s = Ok r ->
  exists body p, r = body ++ [(p, TEof)] /\ Forall (fun x => snd x <> TEof) body.
Proof. intros H. apply lex_go_ends in H as (body & p & Hr & Hb). cbn [rev app] in Hr. eauto. Qed.

(* ---------- no syntax tree flattens to an end-of-input token ---------- *)
Lemma optnum_no_eof o : ~ In TEof (optnum o).
Proof. destruct o; cbn; intuition discriminate. Qed.

Lemma slice_toks_no_eof sl : ~ In TEof (slice_toks sl).
Proof.
  unfold slice_toks. intros H. apply in_app_or in H as [H|H]; [exact (optnum_no_eof _ H)|].
  destruct H as [H|H]; [discriminate|]. apply in_app_or in H as [H|H]; [exact (optnum_no_eof _ H)|].
  destruct (sl_c sl) as [c|]; [|exact H]. destruct H as [H|H]; [discriminate|exact (optnum_no_eof _ H)].
Qed.

Ltac no_eof_step :=
  match goal with
  | H : In TEof (_ ++ _) |- _ => apply in_app_or in H as [H|H]
  | H : In TEof (key_tok ?q _ :: _) |- _ => destruct q; cbn [key_tok] in H
  | H : In TEof (binop_tok ?o :: _) |- _ => destruct o as [| | |[]]; cbn [binop_tok] in H
  | H : In TEof (if ?b then _ else _) |- _ => destruct b
  | H : In TEof (_ :: _) |- _ => destruct H as [H|H]; [discriminate H|]
  | H : In TEof [] |- _ => destruct H
  | H : In TEof (optnum _) |- _ => exact (optnum_no_eof _ H)
  | H : In TEof (slice_toks _) |- _ => exact (slice_toks_no_eof _ H)
  end.

Lemma flat_no_eof : forall c, ~ In TEof (flat c)
with flatk_no_eof : forall k, ~ In TEof (flatk k).
Proof.
  - intros c H. destruct c; cbn [flat] in H; repeat no_eof_step;
      try (eapply flat_no_eof; exact H); try (eapply flatk_no_eof; exact H).
    + (* multi-select list tail *)
      induction es as [|x r IHr]; repeat no_eof_step; [eapply flat_no_eof; exact H|exact (IHr H)].
    + (* multi-select hash *)
      destruct kv as [[q k] e]. repeat no_eof_step; try (eapply flat_no_eof; exact H);
        (induction kvs as [|[[q' k'] x] r IHr]; repeat no_eof_step; try (eapply flat_no_eof; exact H); exact (IHr H)).
    + (* call *)
      destruct args as [|[b x] r]; repeat no_eof_step; try (eapply flat_no_eof; exact H);
        (induction r as [|[b' y] r IHr]; repeat no_eof_step; try (eapply flat_no_eof; exact H); exact (IHr H)).
    + (* call on an operand *)
      destruct args as [|[b x] r]; repeat no_eof_step; try (eapply flat_no_eof; exact H);
        (induction r as [|[b' y] r IHr]; repeat no_eof_step; try (eapply flat_no_eof; exact H); exact (IHr H)).
  - intros k H. destruct k; cbn [flatk] in H; repeat no_eof_step; eapply flat_no_eof; exact H.
Qed.

Lemma split_at_first_eof (l1 l2 r : list token) :
  ~ In TEof l1 -> ~ In TEof l2 -> l1 ++ TEof :: r = l2 ++ [TEof] -> l1 = l2 /\ r = [].
Proof.
  revert l2. induction l1 as [|a l1 IH]; intros l2 H1 H2 E.
  - destruct l2 as [|b l2]; cbn in E.
    + injection E as ->. auto.
    + injection E as <- _. exfalso. apply H2. left. reflexivity.
  - destruct l2 as [|b l2]; cbn in E.
    + injection E as -> _. exfalso. apply H1. left. reflexivity.
    + injection E as -> E. destruct (IH l2) as [-> ->]; [intros H; apply H1; right; exact H|intros H; apply H2; right; exact H|exact E|auto].
Qed.

(** Soundness of the reference parser, from the expression text: an accepted
    expression lexes to the flattening of a syntax tree of the grammar followed
    by the end-of-input token, and the returned tree is that syntax tree's
    abstract tree (offsets included, as annotations). *)
Theorem ref_parse_sound s t : ref_parse s = Ok t ->
  exists tokens c, tokenize s = Ok tokens /\ map snd tokens = flat c ++ [TEof] /\ erase c = t /\ wf c /\
                   prec (fun tk => Spec.TableSpec.spec_lbp (kind_of tk)) 0 c.
Proof.
  unfold ref_parse. destruct (tokenize s) as [tokens|?| | |] eqn:Et; cbn [bind]; try discriminate. intros H.
  apply ref_parser_sound in H as (c & rest & Hc & Hec & Hwc & Hpc & Hhd).
  apply tokenize_ends in Et as Hends. destruct Hends as (body & p & Hr & Hb).
  exists tokens, c. split; [reflexivity|]. split; [|split; [exact Hec|split; [exact Hwc|exact Hpc]]].
  assert (Hbody : ~ In TEof (map snd body)).
  { intros Hin. apply in_map_iff in Hin as ([p0 t0] & E & Hin). rewrite Forall_forall in Hb. apply (Hb _ Hin). exact E. }
  rewrite Hr, map_app in Hc. cbn [map snd] in Hc.
  destruct rest as [|t0 r].
  - exfalso. rewrite app_nil_r in Hc. apply (flat_no_eof c). rewrite <- Hc. apply in_or_app. right. left. reflexivity.
  - cbn [hd] in Hhd. subst t0. symmetry in Hc. destruct (split_at_first_eof _ _ _ (flat_no_eof c) Hbody Hc) as [E ->].
    rewrite Hr, map_app. cbn [map snd]. now rewrite E.
Qed.

(** The same for the code (the model of parser.rs): an accepted expression lexes
    to the flattening of a tree of the *extended* language [wfb true] — the
    grammar plus [&x] as a prefix form, a call applied to an operand that
    denotes a field, [&x] after a dot and a multi-select list after a projection —
    and the returned tree is its abstract tree.  Nothing else is accepted: the
    recorded deviation classes are the only non-sentences that compile. *)
Theorem code_parse_sound s t : parse s = Ok t ->
  exists tokens c, tokenize s = Ok tokens /\ map snd tokens = flat c ++ [TEof] /\ erase c = t /\ wfb true c /\ prec lbp 0 c.
Proof.
  unfold parse. destruct (tokenize s) as [tokens|?| | |] eqn:Et; cbn [bind]; try discriminate. intros H.
  apply ref_parser_sound in H as (c & rest & Hc & Hec & Hwc & Hpc & Hhd).
  apply tokenize_ends in Et as Hends. destruct Hends as (body & p & Hr & Hb).
  exists tokens, c. split; [reflexivity|]. split; [|split; [exact Hec|split; [exact Hwc|exact Hpc]]].
  assert (Hbody : ~ In TEof (map snd body)).
  { intros Hin. apply in_map_iff in Hin as ([p0 t0] & E & Hin). rewrite Forall_forall in Hb. apply (Hb _ Hin). exact E. }
  rewrite Hr, map_app in Hc. cbn [map snd] in Hc.
  destruct rest as [|t0 r].
  - exfalso. rewrite app_nil_r in Hc. apply (flat_no_eof c). rewrite <- Hc. apply in_or_app. right. left. reflexivity.
  - cbn [hd] in Hhd. subst t0. symmetry in Hc. destruct (split_at_first_eof _ _ _ (flat_no_eof c) Hbody Hc) as [E ->].
    rewrite Hr, map_app. cbn [map snd]. now rewrite E.
Qed.

(** every tree of the grammar is a tree of the extended language *)
Lemma wfb_mono : forall c, wfb false c -> wfb true c
with wfkb_mono : forall k, wfkb false k -> wfkb true k.
Proof.
  - intros c H. destruct c; cbn [wfb] in *; try exact I; try (apply wfb_mono; exact H);
      try (apply wfkb_mono; exact H);
      try (destruct H as [H1 H2]; split; [first [apply wfb_mono|apply wfkb_mono]; exact H1|]; try (first [apply wfb_mono|apply wfkb_mono]; exact H2)).
    + (* multi-select list *)
      induction es as [|x r IHr]; [exact I|]. destruct H2 as [Hx Hr]. split; [apply wfb_mono; exact Hx|exact (IHr Hr)].
    + (* multi-select hash *)
      destruct kv as [[q k] e]. destruct H as [H1 H2]. split; [apply wfb_mono; exact H1|].
      induction kvs as [|[[q' k'] x] r IHr]; [exact I|]. destruct H2 as [Hx Hr]. split; [apply wfb_mono; exact Hx|exact (IHr Hr)].
    + (* call *)
      induction args as [|[b x] r IHr]; [exact I|]. destruct H as [Hx Hr]. split; [apply wfb_mono; exact Hx|exact (IHr Hr)].
    + (* dot *)
      destruct H2 as [H2 H3]. split; [apply wfb_mono; exact H2|apply dot_ok_x; exact H3].
    + (* filter *)
      destruct H2 as [H2 H3]. split; [apply wfb_mono; exact H2|apply wfkb_mono; exact H3].
    + (* ampersand: not in the grammar *)
      destruct H as [H _]. discriminate H.
    + (* call on an operand: not in the grammar *)
      destruct H as [H _]. discriminate H.
  - intros k H. destruct k; cbn [wfkb] in *; [exact I| |]; destruct H as [H1 H2]; (split; [apply wfb_mono; exact H1|]).
    + apply dot_ok_x; exact H2.
    + apply brk_ok_x; exact H2.
Qed.
