(** C14 / C17: the two serialisers agree on string-keyed values; the specialised
    conversions agree with the generic serde path on JSON-representable inputs. *)
From Coq Require Import Floats.SpecFloat Sorting.Sorted ZifyBool.
From JP Require Import Base F64 Value JsonPrint Serde Proofs.ObjFacts.

Definition key_ok (k : sval) : bool :=
  match k with SStr _ | SChar _ | SUnitVariant _ | SNewtypeStruct (SStr _) => true | _ => false end.

Lemma key_agree k : key_ok k = true -> key_var k = key_json k.
Proof.
  intros H. destruct k; cbn in *; try discriminate; try reflexivity.
Qed.

Theorem ser_agree : forall v, string_keyed v = true -> ser_var v = ser_json v.
Proof.
  unfold ser_var, ser_json.
  fix IH 1. intros v. destruct v; cbn [string_keyed ser]; intros H; try reflexivity.
  - (* Some *) apply IH; exact H.
  - (* NewtypeStruct *) apply IH; exact H.
  - (* NewtypeVariant *) rewrite (IH v H). reflexivity.
  - (* Seq *)
    f_equal. induction l as [|x l IHl]; [reflexivity|]. cbn in H. apply andb_true_iff in H as [H1 H2].
    rewrite (IH x H1), (IHl H2). reflexivity.
  - (* Tuple *)
    f_equal. induction l as [|x l IHl]; [reflexivity|]. cbn in H. apply andb_true_iff in H as [H1 H2].
    rewrite (IH x H1), (IHl H2). reflexivity.
  - (* TupleStruct *)
    f_equal. induction l as [|x l IHl]; [reflexivity|]. cbn in H. apply andb_true_iff in H as [H1 H2].
    rewrite (IH x H1), (IHl H2). reflexivity.
  - (* TupleVariant *)
    f_equal. induction l as [|x l IHl]; [reflexivity|]. cbn in H. apply andb_true_iff in H as [H1 H2].
    rewrite (IH x H1), (IHl H2). reflexivity.
  - (* Map *)
    f_equal. generalize (@nil (str * value)). induction kvs as [|[k x] kvs IHk]; intros acc; [reflexivity|].
    cbn in H. apply andb_true_iff in H as [H1 H2]. apply andb_true_iff in H1 as [Hk Hx].
    assert (key_var k = key_json k) as Hkk.
    { apply key_agree. unfold key_ok. exact Hk. }
    rewrite Hkk. destruct (key_json k); [|reflexivity]. rewrite (IH x Hx).
    destruct (ser key_json x); [|reflexivity]. cbn [sbind]. apply IHk. exact H2.
  - (* Struct *)
    f_equal. generalize (@nil (str * value)). induction fields as [|[k x] fs IHf]; intros acc; [reflexivity|].
    cbn in H. apply andb_true_iff in H as [Hx H2]. rewrite (IH x Hx).
    destruct (ser key_json x); [|reflexivity]. cbn [sbind]. apply IHf. exact H2.
  - (* StructVariant *)
    f_equal. generalize (@nil (str * value)). induction fields as [|[k x] fs IHf]; intros acc; [reflexivity|].
    cbn in H. apply andb_true_iff in H as [Hx H2]. rewrite (IH x Hx).
    destruct (ser key_json x); [|reflexivity]. cbn [sbind]. apply IHf. exact H2.
Qed.

(** Shape facts named by the property. *)
Lemma ser_non_finite_is_null f : f_is_finite f = false -> ser_var (SF64 f) = SOk VNull /\ ser_var (SF32 f) = SOk VNull.
Proof. intros H. unfold ser_var. cbn. unfold num_of_f64. rewrite H. split; reflexivity. Qed.

Lemma ser_variant_shapes n x y l ys fs m :
  ser_var (SUnitVariant n) = SOk (VStr n) /\
  (ser_var x = SOk y -> ser_var (SNewtypeVariant n x) = SOk (VObj [(n, y)])) /\
  (ser_var (SSeq l) = SOk (VArr ys) -> ser_var (STupleVariant n l) = SOk (VObj [(n, VArr ys)])) /\
  (ser_var (SStruct fs) = SOk (VObj m) -> ser_var (SStructVariant n fs) = SOk (VObj [(n, VObj m)])).
Proof.
  unfold ser_var. repeat split; cbn [ser].
  - intros H. now rewrite H.
  - intros H. destruct ((fix go (l0 : list sval) := _) l) eqn:E; cbn in *; [|discriminate]. injection H as <-. reflexivity.
  - intros H. destruct ((fix go (fs0 : list (str * sval)) (acc : list (str * value)) := _) fs []) eqn:E; cbn in *; [|discriminate].
    injection H as <-. reflexivity.
Qed.

(* ---------- C17 ---------- *)
Fixpoint keys_increasing {A} (o : list (str * A)) : bool :=
  match o with
  | (k1, _) :: (((k2, _) :: _) as r) => match str_cmp k1 k2 with Lt => keys_increasing r | _ => false end
  | _ => true
  end.

(** JSON-representable library values: what [from_json] and the serialisers produce. *)
Fixpoint wf_json (v : value) : bool :=
  match v with
  | VNum (PosInt n) => 0 <=? n
  | VNum (NegInt z) => z <? 0
  | VNum (Flt f) => f_is_finite f
  | VArr l => forallb wf_json l
  | VObj o => forallb (fun kv => wf_json (snd kv)) o && keys_increasing o
  | VExpref _ => false
  | _ => true
  end.

Definition json_representable (i : input) : bool :=
  match i with
  | IJson v | IVar v => wf_json v
  | IF32 f | IF64 f => f_is_finite f
  | _ => true
  end.

Lemma insert_at_end {A} (acc : list (str * A)) k v :
  Forall (fun kv => str_cmp (fst kv) k = Lt) acc -> obj_insert acc k v = acc ++ [(k, v)].
Proof.
  induction 1 as [|[k' v'] acc Hk Hacc IH]; cbn; [reflexivity|].
  cbn in Hk. rewrite str_cmp_antisym, Hk. cbn. now rewrite IH.
Qed.

Lemma keys_increasing_tail {A} (k : str) (x : A) o : keys_increasing ((k, x) :: o) = true ->
  keys_increasing o = true /\ Forall (fun kv => str_cmp k (fst kv) = Lt) o.
Proof.
  revert k x; induction o as [|[k2 x2] o IH]; intros k x H; [split; [reflexivity|constructor]|].
  cbn in H. destruct (str_cmp k k2) eqn:E; try discriminate. split; [exact H|].
  constructor; [exact E|]. destruct (IH k2 x2 H) as [_ Hall].
  eapply Forall_impl; [|exact Hall]. intros [k3 x3] H3. cbn in *. eapply str_cmp_lt_trans; eauto.
Qed.

Lemma conv_value_identity : forall v, wf_json v = true -> ser_var (sval_of_value v) = SOk v.
Proof.
  unfold ser_var.
  fix IH 1. intros v. destruct v as [|s|b|n|l|o|a]; cbn [wf_json sval_of_value ser]; intros H; try reflexivity; try discriminate.
  - (* numbers *)
    destruct n as [z|z|f]; cbn [sval_of_value ser]; unfold num_of_int, num_of_f64.
    + destruct (z <? 0) eqn:E; [lia|reflexivity].
    + rewrite H. reflexivity.
    + rewrite H. reflexivity.
  - (* arrays *)
    assert ((fix go (l0 : list sval) : sres (list value) :=
               match l0 with
               | [] => SOk []
               | x :: r => sbind (ser key_var x) (fun y => sbind (go r) (fun ys => SOk (y :: ys)))
               end) (map sval_of_value l) = SOk l) as ->; [|reflexivity].
    induction l as [|x l IHl]; [reflexivity|]. cbn in H. apply andb_true_iff in H as [H1 H2].
    cbn [map]. rewrite (IH x H1). cbn [sbind]. rewrite (IHl H2). reflexivity.
  - (* objects *)
    apply andb_true_iff in H as [Hv Hk].
    assert (forall acc, Forall (fun kv => Forall (fun kv' => str_cmp (fst kv) (fst kv') = Lt) o) acc ->
              (fix go (kvs : list (sval * sval)) (acc0 : list (str * value)) : sres (list (str * value)) :=
                 match kvs with
                 | [] => SOk acc0
                 | (k, x) :: r =>
                     match key_var k with
                     | Some ks => sbind (ser key_var x) (fun y => go r (obj_insert acc0 ks y))
                     | None => SErr
                     end
                 end) (map (fun kv => (SStr (fst kv), sval_of_value (snd kv))) o) acc = SOk (acc ++ o)) as Hgo.
    { clear - IH Hv Hk. induction o as [|[k x] o IHo]; intros acc Hacc; cbn [map].
      - now rewrite app_nil_r.
      - cbn in Hv. apply andb_true_iff in Hv as [Hx Hv]. cbn [fst snd key_var].
        rewrite (IH x Hx). cbn [sbind].
        destruct (keys_increasing_tail k x o Hk) as [Hk' Hall].
        rewrite insert_at_end.
        + rewrite IHo; [now rewrite <- app_assoc|exact Hv|exact Hk'|].
          apply Forall_app. split.
          * eapply Forall_impl; [|exact Hacc]. intros kv Hkv. now inversion Hkv.
          * constructor; [exact Hall|constructor].
        + eapply Forall_impl; [|exact Hacc]. intros kv Hkv. now inversion Hkv. }
    rewrite (Hgo [] ltac:(constructor)). reflexivity.
Qed.

Theorem conv_agree i : json_representable i = true -> conv_special i = conv_generic i.
Proof.
  destruct i as [v|v|s|z|f|f| |b]; cbn [json_representable conv_special conv_generic]; intros H; try reflexivity.
  - now rewrite conv_value_identity.
  - now rewrite conv_value_identity.
  - unfold ser_var. cbn. unfold num_of_f64. now rewrite H.
  - unfold ser_var. cbn. unfold num_of_f64. now rewrite H.
Qed.

(** Deviation D12 (recorded): a non-finite float is an error on the specialised path and null on the generic one. *)
Lemma conv_non_finite_refuted : conv_special (IF64 S754_nan) = SErr /\ conv_generic (IF64 S754_nan) = SOk VNull.
Proof. split; reflexivity. Qed.
