(** C08/C09: printing a JSON value without floats and reading the text back
    yields the value (integers of the 64-bit ranges, strings over all code
    points, booleans, null, arrays, objects, nesting below the reader's limit). *)
From Coq Require Import ZifyBool Floats.SpecFloat Sorting.Sorted.
From JP Require Import Base F64 Value JsonRead JsonPrint Proofs.ObjFacts Proofs.IntProof Proofs.JsonStrProof.

Definition chars_ok (s : str) : Prop := Forall (fun c => 0 <= c) s.

(** [plain d v]: no floats, no expression references, integers in range, keys in
    strictly increasing order (the invariant of the library's map), nesting at most [d] *)
Fixpoint plain (d : nat) (v : value) {struct v} : Prop :=
  match v with
  | VNull | VBool _ => True
  | VStr s => chars_ok s
  | VNum (PosInt z) => 0 <= z <= u64_max
  | VNum (NegInt z) => i64_min <= z < 0
  | VNum (Flt _) => False
  | VArr l =>
      match d with
      | O => False
      | S d' => (fix all (l : list value) : Prop := match l with [] => True | x :: r => plain d' x /\ all r end) l
      end
  | VObj o =>
      match d with
      | O => False
      | S d' =>
          sorted_keys o /\
          (fix all (o : list (str * value)) : Prop := match o with [] => True | (k, x) :: r => (chars_ok k /\ plain d' x) /\ all r end) o
      end
  | VExpref _ => False
  end.

Lemma plain_arr d l : plain (S d) (VArr l) <-> Forall (plain d) l.
Proof.
  cbn [plain]. split; intros H.
  - induction l as [|x r IH]; [constructor|]. destruct H as [Hx Hr]. constructor; [exact Hx|exact (IH Hr)].
  - induction H as [|x r Hx Hr IH]; [exact I|]. split; [exact Hx|exact IH].
Qed.

Lemma plain_obj d o : plain (S d) (VObj o) <-> sorted_keys o /\ Forall (fun kv : str * value => chars_ok (fst kv) /\ plain d (snd kv)) o.
Proof.
  cbn [plain]. split; intros [Hs H]; (split; [exact Hs|]).
  - induction o as [|[k x] r IH]; [constructor|]. destruct H as [Hx Hr]. constructor; [exact Hx|]. apply IH; [|exact Hr].
    inversion Hs; assumption.
  - clear Hs. induction H as [|[k x] r Hx Hr IH]; [exact I|]. split; [exact Hx|exact IH].
Qed.

(** the compact text of a value, elements and members in tail style *)
Fixpoint jtext (v : value) : str :=
  match v with
  | VNull => [110;117;108;108]
  | VBool true => [116;114;117;101]
  | VBool false => [102;97;108;115;101]
  | VNum (PosInt z) => digits_of z
  | VNum (NegInt z) => 45 :: digits_of (- z)
  | VNum (Flt _) => []
  | VStr s => print_string s
  | VArr l =>
      91 :: (fix go (l : list value) : str :=
               match l with [] => [93] | x :: r => jtext x ++ match r with [] => [93] | _ :: _ => 44 :: go r end end) l
  | VObj o =>
      123 :: (fix go (o : list (str * value)) : str :=
                match o with
                | [] => [125]
                | (k, x) :: r => print_string k ++ 58 :: jtext x ++ match r with [] => [125] | _ :: _ => 44 :: go r end
                end) o
  | VExpref _ => []
  end.

Fixpoint elems_text (l : list value) : str :=
  match l with [] => [93] | x :: r => jtext x ++ match r with [] => [93] | _ :: _ => 44 :: elems_text r end end.
Fixpoint members_text (o : list (str * value)) : str :=
  match o with
  | [] => [125]
  | (k, x) :: r => print_string k ++ 58 :: jtext x ++ match r with [] => [125] | _ :: _ => 44 :: members_text r end
  end.

Lemma elems_single x : elems_text [x] = jtext x ++ [93].
Proof. reflexivity. Qed.
Lemma elems_cons2 x y r : elems_text (x :: y :: r) = jtext x ++ 44 :: elems_text (y :: r).
Proof. reflexivity. Qed.
Lemma members_single k x : members_text [(k, x)] = print_string k ++ 58 :: jtext x ++ [125].
Proof. reflexivity. Qed.
Lemma members_cons2 k x kv r : members_text ((k, x) :: kv :: r) = print_string k ++ 58 :: jtext x ++ 44 :: members_text (kv :: r).
Proof. reflexivity. Qed.

Lemma jtext_arr l : jtext (VArr l) = 91 :: elems_text l.
Proof. reflexivity. Qed.
Lemma jtext_obj o : jtext (VObj o) = 123 :: members_text o.
Proof. reflexivity. Qed.

(* ---------- the printer writes [jtext] ---------- *)
Lemma sep_concat_tail x l : sep_concat [44] (x :: l) ++ [93] = x ++ match l with [] => [93] | _ :: _ => 44 :: (sep_concat [44] l ++ [93]) end.
Proof. destruct l as [|y l]; cbn [sep_concat]; [reflexivity|]. rewrite <- !app_assoc. reflexivity. Qed.
Lemma sep_concat_tail_obj x l : sep_concat [44] (x :: l) ++ [125] = x ++ match l with [] => [125] | _ :: _ => 44 :: (sep_concat [44] l ++ [125]) end.
Proof. destruct l as [|y l]; cbn [sep_concat]; [reflexivity|]. rewrite <- !app_assoc. reflexivity. Qed.

Theorem print_json_jtext : forall v d, plain d v -> print_json v = Ok (jtext v).
Proof.
  fix IH 1. intros v d H. destruct v as [|s|b|n|l|o|e]; try reflexivity.
  - destruct b; reflexivity.
  - destruct n as [z|z|f]; cbn [plain] in H; [| |contradiction]; cbn [print_json print_num jtext]; unfold print_z.
    + assert ((z <? 0) = false) as -> by lia. reflexivity.
    + unfold i64_min in H. assert ((z <? 0) = true) as -> by lia. reflexivity.
  - destruct d as [|d]; [contradiction|]. cbn [plain] in H. rewrite jtext_arr. cbn [print_json].
    assert (Hparts : (fix go (l0 : list value) : res (list str) :=
                        match l0 with [] => Ok [] | x :: l' => let* y := print_json x in let* ys := go l' in Ok (y :: ys) end) l = Ok (map jtext l)).
    { induction l as [|x r IHr]; [reflexivity|]. destruct H as [Hx Hr]. rewrite (IH x d Hx). cbn [bind]. rewrite (IHr Hr). reflexivity. }
    rewrite Hparts. cbn [bind]. f_equal. f_equal. clear Hparts H. induction l as [|x r IHr]; [reflexivity|].
    cbn [map elems_text]. rewrite sep_concat_tail. f_equal. destruct r as [|y r]; [reflexivity|]. cbn [map]. f_equal. exact IHr.
  - destruct d as [|d]; [contradiction|]. cbn [plain] in H. destruct H as [_ H]. rewrite jtext_obj. cbn [print_json].
    assert (Hparts : (fix go (l0 : list (str * value)) : res (list str) :=
                        match l0 with [] => Ok [] | (k, x) :: l' => let* y := print_json x in let* ys := go l' in Ok ((print_string k ++ 58 :: y) :: ys) end) o
                     = Ok (map (fun kv : str * value => print_string (fst kv) ++ 58 :: jtext (snd kv)) o)).
    { induction o as [|[k x] r IHr]; [reflexivity|]. destruct H as [[_ Hx] Hr]. rewrite (IH x d Hx). cbn [bind]. rewrite (IHr Hr). reflexivity. }
    rewrite Hparts. cbn [bind]. f_equal. f_equal. clear Hparts H. induction o as [|[k x] r IHr]; [reflexivity|].
    cbn [map members_text fst snd]. rewrite sep_concat_tail_obj. rewrite <- app_assoc. cbn [app]. f_equal. f_equal. f_equal.
    destruct r as [|y r]; [reflexivity|]. cbn [map]. f_equal. exact IHr.
  - contradiction.
Qed.

(* ---------- the reader, step by step ---------- *)
Definition delim (rest : str) : Prop := match rest with [] => True | c :: _ => c = 44 \/ c = 93 \/ c = 125 end.

Lemma delim_not_number rest : delim rest -> not_number_char rest.
Proof. destruct rest as [|c r]; [intros _; exact I|]. cbn [delim not_number_char]. intros H. destruct H as [H|[H|H]]; subst c; repeat split; discriminate || reflexivity. Qed.

Lemma pv_null fu D rest : parse_value (S fu) D (110 :: 117 :: 108 :: 108 :: rest) = Ok (Some (VNull, rest)).
Proof. reflexivity. Qed.
Lemma pv_true fu D rest : parse_value (S fu) D (116 :: 114 :: 117 :: 101 :: rest) = Ok (Some (VBool true, rest)).
Proof. reflexivity. Qed.
Lemma pv_false fu D rest : parse_value (S fu) D (102 :: 97 :: 108 :: 115 :: 101 :: rest) = Ok (Some (VBool false, rest)).
Proof. reflexivity. Qed.
Lemma pv_arr_empty fu D rest : parse_value (S fu) D (91 :: 93 :: rest) = if D - 1 =? 0 then Ok None else Ok (Some (VArr [], rest)).
Proof. reflexivity. Qed.
Lemma pv_obj_empty fu D rest : parse_value (S fu) D (123 :: 125 :: rest) = if D - 1 =? 0 then Ok None else Ok (Some (VObj [], rest)).
Proof. reflexivity. Qed.
Lemma pv_obj fu D r : parse_value (S fu) D (123 :: 34 :: r) =
  if D - 1 =? 0 then Ok None else let* o := parse_members fu (D - 1) (34 :: r) [] in Ok (option_map (fun '(l, r'') => (VObj l, r'')) o).
Proof. reflexivity. Qed.

Lemma skip_ws_nonws c r : is_ws c = false -> skip_ws (c :: r) = c :: r.
Proof. intros H. cbn [skip_ws]. now rewrite H. Qed.

Lemma pv_arr fu D c r : is_ws c = false -> c <> 93 ->
  parse_value (S fu) D (91 :: c :: r) =
    if D - 1 =? 0 then Ok None else let* o := parse_elems fu (D - 1) (c :: r) in Ok (option_map (fun '(l, r'') => (VArr l, r'')) o).
Proof.
  intros Hw H93. cbn [parse_value]. change (skip_ws (91 :: c :: r)) with (91 :: c :: r). cbn iota. rewrite (skip_ws_nonws c r Hw).
  destruct (D - 1 =? 0); [reflexivity|].
  destruct c as [|p|p]; try reflexivity. do 7 (try (destruct p as [p|p|]; try reflexivity)). exfalso. apply H93. reflexivity.
Qed.

Definition econt (fu : nat) (D : Z) (v : value) (r : str) : res (option (list value * str)) :=
  match skip_ws r with
  | 44 :: r' =>
      match skip_ws r' with
      | 93 :: _ => Ok None
      | r'' => let* o' := parse_elems fu D r'' in Ok (option_map (fun '(l, t) => (v :: l, t)) o')
      end
  | 93 :: r' => Ok (Some ([v], r'))
  | _ => Ok None
  end.

Lemma pe_step fu D s : parse_elems (S fu) D s =
  let* o := parse_value fu D s in match o with None => Ok None | Some (v, r) => econt fu D v r end.
Proof. reflexivity. Qed.

Lemma econt_close fu D v r : econt fu D v (93 :: r) = Ok (Some ([v], r)).
Proof. reflexivity. Qed.

Lemma econt_comma fu D v c r : is_ws c = false -> c <> 93 ->
  econt fu D v (44 :: c :: r) = let* o' := parse_elems fu D (c :: r) in Ok (option_map (fun '(l, t) => (v :: l, t)) o').
Proof.
  intros Hw H93. unfold econt. change (skip_ws (44 :: c :: r)) with (44 :: c :: r). cbn iota. rewrite (skip_ws_nonws c r Hw).
  destruct c as [|p|p]; try reflexivity. do 7 (try (destruct p as [p|p|]; try reflexivity)). exfalso. apply H93. reflexivity.
Qed.

Definition mcont (fu : nat) (D : Z) (acc' : list (str * value)) (r3 : str) : res (option (list (str * value) * str)) :=
  match skip_ws r3 with
  | 44 :: r4 =>
      match skip_ws r4 with
      | 125 :: _ => Ok None
      | r5 => parse_members fu D r5 acc'
      end
  | 125 :: r4 => Ok (Some (acc', r4))
  | _ => Ok None
  end.

Lemma pm_step fu D r acc : parse_members (S fu) D (34 :: r) acc =
  match parse_string r with
  | Some (k, r1) =>
      match skip_ws r1 with
      | 58 :: r2 =>
          let* o := parse_value fu D r2 in
          match o with None => Ok None | Some (v, r3) => mcont fu D (obj_insert acc k v) r3 end
      | _ => Ok None
      end
  | None => Ok None
  end.
Proof. reflexivity. Qed.

Lemma mcont_close fu D acc r : mcont fu D acc (125 :: r) = Ok (Some (acc, r)).
Proof. reflexivity. Qed.
Lemma mcont_comma fu D acc r : mcont fu D acc (44 :: 34 :: r) = parse_members fu D (34 :: r) acc.
Proof. reflexivity. Qed.

(** the first character of a value's text *)
Lemma jtext_head v d : plain d v -> exists c t, jtext v = c :: t /\ is_ws c = false /\ c <> 93.
Proof.
  intros H. destruct v as [|s|b|n|l|o|e]; cbn [plain] in H.
  - eexists _, _. split; [reflexivity|]. split; [reflexivity|discriminate].
  - eexists _, _. split; [reflexivity|]. split; [reflexivity|discriminate].
  - destruct b; eexists _, _; (split; [reflexivity|]); (split; [reflexivity|discriminate]).
  - destruct n as [z|z|f]; [| |contradiction].
    + destruct (digits_of_canonical z ltac:(lia)) as (Hd & _ & Hh). cbn [jtext]. destruct (digits_of z) as [|c t]; [contradiction|].
      inversion Hd as [|? ? Hc _]; subst. exists c, t. split; [reflexivity|]. unfold is_ws. split; lia.
    + eexists _, _. split; [reflexivity|]. split; [reflexivity|discriminate].
  - eexists _, _. split; [apply jtext_arr|]. split; [reflexivity|discriminate].
  - eexists _, _. split; [apply jtext_obj|]. split; [reflexivity|discriminate].
  - contradiction.
Qed.

Lemma obj_insert_last {A} (acc : list (str * A)) k v r : sorted_keys (acc ++ (k, v) :: r) -> obj_insert acc k v = acc ++ [(k, v)].
Proof.
  induction acc as [|[k' v'] acc IH]; intros Hs; [reflexivity|]. cbn [app obj_insert] in *.
  inversion Hs as [|? ? Hs' Hall]; subst. rewrite Forall_forall in Hall.
  assert (Hlt : str_cmp k' k = Lt). { apply (Hall (k, v)). apply in_or_app. right. left. reflexivity. }
  rewrite (str_cmp_antisym k' k), Hlt. cbn [CompOpp]. now rewrite (IH Hs').
Qed.

Lemma len_app3 {A} (a b c : list A) : length (a ++ b ++ c) = (length a + length b + length c)%nat.
Proof. rewrite !app_length. lia. Qed.

Theorem parse_value_jtext : forall v d, plain d v -> forall rest fu, delim rest ->
  (2 * length (jtext v ++ rest) + 1 <= fu)%nat ->
  parse_value fu (Z.of_nat d + 1) (jtext v ++ rest) = Ok (Some (v, rest)).
Proof.
  fix IH 1. intros v d H rest fu Hd Hf. destruct fu as [|fu]; [lia|]. destruct v as [|s|b|n|l|o|e].
  - apply pv_null.
  - cbn [plain] in H. cbn [jtext]. unfold print_string. cbn [app]. rewrite <- app_assoc. cbn [app]. rewrite parse_value_string.
    rewrite (parse_string_spells _ s rest (print_string_spells s H)). reflexivity.
  - destruct b; [apply pv_true|apply pv_false].
  - destruct n as [z|z|f]; cbn [plain] in H; [| |contradiction].
    + pose proof (digits_of_canonical z ltac:(lia)) as Hc. cbn [jtext]. destruct (digits_of z) as [|c t] eqn:Ed; [destruct Hc as (_ & _ & [])|].
      cbn [app]. rewrite parse_value_digit by (destruct Hc as (Hall & _); inversion Hall; assumption).
      change (c :: t ++ rest) with ((c :: t) ++ rest). rewrite (parse_integer_canonical true (c :: t) z rest Hc H (delim_not_number rest Hd)).
      rewrite (parse_number_plain true z rest (delim_not_number rest Hd) eq_refl). reflexivity.
    + unfold i64_min in H. pose proof (digits_of_canonical (- z) ltac:(lia)) as Hc. cbn [jtext app]. rewrite parse_value_minus.
      rewrite (parse_integer_canonical false (digits_of (- z)) (- z) rest Hc ltac:(unfold u64_max; lia) (delim_not_number rest Hd)).
      rewrite (parse_number_neg (- z) rest (delim_not_number rest Hd)) by lia. cbn [bind option_map num_of_pnum]. replace (- - z) with z by lia.
      assert ((z <? 0) = true) as -> by lia. reflexivity.
  - (* arrays *)
    destruct d as [|d]; [contradiction|]. cbn [plain] in H. rewrite jtext_arr in *. cbn [app] in *.
    assert (HD : (Z.of_nat (S d) + 1 - 1 =? 0) = false) by lia.
    assert (HD' : Z.of_nat (S d) + 1 - 1 = Z.of_nat d + 1) by lia.
    assert (Helems : forall l0, (fix all (l : list value) : Prop := match l with [] => True | x :: r => plain d x /\ all r end) l0 -> l0 <> [] ->
              forall rest0 fu0, delim rest0 -> (2 * length (elems_text l0 ++ rest0) + 2 <= fu0)%nat ->
              parse_elems fu0 (Z.of_nat d + 1) (elems_text l0 ++ rest0) = Ok (Some (l0, rest0))).
    { induction l0 as [|x r IHr]; intros Hl Hne rest0 fu0 Hd0 Hf0; [contradiction|]. destruct Hl as [Hx Hr].
      destruct fu0 as [|fu0]; [lia|]. rewrite pe_step.
      destruct r as [|y r'].
      - rewrite elems_single in *. rewrite <- app_assoc in *. cbn [app] in *.
        rewrite (IH x d Hx (93 :: rest0) fu0) by (cbn [delim]; auto || lia).
        cbn [bind]. apply econt_close.
      - rewrite elems_cons2 in *. rewrite <- app_assoc in *. cbn [app] in *.
        rewrite (IH x d Hx (44 :: elems_text (y :: r') ++ rest0) fu0) by (cbn [delim]; auto || lia).
        cbn [bind]. destruct Hr as [Hy Hr']. destruct (jtext_head y d Hy) as (c & t & Ey & Hw & H93).
        assert (Et : elems_text (y :: r') ++ rest0 = c :: (t ++ match r' with [] => [93] | _ :: _ => 44 :: elems_text r' end ++ rest0)).
        { cbn [elems_text]. rewrite Ey. rewrite <- app_assoc. reflexivity. }
        rewrite Et, econt_comma by assumption. rewrite <- Et.
        rewrite (IHr (conj Hy Hr') ltac:(discriminate) rest0 fu0 Hd0) by (rewrite app_length in Hf0; cbn [length] in Hf0; lia).
        reflexivity. }
    destruct l as [|x r].
    + cbn [elems_text app]. rewrite pv_arr_empty, HD. reflexivity.
    + destruct H as [Hx Hr]. destruct (jtext_head x d Hx) as (c & t & Ex & Hw & H93).
      assert (Et : elems_text (x :: r) ++ rest = c :: (t ++ match r with [] => [93] | _ :: _ => 44 :: elems_text r end ++ rest)).
      { cbn [elems_text]. rewrite Ex. rewrite <- app_assoc. reflexivity. }
      rewrite Et, pv_arr by assumption. rewrite HD, HD', <- Et.
      rewrite (Helems (x :: r) (conj Hx Hr) ltac:(discriminate) rest fu Hd) by (cbn [length] in Hf; lia). reflexivity.
  - (* objects *)
    destruct d as [|d]; [contradiction|]. cbn [plain] in H. destruct H as [Hsorted H]. rewrite jtext_obj in *. cbn [app] in *.
    assert (HD : (Z.of_nat (S d) + 1 - 1 =? 0) = false) by lia.
    assert (HD' : Z.of_nat (S d) + 1 - 1 = Z.of_nat d + 1) by lia.
    assert (Hmembers : forall o0, (fix all (o : list (str * value)) : Prop := match o with [] => True | (k, x) :: r => (chars_ok k /\ plain d x) /\ all r end) o0 ->
              o0 <> [] -> forall acc rest0 fu0, sorted_keys (acc ++ o0) -> delim rest0 -> (2 * length (members_text o0 ++ rest0) + 2 <= fu0)%nat ->
              parse_members fu0 (Z.of_nat d + 1) (members_text o0 ++ rest0) acc = Ok (Some (acc ++ o0, rest0))).
    { induction o0 as [|[k x] r IHr]; intros Ho Hne acc rest0 fu0 Hs0 Hd0 Hf0; [contradiction|]. destruct Ho as [[Hk Hx] Hr].
      destruct fu0 as [|fu0]; [lia|].
      destruct r as [|[k2 y] r'].
      - rewrite members_single in *. unfold print_string in *. cbn [app] in *. rewrite <- !app_assoc in *. cbn [app] in *. rewrite pm_step.
        rewrite (parse_string_spells _ k _ (print_string_spells k Hk)). change (skip_ws (58 :: ?r)) with (58 :: r). cbn iota.
        rewrite <- ?app_assoc. cbn [app].
        rewrite (IH x d Hx (125 :: rest0) fu0) by (cbn [delim]; auto || (repeat (progress (rewrite ?app_length in *; cbn [length] in * )); lia)).
        cbn [bind]. rewrite mcont_close. rewrite (obj_insert_last acc k x [] Hs0). reflexivity.
      - rewrite members_cons2 in *. unfold print_string at 1. unfold print_string in Hf0 at 1. cbn [app] in *. rewrite <- !app_assoc in *. cbn [app] in *. rewrite pm_step.
        rewrite (parse_string_spells _ k _ (print_string_spells k Hk)). change (skip_ws (58 :: ?r)) with (58 :: r). cbn iota.
        rewrite <- ?app_assoc. cbn [app].
        rewrite (IH x d Hx (44 :: members_text ((k2, y) :: r') ++ rest0) fu0) by (cbn [delim]; auto || (repeat (progress (rewrite ?app_length in *; cbn [length] in * )); lia)).
        cbn [bind]. rewrite (obj_insert_last acc k x ((k2, y) :: r') Hs0).
        assert (Em : members_text ((k2, y) :: r') ++ rest0 = 34 :: (flat_map escape_char k2 ++ [34]) ++ 58 :: jtext y ++ match r' with [] => [125] | _ :: _ => 44 :: members_text r' end ++ rest0).
        { cbn [members_text]. unfold print_string. cbn [app]. repeat (rewrite <- app_assoc; cbn [app]). reflexivity. }
        rewrite Em, mcont_comma, <- Em.
        rewrite (IHr Hr ltac:(discriminate) (acc ++ [(k, x)]) rest0 fu0) by
          (try assumption; try (rewrite <- app_assoc; exact Hs0); repeat (progress (rewrite ?app_length in *; cbn [length] in * )); lia).
        rewrite <- app_assoc. reflexivity. }
    destruct o as [|[k x] r].
    + cbn [members_text app]. rewrite pv_obj_empty, HD. reflexivity.
    + assert (Em : members_text ((k, x) :: r) ++ rest = 34 :: (flat_map escape_char k ++ [34]) ++ 58 :: jtext x ++ match r with [] => [125] | _ :: _ => 44 :: members_text r end ++ rest).
      { cbn [members_text]. unfold print_string. cbn [app]. repeat (rewrite <- app_assoc; cbn [app]). reflexivity. }
      rewrite Em, pv_obj, HD, HD', <- Em.
      rewrite (Hmembers ((k, x) :: r) H ltac:(discriminate) [] rest fu Hsorted Hd) by (cbn [length] in Hf; lia). reflexivity.
  - contradiction.
Qed.

Lemma plain_mono : forall v d d', plain d v -> (d <= d')%nat -> plain d' v.
Proof.
  fix IH 1. intros v d d' H Hle. destruct v as [|s|b|n|l|o|e]; cbn [plain] in *; try exact H.
  - destruct d as [|d]; [contradiction|]. destruct d' as [|d']; [lia|].
    induction l as [|x r IHr]; [exact I|]. destruct H as [Hx Hr]. split; [apply (IH x d d' Hx); lia|exact (IHr Hr)].
  - destruct d as [|d]; [contradiction|]. destruct d' as [|d']; [lia|]. destruct H as [Hs H]. split; [exact Hs|]. clear Hs.
    induction o as [|[k x] r IHr]; [exact I|]. destruct H as [[Hk Hx] Hr]. split; [split; [exact Hk|apply (IH x d d' Hx); lia]|exact (IHr Hr)].
Qed.

(** Printing a float-free JSON value (nesting below the reader's limit of 128
    levels) and reading the text back yields the value. *)
Theorem json_text_round_trip v d : plain d v -> (d <= 127)%nat ->
  exists text, print_json v = Ok text /\ from_json text = Ok (Some v).
Proof.
  intros H Hd. exists (jtext v). split; [exact (print_json_jtext v d H)|].
  unfold from_json. pose proof (parse_value_jtext v 127 (plain_mono v d 127 H Hd) [] (4 + 2 * length (jtext v)) I) as Hp.
  rewrite app_nil_r in Hp. change (Z.of_nat 127 + 1) with 128 in Hp. rewrite Hp by lia. reflexivity.
Qed.

(* ---------- JSON literals between backticks ---------- *)
From JP Require Import Lexer Parser Proofs.LexProof.

(** every backslash of the text starts a two-character unit whose second character is not a backtick *)
Inductive paired : str -> Prop :=
| pr_nil : paired []
| pr_char c r : c <> 92 -> paired r -> paired (c :: r)
| pr_pair c2 r : c2 <> 96 -> paired r -> paired (92 :: c2 :: r).

Lemma paired_app a b : paired a -> paired b -> paired (a ++ b).
Proof. induction 1; intros Hb; cbn [app]; [exact Hb|apply pr_char; auto|apply pr_pair; auto]. Qed.

Lemma paired_spells t k : spells t k -> paired t.
Proof.
  induction 1 as [|c t k Hc1 Hc2 Hc3 Hs IH|e c t k He Hs IH|a b c d n t k Hh Hn Hs IH|a b c d a2 b2 c2 d2 n n2 t k Hh Hn Hh2 Hn2 Hs IH].
  - constructor.
  - apply pr_char; assumption.
  - apply pr_pair; [|exact IH]. pose proof (simple_escape_not_bt e c He). lia.
  - destruct (hex4v_chars _ _ _ _ _ Hh) as ((_ & A2 & _) & (_ & B2 & _) & (_ & C2 & _) & (_ & D2 & _)).
    apply pr_pair; [discriminate|]. repeat (apply pr_char; [assumption|]). exact IH.
  - destruct (hex4v_chars _ _ _ _ _ Hh) as ((_ & A2 & _) & (_ & B2 & _) & (_ & C2 & _) & (_ & D2 & _)).
    destruct (hex4v_chars _ _ _ _ _ Hh2) as ((_ & E2 & _) & (_ & F2 & _) & (_ & G2 & _) & (_ & I2 & _)).
    apply pr_pair; [discriminate|]. repeat (apply pr_char; [assumption|]). apply pr_pair; [discriminate|]. repeat (apply pr_char; [assumption|]). exact IH.
Qed.

Lemma paired_digits ds : all_digits ds -> paired ds.
Proof. induction 1 as [|c r Hc Hr IH]; [constructor|]. apply pr_char; [lia|exact IH]. Qed.

Lemma paired_print_string s : chars_ok s -> paired (print_string s).
Proof.
  intros H. unfold print_string. apply pr_char; [discriminate|]. apply paired_app; [apply (paired_spells _ s (print_string_spells s H))|].
  apply pr_char; [discriminate|constructor].
Qed.

Lemma paired_jtext : forall v d, plain d v -> paired (jtext v).
Proof.
  fix IH 1. intros v d H. destruct v as [|s|b|n|l|o|e]; cbn [plain] in H.
  - repeat (apply pr_char; [discriminate|]). constructor.
  - apply paired_print_string. exact H.
  - destruct b; repeat (apply pr_char; [discriminate|]); constructor.
  - destruct n as [z|z|f]; [| |contradiction]; cbn [jtext].
    + apply paired_digits. apply (digits_of_canonical z). lia.
    + apply pr_char; [discriminate|]. apply paired_digits. unfold i64_min in H. apply (digits_of_canonical (- z)). lia.
  - destruct d as [|d]; [contradiction|]. rewrite jtext_arr. apply pr_char; [discriminate|].
    induction l as [|x r IHr]; [apply pr_char; [discriminate|constructor]|]. destruct H as [Hx Hr]. cbn [elems_text].
    apply paired_app; [exact (IH x d Hx)|]. destruct r as [|y r']; [apply pr_char; [discriminate|constructor]|].
    apply pr_char; [discriminate|]. exact (IHr Hr).
  - destruct d as [|d]; [contradiction|]. destruct H as [_ H]. rewrite jtext_obj. apply pr_char; [discriminate|].
    induction o as [|[k x] r IHr]; [apply pr_char; [discriminate|constructor]|]. destruct H as [[Hk Hx] Hr]. cbn [members_text].
    apply paired_app; [apply paired_print_string; exact Hk|]. apply pr_char; [discriminate|]. apply paired_app; [exact (IH x d Hx)|].
    destruct r as [|y r']; [apply pr_char; [discriminate|constructor]|]. apply pr_char; [discriminate|]. exact (IHr Hr).
  - contradiction.
Qed.

Lemma consume_inside_paired j : paired j -> forall rest buf n fu, (length (bt_spell j) < fu)%nat ->
  consume_inside fu 96 (bt_spell j ++ 96 :: rest) buf n = Some (rev buf ++ bt_spell j, rest, n + byte_len (bt_spell j) + 1).
Proof.
  induction 1 as [|c r Hc Hr IH|c2 r Hc2 Hr IH]; intros rest buf n fu Hf.
  - cbn [bt_spell app length] in *. destruct fu as [|fu]; [lia|]. cbn [consume_inside]. rewrite Z.eqb_refl, rev_append_rev, app_nil_r.
    cbn [byte_len]. change (utf8_len 96) with 1. f_equal. f_equal. lia.
  - destruct (c =? 96) eqn:E96.
    + apply Z.eqb_eq in E96. subst c. rewrite bt_quote in *. cbn [app length] in *. destruct fu as [|fu]; [lia|]. rewrite cib_pair.
      rewrite IH by lia. cbn [rev byte_len]. rewrite <- !app_assoc. cbn [app]. f_equal. f_equal. rewrite u92. change (utf8_len 96) with 1. lia.
    + rewrite (bt_other c r E96) in *. cbn [app length] in *. destruct fu as [|fu]; [lia|]. rewrite cib_char by lia.
      rewrite IH by lia. cbn [rev byte_len]. rewrite <- !app_assoc. cbn [app]. f_equal. f_equal. lia.
  - assert (E92 : (92 =? 96) = false) by reflexivity. assert (Ec2 : (c2 =? 96) = false) by lia.
    rewrite (bt_other 92 (c2 :: r) E92), (bt_other c2 r Ec2) in *. cbn [app length] in *. destruct fu as [|fu]; [lia|]. rewrite cib_pair.
    rewrite IH by lia. cbn [rev byte_len]. rewrite <- !app_assoc. cbn [app]. f_equal. f_equal. rewrite u92. lia.
Qed.

(** A float-free JSON value written as a literal (its text between backticks,
    backticks escaped) is the literal holding that value. *)
Theorem json_literal v d : plain d v -> (d <= 127)%nat ->
  exists p, tokenize (96 :: bt_spell (jtext v) ++ [96]) = Ok [(0, TLiteral v); (p, TEof)].
Proof.
  intros H Hd. unfold tokenize. cbn [length]. rewrite lex_go_backtick.
  rewrite (consume_inside_paired (jtext v) (paired_jtext v d H) [] [] 0) by (rewrite app_length; cbn [length]; lia).
  cbn [rev app]. rewrite unescape_bt_all.
  destruct (json_text_round_trip v d H Hd) as (text & Hp & Hr). rewrite (print_json_jtext v d H) in Hp. injection Hp as <-. rewrite Hr. cbn [no_err_j bind].
  rewrite app_length. cbn [length]. rewrite Nat.add_comm. cbn [Nat.add]. rewrite lex_go_end. eexists. reflexivity.
Qed.

Theorem json_literal_compile v d : plain d v -> (d <= 127)%nat -> parse (96 :: bt_spell (jtext v) ++ [96]) = Ok (ALiteral v).
Proof. intros H Hd. unfold parse. destruct (json_literal v d H Hd) as (p & ->). reflexivity. Qed.
