(** C12: the rendered message points at the reported position. *)
From JP Require Import Base Lexer Wire Render Proofs.ErrProof.

Fixpoint first_line (s : str) : str :=
  match s with [] => [] | c :: r => if c =? 10 then [] else c :: first_line r end.
Fixpoint after_first_line (s : str) : str :=
  match s with [] => [] | c :: r => if c =? 10 then r else after_first_line r end.

Lemma count_nl_nonneg s : 0 <= count_nl s.
Proof. induction s as [|c r IH]; cbn [count_nl]; [lia|]. destruct (c =? 10); lia. Qed.

(** past the target line nothing is inserted any more *)
Lemma loc_go_past s : forall cur line col m, line < cur -> loc_go s cur line col m = (s, m).
Proof.
  induction s as [|c r IH]; intros cur line col m H; cbn [loc_go]; [reflexivity|].
  destruct (c =? 10) eqn:E.
  - apply Z.eqb_eq in E. subst c. assert ((cur + 1 =? line + 1) = false) as -> by lia. rewrite IH by lia. reflexivity.
  - rewrite IH by lia. reflexivity.
Qed.

(** on the target line: the caret line goes after its end *)
Lemma loc_go_at post : forall line col,
  loc_go post line line col false =
    (if existsb (fun c => c =? 10) post
     then (first_line post ++ 10 :: carat col ++ after_first_line post, true)
     else (post, false)).
Proof.
  induction post as [|c r IH]; intros line col; cbn [loc_go existsb first_line after_first_line]; [reflexivity|].
  destruct (c =? 10) eqn:E.
  - apply Z.eqb_eq in E. subst c. rewrite Z.eqb_refl. rewrite loc_go_past by lia. cbn [orb app]. reflexivity.
  - cbn [orb]. rewrite IH. destruct (existsb _ r); reflexivity.
Qed.

Lemma first_line_no_nl post : existsb (fun c => c =? 10) post = false -> first_line post = post /\ after_first_line post = [].
Proof.
  induction post as [|c r IH]; cbn [existsb first_line after_first_line]; [auto|].
  destruct (c =? 10); cbn [orb]; [discriminate|]. intros H. destruct (IH H) as [-> ->]. auto.
Qed.

(** before the target line: characters are copied *)
Lemma loc_go_before pre : forall post cur col,
  loc_go (pre ++ post) cur (cur + count_nl pre) col false =
    let '(t, m) := loc_go post (cur + count_nl pre) (cur + count_nl pre) col false in (pre ++ t, m).
Proof.
  induction pre as [|c r IH]; intros post cur col; cbn [app count_nl].
  - rewrite Z.add_0_r. destruct (loc_go post cur cur col false); reflexivity.
  - cbn [loc_go]. pose proof (count_nl_nonneg r). destruct (c =? 10) eqn:E.
    + assert ((cur + 1 =? cur + (1 + count_nl r) + 1) = false) as -> by lia.
      replace (cur + (1 + count_nl r)) with ((cur + 1) + count_nl r) by lia. rewrite IH.
      destruct (loc_go post _ _ col false). apply Z.eqb_eq in E. subst c. reflexivity.
    + replace (cur + (0 + count_nl r)) with (cur + count_nl r) by lia. rewrite IH.
      destruct (loc_go post _ _ col false). reflexivity.
Qed.

(** The location block of an error whose coordinates are those of the boundary
    between [pre] and [post]: the expression up to the end of the line holding
    the boundary, then a line of exactly (characters between the line start and
    the boundary) spaces and a caret, then the remaining lines.  The caret
    therefore stands under the first character of [post] — any newlines, any
    multi-byte characters, boundary at the very end included. *)
Theorem location_block_spec pre post :
  location_block (pre ++ post) (count_nl pre) (last_line pre 0) =
    pre ++ first_line post ++ 10 :: carat (last_line pre 0) ++ after_first_line post.
Proof.
  unfold location_block. pose proof (loc_go_before pre post 0 (last_line pre 0)) as H. cbn [Z.add] in H. rewrite H.
  rewrite loc_go_at. destruct (existsb (fun c => c =? 10) post) eqn:E.
  - reflexivity.
  - destruct (first_line_no_nl post E) as [-> ->]. rewrite app_nil_r, <- app_assoc. reflexivity.
Qed.

(** ... and those are the coordinates the library reports for that offset. *)
Theorem rendered_caret_matches_offset pre post :
  let '(l, c) := line_col (pre ++ post) (byte_len pre) in
  location_block (pre ++ post) l c = pre ++ first_line post ++ 10 :: carat (last_line pre 0) ++ after_first_line post.
Proof. rewrite line_col_spec. apply location_block_spec. Qed.
