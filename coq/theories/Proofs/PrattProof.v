(** C04: the Pratt loop invariant of the parser model (code and reference alike,
    any binding-power table): an operand parsed in a context of binding power
    [rbp] extends over every following operator that binds tighter than [rbp]. *)
From JP Require Import Base Value Lexer Parser.

Section Pratt.
  Variables (L : token -> Z) (STOP : Z) (strict : bool).

  Lemma expr_loop_stops : forall f rbp l st t st',
    expr_loop L STOP strict f rbp l st = Ok (t, st') -> L (peek st' 0) <= rbp.
  Proof.
    induction f as [|f IH]; intros rbp l st t st' H; [discriminate|].
    cbn [expr_loop] in H. fold (led L STOP strict) in H. fold (expr_loop L STOP strict) in H.
    destruct (rbp <? L (peek st 0)) eqn:E.
    - destruct (led L STOP strict f l st) as [[l2 st1]|e| | |]; cbn [bind] in H; try discriminate.
      exact (IH _ _ _ _ _ H).
    - injection H as _ <-. lia.
  Qed.

  (** what follows a complete [expr rbp] does not bind tighter than [rbp] *)
  Theorem expr_extends_maximally : forall f rbp st t st',
    expr L STOP strict f rbp st = Ok (t, st') -> L (peek st' 0) <= rbp.
  Proof.
    intros [|f] rbp st t st' H; [discriminate|]. cbn [expr] in H.
    fold (nud L STOP strict) in H. fold (expr_loop L STOP strict) in H.
    destruct (nud L STOP strict f st) as [[l st1]|e| | |]; cbn [bind] in H; try discriminate.
    exact (expr_loop_stops _ _ _ _ _ _ H).
  Qed.
End Pratt.

(** a complete expression is followed by the end of the input: [parse] accepts only whole inputs *)
Theorem parse_tokens_consumes_all L STOP strict fuel toks t :
  parse_tokens L STOP strict fuel toks = Ok t ->
  exists st', expr L STOP strict fuel 0 (mkPst toks 0) = Ok (t, st') /\ peek st' 0 = TEof.
Proof.
  unfold parse_tokens. destruct (expr L STOP strict fuel 0 (mkPst toks 0)) as [[r st]|e| | |]; cbn [bind]; try discriminate.
  destruct (peek st 0) eqn:E; try (unfold perr; discriminate). intros H. injection H as <-. eauto.
Qed.
