(** C03/C04: the tree the reference parser returns is disambiguated
    (Spec/Disamb.v) — soundness of GrammarProof.v carried once more through the
    16 functions for [strict = true], with the context conditions: every operand
    is followed by a token that binds no tighter than its context, projections
    without right-hand side stop below the threshold, an identifier is not
    followed by [(], [[*]] and [.*] are the wildcards. *)
From Coq Require Import ZifyBool.
From JP Require Import Base Value Lexer Parser Spec.Grammar Spec.Prec Spec.Disamb Proofs.GrammarProof Proofs.CompleteProof.

Lemma toks2 st a b r : toks st = a :: b :: r -> peek st 0 = a /\ peek st 1 = b.
Proof.
  unfold toks, peek. destruct st as [q o]. cbn [pq]. destruct q as [|[p0 t0] [|[p1 t1] q]]; cbn; try discriminate. intros E. injection E as -> -> _. split; reflexivity.
Qed.
Lemma toks1 st a r : toks st = a :: r -> peek st 0 = a.
Proof. unfold toks, peek. destruct st as [q o]. cbn [pq]. destruct q as [|[p0 t0] q]; cbn; try discriminate. intros E. now injection E as -> _. Qed.

Section DisSound.
  Variables (L : token -> Z) (STOP : Z).

  Notation dis' := (dis L STOP).
  Notation disk' := (disk L STOP).

  (** the weaker reading after a dot *)
  Lemma dis_dp : forall c fol, dis' false fol c -> dis' true fol c.
  Proof.
    induction c; intros fol H; cbn [dis] in *; try exact H;
      try (destruct H as [H1 H2]; split; [first [apply IHc1 | apply IHc]; exact H1|exact H2]);
      try (apply IHc; exact H).
    - destruct H as (_ & H2). split; [discriminate|exact H2].
  Qed.

  Notation expr' := (expr L STOP true).
  Notation expr_loop' := (expr_loop L STOP true).
  Notation nud' := (nud L STOP true).
  Notation parse_kvps' := (parse_kvps L STOP true).
  Notation parse_kvp' := (parse_kvp L STOP true).
  Notation led' := (led L STOP true).
  Notation parse_filter' := (parse_filter L STOP true).
  Notation parse_flatten' := (parse_flatten L STOP true).
  Notation parse_comparator' := (parse_comparator L STOP true).
  Notation parse_dot' := (parse_dot L STOP true).
  Notation projection_rhs' := (projection_rhs L STOP true).
  Notation parse_wildcard_index' := (parse_wildcard_index L STOP true).
  Notation parse_wildcard_values' := (parse_wildcard_values L STOP true).
  Notation parse_index' := (parse_index L STOP true).
  Notation parse_multi_list' := (parse_multi_list L STOP true).
  Notation parse_list' := (parse_list L STOP true).

  Definition D_expr f := forall rbp st t st', expr' f rbp st = Ok (t, st') ->
    exists c, toks st = flat c ++ toks st' /\ erase c = t /\ wf c /\ start_ok st c /\ prec L rbp c /\
              dis' false (peek st' 0) c /\ L (peek st' 0) <= rbp.
  Definition D_loop f := forall dp rbp lft st t st' cl, erase cl = lft -> wf cl -> prec L rbp cl -> dis' dp (peek st 0) cl ->
    expr_loop' f rbp lft st = Ok (t, st') ->
    exists c w, toks st = w ++ toks st' /\ flat c = flat cl ++ w /\ erase c = t /\ wf c /\ head c = head cl /\ prec L rbp c /\
                dis' dp (peek st' 0) c /\ L (peek st' 0) <= rbp.
  Definition D_nud f := forall st t st', nud' f st = Ok (t, st') ->
    exists c, toks st = flat c ++ toks st' /\ erase c = t /\ wf c /\ start_ok st c /\ (forall rbp, prec L rbp c) /\ dis' false (peek st' 0) c.
  Definition D_kvps f := forall acc st t st', parse_kvps' f acc st = Ok (t, st') ->
    exists items, items <> [] /\ toks st = GrammarProof.hash_items items ++ toks st' /\ t = AMultiHash (rev acc ++ map GrammarProof.erase_kv items) /\
                  Forall (fun kv : bool * str * cst => wf (snd kv)) items /\ Forall (fun kv : bool * str * cst => prec L 0 (snd kv)) items /\
                  each (fun r (kv : bool * str * cst) => dis' false (sep TRbrace r) (snd kv)) items.
  Definition D_kvp f := forall st k e st', parse_kvp' f st = Ok ((k, e), st') ->
    exists q x, toks st = key_tok q k :: TColon :: flat x ++ toks st' /\ erase x = e /\ wf x /\ prec L 0 x /\ dis' false (peek st' 0) x.
  Definition D_led f := forall dp lft st t st' cl, erase cl = lft -> wf cl -> inner L cl -> dis' dp (peek st 0) cl -> led' f lft st = Ok (t, st') ->
    exists c w, toks st = w ++ toks st' /\ flat c = flat cl ++ w /\ erase c = t /\ wf c /\ head c = head cl /\
                spine_ops c = spine_ops cl ++ [peek st 0] /\ inner L c /\ dis' dp (peek st' 0) c.
  Definition D_filter f := forall lhs st t st', parse_filter' f lhs st = Ok (t, st') ->
    exists p k, toks st = flat p ++ TRbracket :: flatk k ++ toks st' /\ t = AProjection lhs (ACondition (erase p) (erasek k)) /\ wf p /\ wfk k /\
                prec L 0 p /\ innerk L (L TFilter) k /\ dis' false TRbracket p /\ disk' (L TFilter) (peek st' 0) k.
  Definition D_flatten f := forall lhs st t st', parse_flatten' f lhs st = Ok (t, st') ->
    exists k, toks st = flatk k ++ toks st' /\ t = AProjection (AFlatten lhs) (erasek k) /\ wfk k /\ innerk L (L TFlatten) k /\ disk' (L TFlatten) (peek st' 0) k.
  Definition D_cmp f := forall c lhs st t st', parse_comparator' f c lhs st = Ok (t, st') ->
    exists r, toks st = flat r ++ toks st' /\ t = AComparison c lhs (erase r) /\ wf r /\ prec L (L TEq) r /\ dis' false (peek st' 0) r /\ L (peek st' 0) <= L TEq.
  Definition D_dot f := forall bp st t st', parse_dot' f bp st = Ok (t, st') ->
    exists d, toks st = flat d ++ toks st' /\ erase d = t /\ wf d /\ dot_ok (head d) = true /\ prec L bp d /\ dis' true (peek st' 0) d /\ L (peek st' 0) <= bp.
  Definition D_prhs f := forall bp st t st', projection_rhs' f bp st = Ok (t, st') ->
    exists k, toks st = flatk k ++ toks st' /\ erasek k = t /\ wfk k /\ innerk L bp k /\ disk' bp (peek st' 0) k.
  Definition D_wi f := forall lhs st t st', parse_wildcard_index' f lhs st = Ok (t, st') ->
    exists k, toks st = TRbracket :: flatk k ++ toks st' /\ t = AProjection lhs (erasek k) /\ wfk k /\ innerk L (L TStar) k /\ disk' (L TStar) (peek st' 0) k.
  Definition D_wv f := forall lhs st t st', parse_wildcard_values' f lhs st = Ok (t, st') ->
    exists k, toks st = flatk k ++ toks st' /\ t = AProjection (AObjectValues lhs) (erasek k) /\ wfk k /\ innerk L (L TStar) k /\ disk' (L TStar) (peek st' 0) k.
  Definition D_index f := forall st t st', parse_index' f st = Ok (t, st') ->
    (exists n, toks st = TNumber n :: TRbracket :: toks st' /\ t = AIndex n) \/
    (exists off sl k, toks st = slice_toks sl ++ TRbracket :: flatk k ++ toks st' /\ t = AProjection (slice_ast off sl) (erasek k) /\ wfk k /\ innerk L (L TStar) k /\
                      disk' (L TStar) (peek st' 0) k).
  Definition D_mlist f := forall st t st', parse_multi_list' f st = Ok (t, st') ->
    exists e es, toks st = flat e ++ mlist_tail es ++ toks st' /\ t = AMultiList (erase e :: map erase es) /\ wf e /\ Forall wf es /\ prec L 0 e /\ Forall (prec L 0) es /\
                 dis' false (sep TRbracket es) e /\ each (fun r x => dis' false (sep TRbracket r) x) es.
  Definition D_list f := forall c acc st l st', parse_list' f c acc st = Ok (l, st') ->
    exists items, toks st = glist c items ++ toks st' /\ l = rev acc ++ map erase_arg items /\
                  (c = CloseBracket -> Forall (fun a => fst a = false) items) /\
                  (is_closing c (peek st 0) = false -> items <> []) /\
                  (is_closing c (peek st 0) = true -> items = []) /\
                  Forall (fun a : bool * cst => wf (snd a)) items /\ Forall (arg_prec L) items /\
                  each (fun r (a : bool * cst) => dis' false (sep (GrammarProof.close_tok c) r) (snd a)) items.

  Definition all_dis f :=
    D_expr f /\ D_loop f /\ D_nud f /\ D_kvps f /\ D_kvp f /\ D_led f /\ D_filter f /\ D_flatten f /\ D_cmp f /\
    D_dot f /\ D_prhs f /\ D_wi f /\ D_wv f /\ D_index f /\ D_mlist f /\ D_list f.

  Ltac refold_in H :=
    fold expr' in H; fold expr_loop' in H; fold nud' in H; fold parse_kvps' in H; fold parse_kvp' in H; fold led' in H;
    fold parse_filter' in H; fold parse_flatten' in H; fold parse_comparator' in H; fold parse_dot' in H; fold projection_rhs' in H;
    fold parse_wildcard_index' in H; fold parse_wildcard_values' in H; fold parse_index' in H; fold (index_loop L STOP true) in H;
    fold parse_multi_list' in H; fold parse_list' in H.

  Ltac run H x st1 E :=
    match type of H with
    | bind ?G _ = _ => destruct G as [[x st1]|?| | |] eqn:E; cbn [bind] in H; [|discriminate H..]
    end.

  Lemma dsound_expr f : all_dis f -> D_expr (S f).
  Proof.
    intros (_ & Hloop & Hnud & _). intros rbp st t st' H. cbn [expr] in H. refold_in H.
    run H l st1 En. apply Hnud in En as (cl & Hcl & Hel & Hwl & Hsl & Hpl & Hdl).
    apply (Hloop false rbp l st1 t st' cl Hel Hwl (Hpl rbp) Hdl) in H as (c & w & Hw & Hf & He & Hwc & Hh & Hpc & Hdc & Hlc).
    exists c. split; [rewrite Hcl, Hw, Hf, app_assoc; reflexivity|]. split; [exact He|]. split; [exact Hwc|]. split; [|split; [exact Hpc|split; [exact Hdc|exact Hlc]]].
    unfold start_ok in *. rewrite Hh. exact Hsl.
  Qed.

  Lemma dsound_loop f : all_dis f -> D_loop (S f).
  Proof.
    intros (_ & Hloop & _ & _ & _ & Hled & _). intros dp rbp lft st t st' cl Hcl Hwl Hpl Hdl H. cbn [expr_loop] in H. refold_in H.
    destruct (rbp <? L (peek st 0)) eqn:Elt.
    - run H l2 st1 El. destruct Hpl as [Htl Hil].
      apply (Hled dp lft st l2 st1 cl Hcl Hwl Hil Hdl) in El as (c1 & w1 & Hw1 & Hf1 & He1 & Hwc1 & Hh1 & Hsp1 & Hi1 & Hd1).
      assert (Hp1 : prec L rbp c1).
      { split; [|exact Hi1]. unfold tighter. rewrite Hsp1. apply Forall_app. split; [exact Htl|]. constructor; [apply Z.ltb_lt; exact Elt|constructor]. }
      apply (Hloop dp rbp l2 st1 t st' c1 He1 Hwc1 Hp1 Hd1) in H as (c & w2 & Hw2 & Hf2 & He2 & Hwc2 & Hh2 & Hp2 & Hd2 & Hl2).
      exists c, (w1 ++ w2). split; [rewrite Hw1, Hw2, app_assoc; reflexivity|]. split; [rewrite Hf2, Hf1, app_assoc; reflexivity|].
      split; [exact He2|]. split; [exact Hwc2|]. split; [now rewrite Hh2, Hh1|]. split; [exact Hp2|]. split; [exact Hd2|exact Hl2].
    - injection H as <- <-. exists cl, []. split; [reflexivity|]. split; [now rewrite app_nil_r|]. split; [exact Hcl|]. split; [exact Hwl|]. split; [reflexivity|].
      split; [exact Hpl|]. split; [exact Hdl|]. apply Z.ltb_ge. exact Elt.
  Qed.

  Lemma dsound_filter f : all_dis f -> D_filter (S f).
  Proof.
    intros (Hexpr & _ & _ & _ & _ & _ & _ & _ & _ & _ & Hprhs & _). intros lhs st t st' H. cbn [parse_filter] in H. refold_in H.
    run H cond st1 Ee. apply Hexpr in Ee as (p & Hp & Hep & Hwp & _ & Hpp & Hdp & _). adv_in H. destruct (peek st1 0) eqn:Ep; dead. use_peek.
    run H rhs st3 Er. apply Hprhs in Er as (k & Hk & Hek & Hwk & Hik & Hdk). injection H as <- <-.
    exists p, k. split; [rewrite Hp, Ha, Hk; reflexivity|]. split; [now rewrite Hep, Hek|]. repeat (split; [assumption|]). exact Hdk.
  Qed.

  Lemma dsound_flatten f : all_dis f -> D_flatten (S f).
  Proof.
    intros (_ & _ & _ & _ & _ & _ & _ & _ & _ & _ & Hprhs & _). intros lhs st t st' H. cbn [parse_flatten] in H. refold_in H.
    run H rhs st1 Er. apply Hprhs in Er as (k & Hk & Hek & Hwk & Hik & Hdk). injection H as <- <-. exists k. split; [exact Hk|]. split; [now rewrite Hek|]. auto.
  Qed.

  Lemma dsound_cmp f : all_dis f -> D_cmp (S f).
  Proof.
    intros (Hexpr & _). intros c lhs st t st' H. cbn [parse_comparator] in H. refold_in H.
    run H rhs st1 Er. apply Hexpr in Er as (r & Hr & Her & Hwr & _ & Hpr & Hdr & Hlr). injection H as <- <-. exists r. split; [exact Hr|]. split; [now rewrite Her|]. auto.
  Qed.

  Lemma dsound_wi f : all_dis f -> D_wi (S f).
  Proof.
    intros (_ & _ & _ & _ & _ & _ & _ & _ & _ & _ & Hprhs & _). intros lhs st t st' H. cbn [parse_wildcard_index] in H. refold_in H.
    adv_in H. destruct (peek st 0) eqn:Ep; dead. use_peek.
    run H rhs st2 Er. apply Hprhs in Er as (k & Hk & Hek & Hwk & Hik & Hdk). injection H as <- <-. exists k.
    split; [rewrite Ha, Hk; reflexivity|]. split; [now rewrite Hek|]. auto.
  Qed.

  Lemma dsound_wv f : all_dis f -> D_wv (S f).
  Proof.
    intros (_ & _ & _ & _ & _ & _ & _ & _ & _ & _ & Hprhs & _). intros lhs st t st' H. cbn [parse_wildcard_values] in H. refold_in H.
    run H rhs st1 Er. apply Hprhs in Er as (k & Hk & Hek & Hwk & Hik & Hdk). injection H as <- <-. exists k. split; [exact Hk|]. split; [now rewrite Hek|]. auto.
  Qed.

  Lemma dsound_kvp f : all_dis f -> D_kvp (S f).
  Proof.
    intros (Hexpr & _). intros st k e st' H. cbn [parse_kvp] in H. refold_in H.
    adv_in H. destruct (peek st 0) eqn:Ep; dead; use_peek.
    - destruct (tok_is_colon (peek p 0)) eqn:Ec; dead. adv_in H. use_peek.
      run H e1 st3 Ee. apply Hexpr in Ee as (x & Hx & Hex & Hwx & _ & Hpx & Hdx & _). injection H as <- <- <-.
      exists false, x. split; [rewrite Ha, Ha0, Hx; reflexivity|]. auto.
    - destruct (tok_is_colon (peek p 0)) eqn:Ec; dead. adv_in H. use_peek.
      run H e1 st3 Ee. apply Hexpr in Ee as (x & Hx & Hex & Hwx & _ & Hpx & Hdx & _). injection H as <- <- <-.
      exists true, x. split; [rewrite Ha, Ha0, Hx; reflexivity|]. auto.
  Qed.

  Lemma dsound_kvps f : all_dis f -> D_kvps (S f).
  Proof.
    intros (_ & _ & _ & Hkvps & Hkvp & _). intros acc st t st' H. cbn [parse_kvps] in H. refold_in H.
    run H kv st1 Ek. destruct kv as [k e]. apply Hkvp in Ek as (q & x & Hx & Hex & Hwx & Hpx & Hdx). adv_in H.
    destruct (peek st1 0) eqn:Ep; dead; use_peek.
    - (* comma *)
      apply Hkvps in H as (items & Hne & Hi & Ht & Hwi & Hpi & Hdi). destruct items as [|[[q2 k2] x2] r]; [contradiction|].
      exists ((q, k, x) :: (q2, k2, x2) :: r). split; [discriminate|]. split; [|split; [|split; [|split]]].
      + rewrite Hx, Ha, Hi. cbn [GrammarProof.hash_items mhash_tail]. listeq.
      + rewrite Ht. cbn [rev map]. rewrite <- app_assoc. cbn [app]. unfold GrammarProof.erase_kv at 3. cbn [fst snd]. now rewrite Hex.
      + constructor; [exact Hwx|exact Hwi].
      + constructor; [exact Hpx|exact Hpi].
      + cbn [each sep snd]. split; [exact Hdx|exact Hdi].
    - (* closing brace *)
      injection H as <- <-. exists [(q, k, x)]. split; [discriminate|]. split; [|split; [|split; [|split]]].
      + rewrite Hx, Ha. cbn [GrammarProof.hash_items mhash_tail]. listeq.
      + cbn [rev map]. unfold GrammarProof.erase_kv. cbn [fst snd]. now rewrite Hex.
      + constructor; [exact Hwx|constructor].
      + constructor; [exact Hpx|constructor].
      + cbn [each sep snd]. split; [exact Hdx|exact I].
  Qed.

  Lemma dsound_list f : all_dis f -> D_list (S f).
  Proof.
    intros (Hexpr & _ & _ & _ & _ & _ & _ & _ & _ & _ & _ & _ & _ & _ & _ & Hlist). intros c acc st l st' H.
    cbn [parse_list] in H. refold_in H. destruct (is_closing c (peek st 0)) eqn:Ec.
    - adv_in H. injection H as <- <-. pose proof Ec as Ec'. apply is_closing_true in Ec'. rewrite Ec' in Ha. specialize (Ha (close_not_eof c)).
      exists []. split; [rewrite Ha; reflexivity|]. split; [now rewrite app_nil_r|]. split; [intros _; constructor|]. split; [discriminate|]. split; [reflexivity|].
      split; [constructor|]. split; [constructor|exact I].
    - run H e st1 Ee.
      assert (Hel : exists a, toks st = flat_arg a ++ toks st1 /\ erase_arg a = e /\ (c = CloseBracket -> fst a = false) /\ wf (snd a) /\ arg_prec L a /\
                              dis' false (peek st1 0) (snd a)).
      { destruct c.
        - apply Hexpr in Ee as (x & Hx & Hex & Hwx & _ & Hpx & Hdx & _). exists (false, x). unfold flat_arg, erase_arg, arg_prec. cbn [fst snd app].
          split; [exact Hx|]. split; [exact Hex|]. split; [intros _; reflexivity|]. split; [exact Hwx|]. split; [exact Hpx|exact Hdx].
        - destruct (peek st 0) eqn:Ep;
            first
              [ apply Hexpr in Ee as (x & Hx & Hex & Hwx & _ & Hpx & Hdx & _); exists (false, x); unfold flat_arg, erase_arg, arg_prec; cbn [fst snd app];
                split; [exact Hx|split; [exact Hex|split; [discriminate|split; [exact Hwx|split; [exact Hpx|exact Hdx]]]]]
              | adv_in Ee; rewrite Ep in Ha; specialize (Ha ltac:(discriminate)); run Ee rhs st0 Er; apply Hexpr in Er as (x & Hx & Hex & Hwx & _ & Hpx & Hdx & _);
                injection Ee as <- <-; exists (true, x); unfold flat_arg, erase_arg, arg_prec; cbn [fst snd]; split; [rewrite Ha, Hx; reflexivity|];
                split; [now rewrite Hex|]; split; [discriminate|]; split; [exact Hwx|split; [exact Hpx|exact Hdx]] ]. }
      destruct Hel as (a & Hta & Hea & Hfa & Hwa & Hpa & Hda).
      destruct (tok_is_comma (peek st1 0)) eqn:Ecm.
      + adv_in H. use_peek. destruct (is_closing c (peek p 0)) eqn:Ec2; dead.
        apply Hlist in H as (items & Hi & Hl & Hf & Hne & _ & Hwi & Hpi & Hdi). specialize (Hne Ec2). destruct items as [|a2 r]; [contradiction|].
        exists (a :: a2 :: r). split; [rewrite Hta, Ha, Hi; cbn [glist gtail]; listeq|].
        split; [rewrite Hl; cbn [rev map]; rewrite <- app_assoc; cbn [app]; now rewrite Hea|].
        split; [intros E; constructor; [exact (Hfa E)|exact (Hf E)]|]. split; [discriminate|]. split; [intros E; congruence|].
        split; [constructor; assumption|]. split; [constructor; assumption|]. cbn [each sep]. rewrite Ecm in Hda. split; [exact Hda|exact Hdi].
      + destruct (is_closing c (peek st1 0)) eqn:Ec2; dead.
        apply Hlist in H as (items & Hi & Hl & Hf & _ & Hnil & _ & _). specialize (Hnil Ec2). subst items.
        exists [a]. split; [rewrite Hta, Hi; cbn [glist gtail]; listeq|].
        split; [rewrite Hl; cbn [rev map]; rewrite <- app_assoc; cbn [app]; now rewrite Hea|].
        split; [intros E; constructor; [exact (Hfa E)|constructor]|]. split; [discriminate|]. split; [intros E; congruence|].
        split; [constructor; [assumption|constructor]|]. split; [constructor; [assumption|constructor]|]. cbn [each sep].
        apply is_closing_true in Ec2. rewrite Ec2 in Hda. split; [exact Hda|exact I].
  Qed.

  Lemma each_snd (P : token -> cst -> Prop) close : forall r : list (bool * cst),
    each (fun r' (a : bool * cst) => P (sep close r') (snd a)) r -> each (fun r' x => P (sep close r') x) (map snd r).
  Proof. induction r as [|a r IH]; cbn [each map]; [auto|]. intros [H1 H2]. rewrite sep_map. split; [exact H1|exact (IH H2)]. Qed.

  Lemma dsound_mlist f : all_dis f -> D_mlist (S f).
  Proof.
    intros (_ & _ & _ & _ & _ & _ & _ & _ & _ & _ & _ & _ & _ & _ & _ & Hlist). intros st t st' H.
    cbn [parse_multi_list] in H. refold_in H. destruct (tok_is_rbracket (peek st 0)) eqn:Er; dead.
    run H es st1 El. injection H as <- <-. apply Hlist in El as (items & Hi & Hl & Hf & Hne & _ & Hwi & Hpi & Hdi).
    assert (Hnc : is_closing CloseBracket (peek st 0) = false) by exact Er. specialize (Hne Hnc). specialize (Hf eq_refl).
    destruct items as [|[b e] r]; [contradiction|]. pose proof (Forall_inv Hf) as Hb. pose proof (Forall_inv_tail Hf) as Hr. cbn [fst] in Hb. subst b.
    assert (Hmap : r = map (pair false) (map snd r)).
    { clear -Hr. induction Hr as [|[b x] r Hb Hr IH]; [reflexivity|]. cbn [fst] in Hb. subst b. cbn [map snd]. now rewrite <- IH. }
    assert (Hp0 : forall l, Forall (fun a : bool * cst => fst a = false) l -> Forall (arg_prec L) l -> Forall (prec L 0) (map snd l)).
    { intros l Hf0 Hp. induction Hf0 as [|[b x] l Hb0 Hl0 IH]; [constructor|]. cbn [fst] in Hb0. subst b. cbn [map snd].
      constructor; [exact (Forall_inv Hp)|exact (IH (Forall_inv_tail Hp))]. }
    cbn [each snd] in Hdi. destruct Hdi as [Hde Hdr]. cbn [GrammarProof.close_tok] in *.
    exists e, (map snd r). split; [|split; [|split; [|split; [|split; [|split; [|split]]]]]].
    - rewrite Hi. cbn [glist]. unfold flat_arg at 1. cbn [fst snd app]. rewrite Hmap at 1. rewrite gtail_bracket. listeq.
    - rewrite Hl. cbn [rev app map]. unfold erase_arg at 1. cbn [fst snd]. f_equal. f_equal. rewrite Hmap at 1. rewrite !map_map. apply map_ext. reflexivity.
    - exact (Forall_inv Hwi).
    - apply Forall_map. exact (Forall_inv_tail Hwi).
    - exact (Forall_inv Hpi).
    - apply Hp0; [exact Hr|exact (Forall_inv_tail Hpi)].
    - rewrite sep_map. exact Hde.
    - apply each_snd. exact Hdr.
  Qed.

  Lemma dsound_dot f : all_dis f -> D_dot (S f).
  Proof.
    intros (Hexpr & Hloop & _ & _ & _ & _ & _ & _ & _ & _ & _ & _ & _ & _ & Hmlist & _). intros bp st t st' H.
    cbn [parse_dot] in H. refold_in H.
    destruct (peek st 0) eqn:Ep; dead;
      try (apply Hexpr in H as (c & Hc & Hec & Hwc & (Hs & _) & Hpc & Hdc & Hlc); exists c; split; [exact Hc|split; [exact Hec|split; [exact Hwc|split; [apply Hs; rewrite Ep; reflexivity|split; [exact Hpc|split; [apply dis_dp; exact Hdc|exact Hlc]]]]]]).
    adv_in H. rewrite Ep in Ha. specialize (Ha ltac:(discriminate)). run H lst st2 Em. apply Hmlist in Em as (e & es & Hm & Hl & Hwe & Hwes & Hpe & Hpes & Hde & Hdes).
    apply (Hloop true bp lst st2 t st' (CMList e es)) in H as (c & w & Hw & Hf & He & Hwc & Hh & Hpc & Hdc & Hlc);
      [|cbn [erase]; now rewrite Hl|apply wf_mlist; auto|split; [constructor|apply inner_mlist; auto]|apply dis_mlist; split; [discriminate|split; assumption]].
    exists c. split; [rewrite Hf, flat_mlist, Ha, Hm, Hw; listeq|]. split; [exact He|]. split; [exact Hwc|]. split; [rewrite Hh; reflexivity|]. auto.
  Qed.

  Lemma dsound_prhs f : all_dis f -> D_prhs (S f).
  Proof.
    intros (Hexpr & _ & _ & _ & _ & _ & _ & _ & _ & Hdot & _). intros bp st t st' H.
    cbn [projection_rhs] in H. refold_in H.
    destruct (peek st 0) eqn:Ep;
      try (destruct (L _ <? STOP) eqn:El; dead; injection H as <- <-; exists KNone; split; [reflexivity|split; [reflexivity|split; [exact I|split; [exact I|]]]];
           cbn [disk]; rewrite Ep; apply Z.ltb_lt; exact El).
    - (* dot *) adv_in H. rewrite Ep in Ha. specialize (Ha ltac:(discriminate)). apply Hdot in H as (d & Hd & Hed & Hwd & Hok & Hpd & Hdd & Hld).
      exists (KDot d). split; [rewrite Ha, Hd; reflexivity|]. split; [exact Hed|]. split; [split; assumption|]. split; [exact Hpd|]. split; assumption.
    - (* filter *) apply Hexpr in H as (x & Hx & Hex & Hwx & (_ & Hb & _) & Hpx & Hdx & Hlx). exists (KExpr x). split; [exact Hx|]. split; [exact Hex|].
      split; [split; [exact Hwx|apply Hb; unfold brk_start; now rewrite Ep]|]. split; [exact Hpx|]. split; assumption.
    - (* bracket *)
      destruct (peek st 1) eqn:Ep1; dead; try (destruct (tok_is_rbracket (peek st 2)) eqn:Er2; dead);
        (apply Hexpr in H as (x & Hx & Hex & Hwx & (_ & Hb & _) & Hpx & Hdx & Hlx); exists (KExpr x); split; [exact Hx|]; split; [exact Hex|];
         split; [split; [exact Hwx|apply Hb; unfold brk_start; rewrite Ep, Ep1; try exact Er2; reflexivity]|]; split; [exact Hpx|]; split; assumption).
  Qed.

  Lemma dsound_index f : all_dis f -> D_index (S f).
  Proof.
    intros (_ & _ & _ & _ & _ & _ & _ & _ & _ & _ & Hprhs & _). intros st t st' H.
    cbn [parse_index] in H. refold_in H.
    destruct (index_loop L STOP true f None None None 0 st) as [[[[[q0 q1] q2] pos'] st1]|?| | |] eqn:Ei; cbn [bind] in H; dead.
    apply (index_loop_sound L STOP true f None None None 0 st false) in Ei; [|left; repeat split; reflexivity|discriminate].
    destruct Ei as (w & Hw & Hf & fl & Hinv). unfold fin at 1 in Hf. cbn [Z.eqb optnum app] in Hf. subst w.
    destruct (pos' =? 0) eqn:E0.
    - apply Z.eqb_eq in E0. subst pos'. destruct q0 as [i|]; dead. injection H as <- <-. left. exists i.
      split; [rewrite Hw; unfold fin; cbn [Z.eqb optnum app]; reflexivity|reflexivity].
    - run H rhs st2 Er. apply Hprhs in Er as (k & Hk & Hek & Hwk & Hik & Hdk). injection H as <- <-. right.
      destruct Hinv as [(-> & _)|[(-> & -> & _)|(-> & _)]]; [discriminate| |].
      + exists (poff st1), (mkSl q0 q1 None), k. split; [|split; [|split; [exact Hwk|split; [exact Hik|exact Hdk]]]].
        * rewrite Hw, Hk. unfold fin, slice_toks. cbn [Z.eqb Pos.eqb sl_a sl_b sl_c]. rewrite app_nil_r. listeq.
        * unfold slice_ast. cbn [sl_a sl_b sl_c]. now rewrite Hek.
      + exists (poff st1), (mkSl q0 q1 (Some q2)), k. split; [|split; [|split; [exact Hwk|split; [exact Hik|exact Hdk]]]].
        * rewrite Hw, Hk. unfold fin, slice_toks. cbn [Z.eqb Pos.eqb sl_a sl_b sl_c]. listeq.
        * unfold slice_ast. cbn [sl_a sl_b sl_c]. rewrite Hek. destruct q2; reflexivity.
  Qed.

  Ltac led_bin o H Ha Hcl Hwl Hexpr cl Hdl Ep :=
    let rhs := fresh "rhs" in let st2 := fresh "st2" in let Er := fresh "Er" in let r := fresh "r" in let Hr := fresh "Hr" in let Her := fresh "Her" in
    let Hwr := fresh "Hwr" in let Hpr := fresh "Hpr" in let Hdr := fresh "Hdr" in let Hlr := fresh "Hlr" in
    run H rhs st2 Er; apply Hexpr in Er as (r & Hr & Her & Hwr & _ & Hpr & Hdr & Hlr); injection H as <- <-;
    exists (CBin o cl r), (binop_tok o :: flat r); split; [rewrite Ha, Hr; listeq|]; split; [reflexivity|];
    split; [cbn [erase bin_ast]; rewrite Hcl, Her; reflexivity|]; split; [cbn [wfb wfkb]; auto|]; split; [reflexivity|];
    split; [reflexivity|]; split; [cbn [inner rbp_of]; destruct Hpr; auto|];
    cbn [dis rbp_of binop_tok]; split; [exact Hdl|split; [exact Hlr|exact Hdr]].
  Ltac led_cmp c0 H Ha Hcl Hwl Hcmp cl Hdl Ep :=
    let r := fresh "r" in let Hr := fresh "Hr" in let Ht := fresh "Ht" in let Hwr := fresh "Hwr" in
    let Hpr := fresh "Hpr" in let Hdr := fresh "Hdr" in let Hlr := fresh "Hlr" in
    apply Hcmp in H as (r & Hr & Ht & Hwr & Hpr & Hdr & Hlr);
    exists (CBin (BCmp c0) cl r), (binop_tok (BCmp c0) :: flat r); split; [rewrite Ha, Hr; listeq|]; split; [reflexivity|];
    split; [cbn [erase bin_ast]; rewrite Hcl, Ht; reflexivity|]; split; [cbn [wfb wfkb]; auto|]; split; [reflexivity|];
    split; [reflexivity|]; split; [cbn [inner rbp_of]; destruct Hpr; auto|];
    cbn [dis rbp_of binop_tok]; split; [exact Hdl|split; [exact Hlr|exact Hdr]].

  Lemma dsound_led f : all_dis f -> D_led (S f).
  Proof.
    intros (Hexpr & _ & _ & _ & _ & _ & Hfilter & Hflatten & Hcmp & Hdot & _ & Hwi & Hwv & Hindex & _ & Hlist). intros dp lft st t st' cl Hcl Hwl Hil Hdl H.
    cbn [led] in H. refold_in H. adv_in H. destruct (peek st 0) eqn:Ep; dead; specialize (Ha ltac:(discriminate)).
    all: try match type of Ep with
             | _ = TOr => led_bin BOr H Ha Hcl Hwl Hexpr cl Hdl Ep
             | _ = TAnd => led_bin BAnd H Ha Hcl Hwl Hexpr cl Hdl Ep
             | _ = TPipe => led_bin BPipe H Ha Hcl Hwl Hexpr cl Hdl Ep
             | _ = TEq => led_cmp CEq H Ha Hcl Hwl Hcmp cl Hdl Ep
             | _ = TNe => led_cmp CNe H Ha Hcl Hwl Hcmp cl Hdl Ep
             | _ = TLt => led_cmp CLt H Ha Hcl Hwl Hcmp cl Hdl Ep
             | _ = TLte => led_cmp CLe H Ha Hcl Hwl Hcmp cl Hdl Ep
             | _ = TGt => led_cmp CGt H Ha Hcl Hwl Hcmp cl Hdl Ep
             | _ = TGte => led_cmp CGe H Ha Hcl Hwl Hcmp cl Hdl Ep
             end.
    - (* dot *)
      destruct (tok_is_star (peek p 0)) eqn:Es.
      + adv_in H. use_peek. apply Hwv in H as (k & Hk & Ht & Hwk & Hik & Hdk). exists (CDotStar cl k), (TDot :: TStar :: flatk k).
        split; [rewrite Ha, Ha0, Hk; listeq|]. split; [reflexivity|]. split; [cbn [erase]; now rewrite Hcl, Ht|]. split; [cbn [wfb wfkb]; auto|].
        split; [reflexivity|]. split; [reflexivity|]. split; [cbn [inner]; auto|]. cbn [dis]. split; [exact Hdl|exact Hdk].
      + run H rhs st2 Ed. apply Hdot in Ed as (d & Hd & Hed & Hwd & Hok & Hpd & Hdd & Hld). injection H as <- <-. exists (CDot cl d), (TDot :: flat d).
        split; [rewrite Ha, Hd; listeq|]. split; [reflexivity|]. split; [cbn [erase]; now rewrite Hcl, Hed|]. split; [cbn [wfb wfkb]; auto|].
        split; [reflexivity|]. split; [reflexivity|]. split; [cbn [inner]; destruct Hpd; auto|]. cbn [dis]. split; [exact Hdl|]. split; [|split; [exact Hld|exact Hdd]].
        destruct (flat_first d Hwd) as (t0 & r0 & E0 & _). rewrite E0 in Hd |- *. cbn [app] in Hd. apply toks1 in Hd. rewrite Hd in Es. destruct t0; try exact I. discriminate Es.
    - (* flatten *)
      apply Hflatten in H as (k & Hk & Ht & Hwk & Hik & Hdk). exists (CFlatten cl k), (TFlatten :: flatk k).
      split; [rewrite Ha, Hk; listeq|]. split; [reflexivity|]. split; [cbn [erase]; now rewrite Hcl, Ht|]. split; [cbn [wfb wfkb]; auto|].
      split; [reflexivity|]. split; [reflexivity|]. split; [cbn [inner]; auto|]. cbn [dis]. split; [exact Hdl|exact Hdk].
    - (* filter *)
      apply Hfilter in H as (p0 & k & Hk & Ht & Hwp & Hwk & Hpp & Hik & Hdp & Hdk). exists (CFilter cl p0 k), (TFilter :: flat p0 ++ TRbracket :: flatk k).
      split; [rewrite Ha, Hk; listeq|]. split; [reflexivity|]. split; [cbn [erase]; now rewrite Hcl, Ht|]. split; [cbn [wfb wfkb]; auto|].
      split; [reflexivity|]. split; [reflexivity|]. split; [cbn [inner]; destruct Hpp; auto|]. cbn [dis]. split; [exact Hdl|split; [exact Hdp|exact Hdk]].
    - (* bracket *)
      assert (Hix : forall idx st2, parse_index' f p = Ok (idx, st2) -> Ok (ASubexpr lft idx, st2) = Ok (t, st') ->
                exists c w, toks st = w ++ toks st' /\ flat c = flat cl ++ w /\ erase c = t /\ wf c /\ head c = head cl /\
                            spine_ops c = spine_ops cl ++ [TLbracket] /\ inner L c /\ dis' dp (peek st' 0) c).
      { intros idx st2 Ei E. injection E as <- <-. apply Hindex in Ei as [(n0 & Hn & Ht)|(off & sl & k & Hs & Ht & Hwk & Hik & Hdk)].
        - exists (CIndex cl n0), [TLbracket; TNumber n0; TRbracket]. split; [rewrite Ha, Hn; listeq|]. split; [reflexivity|].
          split; [cbn [erase]; now rewrite Hcl, Ht|]. split; [exact Hwl|]. split; [reflexivity|]. split; [reflexivity|]. split; [exact Hil|]. cbn [dis]. exact Hdl.
        - exists (CSlice cl off sl k), (TLbracket :: slice_toks sl ++ TRbracket :: flatk k). split; [rewrite Ha, Hs; listeq|]. split; [reflexivity|].
          split; [cbn [erase]; now rewrite Hcl, Ht|]. split; [cbn [wfb wfkb]; auto|]. split; [reflexivity|]. split; [reflexivity|]. split; [cbn [inner]; auto|].
          cbn [dis]. split; [exact Hdl|exact Hdk]. }
      destruct (peek p 0) eqn:Ep1; dead.
      + run H idx st2 Ei. exact (Hix _ _ eq_refl H).
      + adv_in H. use_peek. apply Hwi in H as (k & Hk & Ht & Hwk & Hik & Hdk). exists (CWild cl k), (TLbracket :: TStar :: TRbracket :: flatk k).
        split; [rewrite Ha, Ha0, Hk; listeq|]. split; [reflexivity|]. split; [cbn [erase]; now rewrite Hcl, Ht|]. split; [cbn [wfb wfkb]; auto|].
        split; [reflexivity|]. split; [reflexivity|]. split; [cbn [inner]; auto|]. cbn [dis]. split; [exact Hdl|exact Hdk].
      + run H idx st2 Ei. exact (Hix _ _ eq_refl H).
  Qed.

  Ltac nudp := intros ?; split; [constructor|].
  Ltac start_tac Ep :=
    unfold start_ok, brk_start; rewrite Ep; cbn [dot_start head dot_ok brk_ok dotx_ok brkx_ok orb]; (split; [|split; [|split]]); intros Hs; try reflexivity; try discriminate Hs.

  Lemma each_args (items : list (bool * cst)) :
    each (fun r (a : bool * cst) => dis' false (sep (GrammarProof.close_tok CloseParen) r) (snd a)) items -> each (dis_arg L STOP) items.
  Proof. induction items as [|a r IH]; cbn [each]; [auto|]. intros [H1 H2]. split; [exact H1|exact (IH H2)]. Qed.

  Lemma dsound_nud f : all_dis f -> D_nud (S f).
  Proof.
    intros (Hexpr & _ & _ & Hkvps & _ & _ & Hfilter & Hflatten & _ & _ & _ & Hwi & Hwv & Hindex & Hmlist & Hlist). intros st t st' H.
    cbn [nud] in H. refold_in H. adv_in H. destruct (peek st 0) eqn:Ep; dead; specialize (Ha ltac:(discriminate)).
    - (* identifier, possibly a call *)
      destruct (peek p 0) eqn:Ep1;
        try (injection H as <- <-; exists (CIdent s); split; [rewrite Ha; reflexivity|split; [reflexivity|split; [exact I|split; [start_tac Ep|split; [nudp; exact I|cbn [dis]; rewrite Ep1; discriminate]]]]]).
      adv_in H. use_peek. run H args st3 El. injection H as <- <-. apply Hlist in El as (items & Hi & Hl & _ & _ & _ & Hwi' & Hpi' & Hdi').
      exists (CCall o0 s items). split; [|split; [|split; [|split; [|split]]]].
      * rewrite flat_call, Ha, Ha0, Hi. destruct items as [|a r]; cbn [glist]; [reflexivity|]. rewrite gtail_paren. listeq.
      * rewrite erase_call, Hl. reflexivity.
      * apply wf_call. exact Hwi'.
      * start_tac Ep.
      * nudp. apply inner_call. exact Hpi'.
      * apply dis_call. apply each_args. exact Hdi'.
    - (* quoted identifier *)
      destruct (peek p 0) eqn:Ep1; dead;
        (injection H as <- <-; exists (CQIdent s); split; [rewrite Ha; reflexivity|split; [reflexivity|split; [exact I|split; [start_tac Ep|split; [nudp; exact I|cbn [dis]; rewrite Ep1; discriminate]]]]]).
    - (* literal *)
      injection H as <- <-. exists (CLit v). split; [rewrite Ha; reflexivity|]. split; [reflexivity|]. split; [exact I|]. split; [start_tac Ep|split; [nudp; exact I|exact I]].
    - (* star *)
      apply Hwv in H as (k & Hk & Ht & Hwk & Hik & Hdk). exists (CStarP k). split; [rewrite Ha, Hk; reflexivity|]. split; [now rewrite Ht|]. split; [exact Hwk|].
      split; [start_tac Ep|split; [nudp; exact Hik|exact Hdk]].
    - (* flatten *)
      apply Hflatten in H as (k & Hk & Ht & Hwk & Hik & Hdk). exists (CFlattenP k). split; [rewrite Ha, Hk; reflexivity|]. split; [now rewrite Ht|]. split; [exact Hwk|].
      split; [start_tac Ep|split; [nudp; exact Hik|exact Hdk]].
    - (* filter *)
      apply Hfilter in H as (p0 & k & Hk & Ht & Hwp & Hwk & Hpp & Hik & Hdp & Hdk). exists (CFilterP p0 k). split; [rewrite Ha, Hk; listeq|]. split; [now rewrite Ht|].
      split; [cbn [wfb wfkb]; auto|]. split; [start_tac Ep|split; [nudp; cbn [inner]; destruct Hpp; auto|cbn [dis]; split; assumption]].
    - (* bracket *)
      assert (Hb1 : brk_start st = match peek p 0 with TNumber _ | TColon => true | TStar => tok_is_rbracket (peek p 1) | _ => false end).
      { unfold brk_start. rewrite Ep, <- !Hc by discriminate. reflexivity. }
      assert (Hml : brk_start st = false -> parse_multi_list' f p = Ok (t, st') ->
                    exists c, toks st = flat c ++ toks st' /\ erase c = t /\ wf c /\ start_ok st c /\ (forall rbp, prec L rbp c) /\ dis' false (peek st' 0) c).
      { intros Hb Hm. apply Hmlist in Hm as (e & es & Hm & Ht & Hwe & Hwes & Hpe & Hpes & Hde & Hdes). exists (CMList e es).
        split; [rewrite flat_mlist, Ha, Hm; listeq|]. split; [now rewrite Ht|]. split; [apply wf_mlist; auto|].
        split; [unfold start_ok; rewrite Ep, Hb; (split; [|split; [|split]]); intros Hst; try discriminate Hst; reflexivity|]. split; [nudp; apply inner_mlist; auto|].
        apply dis_mlist. split; [|split; assumption]. intros _.
        destruct (flat e ++ mlist_tail es) as [|a [|b tl]] eqn:E2; [exact I|destruct a; exact I|]. destruct a; try exact I. destruct b; try exact I. exfalso.
        rewrite app_assoc, E2 in Hm. cbn [app] in Hm. apply toks2 in Hm as [H0 H1]. rewrite Hb1, H0, H1 in Hb. cbn in Hb. discriminate Hb. }
      assert (Hix : parse_index' f p = Ok (t, st') -> exists c, toks st = flat c ++ toks st' /\ erase c = t /\ wf c /\ start_ok st c /\ (forall rbp, prec L rbp c) /\ dis' false (peek st' 0) c).
      { intros Hm. apply Hindex in Hm as [(n0 & Hn & Ht)|(off & sl & k & Hs & Ht & Hwk & Hik & Hdk)].
        - exists (CIndexP n0). split; [rewrite Ha, Hn; reflexivity|]. split; [now rewrite Ht|]. split; [exact I|].
          split; [unfold start_ok; rewrite Ep; (split; [|split; [|split]]); intros Hst; try discriminate Hst; reflexivity|split; [nudp; exact I|exact I]].
        - exists (CSliceP off sl k). split; [rewrite Ha, Hs; listeq|]. split; [now rewrite Ht|]. split; [exact Hwk|].
          split; [unfold start_ok; rewrite Ep; (split; [|split; [|split]]); intros Hst; try discriminate Hst; reflexivity|split; [nudp; exact Hik|exact Hdk]]. }
      destruct (peek p 0) eqn:Ep1; try (exact (Hix H)); try (exact (Hml Hb1 H)).
      destruct (tok_is_rbracket (peek p 1)) eqn:Er1; [|exact (Hml Hb1 H)].
      adv_in H. use_peek. apply Hwi in H as (k & Hk & Ht & Hwk & Hik & Hdk). exists (CWildP k). split; [rewrite Ha, Ha0, Hk; reflexivity|]. split; [now rewrite Ht|].
      split; [exact Hwk|]. split; [unfold start_ok; rewrite Ep; (split; [|split; [|split]]); intros Hst; try discriminate Hst; reflexivity|split; [nudp; exact Hik|exact Hdk]].
    - (* not *)
      run H n st2 Ee. apply Hexpr in Ee as (x & Hx & Hex & Hwx & _ & Hpx & Hdx & Hlx). injection H as <- <-. exists (CNot x). split; [rewrite Ha, Hx; reflexivity|].
      split; [cbn [erase]; now rewrite Hex|]. split; [exact Hwx|]. split; [start_tac Ep|split; [nudp; exact Hpx|cbn [dis]; split; assumption]].
    - (* current node *)
      injection H as <- <-. exists CCurrent. split; [rewrite Ha; reflexivity|]. split; [reflexivity|]. split; [exact I|]. split; [start_tac Ep|split; [nudp; exact I|exact I]].
    - (* parentheses *)
      run H result st2 Ee. apply Hexpr in Ee as (x & Hx & Hex & Hwx & _ & Hpx & Hdx & _). adv_in H. destruct (peek st2 0) eqn:Ep2; dead. use_peek.
      injection H as <- <-. exists (CParen x). split; [rewrite Ha, Hx, Ha0; cbn [flat]; listeq|]. split; [exact Hex|]. split; [exact Hwx|].
      split; [start_tac Ep|split; [nudp; exact Hpx|cbn [dis]; exact Hdx]].
    - (* multi-select hash *)
      apply Hkvps in H as (items & Hne & Hi & Ht & Hwi' & Hpi' & Hdi'). destruct items as [|[[q k] x] r]; [contradiction|].
      exists (CMHash (q, k, x) r). split; [rewrite flat_mhash, Ha, Hi; cbn [GrammarProof.hash_items]; listeq|]. split; [rewrite erase_mhash, Ht; reflexivity|].
      split; [apply wf_mhash; split; [exact (Forall_inv Hwi')|exact (Forall_inv_tail Hwi')]|]. split; [start_tac Ep|].
      split; [nudp; apply inner_mhash; split; [exact (Forall_inv Hpi')|exact (Forall_inv_tail Hpi')]|].
      apply dis_mhash. cbn [each snd] in Hdi'. exact Hdi'.
  Qed.

  Lemma all_dis_holds : forall f, all_dis f.
  Proof.
    induction f as [|f IH].
    - unfold all_dis. repeat match goal with |- _ /\ _ => split end; repeat intro; discriminate.
    - unfold all_dis. repeat match goal with |- _ /\ _ => split end.
      + exact (dsound_expr f IH). + exact (dsound_loop f IH). + exact (dsound_nud f IH). + exact (dsound_kvps f IH). + exact (dsound_kvp f IH).
      + exact (dsound_led f IH). + exact (dsound_filter f IH). + exact (dsound_flatten f IH). + exact (dsound_cmp f IH). + exact (dsound_dot f IH).
      + exact (dsound_prhs f IH). + exact (dsound_wi f IH). + exact (dsound_wv f IH). + exact (dsound_index f IH). + exact (dsound_mlist f IH).
      + exact (dsound_list f IH).
  Qed.

  (** What the reference parser accepts is the flattening of a well-formed tree of the
      grammar that respects the binding powers and is disambiguated in its
      context (the token that follows it), followed by the unconsumed rest. *)
  Theorem ref_parser_sound_dis f tokens t : parse_tokens L STOP true f tokens = Ok t ->
    exists c rest, map snd tokens = flat c ++ rest /\ erase c = t /\ wf c /\ prec L 0 c /\ hd TEof rest = TEof /\ dis' false TEof c.
  Proof.
    unfold parse_tokens. intros H. destruct (expr' f 0 (mkPst tokens 0)) as [[result st]|?| | |] eqn:Ee; cbn [bind] in H; try discriminate.
    destruct (all_dis_holds f) as (Hexpr & _). apply Hexpr in Ee as (c & Hc & Hec & Hwc & _ & Hpc & Hdc & _).
    destruct (peek st 0) eqn:Ep; try discriminate. injection H as <-.
    exists c, (toks st). split; [exact Hc|]. split; [exact Hec|]. split; [exact Hwc|]. split; [exact Hpc|]. split; [|exact Hdc].
    unfold toks, peek in *. destruct st as [q o]. cbn [pq] in *. destruct q as [|[p0 t0] q]; [reflexivity|]. cbn in *. exact Ep.
  Qed.
End DisSound.

(* ---------- the reference parser decides exactly the disambiguated grammar ---------- *)
Notation Lspec := (fun tk => Spec.TableSpec.spec_lbp (kind_of tk)).

(** what the reference parser accepts *)
Theorem ref_parse_sound_dis s t : ref_parse s = Ok t ->
  exists tokens c, tokenize s = Ok tokens /\ map snd tokens = flat c ++ [TEof] /\ erase c = t /\ wf c /\
                   prec Lspec 0 c /\ dis Lspec Spec.TableSpec.spec_stop false TEof c.
Proof.
  unfold ref_parse. destruct (tokenize s) as [tokens|?| | |] eqn:Et; cbn [bind]; try discriminate. intros H.
  apply ref_parser_sound_dis in H as (c & rest & Hc & Hec & Hwc & Hpc & Hhd & Hdc).
  apply tokenize_ends in Et as Hends. destruct Hends as (body & p & Hr & Hb).
  exists tokens, c. split; [reflexivity|]. split; [|split; [exact Hec|split; [exact Hwc|split; [exact Hpc|exact Hdc]]]].
  assert (Hbody : ~ In TEof (map snd body)).
  { intros Hin. apply in_map_iff in Hin as ([p0 t0] & E & Hin). rewrite Forall_forall in Hb. apply (Hb _ Hin). exact E. }
  rewrite Hr, map_app in Hc. cbn [map snd] in Hc.
  destruct rest as [|t0 r].
  - exfalso. rewrite app_nil_r in Hc. apply (flat_no_eof c). rewrite <- Hc. apply in_or_app. right. left. reflexivity.
  - cbn [hd] in Hhd. subst t0. symmetry in Hc. destruct (split_at_first_eof _ _ _ (flat_no_eof c) Hbody Hc) as [E ->].
    rewrite Hr, map_app. cbn [map snd]. now rewrite E.
Qed.

(** The language of the reference parser is exactly the set of expressions that lex
    to the flattening of a well-formed, binding-power-respecting, disambiguated
    syntax tree of the grammar. *)
Theorem ref_parse_accepts_exactly s :
  (exists t, ref_parse s = Ok t) <->
  (exists tokens c, tokenize s = Ok tokens /\ map snd tokens = flat c ++ [TEof] /\ wf c /\
                    prec Lspec 0 c /\ dis Lspec Spec.TableSpec.spec_stop false TEof c).
Proof.
  split.
  - intros [t H]. apply ref_parse_sound_dis in H as (tokens & c & H1 & H2 & _ & H3 & H4 & H5). exists tokens, c. auto.
  - intros (tokens & c & H1 & H2 & H3 & H4 & H5). destruct (ref_parser_complete s tokens c H1 H2 H3 H4 H5) as (c' & _ & H). exists (erase c'). exact H.
Qed.

(** ... and the tree it returns is the abstract tree of any such syntax tree (offsets aside). *)
Theorem ref_parse_tree_determined s t tokens c : ref_parse s = Ok t -> tokenize s = Ok tokens -> map snd tokens = flat c ++ [TEof] ->
  wf c -> prec Lspec 0 c -> dis Lspec Spec.TableSpec.spec_stop false TEof c -> unoff t = unoff (erase c).
Proof.
  intros Hp Ht Hf Hw Hpc Hd. destruct (ref_parser_complete s tokens c Ht Hf Hw Hpc Hd) as (c' & Hs & H). rewrite Hp in H. injection H as ->.
  destruct erase_shape as [Hes _]. rewrite <- (Hes c'), <- (Hes c), Hs. reflexivity.
Qed.

(** The code against the exact language: every expression the reference parser
    accepts through a tree without the recorded deviation constituent compiles,
    to the same abstract tree (offsets aside). *)
Theorem code_accepts_the_language s tokens c : tokenize s = Ok tokens -> map snd tokens = flat c ++ [TEof] ->
  wf c -> prec lbp 0 c -> dis lbp Gen.Tables.gen_projection_stop false TEof c -> nodotlist c ->
  exists t, parse s = Ok t /\ unoff t = unoff (erase c).
Proof.
  intros Ht Hf Hw Hp Hd Hn. destruct (code_parser_complete s tokens c Ht Hf Hw Hp Hd Hn) as (c' & Hs & H). exists (erase c'). split; [exact H|].
  destruct erase_shape as [Hes _]. rewrite <- (Hes c'), <- (Hes c), Hs. reflexivity.
Qed.
