(** C12: the offset of every parse error lies within the expression, on a
    character boundary (it is the byte length of a prefix of the expression):
    the lexer's positions are prefix lengths, and the parser only reports the
    position of a token of its input or the position it started from. *)
From Coq Require Import ZifyBool.
From JP Require Import Base F64 Value JsonRead Lexer Parser Proofs.ParseErrProof.

Definition bnd (whole : str) (p : Z) : Prop := exists pre suf, whole = pre ++ suf /\ p = byte_len pre.

Lemma utf8_ascii c : c < 128 -> utf8_len c = 1.
Proof. intros H. unfold utf8_len. assert ((c <? 128) = true) as -> by lia. reflexivity. Qed.

Lemma byte_len_app a b : byte_len (a ++ b) = byte_len a + byte_len b.
Proof. induction a as [|c a IH]; cbn [app byte_len]; [lia|]. rewrite IH. lia. Qed.

Lemma byte_len_ascii a : Forall (fun c => c < 128) a -> byte_len a = zlen a.
Proof.
  unfold zlen. induction 1 as [|c a Hc Ha IH]; [reflexivity|]. cbn [byte_len length]. rewrite IH, (utf8_ascii c Hc). lia.
Qed.

Lemma take_while_spec p : forall s a b, take_while p s = (a, b) -> s = a ++ b /\ Forall (fun c => p c = true) a.
Proof.
  induction s as [|c r IH]; intros a b; cbn [take_while].
  - intros E. injection E as <- <-. split; [reflexivity|constructor].
  - destruct (p c) eqn:Ep.
    + destruct (take_while p r) as [a0 b0]. intros E. injection E as <- <-. destruct (IH a0 b0 eq_refl) as [-> Hf]. split; [reflexivity|constructor; assumption].
    + intros E. injection E as <- <-. split; [reflexivity|constructor].
Qed.

Lemma ident_ascii a : Forall (fun c => is_ident_char c = true) a -> Forall (fun c => c < 128) a.
Proof. apply Forall_impl. intros c H. unfold is_ident_char, is_alpha_, is_digit in H. lia. Qed.
Lemma digit_ascii a : Forall (fun c => is_digit c = true) a -> Forall (fun c => c < 128) a.
Proof. apply Forall_impl. intros c H. unfold is_digit in H. lia. Qed.

Lemma consume_inside_spec : forall fuel w s buf n b r m,
  consume_inside fuel w s buf n = Some (b, r, m) -> exists cons, s = cons ++ r /\ m = n + byte_len cons.
Proof.
  induction fuel as [|fu IH]; intros w s buf n b r m; cbn [consume_inside]; [discriminate|].
  destruct s as [|c t]; [discriminate|].
  destruct (c =? w) eqn:Ew; [intros E; injection E as _ <- <-; exists [c]; split; [reflexivity|cbn [byte_len]; lia]|].
  destruct (c =? 92) eqn:E92.
  - assert (c = 92) as -> by lia. destruct t as [|c2 t2]; intros E; apply IH in E as (cons & -> & ->).
    + exists (92 :: cons). split; [reflexivity|]. cbn [byte_len]. rewrite (utf8_ascii 92) by lia. lia.
    + exists (92 :: c2 :: cons). split; [reflexivity|]. cbn [byte_len]. rewrite (utf8_ascii 92) by lia. lia.
  - intros E; apply IH in E as (cons & -> & ->). exists (c :: cons). split; [reflexivity|]. cbn [byte_len]. lia.
Qed.

(* ---------- the lexer ---------- *)
Definition G (whole : str) (r : res (list (Z * token))) : Prop :=
  match r with
  | Ok tl => Forall (fun x => bnd whole (fst x)) tl
  | Err e => forall p, e = EParse p -> bnd whole p
  | _ => True
  end.

Lemma G_json_bind whole x (k : option value -> res (list (Z * token))) : (forall o, G whole (k o)) -> G whole (bind (no_err_j (from_json x)) k).
Proof. intros H. destruct (from_json x); cbn [no_err_j bind]; try exact I. apply H. Qed.

Lemma Forall_rev_append {A} (P : A -> Prop) l acc : Forall P l -> Forall P acc -> Forall P (rev_append l acc).
Proof. revert acc. induction l as [|x l IH]; intros acc Hl Ha; cbn [rev_append]; [exact Ha|]. inversion Hl; subst. apply IH; [assumption|constructor; assumption]. Qed.

Section LexPos.
  Variable whole : str.
  Variable f : nat.
  Hypothesis IH : forall s pos acc pre, whole = pre ++ s -> pos = byte_len pre -> Forall (fun x => bnd whole (fst x)) acc -> G whole (lex_go f s pos acc).

  Lemma rec_tok s pos acc pre s' pos' t : whole = pre ++ s -> pos = byte_len pre -> Forall (fun x => bnd whole (fst x)) acc ->
    (exists cons, s = cons ++ s' /\ pos' = pos + byte_len cons) -> G whole (lex_go f s' pos' ((pos, t) :: acc)).
  Proof.
    intros Hw Hp Ha (cons & Hs & Hp'). apply (IH s' pos' _ (pre ++ cons)).
    - rewrite Hw, Hs, app_assoc. reflexivity.
    - rewrite byte_len_app. lia.
    - constructor; [|exact Ha]. exists pre, s. split; assumption.
  Qed.

  Lemma rec_ws s pos acc pre s' pos' : whole = pre ++ s -> pos = byte_len pre -> Forall (fun x => bnd whole (fst x)) acc ->
    (exists cons, s = cons ++ s' /\ pos' = pos + byte_len cons) -> G whole (lex_go f s' pos' acc).
  Proof.
    intros Hw Hp Ha (cons & Hs & Hp'). apply (IH s' pos' _ (pre ++ cons)).
    - rewrite Hw, Hs, app_assoc. reflexivity.
    - rewrite byte_len_app. lia.
    - exact Ha.
  Qed.
End LexPos.

Ltac asc := first [lia | match goal with |- ?c < 128 => unfold is_alpha_, is_digit in *; lia end].

(** candidates for the consumed prefix, tried in turn *)
Ltac leaf_ex :=
  match goal with
  | |- exists cons, ?c :: ?r = cons ++ _ /\ _ = _ + byte_len cons =>
      first
        [ exists [c]; split; [reflexivity|cbn [byte_len]; rewrite (utf8_ascii c) by asc; lia]
        | match r with
          | ?c2 :: ?r2 =>
              first
                [ exists [c; c2]; split; [reflexivity|cbn [byte_len]; rewrite (utf8_ascii c), (utf8_ascii c2) by asc; lia]
                | match goal with
                  | H : r2 = ?ds ++ _, Hf : Forall _ ?ds |- _ =>
                      exists (c :: c2 :: ds); split; [cbn [app]; rewrite <- H; reflexivity|];
                      cbn [byte_len]; rewrite (utf8_ascii c), (utf8_ascii c2), (byte_len_ascii ds) by (try asc; exact Hf); lia
                  end ]
          end
        | match goal with
          | H : r = ?ds ++ ?rest, Hf : Forall _ ?ds |- exists cons, _ = cons ++ ?rest /\ _ =>
              exists (c :: ds); split; [cbn [app]; rewrite <- H; reflexivity|];
              cbn [byte_len]; rewrite (utf8_ascii c), (byte_len_ascii ds) by (try asc; exact Hf); lia
          end
        | match goal with
          | H : r = ?cons ++ ?rest, Hn : ?n = 0 + byte_len ?cons |- exists cons', _ = cons' ++ ?rest /\ _ =>
              exists (c :: cons); split; [cbn [app]; rewrite <- H; reflexivity|];
              cbn [byte_len]; rewrite (utf8_ascii c) by asc; lia
          end ]
  end.

Lemma lex_go_bnd whole : forall f s pos acc pre, whole = pre ++ s -> pos = byte_len pre -> Forall (fun x => bnd whole (fst x)) acc ->
  G whole (lex_go f s pos acc).
Proof.
  induction f as [|f IH]; intros s pos acc pre Hw Hp Ha; [exact I|].
  destruct s as [|c r].
  - cbn [lex_go G]. apply Forall_rev_append; [|constructor]. constructor; [|exact Ha]. exists pre, []. split; assumption.
  - assert (Hpos : bnd whole pos) by (exists pre, (c :: r); split; assumption).
    cbn [lex_go].
    destruct (take_while is_ident_char r) as [rid r1] eqn:T1. apply take_while_spec in T1 as [T1 F1]. apply ident_ascii in F1.
    destruct (take_while is_digit r) as [ds r2'] eqn:T2. apply take_while_spec in T2 as [T2 F2]. apply digit_ascii in F2.
    destruct (consume_inside (S (length r)) 34 r [] 0) as [[[b1 q1] n1]|] eqn:E1; [apply consume_inside_spec in E1 as (cons1 & E1 & N1)|].
    all: destruct (consume_inside (S (length r)) 39 r [] 0) as [[[b2 q2] n2]|] eqn:E2; [apply consume_inside_spec in E2 as (cons2 & E2 & N2)|].
    all: destruct (consume_inside (S (length r)) 96 r [] 0) as [[[b3 q3] n3]|] eqn:E3; [apply consume_inside_spec in E3 as (cons3 & E3 & N3)|].
    all: destruct r as [|c2 t2].
    all: try (destruct (take_while is_digit t2) as [ds2 r4] eqn:T4; apply take_while_spec in T4 as [T4 F4]; apply digit_ascii in F4).
    all: repeat match goal with
                | |- G _ (if ?b then _ else _) => let E := fresh "B" in destruct b eqn:E
                | |- G _ (match ?x with _ => _ end) => destruct x
                | |- G _ (bind (no_err_j (from_json _)) _) => apply G_json_bind; intros
                | |- G _ (lex_err _) => intros p0 E0; injection E0 as <-; exact Hpos
                | |- G _ (lex_go _ _ _ ((_, _) :: _)) => apply (rec_tok whole f IH _ pos acc pre _ _ _ Hw Hp Ha); leaf_ex
                | |- G _ (lex_go _ _ _ _) => apply (rec_ws whole f IH _ pos acc pre _ _ Hw Hp Ha); leaf_ex
                end.
Qed.

Theorem tokenize_positions s : G s (tokenize s).
Proof. unfold tokenize. apply (lex_go_bnd s _ s 0 [] []); [reflexivity|reflexivity|constructor]. Qed.

(* ---------- the parser ---------- *)
Section ParserPos.
  Variables (L : token -> Z) (STOP : Z) (strict : bool).
  Variable P : Z -> Prop.

  Definition okst (st : pst) : Prop := P (poff st) /\ Forall (fun x => P (fst x)) (pq st).

  Definition posr {A} (r : res (A * pst)) : Prop :=
    match r with
    | Ok a => okst (snd a)
    | Err e => forall p, e = EParse p -> P p
    | _ => True
    end.

  Lemma posr_bind {A B} (r : res (A * pst)) (k : A * pst -> res (B * pst)) : posr r -> (forall a, okst (snd a) -> posr (k a)) -> posr (bind r k).
  Proof. intros Hr Hk. destruct r as [a|e| | |]; cbn [bind]; try exact I; [apply Hk; exact Hr|exact Hr]. Qed.

  Lemma adv_okst st : okst st -> okst (snd (advance_with_pos st)).
  Proof.
    unfold advance_with_pos, okst. destruct st as [q o]. cbn [pq poff]. destruct q as [|[p t] q]; cbn [snd pq poff]; [auto|].
    intros [_ H]. inversion H; subst. split; assumption.
  Qed.

  Lemma posr_perr {A} st b : okst st -> posr (@perr (A * pst) st b).
  Proof.
    intros [H1 H2] p E. unfold perr in E. injection E as <-. destruct b; [|exact H1]. destruct (pq st) as [|[p0 t0] q]; [exact H1|]. inversion H2; subst. assumption.
  Qed.

  Lemma posr_poff {A} st : okst st -> posr (@Err (A * pst) (EParse (poff st))).
  Proof. intros [H1 _] p E. injection E as <-. exact H1. Qed.

  Definition all_pos (n : nat) : Prop :=
    (forall rbp st, okst st -> posr (expr L STOP strict n rbp st)) /\
    (forall rbp l st, okst st -> posr (expr_loop L STOP strict n rbp l st)) /\
    (forall st, okst st -> posr (nud L STOP strict n st)) /\
    (forall acc st, okst st -> posr (parse_kvps L STOP strict n acc st)) /\
    (forall st, okst st -> posr (parse_kvp L STOP strict n st)) /\
    (forall l st, okst st -> posr (led L STOP strict n l st)) /\
    (forall l st, okst st -> posr (parse_filter L STOP strict n l st)) /\
    (forall l st, okst st -> posr (parse_flatten L STOP strict n l st)) /\
    (forall c l st, okst st -> posr (parse_comparator L STOP strict n c l st)) /\
    (forall bp st, okst st -> posr (parse_dot L STOP strict n bp st)) /\
    (forall bp st, okst st -> posr (projection_rhs L STOP strict n bp st)) /\
    (forall l st, okst st -> posr (parse_wildcard_index L STOP strict n l st)) /\
    (forall l st, okst st -> posr (parse_wildcard_values L STOP strict n l st)) /\
    (forall st, okst st -> posr (parse_index L STOP strict n st)) /\
    (forall p0 p1 p2 pos st, okst st -> posr (index_loop L STOP strict n p0 p1 p2 pos st)) /\
    (forall st, okst st -> posr (parse_multi_list L STOP strict n st)) /\
    (forall c acc st, okst st -> posr (parse_list L STOP strict n c acc st)).

  Ltac pos_auto :=
    repeat match goal with
           | |- posr (Ok _) => cbn [posr snd]; assumption
           | |- posr OOF => exact I
           | |- posr (perr _ _) => apply posr_perr; assumption
           | |- posr (Err (EParse (poff _))) => apply posr_poff; assumption
           | H : _ |- posr _ => solve [apply H; assumption]
           | |- posr (bind _ _) => apply posr_bind; [|let a := fresh "a" in let Ha := fresh "Ha" in intros a Ha]
           | |- posr (if ?b then _ else _) => destruct b
           | |- posr (match advance_with_pos ?st with _ => _ end) =>
               let H := fresh "Hadv" in pose proof (adv_okst st ltac:(assumption)) as H; destruct (advance_with_pos st) as [[? ?] ?]; cbn [snd] in H
           | |- posr (match ?x with _ => _ end) => destruct x; cbn [snd] in *
           end.

  Lemma all_pos_holds n : all_pos n.
  Proof.
    induction n as [|n IH].
    - unfold all_pos. repeat split; intros; exact I.
    - destruct IH as (H1 & H2 & H3 & H4 & H5 & H6 & H7 & H8 & H9 & H10 & H11 & H12 & H13 & H14 & H15 & H16 & H17).
      unfold all_pos. repeat split; intros.
      + cbn [expr]. pos_auto.
      + cbn [expr_loop]. pos_auto.
      + cbn [nud]. pos_auto.
      + cbn [parse_kvps]. pos_auto.
      + cbn [parse_kvp]. pos_auto.
      + cbn [led]. pos_auto.
      + cbn [parse_filter]. pos_auto.
      + cbn [parse_flatten]. pos_auto.
      + cbn [parse_comparator]. pos_auto.
      + cbn [parse_dot]. pos_auto.
      + cbn [projection_rhs]. pos_auto.
      + cbn [parse_wildcard_index]. pos_auto.
      + cbn [parse_wildcard_values]. pos_auto.
      + cbn [parse_index]. pos_auto.
      + cbn [index_loop]. pos_auto.
      + cbn [parse_multi_list]. pos_auto.
      + cbn [parse_list]. pos_auto.
  Qed.

  Lemma parse_tokens_pos fuel toks p : P 0 -> Forall (fun x => P (fst x)) toks -> parse_tokens L STOP strict fuel toks = Err (EParse p) -> P p.
  Proof.
    intros H0 Ht. unfold parse_tokens. destruct (all_pos_holds fuel) as (Hexpr & _).
    assert (Hok : okst (mkPst toks 0)) by (split; assumption). specialize (Hexpr 0 _ Hok).
    destruct (expr L STOP strict fuel 0 (mkPst toks 0)) as [[result st]|e| | |]; cbn [bind]; try discriminate.
    - cbn [posr snd] in Hexpr. destruct Hexpr as [Hp1 Hp2]. destruct (peek st 0); try discriminate; intros E; unfold perr in E; injection E as <-;
        (destruct (pq st) as [|[p0 t0] q]; [exact Hp1|inversion Hp2; subst; assumption]).
    - intros E. injection E as ->. exact (Hexpr p eq_refl).
  Qed.
End ParserPos.

(** The offset of every parse error is the byte length of a prefix of the expression. *)
Theorem compile_error_offset_on_boundary s p : parse s = Err (EParse p) -> bnd s p.
Proof.
  unfold parse. pose proof (tokenize_positions s) as Ht. destruct (tokenize s) as [toks|e| | |]; cbn [bind G] in *; try discriminate.
  - apply parse_tokens_pos; [exists [], s; split; reflexivity|exact Ht].
  - intros E. injection E as ->. exact (Ht p eq_refl).
Qed.

Theorem ref_compile_error_offset_on_boundary s p : ref_parse s = Err (EParse p) -> bnd s p.
Proof.
  unfold ref_parse. pose proof (tokenize_positions s) as Ht. destruct (tokenize s) as [toks|e| | |]; cbn [bind G] in *; try discriminate.
  - apply parse_tokens_pos; [exists [], s; split; reflexivity|exact Ht].
  - intros E. injection E as ->. exact (Ht p eq_refl).
Qed.

(** ... so it lies within the expression, and its reported coordinates are the line and character column of that offset. *)
Corollary compile_error_offset_within s p : parse s = Err (EParse p) -> 0 <= p <= byte_len s.
Proof.
  intros H. destruct (compile_error_offset_on_boundary s p H) as (pre & suf & -> & ->). rewrite byte_len_app.
  assert (Hn : forall l, 0 <= byte_len l). { induction l as [|c l IHl]; cbn [byte_len]; [lia|]. unfold utf8_len. destruct (c <? 128), (c <? 2048), (c <? 65536); lia. }
  pose proof (Hn pre). pose proof (Hn suf). lia.
Qed.

From JP Require Import Wire Render Proofs.ErrProof.
(** The coordinates reported for a parse error are the number of newlines before its offset
    and the number of characters since the last of them. *)
Corollary compile_error_coordinates s p : parse s = Err (EParse p) ->
  exists pre suf, s = pre ++ suf /\ p = byte_len pre /\ line_col s p = (count_nl pre, last_line pre 0).
Proof.
  intros H. destruct (compile_error_offset_on_boundary s p H) as (pre & suf & -> & ->). exists pre, suf. split; [reflexivity|]. split; [reflexivity|]. apply line_col_spec.
Qed.
