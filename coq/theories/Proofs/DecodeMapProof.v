(** C14, decoding half: the map clause of the round trip for every key type the library's
    Serializer can write — in particular enum keys, whose [BTreeMap] order (variant index) is
    not the order of the spelled keys the object is stored in. *)
From Coq Require Import Floats.SpecFloat Sorting.Sorted Sorting.Permutation ZifyBool Lia.
From JP Require Import Base F64 Value JsonRead Serde Decode Proofs.ObjFacts Proofs.DecodeProof.

(* ---------- the order of valid keys ---------- *)
Lemma index_of_nonneg n vs : 0 <= index_of n vs.
Proof. induction vs as [|v vs IH]; cbn [index_of]; [lia|]. destruct (str_eqb n v); lia. Qed.

Lemma index_of_inj vs : forall n m, mem_str n vs = true -> mem_str m vs = true -> index_of n vs = index_of m vs -> n = m.
Proof.
  induction vs as [|v vs IH]; intros n m Hn Hm E; cbn [mem_str index_of] in *; [discriminate|].
  destruct (str_eqb n v) eqn:En, (str_eqb m v) eqn:Em; cbn [orb] in *.
  - apply str_eqb_eq in En, Em. congruence.
  - pose proof (index_of_nonneg m vs). lia.
  - pose proof (index_of_nonneg n vs). lia.
  - apply IH; [assumption|assumption|lia].
Qed.

Lemma key_cmp_eq k a b : chk_key k a = true -> chk_key k b = true -> key_cmp k a b = Eq -> a = b.
Proof.
  destruct k as [| | | |k'|k'|vs]; try destruct k'; destruct a; cbn; try discriminate; intros Ha;
    destruct b; cbn; try discriminate; intros Hb E.
  - apply str_cmp_eq in E. congruence.
  - apply Z.compare_eq in E. congruence.
  - destruct a; try discriminate. destruct b; try discriminate. cbn in E. apply str_cmp_eq in E. congruence.
  - destruct a; try discriminate. destruct b; try discriminate. cbn in E. apply str_cmp_eq in E. congruence.
  - apply Z.compare_eq in E. f_equal. eapply index_of_inj; eauto.
Qed.

Lemma key_cmp_trans k a b c : chk_key k a = true -> chk_key k b = true -> chk_key k c = true ->
  key_cmp k a b = Lt -> key_cmp k b c = Lt -> key_cmp k a c = Lt.
Proof.
  destruct k as [| | | |k'|k'|vs]; try destruct k'; destruct a; cbn; try discriminate; intros Ha;
    destruct b; cbn; try discriminate; intros Hb; destruct c; cbn; try discriminate; intros Hc E1 E2.
  - eapply str_cmp_lt_trans; eauto.
  - rewrite Z.compare_lt_iff in *. lia.
  - destruct a; try discriminate. destruct b; try discriminate. destruct c; try discriminate. cbn in *. eapply str_cmp_lt_trans; eauto.
  - destruct a; try discriminate. destruct b; try discriminate. destruct c; try discriminate. cbn in *. eapply str_cmp_lt_trans; eauto.
  - rewrite Z.compare_lt_iff in *. lia.
Qed.

Lemma keystr_inj k a b : chk_key k a = true -> chk_key k b = true -> keystr a = keystr b -> a = b.
Proof.
  unfold keystr. destruct k as [| | | |k'|k'|vs]; try destruct k'; destruct a; cbn; try discriminate; intros Ha;
    destruct b; cbn; try discriminate; intros Hb E; try congruence.
  - destruct a; try discriminate. destruct b; try discriminate. cbn in E. congruence.
  - destruct a; try discriminate. destruct b; try discriminate. cbn in E. congruence.
Qed.

(* ---------- insertion into the decoded map ---------- *)
Definition klt (k : kty) (p q : sval * sval) : Prop := key_cmp k (fst p) (fst q) = Lt.
Definition ssorted (k : kty) (l : list (sval * sval)) : Prop := StronglySorted (klt k) l.
Definition keysok (k : kty) (l : list (sval * sval)) : Prop := Forall (fun ax => chk_key k (fst ax) = true) l.

Lemma klt_irrefl k p : ~ klt k p p.
Proof. unfold klt. intros H. pose proof (key_cmp_antisym k (fst p) (fst p)) as A. rewrite H in A. discriminate. Qed.

Lemma map_insert_spec k : forall acc a x,
  chk_key k a = true -> keysok k acc -> ssorted k acc -> ~ In a (map fst acc) ->
  ssorted k (map_insert k acc a x) /\ Permutation ((a, x) :: acc) (map_insert k acc a x) /\ keysok k (map_insert k acc a x).
Proof.
  induction acc as [|[b y] acc IH]; intros a x Ha Hok Hs Hfresh; cbn [map_insert].
  - repeat split; [repeat constructor|reflexivity|constructor; [exact Ha|constructor]].
  - inversion Hok as [|? ? Hb Hok']; subst. cbn in Hb. apply StronglySorted_inv in Hs as [Hs Hall].
    destruct (key_cmp k a b) eqn:E.
    + exfalso. apply Hfresh. left. cbn. symmetry. eapply key_cmp_eq; eauto.
    + repeat split.
      * constructor; [constructor; assumption|]. constructor; [exact E|].
        apply Forall_forall. intros q Hq. rewrite Forall_forall in Hall. specialize (Hall q Hq). unfold klt in *. cbn in *.
        unfold keysok in Hok'. rewrite Forall_forall in Hok'. eapply key_cmp_trans; eauto.
      * reflexivity.
      * constructor; [exact Ha|constructor; assumption].
    + destruct (IH a x Ha Hok' Hs) as (S' & P' & K'); [intros Hin; apply Hfresh; right; exact Hin|].
      assert (key_cmp k b a = Lt) as Eba by (rewrite key_cmp_antisym, E; reflexivity).
      repeat split.
      * constructor; [exact S'|]. eapply Permutation_Forall; [exact P'|]. constructor; [exact Eba|exact Hall].
      * eapply perm_trans; [apply perm_swap|]. apply perm_skip. exact P'.
      * constructor; [exact Hb|exact K'].
Qed.

(** two strictly sorted lists with the same entries are the same list *)
Lemma ssorted_perm_eq k : forall l1 l2, keysok k l1 -> keysok k l2 -> ssorted k l1 -> ssorted k l2 -> Permutation l1 l2 -> l1 = l2.
Proof.
  induction l1 as [|p l1 IH]; intros l2 K1 K2 S1 S2 P.
  - apply Permutation_nil in P. congruence.
  - destruct l2 as [|q l2]; [apply Permutation_sym, Permutation_nil in P; discriminate|].
    apply StronglySorted_inv in S1 as [S1 A1]. apply StronglySorted_inv in S2 as [S2 A2].
    inversion K1 as [|? ? Kp K1']; subst. inversion K2 as [|? ? Kq K2']; subst.
    assert (p = q) as ->.
    { assert (In p (q :: l2)) as Hp by (eapply Permutation_in; [exact P|left; reflexivity]).
      assert (In q (p :: l1)) as Hq by (eapply Permutation_in; [apply Permutation_sym; exact P|left; reflexivity]).
      destruct Hp as [->|Hp]; [reflexivity|]. destruct Hq as [->|Hq]; [reflexivity|].
      rewrite Forall_forall in A1, A2. specialize (A1 q Hq). specialize (A2 p Hp).
      exfalso. apply (klt_irrefl k p). unfold klt in *.
      rewrite Forall_forall in K1'. eapply key_cmp_trans; eauto. }
    f_equal. apply IH; try assumption. eapply Permutation_cons_inv. exact P.
Qed.

(* ---------- the decoder over an object that is the image of [l] in any order ---------- *)
Section DeEntries.
  Variable t : ty.
  Hypothesis Ht : forall x v, chk t x = true -> ser_var x = SOk v -> de t v = Some x.

  Lemma de_entries_sorted k : forall l ys, Forall2 entry_image l ys -> forall acc,
    forallb (fun ax => chk_key k (fst ax) && chk t (snd ax)) l = true ->
    keysok k acc -> ssorted k acc -> NoDup (map fst (l ++ acc)) ->
    exists res, de_entries k (de t) ys acc = Some res /\ ssorted k res /\ Permutation (l ++ acc) res /\ keysok k res.
  Proof.
    induction 1 as [|[a x] [ks y] l ys [E Hy] _ IH]; intros acc Hc Hok Hs Hnd; cbn [de_entries].
    - exists acc. repeat split; [assumption|reflexivity|assumption].
    - cbn in E, Hy. subst ks. cbn in Hc. apply andb_true_iff in Hc as [Hc Hl]. apply andb_true_iff in Hc as [Hka Hx].
      destruct (chk_key_reads k a Hka) as [_ Hd]. rewrite Hd, (Ht x y Hx Hy).
      cbn in Hnd. apply NoDup_cons_iff in Hnd as [Hfresh Hnd].
      destruct (map_insert_spec k acc a x Hka Hok Hs) as (S' & P' & K').
      { intros Hin. apply Hfresh. rewrite map_app. apply in_or_app. right. exact Hin. }
      destruct (IH (map_insert k acc a x) Hl K' S') as (res & R & Sr & Pr & Kr).
      { eapply Permutation_NoDup; [|constructor; [exact Hfresh|exact Hnd]].
        rewrite !map_app. change (a :: map fst l ++ map fst acc) with ((a :: map fst l) ++ map fst acc).
        eapply perm_trans; [apply Permutation_middle|]. apply Permutation_app_head.
        change (a :: map fst acc) with (map fst ((a, x) :: acc)). apply Permutation_map. exact P'. }
      exists res. repeat split; try assumption.
      eapply perm_trans; [|exact Pr]. cbn. eapply perm_trans; [apply Permutation_middle|]. apply Permutation_app_head. exact P'.
  Qed.
End DeEntries.

(* ---------- the Serializer's object is the image of the entries in some order ---------- *)
Lemma obj_insert_image : forall la acc, Forall2 entry_image la acc -> forall a x y,
  ser_var x = SOk y -> ~ In (keystr a) (map fst acc) ->
  exists la', Permutation ((a, x) :: la) la' /\ Forall2 entry_image la' (obj_insert acc (keystr a) y).
Proof.
  induction 1 as [|[b z] [kb yb] la acc [Eb Hb] HF IH]; intros a x y Hy Hfresh; cbn [obj_insert].
  - exists [(a, x)]. split; [reflexivity|]. constructor; [split; [reflexivity|exact Hy]|constructor].
  - cbn in Eb, Hb. destruct (str_cmp (keystr a) kb) eqn:E.
    + exfalso. apply Hfresh. left. cbn. symmetry. apply str_cmp_eq. exact E.
    + exists ((a, x) :: (b, z) :: la). split; [reflexivity|].
      constructor; [split; [reflexivity|exact Hy]|]. constructor; [split; assumption|exact HF].
    + destruct (IH a x y Hy) as (la' & P & F'); [intros Hin; apply Hfresh; right; exact Hin|].
      exists ((b, z) :: la'). split.
      * eapply perm_trans; [apply perm_swap|]. apply perm_skip. exact P.
      * constructor; [split; assumption|exact F'].
Qed.

Lemma ser_entries_image k : forall kvs la acc m,
  Forall2 entry_image la acc ->
  forallb (fun ax => chk_key k (fst ax)) kvs = true ->
  NoDup (map (fun ax => keystr (fst ax)) (la ++ kvs)) ->
  ser_entries kvs acc = SOk m ->
  exists l', Permutation (la ++ kvs) l' /\ Forall2 entry_image l' m.
Proof.
  induction kvs as [|[a x] r IH]; intros la acc m HF Hk Hnd Hs; cbn in Hs.
  - injection Hs as <-. exists la. rewrite app_nil_r. split; [reflexivity|exact HF].
  - cbn in Hk. apply andb_true_iff in Hk as [Hka Hk]. destruct (chk_key_reads k a Hka) as [Hkv _].
    rewrite Hkv in Hs. apply sbind_ok in Hs as (y & Hy & Hs).
    assert (~ In (keystr a) (map fst acc)) as Hfresh.
    { intros Hin. rewrite map_app in Hnd. cbn in Hnd. apply NoDup_remove_2 in Hnd. apply Hnd. apply in_or_app. left.
      clear - HF Hin. induction HF as [|[b z] [kb yb] la acc [Eb _] _ IHF]; cbn in *; [contradiction|].
      destruct Hin as [<-|Hin]; [left; symmetry; exact Eb|right; apply IHF; exact Hin]. }
    destruct (obj_insert_image la acc HF a x y Hy Hfresh) as (la' & P & F').
    destruct (IH la' _ m F' Hk) as (l' & P' & F''); [|exact Hs|].
    { eapply Permutation_NoDup; [|exact Hnd]. rewrite !map_app. cbn.
      eapply perm_trans; [apply Permutation_sym, Permutation_middle|].
      change (keystr a :: map (fun ax => keystr (fst ax)) la ++ map (fun ax => keystr (fst ax)) r)
        with (map (fun ax => keystr (fst ax)) ((a, x) :: la) ++ map (fun ax => keystr (fst ax)) r).
      apply Permutation_app_tail. apply Permutation_map. exact P. }
    exists l'. split; [|exact F''].
    eapply perm_trans; [|exact P']. eapply perm_trans; [apply Permutation_sym, Permutation_middle|].
    change ((a, x) :: la ++ r) with (((a, x) :: la) ++ r). apply Permutation_app_tail. exact P.
Qed.

Lemma asc_sorted k kvs : asc k kvs = true -> ssorted k kvs.
Proof.
  induction kvs as [|[a x] r IH]; cbn [asc]; intros H; [constructor|].
  apply andb_true_iff in H as [H1 H2]. constructor; [apply IH; exact H2|].
  apply Forall_forall. intros bx Hin. rewrite forallb_forall in H1. specialize (H1 bx Hin). unfold klt. cbn.
  destruct (key_cmp k a (fst bx)); try discriminate. reflexivity.
Qed.

Lemma ssorted_nodup k kvs : ssorted k kvs -> NoDup (map fst kvs).
Proof.
  induction 1 as [|p l _ IH A]; cbn; constructor; [|exact IH].
  intros Hin. apply in_map_iff in Hin as (q & E & Hq). rewrite Forall_forall in A. specialize (A q Hq).
  unfold klt in A. rewrite E in A. exact (klt_irrefl k (fst p, snd p) A).
Qed.

Section MapRoundTrip.
  Variable t : ty.
  Hypothesis Ht : forall x v, chk t x = true -> ser_var x = SOk v -> de t v = Some x.

  (** the map clause for every key type the Serializer writes, whatever the order of the key type *)
  Theorem map_round_trip k kvs m :
    forallb (fun ax => chk_key k (fst ax) && chk t (snd ax)) kvs = true -> asc k kvs = true ->
    ser_entries kvs [] = SOk m -> de_entries k (de t) m [] = Some kvs.
  Proof.
    intros Hall Hasc Hm.
    assert (forallb (fun ax => chk_key k (fst ax)) kvs = true) as Hk.
    { clear - Hall. induction kvs as [|ax r IHr]; [reflexivity|]. cbn in *.
      apply andb_true_iff in Hall as [H1 H2]. apply andb_true_iff in H1 as [H1 _]. rewrite H1. exact (IHr H2). }
    assert (keysok k kvs) as Kk.
    { clear - Hk. induction kvs as [|ax r IHr]; [constructor|]. cbn in Hk. apply andb_true_iff in Hk as [H1 H2]. constructor; [exact H1|exact (IHr H2)]. }
    pose proof (asc_sorted k kvs Hasc) as Ss. pose proof (ssorted_nodup k kvs Ss) as Nd.
    destruct (ser_entries_image k kvs [] [] m) as (l' & P & F); [constructor|exact Hk| |exact Hm|].
    { cbn. clear - Nd Kk. induction kvs as [|[a x] r IHr]; cbn in *; [constructor|].
      inversion Nd as [|? ? Hn Nd']; subst. inversion Kk as [|? ? Ka Kk']; subst. constructor; [|apply IHr; assumption].
      intros Hin. apply Hn. apply in_map_iff in Hin as ([b y] & E & Hb). cbn in E.
      assert (chk_key k b = true) as Kb by (unfold keysok in Kk'; rewrite Forall_forall in Kk'; exact (Kk' _ Hb)).
      cbn in Ka. rewrite (keystr_inj k a b Ka Kb (eq_sym E)). apply in_map_iff. exists (b, y). split; [reflexivity|exact Hb]. }
    cbn in P.
    assert (forallb (fun ax => chk_key k (fst ax) && chk t (snd ax)) l' = true) as Hall'.
    { apply forallb_forall. intros ax Hin. rewrite forallb_forall in Hall. apply Hall. eapply Permutation_in; [apply Permutation_sym; exact P|exact Hin]. }
    destruct (de_entries_sorted t Ht k l' m F [] Hall') as (res & R & Sr & Pr & Kr); [constructor|constructor| |].
    { rewrite app_nil_r. eapply Permutation_NoDup; [apply Permutation_map; exact P|exact Nd]. }
    rewrite R. f_equal. symmetry. apply (ssorted_perm_eq k); try assumption.
    rewrite app_nil_r in Pr. eapply perm_trans; [exact P|exact Pr].
  Qed.
End MapRoundTrip.

(** A typed value survives the trip through the library: decoding what the library's
    Serializer made of it gives the value back. *)
Theorem de_ser_round_trip : forall t x v, chk t x = true -> ser_var x = SOk v -> de t v = Some x.
Proof.
  pose (P := fun t => forall x v, chk t x = true -> ser_var x = SOk v -> de t v = Some x).
  assert (HP : forall t, P t -> forall x v, chk t x = true -> ser_var x = SOk v -> de t v = Some x) by (intros t H; exact H).
  intros t. change (P t). induction t using ty_ind'; unfold P; intros x v Hc Hs; unfold ser_var in Hs.
  - destruct x; try discriminate. cbn in Hs. injection Hs as <-. reflexivity.
  - destruct x; try discriminate. cbn [ser] in Hs. injection Hs as <-. apply num_of_int_de. exact Hc.
  - destruct x; try discriminate. cbn in Hc, Hs. unfold num_of_f64 in Hs. rewrite Hc in Hs. injection Hs as <-. reflexivity.
  - destruct x; try discriminate. cbn in Hs. injection Hs as <-. reflexivity.
  - destruct x; try discriminate. cbn in Hs. injection Hs as <-. reflexivity.
  - destruct x; try discriminate. cbn in Hs. injection Hs as <-. reflexivity.
  - (* option *)
    destruct x; try discriminate; cbn [chk ser] in Hc, Hs.
    + injection Hs as <-. reflexivity.
    + apply andb_true_iff in Hc as [Hn Hc]. apply negb_true_iff in Hn.
      pose proof (ser_not_null t x v Hn Hc Hs) as Hnn.
      cbn [de]. rewrite (IHt x v Hc Hs). destruct v; try reflexivity. congruence.
  - (* seq *)
    destruct x; try discriminate; cbn [chk ser] in Hc, Hs. fold ser_list in Hs.
    apply sbind_ok in Hs as (ys & Hys & E). injection E as <-. cbn [de].
    rewrite (rt_seq P HP t l ys IHt Hc Hys). reflexivity.
  - (* tuple *)
    destruct x; try discriminate; cbn [chk ser] in Hc, Hs. fold ser_list in Hs.
    apply sbind_ok in Hs as (ys & Hys & E). injection E as <-. cbn [de].
    rewrite (rt_list P HP ts l ys H Hc Hys). reflexivity.
  - destruct x; try discriminate. cbn in Hs. injection Hs as <-. reflexivity.
  - (* newtype *)
    destruct x; try discriminate; cbn [chk ser] in Hc, Hs. cbn [de]. rewrite (IHt x v Hc Hs). reflexivity.
  - (* tuple struct *)
    destruct x; try discriminate; cbn [chk ser] in Hc, Hs. fold ser_list in Hs.
    apply sbind_ok in Hs as (ys & Hys & E). injection E as <-. cbn [de].
    rewrite (rt_list P HP ts l ys H Hc Hys). reflexivity.
  - (* struct *)
    destruct x; try discriminate; cbn [chk ser] in Hc, Hs. fold ser_fields in Hs.
    apply sbind_ok in Hs as (m & Hm & E). injection E as <-. cbn [de].
    apply andb_true_iff in Hc as [Hnd Hc].
    rewrite (rt_fields P HP fs H fields [] m Hnd Hc Hm). reflexivity.
  - (* enum *)
    cbn [chk] in Hc. destruct (variant_name x) as [n|] eqn:En; [|discriminate].
    pose proof (rt_variant P HP vs H n x v En Hc Hs) as R. cbn [de].
    destruct v; try discriminate; try exact R.
  - (* map *)
    destruct x; try discriminate; cbn [chk ser] in Hc, Hs. fold ser_entries in Hs.
    apply sbind_ok in Hs as (m & Hm & E). injection E as <-. cbn [de].
    apply andb_true_iff in Hc as [Hall Hasc].
    rewrite (map_round_trip t IHt k kvs m Hall Hasc Hm). reflexivity.
  - discriminate.
Qed.

(** integer targets: the range check of the target width, never a wrap-around, never a float *)
Lemma de_int_sound lo hi v x : de (TInt lo hi) v = Some x ->
  exists z, x = SInt z /\ lo <= z <= hi /\ (v = VNum (PosInt z) \/ v = VNum (NegInt z)).
Proof.
  cbn. destruct v; try discriminate. destruct n as [z|z|f]; cbn; try discriminate;
    destruct ((lo <=? z) && (z <=? hi)) eqn:E; try discriminate; intros H; injection H as <-;
    exists z; (split; [reflexivity|]); (split; [lia|]); [left|right]; reflexivity.
Qed.

(** the limits of the JSON image (why [chk] excludes them): they hold of serde_json as well *)
Lemma nested_none_is_lost : ser_var (SSome SNone) = SOk VNull /\ de (TOption (TOption TBool)) VNull = Some SNone.
Proof. split; reflexivity. Qed.

Lemma empty_tuple_variant_is_lost n : ser_var (STupleVariant n []) = SOk (VObj [(n, VArr [])]) /\
  de (TEnum [(n, TTupleStruct [])]) (VObj [(n, VArr [])]) = None.
Proof. split; [reflexivity|]. cbn. rewrite str_eqb_refl. reflexivity. Qed.

Lemma non_finite_float_is_lost f : f_is_finite f = false -> ser_var (SF64 f) = SOk VNull /\ de TF64 VNull = None.
Proof. intros H. split; [|reflexivity]. unfold ser_var. cbn. unfold num_of_f64. rewrite H. reflexivity. Qed.
