(** C02: string predicates, join, not_null, to_array, type — the modelled bodies
    against declarative readings of the specification. *)
From JP Require Import Base F64 Value Sig Functions.

Lemma starts_with_spec s p : starts_with s p = true <-> exists t, s = p ++ t.
Proof.
  revert s; induction p as [|a p IH]; intros s.
  - destruct s; cbn; split; eauto.
  - destruct s as [|b s]; cbn [starts_with].
    + split; [discriminate|]. intros [t H]. discriminate.
    + rewrite andb_true_iff, IH. split.
      * intros [E [t ->]]. apply Z.eqb_eq in E. subst. eexists. reflexivity.
      * intros [t H]. injection H as -> ->. split; [apply Z.eqb_refl|eauto].
Qed.

Lemma ends_with_spec s p : ends_with s p = true <-> exists t, s = t ++ p.
Proof.
  unfold ends_with. rewrite starts_with_spec. split.
  - intros [t H]. exists (rev t). rewrite <- (rev_involutive s), H, rev_app_distr, rev_involutive. reflexivity.
  - intros [t ->]. exists (rev t). apply rev_app_distr.
Qed.

Lemma str_contains_spec s p : str_contains s p = true <-> exists a b, s = a ++ p ++ b.
Proof.
  induction s as [|c s IH].
  - cbn [str_contains]. rewrite orb_false_r, starts_with_spec. split.
    + intros [t H]. exists [], t. exact H.
    + intros (a & b & H). destruct a; [exists b; exact H|discriminate].
  - cbn [str_contains]. rewrite orb_true_iff, starts_with_spec, IH. split.
    + intros [[t H]|(a & b & H)]; [exists [], t; exact H|exists (c :: a), b; rewrite H; reflexivity].
    + intros (a & b & H). destruct a as [|x a]; [left; exists b; exact H|right]. injection H as -> ->. eauto.
Qed.

(** join: the members separated by the glue *)
Definition intercalate (glue : str) (l : list str) : str :=
  match l with [] => [] | x :: r => x ++ flat_map (fun y => glue ++ y) r end.

Lemma join_strs_cons2 glue x y l : join_strs glue (x :: y :: l) = x ++ glue ++ join_strs glue (y :: l).
Proof. reflexivity. Qed.

Lemma join_strs_spec glue l : join_strs glue l = intercalate glue l.
Proof.
  destruct l as [|x l]; [reflexivity|]. revert x. induction l as [|y l IH]; intros x.
  - unfold intercalate. cbn. now rewrite app_nil_r.
  - rewrite join_strs_cons2, IH. unfold intercalate. cbn [flat_map]. now rewrite <- !app_assoc.
Qed.

Lemma strings_of_spec vs l : strings_of vs = Ok l <-> vs = map VStr l.
Proof.
  revert l; induction vs as [|v vs IH]; intros l; cbn [strings_of].
  - split; [intros E; injection E as <-; reflexivity|]. destruct l; [reflexivity|discriminate].
  - destruct v; try (split; [discriminate|destruct l; discriminate]).
    destruct (strings_of vs) as [l'| | | |] eqn:E; cbn [bind].
    + split.
      * intros H. injection H as <-. cbn. f_equal. now apply IH.
      * destruct l as [|x l]; [discriminate|]. cbn. intros H. injection H as -> H. apply IH in H. injection H as ->. reflexivity.
    + split; [discriminate|]. destruct l as [|x l]; [discriminate|]. cbn. intros H. injection H as _ H. apply IH in H. discriminate.
    + split; [discriminate|]. destruct l as [|x l]; [discriminate|]. cbn. intros H. injection H as _ H. apply IH in H. discriminate.
    + split; [discriminate|]. destruct l as [|x l]; [discriminate|]. cbn. intros H. injection H as _ H. apply IH in H. discriminate.
    + split; [discriminate|]. destruct l as [|x l]; [discriminate|]. cbn. intros H. injection H as _ H. apply IH in H. discriminate.
Qed.

Theorem join_spec ev sg glue l off : validate sg [VStr glue; VArr (map VStr l)] off = Ok tt ->
  call_builtin ev BJoin sg [VStr glue; VArr (map VStr l)] off = Ok (VStr (intercalate glue l), off).
Proof.
  intros Hv. unfold call_builtin. rewrite Hv. cbn [bind arg0 arg1].
  assert (strings_of (map VStr l) = Ok l) as -> by (apply strings_of_spec; reflexivity). cbn [bind]. unfold ret. now rewrite join_strs_spec.
Qed.

Theorem starts_with_fn_spec ev sg s p off : validate sg [VStr s; VStr p] off = Ok tt ->
  exists b, call_builtin ev BStartsWith sg [VStr s; VStr p] off = Ok (VBool b, off) /\ (b = true <-> exists t, s = p ++ t).
Proof. intros Hv. unfold call_builtin. rewrite Hv. cbn. eexists. split; [reflexivity|apply starts_with_spec]. Qed.

Theorem ends_with_fn_spec ev sg s p off : validate sg [VStr s; VStr p] off = Ok tt ->
  exists b, call_builtin ev BEndsWith sg [VStr s; VStr p] off = Ok (VBool b, off) /\ (b = true <-> exists t, s = t ++ p).
Proof. intros Hv. unfold call_builtin. rewrite Hv. cbn [bind arg0 arg1 ret]. eexists. split; [reflexivity|apply ends_with_spec]. Qed.

Theorem contains_string_spec ev sg s p off : validate sg [VStr s; VStr p] off = Ok tt ->
  exists b, call_builtin ev BContains sg [VStr s; VStr p] off = Ok (VBool b, off) /\ (b = true <-> exists a c, s = a ++ p ++ c).
Proof. intros Hv. unfold call_builtin. rewrite Hv. cbn [bind arg0 arg1 ret]. eexists. split; [reflexivity|apply str_contains_spec]. Qed.

Theorem contains_array_spec ev sg l x off : validate sg [VArr l; x] off = Ok tt ->
  exists b, call_builtin ev BContains sg [VArr l; x] off = Ok (VBool b, off) /\ (b = true <-> exists y, In y l /\ var_eq y x = true).
Proof. intros Hv. unfold call_builtin. rewrite Hv. cbn [bind arg0 arg1 ret]. eexists. split; [reflexivity|apply existsb_exists]. Qed.

(** not_null: the first argument that is not null, null when there is none *)
Lemma first_non_null_spec args :
  (exists pre v post, args = pre ++ v :: post /\ Forall (fun a => a = VNull) pre /\ v <> VNull /\ first_non_null args = v) \/
  (Forall (fun a => a = VNull) args /\ first_non_null args = VNull).
Proof.
  induction args as [|a args IH]; [right; split; [constructor|reflexivity]|]. cbn [first_non_null].
  destruct a; cbn [is_null]; try (left; eexists [], _, args; repeat split; [constructor|discriminate]).
  destruct IH as [(pre & v & post & -> & H1 & H2 & H3)|[H1 H2]].
  - left. exists (VNull :: pre), v, post. repeat split; [constructor; [reflexivity|exact H1]|exact H2|exact H3].
  - right. split; [constructor; [reflexivity|exact H1]|exact H2].
Qed.

Theorem not_null_spec ev sg args off : validate sg args off = Ok tt ->
  call_builtin ev BNotNull sg args off = Ok (first_non_null args, off).
Proof. intros Hv. unfold call_builtin. rewrite Hv. reflexivity. Qed.

Theorem to_array_spec ev sg a off : validate sg [a] off = Ok tt ->
  call_builtin ev BToArray sg [a] off = Ok (match a with VArr _ => a | _ => VArr [a] end, off).
Proof. intros Hv. unfold call_builtin. rewrite Hv. cbn [bind arg0]. destruct a; reflexivity. Qed.

Theorem type_spec ev sg a off : validate sg [a] off = Ok tt ->
  call_builtin ev BType sg [a] off = Ok (VStr (type_name (get_type a)), off).
Proof. intros Hv. unfold call_builtin. rewrite Hv. reflexivity. Qed.

Theorem to_string_of_string ev sg s off : validate sg [VStr s] off = Ok tt ->
  call_builtin ev BToString sg [VStr s] off = Ok (VStr s, off).
Proof. intros Hv. unfold call_builtin. rewrite Hv. reflexivity. Qed.
