(** C09/C03: soundness of the lexer — in every expression that lexes, every token
    stands at the byte offset of a lexeme that spells exactly that token:
    punctuation and operators are their own text, an identifier is its
    characters, a number the value of its digits, a quoted identifier the string
    its JSON spelling denotes, a raw-string literal its text with only the
    quote unescaped, a backtick literal the JSON value of its text with only
    the backtick unescaped. *)
From Coq Require Import ZifyBool.
From JP Require Import Base F64 Value JsonRead Lexer Proofs.LexProof Proofs.PosProof.

Definition spell_ok (t : token) (mid : str) : Prop :=
  match t with
  | TDot => mid = [46] | TStar => mid = [42] | TFlatten => mid = [91; 93] | TFilter => mid = [91; 63] | TLbracket => mid = [91]
  | TRbracket => mid = [93] | TOr => mid = [124; 124] | TPipe => mid = [124] | TAt => mid = [64] | TLbrace => mid = [123] | TRbrace => mid = [125]
  | TAnd => mid = [38; 38] | TAmpersand => mid = [38] | TLparen => mid = [40] | TRparen => mid = [41] | TComma => mid = [44] | TColon => mid = [58]
  | TEq => mid = [61; 61] | TGte => mid = [62; 61] | TGt => mid = [62] | TLte => mid = [60; 61] | TLt => mid = [60] | TNe => mid = [33; 61] | TNot => mid = [33]
  | TIdentifier s => mid = s /\ exists c rest, s = c :: rest /\ is_alpha_ c = true /\ Forall (fun x => is_ident_char x = true) rest
  | TNumber v =>
      (exists ds, mid = ds /\ ds <> [] /\ Forall (fun x => is_digit x = true) ds /\ v = digits_value ds 0 /\ v <= i32_max) \/
      (exists c ds, mid = 45 :: c :: ds /\ 49 <= c <= 57 /\ Forall (fun x => is_digit x = true) ds /\ v = - digits_value (c :: ds) 0 /\ - v <= i32_max)
  | TQuotedIdentifier k => exists body, mid = 34 :: body ++ [34] /\ from_json mid = Ok (Some (VStr k))
  | TLiteral v =>
      (exists body, mid = 39 :: body ++ [39] /\ v = VStr (unescape 39 body)) \/
      (exists body, mid = 96 :: body ++ [96] /\ from_json (unescape 96 body) = Ok (Some v))
  | TEof => mid = []
  end.

Definition lexeme (whole : str) (x : Z * token) : Prop :=
  exists pre mid suf, whole = pre ++ mid ++ suf /\ fst x = byte_len pre /\ spell_ok (snd x) mid.

Lemma consume_inside_body : forall fuel w s buf n b r m,
  consume_inside fuel w s buf n = Some (b, r, m) -> exists body, s = body ++ w :: r /\ b = rev buf ++ body.
Proof.
  induction fuel as [|fu IH]; intros w s buf n b r m; cbn [consume_inside]; [discriminate|].
  destruct s as [|c t]; [discriminate|].
  destruct (c =? w) eqn:Ew.
  - intros E. injection E as <- <- _. assert (c = w) as -> by lia. exists []. split; [reflexivity|]. rewrite rev_append_rev, !app_nil_r. reflexivity.
  - destruct (c =? 92) eqn:E92.
    + destruct t as [|c2 t2]; intros E; apply IH in E as (body & -> & ->).
      * exists (c :: body). split; [reflexivity|]. cbn [rev]. now rewrite <- app_assoc.
      * exists (c :: c2 :: body). split; [reflexivity|]. cbn [rev]. now rewrite <- !app_assoc.
    + intros E; apply IH in E as (body & -> & ->). exists (c :: body). split; [reflexivity|]. cbn [rev]. now rewrite <- app_assoc.
Qed.

Definition GL (whole : str) (r : res (list (Z * token))) : Prop :=
  match r with Ok tl => Forall (lexeme whole) tl | _ => True end.

Lemma GL_json_bind whole x (k : option value -> res (list (Z * token))) :
  (forall o, from_json x = Ok o -> GL whole (k o)) -> GL whole (bind (no_err_j (from_json x)) k).
Proof. intros H. destruct (from_json x) eqn:E; cbn [no_err_j bind]; try exact I. apply H. reflexivity. Qed.

Section LexSound.
  Variable whole : str.
  Variable f : nat.
  Hypothesis IH : forall s pos acc pre, whole = pre ++ s -> pos = byte_len pre -> Forall (lexeme whole) acc -> GL whole (lex_go f s pos acc).

  Lemma srec_tok s pos acc pre s' pos' t : whole = pre ++ s -> pos = byte_len pre -> Forall (lexeme whole) acc ->
    (exists cons, s = cons ++ s' /\ pos' = pos + byte_len cons /\ spell_ok t cons) -> GL whole (lex_go f s' pos' ((pos, t) :: acc)).
  Proof.
    intros Hw Hp Ha (cons & Hs & Hp' & Hsp). apply (IH s' pos' _ (pre ++ cons)).
    - rewrite Hw, Hs, app_assoc. reflexivity.
    - rewrite byte_len_app. lia.
    - constructor; [|exact Ha]. exists pre, cons, s'. split; [rewrite Hw, Hs; reflexivity|]. split; [exact Hp|exact Hsp].
  Qed.

  Lemma srec_ws s pos acc pre s' pos' : whole = pre ++ s -> pos = byte_len pre -> Forall (lexeme whole) acc ->
    (exists cons, s = cons ++ s' /\ pos' = pos + byte_len cons) -> GL whole (lex_go f s' pos' acc).
  Proof.
    intros Hw Hp Ha (cons & Hs & Hp'). apply (IH s' pos' _ (pre ++ cons)).
    - rewrite Hw, Hs, app_assoc. reflexivity.
    - rewrite byte_len_app. lia.
    - exact Ha.
  Qed.
End LexSound.

Lemma consume_inside_full fuel w s b r m : w < 128 -> consume_inside fuel w s [] 0 = Some (b, r, m) -> s = b ++ w :: r /\ m = byte_len b + 1.
Proof.
  intros Hw H. pose proof (consume_inside_body _ _ _ _ _ _ _ _ H) as (body & Hs & Hb). pose proof (consume_inside_spec _ _ _ _ _ _ _ _ H) as (cons & Hc & Hm).
  cbn [rev app] in Hb. subst b. split; [exact Hs|]. rewrite Hs in Hc. replace (body ++ w :: r) with ((body ++ [w]) ++ r) in Hc by (rewrite <- app_assoc; reflexivity).
  apply app_inv_tail in Hc. subst cons. rewrite byte_len_app in Hm. cbn [byte_len] in Hm. rewrite (utf8_ascii w Hw) in Hm. lia.
Qed.

Ltac spell_tac :=
  cbn [spell_ok];
  first [ reflexivity
        | (split; [reflexivity|]; eexists _, _; split; [reflexivity|]; split; assumption)
        | (left; eexists; split; [reflexivity|]; split; [discriminate|]; split; [constructor; assumption|]; split; [reflexivity|lia])
        | (right; eexists _, _; split; [reflexivity|]; split; [lia|]; split; [assumption|]; split; [reflexivity|lia])
        | (eexists; split; [reflexivity|assumption])
        | (left; eexists; split; [reflexivity|reflexivity])
        | (right; eexists; split; [reflexivity|assumption]) ].

Ltac leaf_sp :=
  match goal with
  | |- exists cons, ?c :: ?r = cons ++ ?rest /\ _ = _ + byte_len cons /\ spell_ok _ cons =>
      first
        [ exists [c]; split; [reflexivity|split; [cbn [byte_len]; rewrite (utf8_ascii c) by asc; lia|spell_tac]]
        | match r with
          | ?c2 :: ?r2 =>
              first
                [ exists [c; c2]; split; [reflexivity|split; [cbn [byte_len]; rewrite ?(utf8_ascii c), ?(utf8_ascii c2) by asc; lia|spell_tac]]
                | match goal with
                  | H : r2 = ?ds ++ rest, Hf : Forall (fun c => c < 128) ?ds |- _ =>
                      exists (c :: c2 :: ds); split; [cbn [app]; rewrite <- H; reflexivity|];
                      split; [cbn [byte_len]; rewrite ?(utf8_ascii c), ?(utf8_ascii c2), (byte_len_ascii ds) by (try asc; exact Hf); lia|spell_tac]
                  end ]
          end
        | match goal with
          | H : r = ?ds ++ rest, Hf : Forall (fun c => c < 128) ?ds |- _ =>
              exists (c :: ds); split; [cbn [app]; rewrite <- H; reflexivity|];
              split; [cbn [byte_len]; rewrite (utf8_ascii c), (byte_len_ascii ds) by (try asc; exact Hf); lia|spell_tac]
          end
        | match goal with
          | H : r = ?b ++ ?w :: rest, Hn : ?n = byte_len ?b + 1 |- _ =>
              exists (c :: b ++ [w]); split; [cbn [app]; rewrite <- app_assoc; cbn [app]; rewrite <- H; reflexivity|];
              split; [cbn [byte_len]; rewrite byte_len_app; cbn [byte_len]; rewrite ?(utf8_ascii c), ?(utf8_ascii w) by asc; lia|spell_tac]
          end ]
  end.

Lemma lex_go_sound whole : forall f s pos acc pre, whole = pre ++ s -> pos = byte_len pre -> Forall (lexeme whole) acc ->
  GL whole (lex_go f s pos acc).
Proof.
  induction f as [|f IH]; intros s pos acc pre Hw Hp Ha; [exact I|].
  destruct s as [|c r].
  - cbn [lex_go GL]. apply Forall_rev_append; [|constructor]. constructor; [|exact Ha]. exists pre, [], []. split; [rewrite Hw; reflexivity|]. split; [exact Hp|reflexivity].
  - cbn [lex_go].
    destruct (take_while is_ident_char r) as [rid r1] eqn:T1. apply take_while_spec in T1 as [T1 F1i]. pose proof (ident_ascii _ F1i) as F1.
    destruct (take_while is_digit r) as [ds r2'] eqn:T2. apply take_while_spec in T2 as [T2 F2i]. pose proof (digit_ascii _ F2i) as F2.
    destruct (consume_inside (S (length r)) 34 r [] 0) as [[[b1 q1] n1]|] eqn:E1; [apply consume_inside_full in E1 as [E1 N1]; [|lia]|].
    all: destruct (consume_inside (S (length r)) 39 r [] 0) as [[[b2 q2] n2]|] eqn:E2; [apply consume_inside_full in E2 as [E2 N2]; [|lia]|].
    all: destruct (consume_inside (S (length r)) 96 r [] 0) as [[[b3 q3] n3]|] eqn:E3; [apply consume_inside_full in E3 as [E3 N3]; [|lia]|].
    all: destruct r as [|c2 t2].
    all: try (destruct (take_while is_digit t2) as [ds2 r4] eqn:T4; apply take_while_spec in T4 as [T4 F4i]; pose proof (digit_ascii _ F4i) as F4).
    all: repeat match goal with
                | |- GL _ (if ?b then _ else _) => let E := fresh "B" in destruct b eqn:E
                | |- GL _ (match ?x with _ => _ end) => destruct x
                | |- GL _ (bind (no_err_j (from_json _)) _) => apply GL_json_bind; let o := fresh "o" in let Hj := fresh "Hj" in intros o Hj
                | |- GL _ (lex_err _) => exact I
                | |- GL _ (lex_go _ _ _ ((_, _) :: _)) =>
                    repeat match goal with H : (?x =? ?n) = true |- _ => apply Z.eqb_eq in H; subst x end;
                    apply (srec_tok whole f IH _ pos acc pre _ _ _ Hw Hp Ha); leaf_sp
                | |- GL _ (lex_go _ _ _ _) => apply (srec_ws whole f IH _ pos acc pre _ _ Hw Hp Ha); leaf_ex
                end.
Qed.

(** Every token of a lexed expression stands at the offset of a lexeme that spells it. *)
Theorem tokenize_sound s tl : tokenize s = Ok tl -> Forall (lexeme s) tl.
Proof. unfold tokenize. intros H. pose proof (lex_go_sound s (S (length s)) s 0 [] [] eq_refl eq_refl (Forall_nil _)) as G. rewrite H in G. exact G. Qed.

(* ---------- the token list is a segmentation of the whole expression ---------- *)
Definition is_space (c : Z) : bool := (c =? 32) || (c =? 10) || (c =? 9) || (c =? 13).

(** [covers toks pre]: [pre] is the concatenation, in order, of lexemes spelling the tokens
    [toks] (most recent first, each recorded at the byte offset where its lexeme starts) and of
    white space between them. *)
Inductive covers : list (Z * token) -> str -> Prop :=
| cov_nil : covers [] []
| cov_ws acc pre c : covers acc pre -> is_space c = true -> covers acc (pre ++ [c])
| cov_tok acc pre t mid : covers acc pre -> spell_ok t mid -> covers ((byte_len pre, t) :: acc) (pre ++ mid).

Definition GC (whole : str) (r : res (list (Z * token))) : Prop :=
  match r with Ok tl => exists body, tl = rev body ++ [(byte_len whole, TEof)] /\ covers body whole | _ => True end.

Lemma GC_json_bind whole x (k : option value -> res (list (Z * token))) :
  (forall o, from_json x = Ok o -> GC whole (k o)) -> GC whole (bind (no_err_j (from_json x)) k).
Proof. intros H. destruct (from_json x) eqn:E; cbn [no_err_j bind]; try exact I. apply H. reflexivity. Qed.

Section LexCover.
  Variable whole : str.
  Variable f : nat.
  Hypothesis IH : forall s pos acc pre, whole = pre ++ s -> pos = byte_len pre -> covers acc pre -> GC whole (lex_go f s pos acc).

  Lemma crec_tok s pos acc pre s' pos' t : whole = pre ++ s -> pos = byte_len pre -> covers acc pre ->
    (exists cons, s = cons ++ s' /\ pos' = pos + byte_len cons /\ spell_ok t cons) -> GC whole (lex_go f s' pos' ((pos, t) :: acc)).
  Proof.
    intros Hw Hp Ha (cons & Hs & Hp' & Hsp). apply (IH s' pos' _ (pre ++ cons)).
    - rewrite Hw, Hs, app_assoc. reflexivity.
    - rewrite byte_len_app. lia.
    - rewrite Hp. apply cov_tok; assumption.
  Qed.

  Lemma crec_ws c s' pos acc pre : whole = pre ++ c :: s' -> pos = byte_len pre -> covers acc pre -> is_space c = true ->
    GC whole (lex_go f s' (pos + 1) acc).
  Proof.
    intros Hw Hp Ha Hc. apply (IH s' (pos + 1) _ (pre ++ [c])).
    - rewrite Hw, <- app_assoc. reflexivity.
    - rewrite byte_len_app. cbn [byte_len]. rewrite (utf8_ascii c) by (unfold is_space in Hc; lia). lia.
    - apply cov_ws; assumption.
  Qed.
End LexCover.

Lemma lex_go_covers whole : forall f s pos acc pre, whole = pre ++ s -> pos = byte_len pre -> covers acc pre -> GC whole (lex_go f s pos acc).
Proof.
  induction f as [|f IH]; intros s pos acc pre Hw Hp Ha; [exact I|].
  destruct s as [|c r].
  - cbn [lex_go GC]. exists acc. rewrite app_nil_r in Hw. subst pre. split; [rewrite rev_append_rev; cbn [rev]; rewrite app_nil_r, Hp; reflexivity|exact Ha].
  - cbn [lex_go].
    destruct (take_while is_ident_char r) as [rid r1] eqn:T1. apply take_while_spec in T1 as [T1 F1i]. pose proof (ident_ascii _ F1i) as F1.
    destruct (take_while is_digit r) as [ds r2'] eqn:T2. apply take_while_spec in T2 as [T2 F2i]. pose proof (digit_ascii _ F2i) as F2.
    destruct (consume_inside (S (length r)) 34 r [] 0) as [[[b1 q1] n1]|] eqn:E1; [apply consume_inside_full in E1 as [E1 N1]; [|lia]|].
    all: destruct (consume_inside (S (length r)) 39 r [] 0) as [[[b2 q2] n2]|] eqn:E2; [apply consume_inside_full in E2 as [E2 N2]; [|lia]|].
    all: destruct (consume_inside (S (length r)) 96 r [] 0) as [[[b3 q3] n3]|] eqn:E3; [apply consume_inside_full in E3 as [E3 N3]; [|lia]|].
    all: destruct r as [|c2 t2].
    all: try (destruct (take_while is_digit t2) as [ds2 r4] eqn:T4; apply take_while_spec in T4 as [T4 F4i]; pose proof (digit_ascii _ F4i) as F4).
    all: repeat match goal with
                | |- GC _ (if ?b then _ else _) => let E := fresh "B" in destruct b eqn:E
                | |- GC _ (match ?x with _ => _ end) => destruct x
                | |- GC _ (bind (no_err_j (from_json _)) _) => apply GC_json_bind; let o := fresh "o" in let Hj := fresh "Hj" in intros o Hj
                | |- GC _ (lex_err _) => exact I
                | |- GC _ (lex_go _ _ _ ((_, _) :: _)) =>
                    repeat match goal with H : (?x =? ?n) = true |- _ => apply Z.eqb_eq in H; subst x end;
                    apply (crec_tok whole f IH _ pos acc pre _ _ _ Hw Hp Ha); leaf_sp
                | |- GC _ (lex_go _ _ (_ + 1) _) => apply (crec_ws whole f IH _ _ pos acc pre Hw Hp Ha); unfold is_space; assumption
                end.
Qed.

(** The token list of a lexed expression is exactly a segmentation of the expression into
    lexemes, each spelling its token and recorded at its byte offset, and white space,
    followed by the end-of-input token at the length of the expression. *)
Theorem tokenize_segments s tl : tokenize s = Ok tl -> exists body, tl = rev body ++ [(byte_len s, TEof)] /\ covers body s.
Proof. unfold tokenize. intros H. pose proof (lex_go_covers s (S (length s)) s 0 [] [] eq_refl eq_refl cov_nil) as G. rewrite H in G. exact G. Qed.
