(** C02: [Ord for Variable] is a total preorder on arrays of strings and on
    arrays of numbers (no NaN) — the instances of the premises of the sorting
    theorems that the signatures of sort / sort_by / max / min enforce. *)
From Coq Require Import Floats.SpecFloat Sorting.Sorted Sorting.Permutation.
From JP Require Import Base F64 Value Functions Proofs.FunProof.

Definition not_nan (f : f64) : bool := match f with S754_nan => false | _ => true end.

Lemma pcompare_eq_refl m : Pos.compare_cont Eq m m = Eq.
Proof. apply Pos.compare_cont_refl. Qed.

(** the order [SFcompare] decides on non-NaN floats, as a rank into Z x Z x Z compared lexicographically *)
Definition le_cmp (c : option comparison) : Prop := match c with Some Gt => False | Some _ => True | None => False end.

Ltac zspec :=
  repeat match goal with
         | H : context [Z.compare ?a ?b] |- _ => destruct (Z.compare_spec a b)
         | |- context [Z.compare ?a ?b] => destruct (Z.compare_spec a b)
         | H : context [Pos.compare_cont Eq ?a ?b] |- _ => change (Pos.compare_cont Eq a b) with (Pos.compare a b) in H; destruct (Pos.compare_spec a b)
         | |- context [Pos.compare_cont Eq ?a ?b] => change (Pos.compare_cont Eq a b) with (Pos.compare a b); destruct (Pos.compare_spec a b)
         end.

Lemma fcompare_total a b : not_nan a = true -> not_nan b = true ->
  exists c, fcompare a b = Some c /\ fcompare b a = Some (CompOpp c).
Proof.
  unfold fcompare. destruct a as [sa|sa| |sa ma ea], b as [sb|sb| |sb mb eb]; cbn [not_nan SFcompare]; intros Ha Hb; try discriminate;
    try (destruct sa; eexists; split; reflexivity); try (destruct sb; eexists; split; reflexivity);
    try (destruct sa, sb; eexists; split; reflexivity).
  destruct sa, sb; try (eexists; split; reflexivity).
  - rewrite (Z.compare_antisym ea eb). destruct (ea ?= eb) eqn:E; cbn [CompOpp]; try (eexists; split; reflexivity).
    change (Pos.compare_cont Eq ma mb) with (Pos.compare ma mb). change (Pos.compare_cont Eq mb ma) with (Pos.compare mb ma).
    rewrite (Pos.compare_antisym ma mb). eexists; split; [reflexivity|]. destruct (ma ?= mb)%positive; reflexivity.
  - rewrite (Z.compare_antisym ea eb). destruct (ea ?= eb) eqn:E; cbn [CompOpp]; try (eexists; split; reflexivity).
    change (Pos.compare_cont Eq ma mb) with (Pos.compare ma mb). change (Pos.compare_cont Eq mb ma) with (Pos.compare mb ma).
    rewrite (Pos.compare_antisym ma mb). eexists; split; [reflexivity|]. destruct (ma ?= mb)%positive; reflexivity.
Qed.

Lemma fcompare_le_trans a b c : not_nan a = true -> not_nan b = true -> not_nan c = true ->
  le_cmp (fcompare a b) -> le_cmp (fcompare b c) -> le_cmp (fcompare a c).
Proof.
  unfold fcompare, le_cmp.
  destruct a as [sa|sa| |sa ma ea], b as [sb|sb| |sb mb eb], c as [sc|sc| |sc mc ec]; cbn [not_nan SFcompare];
    intros Ha Hb Hc; try discriminate;
    repeat match goal with s : bool |- _ => destruct s end; cbn; try tauto;
    intros H1 H2; zspec; subst; cbn in *; try tauto; try lia.
Qed.

(* ---------- the sorting theorems under premises that hold on the members only ---------- *)
Section SortOn.
  Context {A : Type} (ok : A -> bool) (cmp : A -> A -> comparison).
  Hypothesis total_on : forall x y, ok x = true -> ok y = true -> cmp x y = Gt -> cmp y x <> Gt.
  Hypothesis trans_on : forall x y z, ok x = true -> ok y = true -> ok z = true -> le cmp x y -> le cmp y z -> le cmp x z.
  Hypothesis compat_on : forall k x y, ok k = true -> ok x = true -> ok y = true ->
    equiv_to cmp k x = true -> cmp x y = cmp k y /\ cmp y x = cmp y k.

  (** the same comparator, made total by ranking everything else below, as one class *)
  Definition cmp_on (a b : A) : comparison :=
    match ok a, ok b with
    | true, true => cmp a b
    | false, false => Eq
    | false, true => Lt
    | true, false => Gt
    end.

  Lemma insert_on x l : ok x = true -> Forall (fun y => ok y = true) l -> insert_sorted cmp_on x l = insert_sorted cmp x l.
  Proof.
    intros Hx. induction 1 as [|y l Hy Hl IH]; [reflexivity|]. cbn [insert_sorted]. unfold cmp_on at 1. rewrite Hx, Hy.
    destruct (cmp x y); try reflexivity. now rewrite IH.
  Qed.

  Lemma sort_on l : Forall (fun y => ok y = true) l -> stable_sort cmp_on l = stable_sort cmp l /\ Forall (fun y => ok y = true) (stable_sort cmp l).
  Proof.
    induction 1 as [|x l Hx Hl [IH1 IH2]]; [split; [reflexivity|constructor]|]. cbn [stable_sort fold_right].
    fold (stable_sort cmp_on l). fold (stable_sort cmp l). rewrite IH1. split; [apply insert_on; assumption|].
    eapply Permutation_Forall; [apply insert_perm|]. constructor; assumption.
  Qed.

  Lemma cmp_on_total x y : cmp_on x y = Gt -> cmp_on y x <> Gt.
  Proof. unfold cmp_on. destruct (ok x) eqn:Ex, (ok y) eqn:Ey; try discriminate; auto. Qed.

  Lemma cmp_on_trans x y z : le cmp_on x y -> le cmp_on y z -> le cmp_on x z.
  Proof.
    unfold le, cmp_on. destruct (ok x) eqn:Ex, (ok y) eqn:Ey, (ok z) eqn:Ez; try congruence; try discriminate.
    apply trans_on; assumption.
  Qed.

  Lemma cmp_on_compat k x y : equiv_to cmp_on k x = true -> cmp_on x y = cmp_on k y /\ cmp_on y x = cmp_on y k.
  Proof.
    unfold equiv_to, cmp_on. destruct (ok k) eqn:Ek, (ok x) eqn:Ex, (ok y) eqn:Ey; try discriminate; auto;
      try (intros H; apply compat_on; assumption).
  Qed.

  Lemma sorted_transfer l : Forall (fun y => ok y = true) l -> StronglySorted (le cmp_on) l -> StronglySorted (le cmp) l.
  Proof.
    intros Hok Hs. induction Hs as [|x l Hs IH Hall]; [constructor|]. inversion Hok as [|? ? Hx Hl]; subst.
    constructor; [apply IH; exact Hl|]. rewrite Forall_forall in *. intros y Hy. specialize (Hall y Hy). specialize (Hl y Hy).
    unfold le, cmp_on in *. now rewrite Hx, Hl in Hall.
  Qed.

  Theorem stable_sort_sorted_on l : Forall (fun y => ok y = true) l -> StronglySorted (le cmp) (stable_sort cmp l).
  Proof.
    intros H. destruct (sort_on l H) as [E Hok]. apply sorted_transfer; [exact Hok|]. rewrite <- E.
    apply stable_sort_sorted; [exact cmp_on_total|exact cmp_on_trans].
  Qed.

  Theorem stable_sort_stable_on k l : ok k = true -> Forall (fun y => ok y = true) l ->
    filter (equiv_to cmp k) (stable_sort cmp l) = filter (equiv_to cmp k) l.
  Proof.
    intros Hk H. destruct (sort_on l H) as [E Hok].
    assert (Hext : forall l', Forall (fun y => ok y = true) l' -> filter (equiv_to cmp k) l' = filter (equiv_to cmp_on k) l').
    { intros l' Hl'. apply filter_ext_in. intros a Ha. rewrite Forall_forall in Hl'. specialize (Hl' a Ha).
      unfold equiv_to, cmp_on. now rewrite Hk, Hl'. }
    rewrite (Hext _ Hok), (Hext _ H), <- E.
    apply stable_sort_stable; [exact cmp_on_total|exact cmp_on_trans|exact cmp_on_compat].
  Qed.
End SortOn.

(* ---------- the two instances ---------- *)
Definition is_num_ok (v : value) : bool := match v with VNum n => not_nan (as_f64 n) | _ => false end.
Definition is_str (v : value) : bool := match v with VStr _ => true | _ => false end.

Lemma fcompare_eq_congr a b c : not_nan a = true -> not_nan b = true -> not_nan c = true ->
  fcompare a b = Some Eq -> fcompare a c = fcompare b c /\ fcompare c a = fcompare c b.
Proof.
  unfold fcompare.
  destruct a as [sa|sa| |sa ma ea], b as [sb|sb| |sb mb eb], c as [sc|sc| |sc mc ec]; cbn [not_nan SFcompare];
    intros Ha Hb Hc; try discriminate;
    repeat match goal with s : bool |- _ => destruct s end; cbn; try discriminate; auto;
    intros H1; zspec; subst; try discriminate; auto; try (exfalso; lia).
Qed.

Lemma num_total x y : is_num_ok x = true -> is_num_ok y = true -> var_cmp x y = Gt -> var_cmp y x <> Gt.
Proof.
  destruct x as [| | |n| | |], y as [| | |m| | |]; cbn [is_num_ok]; try discriminate. intros Hx Hy. cbn [var_cmp].
  destruct (fcompare_total _ _ Hx Hy) as (c & -> & ->). destruct c; cbn; congruence.
Qed.

Lemma num_trans x y z : is_num_ok x = true -> is_num_ok y = true -> is_num_ok z = true ->
  le var_cmp x y -> le var_cmp y z -> le var_cmp x z.
Proof.
  destruct x as [| | |n| | |], y as [| | |m| | |], z as [| | |p| | |]; cbn [is_num_ok]; try discriminate. intros Hx Hy Hz.
  unfold le. cbn [var_cmp]. pose proof (fcompare_le_trans _ _ _ Hx Hy Hz) as T.
  destruct (fcompare_total _ _ Hx Hy) as (c1 & E1 & _), (fcompare_total _ _ Hy Hz) as (c2 & E2 & _), (fcompare_total _ _ Hx Hz) as (c3 & E3 & _).
  rewrite E1, E2, E3 in *. cbn [le_cmp] in T. intros H1 H2. destruct c1, c2, c3; try congruence; exfalso; apply T; exact I.
Qed.

Lemma num_compat k x y : is_num_ok k = true -> is_num_ok x = true -> is_num_ok y = true ->
  equiv_to var_cmp k x = true -> var_cmp x y = var_cmp k y /\ var_cmp y x = var_cmp y k.
Proof.
  destruct k as [| | |q| | |], x as [| | |n| | |], y as [| | |m| | |]; cbn [is_num_ok]; try discriminate. intros Hk Hx Hy.
  unfold equiv_to. cbn [var_cmp]. destruct (fcompare_total _ _ Hx Hk) as (c & E1 & E2). rewrite E1, E2.
  destruct c; cbn [CompOpp]; try discriminate. intros _.
  destruct (fcompare_eq_congr _ _ _ Hx Hk Hy E1) as [-> ->]. auto.
Qed.

Lemma str_cmp_gt_lt a b : str_cmp a b = Gt <-> str_cmp b a = Lt.
Proof. rewrite (str_cmp_antisym a b). destruct (str_cmp a b); cbn; split; congruence. Qed.

Lemma str_total x y : is_str x = true -> is_str y = true -> var_cmp x y = Gt -> var_cmp y x <> Gt.
Proof.
  destruct x as [|s1| | | | |]; cbn [is_str]; try discriminate. destruct y as [|s2| | | | |]; cbn [is_str]; try discriminate.
  intros _ _. cbn [var_cmp]. intros H. apply str_cmp_gt_lt in H. congruence.
Qed.

Lemma str_trans x y z : is_str x = true -> is_str y = true -> is_str z = true ->
  le var_cmp x y -> le var_cmp y z -> le var_cmp x z.
Proof.
  destruct x as [|s1| | | | |]; cbn [is_str]; try discriminate.
  destruct y as [|s2| | | | |]; cbn [is_str]; try discriminate.
  destruct z as [|s3| | | | |]; cbn [is_str]; try discriminate. intros _ _ _.
  unfold le. cbn [var_cmp]. intros H1 H2 H3. apply str_cmp_gt_lt in H3.
  destruct (str_cmp s1 s2) eqn:E1; [|clear H1|congruence].
  - apply str_cmp_eq in E1. subst s2. apply str_cmp_gt_lt in H3. congruence.
  - destruct (str_cmp s2 s3) eqn:E2; [|clear H2|congruence].
    + apply str_cmp_eq in E2. subst s3. apply str_cmp_gt_lt in H3. congruence.
    + pose proof (str_cmp_lt_trans _ _ _ H3 E1) as H4. pose proof (str_cmp_lt_trans _ _ _ H4 E2) as H5.
      assert (str_cmp s3 s3 = Eq) by (apply str_cmp_eq; reflexivity). congruence.
Qed.

Lemma str_compat k x y : is_str k = true -> is_str x = true -> is_str y = true ->
  equiv_to var_cmp k x = true -> var_cmp x y = var_cmp k y /\ var_cmp y x = var_cmp y k.
Proof.
  destruct k as [|s0| | | | |]; cbn [is_str]; try discriminate.
  destruct x as [|s1| | | | |]; cbn [is_str]; try discriminate.
  destruct y as [|s2| | | | |]; cbn [is_str]; try discriminate. intros _ _ _.
  unfold equiv_to. cbn [var_cmp]. destruct (str_cmp s1 s0) eqn:E; try discriminate. apply str_cmp_eq in E. subst. auto.
Qed.

(** sort on an array of numbers (no NaN: every JSON number) or of strings — what
    the signature admits — is ascending in [Ord for Variable] and stable. *)
Theorem sort_numbers_ascending l : forallb is_num_ok l = true -> StronglySorted (le var_cmp) (stable_sort var_cmp l).
Proof. intros H. apply (stable_sort_sorted_on is_num_ok var_cmp num_total num_trans). now apply forallb_forall, Forall_forall in H || (rewrite forallb_forall in H; apply Forall_forall; exact H). Qed.

Theorem sort_strings_ascending l : forallb is_str l = true -> StronglySorted (le var_cmp) (stable_sort var_cmp l).
Proof. intros H. apply (stable_sort_sorted_on is_str var_cmp str_total str_trans). rewrite forallb_forall in H. apply Forall_forall. exact H. Qed.

Theorem sort_numbers_stable k l : is_num_ok k = true -> forallb is_num_ok l = true ->
  filter (equiv_to var_cmp k) (stable_sort var_cmp l) = filter (equiv_to var_cmp k) l.
Proof. intros Hk H. apply (stable_sort_stable_on is_num_ok var_cmp num_total num_trans num_compat); [exact Hk|]. rewrite forallb_forall in H. apply Forall_forall. exact H. Qed.

Theorem sort_strings_stable k l : is_str k = true -> forallb is_str l = true ->
  filter (equiv_to var_cmp k) (stable_sort var_cmp l) = filter (equiv_to var_cmp k) l.
Proof. intros Hk H. apply (stable_sort_stable_on is_str var_cmp str_total str_trans str_compat); [exact Hk|]. rewrite forallb_forall in H. apply Forall_forall. exact H. Qed.

(* ---------- max / min ---------- *)
Section Extremes.
  Context {A : Type} (ok : A -> bool) (cmp : A -> A -> comparison).
  Hypothesis total_on : forall x y, ok x = true -> ok y = true -> cmp x y = Gt -> cmp y x <> Gt.
  Hypothesis trans_on : forall x y z, ok x = true -> ok y = true -> ok z = true -> le cmp x y -> le cmp y z -> le cmp x z.

  Lemma le_refl_on x : ok x = true -> le cmp x x.
  Proof. intros Hx H. exact (total_on x x Hx Hx H H). Qed.

  Lemma fold_max_spec : forall xs x, ok x = true -> Forall (fun y => ok y = true) xs ->
    let r := fold_left (fun a b => match cmp a b with Gt => a | _ => b end) xs x in
    In r (x :: xs) /\ ok r = true /\ forall y, In y (x :: xs) -> le cmp y r.
  Proof.
    induction xs as [|b xs IH]; intros x Hx Hxs; cbn [fold_left].
    - split; [left; reflexivity|]. split; [exact Hx|]. intros y [<-|[]]. now apply le_refl_on.
    - inversion Hxs as [|? ? Hb Hxs']; subst.
      set (acc := match cmp x b with Gt => x | _ => b end).
      assert (Hacc : ok acc = true) by (unfold acc; destruct (cmp x b); assumption).
      destruct (IH acc Hacc Hxs') as (Hin & Hok & Hle). fold acc.
      assert (Hx_acc : le cmp x acc /\ le cmp b acc).
      { unfold acc. destruct (cmp x b) eqn:E.
        - split; [unfold le; congruence|now apply le_refl_on].
        - split; [unfold le; congruence|now apply le_refl_on].
        - split; [now apply le_refl_on|apply total_on; assumption]. }
      destruct Hx_acc as [H1 H2]. pose proof (Hle acc (or_introl eq_refl)) as Hacc_r.
      split; [|split; [exact Hok|]].
      + destruct Hin as [<-|Hin]; [|right; right; exact Hin]. unfold acc. destruct (cmp x b); [right; left|right; left|left]; reflexivity.
      + intros y [<-|[<-|Hy]].
        * eapply trans_on; [exact Hx|exact Hacc|exact Hok|exact H1|exact Hacc_r].
        * eapply trans_on; [exact Hb|exact Hacc|exact Hok|exact H2|exact Hacc_r].
        * apply Hle. right. exact Hy.
  Qed.

  Lemma fold_min_spec : forall xs x, ok x = true -> Forall (fun y => ok y = true) xs ->
    let r := fold_left (fun a b => match cmp a b with Gt => b | _ => a end) xs x in
    In r (x :: xs) /\ ok r = true /\ forall y, In y (x :: xs) -> le cmp r y.
  Proof.
    induction xs as [|b xs IH]; intros x Hx Hxs; cbn [fold_left].
    - split; [left; reflexivity|]. split; [exact Hx|]. intros y [<-|[]]. now apply le_refl_on.
    - inversion Hxs as [|? ? Hb Hxs']; subst.
      set (acc := match cmp x b with Gt => b | _ => x end).
      assert (Hacc : ok acc = true) by (unfold acc; destruct (cmp x b); assumption).
      destruct (IH acc Hacc Hxs') as (Hin & Hok & Hle). fold acc.
      assert (Hx_acc : le cmp acc x /\ le cmp acc b).
      { unfold acc. destruct (cmp x b) eqn:E.
        - split; [now apply le_refl_on|unfold le; congruence].
        - split; [now apply le_refl_on|unfold le; congruence].
        - split; [apply total_on; assumption|now apply le_refl_on]. }
      destruct Hx_acc as [H1 H2]. pose proof (Hle acc (or_introl eq_refl)) as Hr_acc.
      split; [|split; [exact Hok|]].
      + destruct Hin as [<-|Hin]; [|right; right; exact Hin]. unfold acc. destruct (cmp x b); [left|left|right; left]; reflexivity.
      + intros y [<-|[<-|Hy]].
        * eapply trans_on; [exact Hok|exact Hacc|exact Hx|exact Hr_acc|exact H1].
        * eapply trans_on; [exact Hok|exact Hacc|exact Hb|exact Hr_acc|exact H2].
        * apply Hle. right. exact Hy.
  Qed.
End Extremes.

Definition homogeneous (l : list value) : Prop := forallb is_num_ok l = true \/ forallb is_str l = true.

(** max / min of an array of numbers or of strings: null on the empty array, else
    a member that no member exceeds (resp. that exceeds no member) in [Ord for Variable]. *)
Theorem max_spec ev sg l off r o : homogeneous l -> Sig.validate sg [VArr l] off = Ok tt ->
  call_builtin ev BMax sg [VArr l] off = Ok (r, o) ->
  (l = [] /\ r = VNull) \/ (In r l /\ forall y, In y l -> le var_cmp y r).
Proof.
  intros Hh Hv. unfold call_builtin. rewrite Hv. cbn [bind min_and_max arg0]. destruct l as [|x xs]; cbn [bind].
  - intros E. injection E as <- _. left. auto.
  - intros E. injection E as <- _. right. unfold ord_max.
    destruct Hh as [H|H]; rewrite forallb_forall in H.
    + destruct (fold_max_spec is_num_ok var_cmp num_total num_trans xs x) as (H1 & _ & H3); [apply H; left; reflexivity|apply Forall_forall; intros y Hy; apply H; right; exact Hy|]. auto.
    + destruct (fold_max_spec is_str var_cmp str_total str_trans xs x) as (H1 & _ & H3); [apply H; left; reflexivity|apply Forall_forall; intros y Hy; apply H; right; exact Hy|]. auto.
Qed.

Theorem min_spec ev sg l off r o : homogeneous l -> Sig.validate sg [VArr l] off = Ok tt ->
  call_builtin ev BMin sg [VArr l] off = Ok (r, o) ->
  (l = [] /\ r = VNull) \/ (In r l /\ forall y, In y l -> le var_cmp r y).
Proof.
  intros Hh Hv. unfold call_builtin. rewrite Hv. cbn [bind min_and_max arg0]. destruct l as [|x xs]; cbn [bind].
  - intros E. injection E as <- _. left. auto.
  - intros E. injection E as <- _. right. unfold ord_min.
    destruct Hh as [H|H]; rewrite forallb_forall in H.
    + destruct (fold_min_spec is_num_ok var_cmp num_total num_trans xs x) as (H1 & _ & H3); [apply H; left; reflexivity|apply Forall_forall; intros y Hy; apply H; right; exact Hy|]. auto.
    + destruct (fold_min_spec is_str var_cmp str_total str_trans xs x) as (H1 & _ & H3); [apply H; left; reflexivity|apply Forall_forall; intros y Hy; apply H; right; exact Hy|]. auto.
Qed.
