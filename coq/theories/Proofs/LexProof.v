(** C09: round trips through the lexer model. *)
From JP Require Import Base F64 Value JsonRead Lexer.

(** Raw-string spelling: only the quote is escaped. *)
Fixpoint raw_spell (s : str) : str :=
  match s with
  | [] => []
  | c :: r => if c =? 39 then 92 :: 39 :: raw_spell r else c :: raw_spell r
  end.

Definition no_backslash (s : str) : Prop := Forall (fun c => c <> 92) s.

Lemma u39 : utf8_len 39 = 1. Proof. reflexivity. Qed.
Lemma u92 : utf8_len 92 = 1. Proof. reflexivity. Qed.

Lemma rev_append_rev {A} (l acc : list A) : rev_append l acc = rev l ++ acc.
Proof. apply rev_append_rev. Qed.

(** Scanning the spelling of a backslash-free string up to the closing quote
    returns the spelling itself, pairs [\'] kept together. *)
Lemma consume_inside_raw s : no_backslash s -> forall rest buf n fuel,
  (length (raw_spell s) < fuel)%nat ->
  consume_inside fuel 39 (raw_spell s ++ 39 :: rest) buf n =
    Some (rev buf ++ raw_spell s, rest, n + byte_len (raw_spell s) + 1).
Proof.
  induction 1 as [|c s Hc Hs IH]; intros rest buf n fuel Hf; cbn [raw_spell app].
  - destruct fuel; [cbn in Hf; inversion Hf|]. cbn [consume_inside]. rewrite Z.eqb_refl. rewrite rev_append_rev, app_nil_r.
    f_equal. f_equal. rewrite u39. cbn [byte_len]. lia.
  - destruct (c =? 39) eqn:E.
    + apply Z.eqb_eq in E. subst c. cbn [app]. destruct fuel as [|fuel]; [cbn in Hf; inversion Hf|].
      cbn [consume_inside]. assert ((92 =? 39) = false) as -> by reflexivity. rewrite Z.eqb_refl.
      rewrite IH by (cbn [raw_spell length] in Hf; rewrite Z.eqb_refl in Hf; cbn [length] in Hf; lia). cbn [rev]. rewrite <- !app_assoc. cbn [app].
      f_equal. f_equal. rewrite u39. cbn [byte_len]. rewrite u39, u92. lia.
    + cbn [app]. destruct fuel as [|fuel]; [cbn in Hf; inversion Hf|]. cbn [consume_inside]. rewrite E.
      assert ((c =? 92) = false) as -> by (apply Z.eqb_neq; exact Hc).
      rewrite IH by (cbn [raw_spell length] in Hf; rewrite E in Hf; cbn [length] in Hf; lia). cbn [rev]. rewrite <- app_assoc. cbn [app]. f_equal. f_equal. cbn [byte_len]. lia.
Qed.

Lemma unescape_raw s : no_backslash s -> unescape 39 (raw_spell s) = s.
Proof.
  induction 1 as [|c s Hc Hs IH]; [reflexivity|]. cbn [raw_spell]. destruct (c =? 39) eqn:E.
  - apply Z.eqb_eq in E. subst c. cbn. now rewrite IH.
  - cbn. assert ((c =? 92) = false) as -> by (apply Z.eqb_neq; exact Hc). now rewrite IH.
Qed.

Lemma lex_go_raw f r pos acc :
  lex_go (S f) (39 :: r) pos acc =
    match consume_inside (S (length r)) 39 r [] 0 with
    | None => lex_err pos
    | Some (buf, r', n) => lex_go f r' (pos + 1 + n) ((pos, TLiteral (VStr (unescape 39 buf))) :: acc)
    end.
Proof. reflexivity. Qed.

Lemma lex_go_end f pos acc : lex_go (S f) [] pos acc = Ok (rev_append ((pos, TEof) :: acc) []).
Proof. reflexivity. Qed.

(** The raw-string literal spelling of a backslash-free string lexes to the
    literal holding exactly that string (any code points, any length). *)
Theorem raw_roundtrip_partial s : no_backslash s ->
  tokenize (39 :: raw_spell s ++ [39]) =
    Ok [(0, TLiteral (VStr s)); (0 + 1 + (0 + byte_len (raw_spell s) + 1), TEof)].
Proof.
  intros H. unfold tokenize. cbn [length]. rewrite lex_go_raw.
  rewrite (consume_inside_raw s H [] [] 0) by (rewrite app_length; cbn [length]; apply Nat.lt_succ_diag_r || lia).
  cbn [rev app]. rewrite (unescape_raw s H).
  rewrite app_length. cbn [length]. rewrite Nat.add_comm. cbn [Nat.add]. rewrite lex_go_end. reflexivity.
Qed.

(** Unquoted identifiers lex to exactly their name. *)
Definition ident_chars (s : str) : Prop := Forall (fun c => is_ident_char c = true) s.

Lemma take_while_all p s : Forall (fun c => p c = true) s -> take_while p s = (s, []).
Proof. induction 1 as [|c s Hc Hs IH]; cbn; [reflexivity|]. now rewrite Hc, IH. Qed.

Theorem unquoted_identifier c s : is_alpha_ c = true -> ident_chars s ->
  tokenize (c :: s) = Ok [(0, TIdentifier (c :: s)); (1 + zlen s, TEof)].
Proof.
  intros Hc Hs. unfold tokenize. cbn [length]. cbn [lex_go]. rewrite Hc. rewrite (take_while_all _ s Hs).
  destruct (length s); reflexivity.
Qed.

(** An unterminated quoted form is a parse error at its opening delimiter. *)
Lemma consume_inside_unterminated w : forall s buf n fuel, Forall (fun c => c <> w /\ c <> 92) s ->
  consume_inside fuel w s buf n = None.
Proof.
  induction s as [|c s IH]; intros buf n fuel H; destruct fuel; try reflexivity.
  inversion H as [|? ? [H1 H2] H3]; subst. cbn. assert ((c =? w) = false) as -> by (now apply Z.eqb_neq).
  assert ((c =? 92) = false) as -> by (now apply Z.eqb_neq). now apply IH.
Qed.
