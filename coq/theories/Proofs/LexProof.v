(** C09: round trips through the lexer model. *)
From JP Require Import Base F64 Value JsonRead Lexer.

(** Raw-string spelling: only the quote is escaped. *)
Fixpoint raw_spell (s : str) : str :=
  match s with
  | [] => []
  | c :: r => if c =? 39 then 92 :: 39 :: raw_spell r else c :: raw_spell r
  end.

Definition no_backslash (s : str) : Prop := Forall (fun c => c <> 92) s.

Lemma u39 : utf8_len 39 = 1. Proof. reflexivity. Qed.
Lemma u92 : utf8_len 92 = 1. Proof. reflexivity. Qed.

Lemma rev_append_rev {A} (l acc : list A) : rev_append l acc = rev l ++ acc.
Proof. apply rev_append_rev. Qed.

(** Scanning the spelling of a backslash-free string up to the closing quote
    returns the spelling itself, pairs [\'] kept together. *)
Lemma consume_inside_raw s : no_backslash s -> forall rest buf n fuel,
  (length (raw_spell s) < fuel)%nat ->
  consume_inside fuel 39 (raw_spell s ++ 39 :: rest) buf n =
    Some (rev buf ++ raw_spell s, rest, n + byte_len (raw_spell s) + 1).
Proof.
  induction 1 as [|c s Hc Hs IH]; intros rest buf n fuel Hf; cbn [raw_spell app].
  - destruct fuel; [cbn in Hf; inversion Hf|]. cbn [consume_inside]. rewrite Z.eqb_refl. rewrite rev_append_rev, app_nil_r.
    f_equal. f_equal. rewrite u39. cbn [byte_len]. lia.
  - destruct (c =? 39) eqn:E.
    + apply Z.eqb_eq in E. subst c. cbn [app]. destruct fuel as [|fuel]; [cbn in Hf; inversion Hf|].
      cbn [consume_inside]. assert ((92 =? 39) = false) as -> by reflexivity. rewrite Z.eqb_refl.
      rewrite IH by (cbn [raw_spell length] in Hf; rewrite Z.eqb_refl in Hf; cbn [length] in Hf; lia). cbn [rev]. rewrite <- !app_assoc. cbn [app].
      f_equal. f_equal. rewrite u39. cbn [byte_len]. rewrite u39, u92. lia.
    + cbn [app]. destruct fuel as [|fuel]; [cbn in Hf; inversion Hf|]. cbn [consume_inside]. rewrite E.
      assert ((c =? 92) = false) as -> by (apply Z.eqb_neq; exact Hc).
      rewrite IH by (cbn [raw_spell length] in Hf; rewrite E in Hf; cbn [length] in Hf; lia). cbn [rev]. rewrite <- app_assoc. cbn [app]. f_equal. f_equal. cbn [byte_len]. lia.
Qed.

Lemma unescape_raw s : no_backslash s -> unescape 39 (raw_spell s) = s.
Proof.
  induction 1 as [|c s Hc Hs IH]; [reflexivity|]. cbn [raw_spell]. destruct (c =? 39) eqn:E.
  - apply Z.eqb_eq in E. subst c. cbn. now rewrite IH.
  - cbn. assert ((c =? 92) = false) as -> by (apply Z.eqb_neq; exact Hc). now rewrite IH.
Qed.

Lemma lex_go_raw f r pos acc :
  lex_go (S f) (39 :: r) pos acc =
    match consume_inside (S (length r)) 39 r [] 0 with
    | None => lex_err pos
    | Some (buf, r', n) => lex_go f r' (pos + 1 + n) ((pos, TLiteral (VStr (unescape 39 buf))) :: acc)
    end.
Proof. reflexivity. Qed.

Lemma lex_go_end f pos acc : lex_go (S f) [] pos acc = Ok (rev_append ((pos, TEof) :: acc) []).
Proof. reflexivity. Qed.

(** The raw-string literal spelling of a backslash-free string lexes to the
    literal holding exactly that string (any code points, any length). *)
Theorem raw_roundtrip_partial s : no_backslash s ->
  tokenize (39 :: raw_spell s ++ [39]) =
    Ok [(0, TLiteral (VStr s)); (0 + 1 + (0 + byte_len (raw_spell s) + 1), TEof)].
Proof.
  intros H. unfold tokenize. cbn [length]. rewrite lex_go_raw.
  rewrite (consume_inside_raw s H [] [] 0) by (rewrite app_length; cbn [length]; apply Nat.lt_succ_diag_r || lia).
  cbn [rev app]. rewrite (unescape_raw s H).
  rewrite app_length. cbn [length]. rewrite Nat.add_comm. cbn [Nat.add]. rewrite lex_go_end. reflexivity.
Qed.

(** Unquoted identifiers lex to exactly their name. *)
Definition ident_chars (s : str) : Prop := Forall (fun c => is_ident_char c = true) s.

Lemma take_while_all p s : Forall (fun c => p c = true) s -> take_while p s = (s, []).
Proof. induction 1 as [|c s Hc Hs IH]; cbn; [reflexivity|]. now rewrite Hc, IH. Qed.

Theorem unquoted_identifier c s : is_alpha_ c = true -> ident_chars s ->
  tokenize (c :: s) = Ok [(0, TIdentifier (c :: s)); (1 + zlen s, TEof)].
Proof.
  intros Hc Hs. unfold tokenize. cbn [length]. cbn [lex_go]. rewrite Hc. rewrite (take_while_all _ s Hs).
  destruct (length s); reflexivity.
Qed.

(** An unterminated quoted form is a parse error at its opening delimiter. *)
Lemma consume_inside_unterminated w : forall s buf n fuel, Forall (fun c => c <> w /\ c <> 92) s ->
  consume_inside fuel w s buf n = None.
Proof.
  induction s as [|c s IH]; intros buf n fuel H; destruct fuel; try reflexivity.
  inversion H as [|? ? [H1 H2] H3]; subst. cbn. assert ((c =? w) = false) as -> by (now apply Z.eqb_neq).
  assert ((c =? 92) = false) as -> by (now apply Z.eqb_neq). now apply IH.
Qed.

(* ---------- raw strings in general ---------- *)
(** A string has a raw-string spelling iff no maximal run of backslashes of odd
    length is followed by a quote or by the end of the string ([odd]: the parity
    of the run being scanned). *)
Fixpoint spellable_go (odd : bool) (s : str) : bool :=
  match s with
  | [] => negb odd
  | c :: r =>
      if c =? 92 then spellable_go (negb odd) r
      else if c =? 39 then negb odd && spellable_go false r
      else spellable_go false r
  end.
Definition spellable (s : str) : bool := spellable_go false s.

Lemma raw_spell_head s : match raw_spell s with 39 :: _ => False | _ => True end.
Proof.
  destruct s as [|c r]; cbn [raw_spell]; [exact I|]. destruct (c =? 39) eqn:E; [exact I|].
  destruct c; try exact I. repeat (destruct p; try exact I). discriminate E.
Qed.

(** the replacement of backslash-quote by quote undoes the spelling — for every string *)
Lemma unescape_raw_all s : unescape 39 (raw_spell s) = s.
Proof.
  induction s as [|c s IH]; [reflexivity|]. cbn [raw_spell]. destruct (c =? 39) eqn:E.
  - apply Z.eqb_eq in E. subst c. cbn [unescape]. rewrite !Z.eqb_refl. cbn. now rewrite IH.
  - destruct (c =? 92) eqn:E2.
    + apply Z.eqb_eq in E2. subst c. pose proof (raw_spell_head s) as Hh. cbn [unescape]. rewrite Z.eqb_refl.
      destruct (raw_spell s) as [|c' r'] eqn:Er.
      * destruct s as [|x s']; [reflexivity|]. cbn [raw_spell] in Er. destruct (x =? 39); discriminate.
      * assert ((c' =? 39) = false) as -> by (apply Z.eqb_neq; intros ->; exact Hh). now rewrite IH.
    + cbn [unescape]. rewrite E2. now rewrite IH.
Qed.

Lemma raw_spell_other c r : (c =? 39) = false -> raw_spell (c :: r) = c :: raw_spell r.
Proof. intros E. cbn [raw_spell]. now rewrite E. Qed.
Lemma raw_spell_quote r : raw_spell (39 :: r) = 92 :: 39 :: raw_spell r.
Proof. reflexivity. Qed.

Lemma consume_inside_spellable : forall n s, (length s <= n)%nat -> spellable s = true -> forall rest buf k fuel,
  (length (raw_spell s) < fuel)%nat ->
  consume_inside fuel 39 (raw_spell s ++ 39 :: rest) buf k =
    Some (rev buf ++ raw_spell s, rest, k + byte_len (raw_spell s) + 1).
Proof.
  unfold spellable.
  assert (Hbase : forall rest buf k fuel, (0 < fuel)%nat ->
            consume_inside fuel 39 (39 :: rest) buf k = Some (rev buf ++ [], rest, k + 0 + 1)).
  { intros rest buf k fuel Hf. destruct fuel; [inversion Hf|]. cbn [consume_inside]. rewrite Z.eqb_refl.
    rewrite rev_append_rev. f_equal. f_equal. rewrite u39. lia. }
  assert (E9239 : (92 =? 39) = false) by reflexivity.
  induction n as [|n IH]; intros s Hn Hs rest buf k fuel Hf.
  - destruct s; [|cbn in Hn; lia]. cbn [raw_spell app byte_len length] in *. now apply Hbase.
  - destruct s as [|c r]; [cbn [raw_spell app byte_len length] in *; now apply Hbase|].
    cbn [length] in Hn. cbn [spellable_go] in Hs. destruct (c =? 92) eqn:E92.
    + (* a backslash of the contents: consumed together with what follows it *)
      apply Z.eqb_eq in E92. subst c. cbn [negb] in Hs. destruct r as [|x r']; [discriminate Hs|]. cbn [spellable_go] in Hs. cbn [length] in Hn.
      rewrite (raw_spell_other 92 (x :: r') E9239) in *.
      destruct (x =? 92) eqn:Ex92.
      * apply Z.eqb_eq in Ex92. subst x. cbn [negb] in Hs. rewrite (raw_spell_other 92 r' E9239) in *. cbn [app length] in *.
        destruct fuel as [|fuel]; [inversion Hf|]. cbn [consume_inside]. rewrite E9239, Z.eqb_refl.
        rewrite (IH r') by (try assumption; lia).
        cbn [rev]. rewrite <- !app_assoc. cbn [app]. f_equal. f_equal. cbn [byte_len]. rewrite u92. lia.
      * destruct (x =? 39) eqn:Ex39; [discriminate Hs|]. rewrite (raw_spell_other x r' Ex39) in *. cbn [app length] in *.
        destruct fuel as [|fuel]; [inversion Hf|]. cbn [consume_inside]. rewrite E9239, Z.eqb_refl.
        rewrite (IH r') by (try assumption; lia).
        cbn [rev]. rewrite <- !app_assoc. cbn [app]. f_equal. f_equal. cbn [byte_len]. rewrite u92. lia.
    + destruct (c =? 39) eqn:E39.
      * (* a quote of the contents: spelled backslash-quote, consumed as a pair *)
        apply Z.eqb_eq in E39. subst c. cbn [negb andb] in Hs. rewrite raw_spell_quote in *. cbn [app length] in *.
        destruct fuel as [|fuel]; [inversion Hf|]. cbn [consume_inside]. rewrite E9239, Z.eqb_refl.
        rewrite (IH r) by (try assumption; lia).
        cbn [rev]. rewrite <- !app_assoc. cbn [app]. f_equal. f_equal. cbn [byte_len]. rewrite u39, u92. lia.
      * rewrite (raw_spell_other c r E39) in *. cbn [app length] in *.
        destruct fuel as [|fuel]; [inversion Hf|]. cbn [consume_inside]. rewrite E39, E92.
        rewrite (IH r) by (try assumption; lia).
        cbn [rev]. rewrite <- app_assoc. cbn [app]. f_equal. f_equal. cbn [byte_len]. lia.
Qed.

(** Every spellable string — backslashes anywhere, as long as no odd run of them
    runs into a quote or the end — is the value of its raw-string spelling. *)
Theorem raw_roundtrip s : spellable s = true ->
  tokenize (39 :: raw_spell s ++ [39]) =
    Ok [(0, TLiteral (VStr s)); (0 + 1 + (0 + byte_len (raw_spell s) + 1), TEof)].
Proof.
  intros H. unfold tokenize. cbn [length]. rewrite lex_go_raw.
  rewrite (consume_inside_spellable (length s) s (le_n _) H [] [] 0) by (rewrite app_length; cbn [length]; lia).
  cbn [rev app]. rewrite unescape_raw_all.
  rewrite app_length. cbn [length]. rewrite Nat.add_comm. cbn [Nat.add]. rewrite lex_go_end. reflexivity.
Qed.

(** backslash-free strings are spellable *)
Lemma no_backslash_spellable s : no_backslash s -> spellable s = true.
Proof.
  unfold spellable. induction 1 as [|c s Hc Hs IH]; [reflexivity|]. cbn [spellable_go].
  assert ((c =? 92) = false) as -> by (apply Z.eqb_neq; exact Hc). destruct (c =? 39); exact IH.
Qed.

From JP Require Import Parser.

(** ... and the expression consisting of that spelling compiles to the literal [s]. *)
Theorem raw_compile s : spellable s = true -> parse (39 :: raw_spell s ++ [39]) = Ok (ALiteral (VStr s)).
Proof. intros H. unfold parse. rewrite (raw_roundtrip s H). reflexivity. Qed.
