(** C05: search never traps.  For every tree whose indexes are above [i32::MIN]
    (every tree the parser can produce), every document and the default runtime
    — and more generally every registry whose signatures guard what the bodies
    take for granted — evaluation never reaches a panic: no [unreachable!()], no
    [args[k]] out of bounds, no unchecked arithmetic. *)
From Coq Require Import ZifyBool.
From JP Require Import Base F64 Value Sig Slice JsonRead JsonPrint Functions Interp Spec.SliceSpec Spec.Semantics Spec.SigSpec Proofs.CmpProof
     Proofs.SliceProof Proofs.InterpFacts Proofs.InterpProof Proofs.SigProof Proofs.ParseErrProof Proofs.TotalProof.

Local Ltac nt_auto :=
  repeat match goal with
         | |- nt (Ok _) => apply nt_ok
         | |- nt (ret _ _) => apply nt_ok
         | |- nt OOF => apply nt_oof
         | |- nt Unmodelled => apply nt_unm
         | |- nt (Err _) => apply nt_err
         | |- nt fabricated => apply nt_err
         | H : _ |- nt _ => solve [apply H]
         | |- nt (bind _ _) => apply nt_bind; [|intros]
         | |- nt (if ?b then _ else _) => destruct b
         | |- nt (let '(_, _) := ?x in _) => destruct x
         | |- nt (match ?x with _ => _ end) => destruct x
         end.

(* ---------- which value kinds a parameter type can let through ---------- *)
Definition all_kinds : list jtype := [TNull; TString; TNumber; TBoolean; TArray; TObject; TExpref].

Fixpoint kinds_of (t : argtype) : list jtype :=
  match t with
  | TyAny => all_kinds
  | TyNull => [TNull] | TyString => [TString] | TyNumber => [TNumber] | TyBool => [TBoolean]
  | TyObject => [TObject] | TyArray => [TArray] | TyExpref => [TExpref]
  | TyTypedArray _ => [TArray]
  | TyUnion ts => (fix go (ts : list argtype) : list jtype := match ts with [] => [] | t' :: r => kinds_of t' ++ go r end) ts
  end.

Lemma is_valid_kind : forall t v, is_valid t v = true -> In (get_type v) (kinds_of t).
Proof.
  fix IH 1. intros t v. destruct t; cbn [is_valid kinds_of]; intros H.
  - destruct v; cbn; tauto.
  - destruct v; try discriminate; cbn; tauto.
  - destruct v; try discriminate; cbn; tauto.
  - destruct v; try discriminate; cbn; tauto.
  - destruct v; try discriminate; cbn; tauto.
  - destruct v; try discriminate; cbn; tauto.
  - destruct v; try discriminate; cbn; tauto.
  - destruct v; try discriminate; cbn; tauto.
  - destruct v; try discriminate; cbn; tauto.
  - induction ts as [|t' ts IHts]; [discriminate|].
    apply orb_true_iff in H as [H|H]; apply in_or_app; [left; now apply IH|right; now apply IHts].
Qed.

Definition kind_in (k : jtype) (l : list jtype) : bool := existsb (jtype_eqb k) l.
Lemma kind_in_spec k l : kind_in k l = true -> In k l.
Proof. intros H. apply existsb_exists in H as (x & Hx & He). destruct k, x; try discriminate; exact Hx. Qed.

Definition kinds_subset (a b : list jtype) : bool := forallb (fun k => kind_in k b) a.

(** What a body takes for granted about its first arguments (beyond their existence). *)
Definition needs (b : builtin) : list (list jtype) :=
  match b with
  | BContains => [[TString; TArray]; all_kinds]
  | BLength => [[TArray; TObject; TString]]
  | BEndsWith | BStartsWith | BJoin | BMap | BMaxBy | BMinBy | BSortBy => [all_kinds; all_kinds]
  | _ => [all_kinds]
  end.

Fixpoint safe_inputs (ns : list (list jtype)) (inputs : list argtype) : bool :=
  match ns, inputs with
  | [], _ => true
  | n :: ns', t :: ts => kinds_subset (kinds_of t) n && safe_inputs ns' ts
  | _ :: _, [] => false
  end.

Definition sig_safe (b : builtin) (sg : signature) : bool := safe_inputs (needs b) (sig_inputs sg).

(** the positional prefix of a validated argument list is well typed *)
Lemma validate_args_prefix : forall inputs var args k off,
  validate_args inputs var args k off = Ok tt -> (length inputs <= length args)%nat ->
  Forall2 (fun t v => is_valid t v = true) inputs (firstn (length inputs) args).
Proof.
  induction inputs as [|t inputs IH]; intros var args k off H Hl; [constructor|].
  destruct args as [|v args]; [cbn in Hl; lia|]. cbn [validate_args] in H. unfold validate_arg in H.
  destruct (is_valid t v) eqn:E; [|discriminate]. cbn [bind] in H. cbn [length firstn].
  constructor; [exact E|]. eapply IH; [exact H|cbn in Hl; lia].
Qed.

Lemma validate_prefix sg args off : validate sg args off = Ok tt ->
  Forall2 (fun t v => is_valid t v = true) (sig_inputs sg) (firstn (length (sig_inputs sg)) args).
Proof.
  intros H. pose proof H as H0. apply validate_ok_iff in H0 as (Hl & _ & _). unfold zlen in Hl.
  unfold validate in H. destruct (validate_arity sg (zlen args) off) as [[]| | | |]; try discriminate. cbn [bind] in H.
  eapply validate_args_prefix; [exact H|lia].
Qed.

Lemma safe_shape ns : forall inputs args, safe_inputs ns inputs = true ->
  Forall2 (fun t v => is_valid t v = true) inputs (firstn (length inputs) args) ->
  Forall2 (fun n v => In (get_type v) n) ns (firstn (length ns) args).
Proof.
  induction ns as [|n ns IH]; intros inputs args Hs HF; [constructor|].
  destruct inputs as [|t inputs]; [discriminate|]. cbn [safe_inputs] in Hs. apply andb_true_iff in Hs as [H1 H2].
  destruct args as [|v args]; [inversion HF|]. cbn [length firstn] in *. inversion HF; subst.
  constructor.
  - match goal with Hv : is_valid t v = true |- _ => apply is_valid_kind in Hv; unfold kinds_subset in H1;
      rewrite forallb_forall in H1; apply kind_in_spec; now apply H1 end.
  - eapply IH; eauto.
Qed.

Definition ev_nt (ev : evaluator) : Prop := forall v a o, nt (ev v a o).

Lemma from_f64_nt f off : nt (from_f64 f off). Proof. unfold from_f64. nt_auto. Qed.

Lemma by_loop_nt ev better ast ty : ev_nt ev -> forall vs inv cand ckey off, nt (by_loop ev better ast ty vs inv cand ckey off).
Proof.
  intros Hev. induction vs as [|v vs IH]; intros; cbn [by_loop]; [apply nt_ok|].
  apply nt_bind; [apply Hev|]. intros [mapped off1]. nt_auto.
Qed.
Lemma sort_by_keys_nt ev ast ty : ev_nt ev -> forall vs inv acc off, nt (sort_by_keys ev ast ty vs inv acc off).
Proof.
  intros Hev. induction vs as [|v vs IH]; intros; cbn [sort_by_keys]; [apply nt_ok|].
  apply nt_bind; [apply Hev|]. intros [mapped off1]. nt_auto.
Qed.
Lemma map_loop_nt ev ast : ev_nt ev -> forall vs acc off, nt (map_loop ev ast vs acc off).
Proof.
  intros Hev. induction vs as [|v vs IH]; intros; cbn [map_loop]; [apply nt_ok|].
  apply nt_bind; [apply Hev|]. intros [r off1]. apply IH.
Qed.
Lemma avg_sum_nt vs s : nt (avg_sum vs s).
Proof. revert s; induction vs as [|v vs IH]; intros; cbn; [apply nt_ok|]. destruct v; try apply nt_err. apply IH. Qed.
Lemma strings_of_nt vs : nt (strings_of vs).
Proof. induction vs as [|v vs IH]; cbn; [apply nt_ok|]. destruct v; try apply nt_err. apply nt_bind; [exact IH|intros; apply nt_ok]. Qed.
Lemma merge_objs_nt args : nt (merge_objs args).
Proof.
  unfold merge_objs.
  assert (forall (acc : res (list (str * value))), nt acc ->
            nt (fold_left (fun acc a => let* r := acc in
                                         match a with
                                         | VObj o => Ok (fold_left (fun m '(k, v) => obj_insert m k v) o r)
                                         | _ => fabricated
                                         end) args acc)) as H.
  { induction args as [|a args IH]; intros acc Hacc; cbn; [exact Hacc|].
    apply IH. apply nt_bind; [exact Hacc|]. intros r. destruct a; try apply nt_err. apply nt_ok. }
  apply H. apply nt_ok.
Qed.
Lemma no_err_nt {A} (r : res A) : nt r -> nt (no_err r).
Proof. intros H. destruct r; try discriminate. exact H. Qed.

Lemma print_f64_nt f : nt (print_f64 f).
Proof. unfold print_f64. nt_auto. Qed.
Lemma print_json_nt : forall v, nt (print_json v).
Proof.
  fix IH 1. intros v. destruct v as [|s|b|n|l|o|a]; cbn [print_json]; try (destruct b); try apply nt_ok; try apply nt_unm.
  - unfold print_num. destruct n; try apply nt_ok. apply print_f64_nt.
  - apply nt_bind; [|intros; apply nt_ok]. induction l as [|x l IHl]; [apply nt_ok|].
    apply nt_bind; [apply IH|]. intros y. apply nt_bind; [exact IHl|intros; apply nt_ok].
  - apply nt_bind; [|intros; apply nt_ok]. induction o as [|[k x] o IHo]; [apply nt_ok|].
    apply nt_bind; [apply IH|]. intros y. apply nt_bind; [exact IHo|intros; apply nt_ok].
Qed.

Lemma min_and_max_shape op a r off : nt (min_and_max op (a :: r) off).
Proof. unfold min_and_max. cbn [arg0 bind]. destruct a as [| | | |[|x xs]| |]; try apply nt_err; apply nt_ok. Qed.

(** A body never traps behind a signature that guards what it takes for granted. *)
Theorem call_builtin_nt ev b sg args off : ev_nt ev -> sig_safe b sg = true -> nt (call_builtin ev b sg args off).
Proof.
  intros Hev Hs. unfold call_builtin.
  destruct (validate sg args off) as [[]|e| | |] eqn:Hv; cbn [bind]; try discriminate.
  2:{ exfalso. destruct (validate_returns sg args off) as [H _]. apply H. exact Hv. }
  pose proof (safe_shape (needs b) (sig_inputs sg) args Hs (validate_prefix sg args off Hv)) as Hsh.
  destruct b; cbn [needs] in Hsh;
    (destruct args as [|a0 args]; [inversion Hsh|]); cbn [length firstn] in Hsh; inversion Hsh as [|? ? ? ? Hk0 Hrest]; subst;
    try (match type of Hrest with
         | Forall2 _ (_ :: _) _ => destruct args as [|a1 args]; [inversion Hrest|]; cbn [length firstn] in Hrest; inversion Hrest as [|? ? ? ? Hk1 _]; subst
         end);
    cbn [arg0 arg1 bind].
  - (* abs *) destruct a0; try apply nt_ok. apply from_f64_nt.
  - (* avg *) destruct a0 as [| | | |[|x xs]| |]; try apply nt_err; try apply nt_ok. apply nt_bind; [apply avg_sum_nt|intros; apply from_f64_nt].
  - (* ceil *) destruct a0; try apply nt_err. apply from_f64_nt.
  - (* contains *) destruct a0; cbn in Hk0; try (exfalso; intuition discriminate); [destruct a1; apply nt_ok|apply nt_ok].
  - (* ends_with *) destruct a0, a1; try apply nt_err; apply nt_ok.
  - (* floor *) destruct a0; try apply nt_err. apply from_f64_nt.
  - (* join *) destruct a0, a1; try apply nt_err. apply nt_bind; [apply strings_of_nt|intros; apply nt_ok].
  - (* keys *) destruct a0; try apply nt_err; apply nt_ok.
  - (* length *) destruct a0; cbn in Hk0; try (exfalso; intuition discriminate); apply nt_ok.
  - (* map *) destruct a0, a1; try apply nt_err. now apply map_loop_nt.
  - (* max *) apply min_and_max_shape.
  - (* max_by *)
    unfold min_and_max_by. cbn [arg0 arg1 bind]. destruct a0 as [| | | |[|v0 vs]| |]; try apply nt_err; try apply nt_ok.
    destruct a1; try apply nt_err. apply nt_bind; [apply Hev|]. intros [initial off1].
    destruct (negb (by_type_ok (get_type initial))); [apply nt_err|]. now apply by_loop_nt.
  - (* merge *) apply nt_bind; [apply merge_objs_nt|intros; apply nt_ok].
  - (* min *) apply min_and_max_shape.
  - (* min_by *)
    unfold min_and_max_by. cbn [arg0 arg1 bind]. destruct a0 as [| | | |[|v0 vs]| |]; try apply nt_err; try apply nt_ok.
    destruct a1; try apply nt_err. apply nt_bind; [apply Hev|]. intros [initial off1].
    destruct (negb (by_type_ok (get_type initial))); [apply nt_err|]. now apply by_loop_nt.
  - (* not_null *) apply nt_ok.
  - (* reverse *) destruct a0; try apply nt_err; apply nt_ok.
  - (* sort *) destruct a0; try apply nt_err; apply nt_ok.
  - (* sort_by *)
    unfold sort_by. cbn [arg0 arg1 bind]. destruct a0 as [| | | |[|v0 vs]| |]; try apply nt_err; try apply nt_ok.
    destruct a1; try apply nt_err. apply nt_bind; [apply Hev|]. intros [first off1].
    destruct (negb (by_type_ok (get_type first))); [apply nt_err|].
    apply nt_bind; [now apply sort_by_keys_nt|]. intros [pairs off2]. apply nt_ok.
  - (* starts_with *) destruct a0, a1; try apply nt_err; apply nt_ok.
  - (* sum *) destruct a0; try apply nt_err. apply from_f64_nt.
  - (* to_array *) destruct a0; apply nt_ok.
  - (* to_number *)
    destruct a0; try apply nt_ok. apply nt_bind; [apply no_err_nt, from_json_nt|]. intros [v|]; [destruct (is_number v)|]; apply nt_ok.
  - (* to_string *)
    destruct a0; try apply nt_ok; (apply nt_bind; [apply no_err_nt, print_json_nt|intros; apply nt_ok]).
  - (* type *) apply nt_ok.
  - (* values *) destruct a0; try apply nt_err; apply nt_ok.
Qed.

(** a registry all of whose builtin entries are guarded *)
Definition registry_safe (rt : registry) : bool :=
  forallb (fun kv => match snd kv with FBuiltin b sg => sig_safe b sg | FCustom _ _ => true end) rt.

Lemma rt_get_safe rt name b sg : registry_safe rt = true -> rt_get rt name = Some (FBuiltin b sg) -> sig_safe b sg = true.
Proof.
  unfold registry_safe, rt_get. induction rt as [|[k f] rt IH]; cbn; [discriminate|].
  intros H. apply andb_true_iff in H as [H1 H2]. destruct (str_eqb name k).
  - intros E. injection E as ->. exact H1.
  - now apply IH.
Qed.

Lemma call_impl_nt ev f args off : ev_nt ev -> (forall b sg, f = FBuiltin b sg -> sig_safe b sg = true) -> nt (call_impl ev f args off).
Proof.
  intros Hev Hf. destruct f as [b sg|id sg]; cbn [call_impl]; [apply call_builtin_nt; auto|].
  apply nt_bind; [|intros; apply nt_ok]. destruct sg as [s|]; [|apply nt_ok].
  destruct (validate_returns s args off) as [H _]. exact H.
Qed.

(** indexes above i32::MIN (the lexer cannot produce i32::MIN) *)
Fixpoint index_ok (e : ast) : bool :=
  match e with
  | AIndex i => i32_min <? i
  | ASlice _ _ _ step => i32_min <=? step
  | AComparison _ l r | ACondition l r | AProjection l r | AAnd l r | AOr l r | ASubexpr l r => index_ok l && index_ok r
  | AExpref x | AFlatten x | ANot x | AObjectValues x => index_ok x
  | AFunction _ _ args | AMultiList args => forallb index_ok args
  | AMultiHash kvs => forallb (fun kv => index_ok (snd kv)) kvs
  | ALiteral _ | AIdentity | AField _ => true
  end.

(* ---------- values whose expression references are safe to evaluate ---------- *)
Fixpoint vok (v : value) : bool :=
  match v with
  | VArr l => forallb vok l
  | VObj o => forallb (fun kv => vok (snd kv)) o
  | VExpref a => tree_ok a
  | _ => true
  end
with tree_ok (e : ast) : bool :=
  match e with
  | AIndex i => i32_min <? i
  | ASlice _ _ _ step => i32_min <=? step
  | AComparison _ l r | ACondition l r | AProjection l r | AAnd l r | AOr l r | ASubexpr l r => tree_ok l && tree_ok r
  | AExpref x | AFlatten x | ANot x | AObjectValues x => tree_ok x
  | AFunction _ _ args | AMultiList args => forallb tree_ok args
  | AMultiHash kvs => forallb (fun kv => tree_ok (snd kv)) kvs
  | ALiteral v => vok v
  | AIdentity | AField _ => true
  end.

Definition voks (l : list value) : Prop := Forall (fun v => vok v = true) l.

Lemma voks_forallb l : forallb vok l = true <-> voks l.
Proof. unfold voks. rewrite forallb_forall, Forall_forall. reflexivity. Qed.

Lemma obj_forallb (o : list (str * value)) : forallb (fun kv => vok (snd kv)) o = true <-> Forall (fun kv => vok (snd kv) = true) o.
Proof. rewrite forallb_forall, Forall_forall. reflexivity. Qed.

Lemma obj_insert_vok o k v : Forall (fun kv => vok (snd kv) = true) o -> vok v = true -> Forall (fun kv : str * value => vok (snd kv) = true) (obj_insert o k v).
Proof.
  intros Ho Hv. induction Ho as [|[k' v'] o Hk Ho IH]; cbn; [constructor; [exact Hv|constructor]|].
  destruct (str_cmp k k'); constructor; auto.
Qed.

Lemma obj_get_vok o k v : Forall (fun kv : str * value => vok (snd kv) = true) o -> obj_get o k = Some v -> vok v = true.
Proof.
  induction 1 as [|[k' v'] o Hk Ho IH]; cbn; [discriminate|]. destruct (str_eqb k k'); [intros E; injection E as <-; exact Hk|exact IH].
Qed.

Lemma index_z_in {A} (l : list A) i x : index_z l i = Some x -> In x l.
Proof.
  unfold index_z. destruct ((i <? 0) || (zlen l <=? i)); [discriminate|]. rewrite nth_opt_nth_error. apply nth_error_In.
Qed.

Lemma select_in {A} (arr : list A) is x : In x (select arr is) -> In x arr.
Proof.
  unfold select. intros H. apply in_flat_map in H as (i & _ & Hi). destruct (index_z arr i) eqn:E; [|contradiction].
  destruct Hi as [<-|[]]. eapply index_z_in; eauto.
Qed.

Lemma slice_vok arr a b c l : i32_min <= c -> c <> 0 -> voks arr -> slice arr a b c = Ok l -> voks l.
Proof.
  intros H1 H2 Harr Hs. destruct (slice_total arr a b c H1 H2) as [E|E]; rewrite E in Hs; [discriminate|].
  injection Hs as <-. unfold voks in *. rewrite Forall_forall in *. intros x Hx. apply Harr. eapply select_in; eauto.
Qed.

Lemma insert_sorted_in {A} (cmp : A -> A -> comparison) x l y : In y (insert_sorted cmp x l) -> y = x \/ In y l.
Proof.
  induction l as [|z l IH]; cbn; [intuition|]. destruct (cmp x z); cbn; intuition.
Qed.

Lemma stable_sort_in {A} (cmp : A -> A -> comparison) l y : In y (stable_sort cmp l) -> In y l.
Proof.
  induction l as [|x l IH]; cbn; [auto|]. intros H. apply insert_sorted_in in H as [->|H]; auto.
Qed.

Definition ev_ok (ev : evaluator) : Prop :=
  forall v a o, vok v = true -> tree_ok a = true -> nt (ev v a o) /\ (forall r o', ev v a o = Ok (r, o') -> vok r = true).

(** result predicate: not a trap, and a safe value if it is a value *)
Definition good (r : res (value * Z)) : Prop := nt r /\ forall v o, r = Ok (v, o) -> vok v = true.

Lemma good_ret v o : vok v = true -> good (ret v o).
Proof. intros H. split; [apply nt_ok|]. intros v' o' E. injection E as <- _. exact H. Qed.
Lemma good_err e : good (Err e). Proof. split; [apply nt_err|intros; discriminate]. Qed.
Lemma good_oof : good OOF. Proof. split; [apply nt_oof|intros; discriminate]. Qed.
Lemma good_unm : good Unmodelled. Proof. split; [apply nt_unm|intros; discriminate]. Qed.
Lemma good_from_f64 f off : good (from_f64 f off).
Proof. unfold from_f64. destruct (f_is_finite f); [now apply good_ret|apply good_err]. Qed.

Lemma by_loop_good ev better ast ty : ev_ok ev -> tree_ok ast = true ->
  forall vs inv cand ckey off, voks vs -> vok cand = true -> good (by_loop ev better ast ty vs inv cand ckey off).
Proof.
  intros Hev Ha. induction vs as [|v vs IH]; intros inv cand ckey off Hvs Hc; cbn [by_loop]; [now apply good_ret|].
  inversion Hvs; subst. destruct (Hev v ast off ltac:(assumption) Ha) as [Hnt Hok].
  destruct (ev v ast off) as [[mapped off1]| | | |]; cbn; try apply good_err; try apply good_oof; try apply good_unm; [|exfalso; now apply Hnt].
  destruct (negb (jtype_eqb (get_type mapped) ty)); [apply good_err|].
  destruct (better (var_cmp mapped ckey)); apply IH; auto.
Qed.

Lemma sort_by_keys_good ev ast ty : ev_ok ev -> tree_ok ast = true ->
  forall vs inv acc off, voks vs -> voks (map fst acc) ->
    nt (sort_by_keys ev ast ty vs inv acc off) /\
    forall pairs o, sort_by_keys ev ast ty vs inv acc off = Ok (pairs, o) -> voks (map fst pairs).
Proof.
  intros Hev Ha. induction vs as [|v vs IH]; intros inv acc off Hvs Hacc; cbn [sort_by_keys].
  - split; [apply nt_ok|]. intros pairs o E. injection E as <- _. unfold voks in *. rewrite map_rev. now apply Forall_rev.
  - inversion Hvs; subst. destruct (Hev v ast off ltac:(assumption) Ha) as [Hnt Hok].
    destruct (ev v ast off) as [[mapped off1]| | | |]; cbn; try (split; [discriminate|intros; discriminate]); [|exfalso; now apply Hnt].
    destruct (negb (jtype_eqb (get_type mapped) ty)); [split; [discriminate|intros; discriminate]|].
    apply IH; auto. cbn. constructor; auto.
Qed.

Lemma map_loop_good ev ast : ev_ok ev -> tree_ok ast = true -> forall vs acc off, voks vs -> voks acc -> good (map_loop ev ast vs acc off).
Proof.
  intros Hev Ha. induction vs as [|v vs IH]; intros acc off Hvs Hacc; cbn [map_loop].
  - apply good_ret. cbn. apply voks_forallb. unfold voks. now apply Forall_rev.
  - inversion Hvs; subst. destruct (Hev v ast off ltac:(assumption) Ha) as [Hnt Hok].
    destruct (ev v ast off) as [[r off1]| | | |]; cbn; try apply good_err; try apply good_oof; try apply good_unm; [|exfalso; now apply Hnt].
    apply IH; auto. constructor; eauto.
Qed.

Lemma fold_op_vok op xs x : (forall a b, vok a = true -> vok b = true -> vok (op a b) = true) -> voks xs -> vok x = true -> vok (fold_left op xs x) = true.
Proof. intros Hop. revert x; induction xs as [|y xs IH]; intros x Hxs Hx; cbn; [exact Hx|]. inversion Hxs; subst. apply IH; auto. Qed.

Lemma merge_objs_good args : voks args -> nt (merge_objs args) /\ forall o, merge_objs args = Ok o -> Forall (fun kv : str * value => vok (snd kv) = true) o.
Proof.
  unfold merge_objs. intros Hargs.
  assert (forall (acc : res (list (str * value))),
            (nt acc /\ forall o, acc = Ok o -> Forall (fun kv : str * value => vok (snd kv) = true) o) ->
            let r := fold_left (fun acc a => let* r := acc in
                                             match a with
                                             | VObj o => Ok (fold_left (fun m '(k, v) => obj_insert m k v) o r)
                                             | _ => fabricated
                                             end) args acc in
            nt r /\ forall o, r = Ok o -> Forall (fun kv : str * value => vok (snd kv) = true) o) as H.
  { induction Hargs as [|a args Ha Hargs IH]; intros acc Hacc; cbn; [exact Hacc|].
    apply IH. destruct Hacc as [Hn Ho]. destruct acc as [r| | | |]; cbn; try (split; [discriminate|intros; discriminate]); [|exfalso; now apply Hn].
    destruct a; try (split; [discriminate|intros; discriminate]).
    split; [discriminate|]. intros o E. injection E as <-.
    cbn in Ha. apply obj_forallb in Ha. specialize (Ho r eq_refl). clear -Ha Ho.
    revert r Ho. induction Ha as [|[k v] l Hk Hl IHl]; intros r Ho; cbn; [exact Ho|]. apply IHl. now apply obj_insert_vok. }
  apply H. split; [discriminate|]. intros o E. injection E as <-. constructor.
Qed.

Lemma first_non_null_vok args : voks args -> vok (first_non_null args) = true.
Proof. induction 1 as [|a args Ha Hargs IH]; cbn; [reflexivity|]. destruct (is_null a); auto. Qed.

(** every builtin, behind a guarding signature, returns without trapping and
    hands back only values whose expression references are safe *)
Theorem call_builtin_good ev b sg args off : ev_ok ev -> sig_safe b sg = true -> voks args -> good (call_builtin ev b sg args off).
Proof.
  intros Hev Hs Hargs. unfold call_builtin.
  destruct (validate sg args off) as [[]|e| | |] eqn:Hv; cbn [bind]; try apply good_err; try apply good_oof; try apply good_unm.
  2:{ exfalso. destruct (validate_returns sg args off) as [H _]. apply H. exact Hv. }
  pose proof (safe_shape (needs b) (sig_inputs sg) args Hs (validate_prefix sg args off Hv)) as Hsh.
  destruct b; cbn [needs] in Hsh;
    (destruct args as [|a0 args]; [inversion Hsh|]); cbn [length firstn] in Hsh; inversion Hsh as [|? ? ? ? Hk0 Hrest]; subst;
    try (match type of Hrest with
         | Forall2 _ (_ :: _) _ => destruct args as [|a1 args]; [inversion Hrest|]; cbn [length firstn] in Hrest; inversion Hrest as [|? ? ? ? Hk1 _]; subst
         end);
    cbn [arg0 arg1 bind];
    repeat match goal with
           | H : voks (_ :: _) |- _ => inversion H; subst; clear H
           | H : Forall (fun v => vok v = true) (_ :: _) |- _ => inversion H; subst; clear H
           end.
  - (* abs *) destruct a0; try (now apply good_ret). apply good_from_f64.
  - (* avg *) destruct a0 as [| | | |[|x xs]| |]; try apply good_err; try (now apply good_ret).
    destruct (avg_sum (x :: xs) (Floats.SpecFloat.S754_zero false)) as [s| | | |] eqn:E; cbn; try apply good_err; try apply good_oof; try apply good_unm; [apply good_from_f64|].
    exfalso. eapply avg_sum_nt. exact E.
  - (* ceil *) destruct a0; try apply good_err. apply good_from_f64.
  - (* contains *) destruct a0; cbn in Hk0; try (exfalso; intuition discriminate); [destruct a1; now apply good_ret|now apply good_ret].
  - (* ends_with *) destruct a0, a1; try apply good_err; now apply good_ret.
  - (* floor *) destruct a0; try apply good_err. apply good_from_f64.
  - (* join *) destruct a0, a1; try apply good_err.
    destruct (strings_of l) as [ss| | | |] eqn:E; cbn; try apply good_err; try apply good_oof; try apply good_unm; [now apply good_ret|].
    exfalso. eapply strings_of_nt. exact E.
  - (* keys *) destruct a0; try apply good_err. apply good_ret. cbn. apply forallb_forall. intros x Hx. apply in_map_iff in Hx as (kv & <- & _). reflexivity.
  - (* length *) destruct a0; cbn in Hk0; try (exfalso; intuition discriminate); now apply good_ret.
  - (* map *) destruct a0, a1; try apply good_err.
    match goal with H : vok (VExpref _) = true, H' : vok (VArr _) = true |- _ => cbn in H, H'; apply voks_forallb in H' end.
    apply map_loop_good; auto. constructor.
  - (* max *)
    unfold min_and_max. cbn [arg0 bind]. destruct a0 as [| | | |[|x xs]| |]; try apply good_err; try (now apply good_ret).
    match goal with H : vok (VArr _) = true |- _ => cbn in H; apply andb_true_iff in H as [Hx Hxs]; apply voks_forallb in Hxs end.
    apply good_ret. apply fold_op_vok; auto. intros a b Ha Hb. unfold ord_max. destruct (var_cmp a b); auto.
  - (* max_by *)
    unfold min_and_max_by. cbn [arg0 arg1 bind]. destruct a0 as [| | | |[|v0 vs]| |]; try apply good_err; try (now apply good_ret).
    destruct a1; try apply good_err.
    match goal with H : vok (VExpref _) = true, H' : vok (VArr _) = true |- _ => cbn in H, H'; apply andb_true_iff in H' as [Hv0 Hvs]; apply voks_forallb in Hvs end.
    destruct (Hev v0 a off Hv0 ltac:(assumption)) as [Hnt Hok].
    destruct (ev v0 a off) as [[initial off1]| | | |]; cbn; try apply good_err; try apply good_oof; try apply good_unm; [|exfalso; now apply Hnt].
    destruct (negb (by_type_ok (get_type initial))); [apply good_err|]. apply by_loop_good; auto.
  - (* merge *)
    destruct (merge_objs_good (a0 :: args)) as [Hn Ho]; [constructor; auto|].
    destruct (merge_objs (a0 :: args)) as [o| | | |]; cbn; try apply good_err; try apply good_oof; try apply good_unm; [|exfalso; now apply Hn].
    apply good_ret. cbn. apply obj_forallb. now apply Ho.
  - (* min *)
    unfold min_and_max. cbn [arg0 bind]. destruct a0 as [| | | |[|x xs]| |]; try apply good_err; try (now apply good_ret).
    match goal with H : vok (VArr _) = true |- _ => cbn in H; apply andb_true_iff in H as [Hx Hxs]; apply voks_forallb in Hxs end.
    apply good_ret. apply fold_op_vok; auto. intros a b Ha Hb. unfold ord_min. destruct (var_cmp a b); auto.
  - (* min_by *)
    unfold min_and_max_by. cbn [arg0 arg1 bind]. destruct a0 as [| | | |[|v0 vs]| |]; try apply good_err; try (now apply good_ret).
    destruct a1; try apply good_err.
    match goal with H : vok (VExpref _) = true, H' : vok (VArr _) = true |- _ => cbn in H, H'; apply andb_true_iff in H' as [Hv0 Hvs]; apply voks_forallb in Hvs end.
    destruct (Hev v0 a off Hv0 ltac:(assumption)) as [Hnt Hok].
    destruct (ev v0 a off) as [[initial off1]| | | |]; cbn; try apply good_err; try apply good_oof; try apply good_unm; [|exfalso; now apply Hnt].
    destruct (negb (by_type_ok (get_type initial))); [apply good_err|]. apply by_loop_good; auto.
  - (* not_null *) apply good_ret. apply first_non_null_vok. constructor; auto.
  - (* reverse *) destruct a0; try apply good_err; apply good_ret; [reflexivity|].
    match goal with H0 : vok (VArr _) = true |- _ => cbn in H0; apply voks_forallb in H0; rename H0 into Harr end. cbn. apply voks_forallb. unfold voks in *. now apply Forall_rev.
  - (* sort *) destruct a0; try apply good_err. apply good_ret.
    match goal with H0 : vok (VArr _) = true |- _ => cbn in H0; apply voks_forallb in H0; rename H0 into Harr end. cbn. apply voks_forallb.
    unfold voks in *. rewrite Forall_forall in *. intros x Hx. apply Harr. eapply stable_sort_in; eauto.
  - (* sort_by *)
    unfold sort_by. cbn [arg0 arg1 bind]. destruct a0 as [| | | |[|v0 vs]| |]; try apply good_err; try (now apply good_ret).
    destruct a1; try apply good_err.
    match goal with H : vok (VExpref _) = true, H' : vok (VArr _) = true |- _ => cbn in H, H'; apply andb_true_iff in H' as [Hv0 Hvs]; apply voks_forallb in Hvs end.
    destruct (Hev v0 a off Hv0 ltac:(assumption)) as [Hnt Hok].
    destruct (ev v0 a off) as [[first off1]| | | |]; cbn; try apply good_err; try apply good_oof; try apply good_unm; [|exfalso; now apply Hnt].
    destruct (negb (by_type_ok (get_type first))); [apply good_err|].
    destruct (sort_by_keys_good ev a (get_type first) Hev ltac:(assumption) vs 1 [(v0, first)] off1 Hvs ltac:(cbn; constructor; [exact Hv0|constructor])) as [Hn2 Hp].
    destruct (sort_by_keys ev a (get_type first) vs 1 [(v0, first)] off1) as [[pairs off2]| | | |]; cbn; try apply good_err; try apply good_oof; try apply good_unm; [|exfalso; now apply Hn2].
    apply good_ret. cbn. apply voks_forallb. specialize (Hp pairs off2 eq_refl).
    unfold voks in *. rewrite Forall_forall in *. intros x Hx. apply in_map_iff in Hx as (p & <- & Hin).
    apply Hp. apply in_map. eapply stable_sort_in; eauto.
  - (* starts_with *) destruct a0, a1; try apply good_err; now apply good_ret.
  - (* sum *) destruct a0; try apply good_err. apply good_from_f64.
  - (* to_array *) destruct a0; apply good_ret; cbn; auto; match goal with H : vok _ = true |- _ => cbn in H; try rewrite H end; auto.
  - (* to_number *)
    destruct a0; try (now apply good_ret).
    destruct (no_err (from_json s)) as [[v|]| | | |] eqn:E; cbn; try apply good_err; try apply good_oof; try apply good_unm;
      try (now apply good_ret).
    + destruct (is_number v) eqn:En; [|now apply good_ret]. apply good_ret. destruct v; try discriminate. reflexivity.
    + exfalso. eapply (no_err_nt (from_json s)); [apply from_json_nt|exact E].
  - (* to_string *)
    destruct a0; try (now apply good_ret);
      (match goal with |- good (bind (no_err (print_json ?x)) _) =>
         destruct (no_err (print_json x)) as [t| | | |] eqn:E; cbn; try apply good_err; try apply good_oof; try apply good_unm;
         [now apply good_ret|exfalso; eapply (no_err_nt (print_json x)); [apply print_json_nt|exact E]] end).
  - (* type *) now apply good_ret.
  - (* values *) destruct a0; try apply good_err. apply good_ret.
    match goal with H0 : vok (VObj _) = true |- _ => cbn in H0; apply obj_forallb in H0; rename H0 into Hobj end. cbn. apply voks_forallb.
    unfold voks. rewrite Forall_forall in *. intros x Hx. apply in_map_iff in Hx as (kv & <- & Hin). now apply Hobj.
Qed.

(* ---------- the interpreter ---------- *)
Lemma good_ok v o : vok v = true -> good (Ok (v, o)).
Proof. exact (good_ret v o). Qed.

Lemma good_bind (r : res (value * Z)) (k : value * Z -> res (value * Z)) :
  good r -> (forall v o, vok v = true -> good (k (v, o))) -> good (bind r k).
Proof.
  intros [Hn Hv] Hk. destruct r as [[v o]| | | |]; cbn; try apply good_err; try apply good_oof; try apply good_unm.
  - apply Hk. eapply Hv. reflexivity.
  - exfalso. now apply Hn.
Qed.

Lemma get_field_vok d k : vok d = true -> vok (get_field d k) = true.
Proof.
  intros H. destruct d; try reflexivity. cbn. destruct (obj_get l k) eqn:E; [|reflexivity].
  cbn in H. apply obj_forallb in H. eapply obj_get_vok; eauto.
Qed.

Lemma get_index_vok d i : vok d = true -> vok (get_index d i) = true.
Proof.
  intros H. destruct d; try reflexivity. cbn. destruct (index_z l i) eqn:E; [|reflexivity].
  cbn in H. apply voks_forallb in H. unfold voks in H. rewrite Forall_forall in H. apply H. eapply index_z_in; eauto.
Qed.

Lemma get_negative_index_good d i o : 0 < i -> vok d = true -> good (let* v := get_negative_index d i in Ok (v, o)).
Proof.
  intros Hi H. destruct (negative_index_returns d i Hi) as [Hn _].
  unfold get_negative_index in *. destruct d; try (now apply good_ok).
  destruct (zlen l >=? Z.max i 1); [|now apply good_ok].
  destruct (index_z l (zlen l - Z.max i 1)) eqn:E; cbn; [|exfalso; now apply Hn].
  apply good_ok. cbn in H. apply voks_forallb in H. unfold voks in H. rewrite Forall_forall in H. apply H. eapply index_z_in; eauto.
Qed.

Lemma proj_loop_good ev1 : (forall e o, vok e = true -> good (ev1 e o)) ->
  forall es acc o, voks es -> voks acc -> good (proj_loop ev1 es acc o).
Proof.
  intros H. induction es as [|e es IH]; intros acc o Hes Hacc; cbn [proj_loop].
  - apply good_ok. cbn. apply voks_forallb. unfold voks. now apply Forall_rev.
  - inversion Hes; subst. apply good_bind; [now apply H|]. intros cur o' Hc.
    destruct (is_null cur); apply IH; auto. constructor; auto.
Qed.

Lemma eval_list_good evd : forall es acc o,
  (forall e, In e es -> forall o', good (evd e o')) -> voks acc ->
  nt (eval_list evd es acc o) /\ forall vs o', eval_list evd es acc o = Ok (vs, o') -> voks vs.
Proof.
  induction es as [|e es IH]; intros acc o H Hacc; cbn [eval_list].
  - split; [apply nt_ok|]. intros vs o' E. injection E as <- _. unfold voks. now apply Forall_rev.
  - destruct (H e (or_introl eq_refl) o) as [Hn Hv].
    destruct (evd e o) as [[v o1]| | | |]; cbn; try (split; [discriminate|intros; discriminate]); [|exfalso; now apply Hn].
    apply IH; [intros e' He'; apply H; now right|constructor; eauto].
Qed.

Lemma eval_kvs_good evd : forall (kvs : list (str * ast)) acc o,
  (forall kv, In kv kvs -> forall o', good (evd (snd kv) o')) -> Forall (fun kv : str * value => vok (snd kv) = true) acc ->
  nt (eval_kvs evd kvs acc o) /\ forall m o', eval_kvs evd kvs acc o = Ok (m, o') -> Forall (fun kv : str * value => vok (snd kv) = true) m.
Proof.
  induction kvs as [|[k e] kvs IH]; intros acc o H Hacc; cbn [eval_kvs].
  - split; [apply nt_ok|]. intros m o' E. injection E as <- _. exact Hacc.
  - destruct (H (k, e) (or_introl eq_refl) o) as [Hn Hv]. cbn [snd] in *.
    destruct (evd e o) as [[v o1]| | | |]; cbn; try (split; [discriminate|intros; discriminate]); [|exfalso; now apply Hn].
    apply IH; [intros kv' He'; apply H; now right|apply obj_insert_vok; eauto].
Qed.

Lemma flat_map_vok a : voks a -> voks (flat_map (fun e => match e with VArr inner => inner | _ => [e] end) a).
Proof.
  induction 1 as [|x a Hx Ha IH]; cbn; [constructor|]. apply Forall_app. split; [|exact IH].
  destruct x; try (constructor; [exact Hx|constructor]). cbn in Hx. now apply voks_forallb.
Qed.

Theorem interp_good : forall n rt, registry_safe rt = true ->
  forall d e o, vok d = true -> tree_ok e = true -> good (interp n rt d e o).
Proof.
  induction n as [|n IH]; intros rt Hrt d e o Hd He; [apply good_oof|].
  assert (Hev : ev_ok (interp n rt)).
  { intros v a o' Hv Ha. destruct (IH rt Hrt v a o' Hv Ha) as [H1 H2]. split; [exact H1|]. intros r o'' E. eapply H2; eauto. }
  destruct e; cbn [tree_ok] in He; cbn [interp];
    repeat match goal with H : _ && _ = true |- _ => apply andb_true_iff in H; destruct H end.
  - (* Comparison *)
    apply good_bind; [now apply IH|]. intros lv o1 Hl. apply good_bind; [now apply IH|]. intros rv o2 Hr.
    apply good_ok. destruct (compare_values c lv rv) as [[]|]; reflexivity.
  - (* Condition *)
    apply good_bind; [now apply IH|]. intros c o1 Hc. destruct (is_truthy c); [now apply IH|now apply good_ok].
  - now apply good_ok.
  - now apply good_ok.
  - (* Flatten *)
    apply good_bind; [now apply IH|]. intros v o1 Hv. destruct v; try (now apply good_ok).
    apply good_ok. cbn. apply voks_forallb. apply flat_map_vok. now apply voks_forallb.
  - (* Function *)
    destruct (eval_list_good (fun e0 o0 => interp n rt d e0 o0) args [] o) as [Hn Hvs].
    { intros e0 He0 o'. apply IH; auto. rewrite forallb_forall in He. now apply He. }
    { constructor. }
    destruct (eval_list (fun e0 o0 => interp n rt d e0 o0) args [] o) as [[fn_args co]| | | |] eqn:E; cbn;
      try apply good_err; try apply good_oof; try apply good_unm; [|exfalso; now apply Hn].
    specialize (Hvs fn_args co eq_refl).
    destruct (rt_get rt name) as [f|] eqn:Ef; [|apply good_err].
    assert (good (call_impl (interp n rt) f fn_args off)) as [Hn2 Hv2].
    { destruct f as [b sg|id sg]; cbn [call_impl].
      - apply call_builtin_good; auto. eapply rt_get_safe; eauto.
      - destruct sg as [s|]; cbn.
        + destruct (validate_returns s fn_args off) as [Hr _].
          destruct (validate s fn_args off) as [[]| | | |]; cbn; try apply good_err; try apply good_oof; try apply good_unm; [|exfalso; now apply Hr].
          apply good_ok. cbn. rewrite andb_true_r. now apply voks_forallb.
        + apply good_ok. cbn. rewrite andb_true_r. now apply voks_forallb. }
    destruct (call_impl (interp n rt) f fn_args off) as [[v o2]| | | |]; cbn; try apply good_err; try apply good_oof; try apply good_unm; [|exfalso; now apply Hn2].
    apply good_ok. eapply Hv2. reflexivity.
  - (* Field *) apply good_ok. now apply get_field_vok.
  - (* Index *)
    destruct (i >=? 0) eqn:E; [apply good_ok; now apply get_index_vok|].
    destruct (i =? i32_min) eqn:E2; [lia|]. apply get_negative_index_good; [lia|exact Hd].
  - (* Literal *) now apply good_ok.
  - (* MultiList *)
    destruct (is_null d); [now apply good_ok|].
    destruct (eval_list_good (fun e0 o0 => interp n rt d e0 o0) es [] o) as [Hn Hvs].
    { intros e0 He0 o'. apply IH; auto. rewrite forallb_forall in He. now apply He. }
    { constructor. }
    destruct (eval_list (fun e0 o0 => interp n rt d e0 o0) es [] o) as [[vs o1]| | | |] eqn:E; cbn;
      try apply good_err; try apply good_oof; try apply good_unm; [|exfalso; now apply Hn].
    apply good_ok. cbn. apply voks_forallb. eapply Hvs. reflexivity.
  - (* MultiHash *)
    destruct (is_null d); [now apply good_ok|].
    destruct (eval_kvs_good (fun e0 o0 => interp n rt d e0 o0) kvs [] o) as [Hn Hm].
    { intros kv Hkv o'. apply IH; auto. rewrite forallb_forall in He. now apply He. }
    { constructor. }
    destruct (eval_kvs (fun e0 o0 => interp n rt d e0 o0) kvs [] o) as [[m o1]| | | |] eqn:E; cbn;
      try apply good_err; try apply good_oof; try apply good_unm; [|exfalso; now apply Hn].
    apply good_ok. cbn. apply obj_forallb. eapply Hm. reflexivity.
  - (* Not *) apply good_bind; [now apply IH|]. intros v o1 Hv. now apply good_ok.
  - (* Projection *)
    apply good_bind; [now apply IH|]. intros lv o1 Hl. destruct lv; try (now apply good_ok).
    apply proj_loop_good; [intros e0 o' He0; now apply IH|now apply voks_forallb|constructor].
  - (* ObjectValues *)
    apply good_bind; [now apply IH|]. intros v o1 Hv. destruct v; try (now apply good_ok).
    apply good_ok. cbn in *. apply voks_forallb. apply obj_forallb in Hv. unfold voks. rewrite Forall_forall in *.
    intros x Hx. apply in_map_iff in Hx as (kv & <- & Hin). now apply Hv.
  - (* And *) apply good_bind; [now apply IH|]. intros lv o1 Hl. destruct (negb (is_truthy lv)); [now apply good_ok|now apply IH].
  - (* Or *) apply good_bind; [now apply IH|]. intros lv o1 Hl. destruct (is_truthy lv); [now apply good_ok|now apply IH].
  - (* Slice *)
    destruct (step =? 0) eqn:E0; [apply good_err|]. destruct d; try (now apply good_ok).
    destruct (slice_total l start stop step ltac:(lia) ltac:(lia)) as [E|E]; rewrite E; cbn; [apply good_unm|].
    apply good_ok. cbn. apply voks_forallb. cbn in Hd. apply voks_forallb in Hd.
    unfold voks in *. rewrite Forall_forall in *. intros x Hx. apply Hd. eapply select_in; eauto.
  - (* Subexpr *) apply good_bind; [now apply IH|]. intros lv o1 Hl. now apply IH.
Qed.

(** search never traps: any tree whose indexes are above i32::MIN (the lexer
    cannot produce i32::MIN; literals are JSON), any document without unsafe
    expression references (every JSON document), any registry with guarded
    builtins (the default runtime: checked on the generated table). *)
Corollary search_never_traps n rt a d :
  registry_safe rt = true -> vok d = true -> tree_ok a = true -> search_ast n rt a d <> Trap.
Proof.
  intros Hrt Hd Ha. unfold search_ast. destruct (interp_good n rt Hrt d a 0 Hd Ha) as [Hn _].
  destruct (interp n rt d a 0) as [[v o]| | | |]; cbn; try discriminate. exfalso. now apply Hn.
Qed.

(** every value without expression references (every JSON document) is safe *)
Lemma no_expref_vok : forall v, Proofs.CmpProof.no_expref v = true -> vok v = true.
Proof.
  fix IH 1. intros v. destruct v as [| | | |l|o|a]; cbn; intros H; try reflexivity; try discriminate.
  - induction l as [|x l IHl]; [reflexivity|]. cbn in *. apply andb_true_iff in H as [H1 H2]. rewrite (IH x H1). now apply IHl.
  - induction o as [|[k x] o IHo]; [reflexivity|]. cbn in *. apply andb_true_iff in H as [H1 H2]. rewrite (IH x H1). now apply IHo.
Qed.
