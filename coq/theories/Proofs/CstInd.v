(** Structural induction over syntax trees, with the nested lists. *)
From JP Require Import Base Value Lexer Spec.Grammar.

Section CstInd.
  Variables (P : cst -> Prop) (Q : cont -> Prop).
  Hypothesis HCurrent : P CCurrent.
  Hypothesis HIdent : forall s, P (CIdent s).
  Hypothesis HQIdent : forall s, P (CQIdent s).
  Hypothesis HLit : forall v, P (CLit v).
  Hypothesis HNot : forall x, P x -> P (CNot x).
  Hypothesis HParen : forall x, P x -> P (CParen x).
  Hypothesis HMList : forall e es, P e -> Forall P es -> P (CMList e es).
  Hypothesis HMHash : forall q k e kvs, P e -> Forall (fun kv : bool * str * cst => P (snd kv)) kvs -> P (CMHash (q, k, e) kvs).
  Hypothesis HCall : forall off name args, Forall (fun a : bool * cst => P (snd a)) args -> P (CCall off name args).
  Hypothesis HStarP : forall k, Q k -> P (CStarP k).
  Hypothesis HFlattenP : forall k, Q k -> P (CFlattenP k).
  Hypothesis HFilterP : forall p k, P p -> Q k -> P (CFilterP p k).
  Hypothesis HWildP : forall k, Q k -> P (CWildP k).
  Hypothesis HIndexP : forall n, P (CIndexP n).
  Hypothesis HSliceP : forall off sl k, Q k -> P (CSliceP off sl k).
  Hypothesis HBin : forall o l r, P l -> P r -> P (CBin o l r).
  Hypothesis HDot : forall l d, P l -> P d -> P (CDot l d).
  Hypothesis HDotStar : forall l k, P l -> Q k -> P (CDotStar l k).
  Hypothesis HIndex : forall l n, P l -> P (CIndex l n).
  Hypothesis HSlice : forall l off sl k, P l -> Q k -> P (CSlice l off sl k).
  Hypothesis HWild : forall l k, P l -> Q k -> P (CWild l k).
  Hypothesis HFlatten : forall l k, P l -> Q k -> P (CFlatten l k).
  Hypothesis HFilter : forall l p k, P l -> P p -> Q k -> P (CFilter l p k).
  Hypothesis HAmp : forall x, P x -> P (CAmp x).
  Hypothesis HCallOn : forall l off name args, P l -> Forall (fun a : bool * cst => P (snd a)) args -> P (CCallOn l off name args).
  Hypothesis HKNone : Q KNone.
  Hypothesis HKDot : forall d, P d -> Q (KDot d).
  Hypothesis HKExpr : forall x, P x -> Q (KExpr x).

  Fixpoint cst_ind' (c : cst) : P c :=
    match c with
    | CCurrent => HCurrent | CIdent s => HIdent s | CQIdent s => HQIdent s | CLit v => HLit v
    | CNot x => HNot x (cst_ind' x) | CParen x => HParen x (cst_ind' x)
    | CMList e es =>
        HMList e es (cst_ind' e)
          ((fix go (es : list cst) : Forall P es := match es with [] => Forall_nil _ | x :: r => Forall_cons _ (cst_ind' x) (go r) end) es)
    | CMHash (q, k, e) kvs =>
        HMHash q k e kvs (cst_ind' e)
          ((fix go (kvs : list (bool * str * cst)) : Forall (fun kv : bool * str * cst => P (snd kv)) kvs :=
              match kvs with [] => Forall_nil _ | (q', k', x) :: r => Forall_cons (q', k', x) (cst_ind' x) (go r) end) kvs)
    | CCall off name args =>
        HCall off name args
          ((fix go (args : list (bool * cst)) : Forall (fun a : bool * cst => P (snd a)) args :=
              match args with [] => Forall_nil _ | (b, x) :: r => Forall_cons (b, x) (cst_ind' x) (go r) end) args)
    | CStarP k => HStarP k (cont_ind' k) | CFlattenP k => HFlattenP k (cont_ind' k)
    | CFilterP p k => HFilterP p k (cst_ind' p) (cont_ind' k)
    | CWildP k => HWildP k (cont_ind' k) | CIndexP n => HIndexP n
    | CSliceP off sl k => HSliceP off sl k (cont_ind' k)
    | CBin o l r => HBin o l r (cst_ind' l) (cst_ind' r)
    | CDot l d => HDot l d (cst_ind' l) (cst_ind' d)
    | CDotStar l k => HDotStar l k (cst_ind' l) (cont_ind' k)
    | CIndex l n => HIndex l n (cst_ind' l)
    | CSlice l off sl k => HSlice l off sl k (cst_ind' l) (cont_ind' k)
    | CWild l k => HWild l k (cst_ind' l) (cont_ind' k)
    | CFlatten l k => HFlatten l k (cst_ind' l) (cont_ind' k)
    | CFilter l p k => HFilter l p k (cst_ind' l) (cst_ind' p) (cont_ind' k)
    | CAmp x => HAmp x (cst_ind' x)
    | CCallOn l off name args =>
        HCallOn l off name args (cst_ind' l)
          ((fix go (args : list (bool * cst)) : Forall (fun a : bool * cst => P (snd a)) args :=
              match args with [] => Forall_nil _ | (b, x) :: r => Forall_cons (b, x) (cst_ind' x) (go r) end) args)
    end
  with cont_ind' (k : cont) : Q k :=
    match k with
    | KNone => HKNone
    | KDot d => HKDot d (cst_ind' d)
    | KExpr x => HKExpr x (cst_ind' x)
    end.

  Theorem cst_cont_ind : (forall c, P c) /\ (forall k, Q k).
  Proof. split; [exact cst_ind'|exact cont_ind']. Qed.
End CstInd.
