(** C12: every failure of compile is a parse error (the lexer and the parser only
    ever build [EParse]). *)
From JP Require Import Base F64 Value JsonRead Lexer Parser.

Definition pe {A} (r : res A) : Prop := forall e, r = Err e -> exists p, e = EParse p.

Lemma pe_ok {A} (a : A) : pe (Ok a). Proof. intros e H. discriminate. Qed.
Lemma pe_oof {A} : pe (@OOF A). Proof. intros e H. discriminate. Qed.
Lemma pe_lex_err {A} p : pe (@lex_err A p). Proof. intros e H. injection H as <-. eauto. Qed.
Lemma pe_perr {A} st b : pe (@perr A st b). Proof. intros e H. unfold perr in H. injection H as <-. eauto. Qed.
Lemma pe_bind {A B} (r : res A) (k : A -> res B) : pe r -> (forall a, pe (k a)) -> pe (bind r k).
Proof.
  intros Hr Hk. destruct r as [a|e0| | |]; cbn; try (intros e H; discriminate); [apply Hk|].
  intros e H. injection H as <-. apply Hr. reflexivity.
Qed.
Lemma pe_no_err_j {A} (r : res A) : pe (no_err_j r).
Proof. destruct r; intros e' H; discriminate. Qed.

Ltac pe_step :=
  first [ apply pe_ok | apply pe_oof | apply pe_lex_err | apply pe_perr | apply pe_no_err_j
        | (apply pe_bind; [|intros]) ].

Lemma lex_go_pe : forall fuel s pos acc, pe (lex_go fuel s pos acc).
Proof.
  induction fuel as [|f IH]; intros s pos acc; [apply pe_oof|].
  destruct s as [|c r]; [apply pe_ok|]. cbn [lex_go].
  repeat match goal with
         | |- pe (if ?b then _ else _) => destruct b
         | |- pe (match ?x with _ => _ end) => destruct x
         | |- pe (let '(_, _) := ?x in _) => destruct x
         | |- pe (lex_go _ _ _ _) => apply IH
         | |- pe (bind _ _) => apply pe_bind; [apply pe_no_err_j|intros]
         | |- pe (lex_err _) => apply pe_lex_err
         end.
Qed.

Theorem tokenize_errors_are_parse_errors s : pe (tokenize s).
Proof. apply lex_go_pe. Qed.

Lemma pe_eparse {A} p : pe (@Err A (EParse p)).
Proof. intros e H. injection H as <-. eauto. Qed.

Section ParserErrors.
  Variables (L : token -> Z) (STOP : Z) (strict : bool).
  Notation expr' := (expr L STOP strict).

  Definition all_pe (n : nat) : Prop :=
    (forall rbp st, pe (expr L STOP strict n rbp st)) /\
    (forall rbp l st, pe (expr_loop L STOP strict n rbp l st)) /\
    (forall st, pe (nud L STOP strict n st)) /\
    (forall acc st, pe (parse_kvps L STOP strict n acc st)) /\
    (forall st, pe (parse_kvp L STOP strict n st)) /\
    (forall l st, pe (led L STOP strict n l st)) /\
    (forall l st, pe (parse_filter L STOP strict n l st)) /\
    (forall l st, pe (parse_flatten L STOP strict n l st)) /\
    (forall c l st, pe (parse_comparator L STOP strict n c l st)) /\
    (forall bp st, pe (parse_dot L STOP strict n bp st)) /\
    (forall bp st, pe (projection_rhs L STOP strict n bp st)) /\
    (forall l st, pe (parse_wildcard_index L STOP strict n l st)) /\
    (forall l st, pe (parse_wildcard_values L STOP strict n l st)) /\
    (forall st, pe (parse_index L STOP strict n st)) /\
    (forall p0 p1 p2 pos st, pe (index_loop L STOP strict n p0 p1 p2 pos st)) /\
    (forall st, pe (parse_multi_list L STOP strict n st)) /\
    (forall c acc st, pe (parse_list L STOP strict n c acc st)).

  Ltac pe_auto :=
    repeat match goal with
           | |- pe (Ok _) => apply pe_ok
           | |- pe OOF => apply pe_oof
           | |- pe (perr _ _) => apply pe_perr
           | |- pe (Err (EParse _)) => apply pe_eparse
           | H : _ |- pe _ => solve [apply H]
           | |- pe (bind _ _) => apply pe_bind; [|intros]
           | |- pe (if ?b then _ else _) => destruct b
           | |- pe (let '(_, _) := ?x in _) => destruct x
           | |- pe (match ?x with _ => _ end) => destruct x
           end.

  Lemma all_pe_holds n : all_pe n.
  Proof.
    induction n as [|n IH].
    - unfold all_pe. repeat split; intros; apply pe_oof.
    - destruct IH as (H1 & H2 & H3 & H4 & H5 & H6 & H7 & H8 & H9 & H10 & H11 & H12 & H13 & H14 & H15 & H16 & H17).
      unfold all_pe. repeat split; intros.
      + cbn [expr]. pe_auto.
      + cbn [expr_loop]. pe_auto.
      + cbn [nud]. pe_auto.
      + cbn [parse_kvps]. pe_auto.
      + cbn [parse_kvp]. pe_auto.
      + cbn [led]. pe_auto.
      + cbn [parse_filter]. pe_auto.
      + cbn [parse_flatten]. pe_auto.
      + cbn [parse_comparator]. pe_auto.
      + cbn [parse_dot]. pe_auto.
      + cbn [projection_rhs]. pe_auto.
      + cbn [parse_wildcard_index]. pe_auto.
      + cbn [parse_wildcard_values]. pe_auto.
      + cbn [parse_index]. pe_auto.
      + cbn [index_loop]. pe_auto.
      + cbn [parse_multi_list]. pe_auto.
      + cbn [parse_list]. pe_auto.
  Qed.

  Lemma parse_tokens_pe fuel toks : pe (parse_tokens L STOP strict fuel toks).
  Proof.
    unfold parse_tokens. apply pe_bind; [apply (all_pe_holds fuel)|]. intros [result st].
    destruct (peek st 0); try apply pe_perr. apply pe_ok.
  Qed.
End ParserErrors.

(** Every failure of compile is a parse error. *)
Theorem compile_errors_are_parse_errors s : pe (parse s).
Proof.
  unfold parse. apply pe_bind; [apply tokenize_errors_are_parse_errors|]. intros toks. apply parse_tokens_pe.
Qed.

(* ---------- compile never traps (C05) ---------- *)
Definition nt {A} (r : res A) : Prop := r <> Trap.

Lemma nt_ok {A} (a : A) : nt (Ok a). Proof. discriminate. Qed.
Lemma nt_oof {A} : nt (@OOF A). Proof. discriminate. Qed.
Lemma nt_unm {A} : nt (@Unmodelled A). Proof. discriminate. Qed.
Lemma nt_err {A} e : nt (@Err A e). Proof. discriminate. Qed.
Lemma nt_perr {A} st b : nt (@perr A st b). Proof. discriminate. Qed.
Lemma nt_bind {A B} (r : res A) (k : A -> res B) : nt r -> (forall a, nt (k a)) -> nt (bind r k).
Proof. intros Hr Hk. destruct r; cbn; try discriminate; [apply Hk|exfalso; apply Hr; reflexivity]. Qed.

Ltac nt_auto :=
  repeat match goal with
         | |- nt (Ok _) => apply nt_ok
         | |- nt OOF => apply nt_oof
         | |- nt Unmodelled => apply nt_unm
         | |- nt (Err _) => apply nt_err
         | |- nt (lex_err _) => apply nt_err
         | |- nt (perr _ _) => apply nt_perr
         | H : _ |- nt _ => solve [apply H]
         | |- nt (bind _ _) => apply nt_bind; [|intros]
         | |- nt (if ?b then _ else _) => destruct b
         | |- nt (let '(_, _) := ?x in _) => destruct x
         | |- nt (match ?x with _ => _ end) => destruct x
         end.

(** the JSON reader model *)
Lemma f64_from_parts_go_nt fuel : forall f e, nt (f64_from_parts_go fuel f e).
Proof. induction fuel as [|fu IH]; intros f e; cbn [f64_from_parts_go]; nt_auto. Qed.

Lemma f64_from_parts_nt p s e : nt (f64_from_parts p s e).
Proof. unfold f64_from_parts. apply nt_bind; [apply f64_from_parts_go_nt|intros; apply nt_ok]. Qed.

Lemma lift_f_nt r rest : nt r -> nt (lift_f r rest).
Proof. intros H. unfold lift_f. apply nt_bind; [exact H|intros; apply nt_ok]. Qed.

Lemma parse_exponent_nt p s e str0 : nt (parse_exponent p s e str0).
Proof.
  unfold parse_exponent.
  repeat match goal with
         | |- nt (lift_f _ _) => apply lift_f_nt, f64_from_parts_nt
         | |- nt (Ok _) => apply nt_ok
         | |- nt (if ?b then _ else _) => destruct b
         | |- nt (let '(_, _) := ?x in _) => destruct x
         | |- nt (match ?x with _ => _ end) => destruct x
         end.
Qed.

Lemma parse_decimal_nt p s e str0 : nt (parse_decimal p s e str0).
Proof.
  unfold parse_decimal.
  repeat match goal with
         | |- nt (lift_f _ _) => apply lift_f_nt, f64_from_parts_nt
         | |- nt (parse_exponent _ _ _ _) => apply parse_exponent_nt
         | |- nt (Ok _) => apply nt_ok
         | |- nt (if ?b then _ else _) => destruct b
         | |- nt (let '(_, _) := ?x in _) => destruct x
         | |- nt (match ?x with _ => _ end) => destruct x
         end.
Qed.

Lemma parse_number_nt p s str0 : nt (parse_number p s str0).
Proof.
  unfold parse_number.
  repeat match goal with
         | |- nt (parse_decimal _ _ _ _) => apply parse_decimal_nt
         | |- nt (parse_exponent _ _ _ _) => apply parse_exponent_nt
         | |- nt (Ok _) => apply nt_ok
         | |- nt (if ?b then _ else _) => destruct b
         | |- nt (match ?x with _ => _ end) => destruct x
         end.
Qed.

Lemma parse_integer_nt p str0 : nt (parse_integer p str0).
Proof.
  unfold parse_integer.
  repeat match goal with
         | |- nt (lift_f _ _) => apply lift_f_nt, f64_from_parts_nt
         | |- nt (parse_number _ _ _) => apply parse_number_nt
         | |- nt (parse_decimal _ _ _ _) => apply parse_decimal_nt
         | |- nt (parse_exponent _ _ _ _) => apply parse_exponent_nt
         | |- nt (Ok _) => apply nt_ok
         | |- nt (if ?b then _ else _) => destruct b
         | |- nt (let '(_, _) := ?x in _) => destruct x
         | |- nt (match ?x with _ => _ end) => destruct x
         end.
Qed.

Lemma parse_value_nt : forall fuel,
  (forall d s, nt (parse_value fuel d s)) /\ (forall d s, nt (parse_elems fuel d s)) /\ (forall d s acc, nt (parse_members fuel d s acc)).
Proof.
  induction fuel as [|fu (H1 & H2 & H3)]; [repeat split; intros; apply nt_oof|].
  repeat split; intros.
  - cbn [parse_value].
    repeat match goal with
           | |- nt (Ok _) => apply nt_ok
           | H : _ |- nt _ => solve [apply H]
           | |- nt (bind (parse_integer _ _) _) => apply nt_bind; [apply parse_integer_nt|intros]
           | |- nt (bind _ _) => apply nt_bind; [|intros]
           | |- nt (if ?b then _ else _) => destruct b
           | |- nt (let '(_, _) := ?x in _) => destruct x
           | |- nt (match ?x with _ => _ end) => destruct x
           end.
  - cbn [parse_elems]. nt_auto.
  - cbn [parse_members]. nt_auto.
Qed.

Lemma from_json_nt s : nt (from_json s).
Proof. unfold from_json. apply nt_bind; [apply (parse_value_nt _)|]. intros o. nt_auto. Qed.

Lemma no_err_j_nt {A} (r : res A) : nt r -> nt (no_err_j r).
Proof. intros H. destruct r; try discriminate. exact H. Qed.

Lemma lex_go_nt : forall fuel s pos acc, nt (lex_go fuel s pos acc).
Proof.
  induction fuel as [|f IH]; intros s pos acc; [apply nt_oof|].
  destruct s as [|c r]; [apply nt_ok|]. cbn [lex_go].
  repeat match goal with
         | |- nt (if ?b then _ else _) => destruct b
         | |- nt (match ?x with _ => _ end) => destruct x
         | |- nt (let '(_, _) := ?x in _) => destruct x
         | |- nt (lex_go _ _ _ _) => apply IH
         | |- nt (bind _ _) => apply nt_bind; [apply no_err_j_nt, from_json_nt|intros]
         | |- nt (lex_err _) => apply nt_err
         end.
Qed.

Section ParserNoTrap.
  Variables (L : token -> Z) (STOP : Z) (strict : bool).

  Definition all_nt (n : nat) : Prop :=
    (forall rbp st, nt (expr L STOP strict n rbp st)) /\
    (forall rbp l st, nt (expr_loop L STOP strict n rbp l st)) /\
    (forall st, nt (nud L STOP strict n st)) /\
    (forall acc st, nt (parse_kvps L STOP strict n acc st)) /\
    (forall st, nt (parse_kvp L STOP strict n st)) /\
    (forall l st, nt (led L STOP strict n l st)) /\
    (forall l st, nt (parse_filter L STOP strict n l st)) /\
    (forall l st, nt (parse_flatten L STOP strict n l st)) /\
    (forall c l st, nt (parse_comparator L STOP strict n c l st)) /\
    (forall bp st, nt (parse_dot L STOP strict n bp st)) /\
    (forall bp st, nt (projection_rhs L STOP strict n bp st)) /\
    (forall l st, nt (parse_wildcard_index L STOP strict n l st)) /\
    (forall l st, nt (parse_wildcard_values L STOP strict n l st)) /\
    (forall st, nt (parse_index L STOP strict n st)) /\
    (forall p0 p1 p2 pos st, nt (index_loop L STOP strict n p0 p1 p2 pos st)) /\
    (forall st, nt (parse_multi_list L STOP strict n st)) /\
    (forall c acc st, nt (parse_list L STOP strict n c acc st)).

  Lemma all_nt_holds n : all_nt n.
  Proof.
    induction n as [|n IH].
    - unfold all_nt. repeat split; intros; apply nt_oof.
    - destruct IH as (H1 & H2 & H3 & H4 & H5 & H6 & H7 & H8 & H9 & H10 & H11 & H12 & H13 & H14 & H15 & H16 & H17).
      unfold all_nt. repeat split; intros.
      + cbn [expr]. nt_auto.
      + cbn [expr_loop]. nt_auto.
      + cbn [nud]. nt_auto.
      + cbn [parse_kvps]. nt_auto.
      + cbn [parse_kvp]. nt_auto.
      + cbn [led]. nt_auto.
      + cbn [parse_filter]. nt_auto.
      + cbn [parse_flatten]. nt_auto.
      + cbn [parse_comparator]. nt_auto.
      + cbn [parse_dot]. nt_auto.
      + cbn [projection_rhs]. nt_auto.
      + cbn [parse_wildcard_index]. nt_auto.
      + cbn [parse_wildcard_values]. nt_auto.
      + cbn [parse_index]. nt_auto.
      + cbn [index_loop]. nt_auto.
      + cbn [parse_multi_list]. nt_auto.
      + cbn [parse_list]. nt_auto.
  Qed.
End ParserNoTrap.

(** compile never panics: the lexer, the embedded JSON reader and the parser contain
    no reachable trap (no unchecked arithmetic, no out-of-bounds index, no unreachable arm). *)
Theorem compile_never_traps s : nt (parse s).
Proof.
  unfold parse. apply nt_bind; [apply lex_go_nt|]. intros toks. unfold parse_tokens.
  apply nt_bind; [apply (all_nt_holds lbp Gen.Tables.gen_projection_stop false _)|]. intros [result st].
  destruct (peek st 0); try apply nt_perr. apply nt_ok.
Qed.
