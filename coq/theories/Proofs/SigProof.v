(** C06: signature checking is the declarative decision procedure, and the
    code's argument types mean what the specification's types mean. *)
From Coq Require Import ZifyBool.
From JP Require Import Base F64 Value Sig Functions Spec.SigSpec Proofs.CmpProof.

(* ---------- validate = validate_spec ---------- *)
Lemma validate_args_first_bad : forall args pre inputs var k off,
  (inputs <> [] -> k = length pre) -> (inputs = [] -> (length pre <= k)%nat) ->
  (var = None -> (length args <= length inputs)%nat) ->
  validate_args inputs var args (Z.of_nat k) off =
    match first_bad (mkSig (pre ++ inputs) var) args k with
    | Some (j, t, v) => Err (ERuntime (KInvalidType (argtype_name t) (type_name (get_type v)) (Z.of_nat j)) off)
    | None => Ok tt
    end.
Proof.
  induction args as [|v args IH]; intros pre inputs var k off Hk1 Hk2 Hlen; cbn [validate_args first_bad]; [reflexivity|].
  destruct inputs as [|t inputs].
  - assert (param_type (mkSig (pre ++ []) var) k = var) as ->.
    { unfold param_type. cbn [sig_inputs sig_variadic]. rewrite app_nil_r.
      specialize (Hk2 eq_refl). destruct (nth_error pre k) eqn:E; [|reflexivity].
      exfalso. assert (nth_error pre k <> None) as Hn by congruence. apply nth_error_Some in Hn. lia. }
    destruct var as [t|].
    + unfold validate_arg. destruct (is_valid t v); [|reflexivity]. cbn [bind].
      replace (Z.of_nat k + 1) with (Z.of_nat (S k)) by lia.
      apply (IH pre [] (Some t) (S k) off); [congruence|intros _; specialize (Hk2 eq_refl); lia|discriminate].
    + specialize (Hlen eq_refl). cbn in Hlen. lia.
  - assert (k = length pre) as -> by (apply Hk1; discriminate).
    assert (param_type (mkSig (pre ++ t :: inputs) var) (length pre) = Some t) as ->.
    { unfold param_type. cbn [sig_inputs]. rewrite nth_error_app2 by lia. rewrite Nat.sub_diag. reflexivity. }
    unfold validate_arg. destruct (is_valid t v); [|reflexivity]. cbn [bind].
    replace (Z.of_nat (length pre) + 1) with (Z.of_nat (S (length pre))) by lia.
    replace (pre ++ t :: inputs) with ((pre ++ [t]) ++ inputs) by (rewrite <- app_assoc; reflexivity).
    apply (IH (pre ++ [t]) inputs var (S (length pre)) off).
    + intros _. rewrite app_length. cbn. lia.
    + intros _. rewrite app_length. cbn. lia.
    + intros Hv. specialize (Hlen Hv). cbn in Hlen. lia.
Qed.

Theorem validate_decision sg args off : validate sg args off = validate_spec sg args off.
Proof.
  unfold validate, validate_spec, validate_arity. destruct sg as [inputs var]. cbn [sig_inputs sig_variadic].
  unfold zlen. destruct var as [t|].
  - destruct (Z.of_nat (length args) >=? Z.of_nat (length inputs)) eqn:E.
    + assert ((Z.of_nat (length args) <? Z.of_nat (length inputs)) = false) as -> by lia. cbn [bind].
      apply (validate_args_first_bad args [] inputs (Some t) 0 off); [reflexivity|intros _; cbn; lia|discriminate].
    + assert ((Z.of_nat (length args) <? Z.of_nat (length inputs)) = true) as -> by lia. reflexivity.
  - destruct (Z.of_nat (length args) =? Z.of_nat (length inputs)) eqn:E.
    + assert ((Z.of_nat (length args) <? Z.of_nat (length inputs)) = false) as -> by lia.
      assert ((Z.of_nat (length inputs) <? Z.of_nat (length args)) = false) as -> by lia. cbn [bind].
      apply (validate_args_first_bad args [] inputs None 0 off); [reflexivity|intros _; cbn; lia|intros _; lia].
    + destruct (Z.of_nat (length args) <? Z.of_nat (length inputs)) eqn:E2; [reflexivity|].
      assert ((Z.of_nat (length inputs) <? Z.of_nat (length args)) = true) as -> by lia. reflexivity.
Qed.

(** Consequences named by the property. *)
Lemma arity_checked_first sg args off :
  zlen args < zlen (sig_inputs sg) ->
  validate sg args off = Err (ERuntime (KNotEnough (zlen (sig_inputs sg)) (zlen args)) off).
Proof. intros H. rewrite validate_decision. unfold validate_spec. assert ((zlen args <? zlen (sig_inputs sg)) = true) as -> by lia. reflexivity. Qed.

Lemma too_many_rejected sg args off :
  sig_variadic sg = None -> zlen (sig_inputs sg) < zlen args ->
  validate sg args off = Err (ERuntime (KTooMany (zlen (sig_inputs sg)) (zlen args)) off).
Proof.
  intros Hv H. rewrite validate_decision. unfold validate_spec. rewrite Hv.
  assert ((zlen args <? zlen (sig_inputs sg)) = false) as -> by lia.
  assert ((zlen (sig_inputs sg) <? zlen args) = true) as -> by lia. reflexivity.
Qed.

Lemma validate_ok_iff sg args off :
  validate sg args off = Ok tt <->
  (zlen (sig_inputs sg) <= zlen args /\ (sig_variadic sg = None -> zlen args = zlen (sig_inputs sg)) /\ first_bad sg args 0 = None).
Proof.
  rewrite validate_decision. unfold validate_spec.
  destruct (zlen args <? zlen (sig_inputs sg)) eqn:E1.
  { split; [discriminate|]. intros (H & _ & _). lia. }
  destruct (sig_variadic sg) as [t|] eqn:Ev.
  { destruct (first_bad sg args 0) as [[[k t'] v]|] eqn:Ef.
    - split; [discriminate|]. intros (_ & _ & H). discriminate.
    - split; [|reflexivity]. intros _. split; [lia|]. split; [discriminate|reflexivity]. }
  destruct (zlen (sig_inputs sg) <? zlen args) eqn:E2.
  { split; [discriminate|]. intros (_ & H & _). specialize (H eq_refl). lia. }
  destruct (first_bad sg args 0) as [[[k t'] v]|] eqn:Ef.
  - split; [discriminate|]. intros (_ & _ & H). discriminate.
  - split; [|reflexivity]. intros _. split; [lia|]. split; [intros _; lia|reflexivity].
Qed.

(** Every builtin validates before doing anything else: a signature error of the call is exactly [validate]'s. *)
Lemma call_validates_first ev b sg args off e :
  validate sg args off = Err e -> call_builtin ev b sg args off = Err e.
Proof. intros H. unfold call_builtin. rewrite H. reflexivity. Qed.

(* ---------- argument types mean what the specification's types mean ---------- *)
Lemma stype_eqb_eq a b : stype_eqb a b = true -> a = b.
Proof.
  revert b; induction a; intros b H; destruct b; cbn in H; try discriminate; try reflexivity.
  - f_equal. auto.
  - apply andb_true_iff in H as [H1 H2]. f_equal; auto.
Qed.

Lemma atom_eqb_eq a b : atom_eqb a b = true -> a = b.
Proof. destruct a, b; cbn; intros H; try discriminate; try reflexivity. f_equal. now apply stype_eqb_eq. Qed.

Lemma has_stype_atoms t v : has_stype t v = existsb (has_atom v) (atoms t).
Proof.
  induction t; cbn [atoms has_stype existsb has_atom]; try (destruct v; reflexivity).
  - now rewrite orb_false_r.
  - rewrite existsb_app, IHt1, IHt2. reflexivity.
Qed.

Lemma subset_existsb v x y : atom_subset x y = true -> existsb (has_atom v) x = true -> existsb (has_atom v) y = true.
Proof.
  unfold atom_subset. intros Hs Hx. apply existsb_exists in Hx as (a & Ha & Hv).
  rewrite forallb_forall in Hs. specialize (Hs a Ha). apply existsb_exists in Hs as (b & Hb & Hab).
  apply atom_eqb_eq in Hab. subst. apply existsb_exists. eauto.
Qed.

Theorem stype_equiv_sound a b : stype_equiv a b = true -> forall v, has_stype a v = has_stype b v.
Proof.
  unfold stype_equiv. intros H v. apply andb_true_iff in H as [H1 H2].
  rewrite !has_stype_atoms.
  destruct (existsb (has_atom v) (atoms a)) eqn:Ea, (existsb (has_atom v) (atoms b)) eqn:Eb; try reflexivity.
  - rewrite (subset_existsb v _ _ H1 Ea) in Eb. discriminate.
  - rewrite (subset_existsb v _ _ H2 Eb) in Ea. discriminate.
Qed.

(** [ArgumentType::is_valid] is [has_stype] of the translated type on every value
    that contains no expression reference in a data position ... *)
Lemma is_valid_stype : forall t v, no_expref v = true -> is_valid t v = has_stype (stype_of t) v.
Proof.
  fix IH 1. intros t v Hv. destruct t; cbn [is_valid stype_of has_stype]; try (destruct v; try reflexivity; discriminate).
  - (* typed array *)
    destruct v; try reflexivity. cbn [no_expref] in Hv.
    induction l as [|x l IHl]; [reflexivity|]. cbn in Hv. apply andb_true_iff in Hv as [H1 H2].
    cbn [forallb]. rewrite (IH t x H1). f_equal. apply IHl. exact H2.
  - (* union *)
    induction ts as [|t' ts IHts]; [reflexivity|].
    destruct ts as [|t'' ts'].
    + rewrite (IH t' v Hv). now rewrite orb_false_r.
    + rewrite (IH t' v Hv). cbn [has_stype]. f_equal. exact IHts.
Qed.

(** ... and the only difference on other values is that the code's [Any] also
    admits expression references (deviation D10). *)
Lemma is_valid_any_refuted : exists v, is_valid TyAny v = true /\ has_stype (stype_of TyAny) v = false.
Proof. exists (VExpref AIdentity). split; reflexivity. Qed.

(** [first_bad] in specification terms. *)
Lemma first_bad_none_iff sg args k :
  first_bad sg args k = None <->
  forall i v, nth_error args i = Some v ->
    match param_type sg (k + i) with Some t => is_valid t v = true | None => True end \/
    exists j, (j < i)%nat /\ param_type sg (k + j) = None.
Proof.
  revert k; induction args as [|a args IH]; intros k; cbn [first_bad].
  - split; [intros _ i v H; destruct i; discriminate|reflexivity].
  - destruct (param_type sg k) as [t|] eqn:Ep.
    + destruct (is_valid t a) eqn:Ea.
      * rewrite IH. split; intros H i v Hi.
        -- destruct i as [|i]; cbn in Hi.
           ++ injection Hi as <-. left. rewrite Nat.add_0_r, Ep. exact Ea.
           ++ destruct (H i v Hi) as [H1|(j & Hj & Hp)].
              ** left. replace (k + S i)%nat with (S k + i)%nat by lia. exact H1.
              ** right. exists (S j). split; [lia|]. replace (k + S j)%nat with (S k + j)%nat by lia. exact Hp.
        -- destruct (H (S i) v Hi) as [H1|(j & Hj & Hp)].
           ++ left. replace (S k + i)%nat with (k + S i)%nat by lia. exact H1.
           ++ destruct j as [|j].
              ** rewrite Nat.add_0_r, Ep in Hp. discriminate.
              ** right. exists j. split; [lia|]. replace (S k + j)%nat with (k + S j)%nat by lia. exact Hp.
      * split; [discriminate|]. intros H. destruct (H 0%nat a eq_refl) as [H1|(j & Hj & _)]; [|lia].
        rewrite Nat.add_0_r, Ep in H1. congruence.
    + split; [|reflexivity]. intros _ i v Hi. destruct i as [|i].
      * left. rewrite Nat.add_0_r, Ep. exact I.
      * right. exists 0%nat. split; [lia|]. now rewrite Nat.add_0_r.
Qed.
