(** Objects are association lists kept sorted by key (the [BTreeMap] of the
    code): insertion preserves the order and behaves as a finite-map update. *)
From Coq Require Import Sorting.Sorted.
From JP Require Import Base Value.

Definition key_lt {A} (a b : str * A) : Prop := str_cmp (fst a) (fst b) = Lt.
Definition sorted_keys {A} (o : list (str * A)) : Prop := StronglySorted key_lt o.

Lemma str_eqb_cmp a b : str_eqb a b = match str_cmp a b with Eq => true | _ => false end.
Proof.
  destruct (str_cmp a b) eqn:E.
  - apply str_cmp_eq in E. subst. apply str_eqb_refl.
  - destruct (str_eqb a b) eqn:E2; [|reflexivity]. apply str_eqb_eq in E2. subst.
    assert (str_cmp b b = Eq) by (apply str_cmp_eq; reflexivity). congruence.
  - destruct (str_eqb a b) eqn:E2; [|reflexivity]. apply str_eqb_eq in E2. subst.
    assert (str_cmp b b = Eq) by (apply str_cmp_eq; reflexivity). congruence.
Qed.

Lemma str_eqb_sym a b : str_eqb a b = str_eqb b a.
Proof.
  destruct (str_eqb a b) eqn:E1, (str_eqb b a) eqn:E2; try reflexivity.
  - apply str_eqb_eq in E1. subst. rewrite str_eqb_refl in E2. discriminate.
  - apply str_eqb_eq in E2. subst. rewrite str_eqb_refl in E1. discriminate.
Qed.

Lemma obj_insert_Forall {A} (P : str * A -> Prop) o k v :
  P (k, v) -> Forall P o -> Forall P (obj_insert o k v).
Proof.
  intros Hp Ho. induction o as [|[k' v'] o IH]; cbn.
  - constructor; auto.
  - inversion Ho; subst. destruct (str_cmp k k'); constructor; auto.
Qed.

Lemma obj_insert_sorted {A} (o : list (str * A)) k v : sorted_keys o -> sorted_keys (obj_insert o k v).
Proof.
  intros Hs. induction o as [|[k' v'] o IH]; cbn.
  - constructor; constructor.
  - apply StronglySorted_inv in Hs as [Hs Hall].
    destruct (str_cmp k k') eqn:E.
    + apply str_cmp_eq in E. subst. constructor; assumption.
    + constructor; [constructor; assumption|]. constructor; [exact E|].
      eapply Forall_impl; [|exact Hall]. intros [k2 v2] H2. unfold key_lt in *. cbn in *.
      eapply str_cmp_lt_trans; eauto.
    + constructor; [apply IH; assumption|].
      apply obj_insert_Forall; [|assumption]. unfold key_lt. cbn.
      rewrite str_cmp_antisym, E. reflexivity.
Qed.

(** Finite-map reading: lookup after insertion. *)
Lemma obj_get_insert {A} (o : list (str * A)) k v k' :
  obj_get (obj_insert o k v) k' = if str_eqb k' k then Some v else obj_get o k'.
Proof.
  induction o as [|[k1 v1] o IH]; cbn.
  - reflexivity.
  - destruct (str_cmp k k1) eqn:E; cbn.
    + apply str_cmp_eq in E. subst. destruct (str_eqb k' k1); reflexivity.
    + reflexivity.
    + rewrite IH. destruct (str_eqb k' k1) eqn:E1; [|reflexivity].
      destruct (str_eqb k' k) eqn:E2; [|reflexivity].
      apply str_eqb_eq in E1, E2. subst. assert (str_cmp k1 k1 = Eq) by (apply str_cmp_eq; reflexivity). congruence.
Qed.

(** Record construction (multi-select hash, [merge]): the last binding of a key wins. *)
Fixpoint last_binding {A} (kvs : list (str * A)) (k : str) : option A :=
  match kvs with
  | [] => None
  | (k', v) :: r => match last_binding r k with Some x => Some x | None => if str_eqb k k' then Some v else None end
  end.

Lemma fold_insert_get {A} (kvs : list (str * A)) acc k :
  obj_get (fold_left (fun m kv => obj_insert m (fst kv) (snd kv)) kvs acc) k =
    match last_binding kvs k with Some v => Some v | None => obj_get acc k end.
Proof.
  revert acc; induction kvs as [|[k' v] kvs IH]; intros acc; cbn; [reflexivity|].
  rewrite IH. destruct (last_binding kvs k); [reflexivity|].
  rewrite obj_get_insert. destruct (str_eqb k k'); reflexivity.
Qed.

Lemma fold_insert_sorted {A} (kvs : list (str * A)) acc :
  sorted_keys acc -> sorted_keys (fold_left (fun m kv => obj_insert m (fst kv) (snd kv)) kvs acc).
Proof.
  revert acc; induction kvs as [|[k v] kvs IH]; intros acc H; cbn; [assumption|].
  apply IH. apply obj_insert_sorted. assumption.
Qed.
