(** C03/C04: completeness of the reference parser — every well-formed,
    disambiguated syntax tree of the grammar is accepted, and the tree returned
    is its abstract tree (up to the offsets used for error reporting). *)
From Coq Require Import ZifyBool.
From JP Require Import Base Value Lexer Parser Gen.Tables Spec.TableSpec Spec.Grammar Spec.Prec
     Spec.Disamb Proofs.GrammarProof Proofs.ParseMonoProof Proofs.ParseFuelProof Proofs.CstInd.

(* ---------- trees up to their offset annotations ---------- *)
Fixpoint shape (c : cst) : cst :=
  match c with
  | CCurrent | CIdent _ | CQIdent _ | CLit _ | CIndexP _ => c
  | CNot x => CNot (shape x)
  | CParen x => CParen (shape x)
  | CMList e es => CMList (shape e) ((fix go (es : list cst) : list cst := match es with [] => [] | x :: r => shape x :: go r end) es)
  | CMHash (q, k, e) kvs =>
      CMHash (q, k, shape e)
        ((fix go (kvs : list (bool * str * cst)) : list (bool * str * cst) :=
            match kvs with [] => [] | (q', k', x) :: r => (q', k', shape x) :: go r end) kvs)
  | CCall _ name args =>
      CCall 0 name ((fix go (args : list (bool * cst)) : list (bool * cst) := match args with [] => [] | (b, x) :: r => (b, shape x) :: go r end) args)
  | CStarP k => CStarP (shapek k)
  | CFlattenP k => CFlattenP (shapek k)
  | CFilterP p k => CFilterP (shape p) (shapek k)
  | CWildP k => CWildP (shapek k)
  | CSliceP _ sl k => CSliceP 0 sl (shapek k)
  | CBin o l r => CBin o (shape l) (shape r)
  | CDot l d => CDot (shape l) (shape d)
  | CDotStar l k => CDotStar (shape l) (shapek k)
  | CIndex l n => CIndex (shape l) n
  | CSlice l _ sl k => CSlice (shape l) 0 sl (shapek k)
  | CWild l k => CWild (shape l) (shapek k)
  | CFlatten l k => CFlatten (shape l) (shapek k)
  | CFilter l p k => CFilter (shape l) (shape p) (shapek k)
  | CAmp x => CAmp (shape x)
  | CCallOn l _ name args =>
      CCallOn (shape l) 0 name ((fix go (args : list (bool * cst)) : list (bool * cst) := match args with [] => [] | (b, x) :: r => (b, shape x) :: go r end) args)
  end
with shapek (k : cont) : cont :=
  match k with
  | KNone => KNone
  | KDot d => KDot (shape d)
  | KExpr x => KExpr (shape x)
  end.

Definition shapes (es : list cst) : list cst := map shape es.

Lemma shape_mlist e es : shape (CMList e es) = CMList (shape e) (map shape es).
Proof. reflexivity. Qed.
Lemma shape_mhash q k e kvs : shape (CMHash (q, k, e) kvs) = CMHash (q, k, shape e) (map (fun kv : bool * str * cst => (fst kv, shape (snd kv))) kvs).
Proof. cbn [shape]. f_equal. induction kvs as [|[[q' k'] x] r IH]; [reflexivity|]. cbn [map fst snd]. f_equal. exact IH. Qed.
Lemma shape_call off name args : shape (CCall off name args) = CCall 0 name (map (fun a : bool * cst => (fst a, shape (snd a))) args).
Proof. cbn [shape]. f_equal. induction args as [|[b x] r IH]; [reflexivity|]. cbn [map fst snd]. f_equal. exact IH. Qed.

(* ---------- how a tree starts ---------- *)
Definition is_headform (c : cst) : bool :=
  match c with
  | CBin _ _ _ | CDot _ _ | CDotStar _ _ | CIndex _ _ | CSlice _ _ _ _ | CWild _ _ | CFlatten _ _ | CFilter _ _ _ | CCallOn _ _ _ _ => false
  | _ => true
  end.

Lemma head_is_headform c : is_headform (head c) = true.
Proof. induction c; cbn [head]; try reflexivity; assumption. Qed.

Lemma flat_head c : exists r, flat c = flat (head c) ++ r.
Proof.
  induction c; cbn [head]; try (exists []; now rewrite app_nil_r);
    cbn [flat]; match goal with IH : exists r, flat ?l = flat (head ?l) ++ r |- exists r, flat ?l ++ _ = _ => destruct IH as [r0 Er]; rewrite Er, <- app_assoc; eexists; reflexivity end.
Qed.

Definition starter (t : token) : bool :=
  match t with
  | TAt | TIdentifier _ | TQuotedIdentifier _ | TLiteral _ | TNot | TLparen | TLbracket | TLbrace | TStar | TFlatten | TFilter => true
  | _ => false
  end.

Lemma wf_head c : wf c -> wf (head c).
Proof. induction c; cbn [head]; try (intros H; exact H); cbn [wfb]; intros H; try (apply IHc1; apply H); try (apply IHc; apply H). Qed.

Lemma flat_first c : wf c -> exists t r, flat c = t :: r /\ starter t = true.
Proof.
  intros Hw. destruct (flat_head c) as [r0 E]. apply wf_head in Hw. rewrite E. pose proof (head_is_headform c) as Hh.
  destruct (head c) as [| | | | | |e es|[[q k] e] kvs|off name args| | | | | | | | | | | | | | |x|l off name args]; cbn [flat app];
    try (eexists _, _; split; [reflexivity|reflexivity]); try discriminate Hh.
  cbn [wfb] in Hw. destruct Hw as [Hw _]. discriminate.
Qed.

(* ---------- separated lists ---------- *)
Definition close_tok (c : closing) : token := match c with CloseBracket => TRbracket | CloseParen => TRparen end.
Fixpoint items_tail (close : token) (items : list (bool * cst)) : list token :=
  match items with [] => [close] | a :: r => TComma :: flat_arg a ++ items_tail close r end.
Definition shape_arg (a : bool * cst) : bool * cst := (fst a, shape (snd a)).

Lemma args_tail_items args : args_tail args = items_tail TRparen args.
Proof. induction args as [|a r IH]; cbn [args_tail items_tail]; [reflexivity|now rewrite IH]. Qed.
Lemma mlist_tail_items es : mlist_tail es = items_tail TRbracket (map (pair false) es).
Proof. induction es as [|x r IH]; cbn [mlist_tail items_tail map]; [reflexivity|]. unfold flat_arg. cbn [fst snd app]. now rewrite IH. Qed.

(* ---------- eventual results ---------- *)
Section Complete.
  Variable T : tk -> Z.
  Variable STOP : Z.
  Hypothesis Hord : table_order_ok T STOP = true.
  Definition L (t : token) : Z := T (kind_of t).
  (** [strict = true]: the reference parser; [strict = false]: the code *)
  Variable strict : bool.

  Notation expr' := (expr L STOP strict).
  Notation expr_loop' := (expr_loop L STOP strict).
  Notation nud' := (nud L STOP strict).
  Notation led' := (led L STOP strict).

  (** [ev F r]: for all sufficiently large fuel, [F fuel = Ok r] *)
  Definition ev {A} (F : nat -> res A) (r : A) : Prop := exists f0, forall f, (f0 <= f)%nat -> F f = Ok r.

  Lemma ev_S {A} (F : nat -> res A) (G : nat -> res A) r : (forall f, F (S f) = G f) -> ev G r -> ev F r.
  Proof. intros HFG [f0 H]. exists (S f0). intros f Hf. destruct f as [|f]; [lia|]. rewrite HFG. apply H. lia. Qed.

  Lemma ev_bind {A B} (G : nat -> res A) (k : nat -> A -> res B) a b :
    ev G a -> ev (fun f => k f a) b -> ev (fun f => bind (G f) (k f)) b.
  Proof.
    intros [f1 H1] [f2 H2]. exists (Nat.max f1 f2). intros f Hf. rewrite H1 by lia. cbn [bind]. apply H2. lia.
  Qed.

  Lemma ev_const {A} (r : A) : ev (fun _ => Ok r) r.
  Proof. exists 0%nat. reflexivity. Qed.

  (* ---------- the table ---------- *)
  Lemma table_facts :
    0 < L TPipe /\ L TPipe < L TOr /\ L TOr < L TAnd /\ L TAnd < L TEq /\
    L TEq = L TNe /\ L TEq = L TLt /\ L TEq = L TLte /\ L TEq = L TGt /\ L TEq = L TGte /\
    L TEq < L TFlatten /\ L TFlatten < STOP /\ STOP <= L TStar /\ L TStar < L TFilter /\ L TFilter < L TDot /\ L TDot < L TNot /\
    L TNot < L TLbrace /\ L TLbrace < L TLbracket /\ L TLbracket < L TLparen /\
    (forall s, L (TIdentifier s) = 0) /\ (forall s, L (TQuotedIdentifier s) = 0) /\ (forall n, L (TNumber n) = 0) /\ (forall v, L (TLiteral v) = 0) /\
    L TRbracket = 0 /\ L TComma = 0 /\ L TColon = 0 /\ L TAt = 0 /\ L TAmpersand = 0 /\ L TRparen = 0 /\ L TRbrace = 0 /\ L TEof = 0.
  Proof.
    unfold L. cbn [kind_of]. unfold table_order_ok in Hord. cbn [forallb] in Hord.
    repeat match type of Hord with (_ && _) = true => apply andb_true_iff in Hord; destruct Hord as [Hord ?] end.
    repeat match goal with H : (_ =? _) = true |- _ => apply Z.eqb_eq in H | H : (_ <? _) = true |- _ => apply Z.ltb_lt in H | H : (_ <=? _) = true |- _ => apply Z.leb_le in H end.
    repeat split; intros; lia.
  Qed.

  Ltac facts := destruct table_facts as (F1 & F2 & F3 & F4 & F5 & F6 & F7 & F8 & F9 & F10 & F11 & F12 & F13 & F14 & F15 & F16 & F17 & F18 & F19 & F20 & F21 & F22 & F23 & F24 & F25 & F26 & F27 & F28 & F29 & F30).

  (* ---------- states and token lists ---------- *)
  Lemma toks_cons st t r : toks st = t :: r ->
    peek st 0 = t /\ exists o st1, advance_with_pos st = (o, t, st1) /\ toks st1 = r /\ peek st 1 = peek st1 0 /\ peek st 2 = peek st1 1.
  Proof.
    unfold toks, peek, advance_with_pos. destruct st as [q o]. cbn [pq poff]. destruct q as [|[p t0] q]; cbn [map snd]; [discriminate|].
    intros E. injection E as -> <-. split; [reflexivity|]. eexists _, _. split; [reflexivity|]. cbn [pq]. repeat split; reflexivity.
  Qed.

  Lemma peek0 st t r : toks st = t :: r -> peek st 0 = t.
  Proof. intros H. now destruct (toks_cons st t r H). Qed.
  Lemma peek1 st t u r : toks st = t :: u :: r -> peek st 1 = u.
  Proof. intros H. destruct (toks_cons st t _ H) as (_ & o & st1 & _ & H1 & H2 & _). rewrite H2. exact (peek0 st1 u r H1). Qed.

  (* ---------- one step of each loop, as equations ---------- *)
  Lemma expr_S f rbp st : expr' (S f) rbp st = let* (lft, st1) := nud' f st in expr_loop' f rbp lft st1.
  Proof. reflexivity. Qed.
  Lemma loop_S f rbp lft st : expr_loop' (S f) rbp lft st =
    if rbp <? L (peek st 0) then let* (l2, st1) := led' f lft st in expr_loop' f rbp l2 st1 else Ok (lft, st).
  Proof. reflexivity. Qed.

  Lemma loop_stop rbp lft st : L (peek st 0) <= rbp -> ev (fun f => expr_loop' f rbp lft st) (lft, st).
  Proof. intros H. exists 1%nat. intros f Hf. destruct f as [|f]; [lia|]. rewrite loop_S. assert ((rbp <? L (peek st 0)) = false) as -> by lia. reflexivity. Qed.

  Lemma loop_step rbp lft st l2 st1 r : rbp < L (peek st 0) -> ev (fun f => led' f lft st) (l2, st1) ->
    ev (fun f => expr_loop' f rbp l2 st1) r -> ev (fun f => expr_loop' f rbp lft st) r.
  Proof.
    intros Hlt Hled Hloop. apply (ev_S _ (fun f => if rbp <? L (peek st 0) then let* (l2, st1) := led' f lft st in expr_loop' f rbp l2 st1 else Ok (lft, st))); [intros; apply loop_S|].
    assert ((rbp <? L (peek st 0)) = true) as -> by lia.
    apply (ev_bind (fun f => led' f lft st) (fun f '(l2, st1) => expr_loop' f rbp l2 st1) (l2, st1) r); assumption.
  Qed.

  Lemma expr_from_nud rbp st n st1 r : ev (fun f => nud' f st) (n, st1) -> ev (fun f => expr_loop' f rbp n st1) r -> ev (fun f => expr' f rbp st) r.
  Proof.
    intros Hn Hl. apply (ev_S _ (fun f => let* (lft, st1) := nud' f st in expr_loop' f rbp lft st1)); [intros; apply expr_S|].
    apply (ev_bind (fun f => nud' f st) (fun f '(l, s1) => expr_loop' f rbp l s1) (n, st1) r); assumption.
  Qed.

  Notation parse_dot' := (parse_dot L STOP strict).
  Notation projection_rhs' := (projection_rhs L STOP strict).
  Notation parse_index' := (parse_index L STOP strict).
  Notation parse_multi_list' := (parse_multi_list L STOP strict).
  Notation parse_list' := (parse_list L STOP strict).
  Notation parse_kvps' := (parse_kvps L STOP strict).
  Notation parse_kvp' := (parse_kvp L STOP strict).
  Notation parse_filter' := (parse_filter L STOP strict).
  Notation parse_flatten' := (parse_flatten L STOP strict).
  Notation parse_comparator' := (parse_comparator L STOP strict).
  Notation parse_wildcard_index' := (parse_wildcard_index L STOP strict).
  Notation parse_wildcard_values' := (parse_wildcard_values L STOP strict).

  Ltac refold :=
    fold expr'; fold expr_loop'; fold nud'; fold parse_kvps'; fold parse_kvp'; fold led';
    fold parse_filter'; fold parse_flatten'; fold parse_comparator'; fold parse_dot'; fold projection_rhs';
    fold parse_wildcard_index'; fold parse_wildcard_values'; fold parse_index'; fold (index_loop L STOP strict);
    fold parse_multi_list'; fold parse_list'.

  Lemma nud_S f st : nud' (S f) st =
    let '(offset, token, st1) := advance_with_pos st in
    match token with
    | TAt => Ok (AIdentity, st1)
    | TIdentifier v =>
        if strict then
          match peek st1 0 with
          | TLparen =>
              let '(poffset, _, st2) := advance_with_pos st1 in
              let* (args, st3) := parse_list' f CloseParen [] st2 in
              Ok (AFunction poffset v args, st3)
          | _ => Ok (AField v, st1)
          end
        else Ok (AField v, st1)
    | TQuotedIdentifier v => match peek st1 0 with TLparen => perr st1 true | _ => Ok (AField v, st1) end
    | TStar => parse_wildcard_values' f AIdentity st1
    | TLiteral v => Ok (ALiteral v, st1)
    | TLbracket =>
        match peek st1 0 with
        | TNumber _ | TColon => parse_index' f st1
        | TStar =>
            if tok_is_rbracket (peek st1 1) then
              let '(_, _, st2) := advance_with_pos st1 in parse_wildcard_index' f AIdentity st2
            else parse_multi_list' f st1
        | _ => parse_multi_list' f st1
        end
    | TFlatten => parse_flatten' f AIdentity st1
    | TLbrace => parse_kvps' f [] st1
    | TAmpersand => if strict then perr st1 false else let* (rhs, st2) := expr' f (L TAmpersand) st1 in Ok (AExpref rhs, st2)
    | TNot => let* (n, st2) := expr' f (L TNot) st1 in Ok (ANot n, st2)
    | TFilter => parse_filter' f AIdentity st1
    | TLparen =>
        let* (result, st2) := expr' f 0 st1 in
        let '(_, t, st3) := advance_with_pos st2 in
        match t with TRparen => Ok (result, st3) | _ => perr st3 false end
    | _ => perr st1 false
    end.
  Proof. reflexivity. Qed.

  Lemma led_S f lft st : led' (S f) lft st =
    let '(offset, token, st1) := advance_with_pos st in
    match token with
    | TDot =>
        if tok_is_star (peek st1 0) then let '(_, _, st2) := advance_with_pos st1 in parse_wildcard_values' f lft st2
        else let* (rhs, st2) := parse_dot' f (L TDot) st1 in Ok (ASubexpr lft rhs, st2)
    | TLbracket =>
        match peek st1 0 with
        | TNumber _ | TColon => let* (idx, st2) := parse_index' f st1 in Ok (ASubexpr lft idx, st2)
        | TStar => let '(_, _, st2) := advance_with_pos st1 in parse_wildcard_index' f lft st2
        | _ => perr st1 true
        end
    | TOr => let* (rhs, st2) := expr' f (L TOr) st1 in Ok (AOr lft rhs, st2)
    | TAnd => let* (rhs, st2) := expr' f (L TAnd) st1 in Ok (AAnd lft rhs, st2)
    | TPipe => let* (rhs, st2) := expr' f (L TPipe) st1 in Ok (ASubexpr lft rhs, st2)
    | TLparen =>
        if strict then perr st1 true else
        match lft with
        | AField v => let* (args, st2) := parse_list' f CloseParen [] st1 in Ok (AFunction offset v args, st2)
        | _ => perr st1 true
        end
    | TFlatten => parse_flatten' f lft st1
    | TFilter => parse_filter' f lft st1
    | TEq => parse_comparator' f CEq lft st1
    | TNe => parse_comparator' f CNe lft st1
    | TGt => parse_comparator' f CGt lft st1
    | TGte => parse_comparator' f CGe lft st1
    | TLt => parse_comparator' f CLt lft st1
    | TLte => parse_comparator' f CLe lft st1
    | _ => perr st1 false
    end.
  Proof. reflexivity. Qed.

  (** what the induction provides for operands *)
  Definition Pexpr (x : cst) (rbp : Z) (fol : token) : Prop := forall st rest, toks st = flat x ++ fol :: rest ->
    exists x' st', shape x' = shape x /\ toks st' = fol :: rest /\ ev (fun f => expr' f rbp st) (erase x', st').
  Definition Pprhs (k : cont) (bp : Z) (fol : token) : Prop := forall st rest, toks st = flatk k ++ fol :: rest ->
    exists k' st', shapek k' = shapek k /\ toks st' = fol :: rest /\ ev (fun f => projection_rhs' f bp st) (erasek k', st').
  Definition Pdot (d : cst) (bp : Z) (fol : token) : Prop := forall st rest, toks st = flat d ++ fol :: rest ->
    exists d' st', shape d' = shape d /\ toks st' = fol :: rest /\ ev (fun f => parse_dot' f bp st) (erase d', st').

  (** advance over a known first token *)
  Ltac adv Ht :=
    match type of Ht with
    | toks ?st = ?t :: ?r =>
        let Hp := fresh "Hp" in let o := fresh "o" in let st1 := fresh "st" in let Ha := fresh "Ha" in let Ht1 := fresh "Ht" in
        let Hp1 := fresh "Hq" in let Hp2 := fresh "Hq" in
        destruct (toks_cons st t r Ht) as (Hp & o & st1 & Ha & Ht1 & Hp1 & Hp2)
    end.

  (* ---------- led, one form at a time ---------- *)
  Lemma led_bin o r fol : Pexpr r (rbp_of L o) fol -> forall lft l' st rest, erase l' = lft ->
    toks st = binop_tok o :: flat r ++ fol :: rest ->
    exists r' st', shape r' = shape r /\ toks st' = fol :: rest /\ ev (fun f => led' f lft st) (erase (CBin o l' r'), st').
  Proof.
    intros Hr lft l' st rest El Ht. adv Ht. destruct (Hr st0 rest Ht0) as (r' & st' & Hs & Ht' & [f1 H1]).
    exists r', st'. split; [exact Hs|]. split; [exact Ht'|]. exists (S (S f1)). intros f Hf. destruct f as [|f]; [lia|].
    rewrite led_S. rewrite Ha. facts.
    destruct o as [| | |c]; cbn [binop_tok rbp_of] in *;
      try (rewrite H1 by lia; cbn [bind erase bin_ast]; now rewrite El).
    destruct c; cbn [binop_tok]; (destruct f as [|f]; [lia|]); cbn [parse_comparator]; refold;
      rewrite ?F5, ?F6, ?F7, ?F8, ?F9 in *; (rewrite H1 by lia; cbn [bind erase bin_ast]; now rewrite El).
  Qed.

  (* ---------- brackets: index and slice ---------- *)
  Ltac adv_all :=
    repeat match goal with
           | Ht : toks ?st = _ :: _ |- _ =>
               lazymatch goal with
               | _ : advance_with_pos st = _ |- _ => fail
               | _ => adv Ht
               end
           end.

  Lemma il_close f p0 p1 p2 pos st o st1 : advance_with_pos st = (o, TRbracket, st1) ->
    index_loop L STOP strict (S f) p0 p1 p2 pos st = Ok (p0, p1, p2, pos, st1).
  Proof. intros Ha. cbn [index_loop]. now rewrite Ha. Qed.

  Lemma il_colon f p0 p1 p2 pos st o st1 : advance_with_pos st = (o, TColon, st1) -> pos < 2 ->
    (match peek st1 0 with TNumber _ | TColon | TRbracket => True | _ => False end) ->
    index_loop L STOP strict (S f) p0 p1 p2 pos st = index_loop L STOP strict f p0 p1 p2 (pos + 1) st1.
  Proof.
    intros Ha Hpos Hpk. cbn [index_loop]. refold. rewrite Ha. assert ((pos >=? 2) = false) as -> by lia.
    destruct (peek st1 0); try contradiction; reflexivity.
  Qed.

  Lemma il_num f p0 p1 p2 pos st o v st1 : advance_with_pos st = (o, TNumber v, st1) ->
    (match peek st1 0 with TColon | TRbracket => True | _ => False end) ->
    index_loop L STOP strict (S f) p0 p1 p2 pos st =
      (let '(p0', p1', p2') := if pos =? 0 then (Some v, p1, p2) else if pos =? 1 then (p0, Some v, p2) else (p0, p1, Some v) in
       index_loop L STOP strict f p0' p1' p2' pos st1).
  Proof.
    intros Ha Hpk. cbn [index_loop]. refold. rewrite Ha.
    destruct (if pos =? 0 then (Some v, p1, p2) else if pos =? 1 then (p0, Some v, p2) else (p0, p1, Some v)) as [[a b] c].
    destruct (peek st1 0); try contradiction; reflexivity.
  Qed.

  Lemma index_loop_slice sl st rest : toks st = slice_toks sl ++ TRbracket :: rest ->
    exists st', toks st' = rest /\
      forall f, (8 <= f)%nat ->
        index_loop L STOP strict f None None None 0 st =
          Ok (sl_a sl, sl_b sl, match sl_c sl with Some c => c | None => None end, match sl_c sl with Some _ => 2 | None => 1 end, st').
  Proof.
    destruct sl as [[a|] [b|] [[c|]|]]; unfold slice_toks; cbn [optnum app sl_a sl_b sl_c]; intros Ht; adv_all;
      match goal with Hl : toks ?s = rest |- _ => exists s; split; [exact Hl|] end;
      intros f Hf; do 8 (destruct f as [|f]; [lia|]);
      repeat (cbn [Z.eqb Z.add Pos.add Pos.eqb];
              match goal with
              | |- context [index_loop L STOP strict (S _) _ _ _ _ ?s] =>
                  match goal with
                  | Ha : advance_with_pos s = (_, TRbracket, _) |- _ => rewrite (il_close _ _ _ _ _ s _ _ Ha)
                  | Ha : advance_with_pos s = (_, TColon, ?s1), Hp : peek ?s1 0 = _ |- _ =>
                      rewrite (il_colon _ _ _ _ _ s _ s1 Ha) by (first [lia | rewrite Hp; exact I])
                  | Ha : advance_with_pos s = (_, TNumber _, ?s1), Hp : peek ?s1 0 = _ |- _ =>
                      rewrite (il_num _ _ _ _ _ s _ _ s1 Ha) by (rewrite Hp; exact I)
                  end
              end);
      cbn [Z.eqb Z.add Pos.add Pos.eqb]; reflexivity.
  Qed.

  Lemma parse_index_S f st : parse_index' (S f) st =
    let* (p0, p1, p2, pos, st1) := index_loop L STOP strict f None None None 0 st in
    if pos =? 0 then match p0 with Some i => Ok (AIndex i, st1) | None => Err (EParse (poff st1)) end
    else let sl := ASlice (poff st1) p0 p1 (match p2 with Some s => s | None => 1 end) in
         let* (rhs, st2) := projection_rhs' f (L TStar) st1 in Ok (AProjection sl rhs, st2).
  Proof. reflexivity. Qed.

  Lemma parse_index_index st n rest : toks st = TNumber n :: TRbracket :: rest ->
    exists st', toks st' = rest /\ ev (fun f => parse_index' f st) (AIndex n, st').
  Proof.
    intros Ht. adv_all. match goal with Hl : toks ?s = rest |- _ => exists s; split; [exact Hl|] end.
    exists 3%nat. intros f Hf. do 3 (destruct f as [|f]; [lia|]). rewrite parse_index_S.
    match goal with Ha : advance_with_pos st = (_, TNumber _, ?s1), Hp : peek ?s1 0 = _ |- _ => rewrite (il_num _ _ _ _ _ st _ _ s1 Ha) by (rewrite Hp; exact I) end.
    cbn [Z.eqb]. match goal with Ha : advance_with_pos ?s = (_, TRbracket, _) |- _ => rewrite (il_close _ _ _ _ _ s _ _ Ha) end. reflexivity.
  Qed.

  Lemma parse_index_slice sl k fol : Pprhs k (L TStar) fol -> forall st rest,
    toks st = slice_toks sl ++ TRbracket :: flatk k ++ fol :: rest ->
    exists off k' st', shapek k' = shapek k /\ toks st' = fol :: rest /\
      ev (fun f => parse_index' f st) (AProjection (slice_ast off sl) (erasek k'), st').
  Proof.
    intros Hk st rest Ht. destruct (index_loop_slice sl st _ Ht) as (st1 & Ht1 & Hil).
    destruct (Hk st1 rest Ht1) as (k' & st' & Hs & Ht' & [f1 H1]).
    exists (poff st1), k', st'. split; [exact Hs|]. split; [exact Ht'|]. exists (S (Nat.max 8 f1)). intros f Hf. destruct f as [|f]; [lia|].
    rewrite parse_index_S, Hil by lia. cbn [bind].
    assert (Hpos : (match sl_c sl with Some _ => 2 | None => 1 end =? 0) = false) by (destruct (sl_c sl); reflexivity). rewrite Hpos.
    cbv zeta. rewrite H1 by lia. cbn [bind]. unfold slice_ast. destruct (sl_c sl) as [[c|]|]; reflexivity.
  Qed.

  (* ---------- the remaining forms of led ---------- *)
  Lemma led_index n : forall lft l' st rest, erase l' = lft -> toks st = TLbracket :: TNumber n :: TRbracket :: rest ->
    exists st', toks st' = rest /\ ev (fun f => led' f lft st) (erase (CIndex l' n), st').
  Proof.
    intros lft l' st rest El Ht. adv Ht. destruct (parse_index_index st0 n rest Ht0) as (st' & Ht' & [f1 H1]).
    exists st'. split; [exact Ht'|]. exists (S f1). intros f Hf. destruct f as [|f]; [lia|]. rewrite led_S. rewrite Ha.
    rewrite (peek0 st0 _ _ Ht0). rewrite H1 by lia. cbn [bind erase]. now rewrite El.
  Qed.

  Lemma slice_first sl r : exists t r', slice_toks sl ++ TRbracket :: r = t :: r' /\ (match t with TNumber _ | TColon => True | _ => False end).
  Proof. destruct sl as [[a|] b c]; unfold slice_toks; cbn [optnum app sl_a]; eexists _, _; (split; [reflexivity|exact I]). Qed.

  Lemma led_slice sl k fol : Pprhs k (L TStar) fol -> forall lft l' st rest, erase l' = lft ->
    toks st = TLbracket :: slice_toks sl ++ TRbracket :: flatk k ++ fol :: rest ->
    exists off k' st', shapek k' = shapek k /\ toks st' = fol :: rest /\ ev (fun f => led' f lft st) (erase (CSlice l' off sl k'), st').
  Proof.
    intros Hk lft l' st rest El Ht. adv Ht. destruct (parse_index_slice sl k fol Hk st0 rest Ht0) as (off & k' & st' & Hs & Ht' & [f1 H1]).
    exists off, k', st'. split; [exact Hs|]. split; [exact Ht'|]. exists (S f1). intros f Hf. destruct f as [|f]; [lia|]. rewrite led_S. rewrite Ha.
    destruct (slice_first sl (flatk k ++ fol :: rest)) as (t & r' & Et & Hkind). rewrite Et in Ht0. rewrite (peek0 st0 _ _ Ht0).
    destruct t; try contradiction; (rewrite H1 by lia; cbn [bind erase]; now rewrite El).
  Qed.

  Lemma wv_ev k fol : Pprhs k (L TStar) fol -> forall lhs st rest, toks st = flatk k ++ fol :: rest ->
    exists k' st', shapek k' = shapek k /\ toks st' = fol :: rest /\ ev (fun f => parse_wildcard_values' f lhs st) (AProjection (AObjectValues lhs) (erasek k'), st').
  Proof.
    intros Hk lhs st rest Ht. destruct (Hk st rest Ht) as (k' & st' & Hs & Ht' & [f1 H1]). exists k', st'. split; [exact Hs|]. split; [exact Ht'|].
    exists (S f1). intros f Hf. destruct f as [|f]; [lia|]. cbn [parse_wildcard_values]. refold. rewrite H1 by lia. reflexivity.
  Qed.

  Lemma wi_ev k fol : Pprhs k (L TStar) fol -> forall lhs st rest, toks st = TRbracket :: flatk k ++ fol :: rest ->
    exists k' st', shapek k' = shapek k /\ toks st' = fol :: rest /\ ev (fun f => parse_wildcard_index' f lhs st) (AProjection lhs (erasek k'), st').
  Proof.
    intros Hk lhs st rest Ht. adv Ht. destruct (Hk st0 rest Ht0) as (k' & st' & Hs & Ht' & [f1 H1]). exists k', st'. split; [exact Hs|]. split; [exact Ht'|].
    exists (S f1). intros f Hf. destruct f as [|f]; [lia|]. cbn [parse_wildcard_index]. refold. rewrite Ha. rewrite H1 by lia. reflexivity.
  Qed.

  Lemma flatten_ev k fol : Pprhs k (L TFlatten) fol -> forall lhs st rest, toks st = flatk k ++ fol :: rest ->
    exists k' st', shapek k' = shapek k /\ toks st' = fol :: rest /\ ev (fun f => parse_flatten' f lhs st) (AProjection (AFlatten lhs) (erasek k'), st').
  Proof.
    intros Hk lhs st rest Ht. destruct (Hk st rest Ht) as (k' & st' & Hs & Ht' & [f1 H1]). exists k', st'. split; [exact Hs|]. split; [exact Ht'|].
    exists (S f1). intros f Hf. destruct f as [|f]; [lia|]. cbn [parse_flatten]. refold. rewrite H1 by lia. reflexivity.
  Qed.

  Lemma filter_ev p k fol : Pexpr p 0 TRbracket -> Pprhs k (L TFilter) fol -> forall lhs st rest,
    toks st = flat p ++ TRbracket :: flatk k ++ fol :: rest ->
    exists p' k' st', shape p' = shape p /\ shapek k' = shapek k /\ toks st' = fol :: rest /\
      ev (fun f => parse_filter' f lhs st) (AProjection lhs (ACondition (erase p') (erasek k')), st').
  Proof.
    intros Hp Hk lhs st rest Ht. destruct (Hp st _ Ht) as (p' & st1 & Hsp & Ht1 & [f1 H1]). adv Ht1.
    destruct (Hk st0 rest Ht0) as (k' & st' & Hsk & Ht' & [f2 H2]). exists p', k', st'. split; [exact Hsp|]. split; [exact Hsk|]. split; [exact Ht'|].
    exists (S (Nat.max f1 f2)). intros f Hf. destruct f as [|f]; [lia|]. cbn [parse_filter]. refold. rewrite H1 by lia. cbn [bind]. rewrite Ha.
    rewrite H2 by lia. reflexivity.
  Qed.

  Lemma led_wild k fol : Pprhs k (L TStar) fol -> forall lft l' st rest, erase l' = lft ->
    toks st = TLbracket :: TStar :: TRbracket :: flatk k ++ fol :: rest ->
    exists k' st', shapek k' = shapek k /\ toks st' = fol :: rest /\ ev (fun f => led' f lft st) (erase (CWild l' k'), st').
  Proof.
    intros Hk lft l' st rest El Ht. adv Ht. adv Ht0. destruct (wi_ev k fol Hk lft st1 rest Ht1) as (k' & st' & Hs & Ht' & [f1 H1]).
    exists k', st'. split; [exact Hs|]. split; [exact Ht'|]. exists (S f1). intros f Hf. destruct f as [|f]; [lia|]. rewrite led_S. rewrite Ha, Hp0, Ha0.
    rewrite H1 by lia. cbn [erase]. now rewrite El.
  Qed.

  Lemma led_flatten k fol : Pprhs k (L TFlatten) fol -> forall lft l' st rest, erase l' = lft ->
    toks st = TFlatten :: flatk k ++ fol :: rest ->
    exists k' st', shapek k' = shapek k /\ toks st' = fol :: rest /\ ev (fun f => led' f lft st) (erase (CFlatten l' k'), st').
  Proof.
    intros Hk lft l' st rest El Ht. adv Ht. destruct (flatten_ev k fol Hk lft st0 rest Ht0) as (k' & st' & Hs & Ht' & [f1 H1]).
    exists k', st'. split; [exact Hs|]. split; [exact Ht'|]. exists (S f1). intros f Hf. destruct f as [|f]; [lia|]. rewrite led_S. rewrite Ha.
    rewrite H1 by lia. cbn [erase]. now rewrite El.
  Qed.

  Lemma led_filter p k fol : Pexpr p 0 TRbracket -> Pprhs k (L TFilter) fol -> forall lft l' st rest, erase l' = lft ->
    toks st = TFilter :: flat p ++ TRbracket :: flatk k ++ fol :: rest ->
    exists p' k' st', shape p' = shape p /\ shapek k' = shapek k /\ toks st' = fol :: rest /\ ev (fun f => led' f lft st) (erase (CFilter l' p' k'), st').
  Proof.
    intros Hp Hk lft l' st rest El Ht. adv Ht. destruct (filter_ev p k fol Hp Hk lft st0 rest Ht0) as (p' & k' & st' & Hsp & Hsk & Ht' & [f1 H1]).
    exists p', k', st'. split; [exact Hsp|]. split; [exact Hsk|]. split; [exact Ht'|]. exists (S f1). intros f Hf. destruct f as [|f]; [lia|]. rewrite led_S. rewrite Ha.
    rewrite H1 by lia. cbn [erase]. now rewrite El.
  Qed.

  Lemma led_dotstar k fol : Pprhs k (L TStar) fol -> forall lft l' st rest, erase l' = lft ->
    toks st = TDot :: TStar :: flatk k ++ fol :: rest ->
    exists k' st', shapek k' = shapek k /\ toks st' = fol :: rest /\ ev (fun f => led' f lft st) (erase (CDotStar l' k'), st').
  Proof.
    intros Hk lft l' st rest El Ht. adv Ht. adv Ht0. destruct (wv_ev k fol Hk lft st1 rest Ht1) as (k' & st' & Hs & Ht' & [f1 H1]).
    exists k', st'. split; [exact Hs|]. split; [exact Ht'|]. exists (S f1). intros f Hf. destruct f as [|f]; [lia|]. rewrite led_S. rewrite Ha, Hp0. cbn [tok_is_star].
    rewrite Ha0. rewrite H1 by lia. cbn [erase]. now rewrite El.
  Qed.

  Lemma led_dot d fol : Pdot d (L TDot) fol -> (match flat d with [] => False | TStar :: _ => False | _ => True end) -> forall lft l' st rest, erase l' = lft ->
    toks st = TDot :: flat d ++ fol :: rest ->
    exists d' st', shape d' = shape d /\ toks st' = fol :: rest /\ ev (fun f => led' f lft st) (erase (CDot l' d'), st').
  Proof.
    intros Hd Hns lft l' st rest El Ht. adv Ht. destruct (Hd st0 rest Ht0) as (d' & st' & Hs & Ht' & [f1 H1]).
    exists d', st'. split; [exact Hs|]. split; [exact Ht'|]. exists (S f1). intros f Hf. destruct f as [|f]; [lia|]. rewrite led_S. rewrite Ha.
    assert (Hst : tok_is_star (peek st0 0) = false).
    { destruct (flat d) as [|t r] eqn:Ef; [contradiction|]. cbn [app] in Ht0; rewrite (peek0 st0 _ _ Ht0). destruct t; try reflexivity; contradiction. }
    rewrite Hst. rewrite H1 by lia. cbn [bind erase]. now rewrite El.
  Qed.

  (* ---------- the right-hand side of a projection ---------- *)
  Lemma prhs_S f bp st : projection_rhs' (S f) bp st =
    match peek st 0 with
    | TDot => let '(_, _, st1) := advance_with_pos st in parse_dot' f bp st1
    | TFilter => expr' f bp st
    | TLbracket =>
        if strict then
          match peek st 1 with
          | TNumber _ | TColon => expr' f bp st
          | TStar => if tok_is_rbracket (peek st 2) then expr' f bp st else perr st true
          | _ => perr st true
          end
        else expr' f bp st
    | t => if L t <? STOP then Ok (AIdentity, st) else perr st true
    end.
  Proof. reflexivity. Qed.

  Lemma prhs_none bp fol : L fol < STOP -> Pprhs KNone bp fol.
  Proof.
    intros Hf st rest Ht. cbn [flatk app] in Ht. exists KNone, st. split; [reflexivity|]. split; [exact Ht|].
    exists 1%nat. intros f Hge. destruct f as [|f]; [lia|]. rewrite prhs_S, (peek0 st _ _ Ht). facts.
    destruct fol; cbn [erasek]; try (assert (E : forall t, L t = L fol -> (L t <? STOP) = true) by (intros; lia)); try lia;
      match goal with |- context [L ?t <? STOP] => assert ((L t <? STOP) = true) as -> by lia end; reflexivity.
  Qed.

  Lemma prhs_dot d bp fol : Pdot d bp fol -> Pprhs (KDot d) bp fol.
  Proof.
    intros Hd st rest Ht. cbn [flatk app] in Ht. adv Ht. destruct (Hd st0 rest Ht0) as (d' & st' & Hs & Ht' & [f1 H1]).
    exists (KDot d'), st'. split; [cbn [shapek]; now rewrite Hs|]. split; [exact Ht'|]. exists (S f1). intros f Hf. destruct f as [|f]; [lia|].
    rewrite prhs_S, Hp, Ha. cbn [erasek]. apply H1. lia.
  Qed.

  Definition brk_first (l : list token) : Prop :=
    match l with
    | TFilter :: _ | TLbracket :: TNumber _ :: _ | TLbracket :: TColon :: _ | TLbracket :: TStar :: TRbracket :: _ => True
    | _ => False
    end.

  Lemma brk_first_flat x tl : brk_ok (head x) = true -> brk_first (flat x ++ tl).
  Proof.
    intros Hb. destruct (flat_head x) as [r E]. rewrite E, <- app_assoc. destruct (head x); try discriminate Hb; cbn [flat app brk_first]; try exact I.
    destruct sl as [[a|] b c]; unfold slice_toks; cbn [sl_a optnum app]; exact I.
  Qed.

  Lemma prhs_expr x bp fol : brk_ok (head x) = true -> Pexpr x bp fol -> Pprhs (KExpr x) bp fol.
  Proof.
    intros Hb Hx st rest Ht. cbn [flatk] in Ht. destruct (Hx st rest Ht) as (x' & st' & Hs & Ht' & [f1 H1]).
    exists (KExpr x'), st'. split; [cbn [shapek]; now rewrite Hs|]. split; [exact Ht'|]. exists (S f1). intros f Hf. destruct f as [|f]; [lia|].
    rewrite prhs_S. cbn [erasek]. pose proof (brk_first_flat x (fol :: rest) Hb) as Hbf. rewrite <- Ht in Hbf.
    destruct (toks st) as [|t0 tl0] eqn:E0; [contradiction|]. rewrite (peek0 st _ _ E0).
    destruct t0; try contradiction; try (apply H1; lia).
    destruct strict; [|apply H1; lia].
    destruct tl0 as [|t1 tl1]; [contradiction|]. rewrite (peek1 st _ _ _ E0).
    destruct t1; try contradiction; try (apply H1; lia).
    destruct tl1 as [|t2 tl2]; [contradiction|]. adv E0. adv Ht0. rewrite Hq0, Hq1, (peek0 _ _ _ Ht1).
    destruct t2; try contradiction. cbn [tok_is_rbracket]. apply H1; lia.
  Qed.

  (* ---------- entering an operand after a dot ---------- *)
  Lemma pdot_S f bp st : parse_dot' (S f) bp st =
    match peek st 0 with
    | TLbracket =>
        let '(_, _, st1) := advance_with_pos st in
        if strict then let* (lst, st2) := parse_multi_list' f st1 in expr_loop' f bp lst st2 else parse_multi_list' f st1
    | TIdentifier _ | TQuotedIdentifier _ | TStar | TLbrace => expr' f bp st
    | TAmpersand => if strict then perr st true else expr' f bp st
    | _ => perr st true
    end.
  Proof. reflexivity. Qed.

  Lemma pdot_expr bp st t r res : toks st = t :: r ->
    (match t with TIdentifier _ | TQuotedIdentifier _ | TStar | TLbrace => True | _ => False end) ->
    ev (fun f => expr' f bp st) res -> ev (fun f => parse_dot' f bp st) res.
  Proof.
    intros Ht Hk [f1 H1]. exists (S f1). intros f Hf. destruct f as [|f]; [lia|]. rewrite pdot_S, (peek0 st _ _ Ht).
    destruct t; try contradiction; apply H1; lia.
  Qed.

  (* ---------- separated lists ---------- *)
  Definition item' (c : closing) (f : nat) (st : pst) : res (ast * pst) :=
    match c, peek st 0 with
    | CloseParen, TAmpersand =>
        if strict then
          let '(_, _, st0) := advance_with_pos st in
          let* (rhs, st') := expr' f (L TAmpersand) st0 in
          Ok (AExpref rhs, st')
        else expr' f 0 st
    | _, _ => expr' f 0 st
    end.

  Lemma plist_S f c acc st : parse_list' (S f) c acc st =
    if is_closing c (peek st 0) then let '(_, _, st1) := advance_with_pos st in Ok (rev acc, st1)
    else
      let* (e, st1) := item' c f st in
      if tok_is_comma (peek st1 0) then
        let '(_, _, st2) := advance_with_pos st1 in
        if is_closing c (peek st2 0) then perr st2 true else parse_list' f c (e :: acc) st2
      else if is_closing c (peek st1 0) then parse_list' f c (e :: acc) st1
      else perr st1 true.
  Proof. destruct c; reflexivity. Qed.

  Definition Pitem (c : closing) (a : bool * cst) (fol : token) : Prop := forall st rest, toks st = flat_arg a ++ fol :: rest ->
    exists a' st', shape_arg a' = shape_arg a /\ toks st' = fol :: rest /\ ev (fun f => item' c f st) (erase_arg a', st').
  Definition Item (c : closing) (r : list (bool * cst)) (a : bool * cst) : Prop :=
    (exists t tl, flat_arg a = t :: tl /\ is_closing c t = false) /\ Pitem c a (sep (close_tok c) r).

  Lemma closing_close c : is_closing c (close_tok c) = true /\ tok_is_comma (close_tok c) = false /\ is_closing c TComma = false.
  Proof. destruct c; repeat split. Qed.

  Lemma plist_go c : forall items a acc st rest, each (Item c) (a :: items) ->
    toks st = flat_arg a ++ items_tail (close_tok c) items ++ rest ->
    exists as' st', map shape_arg as' = map shape_arg (a :: items) /\ toks st' = rest /\
      ev (fun f => parse_list' f c acc st) (rev acc ++ map erase_arg as', st').
  Proof.
    destruct (closing_close c) as (Hcc & Hcm & Hck).
    induction items as [|b r IH]; intros a acc st rest Hall Ht; cbn [each] in Hall; destruct Hall as [[(t & tl & Ea & Hnc) Hit] Hrest].
    - cbn [items_tail app] in Ht. destruct (Hit st rest Ht) as (a' & st1 & Hs & Ht1 & [f1 H1]). cbn [sep] in Ht1. adv Ht1.
      exists [a'], st0. split; [cbn [map]; now rewrite Hs|]. split; [exact Ht0|].
      exists (S (S f1)). intros f Hf. do 2 (destruct f as [|f]; [lia|]).
      rewrite plist_S. rewrite Ea in Ht. cbn [app] in Ht. rewrite (peek0 st _ _ Ht), Hnc. rewrite H1 by lia. cbn [bind].
      rewrite Hp, Hcm, Hcc. rewrite plist_S, Hp, Hcc, Ha. cbn [rev map]. reflexivity.
    - cbn [items_tail app] in Ht. cbn [sep] in Hit. rewrite <- app_assoc in Ht.
      destruct (Hit st _ Ht) as (a' & st1 & Hs & Ht1 & [f1 H1]). adv Ht1.
      destruct (IH b (erase_arg a' :: acc) st0 rest Hrest) as (as' & st' & Hss & Ht' & [f2 H2]).
      { exact Ht0. }
      exists (a' :: as'), st'. split; [cbn [map]; rewrite Hs; f_equal; exact Hss|]. split; [exact Ht'|].
      exists (S (Nat.max f1 f2)). intros f Hf. destruct f as [|f]; [lia|].
      rewrite plist_S. rewrite Ea in Ht. cbn [app] in Ht. rewrite (peek0 st _ _ Ht), Hnc. rewrite H1 by lia. cbn [bind].
      rewrite Hp. cbn [tok_is_comma]. rewrite Ha.
      cbn [each] in Hrest. destruct Hrest as [[(t2 & tl2 & Eb & Hnc2) _] _].
      assert (Hpk : peek st0 0 = t2). { rewrite Eb in Ht0. cbn [app] in Ht0. exact (peek0 _ _ _ Ht0). }
      rewrite Hpk, Hnc2. rewrite H2 by lia. cbn [rev map]. rewrite <- app_assoc. reflexivity.
  Qed.

  Lemma plist_empty c acc st rest : toks st = close_tok c :: rest ->
    exists st', toks st' = rest /\ ev (fun f => parse_list' f c acc st) (rev acc, st').
  Proof.
    intros Ht. adv Ht. exists st0. split; [exact Ht0|]. exists 1%nat. intros f Hf. destruct f as [|f]; [lia|].
    rewrite plist_S, Hp. destruct (closing_close c) as (-> & _). now rewrite Ha.
  Qed.

  (* ---------- multi-select hashes ---------- *)
  Definition shape_kv (kv : bool * str * cst) : bool * str * cst := (fst kv, shape (snd kv)).
  Definition erase_kv (kv : bool * str * cst) : str * ast := (snd (fst kv), erase (snd kv)).

  Lemma kvp_ev q k e fol : Pexpr e 0 fol -> forall st rest, toks st = key_tok q k :: TColon :: flat e ++ fol :: rest ->
    exists e' st', shape e' = shape e /\ toks st' = fol :: rest /\ ev (fun f => parse_kvp' f st) ((k, erase e'), st').
  Proof.
    intros He st rest Ht. adv Ht. adv Ht0. destruct (He st1 rest Ht1) as (e' & st' & Hs & Ht' & [f1 H1]).
    exists e', st'. split; [exact Hs|]. split; [exact Ht'|]. exists (S f1). intros f Hf. destruct f as [|f]; [lia|].
    cbn [parse_kvp]. refold. rewrite Ha. destruct q; cbn [key_tok]; rewrite Hp0; cbn [tok_is_colon]; rewrite Ha0; rewrite H1 by lia; reflexivity.
  Qed.

  Lemma kvps_S f acc st : parse_kvps' (S f) acc st =
    let* (kv, st1) := parse_kvp' f st in
    let '(_, t, st2) := advance_with_pos st1 in
    match t with
    | TRbrace => Ok (AMultiHash (rev (kv :: acc)), st2)
    | TComma => parse_kvps' f (kv :: acc) st2
    | _ => perr st2 false
    end.
  Proof. reflexivity. Qed.

  Lemma kvps_go : forall kvs q k e acc st rest,
    Pexpr e 0 (sep TRbrace kvs) -> each (fun r (kv : bool * str * cst) => Pexpr (snd kv) 0 (sep TRbrace r)) kvs ->
    toks st = key_tok q k :: TColon :: flat e ++ mhash_tail kvs ++ rest ->
    exists e' kvs' st', shape e' = shape e /\ map shape_kv kvs' = map shape_kv kvs /\ toks st' = rest /\
      ev (fun f => parse_kvps' f acc st) (AMultiHash (rev acc ++ (k, erase e') :: map erase_kv kvs'), st').
  Proof.
    induction kvs as [|[[q2 k2] e2] r IH]; intros q k e acc st rest He Hall Ht.
    - cbn [mhash_tail app sep] in *. destruct (kvp_ev q k e _ He st rest Ht) as (e' & st1 & Hs & Ht1 & [f1 H1]). adv Ht1.
      exists e', [], st0. split; [exact Hs|]. split; [reflexivity|]. split; [exact Ht0|].
      exists (S f1). intros f Hf. destruct f as [|f]; [lia|]. rewrite kvps_S, H1 by lia. cbn [bind]. rewrite Ha. cbn [rev map]. reflexivity.
    - cbn [mhash_tail app sep each snd] in *. destruct Hall as [He2 Hall]. rewrite <- app_assoc in Ht.
      destruct (kvp_ev q k e _ He st _ Ht) as (e' & st1 & Hs & Ht1 & [f1 H1]). adv Ht1.
      destruct (IH q2 k2 e2 ((k, erase e') :: acc) st0 rest He2 Hall Ht0) as (e2' & kvs' & st' & Hs2 & Hss & Ht' & [f2 H2]).
      exists e', ((q2, k2, e2') :: kvs'), st'. split; [exact Hs|]. split; [cbn [map]; unfold shape_kv at 1 3; cbn [fst snd]; rewrite Hs2; f_equal; exact Hss|].
      split; [exact Ht'|]. exists (S (Nat.max f1 f2)). intros f Hf. destruct f as [|f]; [lia|]. rewrite kvps_S, H1 by lia. cbn [bind]. rewrite Ha.
      rewrite H2 by lia. cbn [rev map]. unfold erase_kv at 2. cbn [fst snd]. rewrite <- app_assoc. reflexivity.
  Qed.

  (* ---------- nud, one form at a time ---------- *)
  Lemma nud_current st rest : toks st = TAt :: rest -> exists st', toks st' = rest /\ ev (fun f => nud' f st) (erase CCurrent, st').
  Proof. intros Ht. adv Ht. exists st0. split; [exact Ht0|]. exists 1%nat. intros f Hf. destruct f as [|f]; [lia|]. rewrite nud_S. now rewrite Ha. Qed.

  Lemma nud_lit v st rest : toks st = TLiteral v :: rest -> exists st', toks st' = rest /\ ev (fun f => nud' f st) (erase (CLit v), st').
  Proof. intros Ht. adv Ht. exists st0. split; [exact Ht0|]. exists 1%nat. intros f Hf. destruct f as [|f]; [lia|]. rewrite nud_S. now rewrite Ha. Qed.

  Lemma nud_ident s fol st rest : fol <> TLparen -> toks st = TIdentifier s :: fol :: rest ->
    exists st', toks st' = fol :: rest /\ ev (fun f => nud' f st) (erase (CIdent s), st').
  Proof.
    intros Hf Ht. adv Ht. exists st0. split; [exact Ht0|]. exists 1%nat. intros f Hge. destruct f as [|f]; [lia|]. rewrite nud_S. rewrite Ha.
    rewrite (peek0 _ _ _ Ht0). destruct strict; [|reflexivity]. destruct fol; try reflexivity. contradiction.
  Qed.

  Lemma nud_qident s fol st rest : fol <> TLparen -> toks st = TQuotedIdentifier s :: fol :: rest ->
    exists st', toks st' = fol :: rest /\ ev (fun f => nud' f st) (erase (CQIdent s), st').
  Proof.
    intros Hf Ht. adv Ht. exists st0. split; [exact Ht0|]. exists 1%nat. intros f Hge. destruct f as [|f]; [lia|]. rewrite nud_S. rewrite Ha.
    rewrite (peek0 _ _ _ Ht0). destruct fol; try reflexivity. contradiction.
  Qed.

  Lemma nud_not x fol : Pexpr x (L TNot) fol -> forall st rest, toks st = TNot :: flat x ++ fol :: rest ->
    exists x' st', shape x' = shape x /\ toks st' = fol :: rest /\ ev (fun f => nud' f st) (erase (CNot x'), st').
  Proof.
    intros Hx st rest Ht. adv Ht. destruct (Hx st0 rest Ht0) as (x' & st' & Hs & Ht' & [f1 H1]). exists x', st'. split; [exact Hs|]. split; [exact Ht'|].
    exists (S f1). intros f Hf. destruct f as [|f]; [lia|]. rewrite nud_S. rewrite Ha, H1 by lia. reflexivity.
  Qed.

  Lemma nud_paren x : Pexpr x 0 TRparen -> forall st rest, toks st = TLparen :: flat x ++ TRparen :: rest ->
    exists x' st', shape x' = shape x /\ toks st' = rest /\ ev (fun f => nud' f st) (erase (CParen x'), st').
  Proof.
    intros Hx st rest Ht. adv Ht. destruct (Hx st0 rest Ht0) as (x' & st1 & Hs & Ht1 & [f1 H1]). adv Ht1. exists x', st2. split; [exact Hs|]. split; [exact Ht2|].
    exists (S f1). intros f Hf. destruct f as [|f]; [lia|]. rewrite nud_S. rewrite Ha, H1 by lia. cbn [bind]. rewrite Ha0. reflexivity.
  Qed.

  Lemma nud_star k fol : Pprhs k (L TStar) fol -> forall st rest, toks st = TStar :: flatk k ++ fol :: rest ->
    exists k' st', shapek k' = shapek k /\ toks st' = fol :: rest /\ ev (fun f => nud' f st) (erase (CStarP k'), st').
  Proof.
    intros Hk st rest Ht. adv Ht. destruct (wv_ev k fol Hk AIdentity st0 rest Ht0) as (k' & st' & Hs & Ht' & [f1 H1]). exists k', st'. split; [exact Hs|]. split; [exact Ht'|].
    exists (S f1). intros f Hf. destruct f as [|f]; [lia|]. rewrite nud_S. rewrite Ha, H1 by lia. reflexivity.
  Qed.

  Lemma nud_flatten k fol : Pprhs k (L TFlatten) fol -> forall st rest, toks st = TFlatten :: flatk k ++ fol :: rest ->
    exists k' st', shapek k' = shapek k /\ toks st' = fol :: rest /\ ev (fun f => nud' f st) (erase (CFlattenP k'), st').
  Proof.
    intros Hk st rest Ht. adv Ht. destruct (flatten_ev k fol Hk AIdentity st0 rest Ht0) as (k' & st' & Hs & Ht' & [f1 H1]). exists k', st'. split; [exact Hs|]. split; [exact Ht'|].
    exists (S f1). intros f Hf. destruct f as [|f]; [lia|]. rewrite nud_S. rewrite Ha, H1 by lia. reflexivity.
  Qed.

  Lemma nud_filter p k fol : Pexpr p 0 TRbracket -> Pprhs k (L TFilter) fol -> forall st rest,
    toks st = TFilter :: flat p ++ TRbracket :: flatk k ++ fol :: rest ->
    exists p' k' st', shape p' = shape p /\ shapek k' = shapek k /\ toks st' = fol :: rest /\ ev (fun f => nud' f st) (erase (CFilterP p' k'), st').
  Proof.
    intros Hp Hk st rest Ht. adv Ht. destruct (filter_ev p k fol Hp Hk AIdentity st0 rest Ht0) as (p' & k' & st' & Hsp & Hs & Ht' & [f1 H1]).
    exists p', k', st'. split; [exact Hsp|]. split; [exact Hs|]. split; [exact Ht'|].
    exists (S f1). intros f Hf. destruct f as [|f]; [lia|]. rewrite nud_S. rewrite Ha, H1 by lia. reflexivity.
  Qed.

  Lemma nud_wild k fol : Pprhs k (L TStar) fol -> forall st rest, toks st = TLbracket :: TStar :: TRbracket :: flatk k ++ fol :: rest ->
    exists k' st', shapek k' = shapek k /\ toks st' = fol :: rest /\ ev (fun f => nud' f st) (erase (CWildP k'), st').
  Proof.
    intros Hk st rest Ht. adv Ht. adv Ht0. destruct (wi_ev k fol Hk AIdentity st1 rest Ht1) as (k' & st' & Hs & Ht' & [f1 H1]). exists k', st'. split; [exact Hs|]. split; [exact Ht'|].
    exists (S f1). intros f Hf. destruct f as [|f]; [lia|]. rewrite nud_S. rewrite Ha, Hp0. rewrite Hq1, (peek0 _ _ _ Ht1). cbn [tok_is_rbracket]. rewrite Ha0, H1 by lia. reflexivity.
  Qed.

  Lemma nud_index n st rest : toks st = TLbracket :: TNumber n :: TRbracket :: rest ->
    exists st', toks st' = rest /\ ev (fun f => nud' f st) (erase (CIndexP n), st').
  Proof.
    intros Ht. adv Ht. destruct (parse_index_index st0 n rest Ht0) as (st' & Ht' & [f1 H1]). exists st'. split; [exact Ht'|].
    exists (S f1). intros f Hf. destruct f as [|f]; [lia|]. rewrite nud_S. rewrite Ha, (peek0 _ _ _ Ht0), H1 by lia. reflexivity.
  Qed.

  Lemma nud_slice sl k fol : Pprhs k (L TStar) fol -> forall st rest, toks st = TLbracket :: slice_toks sl ++ TRbracket :: flatk k ++ fol :: rest ->
    exists off k' st', shapek k' = shapek k /\ toks st' = fol :: rest /\ ev (fun f => nud' f st) (erase (CSliceP off sl k'), st').
  Proof.
    intros Hk st rest Ht. adv Ht. destruct (parse_index_slice sl k fol Hk st0 rest Ht0) as (off & k' & st' & Hs & Ht' & [f1 H1]).
    exists off, k', st'. split; [exact Hs|]. split; [exact Ht'|]. exists (S f1). intros f Hf. destruct f as [|f]; [lia|]. rewrite nud_S. rewrite Ha.
    destruct (slice_first sl (flatk k ++ fol :: rest)) as (t & r' & Et & Hkind). rewrite Et in Ht0. rewrite (peek0 st0 _ _ Ht0).
    destruct t; try contradiction; rewrite H1 by lia; reflexivity.
  Qed.

  (* ---------- multi-select lists ---------- *)
  Lemma ev_det {A} (F : nat -> res A) r1 r2 : ev F r1 -> ev F r2 -> r1 = r2.
  Proof. intros [f1 H1] [f2 H2]. specialize (H1 (Nat.max f1 f2) ltac:(lia)). specialize (H2 (Nat.max f1 f2) ltac:(lia)). congruence. Qed.

  Lemma unpair r0 : forall es, map shape_arg r0 = map shape_arg (map (pair false) es) ->
    map shape (map snd r0) = map shape es /\ map erase_arg r0 = map erase (map snd r0).
  Proof.
    induction r0 as [|[b x] r IH]; intros [|y es] H; cbn [map] in *; try discriminate; [split; reflexivity|].
    unfold shape_arg at 1 3 in H. cbn [fst snd] in H. injection H as -> Hx Hr. destruct (IH es Hr) as [H1 H2]. cbn [fst snd]. split; [now rewrite Hx, H1|].
    unfold erase_arg at 1. cbn [fst snd]. now rewrite H2.
  Qed.

  Lemma pmulti_S f st : parse_multi_list' (S f) st =
    if tok_is_rbracket (peek st 0) then perr st true else let* (es, st1) := parse_list' f CloseBracket [] st in Ok (AMultiList es, st1).
  Proof. reflexivity. Qed.

  Lemma mlist_ev e es st rest : each (Item CloseBracket) ((false, e) :: map (pair false) es) ->
    toks st = flat e ++ mlist_tail es ++ rest ->
    exists e' es' st', shape e' = shape e /\ map shape es' = map shape es /\ toks st' = rest /\
      ev (fun f => parse_multi_list' f st) (erase (CMList e' es'), st').
  Proof.
    intros Hall Ht. rewrite mlist_tail_items in Ht.
    destruct (plist_go CloseBracket _ (false, e) [] st rest Hall Ht) as (as' & st' & Hs & Ht' & [f1 H1]).
    destruct as' as [|[b0 e'] r0]; [discriminate|]. cbn [map] in Hs. unfold shape_arg at 1 3 in Hs. cbn [fst snd] in Hs. injection Hs as -> He Hr.
    destruct (unpair r0 es Hr) as [Hr1 Hr2]. exists e', (map snd r0), st'. split; [exact He|]. split; [exact Hr1|]. split; [exact Ht'|].
    exists (S f1). intros f Hf. destruct f as [|f]; [lia|]. rewrite pmulti_S.
    cbn [each] in Hall. destruct Hall as [[(t & tl & Ea & Hnc) _] _]. unfold flat_arg in Ea. cbn [fst snd app] in Ea. rewrite Ea in Ht. cbn [app] in Ht.
    rewrite (peek0 _ _ _ Ht). cbn [is_closing] in Hnc. rewrite Hnc. rewrite H1 by lia. cbn [bind rev app map erase]. unfold erase_arg at 1. cbn [fst snd]. now rewrite Hr2.
  Qed.

  Lemma peek1_nil st t : toks st = [t] -> peek st 1 = TEof.
  Proof. unfold toks, peek. destruct st as [q o]. cbn [pq]. destruct q as [|[p t0] [|x q]]; cbn; try discriminate; reflexivity. Qed.

  Lemma nud_mlist st o st0 t tl' res : advance_with_pos st = (o, TLbracket, st0) -> toks st0 = t :: tl' -> starter t = true ->
    (match t :: tl' with TStar :: TRbracket :: _ => False | _ => True end) ->
    ev (fun f => parse_multi_list' f st0) res -> ev (fun f => nud' f st) res.
  Proof.
    intros Ha Ht0 Hst Hns [f1 H1]. exists (S f1). intros f Hf. destruct f as [|f]; [lia|].
    rewrite nud_S. rewrite Ha. rewrite (peek0 _ _ _ Ht0).
    destruct t; try discriminate Hst; try (apply H1; lia).
    destruct tl' as [|t1 tl1]; [rewrite (peek1_nil _ _ Ht0); cbn [tok_is_rbracket]; apply H1; lia|].
    rewrite (peek1 _ _ _ _ Ht0). destruct t1; try contradiction; cbn [tok_is_rbracket]; apply H1; lia.
  Qed.

  (* ---------- calls ---------- *)
  Lemma if_true {A} (b : bool) (x y : A) : b = true -> (if b then x else y) = x. Proof. now intros ->. Qed.
  Lemma if_false {A} (b : bool) (x y : A) : b = false -> (if b then x else y) = y. Proof. now intros ->. Qed.
  Definition args_toks (args : list (bool * cst)) : list token := match args with [] => [TRparen] | a :: r => flat_arg a ++ args_tail r end.

  Lemma args_ev args st rest : each (Item CloseParen) args -> toks st = args_toks args ++ rest ->
    exists args' st', map shape_arg args' = map shape_arg args /\ toks st' = rest /\ ev (fun f => parse_list' f CloseParen [] st) (map erase_arg args', st').
  Proof.
    intros Hall Ht. destruct args as [|a r]; cbn [args_toks app] in Ht.
    - destruct (plist_empty CloseParen [] st rest Ht) as (st' & Ht' & Hev). exists [], st'. split; [reflexivity|]. split; [exact Ht'|exact Hev].
    - rewrite args_tail_items, <- app_assoc in Ht. exact (plist_go CloseParen r a [] st rest Hall Ht).
  Qed.

  Lemma call_S name args rbp st rest : rbp < L TLparen -> each (Item CloseParen) args ->
    toks st = TIdentifier name :: TLparen :: args_toks args ++ rest ->
    exists off args' st', map shape_arg args' = map shape_arg args /\ toks st' = rest /\
      forall result, ev (fun f => expr_loop' f rbp (AFunction off name (map erase_arg args')) st') result -> ev (fun f => expr' f rbp st) result.
  Proof.
    intros Hrbp Hall Ht. adv Ht. adv Ht0. destruct (args_ev args st1 rest Hall Ht1) as (args' & st' & Hs & Ht' & [f1 H1]).
    exists o0, args', st'. split; [exact Hs|]. split; [exact Ht'|]. intros result Hl.
    destruct (Bool.bool_dec strict true) as [Estrict|Estrict]; [|apply Bool.not_true_is_false in Estrict].
    - apply (expr_from_nud rbp st (AFunction o0 name (map erase_arg args')) st'); [|exact Hl].
      exists (S f1). intros f Hf. destruct f as [|f]; [lia|]. rewrite nud_S. rewrite Ha, (if_true strict _ _ Estrict), Hp0, Ha0. rewrite H1 by lia. reflexivity.
    - apply (expr_from_nud rbp st (AField name) st0).
      + exists 1%nat. intros f Hf. destruct f as [|f]; [lia|]. rewrite nud_S. rewrite Ha, (if_false strict _ _ Estrict). reflexivity.
      + apply (loop_step rbp (AField name) st0 (AFunction o0 name (map erase_arg args')) st'); [rewrite Hp0; exact Hrbp| |exact Hl].
        exists (S f1). intros f Hf. destruct f as [|f]; [lia|]. rewrite led_S. rewrite Ha0, (if_false strict _ _ Estrict). rewrite H1 by lia. reflexivity.
  Qed.

  (* ---------- the induction ---------- *)
  Definition entry (dp : bool) (f : nat) (bp : Z) (st : pst) : res (ast * pst) := if dp then parse_dot' f bp st else expr' f bp st.

  (** in the code ([strict = false]) a multi-select list after a dot is not continued inside the operand *)
  Definition excl (dp : bool) (rbp : Z) (fol : token) (c : cst) : Prop :=
    strict = false -> dp = true -> match head c with CMList _ _ => spine_ops c = [] /\ L fol <= rbp | _ => True end.

  Definition nd (c : cst) : Prop := if strict then True else nodotlist c.
  Definition ndk (k : cont) : Prop := if strict then True else nodotlistk k.

  Lemma nd_unfold c : nd c ->
    match c with
    | CCurrent | CIdent _ | CQIdent _ | CLit _ | CIndexP _ => True
    | CNot x | CParen x | CAmp x => nd x
    | CMList e es => nd e /\ Forall nd es
    | CMHash (_, _, e) kvs => nd e /\ Forall (fun kv : bool * str * cst => nd (snd kv)) kvs
    | CCall _ _ args => Forall (fun a : bool * cst => nd (snd a)) args
    | CStarP k | CFlattenP k | CWildP k | CSliceP _ _ k => ndk k
    | CFilterP p k => nd p /\ ndk k
    | CBin _ l r => nd l /\ nd r
    | CDot l d => nd l /\ nd d /\ (strict = false -> dotlist_free d)
    | CDotStar l k => nd l /\ ndk k
    | CIndex l _ => nd l
    | CSlice l _ _ k | CWild l k | CFlatten l k => nd l /\ ndk k
    | CFilter l p k => nd l /\ nd p /\ ndk k
    | CCallOn l _ _ args => nd l /\ Forall (fun a : bool * cst => nd (snd a)) args
    end.
  Proof.
    unfold nd, ndk. destruct strict.
    - intros _. destruct c as [| | | | | |e es|[[q k] e] kvs|off name args| | | | | | | | | | | | | | |x|l off name args];
        repeat split; try exact I; try discriminate; apply Forall_forall; intros; exact I.
    - destruct c as [| | | | | |e es|[[q k] e] kvs|off name args| | | | | | | | | | | | | | |x|l off name args]; intros H; try exact H; try exact I.
      + apply nodotlist_mlist. exact H.
      + apply (nodotlist_mhash q k e kvs). exact H.
      + apply (nodotlist_call off name args). exact H.
      + cbn [nodotlist] in H. destruct H as (H1 & H2 & H3). repeat split; try assumption. intros _. assumption.
      + cbn [nodotlist] in H. destruct H as [H1 H2]. split; [exact H1|]. clear H1.
        induction args as [|[b y] r IH]; [constructor|]. destruct H2 as [Hx Hr]. constructor; [exact Hx|exact (IH Hr)].
  Qed.

  Lemma ndk_unfold k : ndk k -> match k with KNone => True | KDot d => nd d /\ (strict = false -> dotlist_free d) | KExpr x => nd x end.
  Proof.
    unfold nd, ndk. destruct strict.
    - intros _. destruct k; repeat split; try exact I; discriminate.
    - destruct k; intros H; try exact H; try exact I. cbn [nodotlistk] in H. destruct H. split; [assumption|intros _; assumption].
  Qed.

  Definition SC (c : cst) : Prop := forall dp rbp fol st rest,
    wf c -> tighter L rbp c -> inner L c -> dis L STOP dp fol c -> nd c -> rbp < L TLparen ->
    (dp = true -> dot_ok (head c) = true) -> excl dp rbp fol c ->
    toks st = flat c ++ fol :: rest ->
    exists c' st', shape c' = shape c /\ toks st' = fol :: rest /\
      forall result, ev (fun f => expr_loop' f rbp (erase c') st') result -> ev (fun f => entry dp f rbp st) result.

  Definition SK (k : cont) : Prop := forall bp fol,
    wfk k -> innerk L bp k -> disk L STOP bp fol k -> ndk k -> bp < L TLparen -> Pprhs k bp fol.

  Lemma S_Pexpr x rbp fol : SC x -> wf x -> prec L rbp x -> dis L STOP false fol x -> nd x -> rbp < L TLparen -> L fol <= rbp -> Pexpr x rbp fol.
  Proof.
    intros HS Hw [Ht Hi] Hd Hn Hb Hf st rest Htk.
    destruct (HS false rbp fol st rest Hw Ht Hi Hd Hn Hb ltac:(discriminate) ltac:(intros _; discriminate) Htk) as (x' & st' & Hs & Ht' & Hk).
    exists x', st'. split; [exact Hs|]. split; [exact Ht'|]. apply (Hk (erase x', st')). apply loop_stop. now rewrite (peek0 _ _ _ Ht').
  Qed.

  Lemma S_Pdot d bp fol : SC d -> wf d -> prec L bp d -> dis L STOP true fol d -> nd d -> bp < L TLparen -> dot_ok (head d) = true ->
    (strict = false -> dotlist_free d) -> L fol <= bp -> Pdot d bp fol.
  Proof.
    intros HS Hw [Ht Hi] Hd Hn Hb Hdo Hfree Hf st rest Htk.
    assert (Hex : excl true bp fol d).
    { intros Es _. specialize (Hfree Es). unfold dotlist_free in Hfree. destruct (head d); try exact I. split; assumption. }
    destruct (HS true bp fol st rest Hw Ht Hi Hd Hn Hb (fun _ => Hdo) Hex Htk) as (d' & st' & Hs & Ht' & Hk).
    exists d', st'. split; [exact Hs|]. split; [exact Ht'|]. apply (Hk (erase d', st')). apply loop_stop. now rewrite (peek0 _ _ _ Ht').
  Qed.

  Lemma tighter_snoc rbp l t c : tighter L rbp c -> spine_ops c = spine_ops l ++ [t] -> tighter L rbp l /\ rbp < L t.
  Proof. unfold tighter. intros H E. rewrite E in H. apply Forall_app in H. destruct H as [H1 H2]. inversion H2; subst. split; assumption. Qed.

  Lemma excl_left dp rbp fol fol' c l t : excl dp rbp fol c -> head c = head l -> spine_ops c = spine_ops l ++ [t] -> excl dp rbp fol' l.
  Proof.
    unfold excl. intros H Eh Es Hs Hd. specialize (H Hs Hd). rewrite Eh in H. destruct (head l); try exact I. destruct H as [H _]. rewrite Es in H.
    destruct (spine_ops l); discriminate.
  Qed.

  Lemma entry_expr dp bp st t r res : toks st = t :: r ->
    (dp = true -> match t with TIdentifier _ | TQuotedIdentifier _ | TStar | TLbrace => True | _ => False end) ->
    ev (fun f => expr' f bp st) res -> ev (fun f => entry dp f bp st) res.
  Proof. intros Ht Hk He. destruct dp; [|exact He]. apply (pdot_expr bp st t r res Ht (Hk eq_refl) He). Qed.

  (* ---------- items of the separated lists ---------- *)
  Lemma starter_not_closing c t : starter t = true -> is_closing c t = false.
  Proof. destruct c, t; try discriminate; reflexivity. Qed.

  Lemma sep_map {A B} (g : A -> B) close (r : list A) : sep close (map g r) = sep close r.
  Proof. destruct r; reflexivity. Qed.

  Lemma L_sep {A} close (r : list A) : L close = 0 -> L (sep close r) <= 0.
  Proof. intros H. facts. destruct r; cbn [sep]; lia. Qed.

  Lemma L_lparen_pos : 0 < L TLparen. Proof. facts. lia. Qed.

  Lemma item_bracket x fol : Pexpr x 0 fol -> Pitem CloseBracket (false, x) fol.
  Proof.
    intros Hx st rest Ht. unfold flat_arg in Ht. cbn [fst snd app] in Ht. destruct (Hx st rest Ht) as (x' & st' & Hs & Ht' & Hev).
    exists (false, x'), st'. split; [unfold shape_arg; cbn [fst snd]; now rewrite Hs|]. split; [exact Ht'|]. exact Hev.
  Qed.

  Lemma bracket_item x (r : list cst) : SC x -> wf x -> prec L 0 x -> dis L STOP false (sep TRbracket r) x -> nd x ->
    Item CloseBracket (map (pair false) r) (false, x).
  Proof.
    intros HS Hw Hp Hd Hn. split.
    - destruct (flat_first x Hw) as (t & tl & E & Hst). exists t, tl. split; [exact E|apply starter_not_closing; exact Hst].
    - rewrite sep_map. apply item_bracket. apply S_Pexpr; try assumption; [apply L_lparen_pos|]. apply L_sep. facts. exact F23.
  Qed.

  Lemma bracket_items : forall es, Forall SC es -> Forall wf es -> Forall (prec L 0) es ->
    each (fun r x => dis L STOP false (sep TRbracket r) x) es -> Forall nd es -> each (Item CloseBracket) (map (pair false) es).
  Proof.
    induction es as [|x r IH]; intros HS Hw Hp Hd Hn; cbn [map each]; [exact I|].
    inversion HS; inversion Hw; inversion Hp; inversion Hn; subst. cbn [each] in Hd. destruct Hd as [Hd1 Hd2].
    split; [apply bracket_item; assumption|apply IH; assumption].
  Qed.

  Lemma hash_items : forall kvs : list (bool * str * cst), Forall (fun kv => SC (snd kv)) kvs -> Forall (fun kv => wf (snd kv)) kvs ->
    Forall (fun kv => prec L 0 (snd kv)) kvs -> each (fun r kv => dis L STOP false (sep TRbrace r) (snd kv)) kvs -> Forall (fun kv => nd (snd kv)) kvs ->
    each (fun r (kv : bool * str * cst) => Pexpr (snd kv) 0 (sep TRbrace r)) kvs.
  Proof.
    induction kvs as [|x r IH]; intros HS Hw Hp Hd Hn; cbn [each]; [exact I|].
    inversion HS; inversion Hw; inversion Hp; inversion Hn; subst. cbn [each] in Hd. destruct Hd as [Hd1 Hd2].
    split; [|apply IH; assumption]. apply S_Pexpr; try assumption; [apply L_lparen_pos|]. apply L_sep. facts. exact F29.
  Qed.

  Lemma item_paren_plain x fol : wf x -> Pexpr x 0 fol -> Pitem CloseParen (false, x) fol.
  Proof.
    intros Hw Hx st rest Ht. unfold flat_arg in Ht. cbn [fst snd app] in Ht. destruct (Hx st rest Ht) as (x' & st' & Hs & Ht' & [f1 H1]).
    exists (false, x'), st'. split; [unfold shape_arg; cbn [fst snd]; now rewrite Hs|]. split; [exact Ht'|].
    exists f1. intros f Hf. unfold item'. destruct (flat_first x Hw) as (t & tl & E & Hst). rewrite E in Ht. cbn [app] in Ht. rewrite (peek0 _ _ _ Ht).
    destruct t; try discriminate Hst; apply H1; exact Hf.
  Qed.

  Lemma item_paren_amp x fol : L fol <= 0 -> Pexpr x (L TAmpersand) fol -> Pitem CloseParen (true, x) fol.
  Proof.
    intros Hfol Hx st rest Ht. unfold flat_arg in Ht. cbn [fst snd app] in Ht. adv Ht. destruct (Hx st0 rest Ht0) as (x' & st' & Hs & Ht' & [f1 H1]).
    exists (true, x'), st'. split; [unfold shape_arg; cbn [fst snd]; now rewrite Hs|]. split; [exact Ht'|].
    exists (S (S (S f1))). intros f Hf. unfold item'. rewrite Hp.
    destruct (Bool.bool_dec strict true) as [Es|Es]; [|apply Bool.not_true_is_false in Es].
    - rewrite (if_true strict _ _ Es), Ha, H1 by lia. reflexivity.
    - rewrite (if_false strict _ _ Es). do 2 (destruct f as [|f]; [lia|]). rewrite expr_S. rewrite nud_S. rewrite Ha, (if_false strict _ _ Es).
      rewrite H1 by lia. cbn [bind]. rewrite loop_S, (peek0 _ _ _ Ht'). assert ((0 <? L fol) = false) as -> by lia. reflexivity.
  Qed.

  Lemma paren_items : forall args : list (bool * cst), Forall (fun a => SC (snd a)) args -> Forall (fun a => wf (snd a)) args ->
    Forall (arg_prec L) args -> each (dis_arg L STOP) args -> Forall (fun a => nd (snd a)) args -> each (Item CloseParen) args.
  Proof.
    induction args as [|[b x] r IH]; intros HS Hw Hp Hd Hn; cbn [each]; [exact I|].
    inversion HS; inversion Hw; inversion Hp; inversion Hn; subst. cbn [each] in Hd. destruct Hd as [Hd1 Hd2]. cbn [snd] in *.
    split; [|apply IH; assumption]. unfold dis_arg in Hd1. cbn [snd] in Hd1.
    match goal with H : arg_prec L (b, x) |- _ => unfold arg_prec in H; cbn [fst snd] in H; rename H into Hpx end.
    assert (Hsep : L (sep TRparen r) <= 0) by (apply L_sep; facts; exact F28).
    split.
    - destruct (flat_first x ltac:(assumption)) as (t & tl & E & Hst). unfold flat_arg. cbn [fst snd]. destruct b; cbn [app].
      + eexists _, _. split; reflexivity.
      + exists t, tl. split; [exact E|apply starter_not_closing; exact Hst].
    - facts. destruct b.
      + apply item_paren_amp; [exact Hsep|]. apply S_Pexpr; try assumption; cbn [close_tok]; lia.
      + apply item_paren_plain; [assumption|]. apply S_Pexpr; try assumption; cbn [close_tok]; lia.
  Qed.

  Lemma nud_hash st o st0 res : advance_with_pos st = (o, TLbrace, st0) -> ev (fun f => parse_kvps' f [] st0) res -> ev (fun f => nud' f st) res.
  Proof. intros Ha [f1 H1]. exists (S f1). intros f Hf. destruct f as [|f]; [lia|]. rewrite nud_S. rewrite Ha. apply H1. lia. Qed.

  Ltac nodot dp Hdot := destruct dp; [specialize (Hdot eq_refl); discriminate Hdot|].

  Lemma first_two e es tl : wf e -> exists a b l, (flat e ++ mlist_tail es) ++ tl = a :: b :: l ++ tl /\ flat e ++ mlist_tail es = a :: b :: l /\ starter a = true.
  Proof.
    intros Hw. destruct (flat_first e Hw) as (t & r & E & Hst). rewrite E. destruct r as [|b r]; cbn [app].
    - destruct es as [|x es]; cbn [mlist_tail app]; [exists t, TRbracket, []|exists t, TComma, (flat x ++ mlist_tail es)]; (split; [reflexivity|split; [reflexivity|exact Hst]]).
    - exists t, b, (r ++ mlist_tail es). split; [now rewrite <- app_assoc|split; [reflexivity|exact Hst]].
  Qed.

  Theorem complete_all : (forall c, SC c) /\ (forall k, SK k).
  Proof.
    apply cst_cont_ind.
    - (* CCurrent *) intros dp rbp fol st rest Hw Htg Hin Hdis Hnd Hrbp Hdot Hex Ht. nodot dp Hdot. cbn [flat app] in Ht.
      destruct (nud_current st _ Ht) as (st' & Ht' & Hn). exists CCurrent, st'. split; [reflexivity|]. split; [exact Ht'|].
      intros result Hl. exact (expr_from_nud rbp st _ st' result Hn Hl).
    - (* CIdent *) intros s dp rbp fol st rest Hw Htg Hin Hdis Hnd Hrbp Hdot Hex Ht. cbn [flat app] in Ht. cbn [dis] in Hdis.
      destruct (nud_ident s fol st rest Hdis Ht) as (st' & Ht' & Hn). exists (CIdent s), st'. split; [reflexivity|]. split; [exact Ht'|].
      intros result Hl. apply (entry_expr dp rbp st _ _ result Ht); [intros _; exact I|]. exact (expr_from_nud rbp st _ st' result Hn Hl).
    - (* CQIdent *) intros s dp rbp fol st rest Hw Htg Hin Hdis Hnd Hrbp Hdot Hex Ht. cbn [flat app] in Ht. cbn [dis] in Hdis.
      destruct (nud_qident s fol st rest Hdis Ht) as (st' & Ht' & Hn). exists (CQIdent s), st'. split; [reflexivity|]. split; [exact Ht'|].
      intros result Hl. apply (entry_expr dp rbp st _ _ result Ht); [intros _; exact I|]. exact (expr_from_nud rbp st _ st' result Hn Hl).
    - (* CLit *) intros v dp rbp fol st rest Hw Htg Hin Hdis Hnd Hrbp Hdot Hex Ht. nodot dp Hdot. cbn [flat app] in Ht.
      destruct (nud_lit v st _ Ht) as (st' & Ht' & Hn). exists (CLit v), st'. split; [reflexivity|]. split; [exact Ht'|].
      intros result Hl. exact (expr_from_nud rbp st _ st' result Hn Hl).
    - (* CNot *) intros x IHx dp rbp fol st rest Hw Htg Hin Hdis Hnd Hrbp Hdot Hex Ht. nodot dp Hdot. cbn [flat app] in Ht.
      cbn [wfb] in Hw. cbn [inner] in Hin. cbn [dis] in Hdis. destruct Hdis as [Hfol Hdx]. apply nd_unfold in Hnd. facts.
      assert (Hpx : Pexpr x (L TNot) fol) by (apply S_Pexpr; try assumption; lia).
      destruct (nud_not x fol Hpx st rest Ht) as (x' & st' & Hs & Ht' & Hn). exists (CNot x'), st'. split; [cbn [shape]; now rewrite Hs|]. split; [exact Ht'|].
      intros result Hl. exact (expr_from_nud rbp st _ st' result Hn Hl).
    - (* CParen *) intros x IHx dp rbp fol st rest Hw Htg Hin Hdis Hnd Hrbp Hdot Hex Ht. nodot dp Hdot. cbn [flat app] in Ht. rewrite <- app_assoc in Ht. cbn [app] in Ht.
      cbn [wfb] in Hw. cbn [inner] in Hin. cbn [dis] in Hdis. apply nd_unfold in Hnd. facts.
      assert (Hpx : Pexpr x 0 TRparen) by (apply S_Pexpr; try assumption; lia).
      destruct (nud_paren x Hpx st _ Ht) as (x' & st' & Hs & Ht' & Hn). exists (CParen x'), st'. split; [cbn [shape]; now rewrite Hs|]. split; [exact Ht'|].
      intros result Hl. exact (expr_from_nud rbp st _ st' result Hn Hl).
    - (* CMList *) intros e es IHe IHes dp rbp fol st rest Hw Htg Hin Hdis Hnd Hrbp Hdot Hex Ht.
      apply wf_mlist in Hw. destruct Hw as [Hwe Hwes]. apply inner_mlist in Hin. destruct Hin as [Hpe Hpes].
      apply dis_mlist in Hdis. destruct Hdis as (Hns & Hde & Hdes). apply nd_unfold in Hnd. destruct Hnd as [Hne Hnes].
      assert (Hitems : each (Item CloseBracket) ((false, e) :: map (pair false) es)).
      { cbn [each]. split; [apply bracket_item; assumption|apply bracket_items; assumption]. }
      rewrite flat_mlist in Ht. cbn [app] in Ht. adv Ht.
      destruct (first_two e es (fol :: rest) Hwe) as (a & b & l & E2 & E2' & Hsta).
      assert (Ht0' : toks st0 = flat e ++ mlist_tail es ++ fol :: rest) by (rewrite Ht0, <- app_assoc; reflexivity).
      destruct (mlist_ev e es st0 (fol :: rest) Hitems Ht0') as (e' & es' & st' & Hse & Hses & Ht' & Hm).
      exists (CMList e' es'), st'. split; [rewrite !shape_mlist; now rewrite Hse, Hses|]. split; [exact Ht'|]. intros result Hl.
      destruct dp.
      + (* after a dot *)
        unfold entry. destruct Hm as [f1 H1].
        destruct (Bool.bool_dec strict true) as [Es|Es]; [|apply Bool.not_true_is_false in Es].
        * destruct Hl as [f2 H2]. exists (S (Nat.max f1 f2)). intros f Hf. destruct f as [|f]; [lia|].
          rewrite pdot_S, Hp, Ha, (if_true strict _ _ Es), H1 by lia. cbn [bind]. apply H2. lia.
        * specialize (Hex Es eq_refl). cbn [head] in Hex. destruct Hex as [_ Hfol].
          assert (Hstop : ev (fun f => expr_loop' f rbp (erase (CMList e' es')) st') (erase (CMList e' es'), st')) by (apply loop_stop; now rewrite (peek0 _ _ _ Ht')).
          rewrite (ev_det _ _ _ Hl Hstop). exists (S f1). intros f Hf. destruct f as [|f]; [lia|].
          rewrite pdot_S, Hp, Ha, (if_false strict _ _ Es). apply H1. lia.
      + (* operand position *)
        unfold entry. apply (expr_from_nud rbp st (erase (CMList e' es')) st' result); [|exact Hl].
        rewrite E2 in Ht0. cbn [app] in Ht0. apply (nud_mlist st o st0 a _ _ Ha Ht0 Hsta); [|exact Hm].
        specialize (Hns eq_refl). rewrite E2' in Hns. destruct a; try exact I. destruct b; try exact I. contradiction.
    - (* CMHash *) intros q k e kvs IHe IHkvs dp rbp fol st rest Hw Htg Hin Hdis Hnd Hrbp Hdot Hex Ht.
      apply wf_mhash in Hw. destruct Hw as [Hwe Hwes]. apply inner_mhash in Hin. destruct Hin as [Hpe Hpes].
      apply dis_mhash in Hdis. destruct Hdis as (Hde & Hdes). apply nd_unfold in Hnd. destruct Hnd as [Hne Hnes].
      rewrite flat_mhash in Ht. cbn [app] in Ht. rewrite <- app_assoc in Ht. pose proof Ht as Ht_. adv Ht.
      assert (He : Pexpr e 0 (sep TRbrace kvs)). { apply S_Pexpr; try assumption; [apply L_lparen_pos|]. apply L_sep. facts. exact F29. }
      pose proof (hash_items kvs IHkvs Hwes Hpes Hdes Hnes) as Hall.
      destruct (kvps_go kvs q k e [] st0 (fol :: rest) He Hall Ht0) as (e' & kvs' & st' & Hse & Hses & Ht' & Hm).
      exists (CMHash (q, k, e') kvs'), st'. split; [rewrite !shape_mhash; f_equal; [now rewrite Hse|exact Hses]|]. split; [exact Ht'|]. intros result Hl.
      apply (entry_expr dp rbp st _ _ result Ht_); [intros _; exact I|].
      apply (expr_from_nud rbp st (erase (CMHash (q, k, e') kvs')) st' result); [|exact Hl]. rewrite erase_mhash. apply (nud_hash st o st0 _ Ha). exact Hm.
    - (* CCall *) intros off name args IHargs dp rbp fol st rest Hw Htg Hin Hdis Hnd Hrbp Hdot Hex Ht.
      apply wf_call in Hw. apply inner_call in Hin. apply dis_call in Hdis. apply nd_unfold in Hnd.
      pose proof (paren_items args IHargs Hw Hin Hdis Hnd) as Hitems.
      rewrite flat_call in Ht. cbn [app] in Ht. fold (args_toks args) in Ht.
      destruct (call_S name args rbp st (fol :: rest) Hrbp Hitems Ht) as (off' & args' & st' & Hs & Ht' & Hk).
      exists (CCall off' name args'), st'. split; [rewrite !shape_call; f_equal; exact Hs|]. split; [exact Ht'|]. intros result Hl.
      apply (entry_expr dp rbp st _ _ result Ht); [intros _; exact I|]. apply Hk. rewrite erase_call in Hl. exact Hl.
    - (* CStarP *) intros k IHk dp rbp fol st rest Hw Htg Hin Hdis Hnd Hrbp Hdot Hex Ht. cbn [flat app] in Ht.
      cbn [wfb] in Hw. cbn [inner] in Hin. cbn [dis] in Hdis. apply nd_unfold in Hnd. facts.
      assert (Hpk : Pprhs k (L TStar) fol) by (apply IHk; try assumption; lia).
      destruct (nud_star k fol Hpk st rest Ht) as (k' & st' & Hs & Ht' & Hn). exists (CStarP k'), st'. split; [cbn [shape]; now rewrite Hs|]. split; [exact Ht'|].
      intros result Hl. apply (entry_expr dp rbp st _ _ result Ht); [intros _; exact I|]. exact (expr_from_nud rbp st _ st' result Hn Hl).
    - (* CFlattenP *) intros k IHk dp rbp fol st rest Hw Htg Hin Hdis Hnd Hrbp Hdot Hex Ht. nodot dp Hdot. cbn [flat app] in Ht.
      cbn [wfb] in Hw. cbn [inner] in Hin. cbn [dis] in Hdis. apply nd_unfold in Hnd. facts.
      assert (Hpk : Pprhs k (L TFlatten) fol) by (apply IHk; try assumption; lia).
      destruct (nud_flatten k fol Hpk st rest Ht) as (k' & st' & Hs & Ht' & Hn). exists (CFlattenP k'), st'. split; [cbn [shape]; now rewrite Hs|]. split; [exact Ht'|].
      intros result Hl. exact (expr_from_nud rbp st _ st' result Hn Hl).
    - (* CFilterP *) intros p k IHp IHk dp rbp fol st rest Hw Htg Hin Hdis Hnd Hrbp Hdot Hex Ht. nodot dp Hdot. cbn [flat app] in Ht. rewrite <- app_assoc in Ht. cbn [app] in Ht.
      cbn [wfb] in Hw. destruct Hw as [Hwp Hwk]. cbn [inner] in Hin. destruct Hin as [Hpp Hik]. cbn [dis] in Hdis. destruct Hdis as [Hdp Hdk].
      apply nd_unfold in Hnd. destruct Hnd as [Hnp Hnk]. facts.
      assert (Hpp' : Pexpr p 0 TRbracket) by (apply S_Pexpr; try assumption; lia).
      assert (Hpk : Pprhs k (L TFilter) fol) by (apply IHk; try assumption; lia).
      destruct (nud_filter p k fol Hpp' Hpk st rest Ht) as (p' & k' & st' & Hsp & Hs & Ht' & Hn).
      exists (CFilterP p' k'), st'. split; [cbn [shape]; now rewrite Hsp, Hs|]. split; [exact Ht'|].
      intros result Hl. exact (expr_from_nud rbp st _ st' result Hn Hl).
    - (* CWildP *) intros k IHk dp rbp fol st rest Hw Htg Hin Hdis Hnd Hrbp Hdot Hex Ht. nodot dp Hdot. cbn [flat app] in Ht.
      cbn [wfb] in Hw. cbn [inner] in Hin. cbn [dis] in Hdis. apply nd_unfold in Hnd. facts.
      assert (Hpk : Pprhs k (L TStar) fol) by (apply IHk; try assumption; lia).
      destruct (nud_wild k fol Hpk st rest Ht) as (k' & st' & Hs & Ht' & Hn). exists (CWildP k'), st'. split; [cbn [shape]; now rewrite Hs|]. split; [exact Ht'|].
      intros result Hl. exact (expr_from_nud rbp st _ st' result Hn Hl).
    - (* CIndexP *) intros n dp rbp fol st rest Hw Htg Hin Hdis Hnd Hrbp Hdot Hex Ht. nodot dp Hdot. cbn [flat app] in Ht.
      destruct (nud_index n st _ Ht) as (st' & Ht' & Hn). exists (CIndexP n), st'. split; [reflexivity|]. split; [exact Ht'|].
      intros result Hl. exact (expr_from_nud rbp st _ st' result Hn Hl).
    - (* CSliceP *) intros off sl k IHk dp rbp fol st rest Hw Htg Hin Hdis Hnd Hrbp Hdot Hex Ht. nodot dp Hdot. cbn [flat app] in Ht. rewrite <- app_assoc in Ht. cbn [app] in Ht.
      cbn [wfb] in Hw. cbn [inner] in Hin. cbn [dis] in Hdis. apply nd_unfold in Hnd. facts.
      assert (Hpk : Pprhs k (L TStar) fol) by (apply IHk; try assumption; lia).
      destruct (nud_slice sl k fol Hpk st rest Ht) as (off' & k' & st' & Hs & Ht' & Hn). exists (CSliceP off' sl k'), st'. split; [cbn [shape]; now rewrite Hs|]. split; [exact Ht'|].
      intros result Hl. exact (expr_from_nud rbp st _ st' result Hn Hl).
    - (* CBin *) intros o l r IHl IHr dp rbp fol st rest Hw Htg Hin Hdis Hnd Hrbp Hdot Hex Ht.
      cbn [wfb] in Hw. destruct Hw as [Hwl Hwr]. cbn [inner] in Hin. destruct Hin as (Hil & Htr & Hir). cbn [dis] in Hdis. destruct Hdis as (Hdl & Hfol & Hdr).
      apply nd_unfold in Hnd. destruct Hnd as [Hnl Hnr]. cbn [flat] in Ht. rewrite <- app_assoc in Ht. cbn [app] in Ht.
      destruct (tighter_snoc rbp l (binop_tok o) _ Htg eq_refl) as [Htl Hlt].
      destruct (IHl dp rbp (binop_tok o) st _ Hwl Htl Hil Hdl Hnl Hrbp Hdot (excl_left dp rbp fol _ _ l _ Hex eq_refl eq_refl) Ht) as (l' & st1 & Hsl & Ht1 & Hk1).
      assert (Hpr : Pexpr r (rbp_of L o) fol). { apply S_Pexpr; try assumption; [split; assumption|]. facts. destruct o; cbn [rbp_of]; lia. }
      destruct (led_bin o r fol Hpr (erase l') l' st1 rest eq_refl Ht1) as (r' & st' & Hsr & Ht' & Hled).
      exists (CBin o l' r'), st'. split; [cbn [shape]; now rewrite Hsl, Hsr|]. split; [exact Ht'|]. intros result Hl. apply Hk1.
      eapply loop_step; [rewrite (peek0 _ _ _ Ht1); exact Hlt|exact Hled|exact Hl].
    - (* CDot *) intros l d IHl IHd dp rbp fol st rest Hw Htg Hin Hdis Hnd Hrbp Hdot Hex Ht.
      cbn [wfb] in Hw. destruct Hw as (Hwl & Hwd & Hdok). cbn [inner] in Hin. destruct Hin as (Hil & Htd & Hid). cbn [dis] in Hdis. destruct Hdis as (Hdl & Hns & Hfol & Hdd).
      apply nd_unfold in Hnd. destruct Hnd as (Hnl & Hndd & Hfree). cbn [flat] in Ht. rewrite <- app_assoc in Ht. cbn [app] in Ht.
      destruct (tighter_snoc rbp l TDot _ Htg eq_refl) as [Htl Hlt].
      destruct (IHl dp rbp TDot st _ Hwl Htl Hil Hdl Hnl Hrbp Hdot (excl_left dp rbp fol _ _ l _ Hex eq_refl eq_refl) Ht) as (l' & st1 & Hsl & Ht1 & Hk1).
      assert (Hpd : Pdot d (L TDot) fol). { apply S_Pdot; try assumption; [split; assumption|]. facts. lia. }
      assert (Hns' : match flat d with [] => False | TStar :: _ => False | _ => True end).
      { destruct (flat_first d Hwd) as (t & tl & E & _). rewrite E in *. exact Hns. }
      destruct (led_dot d fol Hpd Hns' (erase l') l' st1 rest eq_refl Ht1) as (d' & st' & Hsd & Ht' & Hled).
      exists (CDot l' d'), st'. split; [cbn [shape]; now rewrite Hsl, Hsd|]. split; [exact Ht'|]. intros result Hl. apply Hk1.
      eapply loop_step; [rewrite (peek0 _ _ _ Ht1); exact Hlt|exact Hled|exact Hl].
    - (* CDotStar *) intros l k IHl IHk dp rbp fol st rest Hw Htg Hin Hdis Hnd Hrbp Hdot Hex Ht.
      cbn [wfb] in Hw. destruct Hw as (Hwl & Hwk). cbn [inner] in Hin. destruct Hin as (Hil & Hik). cbn [dis] in Hdis. destruct Hdis as (Hdl & Hdk).
      apply nd_unfold in Hnd. destruct Hnd as (Hnl & Hnk). cbn [flat] in Ht. rewrite <- app_assoc in Ht. cbn [app] in Ht.
      destruct (tighter_snoc rbp l TDot _ Htg eq_refl) as [Htl Hlt].
      destruct (IHl dp rbp TDot st _ Hwl Htl Hil Hdl Hnl Hrbp Hdot (excl_left dp rbp fol _ _ l _ Hex eq_refl eq_refl) Ht) as (l' & st1 & Hsl & Ht1 & Hk1).
      assert (Hpk : Pprhs k (L TStar) fol) by (facts; apply IHk; try assumption; lia).
      destruct (led_dotstar k fol Hpk (erase l') l' st1 rest eq_refl Ht1) as (k' & st' & Hsk & Ht' & Hled).
      exists (CDotStar l' k'), st'. split; [cbn [shape]; now rewrite Hsl, Hsk|]. split; [exact Ht'|]. intros result Hl. apply Hk1.
      eapply loop_step; [rewrite (peek0 _ _ _ Ht1); exact Hlt|exact Hled|exact Hl].
    - (* CIndex *) intros l n IHl dp rbp fol st rest Hw Htg Hin Hdis Hnd Hrbp Hdot Hex Ht.
      cbn [wfb] in Hw. cbn [inner] in Hin. cbn [dis] in Hdis. apply nd_unfold in Hnd. cbn [flat] in Ht. rewrite <- app_assoc in Ht. cbn [app] in Ht.
      destruct (tighter_snoc rbp l TLbracket _ Htg eq_refl) as [Htl Hlt].
      destruct (IHl dp rbp TLbracket st _ Hw Htl Hin Hdis Hnd Hrbp Hdot (excl_left dp rbp fol _ _ l _ Hex eq_refl eq_refl) Ht) as (l' & st1 & Hsl & Ht1 & Hk1).
      destruct (led_index n (erase l') l' st1 _ eq_refl Ht1) as (st' & Ht' & Hled).
      exists (CIndex l' n), st'. split; [cbn [shape]; now rewrite Hsl|]. split; [exact Ht'|]. intros result Hl. apply Hk1.
      eapply loop_step; [rewrite (peek0 _ _ _ Ht1); exact Hlt|exact Hled|exact Hl].
    - (* CSlice *) intros l off sl k IHl IHk dp rbp fol st rest Hw Htg Hin Hdis Hnd Hrbp Hdot Hex Ht.
      cbn [wfb] in Hw. destruct Hw as (Hwl & Hwk). cbn [inner] in Hin. destruct Hin as (Hil & Hik). cbn [dis] in Hdis. destruct Hdis as (Hdl & Hdk).
      apply nd_unfold in Hnd. destruct Hnd as (Hnl & Hnk). cbn [flat] in Ht. rewrite <- !app_assoc in Ht. cbn [app] in Ht. rewrite <- !app_assoc in Ht. cbn [app] in Ht.
      destruct (tighter_snoc rbp l TLbracket _ Htg eq_refl) as [Htl Hlt].
      destruct (IHl dp rbp TLbracket st _ Hwl Htl Hil Hdl Hnl Hrbp Hdot (excl_left dp rbp fol _ _ l _ Hex eq_refl eq_refl) Ht) as (l' & st1 & Hsl & Ht1 & Hk1).
      assert (Hpk : Pprhs k (L TStar) fol) by (facts; apply IHk; try assumption; lia).
      destruct (led_slice sl k fol Hpk (erase l') l' st1 rest eq_refl Ht1) as (off' & k' & st' & Hsk & Ht' & Hled).
      exists (CSlice l' off' sl k'), st'. split; [cbn [shape]; now rewrite Hsl, Hsk|]. split; [exact Ht'|]. intros result Hl. apply Hk1.
      eapply loop_step; [rewrite (peek0 _ _ _ Ht1); exact Hlt|exact Hled|exact Hl].
    - (* CWild *) intros l k IHl IHk dp rbp fol st rest Hw Htg Hin Hdis Hnd Hrbp Hdot Hex Ht.
      cbn [wfb] in Hw. destruct Hw as (Hwl & Hwk). cbn [inner] in Hin. destruct Hin as (Hil & Hik). cbn [dis] in Hdis. destruct Hdis as (Hdl & Hdk).
      apply nd_unfold in Hnd. destruct Hnd as (Hnl & Hnk). cbn [flat] in Ht. rewrite <- app_assoc in Ht. cbn [app] in Ht.
      destruct (tighter_snoc rbp l TLbracket _ Htg eq_refl) as [Htl Hlt].
      destruct (IHl dp rbp TLbracket st _ Hwl Htl Hil Hdl Hnl Hrbp Hdot (excl_left dp rbp fol _ _ l _ Hex eq_refl eq_refl) Ht) as (l' & st1 & Hsl & Ht1 & Hk1).
      assert (Hpk : Pprhs k (L TStar) fol) by (facts; apply IHk; try assumption; lia).
      destruct (led_wild k fol Hpk (erase l') l' st1 rest eq_refl Ht1) as (k' & st' & Hsk & Ht' & Hled).
      exists (CWild l' k'), st'. split; [cbn [shape]; now rewrite Hsl, Hsk|]. split; [exact Ht'|]. intros result Hl. apply Hk1.
      eapply loop_step; [rewrite (peek0 _ _ _ Ht1); exact Hlt|exact Hled|exact Hl].
    - (* CFlatten *) intros l k IHl IHk dp rbp fol st rest Hw Htg Hin Hdis Hnd Hrbp Hdot Hex Ht.
      cbn [wfb] in Hw. destruct Hw as (Hwl & Hwk). cbn [inner] in Hin. destruct Hin as (Hil & Hik). cbn [dis] in Hdis. destruct Hdis as (Hdl & Hdk).
      apply nd_unfold in Hnd. destruct Hnd as (Hnl & Hnk). cbn [flat] in Ht. rewrite <- app_assoc in Ht. cbn [app] in Ht.
      destruct (tighter_snoc rbp l TFlatten _ Htg eq_refl) as [Htl Hlt].
      destruct (IHl dp rbp TFlatten st _ Hwl Htl Hil Hdl Hnl Hrbp Hdot (excl_left dp rbp fol _ _ l _ Hex eq_refl eq_refl) Ht) as (l' & st1 & Hsl & Ht1 & Hk1).
      assert (Hpk : Pprhs k (L TFlatten) fol) by (facts; apply IHk; try assumption; lia).
      destruct (led_flatten k fol Hpk (erase l') l' st1 rest eq_refl Ht1) as (k' & st' & Hsk & Ht' & Hled).
      exists (CFlatten l' k'), st'. split; [cbn [shape]; now rewrite Hsl, Hsk|]. split; [exact Ht'|]. intros result Hl. apply Hk1.
      eapply loop_step; [rewrite (peek0 _ _ _ Ht1); exact Hlt|exact Hled|exact Hl].
    - (* CFilter *) intros l p k IHl IHp IHk dp rbp fol st rest Hw Htg Hin Hdis Hnd Hrbp Hdot Hex Ht.
      cbn [wfb] in Hw. destruct Hw as (Hwl & Hwp & Hwk). cbn [inner] in Hin. destruct Hin as (Hil & Hpp & Hik). cbn [dis] in Hdis. destruct Hdis as (Hdl & Hdp & Hdk).
      apply nd_unfold in Hnd. destruct Hnd as (Hnl & Hnp & Hnk). cbn [flat] in Ht. rewrite <- app_assoc in Ht. cbn [app] in Ht. rewrite <- app_assoc in Ht. cbn [app] in Ht.
      destruct (tighter_snoc rbp l TFilter _ Htg eq_refl) as [Htl Hlt].
      destruct (IHl dp rbp TFilter st _ Hwl Htl Hil Hdl Hnl Hrbp Hdot (excl_left dp rbp fol _ _ l _ Hex eq_refl eq_refl) Ht) as (l' & st1 & Hsl & Ht1 & Hk1).
      assert (Hpp' : Pexpr p 0 TRbracket) by (facts; apply S_Pexpr; try assumption; lia).
      assert (Hpk : Pprhs k (L TFilter) fol) by (facts; apply IHk; try assumption; lia).
      destruct (led_filter p k fol Hpp' Hpk (erase l') l' st1 rest eq_refl Ht1) as (p' & k' & st' & Hsp & Hsk & Ht' & Hled).
      exists (CFilter l' p' k'), st'. split; [cbn [shape]; now rewrite Hsl, Hsp, Hsk|]. split; [exact Ht'|]. intros result Hl. apply Hk1.
      eapply loop_step; [rewrite (peek0 _ _ _ Ht1); exact Hlt|exact Hled|exact Hl].
    - (* CAmp *) intros x IHx dp rbp fol st rest Hw. cbn [wfb] in Hw. destruct Hw as [Hw _]. discriminate.
    - (* CCallOn *) intros l off name args IHl IHargs dp rbp fol st rest Hw. cbn [wfb] in Hw. destruct Hw as [Hw _]. discriminate.
    - (* KNone *) intros bp fol Hw Hin Hdis Hnd Hbp. cbn [disk] in Hdis. apply prhs_none. exact Hdis.
    - (* KDot *) intros d IHd bp fol Hw Hin Hdis Hnd Hbp. cbn [wfkb] in Hw. destruct Hw as [Hwd Hdok]. cbn [innerk] in Hin. cbn [disk] in Hdis. destruct Hdis as [Hfol Hdd].
      apply ndk_unfold in Hnd. destruct Hnd as [Hnd Hfree]. apply prhs_dot. apply S_Pdot; assumption.
    - (* KExpr *) intros x IHx bp fol Hw Hin Hdis Hnd Hbp. cbn [wfkb] in Hw. destruct Hw as [Hwx Hbok]. cbn [innerk] in Hin. cbn [disk] in Hdis. destruct Hdis as [Hfol Hdx].
      apply ndk_unfold in Hnd. apply prhs_expr; [exact Hbok|]. apply S_Pexpr; assumption.
  Qed.

  (** ev at the parser's own fuel *)
  Lemma ev_at_parse_fuel tl r : ev (fun f => parse_tokens L STOP strict f tl) r -> parse_tokens L STOP strict (parse_fuel tl) tl = Ok r.
  Proof.
    intros [f0 H]. pose proof (parse_tokens_never_out_of_fuel L STOP strict tl) as Hn.
    rewrite <- (parse_tokens_fuel_independent L STOP strict (parse_fuel tl) (Nat.max f0 (parse_fuel tl)) tl ltac:(lia) Hn). apply H. lia.
  Qed.

  (** Completeness on token lists: every disambiguated tree of the grammar is
      accepted from the tokens it flattens to, and the tree returned is its
      abstract tree (offsets are positions of the token list). *)
  Theorem complete_tokens c tl : wf c -> prec L 0 c -> dis L STOP false TEof c -> nd c -> map snd tl = flat c ++ [TEof] ->
    exists c', shape c' = shape c /\ parse_tokens L STOP strict (parse_fuel tl) tl = Ok (erase c').
  Proof.
    intros Hw Hp Hd Hn Ht. facts. destruct complete_all as [HS _].
    assert (Hpe : Pexpr c 0 TEof) by (apply S_Pexpr; try assumption; [apply HS|lia|lia]).
    destruct (Hpe (mkPst tl 0) [] Ht) as (c' & st' & Hs & Ht' & [f1 H1]). exists c'. split; [exact Hs|]. apply ev_at_parse_fuel.
    exists f1. intros f Hf. unfold parse_tokens. rewrite H1 by exact Hf. cbn [bind]. now rewrite (peek0 _ _ _ Ht').
  Qed.
End Complete.

(* ---------- the two parsers ---------- *)
Lemma gen_table_order : table_order_ok gen_lbp gen_projection_stop = true.
Proof. vm_compute. reflexivity. Qed.

(** The reference parser accepts every disambiguated sentence of the grammar. *)
Theorem ref_parser_complete s tl c : tokenize s = Ok tl -> map snd tl = flat c ++ [TEof] ->
  wf c -> prec (fun t => spec_lbp (kind_of t)) 0 c -> dis (fun t => spec_lbp (kind_of t)) spec_stop false TEof c ->
  exists c', shape c' = shape c /\ ref_parse s = Ok (erase c').
Proof.
  intros Htk Hfl Hw Hp Hd. unfold ref_parse. rewrite Htk. cbn [bind].
  exact (complete_tokens spec_lbp spec_stop spec_table_order true c tl Hw Hp Hd I Hfl).
Qed.

(** The code accepts every disambiguated sentence of the grammar outside the one
    recorded deviation class (a multi-select list after a dot that is continued
    inside the same operand), and builds the tree of the grammar. *)
Theorem code_parser_complete s tl c : tokenize s = Ok tl -> map snd tl = flat c ++ [TEof] ->
  wf c -> prec lbp 0 c -> dis lbp gen_projection_stop false TEof c -> nodotlist c ->
  exists c', shape c' = shape c /\ parse s = Ok (erase c').
Proof.
  intros Htk Hfl Hw Hp Hd Hn. unfold parse. rewrite Htk. cbn [bind].
  exact (complete_tokens gen_lbp gen_projection_stop gen_table_order false c tl Hw Hp Hd Hn Hfl).
Qed.

(* ---------- trees up to offsets ---------- *)
Fixpoint unoff (a : ast) : ast :=
  match a with
  | AComparison c l r => AComparison c (unoff l) (unoff r)
  | ACondition p t => ACondition (unoff p) (unoff t)
  | AIdentity => AIdentity
  | AExpref x => AExpref (unoff x)
  | AFlatten x => AFlatten (unoff x)
  | AFunction _ name args => AFunction 0 name ((fix go (l : list ast) : list ast := match l with [] => [] | x :: r => unoff x :: go r end) args)
  | AField n => AField n
  | AIndex i => AIndex i
  | ALiteral v => ALiteral v
  | AMultiList es => AMultiList ((fix go (l : list ast) : list ast := match l with [] => [] | x :: r => unoff x :: go r end) es)
  | AMultiHash kvs => AMultiHash ((fix go (l : list (str * ast)) : list (str * ast) := match l with [] => [] | (k, x) :: r => (k, unoff x) :: go r end) kvs)
  | ANot x => ANot (unoff x)
  | AProjection l r => AProjection (unoff l) (unoff r)
  | AObjectValues x => AObjectValues (unoff x)
  | AAnd l r => AAnd (unoff l) (unoff r)
  | AOr l r => AOr (unoff l) (unoff r)
  | ASlice _ a b c => ASlice 0 a b c
  | ASubexpr l r => ASubexpr (unoff l) (unoff r)
  end.

Lemma unoff_function off name args : unoff (AFunction off name args) = AFunction 0 name (map unoff args).
Proof. reflexivity. Qed.
Lemma unoff_mlist es : unoff (AMultiList es) = AMultiList (map unoff es).
Proof. reflexivity. Qed.
Lemma unoff_mhash kvs : unoff (AMultiHash kvs) = AMultiHash (map (fun kv : str * ast => (fst kv, unoff (snd kv))) kvs).
Proof. cbn [unoff]. f_equal. induction kvs as [|[k x] r IH]; [reflexivity|]. cbn [map fst snd]. now rewrite IH. Qed.

Lemma map_ext_Forall {A B} (f g : A -> B) l : Forall (fun x => f x = g x) l -> map f l = map g l.
Proof. induction 1 as [|x r Hx Hr IH]; [reflexivity|]. cbn [map]. now rewrite Hx, IH. Qed.

Lemma erase_shape : (forall c, erase (shape c) = unoff (erase c)) /\ (forall k, erasek (shapek k) = unoff (erasek k)).
Proof.
  apply cst_cont_ind; intros;
    try (cbn [shape shapek erase erasek unoff]; repeat match goal with H : erase (shape _) = _ |- _ => rewrite H | H : erasek (shapek _) = _ |- _ => rewrite H end; reflexivity).
  - (* list *) rewrite shape_mlist. cbn [erase]. rewrite unoff_mlist. cbn [map]. rewrite H. do 2 f_equal.
    rewrite !map_map. apply map_ext_Forall. exact H0.
  - (* hash *) rewrite shape_mhash, !erase_mhash, unoff_mhash. cbn [map fst snd]. rewrite H. do 2 f_equal.
    rewrite !map_map. apply map_ext_Forall. eapply Forall_impl; [|exact H0]. intros [[q' k'] x] Hx. cbn [fst snd] in *. now rewrite Hx.
  - (* call *) rewrite shape_call, !erase_call, unoff_function. f_equal.
    rewrite !map_map. apply map_ext_Forall. eapply Forall_impl; [|exact H]. intros [b x] Hx. unfold erase_arg. cbn [fst snd] in *. destruct b; cbn [unoff]; now rewrite Hx.
  - (* binary *) cbn [shape erase]. rewrite H, H0. destruct o; reflexivity.
  - (* call on *) assert (Es : shape (CCallOn l off name args) = CCallOn (shape l) 0 name (map (fun a : bool * cst => (fst a, shape (snd a))) args)).
    { cbn [shape]. f_equal. clear. induction args as [|[b x] r IH]; [reflexivity|]. cbn [map fst snd]. f_equal. exact IH. }
    rewrite Es, !erase_callon, unoff_function. f_equal.
    rewrite !map_map. apply map_ext_Forall. eapply Forall_impl; [|exact H0]. intros [b x] Hx. unfold erase_arg. cbn [fst snd] in *. destruct b; cbn [unoff]; now rewrite Hx.
Qed.

(** The disambiguated grammar is unambiguous: two disambiguated trees of the same
    sentence denote the same abstract tree (up to the error-reporting offsets). *)
Theorem disambiguated_grammar_unambiguous T STOP c1 c2 : table_order_ok T STOP = true ->
  let L := fun t => T (kind_of t) in
  wf c1 -> prec L 0 c1 -> dis L STOP false TEof c1 -> wf c2 -> prec L 0 c2 -> dis L STOP false TEof c2 ->
  flat c1 = flat c2 -> unoff (erase c1) = unoff (erase c2).
Proof.
  intros Hord L Hw1 Hp1 Hd1 Hw2 Hp2 Hd2 Hf.
  pose (tl := map (fun t => (0, t)) (flat c1 ++ [TEof])).
  assert (Htl : map snd tl = flat c1 ++ [TEof]). { unfold tl. rewrite map_map. cbn [snd]. apply map_id. }
  destruct (complete_tokens T STOP Hord true c1 tl Hw1 Hp1 Hd1 I Htl) as (c1' & Hs1 & H1).
  rewrite Hf in Htl. destruct (complete_tokens T STOP Hord true c2 tl Hw2 Hp2 Hd2 I Htl) as (c2' & Hs2 & H2).
  rewrite H1 in H2. injection H2 as He. destruct erase_shape as [Hes _].
  rewrite <- (Hes c1), <- (Hes c2), <- Hs1, <- Hs2, !Hes. now rewrite He.
Qed.
