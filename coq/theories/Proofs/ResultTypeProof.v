(** C06: a call that satisfies the signature returns a value of the function's
    declared result type (the third column of the specification's table). *)
From Coq Require Import ZifyBool Floats.SpecFloat.
From JP Require Import Base F64 Value Sig JsonRead JsonPrint Functions Interp Gen.Tables Spec.SigSpec Proofs.CmpProof Proofs.FunProof.

Definition name_of (b : builtin) : str :=
  match b with
  | BAbs => [97;98;115] | BAvg => [97;118;103] | BCeil => [99;101;105;108] | BContains => [99;111;110;116;97;105;110;115]
  | BEndsWith => [101;110;100;115;95;119;105;116;104] | BFloor => [102;108;111;111;114] | BJoin => [106;111;105;110]
  | BKeys => [107;101;121;115] | BLength => [108;101;110;103;116;104] | BMap => [109;97;112] | BMax => [109;97;120]
  | BMaxBy => [109;97;120;95;98;121] | BMerge => [109;101;114;103;101] | BMin => [109;105;110] | BMinBy => [109;105;110;95;98;121]
  | BNotNull => [110;111;116;95;110;117;108;108] | BReverse => [114;101;118;101;114;115;101] | BSort => [115;111;114;116]
  | BSortBy => [115;111;114;116;95;98;121] | BStartsWith => [115;116;97;114;116;115;95;119;105;116;104] | BSum => [115;117;109]
  | BToArray => [116;111;95;97;114;114;97;121] | BToNumber => [116;111;95;110;117;109;98;101;114]
  | BToString => [116;111;95;115;116;114;105;110;103] | BType => [116;121;112;101] | BValues => [118;97;108;117;101;115]
  end.

(** every registration of the generated list binds the modelled implementation to its specification name *)
Lemma registry_names : forallb (fun '(name, st, sg) => match obj_get struct_table st with Some b => str_eqb (name_of b) name | None => false end) gen_registry = true.
Proof. vm_compute. reflexivity. Qed.

Definition result_ok (b : builtin) (r : value) : bool :=
  match obj_get spec_table (name_of b) with Some ss => has_stype (s_result ss) r | None => false end.

(** data: values without expression references inside; an expression reference only as a whole argument *)
Definition data_arg (v : value) : Prop := no_expref v = true \/ exists a, v = VExpref a.
Definition ev_data (ev : evaluator) : Prop := forall v a o r o', ev v a o = Ok (r, o') -> no_expref r = true.

Lemma from_f64_num f off r o : from_f64 f off = Ok (r, o) -> exists n, r = VNum n.
Proof. unfold from_f64. destruct (f_is_finite f); [intros E; injection E as <- _; eauto|discriminate]. Qed.

Lemma strings_of_ok vs ss : strings_of vs = Ok ss -> True. Proof. auto. Qed.

Lemma map_loop_arr ev ast : forall vs acc off r o, map_loop ev ast vs acc off = Ok (r, o) -> exists l, r = VArr l.
Proof.
  induction vs as [|v vs IH]; intros acc off r o; cbn [map_loop].
  - intros E. injection E as <- _. eauto.
  - destruct (ev v ast off) as [[x o1]|?| | |]; cbn [bind]; try discriminate. apply IH.
Qed.

Lemma fold_pick_in (op : value -> value -> value) (Hop : forall a b, op a b = a \/ op a b = b) : forall xs x, In (fold_left op xs x) (x :: xs).
Proof.
  induction xs as [|y xs IH]; intros x; cbn [fold_left]; [left; reflexivity|].
  destruct (IH (op x y)) as [E|H]; [|right; right; exact H]. rewrite <- E. destruct (Hop x y) as [->| ->]; [left|right; left]; reflexivity.
Qed.

Lemma first_non_null_in args : first_non_null args = VNull \/ In (first_non_null args) args.
Proof. induction args as [|a r IH]; cbn [first_non_null]; [left; reflexivity|]. destruct (is_null a); [destruct IH; [left|right; right]; assumption|right; left; reflexivity]. Qed.

Lemma sort_by_arr ev args off r o : sort_by ev args off = Ok (r, o) -> exists l, r = VArr l.
Proof.
  unfold sort_by. destruct (arg0 args) as [a|?| | |]; cbn [bind]; try discriminate.
  destruct a as [| | | |l| |]; try discriminate. destruct l as [|v0 vs]; [intros E; injection E as <- _; eauto|].
  destruct (arg1 args) as [e|?| | |]; cbn [bind]; try discriminate. destruct e; try discriminate.
  destruct (ev v0 a off) as [[first off1]|?| | |]; cbn [bind]; try discriminate.
  destruct (negb (by_type_ok (get_type first))); [discriminate|].
  destruct (sort_by_keys ev a (get_type first) vs 1 [(v0, first)] off1) as [[pairs off2]|?| | |]; cbn [bind]; try discriminate.
  intros E. injection E as <- _. eauto.
Qed.

Ltac arity_facts Hacc :=
  cbv zeta in Hacc;
  repeat match type of Hacc with
         | (if false then _ else _) = _ => cbn iota in Hacc
         | (if ?c then _ else _) = _ => let E := fresh "Ea" in destruct c eqn:E; [discriminate Hacc|]
         end.

Ltac bad_type Hacc :=
  match type of Hacc with match (if ?c then _ else _) with _ => _ end = _ => fail | _ => idtac end.

Lemma has_any_nx v : data_arg v -> has_stype SAny v = true -> no_expref v = true.
Proof. intros [H|[a ->]]; [auto|discriminate]. Qed.

Lemma sfirst_bad_variadic t : forall args k, sfirst_bad [] (Some t) args k = None -> Forall (fun v => has_stype t v = true) args.
Proof. induction args as [|v r IH]; intros k; cbn [sfirst_bad]; [constructor|]. destruct (has_stype t v) eqn:E; [intros H; constructor; [exact E|exact (IH _ H)]|discriminate]. Qed.

Lemma acc1 (c : bool) k : match (if c then sfirst_bad [] None [] k else Some 0) with Some k' => SVBadType k' | None => SVAccept end = SVAccept -> c = true.
Proof. destruct c; [auto|discriminate]. Qed.

Lemma merge_objs_ok args o : merge_objs args = Ok o -> True. Proof. auto. Qed.

Theorem builtin_result_type ev b sg args off r o :
  ev_data ev -> Forall data_arg args -> spec_verdict (name_of b) args = SVAccept ->
  call_builtin ev b sg args off = Ok (r, o) -> result_ok b r = true.
Proof.
  intros Hev Hdata Hacc. unfold call_builtin. destruct (validate sg args off) as [[]|?| | |]; cbn [bind]; try discriminate.
  unfold result_ok. unfold spec_verdict in Hacc.
  destruct b; cbn [name_of] in *;
    match goal with |- context [obj_get spec_table ?n] => let ss := eval vm_compute in (obj_get spec_table n) in change (obj_get spec_table n) with ss in * end;
    cbn [s_params s_variadic s_result] in *; arity_facts Hacc.
  all: try (match goal with H : (_ <? zlen ?a) = false |- _ => is_var a; destruct a as [|a0 [|a1 [|a2 rest]]] end; unfold zlen in *; cbn [length] in *; try lia; cbn [sfirst_bad has_stype orb] in Hacc).
  - (* abs *) destruct a0; try discriminate Hacc. cbn [arg0 bind]. intros E. apply from_f64_num in E as [m ->]. reflexivity.
  - (* avg *) destruct a0 as [| | | |l| |]; try discriminate Hacc. cbn [arg0 bind]. destruct l as [|x xs]; [intros E; injection E as <- _; reflexivity|].
    destruct (avg_sum (x :: xs) (S754_zero false)); cbn [bind]; try discriminate. intros E. apply from_f64_num in E as [m ->]. reflexivity.
  - (* ceil *) destruct a0; try discriminate Hacc. cbn [arg0 bind]. intros E. apply from_f64_num in E as [m ->]. reflexivity.
  - (* contains *) cbn [arg0 arg1 bind]. destruct a0; try discriminate Hacc; [destruct a1|]; intros E; injection E as <- _; reflexivity.
  - (* ends_with *) cbn [arg0 arg1 bind]. destruct a0, a1; try discriminate Hacc; intros E; try discriminate E; injection E as <- _; reflexivity.
  - (* floor *) destruct a0; try discriminate Hacc. cbn [arg0 bind]. intros E. apply from_f64_num in E as [m ->]. reflexivity.
  - (* join *) cbn [arg0 arg1 bind]. destruct a0, a1; try discriminate Hacc; try (intros E; discriminate E).
    destruct (strings_of l); cbn [bind]; try discriminate. intros E; injection E as <- _; reflexivity.
  - (* keys *) destruct a0; try discriminate Hacc. cbn [arg0 bind]. intros E. injection E as <- _. cbn [has_stype]. rewrite forallb_forall. intros x Hx. apply in_map_iff in Hx as (kv & <- & _). reflexivity.
  - (* length *) destruct a0; try discriminate Hacc; cbn [arg0 bind]; intros E; injection E as <- _; reflexivity.
  - (* map *) cbn [arg0 arg1 bind]. destruct a0, a1; try discriminate Hacc; try (intros E; discriminate E). intros E. apply map_loop_arr in E as [l' ->]. reflexivity.
  - (* max *) unfold min_and_max. cbn [arg0 bind]. destruct a0 as [| | | |l| |]; try discriminate Hacc. destruct l as [|x xs]; [intros E; injection E as <- _; reflexivity|].
    intros E. injection E as <- _. pose proof (fold_pick_in ord_max ltac:(intros a b; unfold ord_max; destruct (var_cmp a b); auto) xs x) as Hin.
    apply (acc1 _ (0 + 1)) in Hacc. apply orb_true_iff in Hacc as [Es|En].
    + cbn [has_stype] in Es. rewrite forallb_forall in Es. specialize (Es _ Hin). destruct (fold_left ord_max xs x); cbn [has_stype] in Es; try discriminate Es; reflexivity.
    + cbn [has_stype] in En. rewrite forallb_forall in En. specialize (En _ Hin). destruct (fold_left ord_max xs x); cbn [has_stype] in En; try discriminate En; reflexivity.
  - (* max_by *) intros E. pose proof (max_by_returns_element ev true {| sig_inputs := []; sig_variadic := Some TyAny |}) as Hel.
    unfold min_and_max_by in E. cbn [arg0 arg1 bind] in E. destruct a0 as [| | | |l| |]; try discriminate Hacc; try discriminate E.
    destruct l as [|v0 vs]; [injection E as <- _; reflexivity|]. destruct a1; try discriminate E.
    destruct (ev v0 a off) as [[initial off1]|?| | |]; cbn [bind] in E; try discriminate E. destruct (negb (by_type_ok (get_type initial))); [discriminate E|].
    apply by_loop_in in E. inversion Hdata as [|? ? Hd0 _]; subst. destruct Hd0 as [Hd0|[? Hd0]]; [|discriminate Hd0]. cbn [no_expref] in Hd0. rewrite forallb_forall in Hd0.
    assert (Hin : In r (v0 :: vs)) by (destruct E as [->|E]; [left; reflexivity|right; exact E]). specialize (Hd0 _ Hin). cbn [has_stype]. destruct r; try reflexivity. discriminate Hd0.
  - (* merge *) destruct (merge_objs args); cbn [bind]; try discriminate. intros E. injection E as <- _. reflexivity.
  - (* min *) unfold min_and_max. cbn [arg0 bind]. destruct a0 as [| | | |l| |]; try discriminate Hacc. destruct l as [|x xs]; [intros E; injection E as <- _; reflexivity|].
    intros E. injection E as <- _. pose proof (fold_pick_in ord_min ltac:(intros a b; unfold ord_min; destruct (var_cmp a b); auto) xs x) as Hin.
    apply (acc1 _ (0 + 1)) in Hacc. apply orb_true_iff in Hacc as [Es|En].
    + cbn [has_stype] in Es. rewrite forallb_forall in Es. specialize (Es _ Hin). destruct (fold_left ord_min xs x); cbn [has_stype] in Es; try discriminate Es; reflexivity.
    + cbn [has_stype] in En. rewrite forallb_forall in En. specialize (En _ Hin). destruct (fold_left ord_min xs x); cbn [has_stype] in En; try discriminate En; reflexivity.
  - (* min_by *) intros E.
    unfold min_and_max_by in E. cbn [arg0 arg1 bind] in E. destruct a0 as [| | | |l| |]; try discriminate Hacc; try discriminate E.
    destruct l as [|v0 vs]; [injection E as <- _; reflexivity|]. destruct a1; try discriminate E.
    destruct (ev v0 a off) as [[initial off1]|?| | |]; cbn [bind] in E; try discriminate E. destruct (negb (by_type_ok (get_type initial))); [discriminate E|].
    apply by_loop_in in E. inversion Hdata as [|? ? Hd0 _]; subst. destruct Hd0 as [Hd0|[? Hd0]]; [|discriminate Hd0]. cbn [no_expref] in Hd0. rewrite forallb_forall in Hd0.
    assert (Hin : In r (v0 :: vs)) by (destruct E as [->|E]; [left; reflexivity|right; exact E]). specialize (Hd0 _ Hin). cbn [has_stype]. destruct r; try reflexivity. discriminate Hd0.
  - (* not_null *) intros E. injection E as <- _. destruct (first_non_null_in args) as [->|Hin]; [reflexivity|].
    rewrite Forall_forall in Hdata. specialize (Hdata _ Hin).
    destruct args as [|a0 rest]; [destruct Hin|]. cbn [sfirst_bad] in Hacc. destruct (has_stype SAny a0) eqn:E0; [|discriminate Hacc].
    assert (Hall : Forall (fun v => has_stype SAny v = true) (a0 :: rest)).
    { constructor; [exact E0|]. apply (sfirst_bad_variadic SAny rest 1). destruct (sfirst_bad [] (Some SAny) rest (0 + 1)) eqn:Eb; [discriminate Hacc|exact Eb]. }
    rewrite Forall_forall in Hall. exact (Hall _ Hin).
  - (* reverse *) destruct a0; try discriminate Hacc; cbn [arg0 bind]; intros E; injection E as <- _; reflexivity.
  - (* sort *) cbn [arg0 bind]. destruct a0; try discriminate Hacc. intros E; injection E as <- _; reflexivity.
  - (* sort_by *) intros E. apply sort_by_arr in E as [l' ->]. reflexivity.
  - (* starts_with *) cbn [arg0 arg1 bind]. destruct a0, a1; try discriminate Hacc; intros E; try discriminate E; injection E as <- _; reflexivity.
  - (* sum *) cbn [arg0 bind]. destruct a0; try discriminate Hacc. intros E. apply from_f64_num in E as [m ->]. reflexivity.
  - (* to_array *) cbn [arg0 bind]. destruct a0; intros E; injection E as <- _; reflexivity.
  - (* to_number *) cbn [arg0 bind]. destruct a0; try (intros E; injection E as <- _; reflexivity).
    destruct (no_err (from_json s)) as [[v|]|?| | |]; cbn [bind]; try discriminate; [|intros E; injection E as <- _; reflexivity].
    destruct (is_number v) eqn:En; intros E; injection E as <- _; [|reflexivity]. destruct v; try discriminate En. reflexivity.
  - (* to_string *) cbn [arg0 bind]. destruct a0; try (intros E; injection E as <- _; reflexivity);
      (destruct (no_err (print_json _)); cbn [bind]; try discriminate; intros E; injection E as <- _; reflexivity).
  - (* type *) cbn [arg0 bind]. intros E; injection E as <- _; reflexivity.
  - (* values *) cbn [arg0 bind]. destruct a0; try discriminate Hacc. intros E; injection E as <- _; reflexivity.
Qed.
