(** C06 (converse direction) and C15 (call protocol): what a call can return once
    its arguments passed the signature check. *)
From Coq Require Import ZifyBool.
From JP Require Import Base F64 Value Sig JsonRead JsonPrint Functions Interp Spec.SigSpec Proofs.SigProof.

(** An arity, argument-type or unknown-function error. *)
Definition sig_error {A} (r : res A) : bool :=
  match r with
  | Err (ERuntime (KNotEnough _ _) _) | Err (ERuntime (KTooMany _ _) _)
  | Err (ERuntime (KInvalidType _ _ _) _) | Err (ERuntime (KUnknownFunction _) _) => true
  | _ => false
  end.

Definition ev_clean (ev : evaluator) : Prop := forall v a o, sig_error (ev v a o) = false.

Lemma sig_error_bind {A B} (r : res A) (k : A -> res B) :
  sig_error r = false -> (forall a, sig_error (k a) = false) -> sig_error (bind r k) = false.
Proof. intros Hr Hk. destruct r; cbn; auto. Qed.

Lemma from_f64_clean f off : sig_error (from_f64 f off) = false.
Proof. unfold from_f64. destruct (f_is_finite f); reflexivity. Qed.

Lemma arg0_clean args : sig_error (arg0 args) = false.
Proof. destruct args; reflexivity. Qed.
Lemma arg1_clean args : sig_error (arg1 args) = false.
Proof. destruct args as [|? [|? ?]]; reflexivity. Qed.

Lemma by_loop_clean ev better ast ty : ev_clean ev ->
  forall vs inv cand ckey off, sig_error (by_loop ev better ast ty vs inv cand ckey off) = false.
Proof.
  intros Hev. induction vs as [|v vs IH]; intros; cbn [by_loop]; [reflexivity|].
  apply sig_error_bind; [apply Hev|]. intros [mapped off1].
  destruct (negb (jtype_eqb (get_type mapped) ty)); [reflexivity|].
  destruct (better (var_cmp mapped ckey)); apply IH.
Qed.

Lemma min_and_max_by_clean ev better args off : ev_clean ev -> sig_error (min_and_max_by ev better args off) = false.
Proof.
  intros Hev. unfold min_and_max_by. apply sig_error_bind; [apply arg0_clean|]. intros a.
  destruct a as [| | | |[|v0 vs]| |]; try reflexivity.
  apply sig_error_bind; [apply arg1_clean|]. intros e. destruct e; try reflexivity.
  apply sig_error_bind; [apply Hev|]. intros [initial off1].
  destruct (negb (by_type_ok (get_type initial))); [reflexivity|]. now apply by_loop_clean.
Qed.

Lemma sort_by_keys_clean ev ast ty : ev_clean ev ->
  forall vs inv acc off, sig_error (sort_by_keys ev ast ty vs inv acc off) = false.
Proof.
  intros Hev. induction vs as [|v vs IH]; intros; cbn [sort_by_keys]; [reflexivity|].
  apply sig_error_bind; [apply Hev|]. intros [mapped off1].
  destruct (negb (jtype_eqb (get_type mapped) ty)); [reflexivity|]. apply IH.
Qed.

Lemma sort_by_clean ev args off : ev_clean ev -> sig_error (sort_by ev args off) = false.
Proof.
  intros Hev. unfold sort_by. apply sig_error_bind; [apply arg0_clean|]. intros a.
  destruct a as [| | | |[|v0 vs]| |]; try reflexivity.
  apply sig_error_bind; [apply arg1_clean|]. intros e. destruct e; try reflexivity.
  apply sig_error_bind; [apply Hev|]. intros [first off1].
  destruct (negb (by_type_ok (get_type first))); [reflexivity|].
  apply sig_error_bind; [now apply sort_by_keys_clean|]. intros [pairs off2]. reflexivity.
Qed.

Lemma map_loop_clean ev ast : ev_clean ev -> forall vs acc off, sig_error (map_loop ev ast vs acc off) = false.
Proof.
  intros Hev. induction vs as [|v vs IH]; intros; cbn [map_loop]; [reflexivity|].
  apply sig_error_bind; [apply Hev|]. intros [r off1]. apply IH.
Qed.

Lemma avg_sum_clean vs s : sig_error (avg_sum vs s) = false.
Proof. revert s; induction vs as [|v vs IH]; intros; cbn; [reflexivity|]. destruct v; try reflexivity. apply IH. Qed.

Lemma strings_of_clean vs : sig_error (strings_of vs) = false.
Proof.
  induction vs as [|v vs IH]; cbn; [reflexivity|]. destruct v; try reflexivity.
  apply sig_error_bind; [exact IH|reflexivity].
Qed.

Lemma merge_objs_clean args : sig_error (merge_objs args) = false.
Proof.
  unfold merge_objs.
  assert (forall (acc : res (list (str * value))), sig_error acc = false ->
            sig_error (fold_left (fun acc a => let* r := acc in
                                               match a with
                                               | VObj o => Ok (fold_left (fun m '(k, v) => obj_insert m k v) o r)
                                               | _ => fabricated
                                               end) args acc) = false) as H.
  { induction args as [|a args IH]; intros acc Hacc; cbn; [exact Hacc|].
    apply IH. destruct acc; cbn in *; try assumption; try reflexivity. destruct a; reflexivity. }
  apply H. reflexivity.
Qed.

Lemma no_err_clean {A} (r : res A) : sig_error (no_err r) = false.
Proof. destruct r; reflexivity. Qed.

Lemma min_and_max_clean op args off : sig_error (min_and_max op args off) = false.
Proof.
  unfold min_and_max. apply sig_error_bind; [apply arg0_clean|]. intros a.
  destruct a as [| | | |[|x xs]| |]; reflexivity.
Qed.

(** After a successful signature check no builtin reports an arity, argument-type
    or unknown-function error of its own, whatever its arguments are: such an
    error can only come out of a nested call inside an expression argument. *)
Theorem no_sig_error_after_validation ev b sg args off :
  ev_clean ev -> validate sg args off = Ok tt -> sig_error (call_builtin ev b sg args off) = false.
Proof.
  intros Hev Hv. unfold call_builtin. rewrite Hv. cbn [bind].
  destruct b;
    first [ apply min_and_max_clean | now apply min_and_max_by_clean | now apply sort_by_clean
          | (apply sig_error_bind; [apply arg0_clean|]; intros a) | idtac ].
  - (* abs *) destruct a; try reflexivity. apply from_f64_clean.
  - (* avg *) destruct a as [| | | |[|x xs]| |]; try reflexivity.
    apply sig_error_bind; [apply avg_sum_clean|]. intros s. apply from_f64_clean.
  - (* ceil *) destruct a; try reflexivity. apply from_f64_clean.
  - (* contains *) apply sig_error_bind; [apply arg1_clean|]. intros n. destruct a; try reflexivity. destruct n; reflexivity.
  - (* ends_with *) apply sig_error_bind; [apply arg1_clean|]. intros p. destruct a, p; reflexivity.
  - (* floor *) destruct a; try reflexivity. apply from_f64_clean.
  - (* join *) apply sig_error_bind; [apply arg1_clean|]. intros p. destruct a, p; try reflexivity.
    apply sig_error_bind; [apply strings_of_clean|]. reflexivity.
  - (* keys *) destruct a; reflexivity.
  - (* length *) destruct a; reflexivity.
  - (* map *) apply sig_error_bind; [apply arg1_clean|]. intros p. destruct a, p; try reflexivity. now apply map_loop_clean.
  - (* merge *) apply sig_error_bind; [apply merge_objs_clean|]. reflexivity.
  - (* not_null *) reflexivity.
  - (* reverse *) destruct a; reflexivity.
  - (* sort *) destruct a; reflexivity.
  - (* starts_with *) apply sig_error_bind; [apply arg1_clean|]. intros p. destruct a, p; reflexivity.
  - (* sum *) destruct a; try reflexivity. apply from_f64_clean.
  - (* to_array *) destruct a; reflexivity.
  - (* to_number *) destruct a; try reflexivity.
    apply sig_error_bind; [apply no_err_clean|]. intros [v|]; [destruct (is_number v)|]; reflexivity.
  - (* to_string *) destruct a; try reflexivity; (apply sig_error_bind; [apply no_err_clean|]; reflexivity).
  - (* type *) reflexivity.
  - (* values *) destruct a; reflexivity.
Qed.

(** The same for custom functions declared with a signature: the closure is only
    reached when the arguments satisfy it. *)
Lemma custom_validated_first ev id sg args off e :
  validate sg args off = Err e -> call_impl ev (FCustom id (Some sg)) args off = Err e.
Proof. intros H. cbn. rewrite H. reflexivity. Qed.

Lemma custom_receives_arguments ev id sg args off :
  match sg with Some s => validate s args off = Ok tt | None => True end ->
  call_impl ev (FCustom id sg) args off = Ok (VArr [VNum (PosInt id); VArr args], off).
Proof. intros H. cbn. destruct sg as [s|]; [rewrite H|]; reflexivity. Qed.

(** Call protocol of the interpreter: arguments are evaluated left to right
    against the current node (expression references arrive unevaluated, as
    [VExpref]); then the name is looked up; an unknown name is the
    unknown-function error at the call's own offset. *)
Lemma function_unfold n rt d off name args o :
  interp (S n) rt d (AFunction off name args) o =
    let* (fn_args, caller_offset) := eval_list (fun e o' => interp n rt d e o') args [] o in
    match rt_get rt name with
    | Some fi => let* (v, _) := call_impl (interp n rt) fi fn_args off in Ok (v, caller_offset)
    | None => Err (ERuntime (KUnknownFunction name) off)
    end.
Proof. reflexivity. Qed.

Lemma unknown_function n rt d off name args o vs o1 :
  eval_list (fun e o' => interp n rt d e o') args [] o = Ok (vs, o1) -> rt_get rt name = None ->
  interp (S n) rt d (AFunction off name args) o = Err (ERuntime (KUnknownFunction name) off).
Proof. intros H1 H2. rewrite function_unfold, H1. cbn. now rewrite H2. Qed.

Lemma known_function n rt d off name args o vs o1 fi :
  eval_list (fun e o' => interp n rt d e o') args [] o = Ok (vs, o1) -> rt_get rt name = Some fi ->
  interp (S n) rt d (AFunction off name args) o =
    let* (v, _) := call_impl (interp n rt) fi vs off in Ok (v, o1).
Proof. intros H1 H2. rewrite function_unfold, H1. cbn. now rewrite H2. Qed.

Lemma expref_passed_unevaluated n rt d a o : interp (S n) rt d (AExpref a) o = Ok (VExpref a, o).
Proof. reflexivity. Qed.

Lemma argument_error_wins n rt d off name args o e :
  eval_list (fun e' o' => interp n rt d e' o') args [] o = Err e ->
  interp (S n) rt d (AFunction off name args) o = Err e.
Proof. intros H. rewrite function_unfold, H. reflexivity. Qed.
