(** C02: sort_by, max_by, min_by — the expression reference is evaluated once per
    element, in order, against that element; sort_by returns the elements in a
    stable ascending order of their keys; max_by / min_by return the first
    element whose key no other key exceeds / undercuts. *)
From Coq Require Import Permutation Sorted.
From JP Require Import Base F64 Value Sig Functions Proofs.FunProof Proofs.OrdProof.

Lemma jtype_eqb_eq a b : jtype_eqb a b = true -> a = b.
Proof. destruct a, b; cbn; congruence. Qed.

(* ---------- keys are computed element by element ---------- *)
Lemma sort_by_keys_spec ev ast ty : forall vs inv acc off pairs o',
  sort_by_keys ev ast ty vs inv acc off = Ok (pairs, o') ->
  exists keys, each ev ast vs off keys o' /\ pairs = rev acc ++ combine vs keys /\ Forall (fun k => get_type k = ty) keys.
Proof.
  induction vs as [|v vs IH]; intros inv acc off pairs o'; cbn [sort_by_keys].
  - intros E. injection E as <- <-. exists []. split; [constructor|]. split; [now rewrite app_nil_r|constructor].
  - destruct (ev v ast off) as [[mapped off1]|?| | |] eqn:Ev; cbn [bind]; try discriminate.
    destruct (jtype_eqb (get_type mapped) ty) eqn:Et; cbn [negb]; [|discriminate]. apply jtype_eqb_eq in Et.
    intros H. apply IH in H as (keys & He & -> & Hk). exists (mapped :: keys). split; [econstructor; eassumption|].
    split; [cbn [rev combine]; now rewrite <- app_assoc|constructor; assumption].
Qed.

Definition key_cmp (a b : value * value) : comparison := var_cmp (snd a) (snd b).
Definition str_keys (keys : list value) : Prop := Forall (fun k => is_str k = true) keys.
Definition num_keys (keys : list value) : Prop := Forall (fun k => is_num_ok k = true) keys.

(** the result of sort_by is the elements, paired with their keys, sorted by key *)
Theorem sort_by_spec ev v0 vs ast off r o' :
  sort_by ev [VArr (v0 :: vs); VExpref ast] off = Ok (r, o') ->
  exists keys, each ev ast (v0 :: vs) off keys o' /\ r = VArr (map fst (stable_sort key_cmp (combine (v0 :: vs) keys))) /\
               (Forall (fun k => get_type k = TString) keys \/ Forall (fun k => get_type k = TNumber) keys).
Proof.
  unfold sort_by. cbn [arg0 arg1 bind nth_error].
  destruct (ev v0 ast off) as [[first off1]|?| | |] eqn:E0; cbn [bind]; try discriminate.
  destruct (by_type_ok (get_type first)) eqn:Eb; cbn [negb]; [|discriminate].
  destruct (sort_by_keys ev ast (get_type first) vs 1 [(v0, first)] off1) as [[pairs off2]|?| | |] eqn:Ek; cbn [bind]; try discriminate.
  intros E. unfold ret in E. injection E as <- <-. apply sort_by_keys_spec in Ek as (keys & He & -> & Hk).
  exists (first :: keys). split; [econstructor; eassumption|]. split; [reflexivity|].
  destruct (get_type first) eqn:Et; try discriminate Eb; [left|right]; (constructor; [exact Et|exact Hk]).
Qed.

(* ---------- ordering facts lifted to (element, key) pairs ---------- *)
Section Pairs.
  Variable ok : value -> bool.
  Hypothesis total_on : forall x y, ok x = true -> ok y = true -> var_cmp x y = Gt -> var_cmp y x <> Gt.
  Hypothesis trans_on : forall x y z, ok x = true -> ok y = true -> ok z = true -> le var_cmp x y -> le var_cmp y z -> le var_cmp x z.
  Hypothesis compat_on : forall k x y, ok k = true -> ok x = true -> ok y = true ->
    equiv_to var_cmp k x = true -> var_cmp x y = var_cmp k y /\ var_cmp y x = var_cmp y k.
  Definition okp (p : value * value) : bool := ok (snd p).

  Lemma ptotal x y : okp x = true -> okp y = true -> key_cmp x y = Gt -> key_cmp y x <> Gt.
  Proof. unfold okp, key_cmp. apply total_on. Qed.
  Lemma ptrans x y z : okp x = true -> okp y = true -> okp z = true -> le key_cmp x y -> le key_cmp y z -> le key_cmp x z.
  Proof. unfold okp, key_cmp, le. apply trans_on. Qed.
  Lemma pcompat k x y : okp k = true -> okp x = true -> okp y = true -> equiv_to key_cmp k x = true -> key_cmp x y = key_cmp k y /\ key_cmp y x = key_cmp y k.
  Proof. unfold okp, key_cmp, equiv_to. apply compat_on. Qed.

  Lemma okp_combine vs keys : Forall (fun k => ok k = true) keys -> Forall (fun p => okp p = true) (combine vs keys).
  Proof. intros H. revert vs. induction H as [|k keys Hk Hks IH]; intros [|v vs]; cbn [combine]; constructor; [exact Hk|apply IH]. Qed.

  Theorem sorted_pairs_spec vs keys : Forall (fun k => ok k = true) keys ->
    let sorted := stable_sort key_cmp (combine vs keys) in
    Permutation (combine vs keys) sorted /\ StronglySorted (le key_cmp) sorted /\
    forall p, okp p = true -> filter (equiv_to key_cmp p) sorted = filter (equiv_to key_cmp p) (combine vs keys).
  Proof.
    intros Hk sorted. pose proof (okp_combine vs keys Hk) as Hp. split; [apply stable_sort_perm|]. split.
    - apply (stable_sort_sorted_on okp key_cmp ptotal ptrans). exact Hp.
    - intros p Hok. apply (stable_sort_stable_on okp key_cmp ptotal ptrans pcompat); assumption.
  Qed.
End Pairs.

(* ---------- max_by / min_by ---------- *)
Definition by_step (better : comparison -> bool) (c x : value * value) : value * value :=
  if better (var_cmp (snd x) (snd c)) then x else c.

Lemma by_loop_spec ev better ast ty : forall vs inv cand ckey off r o',
  by_loop ev better ast ty vs inv cand ckey off = Ok (r, o') ->
  exists keys, each ev ast vs off keys o' /\ Forall (fun k => get_type k = ty) keys /\
               r = fst (fold_left (by_step better) (combine vs keys) (cand, ckey)).
Proof.
  induction vs as [|v vs IH]; intros inv cand ckey off r o'; cbn [by_loop].
  - intros E. unfold ret in E. injection E as <- <-. exists []. split; [constructor|]. split; [constructor|reflexivity].
  - destruct (ev v ast off) as [[mapped off1]|?| | |] eqn:Ev; cbn [bind]; try discriminate.
    destruct (jtype_eqb (get_type mapped) ty) eqn:Et; cbn [negb]; [|discriminate]. apply jtype_eqb_eq in Et.
    destruct (better (var_cmp mapped ckey)) eqn:Eb; intros H; apply IH in H as (keys & He & Hk & ->);
      (exists (mapped :: keys); split; [econstructor; eassumption|]; split; [constructor; assumption|]);
      cbn [combine fold_left]; change (by_step better (cand, ckey) (v, mapped)) with (if better (var_cmp mapped ckey) then (v, mapped) else (cand, ckey)); rewrite Eb; reflexivity.
Qed.

Section FirstExtreme.
  Context {A : Type} (ok : A -> bool) (cmp : A -> A -> comparison).
  Hypothesis total_on : forall x y, ok x = true -> ok y = true -> cmp x y = Gt -> cmp y x <> Gt.
  Hypothesis trans_on : forall x y z, ok x = true -> ok y = true -> ok z = true -> le cmp x y -> le cmp y z -> le cmp x z.
  Hypothesis opp_on : forall x y, ok x = true -> ok y = true -> cmp y x = CompOpp (cmp x y).

  (** replace only when strictly greater: the first maximal member *)
  Lemma fold_first_max_spec : forall xs x, ok x = true -> Forall (fun y => ok y = true) xs ->
    let r := fold_left (fun a b => match cmp b a with Gt => b | _ => a end) xs x in
    In r (x :: xs) /\ ok r = true /\ forall y, In y (x :: xs) -> le cmp y r.
  Proof.
    induction xs as [|b xs IH]; intros x Hx Hxs; cbn [fold_left].
    - split; [left; reflexivity|]. split; [exact Hx|]. intros y [<-|[]]. intros H. exact (total_on x x Hx Hx H H).
    - inversion Hxs as [|? ? Hb Hxs']; subst.
      set (acc := match cmp b x with Gt => b | _ => x end).
      assert (Hacc : ok acc = true) by (unfold acc; destruct (cmp b x); assumption).
      destruct (IH acc Hacc Hxs') as (Hin & Hok & Hle). fold acc.
      assert (Hx_acc : le cmp x acc /\ le cmp b acc).
      { unfold acc. destruct (cmp b x) eqn:E.
        - split; [intros H; exact (total_on x x Hx Hx H H)|unfold le; congruence].
        - split; [intros H; exact (total_on x x Hx Hx H H)|unfold le; congruence].
        - split; [apply total_on; assumption|intros H; exact (total_on b b Hb Hb H H)]. }
      destruct Hx_acc as [H1 H2]. pose proof (Hle acc (or_introl eq_refl)) as Hacc_r.
      split; [|split; [exact Hok|]].
      + destruct Hin as [<-|Hin]; [|right; right; exact Hin]. unfold acc. destruct (cmp b x); [left|left|right; left]; reflexivity.
      + intros y [<-|[<-|Hy]].
        * eapply trans_on; [exact Hx|exact Hacc|exact Hok|exact H1|exact Hacc_r].
        * eapply trans_on; [exact Hb|exact Hacc|exact Hok|exact H2|exact Hacc_r].
        * apply Hle. right. exact Hy.
  Qed.

  (** replace only when strictly smaller: the first minimal member *)
  Lemma fold_first_min_spec : forall xs x, ok x = true -> Forall (fun y => ok y = true) xs ->
    let r := fold_left (fun a b => match cmp b a with Lt => b | _ => a end) xs x in
    In r (x :: xs) /\ ok r = true /\ forall y, In y (x :: xs) -> le cmp r y.
  Proof.
    intros xs x Hx Hxs.
    assert (E : forall l a, ok a = true -> Forall (fun y => ok y = true) l ->
                fold_left (fun a b => match cmp b a with Lt => b | _ => a end) l a = fold_left (fun a b => match cmp a b with Gt => b | _ => a end) l a).
    { induction l as [|b l IHl]; intros a Ha Hl; cbn [fold_left]; [reflexivity|]. inversion Hl; subst.
      rewrite (opp_on a b) by assumption. destruct (cmp a b) eqn:Ec; cbn [CompOpp]; apply IHl; assumption. }
    cbv zeta. rewrite E by assumption. exact (fold_min_spec ok cmp total_on trans_on xs x Hx Hxs).
  Qed.
End FirstExtreme.

Lemma num_opp x y : is_num_ok x = true -> is_num_ok y = true -> var_cmp y x = CompOpp (var_cmp x y).
Proof.
  destruct x as [| | |n| | |], y as [| | |m| | |]; cbn [is_num_ok]; try discriminate. intros Hx Hy. cbn [var_cmp].
  destruct (fcompare_total _ _ Hx Hy) as (c & -> & ->). reflexivity.
Qed.
Lemma str_opp x y : is_str x = true -> is_str y = true -> var_cmp y x = CompOpp (var_cmp x y).
Proof.
  destruct x as [|s1| | | | |]; cbn [is_str]; try discriminate. destruct y as [|s2| | | | |]; cbn [is_str]; try discriminate.
  intros _ _. cbn [var_cmp]. apply str_cmp_antisym.
Qed.

Definition is_gt (c : comparison) : bool := match c with Gt => true | _ => false end.
Definition is_lt (c : comparison) : bool := match c with Lt => true | _ => false end.

Lemma by_step_gt l c : fold_left (by_step is_gt) l c = fold_left (fun a b => match key_cmp b a with Gt => b | _ => a end) l c.
Proof. revert c. induction l as [|x l IH]; intros c; cbn [fold_left]; [reflexivity|]. rewrite IH. unfold by_step, key_cmp, is_gt. destruct (var_cmp (snd x) (snd c)); reflexivity. Qed.
Lemma by_step_lt l c : fold_left (by_step is_lt) l c = fold_left (fun a b => match key_cmp b a with Lt => b | _ => a end) l c.
Proof. revert c. induction l as [|x l IH]; intros c; cbn [fold_left]; [reflexivity|]. rewrite IH. unfold by_step, key_cmp, is_lt. destruct (var_cmp (snd x) (snd c)); reflexivity. Qed.

(** keys all numbers (no NaN) or all strings *)
Definition homogeneous_keys (keys : list value) : Prop := num_keys keys \/ str_keys keys.

(** max_by: null on the empty array; else an element of the array, paired with its own
    key (the expression evaluated against it), and no element's key exceeds that key. *)
Theorem max_by_spec ev v0 vs ast off r o' :
  min_and_max_by ev is_gt [VArr (v0 :: vs); VExpref ast] off = Ok (r, o') ->
  exists keys, each ev ast (v0 :: vs) off keys o' /\
    (homogeneous_keys keys -> exists k, In (r, k) (combine (v0 :: vs) keys) /\ forall p, In p (combine (v0 :: vs) keys) -> le var_cmp (snd p) k).
Proof.
  unfold min_and_max_by. cbn [arg0 arg1 bind nth_error].
  destruct (ev v0 ast off) as [[initial off1]|?| | |] eqn:E0; cbn [bind]; try discriminate.
  destruct (by_type_ok (get_type initial)) eqn:Eb; cbn [negb]; [|discriminate].
  intros H. apply by_loop_spec in H as (keys & He & Hk & ->). exists (initial :: keys). split; [econstructor; eassumption|].
  intros Hh. rewrite by_step_gt. cbn [combine].
  assert (Hgen : forall ok, (forall x y, ok x = true -> ok y = true -> var_cmp x y = Gt -> var_cmp y x <> Gt) ->
                 (forall x y z, ok x = true -> ok y = true -> ok z = true -> le var_cmp x y -> le var_cmp y z -> le var_cmp x z) ->
                 Forall (fun k => ok k = true) (initial :: keys) ->
                 exists k, In (fst (fold_left (fun a b => match key_cmp b a with Gt => b | _ => a end) (combine vs keys) (v0, initial)), k) ((v0, initial) :: combine vs keys) /\
                           forall p, In p ((v0, initial) :: combine vs keys) -> le var_cmp (snd p) k).
  { intros ok Ht Htr Hall. inversion Hall as [|? ? Hi Hks]; subst.
    destruct (fold_first_max_spec (okp ok) key_cmp (ptotal ok Ht) (ptrans ok Htr) (combine vs keys) (v0, initial) Hi (okp_combine ok vs keys Hks)) as (Hin & _ & Hle).
    set (rr := fold_left _ _ _) in *. exists (snd rr). split; [destruct rr; exact Hin|]. intros p Hp. exact (Hle p Hp). }
  destruct Hh as [Hn|Hs]; [exact (Hgen is_num_ok num_total num_trans Hn)|exact (Hgen is_str str_total str_trans Hs)].
Qed.

Theorem min_by_spec ev v0 vs ast off r o' :
  min_and_max_by ev is_lt [VArr (v0 :: vs); VExpref ast] off = Ok (r, o') ->
  exists keys, each ev ast (v0 :: vs) off keys o' /\
    (homogeneous_keys keys -> exists k, In (r, k) (combine (v0 :: vs) keys) /\ forall p, In p (combine (v0 :: vs) keys) -> le var_cmp k (snd p)).
Proof.
  unfold min_and_max_by. cbn [arg0 arg1 bind nth_error].
  destruct (ev v0 ast off) as [[initial off1]|?| | |] eqn:E0; cbn [bind]; try discriminate.
  destruct (by_type_ok (get_type initial)) eqn:Eb; cbn [negb]; [|discriminate].
  intros H. apply by_loop_spec in H as (keys & He & Hk & ->). exists (initial :: keys). split; [econstructor; eassumption|].
  intros Hh. rewrite by_step_lt. cbn [combine].
  assert (Hgen : forall ok, (forall x y, ok x = true -> ok y = true -> var_cmp x y = Gt -> var_cmp y x <> Gt) ->
                 (forall x y z, ok x = true -> ok y = true -> ok z = true -> le var_cmp x y -> le var_cmp y z -> le var_cmp x z) ->
                 (forall x y, ok x = true -> ok y = true -> var_cmp y x = CompOpp (var_cmp x y)) ->
                 Forall (fun k => ok k = true) (initial :: keys) ->
                 exists k, In (fst (fold_left (fun a b => match key_cmp b a with Lt => b | _ => a end) (combine vs keys) (v0, initial)), k) ((v0, initial) :: combine vs keys) /\
                           forall p, In p ((v0, initial) :: combine vs keys) -> le var_cmp k (snd p)).
  { intros ok Ht Htr Hop Hall. inversion Hall as [|? ? Hi Hks]; subst.
    assert (Hopp : forall x y, okp ok x = true -> okp ok y = true -> key_cmp y x = CompOpp (key_cmp x y)) by (intros x y; unfold okp, key_cmp; apply Hop).
    destruct (fold_first_min_spec (okp ok) key_cmp (ptotal ok Ht) (ptrans ok Htr) Hopp (combine vs keys) (v0, initial) Hi (okp_combine ok vs keys Hks)) as (Hin & _ & Hle).
    set (rr := fold_left _ _ _) in *. exists (snd rr). split; [destruct rr; exact Hin|]. intros p Hp. exact (Hle p Hp). }
  destruct Hh as [Hn|Hs]; [exact (Hgen is_num_ok num_total num_trans num_opp Hn)|exact (Hgen is_str str_total str_trans str_opp Hs)].
Qed.

(** sort_by: the result lists the elements in an order that is a permutation of the
    input, ascending by key and stable (elements with equivalent keys keep their order). *)
Theorem sort_by_sorted ev v0 vs ast off r o' :
  sort_by ev [VArr (v0 :: vs); VExpref ast] off = Ok (r, o') ->
  exists keys sorted, each ev ast (v0 :: vs) off keys o' /\ r = VArr (map fst sorted) /\ Permutation (combine (v0 :: vs) keys) sorted /\
    (homogeneous_keys keys ->
       StronglySorted (le key_cmp) sorted /\
       forall p, In p (combine (v0 :: vs) keys) -> filter (equiv_to key_cmp p) sorted = filter (equiv_to key_cmp p) (combine (v0 :: vs) keys)).
Proof.
  intros H. apply sort_by_spec in H as (keys & He & -> & _). exists keys, (stable_sort key_cmp (combine (v0 :: vs) keys)).
  split; [exact He|]. split; [reflexivity|]. split; [apply stable_sort_perm|]. intros [Hn|Hs].
  - destruct (sorted_pairs_spec is_num_ok num_total num_trans num_compat (v0 :: vs) keys Hn) as (_ & H2 & H3). split; [exact H2|].
    intros p Hp. apply H3. pose proof (okp_combine is_num_ok (v0 :: vs) keys Hn) as Hall. rewrite Forall_forall in Hall. exact (Hall p Hp).
  - destruct (sorted_pairs_spec is_str str_total str_trans str_compat (v0 :: vs) keys Hs) as (_ & H2 & H3). split; [exact H2|].
    intros p Hp. apply H3. pose proof (okp_combine is_str (v0 :: vs) keys Hs) as Hall. rewrite Forall_forall in Hall. exact (Hall p Hp).
Qed.

(* ---------- through the call protocol ---------- *)
Theorem call_sort_by ev sg v0 vs ast off r o' : validate sg [VArr (v0 :: vs); VExpref ast] off = Ok tt ->
  call_builtin ev BSortBy sg [VArr (v0 :: vs); VExpref ast] off = Ok (r, o') ->
  exists keys sorted, each ev ast (v0 :: vs) off keys o' /\ r = VArr (map fst sorted) /\ Permutation (combine (v0 :: vs) keys) sorted /\
    (homogeneous_keys keys ->
       StronglySorted (le key_cmp) sorted /\
       forall p, In p (combine (v0 :: vs) keys) -> filter (equiv_to key_cmp p) sorted = filter (equiv_to key_cmp p) (combine (v0 :: vs) keys)).
Proof. intros Hv. unfold call_builtin. rewrite Hv. cbn [bind]. apply sort_by_sorted. Qed.

Theorem call_max_by ev sg v0 vs ast off r o' : validate sg [VArr (v0 :: vs); VExpref ast] off = Ok tt ->
  call_builtin ev BMaxBy sg [VArr (v0 :: vs); VExpref ast] off = Ok (r, o') ->
  exists keys, each ev ast (v0 :: vs) off keys o' /\
    (homogeneous_keys keys -> exists k, In (r, k) (combine (v0 :: vs) keys) /\ forall p, In p (combine (v0 :: vs) keys) -> le var_cmp (snd p) k).
Proof. intros Hv. unfold call_builtin. rewrite Hv. cbn [bind]. apply max_by_spec. Qed.

Theorem call_min_by ev sg v0 vs ast off r o' : validate sg [VArr (v0 :: vs); VExpref ast] off = Ok tt ->
  call_builtin ev BMinBy sg [VArr (v0 :: vs); VExpref ast] off = Ok (r, o') ->
  exists keys, each ev ast (v0 :: vs) off keys o' /\
    (homogeneous_keys keys -> exists k, In (r, k) (combine (v0 :: vs) keys) /\ forall p, In p (combine (v0 :: vs) keys) -> le var_cmp k (snd p)).
Proof. intros Hv. unfold call_builtin. rewrite Hv. cbn [bind]. apply min_by_spec. Qed.
