(** The slice model ([Slice.v], transcription of [variable.rs]) equals the
    closed-form specification ([Spec/SliceSpec.v]). *)
From Coq Require Import ZifyBool.
From JP Require Import Base Slice Spec.SliceSpec.

Ltac Zify.zify_post_hook ::= Z.div_mod_to_equations.

Section SliceProof.
  Context {A : Type}.
  Implicit Types arr acc : list A.

  Lemma nth_opt_some arr n : (n < length arr)%nat -> exists x, nth_opt arr n = Some x.
  Proof.
    revert n; induction arr as [|a arr IH]; intros n H; cbn in H; [lia|].
    destruct n as [|n]; cbn; [eauto|]. apply IH. lia.
  Qed.

  Lemma index_z_some arr i : 0 <= i < zlen arr -> exists x, index_z arr i = Some x.
  Proof.
    intros H. unfold index_z, zlen in *.
    destruct (i <? 0) eqn:E1; [lia|]. destruct (Z.of_nat (length arr) <=? i) eqn:E2; [lia|]. cbn.
    apply nth_opt_some. lia.
  Qed.

  Lemma index_z_none arr i : i < 0 \/ zlen arr <= i -> index_z arr i = None.
  Proof.
    intros H. unfold index_z. destruct (i <? 0) eqn:E1; [reflexivity|].
    destruct (zlen arr <=? i) eqn:E2; [reflexivity|]. lia.
  Qed.

  Lemma arith_seq_S lo step n : arith_seq lo step (S n) = lo :: arith_seq (lo + step) step n.
  Proof.
    unfold arith_seq. cbn [seq map]. f_equal; [lia|].
    rewrite <- seq_shift, map_map. apply map_ext. intros k. lia.
  Qed.

  Lemma select_cons_some arr i is x : index_z arr i = Some x -> select arr (i :: is) = x :: select arr is.
  Proof. intros H. unfold select. cbn. now rewrite H. Qed.

  Lemma select_nil_arr is : select (@nil A) is = [].
  Proof. unfold select. induction is as [|i is IH]; cbn; [reflexivity|]. rewrite index_z_none; [exact IH|]. cbn. lia. Qed.

  Lemma count_nonneg lo hi step : step <> 0 -> 0 <= py_count lo hi step.
  Proof.
    intros Hs. unfold py_count. destruct (step >? 0) eqn:E.
    - destruct (lo <? hi) eqn:E2; [|lia]. assert (0 <= (hi - lo - 1) / step) by (apply Z.div_pos; lia). lia.
    - destruct (hi <? lo) eqn:E2; [|lia]. assert (0 <= (lo - hi - 1) / (- step)) by (apply Z.div_pos; lia). lia.
  Qed.

  Lemma count_up_next i b step : 0 < step -> i < b -> py_count i b step = 1 + py_count (i + step) b step.
  Proof.
    intros Hs Hi. unfold py_count. destruct (step >? 0) eqn:E; [|lia].
    destruct (i <? b) eqn:E1; [|lia]. destruct (i + step <? b) eqn:E2.
    - replace (b - i - 1) with ((b - (i + step) - 1) + 1 * step) by lia.
      rewrite Z.div_add by lia. lia.
    - rewrite Z.div_small by lia. lia.
  Qed.

  Lemma count_up_done i b step : 0 < step -> b <= i -> py_count i b step = 0.
  Proof. intros Hs Hi. unfold py_count. destruct (step >? 0) eqn:E; [|lia]. destruct (i <? b) eqn:E1; lia. Qed.

  Lemma count_down_next i b step : step < 0 -> b < i -> py_count i b step = 1 + py_count (i + step) b step.
  Proof.
    intros Hs Hi. unfold py_count. destruct (step >? 0) eqn:E; [lia|].
    destruct (b <? i) eqn:E1; [|lia]. destruct (b <? i + step) eqn:E2.
    - replace (i - b - 1) with ((i + step - b - 1) + 1 * (- step)) by lia.
      rewrite Z.div_add by lia. lia.
    - rewrite Z.div_small by lia. lia.
  Qed.

  Lemma count_down_done i b step : step < 0 -> i <= b -> py_count i b step = 0.
  Proof. intros Hs Hi. unfold py_count. destruct (step >? 0) eqn:E; [lia|]. destruct (b <? i) eqn:E1; lia. Qed.

  Lemma loop_up_spec fuel : forall arr i b step acc,
    0 < step -> 0 <= i -> b <= zlen arr -> zlen arr <= i32_max ->
    (Z.to_nat (b - i) < fuel)%nat ->
    loop_up fuel arr i b step acc =
      Ok (rev acc ++ select arr (arith_seq i step (Z.to_nat (py_count i b step)))).
  Proof.
    induction fuel as [|f IH]; intros arr i b step acc Hs Hi Hb Hlen Hf; [lia|].
    cbn [loop_up]. destruct (i <? b) eqn:E.
    - destruct (index_z_some arr i) as [x Hx]; [lia|]. rewrite Hx.
      rewrite (count_up_next i b step) by lia.
      pose proof (count_nonneg (i + step) b step ltac:(lia)) as Hc.
      replace (Z.to_nat (1 + py_count (i + step) b step)) with (S (Z.to_nat (py_count (i + step) b step))) by lia.
      rewrite arith_seq_S, (select_cons_some _ _ _ _ Hx).
      destruct (in_i32 (i + step)) eqn:E32.
      + rewrite IH by lia. cbn [rev]. rewrite <- app_assoc. reflexivity.
      + unfold in_i32, i32_min, i32_max in *.
        rewrite (count_up_done (i + step) b step) by lia. cbn. unfold select. cbn. reflexivity.
    - rewrite (count_up_done i b step) by lia. cbn. unfold select. cbn. now rewrite app_nil_r.
  Qed.

  Lemma loop_down_spec fuel : forall arr i b step acc,
    step < 0 -> i32_min <= step -> -1 <= b -> i < zlen arr -> zlen arr <= i32_max ->
    (Z.to_nat (i - b) < fuel)%nat ->
    loop_down fuel arr i b step acc =
      Ok (rev acc ++ select arr (arith_seq i step (Z.to_nat (py_count i b step)))).
  Proof.
    induction fuel as [|f IH]; intros arr i b step acc Hs Hm Hb Hi Hlen Hf; [lia|].
    cbn [loop_down]. destruct (i >? b) eqn:E.
    - destruct (index_z_some arr i) as [x Hx]; [lia|]. rewrite Hx.
      rewrite (count_down_next i b step) by lia.
      pose proof (count_nonneg (i + step) b step ltac:(lia)) as Hc.
      replace (Z.to_nat (1 + py_count (i + step) b step)) with (S (Z.to_nat (py_count (i + step) b step))) by lia.
      rewrite arith_seq_S, (select_cons_some _ _ _ _ Hx).
      assert (in_i32 (i + step) = true) as -> by (unfold in_i32, i32_min, i32_max in *; lia).
      rewrite IH by lia. cbn [rev]. rewrite <- app_assoc. reflexivity.
    - rewrite (count_down_done i b step) by lia. cbn. unfold select. cbn. now rewrite app_nil_r.
  Qed.

  (** The clamp cascade of [adjust_slice_endpoint] is the closed form. *)
  Lemma adjust_is_clamp len e step : 0 < len ->
    adjust_slice_endpoint len e step =
      let v' := if e <? 0 then e + len else e in
      if step <? 0 then clamp (-1) (len - 1) v' else clamp 0 len v'.
  Proof.
    intros Hl. unfold adjust_slice_endpoint, clamp. cbn zeta.
    destruct (e <? 0) eqn:E1.
    - destruct (e + len >=? 0) eqn:E2; destruct (step <? 0) eqn:E3; lia.
    - destruct (e <? len) eqn:E2; destruct (step <? 0) eqn:E3; lia.
  Qed.

  Theorem slice_correct arr start stop step :
    zlen arr <= i32_max -> i32_min <= step -> step <> 0 ->
    slice arr start stop step = Ok (spec_slice arr start stop step).
  Proof.
    intros Hlen Hmin Hs. unfold slice, spec_slice.
    destruct (i32_max <? zlen arr) eqn:Ebig; [lia|].
    destruct (zlen arr =? 0) eqn:E0.
    - assert (arr = []) as -> by (destruct arr; [reflexivity|unfold zlen in E0; cbn in E0; lia]).
      now rewrite select_nil_arr.
    - assert (0 < zlen arr) as Hpos by (unfold zlen in *; lia).
      unfold py_indices.
      set (lo := py_bound (zlen arr) step start true).
      set (hi := py_bound (zlen arr) step stop false).
      destruct (step >? 0) eqn:Es.
      + assert (Ha : match start with Some s => adjust_slice_endpoint (zlen arr) s step
                                   | None => if step <? 0 then zlen arr - 1 else 0 end = lo).
        { subst lo. unfold py_bound. rewrite Es. destruct start as [s|].
          - rewrite adjust_is_clamp by lia. cbn zeta. destruct (step <? 0) eqn:E; [lia|reflexivity].
          - destruct (step <? 0) eqn:E; [lia|reflexivity]. }
        assert (Hb : match stop with Some s => adjust_slice_endpoint (zlen arr) s step
                                   | None => if step <? 0 then -1 else zlen arr end = hi).
        { subst hi. unfold py_bound. rewrite Es. destruct stop as [s|].
          - rewrite adjust_is_clamp by lia. cbn zeta. destruct (step <? 0) eqn:E; [lia|reflexivity].
          - destruct (step <? 0) eqn:E; [lia|reflexivity]. }
        rewrite Ha, Hb.
        assert (0 <= lo /\ hi <= zlen arr) as [H1 H2].
        { subst lo hi. unfold py_bound, clamp. rewrite Es. destruct start, stop; lia. }
        rewrite loop_up_spec; [reflexivity|lia|lia|lia|lia|unfold zlen in *; lia].
      + assert (Ha : match start with Some s => adjust_slice_endpoint (zlen arr) s step
                                   | None => if step <? 0 then zlen arr - 1 else 0 end = lo).
        { subst lo. unfold py_bound. rewrite Es. destruct start as [s|].
          - rewrite adjust_is_clamp by lia. cbn zeta. destruct (step <? 0) eqn:E; [reflexivity|lia].
          - destruct (step <? 0) eqn:E; [reflexivity|lia]. }
        assert (Hb : match stop with Some s => adjust_slice_endpoint (zlen arr) s step
                                   | None => if step <? 0 then -1 else zlen arr end = hi).
        { subst hi. unfold py_bound. rewrite Es. destruct stop as [s|].
          - rewrite adjust_is_clamp by lia. cbn zeta. destruct (step <? 0) eqn:E; [reflexivity|lia].
          - destruct (step <? 0) eqn:E; [reflexivity|lia]. }
        rewrite Ha, Hb.
        assert (lo < zlen arr /\ -1 <= hi /\ -1 <= lo) as (H1 & H2 & H3).
        { subst lo hi. unfold py_bound, clamp. rewrite Es. destruct start, stop; lia. }
        rewrite loop_down_spec; [reflexivity|lia|lia|lia|lia|lia|unfold zlen in *; lia].
  Qed.

  (** Every selected index is in range: [select] never drops anything. *)
  Lemma arith_seq_in lo step n i : In i (arith_seq lo step n) <-> exists k, (k < n)%nat /\ i = lo + Z.of_nat k * step.
  Proof.
    unfold arith_seq. rewrite in_map_iff. split.
    - intros (k & Hk & Hin). apply in_seq in Hin. exists k. split; [lia|now symmetry].
    - intros (k & Hk & ->). exists k. split; [reflexivity|apply in_seq; lia].
  Qed.

  Lemma py_bound_range n step x is_start : 0 <= n ->
    (step >? 0 = true -> 0 <= py_bound n step x is_start <= n) /\
    (step >? 0 = false -> -1 <= py_bound n step x is_start <= n - 1).
  Proof.
    intros Hn. unfold py_bound, clamp. split; intros E; rewrite E; destruct x, is_start; lia.
  Qed.

  (** Membership characterisation of the closed form (second reading of the rule). *)
  Theorem up_membership lo hi step i : 0 < step ->
    In i (arith_seq lo step (Z.to_nat (py_count lo hi step))) <-> lo <= i < hi /\ (i - lo) mod step = 0.
  Proof.
    intros Hs. rewrite arith_seq_in. unfold py_count.
    destruct (step >? 0) eqn:E; [|lia]. destruct (lo <? hi) eqn:E1.
    - pose proof (Z.div_pos (hi - lo - 1) step ltac:(lia) ltac:(lia)) as Hq.
      split.
      + intros (k & Hk & ->).
        assert (Z.of_nat k <= (hi - lo - 1) / step) as Hk' by lia.
        assert (Z.of_nat k * step <= hi - lo - 1).
        { transitivity (((hi - lo - 1) / step) * step); [apply Z.mul_le_mono_nonneg_r; lia|].
          rewrite Z.mul_comm. apply Z.mul_div_le. lia. }
        split; [nia|]. replace (lo + Z.of_nat k * step - lo) with (Z.of_nat k * step) by lia.
        apply Z_mod_mult.
      + intros ((H1 & H2) & Hm).
        exists (Z.to_nat ((i - lo) / step)).
        assert (0 <= (i - lo) / step) by (apply Z.div_pos; lia).
        assert ((i - lo) / step <= (hi - lo - 1) / step) by (apply Z.div_le_mono; lia).
        split; [lia|]. rewrite Z2Nat.id by lia.
        pose proof (Z_div_mod_eq_full (i - lo) step). lia.
    - split; [intros (k & Hk & _); cbn in Hk; lia | lia].
  Qed.

  Theorem down_membership lo hi step i : step < 0 ->
    In i (arith_seq lo step (Z.to_nat (py_count lo hi step))) <-> hi < i <= lo /\ (lo - i) mod (- step) = 0.
  Proof.
    intros Hs. rewrite arith_seq_in. unfold py_count.
    destruct (step >? 0) eqn:E; [lia|]. destruct (hi <? lo) eqn:E1.
    - pose proof (Z.div_pos (lo - hi - 1) (- step) ltac:(lia) ltac:(lia)) as Hq.
      split.
      + intros (k & Hk & ->).
        assert (Z.of_nat k <= (lo - hi - 1) / (- step)) as Hk' by lia.
        assert (Z.of_nat k * (- step) <= lo - hi - 1).
        { transitivity (((lo - hi - 1) / (- step)) * (- step)); [apply Z.mul_le_mono_nonneg_r; lia|].
          rewrite Z.mul_comm. apply Z.mul_div_le. lia. }
        split; [nia|]. replace (lo - (lo + Z.of_nat k * step)) with (Z.of_nat k * (- step)) by lia.
        apply Z_mod_mult.
      + intros ((H1 & H2) & Hm).
        exists (Z.to_nat ((lo - i) / (- step))).
        assert (0 <= (lo - i) / (- step)) by (apply Z.div_pos; lia).
        assert ((lo - i) / (- step) <= (lo - hi - 1) / (- step)) by (apply Z.div_le_mono; lia).
        split; [lia|]. rewrite Z2Nat.id by lia.
        pose proof (Z_div_mod_eq_full (lo - i) (- step)). lia.
    - split; [intros (k & Hk & _); cbn in Hk; lia | lia].
  Qed.

  (** All selected indexes are valid positions, so [select] keeps exactly one
      element per index. *)
  Theorem indices_in_range n start stop step i : 0 <= n -> step <> 0 ->
    In i (py_indices n start stop step) -> 0 <= i < n.
  Proof.
    intros Hn Hs Hin. unfold py_indices in Hin.
    destruct (py_bound_range n step start true Hn) as [U1 D1].
    destruct (py_bound_range n step stop false Hn) as [U2 D2].
    destruct (step >? 0) eqn:E.
    - apply up_membership in Hin; [|lia]. specialize (U1 eq_refl). specialize (U2 eq_refl). lia.
    - apply down_membership in Hin; [|lia]. specialize (D1 eq_refl). specialize (D2 eq_refl). lia.
  Qed.

  Lemma select_length arr is : (forall i, In i is -> 0 <= i < zlen arr) -> length (select arr is) = length is.
  Proof.
    induction is as [|i is IH]; intros H; [reflexivity|].
    destruct (index_z_some arr i) as [x Hx]; [apply H; now left|].
    rewrite (select_cons_some _ _ _ _ Hx). cbn. f_equal. apply IH. intros j Hj. apply H. now right.
  Qed.

  (** Index rule. *)
  Lemma index_z_nth_error arr i : 0 <= i < zlen arr -> index_z arr i = nth_error arr (Z.to_nat i).
  Proof.
    intros H. unfold index_z. destruct (i <? 0) eqn:E1; [lia|]. destruct (zlen arr <=? i) eqn:E2; [lia|].
    cbn. apply nth_opt_nth_error.
  Qed.
End SliceProof.
