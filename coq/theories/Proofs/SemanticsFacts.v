(** Facts about the denotational semantics that the property text names. *)
From Coq Require Import Sorting.Sorted.
From JP Require Import Base F64 Value Interp Spec.SliceSpec Spec.Semantics Proofs.ObjFacts Proofs.InterpProof.

Lemma search_conformance n rt e d : core e = true -> (height e <= n)%nat ->
  search_ast n rt e d = Unmodelled \/ search_ast n rt e d = eval e d.
Proof.
  intros Hc Hh. unfold search_ast. destruct (conformance n rt e d 0 Hc Hh) as [->| ->]; [left; reflexivity|right].
  destruct (eval e d); reflexivity.
Qed.

Lemma field_absent_null k d : (forall o, d <> VObj o) -> eval (AField k) d = Ok VNull.
Proof. intros H. destruct d; try reflexivity. exfalso. eapply H; reflexivity. Qed.

Lemma field_missing_null k o : obj_get o k = None -> eval (AField k) (VObj o) = Ok VNull.
Proof. intros H. cbn. rewrite <- obj_get_find, H. reflexivity. Qed.

Lemma field_present k o v : obj_get o k = Some v -> eval (AField k) (VObj o) = Ok v.
Proof. intros H. cbn. rewrite <- obj_get_find, H. reflexivity. Qed.

Lemma index_non_array_null i d : (forall a, d <> VArr a) -> eval (AIndex i) d = Ok VNull.
Proof. intros H. destruct d; try reflexivity. exfalso. eapply H; reflexivity. Qed.

Lemma wildcard_non_array_null l r d v : eval l d = Ok v -> (forall a, v <> VArr a) -> eval (AProjection l r) d = Ok VNull.
Proof. intros H Hn. cbn. rewrite H. cbn. destruct v; try reflexivity. exfalso. eapply Hn; reflexivity. Qed.

Lemma flatten_non_array_null x d v : eval x d = Ok v -> (forall a, v <> VArr a) -> eval (AFlatten x) d = Ok VNull.
Proof. intros H Hn. cbn. rewrite H. cbn. destruct v; try reflexivity. exfalso. eapply Hn; reflexivity. Qed.

Lemma values_non_object_null x d v : eval x d = Ok v -> (forall o, v <> VObj o) -> eval (AObjectValues x) d = Ok VNull.
Proof. intros H Hn. cbn. rewrite H. cbn. destruct v; try reflexivity. exfalso. eapply Hn; reflexivity. Qed.

Lemma slice_non_array_spec off a b c d : c <> 0 -> (forall l, d <> VArr l) -> eval (ASlice off a b c) d = Ok VNull.
Proof. intros Hc H. cbn. destruct (c =? 0) eqn:E; [lia|]. destruct d; try reflexivity. exfalso. eapply H; reflexivity. Qed.

Lemma projection_pointwise l r d a xs : eval l d = Ok (VArr a) -> mapM (eval r) a = Ok xs ->
  eval (AProjection l r) d = Ok (VArr (filter non_null xs)).
Proof. intros H1 H2. cbn. rewrite H1. cbn. rewrite H2. reflexivity. Qed.

Lemma projection_no_nulls l r d out : eval (AProjection l r) d = Ok (VArr out) -> Forall (fun v => v <> VNull) out.
Proof.
  cbn. destruct (eval l d) as [v| | | |]; cbn; try discriminate.
  destruct v; try discriminate. destruct (mapM (eval r) l0) as [xs| | | |]; cbn; try discriminate.
  intros H. injection H as <-. apply Forall_forall. intros x Hx. apply filter_In in Hx as [_ Hx].
  destruct x; cbn in Hx; congruence.
Qed.

Lemma flatten_one_level x d a : eval x d = Ok (VArr a) -> eval (AFlatten x) d = Ok (VArr (concat (map elements a))).
Proof. intros H. cbn. rewrite H. reflexivity. Qed.

(** An array nested two levels deep survives a flatten (one level only). *)
Lemma flatten_not_recursive inner : eval (AFlatten AIdentity) (VArr [VArr [VArr inner]]) = Ok (VArr [VArr inner]).
Proof. reflexivity. Qed.

Lemma or_short_circuit l r d x : eval l d = Ok x -> truthy x = true -> eval (AOr l r) d = Ok x.
Proof. intros H Ht. cbn. rewrite H. cbn. now rewrite Ht. Qed.

Lemma or_falls_through l r d x : eval l d = Ok x -> truthy x = false -> eval (AOr l r) d = eval r d.
Proof. intros H Ht. cbn. rewrite H. cbn. now rewrite Ht. Qed.

Lemma and_short_circuit l r d x : eval l d = Ok x -> truthy x = false -> eval (AAnd l r) d = Ok x.
Proof. intros H Ht. cbn. rewrite H. cbn. now rewrite Ht. Qed.

Lemma and_falls_through l r d x : eval l d = Ok x -> truthy x = true -> eval (AAnd l r) d = eval r d.
Proof. intros H Ht. cbn. rewrite H. cbn. now rewrite Ht. Qed.

Lemma truthiness_table v :
  truthy v = match v with
             | VNull | VBool false | VStr [] | VArr [] | VObj [] | VExpref _ => false
             | _ => true
             end.
Proof. destruct v as [|s|b|n|l|l|a]; try reflexivity; [destruct s|destruct b|destruct l|destruct l]; reflexivity. Qed.

Lemma zero_is_truthy : truthy (VNum (PosInt 0)) = true.
Proof. reflexivity. Qed.

Lemma multilist_null es : eval (AMultiList es) VNull = Ok VNull.
Proof. reflexivity. Qed.

Lemma multihash_null kvs : eval (AMultiHash kvs) VNull = Ok VNull.
Proof. reflexivity. Qed.

Lemma object_values_in_key_order o : eval (AObjectValues AIdentity) (VObj o) = Ok (VArr (map snd o)).
Proof. reflexivity. Qed.

Lemma record_sorted kvs o : record kvs = VObj o -> sorted_keys o.
Proof. unfold record. intros H. injection H as <-. apply fold_insert_sorted. constructor. Qed.

Lemma record_last_wins kvs o k : record kvs = VObj o -> obj_get o k = last_binding kvs k.
Proof.
  unfold record. intros H. injection H as <-. rewrite fold_insert_get. destruct (last_binding kvs k); reflexivity.
Qed.
