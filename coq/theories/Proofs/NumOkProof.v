(** C02/C10: an integer converted to a double is never NaN — rounding
    ([binary_normalize] of the standard library's SpecFloat) only ever yields a
    zero, a finite number or an infinity — so every integer-valued JSON number
    is in the domain on which [Ord for Variable] is a total preorder. *)
From Coq Require Import ZifyBool Floats.SpecFloat.
From JP Require Import Base F64 Value Proofs.FunProof Proofs.OrdProof.

Definition mnn (r : shr_record) : Prop := 0 <= shr_m r.

Lemma shr_1_nn r : mnn r -> mnn (shr_1 r).
Proof. unfold mnn. destruct r as [m rb sb]. cbn [shr_m]. intros H. unfold shr_1. destruct m as [|p|p]; [cbn; lia|destruct p; cbn; lia|lia]. Qed.

Lemma iter_shr_1_nn p : forall r, mnn r -> mnn (SpecFloat.iter_pos shr_1 p r).
Proof.
  induction p as [p IH|p IH|]; intros r H; cbn [SpecFloat.iter_pos].
  - apply IH. apply IH. apply shr_1_nn. exact H.
  - apply IH. apply IH. exact H.
  - apply shr_1_nn. exact H.
Qed.

Lemma shr_nn r e n : mnn r -> mnn (fst (shr r e n)).
Proof. intros H. unfold shr. destruct n; cbn [fst]; try exact H. apply iter_shr_1_nn. exact H. Qed.

Lemma shr_fexp_nn prec emax m e l : 0 <= m -> mnn (fst (shr_fexp prec emax m e l)).
Proof. intros H. unfold shr_fexp. apply shr_nn. unfold mnn. destruct l as [|[]]; cbn [shr_record_of_loc shr_m]; exact H. Qed.

Lemma rne_nn m l : 0 <= m -> 0 <= round_nearest_even m l.
Proof. intros H. unfold round_nearest_even. destruct l as [|[]]; try lia. destruct (Z.even m); lia. Qed.

Lemma binary_round_aux_not_nan prec emax sx mx ex lx : 0 <= mx -> binary_round_aux prec emax sx mx ex lx <> S754_nan.
Proof.
  intros H. unfold binary_round_aux.
  pose proof (shr_fexp_nn prec emax mx ex lx H) as H1. destruct (shr_fexp prec emax mx ex lx) as [mrs' e']. cbn [fst] in H1.
  pose proof (shr_fexp_nn prec emax (round_nearest_even (shr_m mrs') (loc_of_shr_record mrs')) e' loc_Exact (rne_nn _ _ H1)) as H2.
  destruct (shr_fexp prec emax (round_nearest_even (shr_m mrs') (loc_of_shr_record mrs')) e' loc_Exact) as [mrs'' e'']. cbn [fst] in H2.
  unfold mnn in H2. destruct (shr_m mrs'') as [|m|m]; [discriminate| |lia]. destruct (Zle_bool e'' (emax - prec)); discriminate.
Qed.

Lemma binary_normalize_not_nan prec emax m e sz : binary_normalize prec emax m e sz <> S754_nan.
Proof.
  unfold binary_normalize. destruct m as [|p|p]; [discriminate| |]; unfold binary_round;
    destruct (shl_align p e (fexp prec emax (Z.pos (digits2_pos p) + e))) as [mz ez]; apply binary_round_aux_not_nan; lia.
Qed.

Theorem f_of_Z_not_nan z : not_nan (f_of_Z z) = true.
Proof. unfold f_of_Z. pose proof (binary_normalize_not_nan prec emax z 0 false) as H. destruct (binary_normalize prec emax z 0 false); try reflexivity. contradiction. Qed.

(** every integer-valued number is in the domain of the ordering theorems *)
Theorem integers_are_num_ok z : is_num_ok (VNum (PosInt z)) = true /\ is_num_ok (VNum (NegInt z)) = true.
Proof. cbn [is_num_ok as_f64]. split; apply f_of_Z_not_nan. Qed.

Definition is_int_value (v : value) : bool := match v with VNum (PosInt _) | VNum (NegInt _) => true | _ => false end.

Lemma ints_num_ok l : forallb is_int_value l = true -> forallb is_num_ok l = true.
Proof.
  rewrite !forallb_forall. intros H x Hx. specialize (H x Hx). destruct x as [| | |[z|z|f]| | |]; try discriminate H; apply integers_are_num_ok.
Qed.

(** sort on any array of integers is ascending and stable — no side condition left *)
Theorem sort_integers_ascending l : forallb is_int_value l = true -> Sorted.StronglySorted (FunProof.le var_cmp) (Functions.stable_sort var_cmp l).
Proof. intros H. apply sort_numbers_ascending. apply ints_num_ok. exact H. Qed.
