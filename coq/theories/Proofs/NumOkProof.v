(** C02/C10: an integer converted to a double is never NaN — rounding
    ([binary_normalize] of the standard library's SpecFloat) only ever yields a
    zero, a finite number or an infinity — so every integer-valued JSON number
    is in the domain on which [Ord for Variable] is a total preorder. *)
From Coq Require Import ZifyBool Floats.SpecFloat.
From JP Require Import Base F64 Value Proofs.FunProof Proofs.OrdProof.

Definition mnn (r : shr_record) : Prop := 0 <= shr_m r.

Lemma shr_1_nn r : mnn r -> mnn (shr_1 r).
Proof. unfold mnn. destruct r as [m rb sb]. cbn [shr_m]. intros H. unfold shr_1. destruct m as [|p|p]; [cbn; lia|destruct p; cbn; lia|lia]. Qed.

Lemma iter_shr_1_nn p : forall r, mnn r -> mnn (SpecFloat.iter_pos shr_1 p r).
Proof.
  induction p as [p IH|p IH|]; intros r H; cbn [SpecFloat.iter_pos].
  - apply IH. apply IH. apply shr_1_nn. exact H.
  - apply IH. apply IH. exact H.
  - apply shr_1_nn. exact H.
Qed.

Lemma shr_nn r e n : mnn r -> mnn (fst (shr r e n)).
Proof. intros H. unfold shr. destruct n; cbn [fst]; try exact H. apply iter_shr_1_nn. exact H. Qed.

Lemma shr_fexp_nn prec emax m e l : 0 <= m -> mnn (fst (shr_fexp prec emax m e l)).
Proof. intros H. unfold shr_fexp. apply shr_nn. unfold mnn. destruct l as [|[]]; cbn [shr_record_of_loc shr_m]; exact H. Qed.

Lemma rne_nn m l : 0 <= m -> 0 <= round_nearest_even m l.
Proof. intros H. unfold round_nearest_even. destruct l as [|[]]; try lia. destruct (Z.even m); lia. Qed.

Lemma binary_round_aux_not_nan prec emax sx mx ex lx : 0 <= mx -> binary_round_aux prec emax sx mx ex lx <> S754_nan.
Proof.
  intros H. unfold binary_round_aux.
  pose proof (shr_fexp_nn prec emax mx ex lx H) as H1. destruct (shr_fexp prec emax mx ex lx) as [mrs' e']. cbn [fst] in H1.
  pose proof (shr_fexp_nn prec emax (round_nearest_even (shr_m mrs') (loc_of_shr_record mrs')) e' loc_Exact (rne_nn _ _ H1)) as H2.
  destruct (shr_fexp prec emax (round_nearest_even (shr_m mrs') (loc_of_shr_record mrs')) e' loc_Exact) as [mrs'' e'']. cbn [fst] in H2.
  unfold mnn in H2. destruct (shr_m mrs'') as [|m|m]; [discriminate| |lia]. destruct (Zle_bool e'' (emax - prec)); discriminate.
Qed.

Lemma binary_normalize_not_nan prec emax m e sz : binary_normalize prec emax m e sz <> S754_nan.
Proof.
  unfold binary_normalize. destruct m as [|p|p]; [discriminate| |]; unfold binary_round;
    destruct (shl_align p e (fexp prec emax (Z.pos (digits2_pos p) + e))) as [mz ez]; apply binary_round_aux_not_nan; lia.
Qed.

Theorem f_of_Z_not_nan z : not_nan (f_of_Z z) = true.
Proof. unfold f_of_Z. pose proof (binary_normalize_not_nan prec emax z 0 false) as H. destruct (binary_normalize prec emax z 0 false); try reflexivity. contradiction. Qed.

(** every integer-valued number is in the domain of the ordering theorems *)
Theorem integers_are_num_ok z : is_num_ok (VNum (PosInt z)) = true /\ is_num_ok (VNum (NegInt z)) = true.
Proof. cbn [is_num_ok as_f64]. split; apply f_of_Z_not_nan. Qed.

Definition is_int_value (v : value) : bool := match v with VNum (PosInt _) | VNum (NegInt _) => true | _ => false end.

Lemma ints_num_ok l : forallb is_int_value l = true -> forallb is_num_ok l = true.
Proof.
  rewrite !forallb_forall. intros H x Hx. specialize (H x Hx). destruct x as [| | |[z|z|f]| | |]; try discriminate H; apply integers_are_num_ok.
Qed.

(** sort on any array of integers is ascending and stable — no side condition left *)
Theorem sort_integers_ascending l : forallb is_int_value l = true -> Sorted.StronglySorted (FunProof.le var_cmp) (Functions.stable_sort var_cmp l).
Proof. intros H. apply sort_numbers_ascending. apply ints_num_ok. exact H. Qed.

(* ---------- integers of the 64-bit ranges convert to finite doubles ---------- *)
Lemma digits2_bounds p : 2 ^ (Zpos (digits2_pos p) - 1) <= Zpos p < 2 ^ Zpos (digits2_pos p).
Proof.
  induction p as [p IH|p IH|]; cbn [digits2_pos]; [| |cbn; lia];
    rewrite Pos2Z.inj_succ; replace (Z.succ (Zpos (digits2_pos p)) - 1) with (Zpos (digits2_pos p) - 1 + 1) by lia;
    rewrite Z.pow_add_r by lia; rewrite Z.pow_succ_r by lia; lia.
Qed.

Lemma Zdigits2_le m k : 0 <= m < 2 ^ k -> 0 <= k -> Zdigits2 m <= k.
Proof.
  intros [H0 H1] Hk. destruct m as [|p|p]; cbn [Zdigits2]; [lia| |lia].
  destruct (digits2_bounds p) as [Hl _]. destruct (Z_lt_le_dec k (Zpos (digits2_pos p))) as [Hlt|]; [|lia]. exfalso.
  assert (2 ^ k <= 2 ^ (Zpos (digits2_pos p) - 1)) by (apply Z.pow_le_mono_r; lia). lia.
Qed.

Lemma shr_1_le r : 0 <= shr_m r -> shr_m (shr_1 r) <= shr_m r.
Proof. destruct r as [m rb sb]. cbn [shr_m]. intros H. unfold shr_1. destruct m as [|p|p]; [cbn; lia|destruct p; cbn [shr_m]; lia|lia]. Qed.

Lemma iter_shr_1_le p : forall r, 0 <= shr_m r -> shr_m (SpecFloat.iter_pos shr_1 p r) <= shr_m r.
Proof.
  induction p as [p IH|p IH|]; intros r H; cbn [SpecFloat.iter_pos].
  - pose proof (shr_1_le r H) as Ha. pose proof (shr_1_nn r H) as Hb. unfold mnn in Hb.
    pose proof (IH _ Hb) as Hc. pose proof (iter_shr_1_nn p _ Hb) as Hd. unfold mnn in Hd. pose proof (IH _ Hd) as He. lia.
  - pose proof (IH _ H) as Ha. pose proof (iter_shr_1_nn p _ H) as Hb. unfold mnn in Hb. pose proof (IH _ Hb) as Hc. lia.
  - apply shr_1_le. exact H.
Qed.

Lemma shr_fexp_bounds prec emax m e l : 0 <= m ->
  let r := shr_fexp prec emax m e l in
  0 <= shr_m (fst r) <= m /\ snd r <= Z.max e (Z.max (Zdigits2 m + e - prec) (3 - emax - prec)).
Proof.
  intros H r. subst r. unfold shr_fexp, shr, fexp, emin.
  assert (Hm : shr_m (shr_record_of_loc m l) = m) by (destruct l as [|[]]; reflexivity).
  destruct (Z.max (Zdigits2 m + e - prec) (3 - emax - prec) - e) as [|n|n] eqn:En; cbn [fst snd]; rewrite ?Hm; try (split; lia).
  split; [|lia]. pose proof (iter_shr_1_nn n (shr_record_of_loc m l)) as H1. unfold mnn in H1. rewrite Hm in H1.
  pose proof (iter_shr_1_le n (shr_record_of_loc m l)) as H2. rewrite Hm in H2. split; [apply H1; exact H|apply H2; exact H].
Qed.

Lemma rne_le m l : round_nearest_even m l <= m + 1.
Proof. unfold round_nearest_even. destruct l as [|[]]; try lia. destruct (Z.even m); lia. Qed.

Lemma binary_round_aux_finite sx mx ex lx : 0 <= mx < 2 ^ 64 -> ex <= 0 ->
  f_is_finite (binary_round_aux prec emax sx mx ex lx) = true.
Proof.
  intros [H0 H1] He. unfold binary_round_aux.
  pose proof (shr_fexp_bounds prec emax mx ex lx H0) as B1. cbv zeta in B1. destruct (shr_fexp prec emax mx ex lx) as [mrs' e']. cbn [fst snd] in B1. destruct B1 as [[B1a B1b] B1c].
  pose proof (Zdigits2_le mx 64 (conj H0 H1) ltac:(lia)) as D1.
  set (m2 := round_nearest_even (shr_m mrs') (loc_of_shr_record mrs')).
  assert (Hm2 : 0 <= m2 < 2 ^ 65). { unfold m2. pose proof (rne_nn (shr_m mrs') (loc_of_shr_record mrs') B1a). pose proof (rne_le (shr_m mrs') (loc_of_shr_record mrs')). change (2 ^ 65) with (2 * 2 ^ 64). lia. }
  pose proof (shr_fexp_bounds prec emax m2 e' loc_Exact (proj1 Hm2)) as B2. cbv zeta in B2. destruct (shr_fexp prec emax m2 e' loc_Exact) as [mrs'' e'']. cbn [fst snd] in B2. destruct B2 as [[B2a _] B2c].
  pose proof (Zdigits2_le m2 65 Hm2 ltac:(lia)) as D2.
  unfold prec, emax in *. destruct (shr_m mrs'') as [|m|m]; [reflexivity| |lia].
  assert (Zle_bool e'' (1024 - 53) = true) as -> by (apply Z.leb_le; lia). reflexivity.
Qed.

Lemma shift_pos_val d p : Zpos (shift_pos d p) = Zpos p * 2 ^ Zpos d.
Proof. rewrite Zpower.shift_pos_correct. rewrite Zpower.Zpower_pos_nat, Zpower.Zpower_nat_Z, positive_nat_Z. lia. Qed.

Lemma binary_round_finite sx p : Zpos p < 2 ^ 64 -> f_is_finite (binary_round prec emax sx p 0) = true.
Proof.
  intros Hp. unfold binary_round. destruct (shl_align p 0 (fexp prec emax (Z.pos (digits2_pos p) + 0))) as [mz ez] eqn:Es.
  apply binary_round_aux_finite; unfold shl_align in Es; destruct (digits2_bounds p) as [Hl Hu].
  - destruct (fexp prec emax (Z.pos (digits2_pos p) + 0) - 0) as [|d|d] eqn:Ed; injection Es as <- <-; try (split; lia).
    unfold fexp, emin, prec, emax in Ed. rewrite shift_pos_val.
    assert (Hd : Zpos (digits2_pos p) + Zpos d = 53) by lia. split; [lia|].
    apply Z.lt_le_trans with (2 ^ Zpos (digits2_pos p) * 2 ^ Zpos d); [apply Z.mul_lt_mono_pos_r; lia|].
    rewrite <- Z.pow_add_r by lia. rewrite Hd. apply Z.pow_le_mono_r; lia.
  - destruct (fexp prec emax (Z.pos (digits2_pos p) + 0) - 0) as [|d|d] eqn:Ed; injection Es as <- <-; try lia.
    unfold fexp, emin, prec, emax in *. lia.
Qed.

Theorem f_of_Z_finite z : - 2 ^ 64 < z < 2 ^ 64 -> f_is_finite (f_of_Z z) = true.
Proof.
  intros Hz. unfold f_of_Z, binary_normalize. destruct z as [|p|p]; [reflexivity| |]; apply binary_round_finite; lia.
Qed.

(** the doubles of all unsigned and signed 64-bit integers are finite: the finiteness premises of the ordering theorems hold for them *)
Theorem int64_as_f64_finite z : - 2 ^ 63 <= z < 2 ^ 64 -> f_is_finite (as_f64 (PosInt z)) = true /\ f_is_finite (as_f64 (NegInt z)) = true.
Proof. intros H. cbn [as_f64]. assert (- 2 ^ 64 < z < 2 ^ 64) by lia. split; apply f_of_Z_finite; assumption. Qed.
