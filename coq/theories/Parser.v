(** Model of [parser.rs]: the Pratt parser, function by function.  The parser
    state is the token queue and [self.offset]; every function returns the new
    state.  Recursion is on explicit fuel.  The binding-power table and the
    projection-stop threshold are parameters (instantiated from the generated
    tables at the end), so that the theorems about the parser hold for every
    table with the documented order. *)
From JP Require Import Base Value Lexer Gen.Tables Spec.TableSpec.

Record pst := mkPst { pq : list (Z * token); poff : Z }.

Definition advance_with_pos (st : pst) : Z * token * pst :=
  match pq st with
  | (pos, tok) :: q => (pos, tok, mkPst q pos)
  | [] => (poff st, TEof, st)
  end.

Definition peek (st : pst) (n : nat) : token :=
  match nth_error (pq st) n with
  | Some (_, t) => t
  | None => TEof
  end.

(** [self.err(token, msg, is_peek)]: position of the next token when peeking,
    else [self.offset]. *)
Definition perr {A} (st : pst) (is_peek : bool) : res A :=
  let pos := if is_peek then match pq st with (p, _) :: _ => p | [] => poff st end else poff st in
  Err (EParse pos).

Definition tok_is_rbracket (t : token) := match t with TRbracket => true | _ => false end.
Definition tok_is_rparen (t : token) := match t with TRparen => true | _ => false end.
Definition tok_is_comma (t : token) := match t with TComma => true | _ => false end.
Definition tok_is_colon (t : token) := match t with TColon => true | _ => false end.
Definition tok_is_star (t : token) := match t with TStar => true | _ => false end.

Inductive closing := CloseBracket | CloseParen.
Definition is_closing (c : closing) (t : token) : bool :=
  match c with CloseBracket => tok_is_rbracket t | CloseParen => tok_is_rparen t end.

Section Parser.
  Variable L : token -> Z.       (* Token::lbp *)
  Variable STOP : Z.             (* PROJECTION_STOP *)
  (** [strict = false] is the code.  [strict = true] is the reference parser:
      the same functions with the branches that accept non-sentences closed
      ([&] only as a function argument, calls only on an unquoted identifier
      token, only index/slice/wildcard brackets after a projection) and with the
      continuation loop run after a dot-position multi-select list. *)
  Variable strict : bool.

  Definition pres := res (ast * pst).

  Fixpoint expr (fuel : nat) (rbp : Z) (st : pst) {struct fuel} : pres :=
    match fuel with
    | O => OOF
    | S f =>
        let* (lft, st1) := nud f st in
        expr_loop f rbp lft st1
    end

  (** [while rbp < self.peek(0).lbp() { lft = self.led(lft) }] *)
  with expr_loop (fuel : nat) (rbp : Z) (lft : ast) (st : pst) {struct fuel} : pres :=
    match fuel with
    | O => OOF
    | S f =>
        if rbp <? L (peek st 0) then
          let* (lft2, st1) := led f lft st in
          expr_loop f rbp lft2 st1
        else Ok (lft, st)
    end

  with nud (fuel : nat) (st : pst) {struct fuel} : pres :=
    match fuel with
    | O => OOF
    | S f =>
        let '(offset, token, st1) := advance_with_pos st in
        match token with
        | TAt => Ok (AIdentity, st1)
        | TIdentifier v =>
            if strict then
              match peek st1 0 with
              | TLparen =>
                  let '(poffset, _, st2) := advance_with_pos st1 in
                  let* (args, st3) := parse_list f CloseParen [] st2 in
                  Ok (AFunction poffset v args, st3)
              | _ => Ok (AField v, st1)
              end
            else Ok (AField v, st1)
        | TQuotedIdentifier v =>
            match peek st1 0 with
            | TLparen => perr st1 true
            | _ => Ok (AField v, st1)
            end
        | TStar => parse_wildcard_values f AIdentity st1
        | TLiteral v => Ok (ALiteral v, st1)
        | TLbracket =>
            match peek st1 0 with
            | TNumber _ | TColon => parse_index f st1
            | TStar =>
                if tok_is_rbracket (peek st1 1) then
                  let '(_, _, st2) := advance_with_pos st1 in
                  parse_wildcard_index f AIdentity st2
                else parse_multi_list f st1
            | _ => parse_multi_list f st1
            end
        | TFlatten => parse_flatten f AIdentity st1
        | TLbrace => parse_kvps f [] st1
        | TAmpersand =>
            if strict then perr st1 false
            else
              let* (rhs, st2) := expr f (L TAmpersand) st1 in
              Ok (AExpref rhs, st2)
        | TNot =>
            let* (n, st2) := expr f (L TNot) st1 in
            Ok (ANot n, st2)
        | TFilter => parse_filter f AIdentity st1
        | TLparen =>
            let* (result, st2) := expr f 0 st1 in
            let '(_, t, st3) := advance_with_pos st2 in
            match t with
            | TRparen => Ok (result, st3)
            | _ => perr st3 false
            end
        | _ => perr st1 false
        end
    end

  (** the [loop] of the [Lbrace] arm: at least one key-value pair, [,] between, [}] ends *)
  with parse_kvps (fuel : nat) (acc : list (str * ast)) (st : pst) {struct fuel} : pres :=
    match fuel with
    | O => OOF
    | S f =>
        let* (kv, st1) := parse_kvp f st in
        let '(_, t, st2) := advance_with_pos st1 in
        match t with
        | TRbrace => Ok (AMultiHash (rev (kv :: acc)), st2)
        | TComma => parse_kvps f (kv :: acc) st2
        | _ => perr st2 false
        end
    end

  with parse_kvp (fuel : nat) (st : pst) {struct fuel} : res ((str * ast) * pst) :=
    match fuel with
    | O => OOF
    | S f =>
        let '(_, t, st1) := advance_with_pos st in
        match t with
        | TIdentifier v | TQuotedIdentifier v =>
            if tok_is_colon (peek st1 0) then
              let '(_, _, st2) := advance_with_pos st1 in
              let* (e, st3) := expr f 0 st2 in
              Ok ((v, e), st3)
            else perr st1 true
        | _ => perr st1 false
        end
    end

  with led (fuel : nat) (lft : ast) (st : pst) {struct fuel} : pres :=
    match fuel with
    | O => OOF
    | S f =>
        let '(offset, token, st1) := advance_with_pos st in
        match token with
        | TDot =>
            if tok_is_star (peek st1 0) then
              let '(_, _, st2) := advance_with_pos st1 in
              parse_wildcard_values f lft st2
            else
              let* (rhs, st2) := parse_dot f (L TDot) st1 in
              Ok (ASubexpr lft rhs, st2)
        | TLbracket =>
            match peek st1 0 with
            | TNumber _ | TColon =>
                let* (idx, st2) := parse_index f st1 in
                Ok (ASubexpr lft idx, st2)
            | TStar =>
                let '(_, _, st2) := advance_with_pos st1 in
                parse_wildcard_index f lft st2
            | _ => perr st1 true
            end
        | TOr => let* (rhs, st2) := expr f (L TOr) st1 in Ok (AOr lft rhs, st2)
        | TAnd => let* (rhs, st2) := expr f (L TAnd) st1 in Ok (AAnd lft rhs, st2)
        | TPipe => let* (rhs, st2) := expr f (L TPipe) st1 in Ok (ASubexpr lft rhs, st2)
        | TLparen =>
            if strict then perr st1 true else
            match lft with
            | AField v =>
                let* (args, st2) := parse_list f CloseParen [] st1 in
                Ok (AFunction offset v args, st2)
            | _ => perr st1 true
            end
        | TFlatten => parse_flatten f lft st1
        | TFilter => parse_filter f lft st1
        | TEq => parse_comparator f CEq lft st1
        | TNe => parse_comparator f CNe lft st1
        | TGt => parse_comparator f CGt lft st1
        | TGte => parse_comparator f CGe lft st1
        | TLt => parse_comparator f CLt lft st1
        | TLte => parse_comparator f CLe lft st1
        | _ => perr st1 false
        end
    end

  with parse_filter (fuel : nat) (lhs : ast) (st : pst) {struct fuel} : pres :=
    match fuel with
    | O => OOF
    | S f =>
        let* (cond, st1) := expr f 0 st in
        let '(_, t, st2) := advance_with_pos st1 in
        match t with
        | TRbracket =>
            let* (rhs, st3) := projection_rhs f (L TFilter) st2 in
            Ok (AProjection lhs (ACondition cond rhs), st3)
        | _ => perr st2 false
        end
    end

  with parse_flatten (fuel : nat) (lhs : ast) (st : pst) {struct fuel} : pres :=
    match fuel with
    | O => OOF
    | S f =>
        let* (rhs, st1) := projection_rhs f (L TFlatten) st in
        Ok (AProjection (AFlatten lhs) rhs, st1)
    end

  with parse_comparator (fuel : nat) (c : cmpop) (lhs : ast) (st : pst) {struct fuel} : pres :=
    match fuel with
    | O => OOF
    | S f =>
        let* (rhs, st1) := expr f (L TEq) st in
        Ok (AComparison c lhs rhs, st1)
    end

  with parse_dot (fuel : nat) (bp : Z) (st : pst) {struct fuel} : pres :=
    match fuel with
    | O => OOF
    | S f =>
        match peek st 0 with
        | TLbracket =>
            let '(_, _, st1) := advance_with_pos st in
            if strict then
              let* (lst, st2) := parse_multi_list f st1 in
              expr_loop f bp lst st2
            else parse_multi_list f st1
        | TIdentifier _ | TQuotedIdentifier _ | TStar | TLbrace => expr f bp st
        | TAmpersand => if strict then perr st true else expr f bp st
        | _ => perr st true
        end
    end

  with projection_rhs (fuel : nat) (bp : Z) (st : pst) {struct fuel} : pres :=
    match fuel with
    | O => OOF
    | S f =>
        match peek st 0 with
        | TDot =>
            let '(_, _, st1) := advance_with_pos st in
            parse_dot f bp st1
        | TFilter => expr f bp st
        | TLbracket =>
            if strict then
              match peek st 1 with
              | TNumber _ | TColon => expr f bp st
              | TStar => if tok_is_rbracket (peek st 2) then expr f bp st else perr st true
              | _ => perr st true
              end
            else expr f bp st
        | t => if L t <? STOP then Ok (AIdentity, st) else perr st true
        end
    end

  with parse_wildcard_index (fuel : nat) (lhs : ast) (st : pst) {struct fuel} : pres :=
    match fuel with
    | O => OOF
    | S f =>
        let '(_, t, st1) := advance_with_pos st in
        match t with
        | TRbracket =>
            let* (rhs, st2) := projection_rhs f (L TStar) st1 in
            Ok (AProjection lhs rhs, st2)
        | _ => perr st1 false
        end
    end

  with parse_wildcard_values (fuel : nat) (lhs : ast) (st : pst) {struct fuel} : pres :=
    match fuel with
    | O => OOF
    | S f =>
        let* (rhs, st1) := projection_rhs f (L TStar) st in
        Ok (AProjection (AObjectValues lhs) rhs, st1)
    end

  (** [parse_index]: the [loop] over [parts]/[pos] is [index_loop]. *)
  with parse_index (fuel : nat) (st : pst) {struct fuel} : pres :=
    match fuel with
    | O => OOF
    | S f =>
        let* (p0, p1, p2, pos, st1) := index_loop f None None None 0 st in
        if pos =? 0 then
          match p0 with
          | Some i => Ok (AIndex i, st1)
          | None => Err (EParse (poff st1))
          end
        else
          let sl := ASlice (poff st1) p0 p1 (match p2 with Some s => s | None => 1 end) in
          let* (rhs, st2) := projection_rhs f (L TStar) st1 in
          Ok (AProjection sl rhs, st2)
    end

  with index_loop (fuel : nat) (p0 p1 p2 : option Z) (pos : Z) (st : pst) {struct fuel}
       : res (option Z * option Z * option Z * Z * pst) :=
    match fuel with
    | O => OOF
    | S f =>
        let '(_, t, st1) := advance_with_pos st in
        match t with
        | TNumber v =>
            let '(p0', p1', p2') :=
              if pos =? 0 then (Some v, p1, p2) else if pos =? 1 then (p0, Some v, p2) else (p0, p1, Some v) in
            match peek st1 0 with
            | TColon | TRbracket => index_loop f p0' p1' p2' pos st1
            | _ => perr st1 true
            end
        | TRbracket => Ok (p0, p1, p2, pos, st1)
        | TColon =>
            if pos >=? 2 then perr st1 false
            else
              match peek st1 0 with
              | TNumber _ | TColon | TRbracket => index_loop f p0 p1 p2 (pos + 1) st1
              | _ => perr st1 true
              end
        | _ => perr st1 false
        end
    end

  with parse_multi_list (fuel : nat) (st : pst) {struct fuel} : pres :=
    match fuel with
    | O => OOF
    | S f =>
        if tok_is_rbracket (peek st 0) then perr st true      (* at least one element *)
        else
          let* (es, st1) := parse_list f CloseBracket [] st in
          Ok (AMultiList es, st1)
    end

  (** [parse_list(closing)]: comma separated; an empty list is possible only for
      call arguments ([parse_multi_list] rejects it). *)
  with parse_list (fuel : nat) (c : closing) (acc : list ast) (st : pst) {struct fuel} : res (list ast * pst) :=
    match fuel with
    | O => OOF
    | S f =>
        if is_closing c (peek st 0) then
          let '(_, _, st1) := advance_with_pos st in
          Ok (rev acc, st1)
        else
          let* (e, st1) :=
            match c, peek st 0 with
            | CloseParen, TAmpersand =>
                if strict then
                  (* an expression-reference argument *)
                  let '(_, _, st0) := advance_with_pos st in
                  let* (rhs, st') := expr f (L TAmpersand) st0 in
                  Ok (AExpref rhs, st')
                else expr f 0 st
            | _, _ => expr f 0 st
            end in
          if tok_is_comma (peek st1 0) then
            let '(_, _, st2) := advance_with_pos st1 in
            if is_closing c (peek st2 0) then perr st2 true
            else parse_list f c (e :: acc) st2
          else if is_closing c (peek st1 0) then parse_list f c (e :: acc) st1
          else perr st1 true                                   (* elements are comma separated *)
    end.

  (** [Parser::parse] *)
  Definition parse_tokens (fuel : nat) (toks : list (Z * token)) : res ast :=
    let* (result, st) := expr fuel 0 (mkPst toks 0) in
    match peek st 0 with
    | TEof => Ok result
    | _ => perr st true
    end.
End Parser.

(** [jmespath::parse]. Fuel: every call level consumes fuel and every loop
    iteration consumes a token, so a generous linear bound in the token count is
    enough (adequacy is a theorem for the reference instantiation). *)
Definition parse_fuel (toks : list (Z * token)) : nat := 64 + 24 * length toks.

Definition parse (s : str) : res ast :=
  let* toks := tokenize s in
  parse_tokens lbp gen_projection_stop false (parse_fuel toks) toks.

(** The reference parser (decision procedure for the grammar; see Spec/Grammar.v),
    over the documented table of Spec/TableSpec.v. *)
Definition ref_parse (s : str) : res ast :=
  let* toks := tokenize s in
  parse_tokens (fun t => spec_lbp (kind_of t)) spec_stop true (parse_fuel toks) toks.
