(** Model of the [jp] tool ([jmespath-cli/src/main.rs]).  Argument parsing is
    clap's and is not modelled: the inputs are the decoded options. *)
From JP Require Import Base F64 Value JsonRead JsonPrint Interp Lexer Parser.

Record cli_out := mkOut { exit_code : Z; stdout : res str; stderr_nonempty : bool }.

Definition die : cli_out := mkOut 1 (Ok []) true.      (* message on stderr, nothing on stdout, exit 1 *)

(** the library call made by the tool: [compile(expr)?.search(&json)] through the default runtime *)
Definition lib_search (a : ast) (doc : value) : res value := search_ast (Z.to_nat 4000) default_runtime a doc.

Inductive stdout_kind := OutText (t : str) | OutAstDump.

(** [expr_src]: the expression text ([None]: the [-e] file cannot be read);
    [input]: the JSON text from stdin or the [-f] file ([None]: unreadable). *)
Definition jp (unquoted ast_flag : bool) (expr_src input : option str) : Z * res (option stdout_kind) * bool :=
  match expr_src with
  | None => (1, Ok None, true)
  | Some text =>
      match parse text with
      | Err _ => (1, Ok None, true)
      | Ok a =>
          if ast_flag then (0, Ok (Some OutAstDump), false)       (* the input is never looked at *)
          else
            match input with
            | None => (1, Ok None, true)
            | Some json =>
                match from_json json with
                | Ok None => (1, Ok None, true)
                | Ok (Some doc) =>
                    match lib_search a doc with
                    | Err _ => (1, Ok None, true)
                    | Ok v =>
                        match v with
                        | VStr s => if unquoted then (0, Ok (Some (OutText (s ++ [10]))), false)
                                    else (0, (let* t := print_pretty 0 v in Ok (Some (OutText (t ++ [10])))), false)
                        | _ => (0, (let* t := print_pretty 0 v in Ok (Some (OutText (t ++ [10])))), false)
                        end
                    | Trap => (101, Trap, true) | OOF => (134, OOF, true) | Unmodelled => (0, Unmodelled, false)
                    end
                | _ => (0, Unmodelled, false)
                end
            end
      | Trap => (101, Trap, true) | OOF => (134, OOF, true) | Unmodelled => (0, Unmodelled, false)
      end
  end.
