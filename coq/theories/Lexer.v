(** Model of [lexer.rs::tokenize].  Positions are byte offsets into the UTF-8
    encoding of the expression ([char_indices]). *)
From Coq Require Import Floats.SpecFloat.
From JP Require Import Base F64 Value JsonRead Gen.Tables.

(** The JSON reader model has no error results (it answers [Ok None]); should one arise it is [Unmodelled]. *)
Definition no_err_j {A} (r : res A) : res A := match r with Err _ => Unmodelled | x => x end.

Inductive token :=
| TIdentifier (s : str) | TQuotedIdentifier (s : str) | TNumber (n : Z) | TLiteral (v : value)
| TDot | TStar | TFlatten | TAnd | TOr | TPipe | TFilter | TLbracket | TRbracket | TComma | TColon
| TNot | TNe | TEq | TGt | TGte | TLt | TLte | TAt | TAmpersand | TLparen | TRparen | TLbrace | TRbrace | TEof.

Definition kind_of (t : token) : tk :=
  match t with
  | TIdentifier _ => KIdentifier | TQuotedIdentifier _ => KQuotedIdentifier | TNumber _ => KNumber
  | TLiteral _ => KLiteral | TDot => KDot | TStar => KStar | TFlatten => KFlatten | TAnd => KAnd
  | TOr => KOr | TPipe => KPipe | TFilter => KFilter | TLbracket => KLbracket | TRbracket => KRbracket
  | TComma => KComma | TColon => KColon | TNot => KNot | TNe => KNe | TEq => KEq | TGt => KGt
  | TGte => KGte | TLt => KLt | TLte => KLte | TAt => KAt | TAmpersand => KAmpersand
  | TLparen => KLparen | TRparen => KRparen | TLbrace => KLbrace | TRbrace => KRbrace | TEof => KEof
  end.

(** [Token::lbp], read from the generated table. *)
Definition lbp (t : token) : Z := gen_lbp (kind_of t).

Fixpoint byte_len (s : str) : Z :=
  match s with [] => 0 | c :: r => utf8_len c + byte_len r end.

Definition is_alpha_ (c : Z) : bool :=
  ((97 <=? c) && (c <=? 122)) || ((65 <=? c) && (c <=? 90)) || (c =? 95).
Definition is_ident_char (c : Z) : bool := is_alpha_ c || is_digit c.

(** [consume_while]: all characters involved are ASCII, one byte each. *)
Fixpoint take_while (p : Z -> bool) (s : str) : str * str :=
  match s with
  | c :: r => if p c then let '(a, b) := take_while p r in (c :: a, b) else ([], s)
  | [] => ([], [])
  end.

(** [lexeme.parse::<i32>()] on a non-empty string of ASCII digits. *)
Fixpoint digits_value (s : str) (acc : Z) : Z :=
  match s with [] => acc | c :: r => digits_value r (acc * 10 + (c - 48)) end.

(** [consume_inside]: returns the buffer (escapes kept), the rest and the number of bytes consumed,
    or [None] when the closing delimiter is missing. *)
Fixpoint consume_inside (fuel : nat) (wrapper : Z) (s : str) (buf : str) (n : Z) : option (str * str * Z) :=
  match fuel with
  | O => None
  | S f =>
      match s with
      | [] => None
      | c :: r =>
          if c =? wrapper then Some (rev_append buf [], r, n + utf8_len c)
          else if c =? 92 then
            match r with
            | c2 :: r2 => consume_inside f wrapper r2 (c2 :: c :: buf) (n + 1 + utf8_len c2)
            | [] => consume_inside f wrapper r (c :: buf) (n + 1)
            end
          else consume_inside f wrapper r (c :: buf) (n + utf8_len c)
      end
  end.

(** [s.replace("\\X", "X")] for a single character [X]. *)
Fixpoint unescape (x : Z) (s : str) : str :=
  match s with
  | [] => []
  | c1 :: r1 =>
      if c1 =? 92 then
        match r1 with
        | c :: r => if c =? x then x :: unescape x r else 92 :: unescape x r1
        | [] => [92]
        end
      else c1 :: unescape x r1
  end.

Definition lex_err {A} (pos : Z) : res A := Err (EParse pos).

Fixpoint lex_go (fuel : nat) (s : str) (pos : Z) (acc : list (Z * token)) : res (list (Z * token)) :=
  match fuel with
  | O => OOF
  | S f =>
      match s with
      | [] => Ok (rev_append ((pos, TEof) :: acc) [])
      | c :: r =>
          let simple t := lex_go f r (pos + 1) ((pos, t) :: acc) in
          let alt expected t_match t_else :=
            match r with
            | c2 :: r2 => if c2 =? expected then lex_go f r2 (pos + 2) ((pos, t_match) :: acc)
                          else lex_go f r (pos + 1) ((pos, t_else) :: acc)
            | [] => lex_go f r (pos + 1) ((pos, t_else) :: acc)
            end in
          if is_alpha_ c then
            let '(rest_id, r') := take_while is_ident_char r in
            lex_go f r' (pos + 1 + zlen rest_id) ((pos, TIdentifier (c :: rest_id)) :: acc)
          else if c =? 46 then simple TDot
          else if c =? 91 then
            match r with
            | 93 :: r2 => lex_go f r2 (pos + 2) ((pos, TFlatten) :: acc)
            | 63 :: r2 => lex_go f r2 (pos + 2) ((pos, TFilter) :: acc)
            | _ => simple TLbracket
            end
          else if c =? 42 then simple TStar
          else if c =? 124 then alt 124 TOr TPipe
          else if c =? 64 then simple TAt
          else if c =? 93 then simple TRbracket
          else if c =? 123 then simple TLbrace
          else if c =? 125 then simple TRbrace
          else if c =? 38 then alt 38 TAnd TAmpersand
          else if c =? 40 then simple TLparen
          else if c =? 41 then simple TRparen
          else if c =? 44 then simple TComma
          else if c =? 58 then simple TColon
          else if c =? 34 then
            match consume_inside (S (length r)) 34 r [] 0 with
            | None => lex_err pos
            | Some (buf, r', n) =>
                let* o := no_err_j (from_json (34 :: buf ++ [34])) in
                match o with
                | Some (VStr k) => lex_go f r' (pos + 1 + n) ((pos, TQuotedIdentifier k) :: acc)
                | _ => lex_err pos
                end
            end
          else if c =? 39 then
            match consume_inside (S (length r)) 39 r [] 0 with
            | None => lex_err pos
            | Some (buf, r', n) => lex_go f r' (pos + 1 + n) ((pos, TLiteral (VStr (unescape 39 buf))) :: acc)
            end
          else if c =? 96 then
            match consume_inside (S (length r)) 96 r [] 0 with
            | None => lex_err pos
            | Some (buf, r', n) =>
                let* o := no_err_j (from_json (unescape 96 buf)) in
                match o with
                | Some v => lex_go f r' (pos + 1 + n) ((pos, TLiteral v) :: acc)
                | None => lex_err pos
                end
            end
          else if c =? 61 then
            match r with
            | 61 :: r2 => lex_go f r2 (pos + 2) ((pos, TEq) :: acc)
            | _ => lex_err pos
            end
          else if c =? 62 then alt 61 TGte TGt
          else if c =? 60 then alt 61 TLte TLt
          else if c =? 33 then alt 61 TNe TNot
          else if is_digit c then
            let '(ds, r') := take_while is_digit r in
            let v := digits_value (c :: ds) 0 in
            if v <=? i32_max then lex_go f r' (pos + 1 + zlen ds) ((pos, TNumber v) :: acc) else lex_err pos
          else if c =? 45 then
            (* [c.is_numeric() && c != '0'], then [parse::<i32>] which only accepts ASCII digits:
               anything but 1-9 ends in a parse error at [pos] either way *)
            match r with
            | c2 :: r2 =>
                if (49 <=? c2) && (c2 <=? 57) then
                  let '(ds, r') := take_while is_digit r2 in
                  let v := digits_value (c2 :: ds) 0 in
                  if v <=? i32_max then lex_go f r' (pos + 2 + zlen ds) ((pos, TNumber (- v)) :: acc) else lex_err pos
                else lex_err pos
            | [] => lex_err pos
            end
          else if (c =? 32) || (c =? 10) || (c =? 9) || (c =? 13) then lex_go f r (pos + 1) acc
          else lex_err pos
      end
  end.

Definition tokenize (s : str) : res (list (Z * token)) := lex_go (S (length s)) s 0 [].
