(** The 26 builtins of [functions.rs:319-884], transcribed arm by arm.  Each
    validates its signature first; the "impossible" branches behind the
    validation ([ok_or_else(... Parse ...)], [unreachable!()]) are kept as
    [EFabricated] / [Trap] so that the theorems have to exclude them. The
    context offset is threaded because expression-reference arguments are
    interpreted with the caller's context. *)
From Coq Require Import Floats.SpecFloat.
From JP Require Import Base F64 Value Sig JsonRead JsonPrint.

Inductive builtin :=
| BAbs | BAvg | BCeil | BContains | BEndsWith | BFloor | BJoin | BKeys | BLength | BMap
| BMax | BMaxBy | BMerge | BMin | BMinBy | BNotNull | BReverse | BSort | BSortBy
| BStartsWith | BSum | BToArray | BToNumber | BToString | BType | BValues.

Definition evaluator := value -> ast -> Z -> res (value * Z).

Definition ret (v : value) (off : Z) : res (value * Z) := Ok (v, off).
Definition fabricated {A} : res A := Err EFabricated.

(** [Number::from_f64]: [None] for non-finite. *)
Definition from_f64 (f : f64) (off : Z) : res (value * Z) :=
  if f_is_finite f then ret (VNum (Flt f)) off else fabricated.

(** The models of serde_json's reader and printer have no error results; should
    one ever arise it is reported as [Unmodelled] rather than as a JMESPath error. *)
Definition no_err {A} (r : res A) : res A := match r with Err _ => Unmodelled | x => x end.

Definition arg0 (args : list value) : res value := match args with a :: _ => Ok a | [] => Trap end.
Definition arg1 (args : list value) : res value := match args with _ :: a :: _ => Ok a | _ => Trap end.

(* ---------- string helpers (Rust [str] methods on code-point lists) ---------- *)
Fixpoint starts_with (s p : str) : bool :=
  match p, s with
  | [], _ => true
  | a :: p', b :: s' => (a =? b) && starts_with s' p'
  | _ :: _, [] => false
  end.

Fixpoint str_contains (s p : str) : bool :=
  starts_with s p || match s with [] => false | _ :: s' => str_contains s' p end.

Definition ends_with (s p : str) : bool := starts_with (rev s) (rev p).

Fixpoint join_strs (glue : str) (l : list str) : str :=
  match l with
  | [] => []
  | [x] => x
  | x :: l' => x ++ glue ++ join_strs glue l'
  end.

(* ---------- stable sort by [Ord for Variable] ---------- *)
Section Sort.
  Context {A : Type} (cmp : A -> A -> comparison).
  (** insert [x], which precedes every element of [l] in the input, into the sorted [l] *)
  Fixpoint insert_sorted (x : A) (l : list A) : list A :=
    match l with
    | [] => [x]
    | y :: l' => match cmp x y with Gt => y :: insert_sorted x l' | _ => x :: l end
    end.
  Definition stable_sort (l : list A) : list A := fold_right insert_sorted [] l.
End Sort.

(* ---------- min / max ---------- *)
(** [std::cmp::max(acc, item)] returns [item] unless [acc > item]; [min(acc, item)]
    returns [acc] unless [acc > item]. *)
Definition ord_max (a b : value) : value := match var_cmp a b with Gt => a | _ => b end.
Definition ord_min (a b : value) : value := match var_cmp a b with Gt => b | _ => a end.

Definition min_and_max (op : value -> value -> value) (args : list value) (off : Z) : res (value * Z) :=
  let* a := arg0 args in
  match a with
  | VArr [] => ret VNull off
  | VArr (x :: xs) => ret (fold_left op xs x) off
  | _ => fabricated
  end.

(** [min_and_max_by!]: [better mapped candidate_key] decides replacement
    ([gt] for max_by, [lt] for min_by). *)
Definition expr_number_or_string : str :=
  [101;120;112;114;101;115;115;105;111;110;45;62;110;117;109;98;101;114;124;
   101;120;112;114;101;115;115;105;111;110;45;62;115;116;114;105;110;103].   (* "expression->number|expression->string" *)
Definition expr_string_or_number : str :=
  [101;120;112;114;101;115;115;105;111;110;45;62;115;116;114;105;110;103;124;
   101;120;112;114;101;115;115;105;111;110;45;62;110;117;109;98;101;114].   (* "expression->string|expression->number" *)
Definition expr_arrow : str := [101;120;112;114;101;115;115;105;111;110;45;62].   (* "expression->" *)

Definition by_type_ok (t : jtype) : bool := match t with TString | TNumber => true | _ => false end.

Fixpoint by_loop (ev : evaluator) (better : comparison -> bool) (ast : ast) (ty : jtype)
         (vs : list value) (invocation : Z) (cand ckey : value) (off : Z) : res (value * Z) :=
  match vs with
  | [] => ret cand off
  | v :: vs' =>
      let* (mapped, off1) := ev v ast off in
      if negb (jtype_eqb (get_type mapped) ty) then
        Err (ERuntime (KInvalidReturnType (expr_arrow ++ type_name ty) (type_name (get_type mapped)) 1 invocation) off1)
      else if better (var_cmp mapped ckey)
      then by_loop ev better ast ty vs' (invocation + 1) v mapped off1
      else by_loop ev better ast ty vs' (invocation + 1) cand ckey off1
  end.

Definition min_and_max_by (ev : evaluator) (better : comparison -> bool) (args : list value) (off : Z) : res (value * Z) :=
  let* a := arg0 args in
  match a with
  | VArr [] => ret VNull off
  | VArr (v0 :: vs) =>
      let* e := arg1 args in
      match e with
      | VExpref ast =>
          let* (initial, off1) := ev v0 ast off in
          let ty := get_type initial in
          if negb (by_type_ok ty) then
            Err (ERuntime (KInvalidReturnType expr_number_or_string (type_name ty) 1 1) off1)
          else by_loop ev better ast ty vs 1 v0 initial off1
      | _ => fabricated
      end
  | _ => fabricated
  end.

(* ---------- sort_by ---------- *)
Fixpoint sort_by_keys (ev : evaluator) (ast : ast) (ty : jtype) (vs : list value) (invocation : Z)
         (acc : list (value * value)) (off : Z) : res (list (value * value) * Z) :=
  match vs with
  | [] => Ok (rev acc, off)
  | v :: vs' =>
      let* (mapped, off1) := ev v ast off in
      if negb (jtype_eqb (get_type mapped) ty) then
        Err (ERuntime (KInvalidReturnType (expr_arrow ++ type_name ty) (type_name (get_type mapped)) 1 invocation) off1)
      else sort_by_keys ev ast ty vs' (invocation + 1) ((v, mapped) :: acc) off1
  end.

Definition sort_by (ev : evaluator) (args : list value) (off : Z) : res (value * Z) :=
  let* a := arg0 args in
  match a with
  | VArr [] => ret (VArr []) off
  | VArr (v0 :: vs) =>
      let* e := arg1 args in
      match e with
      | VExpref ast =>
          let* (first, off1) := ev v0 ast off in
          let ty := get_type first in
          if negb (by_type_ok ty) then
            Err (ERuntime (KInvalidReturnType expr_string_or_number (type_name ty) 1 1) off1)
          else
            let* (pairs, off2) := sort_by_keys ev ast ty vs 1 [(v0, first)] off1 in
            let sorted := stable_sort (fun a b => var_cmp (snd a) (snd b)) pairs in
            ret (VArr (map fst sorted)) off2
      | _ => fabricated
      end
  | _ => fabricated
  end.

(* ---------- map ---------- *)
Fixpoint map_loop (ev : evaluator) (ast : ast) (vs : list value) (acc : list value) (off : Z) : res (value * Z) :=
  match vs with
  | [] => ret (VArr (rev acc)) off
  | v :: vs' => let* (r, off1) := ev v ast off in map_loop ev ast vs' (r :: acc) off1
  end.

(* ---------- numeric folds ---------- *)
Fixpoint avg_sum (vs : list value) (sum : f64) : res f64 :=
  match vs with
  | [] => Ok sum
  | VNum n :: vs' => avg_sum vs' (fadd sum (as_f64 n))
  | _ :: _ => fabricated
  end.

Definition sum_fold (vs : list value) : f64 :=
  fold_left (fun acc item => fadd acc (match item with VNum n => as_f64 n | _ => S754_zero false end)) vs (S754_zero false).

Definition merge_objs (args : list value) : res (list (str * value)) :=
  fold_left (fun acc a =>
               let* r := acc in
               match a with
               | VObj o => Ok (fold_left (fun m '(k, v) => obj_insert m k v) o r)
               | _ => fabricated
               end) args (Ok []).

Fixpoint first_non_null (args : list value) : value :=
  match args with
  | [] => VNull
  | a :: r => if is_null a then first_non_null r else a
  end.

Fixpoint strings_of (vs : list value) : res (list str) :=
  match vs with
  | [] => Ok []
  | VStr s :: r => let* l := strings_of r in Ok (s :: l)
  | _ :: _ => fabricated
  end.

Definition call_builtin (ev : evaluator) (b : builtin) (sg : signature) (args : list value) (off : Z) : res (value * Z) :=
  let* _ := validate sg args off in
  match b with
  | BAbs =>
      let* a := arg0 args in
      match a with VNum n => from_f64 (fabs (as_f64 n)) off | _ => ret a off end
  | BAvg =>
      let* a := arg0 args in
      match a with
      | VArr [] => ret VNull off
      | VArr vs => let* s := avg_sum vs (S754_zero false) in from_f64 (fdiv s (f_of_Z (zlen vs))) off
      | _ => fabricated
      end
  | BCeil =>
      let* a := arg0 args in
      match a with VNum n => from_f64 (f_ceil (as_f64 n)) off | _ => fabricated end
  | BFloor =>
      let* a := arg0 args in
      match a with VNum n => from_f64 (f_floor (as_f64 n)) off | _ => fabricated end
  | BContains =>
      let* h := arg0 args in
      let* n := arg1 args in
      match h with
      | VArr a => ret (VBool (existsb (fun x => var_eq x n) a)) off
      | VStr subj => match n with VStr s => ret (VBool (str_contains subj s)) off | _ => ret (VBool false) off end
      | _ => Trap
      end
  | BEndsWith =>
      let* a := arg0 args in
      let* p := arg1 args in
      match a, p with VStr s, VStr q => ret (VBool (ends_with s q)) off | _, _ => fabricated end
  | BStartsWith =>
      let* a := arg0 args in
      let* p := arg1 args in
      match a, p with VStr s, VStr q => ret (VBool (starts_with s q)) off | _, _ => fabricated end
  | BJoin =>
      let* g := arg0 args in
      let* a := arg1 args in
      match g, a with
      | VStr glue, VArr vs => let* ss := strings_of vs in ret (VStr (join_strs glue ss)) off
      | _, _ => fabricated
      end
  | BKeys =>
      let* a := arg0 args in
      match a with VObj o => ret (VArr (map (fun kv => VStr (fst kv)) o)) off | _ => fabricated end
  | BValues =>
      let* a := arg0 args in
      match a with VObj o => ret (VArr (map snd o)) off | _ => fabricated end
  | BLength =>
      let* a := arg0 args in
      match a with
      | VArr l => ret (VNum (PosInt (zlen l))) off
      | VObj o => ret (VNum (PosInt (zlen o))) off
      | VStr s => ret (VNum (PosInt (zlen s))) off
      | _ => Trap
      end
  | BMap =>
      let* e := arg0 args in
      let* a := arg1 args in
      match e, a with
      | VExpref ast, VArr vs => map_loop ev ast vs [] off
      | _, _ => fabricated
      end
  | BMax => min_and_max ord_max args off
  | BMin => min_and_max ord_min args off
  | BMaxBy => min_and_max_by ev (fun c => match c with Gt => true | _ => false end) args off
  | BMinBy => min_and_max_by ev (fun c => match c with Lt => true | _ => false end) args off
  | BMerge => let* o := merge_objs args in ret (VObj o) off
  | BNotNull => ret (first_non_null args) off
  | BReverse =>
      let* a := arg0 args in
      match a with
      | VArr l => ret (VArr (rev l)) off
      | VStr s => ret (VStr (rev s)) off
      | _ => fabricated
      end
  | BSort =>
      let* a := arg0 args in
      match a with VArr l => ret (VArr (stable_sort var_cmp l)) off | _ => fabricated end
  | BSortBy => sort_by ev args off
  | BSum =>
      let* a := arg0 args in
      match a with VArr vs => from_f64 (sum_fold vs) off | _ => fabricated end
  | BToArray =>
      let* a := arg0 args in
      match a with VArr _ => ret a off | _ => ret (VArr [a]) off end
  | BToNumber =>
      let* a := arg0 args in
      match a with
      | VNum _ => ret a off
      | VStr s => let* o := no_err (from_json s) in
                  match o with
                  | Some v => if is_number v then ret v off else ret VNull off
                  | None => ret VNull off
                  end
      | _ => ret VNull off
      end
  | BToString =>
      let* a := arg0 args in
      match a with
      | VStr _ => ret a off
      | _ => let* s := no_err (print_json a) in ret (VStr s) off
      end
  | BType => let* a := arg0 args in ret (VStr (type_name (get_type a))) off
  end.
