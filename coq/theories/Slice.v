(** Model of [variable.rs:453-502] ([slice], [adjust_slice_endpoint]).
    Machine integers are [Z] with explicit range tests: an [i32] addition that
    leaves the range is a [Trap] (debug builds panic; release builds wrap),
    [checked_add] is the explicit range test, [array[i as usize]] out of bounds
    is a [Trap]. *)
From JP Require Import Base.

Definition adjust_slice_endpoint (len endpoint step : Z) : Z :=
  if endpoint <? 0 then
    let endpoint := endpoint + len in
    if endpoint >=? 0 then endpoint
    else if step <? 0 then -1 else 0
  else if endpoint <? len then endpoint
  else if step <? 0 then len - 1
  else len.

Section Loop.
  Context {A : Type}.

  (** [while i < b { result.push(array[i as usize].clone());
                     i = match i.checked_add(step) { Some(n) => n, None => break }; }] *)
  Fixpoint loop_up (fuel : nat) (arr : list A) (i b step : Z) (acc : list A) : res (list A) :=
    match fuel with
    | O => OOF
    | S f =>
        if i <? b then
          match index_z arr i with
          | None => Trap
          | Some x =>
              let i' := i + step in
              if in_i32 i' then loop_up f arr i' b step (x :: acc) else Ok (rev (x :: acc))
          end
        else Ok (rev acc)
    end.

  Fixpoint loop_down (fuel : nat) (arr : list A) (i b step : Z) (acc : list A) : res (list A) :=
    match fuel with
    | O => OOF
    | S f =>
        if i >? b then
          match index_z arr i with
          | None => Trap
          | Some x =>
              let i' := i + step in
              if in_i32 i' then loop_down f arr i' b step (x :: acc) else Trap
          end
        else Ok (rev acc)
    end.

  (** [slice(array, start, stop, step)]; the caller guarantees [step <> 0].
      [len = array.len() as i32] is modelled for [length < 2^31]; longer arrays
      (more than 16 GiB of pointers) are [Unmodelled]. Fuel [length + 1] always suffices (proved). *)
  Definition slice (arr : list A) (start stop : option Z) (step : Z) : res (list A) :=
    let len := zlen arr in
    if i32_max <? len then Unmodelled else      (* [len as i32] wraps beyond 2^31-1 elements: not modelled *)
    if len =? 0 then Ok [] else
    let a := match start with
             | Some s => adjust_slice_endpoint len s step
             | None => if step <? 0 then len - 1 else 0
             end in
    let b := match stop with
             | Some e => adjust_slice_endpoint len e step
             | None => if step <? 0 then -1 else len
             end in
    if step >? 0 then loop_up (S (length arr)) arr a b step []
    else loop_down (S (length arr)) arr a b step [].
End Loop.
