(** C09 — raw strings, JSON literals and quoted identifiers denote exactly their
    value (partial: the theorems cover every spellable raw string, every JSON
    spelling of a string as quoted identifier and as string literal, every
    float-free JSON value as a backtick literal, and unquoted identifiers;
    literals holding floating-point numerals are decided by correspondence
    against an independent round-trip expectation).  Statements only. *)
From JP Require Import Base F64 Value JsonRead JsonPrint Lexer Parser Proofs.LexProof Proofs.JsonStrProof Proofs.JsonRoundProof Proofs.LexSoundProof.

(** The raw-string spelling (only the quote escaped) of every backslash-free
    string — any code points, any length — lexes to the literal holding exactly
    that string. *)
Theorem C09_raw_string_round_trip_partial : forall s, no_backslash s ->
  tokenize (39 :: raw_spell s ++ [39]) =
    Ok [(0, TLiteral (VStr s)); (0 + 1 + (0 + byte_len (raw_spell s) + 1), TEof)].
Proof. exact raw_roundtrip_partial. Qed.
Print Assumptions C09_raw_string_round_trip_partial.

Theorem C09_unescape_inverts_spelling : forall s, no_backslash s -> unescape 39 (raw_spell s) = s.
Proof. exact unescape_raw. Qed.
Print Assumptions C09_unescape_inverts_spelling.

(** Raw strings in general: every string in which no odd run of backslashes runs
    into a quote or the end of the string (a string without that property has no
    raw-string spelling in the language at all) is the value of its spelling —
    only backslash-quote is an escape, every other backslash is literal. *)
Theorem C09_raw_string_round_trip : forall s, spellable s = true ->
  tokenize (39 :: raw_spell s ++ [39]) =
    Ok [(0, TLiteral (VStr s)); (0 + 1 + (0 + byte_len (raw_spell s) + 1), TEof)].
Proof. exact raw_roundtrip. Qed.
Print Assumptions C09_raw_string_round_trip.

Theorem C09_raw_string_compiles_to_its_value : forall s, spellable s = true -> parse (39 :: raw_spell s ++ [39]) = Ok (ALiteral (VStr s)).
Proof. exact raw_compile. Qed.
Print Assumptions C09_raw_string_compiles_to_its_value.

Theorem C09_backslash_free_strings_are_spellable : forall s, no_backslash s -> spellable s = true.
Proof. exact no_backslash_spellable. Qed.
Print Assumptions C09_backslash_free_strings_are_spellable.

Theorem C09_unescape_inverts_spelling_always : forall s, unescape 39 (raw_spell s) = s.
Proof. exact unescape_raw_all. Qed.
Print Assumptions C09_unescape_inverts_spelling_always.

(** Quoted identifiers: every JSON spelling [t] of a name [k] — plain characters,
    the two-character escapes, \uXXXX, surrogate pairs joined — between double
    quotes is the identifier [k], and compiles to the selection of the member named [k]. *)
Theorem C09_quoted_identifier : forall t k, spells t k ->
  tokenize (34 :: t ++ [34]) = Ok [(0, TQuotedIdentifier k); (0 + 1 + (0 + byte_len t + 1), TEof)].
Proof. exact quoted_identifier. Qed.
Print Assumptions C09_quoted_identifier.

Theorem C09_quoted_identifier_selects_member : forall t k, spells t k -> parse (34 :: t ++ [34]) = Ok (AField k).
Proof. exact quoted_compile. Qed.
Print Assumptions C09_quoted_identifier_selects_member.

(** ... in particular the spelling a JSON printer writes, for any name at all. *)
Theorem C09_quoted_identifier_canonical : forall k, Forall (fun c => 0 <= c) k ->
  tokenize (print_string k) = Ok [(0, TQuotedIdentifier k); (0 + 1 + (0 + byte_len (flat_map escape_char k) + 1), TEof)].
Proof. exact quoted_identifier_canonical. Qed.
Print Assumptions C09_quoted_identifier_canonical.

Theorem C09_printed_strings_are_spellings : forall k, Forall (fun c => 0 <= c) k -> spells (flat_map escape_char k) k.
Proof. exact print_string_spells. Qed.
Print Assumptions C09_printed_strings_are_spellings.

(** JSON string literals between backticks (backticks written backslash-backtick). *)
Theorem C09_string_literal : forall t k, spells t k -> parse (96 :: bt_spell (34 :: t ++ [34]) ++ [96]) = Ok (ALiteral (VStr k)).
Proof. exact string_literal_compile. Qed.
Print Assumptions C09_string_literal.

Theorem C09_backtick_unescape_inverts_spelling : forall s, unescape 96 (bt_spell s) = s.
Proof. exact unescape_bt_all. Qed.
Print Assumptions C09_backtick_unescape_inverts_spelling.

(** JSON literals: for every JSON value without floating-point numbers (nesting
    below the reader's limit), the literal holding its JSON text — backticks
    written backslash-backtick — compiles to exactly that value. *)
Theorem C09_json_literal : forall v d, plain d v -> (d <= 127)%nat -> parse (96 :: bt_spell (jtext v) ++ [96]) = Ok (ALiteral v).
Proof. exact json_literal_compile. Qed.
Print Assumptions C09_json_literal.

Theorem C09_json_literal_text_is_the_printed_text : forall v d, plain d v -> print_json v = Ok (jtext v).
Proof. exact print_json_jtext. Qed.
Print Assumptions C09_json_literal_text_is_the_printed_text.

(** Soundness of the lexer, for every expression and every token in it (not only for an
    expression that consists of one literal): each token stands at the byte offset of
    a lexeme that spells exactly that token — a raw-string literal is its text with
    only the quote unescaped, a backtick literal the JSON value of its text with only
    the backtick unescaped, a quoted identifier the string its JSON spelling denotes,
    an identifier its characters, a number the value of its digits ([spell_ok]). *)
Theorem C09_every_token_denotes_its_lexeme : forall s tl, tokenize s = Ok tl ->
  Forall (fun x => exists pre mid suf, s = pre ++ mid ++ suf /\ fst x = byte_len pre /\ spell_ok (snd x) mid) tl.
Proof. exact tokenize_sound. Qed.
Print Assumptions C09_every_token_denotes_its_lexeme.

(** ... and the token list is exactly a segmentation of the expression into such
    lexemes and white space, in order, closed by the end token at the expression's length. *)
Theorem C09_tokens_segment_the_expression : forall s tl, tokenize s = Ok tl ->
  exists body, tl = rev body ++ [(byte_len s, TEof)] /\ covers body s.
Proof. exact tokenize_segments. Qed.
Print Assumptions C09_tokens_segment_the_expression.

Example C09_spell_ok_says :
  spell_ok (TLiteral (VStr [105; 116; 39; 115])) [39; 105; 116; 92; 39; 115; 39] /\
  spell_ok (TQuotedIdentifier [97; 10]) [34; 97; 92; 110; 34] /\
  spell_ok (TLiteral (VNum (PosInt 1))) [96; 49; 96] /\
  ~ spell_ok (TLiteral (VStr [97])) [39; 98; 39].
Proof.
  repeat split.
  - left. exists [105; 116; 92; 39; 115]. split; reflexivity.
  - exists [97; 92; 110]. split; [reflexivity|vm_compute; reflexivity].
  - right. exists [49]. split; [reflexivity|vm_compute; reflexivity].
  - intros [(body & E & H)|(body & E & _)]; [|discriminate E]. injection E as E. destruct body as [|c [|c2 r]]; try discriminate E.
    + injection E as <-. discriminate H.
    + destruct r; discriminate E.
Qed.

(** An unquoted identifier lexes to exactly its name. *)
Theorem C09_unquoted_identifier : forall c s, is_alpha_ c = true -> ident_chars s ->
  tokenize (c :: s) = Ok [(0, TIdentifier (c :: s)); (1 + zlen s, TEof)].
Proof. exact unquoted_identifier. Qed.
Print Assumptions C09_unquoted_identifier.

(** A quoted form without its closing delimiter (and without backslashes) is never closed by the scanner. *)
Theorem C09_unterminated_not_closed : forall w s buf n fuel, Forall (fun c => c <> w /\ c <> 92) s ->
  consume_inside fuel w s buf n = None.
Proof. exact consume_inside_unterminated. Qed.
Print Assumptions C09_unterminated_not_closed.

Example C09_spellable_examples :
  spellable [97; 92; 92; 39; 98] = true /\ spellable [92; 120] = true /\ spellable [92] = false /\ spellable [92; 39] = false /\
  spells [92; 117; 100; 56; 51; 100; 92; 117; 100; 101; 48; 48; 92; 110; 97] [128512; 10; 97].
Proof.
  repeat split; try reflexivity.
  apply (sp_pair 100 56 51 100 100 101 48 48 55357 56832); [reflexivity|lia|reflexivity|lia|].
  apply (sp_esc 110 10); [reflexivity|]. apply sp_char; [lia|discriminate|discriminate|constructor].
Qed.

Example C09_example :
  tokenize [39; 105; 116; 92; 39; 115; 39] = Ok [(0, TLiteral (VStr [105; 116; 39; 115])); (7, TEof)] /\
  (exists p, tokenize [39; 97] = Err (EParse p)).
Proof. vm_compute. split; [reflexivity|eexists; reflexivity]. Qed.
