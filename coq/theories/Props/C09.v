(** C09 — raw strings, JSON literals and quoted identifiers denote exactly their
    value (partial: the theorems cover raw strings without backslashes and
    unquoted identifiers; strings with backslashes, backtick literals and quoted
    identifiers are decided by correspondence against an independent round-trip
    expectation).  Statements only. *)
From JP Require Import Base F64 Value Lexer Proofs.LexProof.

(** The raw-string spelling (only the quote escaped) of every backslash-free
    string — any code points, any length — lexes to the literal holding exactly
    that string. *)
Theorem C09_raw_string_round_trip_partial : forall s, no_backslash s ->
  tokenize (39 :: raw_spell s ++ [39]) =
    Ok [(0, TLiteral (VStr s)); (0 + 1 + (0 + byte_len (raw_spell s) + 1), TEof)].
Proof. exact raw_roundtrip_partial. Qed.
Print Assumptions C09_raw_string_round_trip_partial.

Theorem C09_unescape_inverts_spelling : forall s, no_backslash s -> unescape 39 (raw_spell s) = s.
Proof. exact unescape_raw. Qed.
Print Assumptions C09_unescape_inverts_spelling.

(** An unquoted identifier lexes to exactly its name. *)
Theorem C09_unquoted_identifier : forall c s, is_alpha_ c = true -> ident_chars s ->
  tokenize (c :: s) = Ok [(0, TIdentifier (c :: s)); (1 + zlen s, TEof)].
Proof. exact unquoted_identifier. Qed.
Print Assumptions C09_unquoted_identifier.

(** A quoted form without its closing delimiter (and without backslashes) is never closed by the scanner. *)
Theorem C09_unterminated_not_closed : forall w s buf n fuel, Forall (fun c => c <> w /\ c <> 92) s ->
  consume_inside fuel w s buf n = None.
Proof. exact consume_inside_unterminated. Qed.
Print Assumptions C09_unterminated_not_closed.

Example C09_example :
  tokenize [39; 105; 116; 92; 39; 115; 39] = Ok [(0, TLiteral (VStr [105; 116; 39; 115])); (7, TEof)] /\
  (exists p, tokenize [39; 97] = Err (EParse p)).
Proof. vm_compute. split; [reflexivity|eexists; reflexivity]. Qed.
