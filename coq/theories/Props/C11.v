(** C11 — evaluation is compositional.  Statements only.  All equations hold for
    every tree (function calls included), registry, fuel and context offset;
    [steps ev xs o vs o'] says that evaluating the parts [xs] one after the
    other, threading the error-position cursor from [o] to [o'], yields [vs]. *)
From JP Require Import Base F64 Value Sig Functions Interp Spec.Semantics Proofs.InterpProof Proofs.ComposeProof.

(** '(L) | (R)' (and 'L.R'): R on the result of L. *)
Theorem C11_pipe_compose : forall n rt d l r o v o1, interp n rt d l o = Ok (v, o1) ->
  interp (S n) rt d (ASubexpr l r) o = interp n rt v r o1.
Proof. exact pipe_compose. Qed.
Print Assumptions C11_pipe_compose.
Theorem C11_subexpr_unfold : forall n rt d o l r,
  interp (S n) rt d (ASubexpr l r) o = let* (v, o1) := interp n rt d l o in interp n rt v r o1.
Proof. exact subexpr_compose. Qed.
Print Assumptions C11_subexpr_unfold.

(** Projections (list wildcard, slice, flatten, object wildcard share the node;
    a filter is the projection of a condition): the right-hand side applied to
    each element separately, order kept, nulls dropped. *)
Theorem C11_projection_pointwise : forall n rt d l r o elems o1 vs o2,
  interp n rt d l o = Ok (VArr elems, o1) ->
  steps (fun e o' => interp n rt e r o') elems o1 vs o2 ->
  interp (S n) rt d (AProjection l r) o = Ok (VArr (filter non_null vs), o2).
Proof. exact projection_pointwise_interp. Qed.
Print Assumptions C11_projection_pointwise.
Theorem C11_filter_pointwise : forall n rt d l p t o elems o1 vs o2,
  interp n rt d l o = Ok (VArr elems, o1) ->
  steps (fun e o' => interp n rt e (ACondition p t) o') elems o1 vs o2 ->
  interp (S n) rt d (AProjection l (ACondition p t)) o = Ok (VArr (filter non_null vs), o2).
Proof. exact filter_pointwise. Qed.
Print Assumptions C11_filter_pointwise.
Theorem C11_filter_keeps_truthy : forall n rt e p t o c o1, interp n rt e p o = Ok (c, o1) ->
  interp (S n) rt e (ACondition p t) o = if is_truthy c then interp n rt e t o1 else Ok (VNull, o1).
Proof. exact condition_keeps_truthy. Qed.
Print Assumptions C11_filter_keeps_truthy.
Theorem C11_projection_unfold : forall n rt d o l r,
  interp (S n) rt d (AProjection l r) o =
    let* (lv, o1) := interp n rt d l o in
    match lv with VArr elems => proj_loop (fun e o' => interp n rt e r o') elems [] o1 | _ => Ok (VNull, o1) end.
Proof. exact projection_unfold. Qed.
Print Assumptions C11_projection_unfold.
Theorem C11_projection_loop_is_filter_map : forall ev1 es o vs o', steps ev1 es o vs o' ->
  proj_loop ev1 es [] o = Ok (VArr (filter non_null vs), o').
Proof. exact proj_loop_pointwise. Qed.
Print Assumptions C11_projection_loop_is_filter_map.
Theorem C11_flatten_unfold : forall n rt d o x,
  interp (S n) rt d (AFlatten x) o =
    let* (v, o1) := interp n rt d x o in
    match v with
    | VArr a => Ok (VArr (flat_map (fun e => match e with VArr inner => inner | _ => [e] end) a), o1)
    | _ => Ok (VNull, o1)
    end.
Proof. exact flatten_unfold. Qed.
Print Assumptions C11_flatten_unfold.

(** multi-select list / hash: the tuple / record of the members' individual results *)
Theorem C11_multilist_tuple : forall n rt d es o vs o1, is_null d = false ->
  steps (fun e o' => interp n rt d e o') es o vs o1 ->
  interp (S n) rt d (AMultiList es) o = Ok (VArr vs, o1).
Proof. exact multilist_tuple. Qed.
Print Assumptions C11_multilist_tuple.
Theorem C11_multihash_record : forall n rt d (kvs : list (str * ast)) o vs o1, is_null d = false ->
  steps (fun kv o' => interp n rt d (snd kv) o') kvs o vs o1 ->
  interp (S n) rt d (AMultiHash kvs) o = Ok (record (combine (map fst kvs) vs), o1).
Proof. exact multihash_record. Qed.
Print Assumptions C11_multihash_record.

(** '!', '&&', '||': truth-table combination of the operands' individual results *)
Theorem C11_not_table : forall n rt d x o v o1, interp n rt d x o = Ok (v, o1) ->
  interp (S n) rt d (ANot x) o = Ok (VBool (negb (is_truthy v)), o1).
Proof. exact not_table. Qed.
Print Assumptions C11_not_table.
Theorem C11_and_table : forall n rt d l r o lv o1, interp n rt d l o = Ok (lv, o1) ->
  interp (S n) rt d (AAnd l r) o = if is_truthy lv then interp n rt d r o1 else Ok (lv, o1).
Proof. exact and_table. Qed.
Print Assumptions C11_and_table.
Theorem C11_or_table : forall n rt d l r o lv o1, interp n rt d l o = Ok (lv, o1) ->
  interp (S n) rt d (AOr l r) o = if is_truthy lv then Ok (lv, o1) else interp n rt d r o1.
Proof. exact or_table. Qed.
Print Assumptions C11_or_table.

(** On the core forms the value of a compound is a structural function of the
    sub-trees' values alone (the denotational semantics is compositional by
    construction and the interpreter equals it: C01). *)
Theorem C11_core_is_denotational : forall n rt e d o, core e = true -> (height e <= n)%nat ->
  interp n rt d e o = Unmodelled \/ interp n rt d e o = lift (eval e d) o.
Proof. exact conformance. Qed.
Print Assumptions C11_core_is_denotational.

Example C11_example :
  steps (fun e o' => interp 3 [] e (AField [98]) o') [VObj [([98], VNum (PosInt 1))]; VObj []] 0 [VNum (PosInt 1); VNull] 0.
Proof. repeat econstructor. Qed.
