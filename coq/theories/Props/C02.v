(** C02 — every builtin computes the value the specification defines (the
    clauses the property names; the remaining functions are decided by
    correspondence, see DESIGN.md).  Statements only. *)
From Coq Require Import Sorting.Permutation Sorting.Sorted.
From JP Require Import Base F64 Value Sig Functions Interp Proofs.ObjFacts Proofs.FunProof Proofs.OrdProof Proofs.StrFunProof Proofs.ByProof Proofs.NumOkProof.

(** sort / sort_by: the sorting routine of the model (stable insertion sort by
    [Ord for Variable], applied to the values resp. to (value, key) pairs)
    returns a permutation of its input ... *)
Theorem C02_sort_is_permutation : forall (A : Type) (cmp : A -> A -> comparison) l, Permutation l (stable_sort cmp l).
Proof. exact @stable_sort_perm. Qed.
Print Assumptions C02_sort_is_permutation.

(** ... that is ascending whenever the comparator is a total preorder on the
    elements (what the signatures enforce: all numbers or all strings) ... *)
Theorem C02_sort_is_ascending : forall (A : Type) (cmp : A -> A -> comparison),
  (forall x y, cmp x y = Gt -> cmp y x <> Gt) ->
  (forall x y z, le cmp x y -> le cmp y z -> le cmp x z) ->
  forall l, StronglySorted (le cmp) (stable_sort cmp l).
Proof. exact @stable_sort_sorted. Qed.
Print Assumptions C02_sort_is_ascending.

(** ... and stable: the elements equivalent to any given key appear in their input order. *)
Theorem C02_sort_is_stable : forall (A : Type) (cmp : A -> A -> comparison),
  (forall x y, cmp x y = Gt -> cmp y x <> Gt) ->
  (forall x y z, le cmp x y -> le cmp y z -> le cmp x z) ->
  (forall k x y, equiv_to cmp k x = true -> cmp x y = cmp k y /\ cmp y x = cmp y k) ->
  forall k l, filter (equiv_to cmp k) (stable_sort cmp l) = filter (equiv_to cmp k) l.
Proof. exact @stable_sort_stable. Qed.
Print Assumptions C02_sort_is_stable.

(** The premises hold on what the signatures admit: an array of numbers (no NaN —
    every JSON number) or an array of strings.  There [Ord for Variable] is a total
    preorder compatible with its equivalence, so sort is ascending and stable. *)
Theorem C02_sort_numbers_ascending : forall l, forallb is_num_ok l = true -> StronglySorted (le var_cmp) (stable_sort var_cmp l).
Proof. exact sort_numbers_ascending. Qed.
Print Assumptions C02_sort_numbers_ascending.

Theorem C02_sort_strings_ascending : forall l, forallb is_str l = true -> StronglySorted (le var_cmp) (stable_sort var_cmp l).
Proof. exact sort_strings_ascending. Qed.
Print Assumptions C02_sort_strings_ascending.

Theorem C02_sort_numbers_stable : forall k l, is_num_ok k = true -> forallb is_num_ok l = true ->
  filter (equiv_to var_cmp k) (stable_sort var_cmp l) = filter (equiv_to var_cmp k) l.
Proof. exact sort_numbers_stable. Qed.
Print Assumptions C02_sort_numbers_stable.

Theorem C02_sort_strings_stable : forall k l, is_str k = true -> forallb is_str l = true ->
  filter (equiv_to var_cmp k) (stable_sort var_cmp l) = filter (equiv_to var_cmp k) l.
Proof. exact sort_strings_stable. Qed.
Print Assumptions C02_sort_strings_stable.

(** max / min: null on the empty array, else a member that no member exceeds
    (resp. that exceeds no member) in [Ord for Variable]. *)
Theorem C02_max : forall ev sg l off r o, homogeneous l -> validate sg [VArr l] off = Ok tt ->
  call_builtin ev BMax sg [VArr l] off = Ok (r, o) ->
  (l = [] /\ r = VNull) \/ (In r l /\ forall y, In y l -> le var_cmp y r).
Proof. exact max_spec. Qed.
Print Assumptions C02_max.

Theorem C02_min : forall ev sg l off r o, homogeneous l -> validate sg [VArr l] off = Ok tt ->
  call_builtin ev BMin sg [VArr l] off = Ok (r, o) ->
  (l = [] /\ r = VNull) \/ (In r l /\ forall y, In y l -> le var_cmp r y).
Proof. exact min_spec. Qed.
Print Assumptions C02_min.

Theorem C02_sort : forall ev sg l off, validate sg [VArr l] off = Ok tt ->
  call_builtin ev BSort sg [VArr l] off = Ok (VArr (stable_sort var_cmp l), off).
Proof. exact sort_spec. Qed.
Print Assumptions C02_sort.

(** max_by / min_by return an element of the input (null on the empty array). *)
Theorem C02_max_by_min_by_return_an_element : forall ev (better : bool) sg vs e off r o,
  validate sg [VArr vs; e] off = Ok tt ->
  call_builtin ev (if better then BMaxBy else BMinBy) sg [VArr vs; e] off = Ok (r, o) ->
  (vs = [] /\ r = VNull) \/ In r vs.
Proof. exact max_by_returns_element. Qed.
Print Assumptions C02_max_by_min_by_return_an_element.

(** An integer converted to a double is never NaN (rounding yields a zero, a finite number or an
    infinity), so integer-valued numbers always meet the "no NaN" premise of the ordering
    theorems: sort on an array of integers is ascending with no side condition. *)
Theorem C02_integers_never_nan : forall z, is_num_ok (VNum (PosInt z)) = true /\ is_num_ok (VNum (NegInt z)) = true.
Proof. exact integers_are_num_ok. Qed.
Print Assumptions C02_integers_never_nan.

Theorem C02_sort_integers_ascending : forall l, forallb is_int_value l = true -> StronglySorted (le var_cmp) (stable_sort var_cmp l).
Proof. exact sort_integers_ascending. Qed.
Print Assumptions C02_sort_integers_ascending.

(** sort_by: the expression reference is evaluated once per element, in order, against
    that element ([each]); the result lists the elements in an order that is a
    permutation of the input paired with those keys, and — when the keys are
    numbers or strings, which is what the function admits — ascending by key
    and stable (elements with equivalent keys keep their relative order). *)
Theorem C02_sort_by : forall ev sg v0 vs ast off r o', validate sg [VArr (v0 :: vs); VExpref ast] off = Ok tt ->
  call_builtin ev BSortBy sg [VArr (v0 :: vs); VExpref ast] off = Ok (r, o') ->
  exists keys sorted, each ev ast (v0 :: vs) off keys o' /\ r = VArr (map fst sorted) /\ Permutation (combine (v0 :: vs) keys) sorted /\
    (homogeneous_keys keys ->
       StronglySorted (le key_cmp) sorted /\
       forall p, In p (combine (v0 :: vs) keys) -> filter (equiv_to key_cmp p) sorted = filter (equiv_to key_cmp p) (combine (v0 :: vs) keys)).
Proof. exact call_sort_by. Qed.
Print Assumptions C02_sort_by.

(** max_by / min_by: the keys are computed once per element, in order; the result is
    an element of the array together with its own key, and no element's key
    exceeds (resp. undercuts) that key. *)
Theorem C02_max_by_extreme_key : forall ev sg v0 vs ast off r o', validate sg [VArr (v0 :: vs); VExpref ast] off = Ok tt ->
  call_builtin ev BMaxBy sg [VArr (v0 :: vs); VExpref ast] off = Ok (r, o') ->
  exists keys, each ev ast (v0 :: vs) off keys o' /\
    (homogeneous_keys keys -> exists k, In (r, k) (combine (v0 :: vs) keys) /\ forall p, In p (combine (v0 :: vs) keys) -> le var_cmp (snd p) k).
Proof. exact call_max_by. Qed.
Print Assumptions C02_max_by_extreme_key.

Theorem C02_min_by_extreme_key : forall ev sg v0 vs ast off r o', validate sg [VArr (v0 :: vs); VExpref ast] off = Ok tt ->
  call_builtin ev BMinBy sg [VArr (v0 :: vs); VExpref ast] off = Ok (r, o') ->
  exists keys, each ev ast (v0 :: vs) off keys o' /\
    (homogeneous_keys keys -> exists k, In (r, k) (combine (v0 :: vs) keys) /\ forall p, In p (combine (v0 :: vs) keys) -> le var_cmp k (snd p)).
Proof. exact call_min_by. Qed.
Print Assumptions C02_min_by_extreme_key.

(** merge is right-biased: each key holds its last binding over all arguments. *)
Theorem C02_merge_right_biased : forall ev sg objs off o k,
  validate sg (map VObj objs) off = Ok tt ->
  call_builtin ev BMerge sg (map VObj objs) off = Ok (VObj o, off) ->
  obj_get o k = last_binding (concat objs) k.
Proof. exact merge_right_biased. Qed.
Print Assumptions C02_merge_right_biased.

(** length / reverse work on Unicode code points (strings are sequences of scalar values in the model). *)
Theorem C02_length_counts_code_points : forall ev sg s off, validate sg [VStr s] off = Ok tt ->
  call_builtin ev BLength sg [VStr s] off = Ok (VNum (PosInt (zlen s)), off).
Proof. exact length_counts_code_points. Qed.
Print Assumptions C02_length_counts_code_points.
Theorem C02_reverse_code_points : forall ev sg s off, validate sg [VStr s] off = Ok tt ->
  call_builtin ev BReverse sg [VStr s] off = Ok (VStr (rev s), off).
Proof. exact reverse_code_points. Qed.
Print Assumptions C02_reverse_code_points.
Theorem C02_reverse_array : forall ev sg l off, validate sg [VArr l] off = Ok tt ->
  call_builtin ev BReverse sg [VArr l] off = Ok (VArr (rev l), off).
Proof. exact reverse_array. Qed.
Print Assumptions C02_reverse_array.

(** keys / values correspond pairwise. *)
Theorem C02_keys : forall ev sg o off, validate sg [VObj o] off = Ok tt ->
  call_builtin ev BKeys sg [VObj o] off = Ok (VArr (map (fun kv => VStr (fst kv)) o), off).
Proof. exact keys_spec. Qed.
Print Assumptions C02_keys.
Theorem C02_values : forall ev sg o off, validate sg [VObj o] off = Ok tt ->
  call_builtin ev BValues sg [VObj o] off = Ok (VArr (map snd o), off).
Proof. exact values_spec. Qed.
Print Assumptions C02_values.
Theorem C02_keys_values_pairwise : forall o,
  combine (map (fun kv => VStr (fst kv)) o) (map (@snd str value) o) = map (fun kv => (VStr (fst kv), snd kv)) o.
Proof. exact keys_values_pairwise. Qed.
Print Assumptions C02_keys_values_pairwise.

(** to_number yields a number or null and nothing else; avg of an empty array is null. *)
Theorem C02_to_number_number_or_null : forall ev sg a off v o, validate sg [a] off = Ok tt ->
  call_builtin ev BToNumber sg [a] off = Ok (v, o) -> is_number v = true \/ v = VNull.
Proof. exact to_number_number_or_null. Qed.
Print Assumptions C02_to_number_number_or_null.
Theorem C02_avg_empty_is_null : forall ev sg off, validate sg [VArr []] off = Ok tt ->
  call_builtin ev BAvg sg [VArr []] off = Ok (VNull, off).
Proof. exact avg_empty_null. Qed.
Print Assumptions C02_avg_empty_is_null.

(** map keeps nulls, preserves the length, and evaluates the expression once per element, against that element, in order. *)
Theorem C02_map : forall ev sg ast vs off rs off', validate sg [VExpref ast; VArr vs] off = Ok tt ->
  each ev ast vs off rs off' ->
  call_builtin ev BMap sg [VExpref ast; VArr vs] off = Ok (VArr rs, off').
Proof. exact map_spec. Qed.
Print Assumptions C02_map.
Theorem C02_map_preserves_length : forall ev ast vs o rs o', each ev ast vs o rs o' -> length rs = length vs.
Proof. exact each_length. Qed.
Print Assumptions C02_map_preserves_length.

(** String predicates, join, not_null, to_array, type, to_string on strings. *)
Theorem C02_starts_with : forall ev sg s p off, validate sg [VStr s; VStr p] off = Ok tt ->
  exists b, call_builtin ev BStartsWith sg [VStr s; VStr p] off = Ok (VBool b, off) /\ (b = true <-> exists t, s = p ++ t).
Proof. exact starts_with_fn_spec. Qed.
Print Assumptions C02_starts_with.

Theorem C02_ends_with : forall ev sg s p off, validate sg [VStr s; VStr p] off = Ok tt ->
  exists b, call_builtin ev BEndsWith sg [VStr s; VStr p] off = Ok (VBool b, off) /\ (b = true <-> exists t, s = t ++ p).
Proof. exact ends_with_fn_spec. Qed.
Print Assumptions C02_ends_with.

Theorem C02_contains_string : forall ev sg s p off, validate sg [VStr s; VStr p] off = Ok tt ->
  exists b, call_builtin ev BContains sg [VStr s; VStr p] off = Ok (VBool b, off) /\ (b = true <-> exists a c, s = a ++ p ++ c).
Proof. exact contains_string_spec. Qed.
Print Assumptions C02_contains_string.

Theorem C02_contains_array : forall ev sg l x off, validate sg [VArr l; x] off = Ok tt ->
  exists b, call_builtin ev BContains sg [VArr l; x] off = Ok (VBool b, off) /\ (b = true <-> exists y, In y l /\ var_eq y x = true).
Proof. exact contains_array_spec. Qed.
Print Assumptions C02_contains_array.

Theorem C02_join : forall ev sg glue l off, validate sg [VStr glue; VArr (map VStr l)] off = Ok tt ->
  call_builtin ev BJoin sg [VStr glue; VArr (map VStr l)] off = Ok (VStr (intercalate glue l), off).
Proof. exact join_spec. Qed.
Print Assumptions C02_join.

Theorem C02_not_null : forall ev sg args off, validate sg args off = Ok tt ->
  call_builtin ev BNotNull sg args off = Ok (first_non_null args, off).
Proof. exact not_null_spec. Qed.
Print Assumptions C02_not_null.

Theorem C02_first_non_null : forall args,
  (exists pre v post, args = pre ++ v :: post /\ Forall (fun a => a = VNull) pre /\ v <> VNull /\ first_non_null args = v) \/
  (Forall (fun a => a = VNull) args /\ first_non_null args = VNull).
Proof. exact first_non_null_spec. Qed.
Print Assumptions C02_first_non_null.

Theorem C02_to_array : forall ev sg a off, validate sg [a] off = Ok tt ->
  call_builtin ev BToArray sg [a] off = Ok (match a with VArr _ => a | _ => VArr [a] end, off).
Proof. exact to_array_spec. Qed.
Print Assumptions C02_to_array.

Theorem C02_type : forall ev sg a off, validate sg [a] off = Ok tt ->
  call_builtin ev BType sg [a] off = Ok (VStr (type_name (get_type a)), off).
Proof. exact type_spec. Qed.
Print Assumptions C02_type.

Theorem C02_to_string_of_string : forall ev sg s off, validate sg [VStr s] off = Ok tt ->
  call_builtin ev BToString sg [VStr s] off = Ok (VStr s, off).
Proof. exact to_string_of_string. Qed.
Print Assumptions C02_to_string_of_string.

Example C02_example :
  stable_sort var_cmp [VNum (PosInt 3); VNum (Flt (f_of_Z 1)); VNum (PosInt 1); VNum (NegInt (-2))] =
    [VNum (NegInt (-2)); VNum (Flt (f_of_Z 1)); VNum (PosInt 1); VNum (PosInt 3)].
Proof. vm_compute. reflexivity. Qed.
