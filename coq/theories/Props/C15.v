(** C15 — calls follow the runtime registry; custom functions receive evaluated
    arguments.  Statements only. *)
From Coq Require Import Sorting.Sorted.
From JP Require Import Base F64 Value Sig Functions Interp History Gen.Tables Spec.SigSpec Proofs.ObjFacts Proofs.CallProof Proofs.RegProof.

(** After any sequence of register / deregister / register-builtins operations on
    a fresh runtime, looking a name up yields the most recent binding of that name
    still in force: the last operation mentioning the name decides (registering
    shadows, also a builtin; deregistering removes; register-builtins rebinds
    exactly the generated builtin names); a fresh runtime has none. *)
Theorem C15_latest_binding : forall ops name,
  rt_get (fold_left apply_rop ops []) name = latest_binding (rev ops) name.
Proof. exact registry_latest_binding. Qed.
Print Assumptions C15_latest_binding.

Theorem C15_fresh_runtime_empty : forall name, rt_get [] name = None.
Proof. exact fresh_runtime_empty. Qed.
Print Assumptions C15_fresh_runtime_empty.

Theorem C15_register_shadows : forall rt n f name,
  rt_get (rt_register rt n f) name = if str_eqb name n then Some f else rt_get rt name.
Proof. exact rt_get_register. Qed.
Print Assumptions C15_register_shadows.

Theorem C15_deregister_removes : forall rt n name, StronglySorted key_lt rt ->
  rt_get (rt_deregister rt n) name = if str_eqb name n then None else rt_get rt name.
Proof. exact rt_get_deregister. Qed.
Print Assumptions C15_deregister_removes.

Theorem C15_register_builtins_rebinds : forall rt name,
  rt_get (register_builtins rt) name =
    match last_binding builtin_entries name with Some f => Some f | None => rt_get rt name end.
Proof. exact rt_get_register_builtins. Qed.
Print Assumptions C15_register_builtins_rebinds.

(** The builtin names are the 26 of the specification (each registered once, in
    whatever order), each bound to the modelled implementation of the struct
    registered under that name in runtime.rs. *)
Theorem C15_builtin_entries : same_names (map fst builtin_entries) (map fst spec_table) = true /\ length builtin_entries = 26%nat.
Proof. vm_compute. split; reflexivity. Qed.
Print Assumptions C15_builtin_entries.

(** Call protocol: arguments evaluated left to right against the current node
    (threading only the error cursor), then the lookup; unknown names fail with
    unknown-function at the call's offset, and an argument error wins over it. *)
Theorem C15_call_protocol : forall n rt d off name args o,
  interp (S n) rt d (AFunction off name args) o =
    let* (fn_args, caller_offset) := eval_list (fun e o' => interp n rt d e o') args [] o in
    match rt_get rt name with
    | Some fi => let* (v, _) := call_impl (interp n rt) fi fn_args off in Ok (v, caller_offset)
    | None => Err (ERuntime (KUnknownFunction name) off)
    end.
Proof. exact function_unfold. Qed.
Print Assumptions C15_call_protocol.

Theorem C15_unknown_function : forall n rt d off name args o vs o1,
  eval_list (fun e o' => interp n rt d e o') args [] o = Ok (vs, o1) -> rt_get rt name = None ->
  interp (S n) rt d (AFunction off name args) o = Err (ERuntime (KUnknownFunction name) off).
Proof. exact unknown_function. Qed.
Print Assumptions C15_unknown_function.

Theorem C15_argument_error_wins : forall n rt d off name args o e,
  eval_list (fun e' o' => interp n rt d e' o') args [] o = Err e ->
  interp (S n) rt d (AFunction off name args) o = Err e.
Proof. exact argument_error_wins. Qed.
Print Assumptions C15_argument_error_wins.

(** Expression references are passed unevaluated. *)
Theorem C15_expref_unevaluated : forall n rt d a o, interp (S n) rt d (AExpref a) o = Ok (VExpref a, o).
Proof. exact expref_passed_unevaluated. Qed.
Print Assumptions C15_expref_unevaluated.

(** A custom function receives exactly the evaluated argument list; one declared
    with a signature is only reached when the arguments satisfy it. *)
Theorem C15_custom_receives_arguments : forall ev id sg args off,
  match sg with Some s => validate s args off = Ok tt | None => True end ->
  call_impl ev (FCustom id sg) args off = Ok (VArr [VNum (PosInt id); VArr args], off).
Proof. exact custom_receives_arguments. Qed.
Print Assumptions C15_custom_receives_arguments.

Theorem C15_custom_validated_first : forall ev id sg args off e,
  validate sg args off = Err e -> call_impl ev (FCustom id (Some sg)) args off = Err e.
Proof. exact custom_validated_first. Qed.
Print Assumptions C15_custom_validated_first.

Example C15_example :
  let f := FCustom 7 None in
  rt_get (fold_left apply_rop [ORegBuiltins; OReg [97;98;115] f; ODereg [109;97;120]] []) [97;98;115] = Some f /\
  rt_get (fold_left apply_rop [ORegBuiltins; OReg [97;98;115] f; ODereg [109;97;120]] []) [109;97;120] = None /\
  rt_get (fold_left apply_rop [OReg [97;98;115] f; ORegBuiltins] []) [97;98;115] <> Some f.
Proof. vm_compute. repeat split; try reflexivity. discriminate. Qed.
