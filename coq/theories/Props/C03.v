(** C03 — compile accepts exactly the JMESPath language (partial, as C04).
    Statements only. *)
From JP Require Import Base Value Lexer Parser Gen.Tables Spec.TableSpec.

Theorem C03_table_order : table_order_ok gen_lbp gen_projection_stop = true.
Proof. vm_compute. reflexivity. Qed.
Print Assumptions C03_table_order.

(** The reference parser (same functions, non-sentence branches closed) rejects
    the recorded deviation classes that the code still accepts ... *)
Example C03_reference_rejects_deviations :
  (exists e, ref_parse [38; 97] = Err e) /\                                   (* &a *)
  (exists e, ref_parse [40; 97; 41; 40; 98; 41] = Err e) /\                   (* (a)(b) *)
  (exists e, ref_parse [97; 91; 42; 93; 91; 98; 44; 99; 93] = Err e) /\       (* a[*][b,c] *)
  (exists a, parse [38; 97] = Ok a) /\ (exists a, parse [40; 97; 41; 40; 98; 41] = Ok a) /\
  (exists a, parse [97; 91; 42; 93; 91; 98; 44; 99; 93] = Ok a).
Proof. vm_compute. repeat split; eexists; reflexivity. Qed.

(** ... and agrees with the code on the repaired classes (separators, empty multi-select). *)
Example C03_separators_required :
  (exists e, parse [91; 97; 32; 98; 93] = Err e) /\ (exists e, parse [91; 32; 93] = Err e) /\
  (exists e, parse [102; 40; 97; 32; 98; 41] = Err e) /\ (exists a, parse [102; 40; 41] = Ok a).
Proof. vm_compute. repeat split; eexists; reflexivity. Qed.
