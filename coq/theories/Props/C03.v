(** C03 — compile accepts exactly the JMESPath language (partial: the reference
    parser is proved sound for the grammar of Spec/Grammar.v — it accepts only
    sentences, with the tree of a derivation — and to terminate; its completeness
    and the binding-power side conditions of the derivation are not
    machine-checked; the code is tied to the reference parser by correspondence,
    the differences being the recorded known findings).  Statements only. *)
From JP Require Import Base Value Lexer Parser Gen.Tables Spec.TableSpec Spec.Grammar Spec.Prec Proofs.GrammarProof Proofs.ParseFuelProof.

Theorem C03_table_order : table_order_ok gen_lbp gen_projection_stop = true.
Proof. vm_compute. reflexivity. Qed.
Print Assumptions C03_table_order.

(** The reference parser (same functions, non-sentence branches closed) rejects
    the recorded deviation classes that the code still accepts ... *)
Example C03_reference_rejects_deviations :
  (exists e, ref_parse [38; 97] = Err e) /\                                   (* &a *)
  (exists e, ref_parse [40; 97; 41; 40; 98; 41] = Err e) /\                   (* (a)(b) *)
  (exists e, ref_parse [97; 91; 42; 93; 91; 98; 44; 99; 93] = Err e) /\       (* a[*][b,c] *)
  (exists a, parse [38; 97] = Ok a) /\ (exists a, parse [40; 97; 41; 40; 98; 41] = Ok a) /\
  (exists a, parse [97; 91; 42; 93; 91; 98; 44; 99; 93] = Ok a).
Proof. vm_compute. repeat split; eexists; reflexivity. Qed.

(** ... and agrees with the code on the repaired classes (separators, empty multi-select). *)
Example C03_separators_required :
  (exists e, parse [91; 97; 32; 98; 93] = Err e) /\ (exists e, parse [91; 32; 93] = Err e) /\
  (exists e, parse [102; 40; 97; 32; 98; 41] = Err e) /\ (exists a, parse [102; 40; 41] = Ok a).
Proof. vm_compute. repeat split; eexists; reflexivity. Qed.

(** Soundness of the reference parser: an accepted expression lexes to the
    flattening of a well-formed syntax tree of the grammar (one constructor per
    production of the JMESPath grammar, Spec/Grammar.v; well-formed: what follows
    a dot is an identifier, quoted identifier, call, [*], multi-select hash or
    list, and only index, slice, wildcard and filter brackets continue a
    projection; and disambiguated: every operand has only tighter-binding
    operators at its top level, Spec/Prec.v) followed by the end-of-input token, and
    the returned tree is the abstract tree of that syntax tree.  So the
    reference parser — the sentence oracle of this property — accepts nothing
    outside the language and never invents a tree. *)
Theorem C03_reference_parser_sound : forall s t, ref_parse s = Ok t ->
  exists tokens c, tokenize s = Ok tokens /\ map snd tokens = flat c ++ [TEof] /\ erase c = t /\ wf c /\
                   prec (fun tk => spec_lbp (kind_of tk)) 0 c.
Proof. exact ref_parse_sound. Qed.
Print Assumptions C03_reference_parser_sound.

(** Every token stream ends with exactly one end-of-input token. *)
Theorem C03_token_stream_shape : forall s r, tokenize s = Ok r ->
  exists body p, r = body ++ [(p, TEof)] /\ Forall (fun x => snd x <> TEof) body.
Proof. exact tokenize_ends. Qed.
Print Assumptions C03_token_stream_shape.

(** The reference parser decides: it never runs out of fuel. *)
Theorem C03_reference_parser_terminates : forall s, ref_parse s <> OOF.
Proof. exact ref_parse_never_out_of_fuel. Qed.
Print Assumptions C03_reference_parser_terminates.

(** The code itself (the model of lexer.rs + parser.rs, tied to the code by the
    correspondence check): an accepted expression lexes to the flattening of a
    tree of the *extended* language [wfb true] — the grammar plus exactly four
    forms: [&x] as an ordinary prefix form, a call applied to any operand that
    denotes a field ([(a)(b)], ["f"(x)]), [&x] after a dot, a multi-select list
    after a projection ([a[*][b,c]]) — followed by the end-of-input token, and the
    returned tree is its abstract tree.  So every non-sentence the code compiles
    belongs to one of the recorded deviation classes (known findings); all other
    non-sentences are rejected. *)
Theorem C03_code_accepts_only_the_extended_language : forall s t, parse s = Ok t ->
  exists tokens c, tokenize s = Ok tokens /\ map snd tokens = flat c ++ [TEof] /\ erase c = t /\ wfb true c /\ prec lbp 0 c.
Proof. exact code_parse_sound. Qed.
Print Assumptions C03_code_accepts_only_the_extended_language.

(** The extended language contains the grammar's, and is strictly larger. *)
Theorem C03_grammar_trees_are_extended_trees : forall c, wfb false c -> wfb true c.
Proof. exact wfb_mono. Qed.
Print Assumptions C03_grammar_trees_are_extended_trees.

Example C03_extension_is_proper : wfb true (CAmp CCurrent) /\ ~ wfb false (CAmp CCurrent).
Proof. split; [cbn; auto|]. cbn. intros [H _]. discriminate H. Qed.
