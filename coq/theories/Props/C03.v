(** C03 — compile accepts exactly the JMESPath language.  Both directions are
    theorems about the model of lexer.rs + parser.rs (tied to the code by the
    correspondence check) and about the reference parser: soundness — what is
    accepted is the flattening of a syntax tree of the grammar of
    Spec/Grammar.v (for the code: of the grammar plus the four recorded deviation
    forms) — and completeness — every disambiguated syntax tree of the grammar
    (Spec/Prec.v, Spec/Disamb.v) is accepted with its abstract tree (for the
    code: outside the one recorded deviation class of Spec/Disamb.v).  The two
    meet for the reference parser: it accepts exactly the expressions that lex to
    a disambiguated syntax tree, and returns that tree; and the code agrees
    with it on every such expression outside the deviation class.
    Partial: the lexical level is proved form by form under C09 and compared by
    correspondence otherwise.  Statements only. *)
From JP Require Import Base Value Lexer Parser Gen.Tables Spec.TableSpec Spec.Grammar Spec.Prec Spec.Disamb
     Proofs.GrammarProof Proofs.ParseFuelProof Proofs.CompleteProof Proofs.DisSoundProof Proofs.TableIso Proofs.AgreeProof Proofs.LexSoundProof.

Theorem C03_table_order : table_order_ok gen_lbp gen_projection_stop = true.
Proof. vm_compute. reflexivity. Qed.
Print Assumptions C03_table_order.

(** The reference parser (same functions, non-sentence branches closed) rejects
    the recorded deviation classes that the code still accepts ... *)
Example C03_reference_rejects_deviations :
  (exists e, ref_parse [38; 97] = Err e) /\                                   (* &a *)
  (exists e, ref_parse [40; 97; 41; 40; 98; 41] = Err e) /\                   (* (a)(b) *)
  (exists e, ref_parse [97; 91; 42; 93; 91; 98; 44; 99; 93] = Err e) /\       (* a[*][b,c] *)
  (exists a, parse [38; 97] = Ok a) /\ (exists a, parse [40; 97; 41; 40; 98; 41] = Ok a) /\
  (exists a, parse [97; 91; 42; 93; 91; 98; 44; 99; 93] = Ok a).
Proof. vm_compute. repeat split; eexists; reflexivity. Qed.

(** ... and agrees with the code on the repaired classes (separators, empty multi-select). *)
Example C03_separators_required :
  (exists e, parse [91; 97; 32; 98; 93] = Err e) /\ (exists e, parse [91; 32; 93] = Err e) /\
  (exists e, parse [102; 40; 97; 32; 98; 41] = Err e) /\ (exists a, parse [102; 40; 41] = Ok a).
Proof. vm_compute. repeat split; eexists; reflexivity. Qed.

(** Soundness of the reference parser: an accepted expression lexes to the
    flattening of a well-formed syntax tree of the grammar (one constructor per
    production of the JMESPath grammar, Spec/Grammar.v; well-formed: what follows
    a dot is an identifier, quoted identifier, call, [*], multi-select hash or
    list, and only index, slice, wildcard and filter brackets continue a
    projection; and disambiguated: every operand has only tighter-binding
    operators at its top level, Spec/Prec.v) followed by the end-of-input token, and
    the returned tree is the abstract tree of that syntax tree.  So the
    reference parser — the sentence oracle of this property — accepts nothing
    outside the language and never invents a tree. *)
Theorem C03_reference_parser_sound : forall s t, ref_parse s = Ok t ->
  exists tokens c, tokenize s = Ok tokens /\ map snd tokens = flat c ++ [TEof] /\ erase c = t /\ wf c /\
                   prec (fun tk => spec_lbp (kind_of tk)) 0 c.
Proof. exact ref_parse_sound. Qed.
Print Assumptions C03_reference_parser_sound.

(** Every token stream ends with exactly one end-of-input token. *)
Theorem C03_token_stream_shape : forall s r, tokenize s = Ok r ->
  exists body p, r = body ++ [(p, TEof)] /\ Forall (fun x => snd x <> TEof) body.
Proof. exact tokenize_ends. Qed.
Print Assumptions C03_token_stream_shape.

(** The reference parser decides: it never runs out of fuel. *)
Theorem C03_reference_parser_terminates : forall s, ref_parse s <> OOF.
Proof. exact ref_parse_never_out_of_fuel. Qed.
Print Assumptions C03_reference_parser_terminates.

(** The code itself (the model of lexer.rs + parser.rs, tied to the code by the
    correspondence check): an accepted expression lexes to the flattening of a
    tree of the *extended* language [wfb true] — the grammar plus exactly four
    forms: [&x] as an ordinary prefix form, a call applied to any operand that
    denotes a field ([(a)(b)], ["f"(x)]), [&x] after a dot, a multi-select list
    after a projection ([a[*][b,c]]) — followed by the end-of-input token, and the
    returned tree is its abstract tree.  So every non-sentence the code compiles
    belongs to one of the recorded deviation classes (known findings); all other
    non-sentences are rejected. *)
Theorem C03_code_accepts_only_the_extended_language : forall s t, parse s = Ok t ->
  exists tokens c, tokenize s = Ok tokens /\ map snd tokens = flat c ++ [TEof] /\ erase c = t /\ wfb true c /\ prec lbp 0 c.
Proof. exact code_parse_sound. Qed.
Print Assumptions C03_code_accepts_only_the_extended_language.

(** The extended language contains the grammar's, and is strictly larger. *)
Theorem C03_grammar_trees_are_extended_trees : forall c, wfb false c -> wfb true c.
Proof. exact wfb_mono. Qed.
Print Assumptions C03_grammar_trees_are_extended_trees.

Example C03_extension_is_proper : wfb true (CAmp CCurrent) /\ ~ wfb false (CAmp CCurrent).
Proof. split; [cbn; auto|]. cbn. intros [H _]. discriminate H. Qed.

(** Completeness of the reference parser: every syntax tree of the grammar that is
    well formed, respects the binding powers ([prec]: operands hold only
    tighter-binding operators at their top level) and is disambiguated in its
    context ([dis]: every operand extends as far as it can, a projection without
    right-hand side is followed by a token below the stop threshold, an
    identifier before [(] is a call, [[*]] and [.*] are the wildcards) is accepted
    from its token sequence, and the tree returned is its abstract tree (up to
    the offsets kept for error reporting, [shape]). *)
Theorem C03_reference_parser_complete : forall s tl c, tokenize s = Ok tl -> map snd tl = flat c ++ [TEof] ->
  wf c -> prec (fun t => spec_lbp (kind_of t)) 0 c -> dis (fun t => spec_lbp (kind_of t)) spec_stop false TEof c ->
  exists c', shape c' = shape c /\ ref_parse s = Ok (erase c').
Proof. exact ref_parser_complete. Qed.
Print Assumptions C03_reference_parser_complete.

(** Completeness of the code (model of parser.rs over the generated tables):
    every disambiguated sentence of the grammar compiles, to the tree of the
    grammar — outside the recorded deviation class [nodotlist] excludes (a
    multi-select list right after a dot that is continued by further operators
    inside the same operand; known finding dot-multiselect-ends-projection). *)
Theorem C03_code_parser_complete : forall s tl c, tokenize s = Ok tl -> map snd tl = flat c ++ [TEof] ->
  wf c -> prec lbp 0 c -> dis lbp gen_projection_stop false TEof c -> nodotlist c ->
  exists c', shape c' = shape c /\ parse s = Ok (erase c').
Proof. exact code_parser_complete. Qed.
Print Assumptions C03_code_parser_complete.

(** The same for any binding-power table with the documented order, for token
    lists (no lexer involved), for the reference parser and for the code's parser. *)
Theorem C03_complete_on_tokens_any_table : forall T STOP, table_order_ok T STOP = true -> forall strict c tl,
  wf c -> prec (L T) 0 c -> dis (L T) STOP false TEof c -> nd strict c -> map snd tl = flat c ++ [TEof] ->
  exists c', shape c' = shape c /\ parse_tokens (L T) STOP strict (parse_fuel tl) tl = Ok (erase c').
Proof. exact complete_tokens. Qed.
Print Assumptions C03_complete_on_tokens_any_table.

(** The disambiguated grammar is unambiguous: two disambiguated trees with the same
    token sequence denote the same abstract tree (offsets aside). *)
Theorem C03_disambiguated_grammar_unambiguous : forall T STOP c1 c2, table_order_ok T STOP = true ->
  let L := fun t => T (kind_of t) in
  wf c1 -> prec L 0 c1 -> dis L STOP false TEof c1 -> wf c2 -> prec L 0 c2 -> dis L STOP false TEof c2 ->
  flat c1 = flat c2 -> unoff (erase c1) = unoff (erase c2).
Proof. exact disambiguated_grammar_unambiguous. Qed.
Print Assumptions C03_disambiguated_grammar_unambiguous.

(** The tree the reference parser returns is disambiguated (Spec/Disamb.v), not only
    well formed and respecting the binding powers. *)
Theorem C03_reference_tree_is_disambiguated : forall s t, ref_parse s = Ok t ->
  exists tokens c, tokenize s = Ok tokens /\ map snd tokens = flat c ++ [TEof] /\ erase c = t /\ wf c /\
                   prec (fun tk => spec_lbp (kind_of tk)) 0 c /\ dis (fun tk => spec_lbp (kind_of tk)) spec_stop false TEof c.
Proof. exact ref_parse_sound_dis. Qed.
Print Assumptions C03_reference_tree_is_disambiguated.

(** Exactness: the reference parser — the sentence oracle of this property —
    accepts an expression if and only if it lexes to the token sequence of a
    well-formed, binding-power-respecting, disambiguated syntax tree of the grammar. *)
Theorem C03_reference_parser_accepts_exactly_the_language : forall s,
  (exists t, ref_parse s = Ok t) <->
  (exists tokens c, tokenize s = Ok tokens /\ map snd tokens = flat c ++ [TEof] /\ wf c /\
                    prec (fun tk => spec_lbp (kind_of tk)) 0 c /\ dis (fun tk => spec_lbp (kind_of tk)) spec_stop false TEof c).
Proof. exact ref_parse_accepts_exactly. Qed.
Print Assumptions C03_reference_parser_accepts_exactly_the_language.

(** The code against the reference parser, for all strings: whatever the
    reference parser accepts, through a tree without the recorded deviation
    constituent, the code compiles to the same abstract tree (offsets aside).
    The binding-power numbers read from the code enter only through their order. *)
Theorem C03_code_agrees_with_reference_on_the_language : forall s t, ref_parse s = Ok t ->
  exists tokens c, tokenize s = Ok tokens /\ map snd tokens = flat c ++ [TEof] /\ erase c = t /\ wf c /\
    (nodotlist c -> exists t', parse s = Ok t' /\ unoff t' = unoff t).
Proof. exact code_agrees_with_reference. Qed.
Print Assumptions C03_code_agrees_with_reference_on_the_language.

(** The conditions on trees depend on the table only through the documented order. *)
Theorem C03_conditions_depend_on_the_order_only : forall T1 S1 T2 S2 c dp fol,
  table_order_ok T1 S1 = true -> table_order_ok T2 S2 = true ->
  prec (fun t => T1 (kind_of t)) 0 c -> dis (fun t => T1 (kind_of t)) S1 dp fol c ->
  prec (fun t => T2 (kind_of t)) 0 c /\ dis (fun t => T2 (kind_of t)) S2 dp fol c.
Proof. exact prec_dis_table_independent. Qed.
Print Assumptions C03_conditions_depend_on_the_order_only.

(** The lexical level, soundness: the token list of any expression that lexes is a
    segmentation of the expression into lexemes that spell their tokens (numbers
    within the signed 32-bit range, [-] followed by 1-9, JSON literals holding valid
    JSON, ...) and white space — no character is skipped or invented. *)
Theorem C03_tokens_segment_the_expression : forall s tl, tokenize s = Ok tl ->
  exists body, tl = rev body ++ [(byte_len s, TEof)] /\ covers body s.
Proof. exact tokenize_segments. Qed.
Print Assumptions C03_tokens_segment_the_expression.

(** Non-vacuity: [a.b[0] || !c] and [*.[a, b] | f(&x, `1`)] as trees that meet every
    hypothesis of the completeness theorems (both tables); and a tree of the
    excluded class, on which the code and the reference parser do differ. *)
Definition C03_tree_1 : cst :=
  CBin BOr (CDot (CIdent [97]) (CIndex (CIdent [98]) 0)) (CNot (CIdent [99])).
Definition C03_tree_2 : cst :=
  CBin BPipe (CStarP (KDot (CMList (CIdent [97]) [CIdent [98]])))
    (CCall 0 [102] [(true, CIdent [120]); (false, CLit (VNum (PosInt 1)))]).
Definition C03_tree_excluded : cst := CStarP (KDot (CDot (CMList (CIdent [97]) []) (CIdent [98]))).

Example C03_completeness_hypotheses_hold :
  (wf C03_tree_1 /\ prec lbp 0 C03_tree_1 /\ dis lbp gen_projection_stop false TEof C03_tree_1 /\ nodotlist C03_tree_1) /\
  (wf C03_tree_2 /\ prec lbp 0 C03_tree_2 /\ dis lbp gen_projection_stop false TEof C03_tree_2 /\ nodotlist C03_tree_2) /\
  (wf C03_tree_1 /\ prec (fun t => spec_lbp (kind_of t)) 0 C03_tree_1 /\ dis (fun t => spec_lbp (kind_of t)) spec_stop false TEof C03_tree_1) /\
  (wf C03_tree_excluded /\ prec lbp 0 C03_tree_excluded /\ dis lbp gen_projection_stop false TEof C03_tree_excluded /\ ~ nodotlist C03_tree_excluded).
Proof.
  unfold prec, tighter. cbn. unfold lbp, dotlist_free. cbn.
  repeat match goal with
         | |- _ /\ _ => split
         | |- True => exact I
         | |- Forall _ _ => constructor
         | |- _ = _ => reflexivity
         | |- _ <> _ => discriminate
         | |- _ -> True => intros _; exact I
         | |- tighter _ _ _ => unfold tighter; cbn
         | |- _ < _ => first [lia | vm_compute; reflexivity]
         | |- _ <= _ => first [lia | vm_compute; discriminate]
         | |- ~ _ => let H := fresh in intros H; destruct H as [_ H]; discriminate H
         end.
Qed.

Example C03_excluded_class_is_real :
  flat C03_tree_excluded = [TStar; TDot; TLbracket; TIdentifier [97]; TRbracket; TDot; TIdentifier [98]] /\
  ref_parse [42; 46; 91; 97; 93; 46; 98] = Ok (erase C03_tree_excluded) /\
  parse [42; 46; 91; 97; 93; 46; 98] <> Ok (erase C03_tree_excluded).
Proof. vm_compute. repeat split; discriminate. Qed.

(** A recorded deviation at the lexical level (known finding [minus-zero-numeral]): the grammar's
    [number = ["-"] 1*digit] admits [-0] and [-01], so [a[-0]] is a sentence (it selects like [a[0]]);
    the lexer — and with it both parsers, which share it — refuses a minus sign that is not followed
    by 1-9, while the same numerals without the sign are accepted. *)
Example C03_minus_zero_numeral_refused :
  match parse [97; 91; 45; 48; 93], ref_parse [97; 91; 45; 48; 93], parse [97; 91; 48; 93], parse [97; 91; 45; 48; 49; 93], parse [97; 91; 48; 49; 93] with
  | Err _, Err _, Ok _, Err _, Ok _ => True
  | _, _, _, _, _ => False
  end.
Proof. vm_compute. exact I. Qed.
