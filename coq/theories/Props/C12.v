(** C12 — errors are classified and located truthfully (partial: the rendered message and the
    classification of search errors are decided by correspondence).
    Statements only. *)
From JP Require Import Base F64 Value Sig Functions Interp Lexer Parser Wire Proofs.CallProof Proofs.ErrProof Proofs.InterpFacts Proofs.ParseErrProof Proofs.SearchErrProof Render Proofs.RenderProof Proofs.PosProof Proofs.AstPosProof.

(** Every failure of compile is a parse error: the lexer (incl. the embedded JSON reader) and the parser only ever build parse errors. *)
Theorem C12_compile_errors_are_parse_errors : forall s e, parse s = Err e -> exists p, e = EParse p.
Proof. exact compile_errors_are_parse_errors. Qed.
Print Assumptions C12_compile_errors_are_parse_errors.

(** Every failure of search is a runtime error — or the recorded parse-class error that functions.rs fabricates
    for non-finite numeric results (known finding) — for all trees, documents, registries and fuel. *)
Theorem C12_search_errors_are_runtime_errors : forall n rt a d e,
  search_ast n rt a d = Err e -> (exists k o, e = ERuntime k o) \/ e = EFabricated.
Proof. exact search_errors_are_runtime_errors. Qed.
Print Assumptions C12_search_errors_are_runtime_errors.

(** For any offset on a character boundary the reported line and column are the
    zero-based line and character column of that offset, for any mix of newlines
    and multi-byte characters (the repaired byte/character confusion). *)
Theorem C12_line_col : forall pre post, line_col (pre ++ post) (byte_len pre) = (count_nl pre, last_line pre 0).
Proof. exact line_col_spec. Qed.
Print Assumptions C12_line_col.

(** The offset of every parse error — lexer or parser, any string — lies on a
    character boundary of the expression: it is the byte length of a prefix
    (the lexer's positions are prefix lengths; the parser reports only the
    position of a token of its input, or the position it started from). *)
Theorem C12_parse_error_offset_on_character_boundary : forall s p, parse s = Err (EParse p) ->
  exists pre suf, s = pre ++ suf /\ p = byte_len pre.
Proof. exact compile_error_offset_on_boundary. Qed.
Print Assumptions C12_parse_error_offset_on_character_boundary.

Theorem C12_parse_error_offset_within_the_expression : forall s p, parse s = Err (EParse p) -> 0 <= p <= byte_len s.
Proof. exact compile_error_offset_within. Qed.
Print Assumptions C12_parse_error_offset_within_the_expression.

(** ... hence the line and column reported with it are the number of newlines
    before the offset and the number of characters since the last of them. *)
Theorem C12_parse_error_coordinates : forall s p, parse s = Err (EParse p) ->
  exists pre suf, s = pre ++ suf /\ p = byte_len pre /\ line_col s p = (count_nl pre, last_line pre 0).
Proof. exact compile_error_coordinates. Qed.
Print Assumptions C12_parse_error_coordinates.

(** Every offset stored in a compiled tree — the position of a call's opening parenthesis,
    where its arity, type and unknown-function errors are reported (theorems below), and the
    position recorded in a slice node, where an invalid slice is reported — is the byte
    length of a prefix of the expression: runtime errors of calls and slices in a compiled
    expression point into the expression, on a character boundary. *)
Theorem C12_compiled_tree_offsets_on_character_boundaries : forall s t, parse s = Ok t -> aok (bnd s) t.
Proof. exact compile_tree_offsets_on_boundaries. Qed.
Print Assumptions C12_compiled_tree_offsets_on_character_boundaries.

(** Arity and argument-type errors carry the context offset of the call ... *)
Theorem C12_validate_error_offset : forall sg args off e, validate sg args off = Err e -> exists k, e = ERuntime k off.
Proof. exact validate_error_offset. Qed.
Print Assumptions C12_validate_error_offset.

(** ... which is the call's opening parenthesis. *)
Theorem C12_signature_error_at_paren : forall n rt d off name args o vs o1 b sg e,
  eval_list (fun e' o' => interp n rt d e' o') args [] o = Ok (vs, o1) -> rt_get rt name = Some (FBuiltin b sg) ->
  validate sg vs off = Err e ->
  exists k, interp (S n) rt d (AFunction off name args) o = Err (ERuntime k off).
Proof. exact call_signature_error_at_paren. Qed.
Print Assumptions C12_signature_error_at_paren.

Theorem C12_unknown_function_at_paren : forall n rt d off name args o vs o1,
  eval_list (fun e o' => interp n rt d e o') args [] o = Ok (vs, o1) -> rt_get rt name = None ->
  interp (S n) rt d (AFunction off name args) o = Err (ERuntime (KUnknownFunction name) off).
Proof. exact unknown_function. Qed.
Print Assumptions C12_unknown_function_at_paren.

(** A step-0 slice is the invalid-slice error pointing into the slice. *)
Theorem C12_invalid_slice_inside_slice : forall fuel rt d off start stop o,
  interp (S fuel) rt d (ASlice off start stop 0) o = Err (ERuntime KInvalidSlice off).
Proof. exact slice_step0. Qed.
Print Assumptions C12_invalid_slice_inside_slice.

(** A successful evaluation restores the error cursor (repair of the stale-offset
    defect): a caller still running reports at its own position. *)
Theorem C12_offset_restored : forall n rt d e o v o', interp n rt d e o = Ok (v, o') -> o' = o.
Proof. exact interp_preserves_offset. Qed.
Print Assumptions C12_offset_restored.

Example C12_example :
  line_col [34; 233; 34; 32; 46; 46] 5 = (0, 4) /\ line_col [97; 10; 233; 10; 46] 5 = (2, 0).
Proof. vm_compute. split; reflexivity. Qed.

(** The rendered message points where the coordinates say: for an error at the
    boundary between [pre] and [post] the location block printed by Display is the
    expression up to the end of the line holding the boundary, then a line of
    exactly as many spaces as there are characters between the start of that line
    and the boundary, a caret, and then the remaining lines — so the caret stands
    under the first character of [post] (any newlines, any multi-byte characters,
    the end of the expression included). *)
Theorem C12_rendered_caret_under_offset : forall pre post,
  let '(l, c) := line_col (pre ++ post) (byte_len pre) in
  location_block (pre ++ post) l c = pre ++ first_line post ++ 10 :: carat (last_line pre 0) ++ after_first_line post.
Proof. exact rendered_caret_matches_offset. Qed.
Print Assumptions C12_rendered_caret_under_offset.
