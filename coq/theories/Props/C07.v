(** C07 — slices select exactly the elements of the start:stop:step rule.
    Statements only; proofs are in Proofs/SliceProof.v. *)
From JP Require Import Base F64 Value Slice Interp Spec.SliceSpec Proofs.SliceProof Proofs.InterpFacts.

(** The code's slice (model of variable.rs:453-502, after the checked-add
    repair) returns exactly the closed-form selection, for every array shorter
    than 2^31 and every start/stop (any integer) and non-zero i32 step; in
    particular it never traps and never runs out of fuel. *)
Theorem C07_slice : forall (A : Type) (arr : list A) (start stop : option Z) (step : Z),
  zlen arr <= i32_max -> i32_min <= step -> step <> 0 ->
  slice arr start stop step = Ok (spec_slice arr start stop step).
Proof. exact @slice_correct. Qed.
Print Assumptions C07_slice.

(** The closed form is the membership rule: ascending steps select the i with
    lo <= i < hi and (i - lo) divisible by step, in increasing order ... *)
Theorem C07_membership_up : forall lo hi step i, 0 < step ->
  In i (arith_seq lo step (Z.to_nat (py_count lo hi step))) <-> lo <= i < hi /\ (i - lo) mod step = 0.
Proof. exact up_membership. Qed.
Print Assumptions C07_membership_up.

(** ... descending steps the i with hi < i <= lo and (lo - i) divisible by -step. *)
Theorem C07_membership_down : forall lo hi step i, step < 0 ->
  In i (arith_seq lo step (Z.to_nat (py_count lo hi step))) <-> hi < i <= lo /\ (lo - i) mod (- step) = 0.
Proof. exact down_membership. Qed.
Print Assumptions C07_membership_down.

(** Every selected index is a valid position and exactly one element is kept
    per selected index (so the result is the selection, nothing dropped). *)
Theorem C07_indices_in_range : forall n start stop step i, 0 <= n -> step <> 0 ->
  In i (py_indices n start stop step) -> 0 <= i < n.
Proof. exact indices_in_range. Qed.
Print Assumptions C07_indices_in_range.

Theorem C07_one_element_per_index : forall (A : Type) (arr : list A) start stop step, step <> 0 ->
  length (spec_slice arr start stop step) = length (py_indices (zlen arr) start stop step).
Proof. exact @spec_slice_length. Qed.
Print Assumptions C07_one_element_per_index.

(** Step 0 is the invalid-slice runtime error carrying the slice's offset;
    slicing a non-array yields null. *)
Theorem C07_step0_invalid : forall fuel rt d off start stop o,
  interp (S fuel) rt d (ASlice off start stop 0) o = Err (ERuntime KInvalidSlice off).
Proof. exact slice_step0. Qed.
Print Assumptions C07_step0_invalid.

Theorem C07_slice_non_array_null : forall fuel rt d off start stop step o,
  step <> 0 -> (forall l, d <> VArr l) ->
  interp (S fuel) rt d (ASlice off start stop step) o = Ok (VNull, o).
Proof. exact slice_non_array. Qed.
Print Assumptions C07_slice_non_array_null.

(** Through the interpreter, a slice node on an array is the specified selection. *)
Theorem C07_interp_slice : forall fuel rt arr off start stop step o,
  zlen arr <= i32_max -> i32_min <= step -> step <> 0 ->
  interp (S fuel) rt (VArr arr) (ASlice off start stop step) o = Ok (VArr (spec_slice arr start stop step), o).
Proof. exact interp_slice_array. Qed.
Print Assumptions C07_interp_slice.

(** Index rule: n >= 0 selects element n, n < 0 selects element len + n, null out of range or on a non-array. *)
Theorem C07_index : forall fuel rt arr n o, i32_min < n ->
  interp (S fuel) rt (VArr arr) (AIndex n) o =
    Ok (match spec_index arr n with Some x => x | None => VNull end, o).
Proof. exact interp_index_spec. Qed.
Print Assumptions C07_index.

Theorem C07_index_non_array_null : forall fuel rt d n o, i32_min < n -> (forall l, d <> VArr l) ->
  interp (S fuel) rt d (AIndex n) o = Ok (VNull, o).
Proof. exact interp_index_non_array. Qed.
Print Assumptions C07_index_non_array_null.

(** Non-vacuity: a concrete non-trivial instance. *)
Example C07_example :
  slice [10; 20; 30; 40; 50] (Some (-2)) None (-2) = Ok [40; 20] /\
  spec_slice [10; 20; 30; 40; 50] (Some 1) None 2147483647 = [20].
Proof. vm_compute. split; reflexivity. Qed.
