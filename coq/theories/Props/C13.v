(** C13 — compile and search are pure.  Statements only.  [hstep] is the model of
    one operation on runtimes and compiled expressions (History.v); an
    observation is [pure_obs st op]. *)
From JP Require Import Base F64 Value Interp Lexer Parser History Proofs.RegProof.

(** Compiling the same string always yields the same tree (whatever happened before, on any handle). *)
Theorem C13_compile_deterministic : forall st1 st2 h1 h2 r text,
  rt_of st1 r <> None -> rt_of st2 r <> None ->
  pure_obs st1 (HCompile h1 r text) = pure_obs st2 (HCompile h2 r text).
Proof. exact compile_deterministic. Qed.
Print Assumptions C13_compile_deterministic.

(** A search observes only the text bound to its handle, the registry of its
    runtime and its document: at any two points of any histories where those
    bindings agree, the observation is the same. *)
Theorem C13_search_history_independent : forall s1 s2 h d,
  same_bindings s1 s2 h -> pure_obs s1 (HSearch h d) = pure_obs s2 (HSearch h d).
Proof. exact search_history_independent. Qed.
Print Assumptions C13_search_history_independent.

(** Searches (successful or failing) leave no trace: the state after any number of them is the state before. *)
Theorem C13_search_leaves_state : forall st h d, fst (hstep st (HSearch h d)) = st.
Proof. exact search_leaves_state. Qed.
Print Assumptions C13_search_leaves_state.
Theorem C13_searches_leave_state : forall st qs,
  fold_left (fun s q => fst (hstep s (HSearch (fst q) (snd q)))) qs st = st.
Proof. exact searches_leave_state. Qed.
Print Assumptions C13_searches_leave_state.

(** A clone behaves like the original; a re-used expression like a freshly compiled one. *)
Theorem C13_clone_behaves_like_original : forall st h h2 d,
  zget (handles st) h <> None ->
  pure_obs (fst (hstep st (HClone h2 h))) (HSearch h2 d) = pure_obs st (HSearch h d).
Proof. exact clone_behaves_like_original. Qed.
Print Assumptions C13_clone_behaves_like_original.
Theorem C13_fresh_compile_same_as_reused : forall st h r text d a,
  parse text = Ok a -> rt_of st r <> None ->
  pure_obs (fst (hstep st (HCompile h r text))) (HSearch h d) =
    match rt_of st r with Some rt => OSearched text (search_ast search_fuel rt a d) | None => OBadHandle end.
Proof. exact fresh_compile_same_as_reused. Qed.
Print Assumptions C13_fresh_compile_same_as_reused.

Example C13_example :
  let ops := [HCompile 1 0 [97]; HSearch 1 (VObj [([97], VNum (PosInt 1))]); HSearch 1 VNull; HClone 2 1; HDrop 1;
              HSearch 2 (VObj [([97], VNum (PosInt 1))])] in
  nth 1 (hrun h0 ops) ONone = nth 5 (hrun h0 ops) ONone /\ nth 1 (hrun h0 ops) ONone = OSearched [97] (Ok (VNum (PosInt 1))).
Proof. vm_compute. split; reflexivity. Qed.
