(** C04 — operators bind by the documented precedence (partial: the proof that
    the parser realises the order — soundness/completeness w.r.t. the CST
    grammar of DESIGN.md 4.1 — is not machine-checked yet; trees are decided by
    correspondence with the implementation and with the reference parser).
    Statements only. *)
From JP Require Import Base Value Lexer Parser Gen.Tables Spec.TableSpec Spec.Grammar Spec.Prec Proofs.PrattProof Proofs.GrammarProof.

(** The binding-power table and the projection-stop threshold extracted from
    lexer.rs / parser.rs on this run have the documented order. Any change of
    the relative order of two operators breaks this obligation; an
    order-preserving renumbering does not. *)
Theorem C04_table_order : table_order_ok gen_lbp gen_projection_stop = true.
Proof. vm_compute. reflexivity. Qed.
Print Assumptions C04_table_order.

(** The documented table the reference parser runs on has the documented order too
    (so the two tables order every pair of tokens the same way). *)
Theorem C04_spec_table_order : table_order_ok spec_lbp spec_stop = true.
Proof. exact spec_table_order. Qed.
Print Assumptions C04_spec_table_order.

(** The Pratt invariant of the parser (code and reference, any table): an operand
    parsed in a context of binding power [rbp] extends over every following
    operator that binds tighter — what follows it does not bind tighter than [rbp]. *)
Theorem C04_operand_extends_maximally : forall L STOP strict f rbp st t st',
  expr L STOP strict f rbp st = Ok (t, st') -> L (peek st' 0) <= rbp.
Proof. exact expr_extends_maximally. Qed.
Print Assumptions C04_operand_extends_maximally.

(** An accepted expression is one complete operand of the weakest context followed by the end of the input. *)
Theorem C04_accepts_whole_input_only : forall L STOP strict fuel toks t,
  parse_tokens L STOP strict fuel toks = Ok t ->
  exists st', expr L STOP strict fuel 0 (mkPst toks 0) = Ok (t, st') /\ peek st' 0 = TEof.
Proof. exact parse_tokens_consumes_all. Qed.
Print Assumptions C04_accepts_whole_input_only.

(** The tree the reference parser returns is the one the documented binding
    powers dictate: it is the abstract tree of a syntax tree of the expression in
    which every operand (right operand of a binary operator, operand of [!],
    right-hand side of a projection, what follows a dot, elements, arguments,
    predicates) has at its top level only operators that bind strictly tighter
    than the context it was read in ([prec], Spec/Prec.v, over the documented
    table) — with [C04_operand_extends_maximally] (no tighter operator is left
    unconsumed after an operand) this fixes the grouping of every pair of operators. *)
Theorem C04_reference_tree_respects_binding_powers : forall s t, ref_parse s = Ok t ->
  exists tokens c, tokenize s = Ok tokens /\ map snd tokens = flat c ++ [TEof] /\ erase c = t /\ wf c /\
                   prec (fun tk => spec_lbp (kind_of tk)) 0 c.
Proof. exact ref_parse_sound. Qed.
Print Assumptions C04_reference_tree_respects_binding_powers.

(** ... for any table, for the reference parser ([strict = true], trees of the
    grammar) and for the code's parser ([strict = false], trees of the extended
    language of C03) alike. *)
Theorem C04_tree_respects_binding_powers_any_table : forall L STOP strict fuel tokens t,
  parse_tokens L STOP strict fuel tokens = Ok t ->
  exists c rest, map snd tokens = flat c ++ rest /\ erase c = t /\ wfb (negb strict) c /\ prec L 0 c /\ hd TEof rest = TEof.
Proof. exact ref_parser_sound. Qed.
Print Assumptions C04_tree_respects_binding_powers_any_table.

(** In particular the code's own trees: every operand of the tree [compile]
    returns has only strictly tighter operators at its top level, over the table
    read from lexer.rs on this run. *)
Theorem C04_code_tree_respects_binding_powers : forall s t, parse s = Ok t ->
  exists tokens c, tokenize s = Ok tokens /\ map snd tokens = flat c ++ [TEof] /\ erase c = t /\ wfb true c /\ prec lbp 0 c.
Proof. exact code_parse_sound. Qed.
Print Assumptions C04_code_tree_respects_binding_powers.
